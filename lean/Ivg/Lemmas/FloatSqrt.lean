import Ivg.Lemmas.FloatMono
/-!
# The binary64 square root is correctly rounded

`Num.sqrt .f64 a` for a finite positive `a` scales the mantissa to `r = m·2^k` (112 or 113 bits, even
remaining exponent `2h`), takes the integer root `q = ⌊√r⌋` and rounds `q·2^h` with a sticky flag
`q² ≠ r`.  Since `√` is irrational in general the theorem is stated by enclosure:

  `sqrt_Rnd`: there are rationals `q1 ≤ q2` with `q1² ≤ val a ≤ q2²` (so `q1 ≤ √(val a) ≤ q2`)
  which BOTH round (`FloatOrder.Rnd`) to `Num.sqrt .f64 a`.

Rounding is monotone (`FloatOrder.Rnd_mono`), so the correct rounding of the real root — which lies
between the roundings of `q1` and of `q2` — is that pattern.  Consequences proved here:
`sqrt_sandwich` (every rational below the root rounds below the result, every rational above rounds above),
`sqrt_unique` (the sandwich determines the result), `sqrt_exact` (rational root ⇒ its rounding),
`sqrt_faithful` (no representable number lies strictly between the root and the result).
Special operands: `sqrt_zero`, `sqrt_negative`, `sqrt_posInf`, `sqrt_negInf`, `sqrt_nanB`.
-/
namespace Ivg.FloatSqrt
open Ivg Num FloatOrder FloatMono

/-! ## the gap above the integer root -/

/-- a rational `T/d` strictly inside the unit gap above the (≥ 54 bit) integer `q`, scaled by `2^h`,
    rounds to what `roundPack` makes of `q` with the sticky flag set -/
theorem Rnd_gap (q T d : Nat) (h : Int) (hq : 54 ≤ bitLen q) (hd : 0 < d) (hT : T / d = q)
    (hr : T % d ≠ 0) : Rnd ((T : ℚ) / d * pow2 h) (roundPack .f64 false q h true) := by
  have hT0 : 0 < T := by
    rcases Nat.eq_zero_or_pos T with h0 | h0
    · rw [h0] at hr; simp at hr
    · exact h0
  have hOk : Ok T d := ⟨hd, hT0, Or.inr (by rw [hT]; exact hq)⟩
  have h1 := Rnd_ratio false T d h hOk
  have h2 : rmag T d h = roundMag .f64 (2 * q + 1) (h - 1) := by
    unfold rmag; rw [if_neg hr, hT]
  have h3 : roundPack .f64 false q h true = withSign .f64 false (roundMag .f64 (2 * q + 1) (h - 1)) := by
    simp [roundPack]
  rw [h3, ← h2]
  simpa using h1

theorem below_root (Q R : ℚ) (hQ : 0 ≤ Q) (h : Q ^ 2 + 1 ≤ R) :
    ((Q * (2 * Q + 1) + 1) / (2 * Q + 1)) ^ 2 ≤ R := by
  have hd : (0 : ℚ) < 2 * Q + 1 := by linarith
  rw [div_pow, div_le_iff₀ (by positivity)]
  nlinarith [mul_nonneg hQ hQ, mul_pos hd hd]

theorem above_root (Q R : ℚ) (hQ : 0 ≤ Q) (h : R + 1 ≤ (Q + 1) ^ 2) :
    R ≤ ((Q * (2 * Q + 2) + (2 * Q + 1)) / (2 * Q + 2)) ^ 2 := by
  have hd : (0 : ℚ) < 2 * Q + 2 := by linarith
  rw [div_pow, le_div_iff₀ (by positivity)]
  nlinarith [mul_nonneg hQ hQ, mul_pos hd hd]

/-! ## the integer root of a 112/113-bit radicand -/

theorem root_bits (r : Nat) (hr : 2 ^ 111 ≤ r) : 56 ≤ bitLen (Nat.sqrt r) := by
  have h2 := Nat.lt_succ_sqrt r
  apply bitLen_ge
  by_contra hc
  have hq : Nat.sqrt r + 1 ≤ 2 ^ 55 := by omega
  have := Nat.mul_le_mul hq hq
  have e : (2:Nat) ^ 55 * 2 ^ 55 = 2 ^ 110 := by rw [← Nat.pow_add]
  have : (2:Nat) ^ 110 < 2 ^ 111 := by decide
  simp only [Nat.succ_eq_add_one] at h2
  omega

/-- the enclosure, for any admissible scaling `k` -/
theorem sqrt_core (m k : Nat) (e : Int) (hm0 : 0 < m) (hk : 112 ≤ bitLen m + k) (hev : (e - (k : Int)) % 2 = 0) :
    ∃ q1 q2 : ℚ, 0 < q1 ∧ q1 ≤ q2 ∧ q1 ^ 2 ≤ (m : ℚ) * pow2 e ∧ (m : ℚ) * pow2 e ≤ q2 ^ 2 ∧
      Rnd q1 (roundPack .f64 false (Nat.sqrt (m * 2 ^ k)) ((e - (k : Int)) / 2)
        (Nat.sqrt (m * 2 ^ k) * Nat.sqrt (m * 2 ^ k) != m * 2 ^ k)) ∧
      Rnd q2 (roundPack .f64 false (Nat.sqrt (m * 2 ^ k)) ((e - (k : Int)) / 2)
        (Nat.sqrt (m * 2 ^ k) * Nat.sqrt (m * 2 ^ k) != m * 2 ^ k)) := by
  have hbl : bitLen (m * 2 ^ k) = bitLen m + k := bitLen_mul_pow m k hm0
  have hr0 : 0 < m * 2 ^ k := Nat.mul_pos hm0 (Nat.two_pow_pos k)
  have hr111 : 2 ^ 111 ≤ m * 2 ^ k := by
    obtain ⟨h1, _, _⟩ := bitLen_bounds hr0
    have : (2:Nat) ^ 111 ≤ 2 ^ (bitLen (m * 2 ^ k) - 1) := Nat.pow_le_pow_right (by omega) (by omega)
    omega
  -- the value in terms of the radicand
  have hval : (m : ℚ) * pow2 e = ((m * 2 ^ k : Nat) : ℚ) * (pow2 ((e - (k : Int)) / 2)) ^ 2 := by
    have h1 : pow2 e = ((2 ^ k : Nat) : ℚ) * pow2 (e - k) := by
      have := pow2_split e (e - k) (by omega)
      have hk' : (e - (e - (k : Int))).toNat = k := by omega
      rw [hk'] at this; exact this
    have h2 : pow2 (e - k) = (pow2 ((e - (k : Int)) / 2)) ^ 2 := by
      rw [pow_two, ← pow2_add]; congr 1; omega
    rw [h1, h2]; push_cast; ring
  rw [hval]
  generalize (e - (k : Int)) / 2 = h
  generalize m * 2 ^ k = r at *
  have hq56 := root_bits r hr111
  have hle := Nat.sqrt_le r
  have hlt := Nat.lt_succ_sqrt r
  simp only [Nat.succ_eq_add_one] at hlt
  generalize Nat.sqrt r = q at *
  have hq0 : 0 < q := by
    rcases Nat.eq_zero_or_pos q with h0 | h0
    · rw [h0] at hq56; simp [bitLen] at hq56
    · exact h0
  have hp := pow2_pos h
  have hQ : (0 : ℚ) < q := by exact_mod_cast hq0
  by_cases hex : q * q = r
  · -- exact root
    have hb : (q * q != r) = false := by simp [hex]
    rw [hb]
    have hR := Rnd_int false q h (by omega)
    simp only [Bool.false_eq_true, if_false, one_mul] at hR
    refine ⟨(q : ℚ) * pow2 h, (q : ℚ) * pow2 h, by positivity, le_refl _, ?_, ?_, hR, hR⟩
    · rw [← hex]; push_cast; apply le_of_eq; ring
    · rw [← hex]; push_cast; apply le_of_eq; ring
  · have hb : (q * q != r) = true := by simp [hex]
    rw [hb]
    have hlo : ((q : ℚ)) ^ 2 + 1 ≤ r := by
      have : q * q + 1 ≤ r := by omega
      have : ((q * q + 1 : Nat) : ℚ) ≤ (r : ℚ) := by exact_mod_cast this
      push_cast at this; rw [pow_two]; exact this
    have hhi : (r : ℚ) + 1 ≤ ((q : ℚ) + 1) ^ 2 := by
      have : r + 1 ≤ (q + 1) * (q + 1) := by omega
      have : ((r + 1 : Nat) : ℚ) ≤ (((q + 1) * (q + 1) : Nat) : ℚ) := by exact_mod_cast this
      push_cast at this; rw [pow_two]; exact this
    have hd1 : 0 < 2 * q + 1 := by omega
    have hd2 : 0 < 2 * q + 2 := by omega
    have hT1 : (q * (2 * q + 1) + 1) / (2 * q + 1) = q := by
      rw [Nat.mul_comm q, Nat.mul_add_div hd1, Nat.div_eq_of_lt (by omega)]; rfl
    have hT1' : (q * (2 * q + 1) + 1) % (2 * q + 1) ≠ 0 := by
      rw [Nat.mul_comm q, Nat.mul_add_mod, Nat.mod_eq_of_lt (by omega)]; omega
    have hT2 : (q * (2 * q + 2) + (2 * q + 1)) / (2 * q + 2) = q := by
      rw [Nat.mul_comm q, Nat.mul_add_div hd2, Nat.div_eq_of_lt (by omega)]; rfl
    have hT2' : (q * (2 * q + 2) + (2 * q + 1)) % (2 * q + 2) ≠ 0 := by
      rw [Nat.mul_comm q, Nat.mul_add_mod, Nat.mod_eq_of_lt (by omega)]; omega
    have g1 := Rnd_gap q _ _ h (by omega) hd1 hT1 hT1'
    have g2 := Rnd_gap q _ _ h (by omega) hd2 hT2 hT2'
    have b1 := below_root q r (le_of_lt hQ) hlo
    have b2 := above_root q r (le_of_lt hQ) hhi
    push_cast at g1 g2
    refine ⟨_, _, ?_, ?_, ?_, ?_, g1, g2⟩
    · positivity
    · apply mul_le_mul_of_nonneg_right _ (le_of_lt hp)
      rw [div_le_div_iff₀ (by positivity) (by positivity)]
      nlinarith [mul_pos hQ hQ]
    · rw [mul_pow]; exact mul_le_mul_of_nonneg_right b1 (by positivity)
    · rw [mul_pow]; exact mul_le_mul_of_nonneg_right b2 (by positivity)

/-! ## `Num.sqrt` -/

theorem bval_pos_iff (a : Nat) : 0 < bval a ↔ negB64 a = false ∧ mantB a ≠ 0 := by
  unfold bval sval
  have hp := pow2_pos (expB a)
  constructor
  · intro h
    rcases hs : negB64 a with _ | _
    · refine ⟨rfl, ?_⟩
      intro h0; rw [h0] at h; simp at h
    · rw [hs] at h
      have : (0:ℚ) ≤ (mantB a : ℚ) * pow2 (expB a) := by positivity
      simp only [if_true] at h
      linarith
  · rintro ⟨hs, hm⟩
    rw [hs]
    have : (0:ℚ) < (mantB a : ℚ) := by
      have : 0 < mantB a := by omega
      exact_mod_cast this
    simp only [Bool.false_eq_true, if_false, one_mul]
    positivity

/-- **square root, finite positive operand**: the result is the common rounding of two rationals
    enclosing the real root -/
theorem sqrt_Rnd (a : Nat) (fa : FinB a) (hpos : 0 < bval a) :
    ∃ q1 q2 : ℚ, 0 < q1 ∧ q1 ≤ q2 ∧ q1 ^ 2 ≤ bval a ∧ bval a ≤ q2 ^ 2 ∧
      Rnd q1 (Num.sqrt .f64 a) ∧ Rnd q2 (Num.sqrt .f64 a) := by
  obtain ⟨hs, hm⟩ := (bval_pos_iff a).1 hpos
  have hm53 := mantB_lt a
  have hv : bval a = (mantB a : ℚ) * pow2 (expB a) := by
    unfold bval sval; rw [hs]; simp
  rw [hv]
  unfold Num.sqrt
  rw [unpack_fin a fa, hs]
  have h1 : (mantB a == 0) = false := by simp [hm]
  simp only [h1, Bool.false_eq_true, if_false, prec_f64]
  have hL : bitLen (mantB a) ≤ 53 := bitLen_le (k := 53) (by omega)
  generalize mantB a = m at *
  generalize expB a = e at *
  split
  · rename_i hc
    exact sqrt_core m _ e (by omega) (by omega) (by simpa using hc)
  · rename_i hc
    have hc' : ¬ (e - ((2 * 53 + 6 - bitLen m : Nat) : Int)) % 2 = 0 := by simpa using hc
    exact sqrt_core m _ e (by omega) (by omega) (by omega)

/-! ## consequences: sandwich, uniqueness, exact roots, faithfulness -/

theorem le_of_sq_le (x y : ℚ) (hy : 0 ≤ y) (h : x ^ 2 ≤ y ^ 2) : x ≤ y := by
  by_contra hc
  have : y < x := not_le.1 hc
  nlinarith

/-- every non-negative rational below the real root rounds below the result, every one above rounds above -/
theorem sqrt_sandwich (a : Nat) (fa : FinB a) (hpos : 0 < bval a) (x : ℚ) (c : Nat) (hx : 0 ≤ x)
    (hR : Rnd x c) :
    (x ^ 2 ≤ bval a → key c ≤ key (Num.sqrt .f64 a)) ∧ (bval a ≤ x ^ 2 → key (Num.sqrt .f64 a) ≤ key c) := by
  obtain ⟨q1, q2, h0, _, h1, h2, r1, r2⟩ := sqrt_Rnd a fa hpos
  constructor
  · intro h
    exact Rnd_mono _ _ _ _ hR r2 (le_of_sq_le x q2 (by linarith) (by linarith))
  · intro h
    exact Rnd_mono _ _ _ _ r1 hR (le_of_sq_le q1 x hx (by linarith))

/-- the sandwich property determines the result -/
theorem sqrt_unique (a : Nat) (fa : FinB a) (hpos : 0 < bval a) (b' : Nat)
    (h : ∀ (x : ℚ) (c : Nat), 0 ≤ x → Rnd x c →
      (x ^ 2 ≤ bval a → key c ≤ key b') ∧ (bval a ≤ x ^ 2 → key b' ≤ key c)) :
    key b' = key (Num.sqrt .f64 a) := by
  obtain ⟨q1, q2, h0, h12, h1, h2, r1, r2⟩ := sqrt_Rnd a fa hpos
  have := (h q1 _ (le_of_lt h0) r1).1 h1
  have := (h q2 _ (by linarith) r2).2 h2
  omega

theorem Rnd_pos_bits (v : ℚ) (b : Nat) (hv : 0 < v) (h : Rnd v b) : b ≤ 9218868437227405312 := by
  rcases h with ⟨h0, _⟩ | ⟨_, T, d, e, _, _, rfl⟩ | ⟨h0, _⟩
  · exact absurd h0 (ne_of_gt hv)
  · exact rmag_le_inf _ _ _
  · exact absurd h0 (not_lt.2 (le_of_lt hv))

/-- two roundings of the same positive rational coincide -/
theorem Rnd_pos_unique (v : ℚ) (b c : Nat) (hv : 0 < v) (hb : Rnd v b) (hc : Rnd v c) : b = c := by
  have h1 := Rnd_mono _ _ _ _ hb hc (le_refl _)
  have h2 := Rnd_mono _ _ _ _ hc hb (le_refl _)
  have b1 := Rnd_pos_bits v b hv hb
  have c1 := Rnd_pos_bits v c hv hc
  unfold key at h1 h2
  rw [if_neg (by omega), if_neg (by omega)] at h1 h2
  omega

/-- a rational root is rounded correctly: if `val a = x²` then the result is the rounding of `x` -/
theorem sqrt_exact (a : Nat) (fa : FinB a) (x : ℚ) (c : Nat) (hx : 0 < x) (hsq : bval a = x ^ 2)
    (hR : Rnd x c) : Num.sqrt .f64 a = c := by
  have hpos : 0 < bval a := by rw [hsq]; positivity
  obtain ⟨q1, q2, h0, h12, h1, h2, r1, r2⟩ := sqrt_Rnd a fa hpos
  have l1 : q1 ≤ x := le_of_sq_le q1 x (le_of_lt hx) (by linarith)
  have l2 : x ≤ q2 := le_of_sq_le x q2 (by linarith) (by linarith)
  have k1 := Rnd_mono _ _ _ _ r1 hR l1
  have k2 := Rnd_mono _ _ _ _ hR r2 l2
  have b1 := Rnd_pos_bits q1 _ h0 r1
  have c1 := Rnd_pos_bits x c hx hR
  unfold key at k1 k2
  rw [if_neg (by omega), if_neg (by omega)] at k1 k2
  omega

/-- **faithful**: a representable number whose square is at most (at least) the operand is at most (at least)
    the result -/
theorem sqrt_faithful (a c : Nat) (fa : FinB a) (hpos : 0 < bval a) (hc : c < 18446744073709551616) (fc : FinB c)
    (hc0 : 0 ≤ bval c) :
    (bval c ^ 2 ≤ bval a → key c ≤ key (Num.sqrt .f64 a)) ∧ (bval a ≤ bval c ^ 2 → key (Num.sqrt .f64 a) ≤ key c) :=
  sqrt_sandwich a fa hpos (bval c) c hc0 (Rnd_self c hc fc)

/-- the result of a positive finite operand is a positive non-NaN pattern that fits 64 bits -/
theorem sqrt_bits (a : Nat) (fa : FinB a) (hpos : 0 < bval a) :
    0 < Num.sqrt .f64 a ∧ Num.sqrt .f64 a ≤ 9218868437227405312 := by
  obtain ⟨q1, q2, h0, _, _, _, r1, _⟩ := sqrt_Rnd a fa hpos
  refine ⟨?_, Rnd_pos_bits q1 _ h0 r1⟩
  -- the smallest positive subnormal has a square below every positive value? not needed: use `Rnd` monotone with 0
  by_contra hz
  have hz' : Num.sqrt .f64 a = 0 := by omega
  -- the root of the smallest positive number is far above the subnormal range; use faithfulness with `c = 1·2^-1074`
  have hb1 : bval 1 = pow2 (-1074) := by
    have e1 : negB64 1 = false := by decide
    have e2 : mantB 1 = 1 := by decide
    have e3 : expB 1 = -1074 := by decide
    unfold bval sval; rw [e1, e2, e3]; simp
  have hf := (sqrt_faithful a 1 fa hpos (by decide) (by decide) (by
    rw [hb1]; exact le_of_lt (pow2_pos _))).1
  have hmin : pow2 (-1074) ≤ bval a := by
    obtain ⟨hs, hm⟩ := (bval_pos_iff a).1 hpos
    have hge := expB_ge a
    unfold bval sval; rw [hs]
    simp only [Bool.false_eq_true, if_false, one_mul]
    have h1 : (1:ℚ) ≤ (mantB a : ℚ) := by
      have : 1 ≤ mantB a := by omega
      exact_mod_cast this
    have h2 : pow2 (-1074) ≤ pow2 (expB a) := by
      rw [pow2_split (expB a) (-1074) hge]
      have : (1:ℚ) ≤ ((2 ^ (expB a - -1074).toNat : Nat) : ℚ) := by
        have := Nat.two_pow_pos (expB a - -1074).toNat
        exact_mod_cast this
      have hp := pow2_pos (-1074)
      nlinarith
    have hp := pow2_pos (-1074)
    nlinarith
  have hsq : bval 1 ^ 2 ≤ bval a := by
    rw [hb1]
    have h3 : pow2 (-1074) ≤ 1 := by
      have := pow2_split 0 (-1074) (by omega)
      rw [pow2_zero] at this
      have h4 : (1:ℚ) ≤ ((2 ^ (0 - -1074 : Int).toNat : Nat) : ℚ) := by
        have := Nat.two_pow_pos (0 - -1074 : Int).toNat
        exact_mod_cast this
      have hp := pow2_pos (-1074)
      nlinarith
    have hp := pow2_pos (-1074)
    nlinarith
  have := hf hsq
  rw [hz'] at this
  have k1 : key 1 = 1 := by decide
  have k0 : key 0 = 0 := by decide
  omega

/-- the root of a finite positive number is finite (it is at most `2^512`) -/
theorem sqrt_finite (a : Nat) (fa : FinB a) (hpos : 0 < bval a) : FinB (Num.sqrt .f64 a) := by
  obtain ⟨hs, hm⟩ := (bval_pos_iff a).1 hpos
  have hfc : FinB 0x5FF0000000000000 := by decide
  have hvc : bval 0x5FF0000000000000 = 4503599627370496 * pow2 460 := by
    have e1 : negB64 0x5FF0000000000000 = false := by decide
    have e2 : mantB 0x5FF0000000000000 = 4503599627370496 := by decide
    have e3 : expB 0x5FF0000000000000 = 460 := by decide
    unfold bval sval; rw [e1, e2, e3]; simp
  have hp := pow2_pos 460
  have hc0 : 0 ≤ bval 0x5FF0000000000000 := by rw [hvc]; positivity
  have hle : bval a ≤ bval 0x5FF0000000000000 ^ 2 := by
    rw [hvc]
    have hm53 := mantB_lt a
    have he := expB_le a fa
    unfold bval sval; rw [hs]
    simp only [Bool.false_eq_true, if_false, one_mul]
    have h1 : (mantB a : ℚ) ≤ 9007199254740992 := by
      have : mantB a ≤ 9007199254740992 := by omega
      exact_mod_cast this
    have h2 : pow2 (expB a) ≤ pow2 971 := by
      rw [pow2_split 971 (expB a) he]
      have : (1:ℚ) ≤ ((2 ^ (971 - expB a).toNat : Nat) : ℚ) := by
        have := Nat.two_pow_pos (971 - expB a).toNat
        exact_mod_cast this
      have hp' := pow2_pos (expB a)
      nlinarith
    have h3 : pow2 971 = 2251799813685248 * (pow2 460 * pow2 460) := by
      rw [← pow2_add, show (460 : Int) + 460 = 920 by decide, pow2_split 971 920 (by decide)]
      have : ((2 ^ ((971 : Int) - 920).toNat : Nat) : ℚ) = 2251799813685248 := by
        rw [show ((971 : Int) - 920).toNat = 51 by decide]; norm_num
      rw [this]
    have hpe := pow2_pos (expB a)
    have hm0 : (0:ℚ) ≤ (mantB a : ℚ) := Nat.cast_nonneg _
    calc (mantB a : ℚ) * pow2 (expB a) ≤ 9007199254740992 * pow2 971 :=
          mul_le_mul h1 h2 (le_of_lt hpe) (by norm_num)
      _ = (4503599627370496 * pow2 460) ^ 2 := by rw [h3]; ring
  have hk := (sqrt_faithful a 0x5FF0000000000000 fa hpos (by decide) hfc hc0).2 hle
  have hb := sqrt_bits a fa hpos
  have kc : key 0x5FF0000000000000 = 6913025428013711360 := by decide
  unfold key at hk
  rw [if_neg (by omega), if_neg (by decide)] at hk
  unfold FinB; omega

/-! ## special operands -/

/-- `√(±0) = ±0` (the sign of zero is kept) -/
theorem sqrt_zero (a : Nat) (fa : FinB a) (h : mantB a = 0) : Num.sqrt .f64 a = a := by
  unfold Num.sqrt; rw [unpack_fin a fa, h]; rfl

theorem sqrt_pos_zero : Num.sqrt .f64 0 = 0 := by decide +kernel
theorem sqrt_neg_zero : Num.sqrt .f64 0x8000000000000000 = 0x8000000000000000 := by decide +kernel

theorem bval_neg_iff (a : Nat) : bval a < 0 ↔ negB64 a = true ∧ mantB a ≠ 0 := by
  unfold bval sval
  have hp := pow2_pos (expB a)
  constructor
  · intro h
    rcases hs : negB64 a with _ | _
    · rw [hs] at h
      have : (0:ℚ) ≤ (mantB a : ℚ) * pow2 (expB a) := by positivity
      simp only [Bool.false_eq_true, if_false, one_mul] at h
      linarith
    · refine ⟨rfl, ?_⟩
      intro h0; rw [h0] at h; simp at h
  · rintro ⟨hs, hm⟩
    rw [hs]
    have : (0:ℚ) < (mantB a : ℚ) := by
      have : 0 < mantB a := by omega
      exact_mod_cast this
    have : (0:ℚ) < (mantB a : ℚ) * pow2 (expB a) := by positivity
    simp only [if_true]
    linarith

/-- a negative finite operand gives the default NaN (x86 "real indefinite") -/
theorem sqrt_negative (a : Nat) (fa : FinB a) (hneg : bval a < 0) :
    Num.sqrt .f64 a = 0xFFF8000000000000 := by
  obtain ⟨hs, hm⟩ := (bval_neg_iff a).1 hneg
  unfold Num.sqrt; rw [unpack_fin a fa, hs]
  have h1 : (mantB a == 0) = false := by simp [hm]
  simp only [h1, Bool.false_eq_true, if_false, if_true]
  decide

theorem sqrt_posInf : Num.sqrt .f64 0x7FF0000000000000 = 0x7FF0000000000000 := by decide +kernel
theorem sqrt_negInf : Num.sqrt .f64 0xFFF0000000000000 = 0xFFF8000000000000 := by decide +kernel

/-- a NaN operand is returned quieted (payload and sign kept, quiet bit set) -/
theorem sqrt_nanB (a : Nat) (h : ¬ NNB a) : Num.sqrt .f64 a = quiet .f64 a := by
  unfold Num.sqrt; rw [unpack_nan a h]

theorem quiet_f64 (b : Nat) :
    quiet .f64 b = if b / 2251799813685248 % 2 = 1 then b else b + 2251799813685248 := by
  have : Fmt.f64.quietBit = 2251799813685248 := by decide
  unfold quiet; rw [this]; simp

/-- every result fits 64 bits, so the `F64` wrapper does not truncate -/
theorem sqrt_lt (a : Nat) (ha : a < 18446744073709551616) : Num.sqrt .f64 a < 18446744073709551616 := by
  by_cases hn : NNB a
  · by_cases hf : FinB a
    · rcases lt_trichotomy (bval a) 0 with h | h | h
      · rw [sqrt_negative a hf h]; decide
      · have : mantB a = 0 := by
          by_contra hm
          rcases hs : negB64 a with _ | _
          · have := (bval_pos_iff a).2 ⟨hs, hm⟩; linarith
          · have := (bval_neg_iff a).2 ⟨hs, hm⟩; linarith
        rw [sqrt_zero a hf this]; exact ha
      · have := (sqrt_bits a hf h).2; omega
    · unfold FinB at hf; unfold NNB at hn
      have : a = 0x7FF0000000000000 ∨ a = 0xFFF0000000000000 := by omega
      rcases this with rfl | rfl
      · rw [sqrt_posInf]; decide
      · rw [sqrt_negInf]; decide
  · rw [sqrt_nanB a hn]; exact (quiet_nan a ha hn).2

theorem sqrt_nb (a : F64) : a.sqrt.nb = Num.sqrt .f64 a.nb :=
  nb_ofNatBits _ (sqrt_lt _ (nb_lt a))

/-- `F64` form of `sqrt_Rnd` -/
theorem sqrt_F64 (a : F64) (fa : FloatMono.Fin a) (hpos : 0 < val a) :
    ∃ q1 q2 : ℚ, 0 < q1 ∧ q1 ≤ q2 ∧ q1 ^ 2 ≤ val a ∧ val a ≤ q2 ^ 2 ∧ Rnd q1 a.sqrt.nb ∧ Rnd q2 a.sqrt.nb := by
  rw [sqrt_nb]; exact sqrt_Rnd a.nb fa hpos

/-! ## non-vacuity -/

-- √2: finite positive operand
example : FinB 0x4000000000000000 ∧ 0 < bval 0x4000000000000000 :=
  ⟨by decide, (bval_pos_iff _).2 ⟨by decide, by decide⟩⟩
example : Num.sqrt .f64 0x4000000000000000 = 0x3FF6A09E667F3BCD := by decide +kernel
-- exact root √4 = 2, subnormal operand, largest finite operand
example : Num.sqrt .f64 0x4010000000000000 = 0x4000000000000000 := by decide +kernel
example : Num.sqrt .f64 1 = 0x1E60000000000000 := by decide +kernel
example : Num.sqrt .f64 0x7FEFFFFFFFFFFFFF = 0x5FEFFFFFFFFFFFFF := by decide +kernel
-- negative finite operand
example : FinB 0xBFF0000000000000 ∧ bval 0xBFF0000000000000 < 0 :=
  ⟨by decide, (bval_neg_iff _).2 ⟨by decide, by decide⟩⟩
-- a signalling NaN is quieted
example : ¬ NNB 0x7FF0000000000001 ∧ Num.sqrt .f64 0x7FF0000000000001 = 0x7FF8000000000001 :=
  ⟨by decide, by decide +kernel⟩

end Ivg.FloatSqrt
