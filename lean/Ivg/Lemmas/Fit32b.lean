import Ivg.Lemmas.Fit32
/-!
# C12 at `F32`, continued: placement `minX := (d − s)·a; maxX := minX + s`
-/
namespace Ivg.Fit32
open Ivg Num FloatOrder32 FloatMono32 FloatErr

/-- `AspectMeet`/`AspectSlice`'s placement of a side of length `s` in a target side `d` with alignment `a` -/
def place (d s a : F32) : F32 × F32 := ((d - s) * a, (d - s) * a + s)

/-! ## the rounding facts of one placement, abstractly -/

/-- `t = fl(D − s)`, `m = fl(t·a)`, `x = fl(m + s)` -/
structure PlaceQ (D s a t m x : ℚ) : Prop where
  ht : |t - (D - s)| ≤ u * |D - s|
  hm : |m - t * a| ≤ u * |t| ∨ |m - t * a| ≤ u * minN
  hpos : 0 ≤ t → 0 ≤ m ∧ m ≤ t
  hneg : t ≤ 0 → t ≤ m ∧ m ≤ 0
  hx : |x - (m + s)| ≤ u * |m + s|

theorem abs_unit_mul {a z b : ℚ} (ha0 : 0 ≤ a) (ha1 : a ≤ 1) (h : |z| ≤ b) : |a * z| ≤ b := by
  rw [abs_mul, abs_of_nonneg ha0]
  exact le_trans (mul_le_of_le_one_left (abs_nonneg z) ha1) h

/-- sign preservation and the size of `t = fl(D − s)` -/
theorem PlaceQ.t_facts {D s a t m x : ℚ} (h : PlaceQ D s a t m x) (hD : 0 < D) (hs : 0 < s) :
    |t - (D - s)| ≤ u * (D + s) ∧ |t| ≤ (1 + u) * (D + s) ∧ (0 ≤ D - s → 0 ≤ t) ∧ (D - s ≤ 0 → t ≤ 0) := by
  have ht := h.ht
  unfold u at *
  rcases le_total 0 (D - s) with hc | hc
  · rw [abs_of_nonneg hc] at ht
    obtain ⟨h1, h2⟩ := abs_le.1 ht
    refine ⟨abs_le.2 ⟨by linarith, by linarith⟩, abs_le.2 ⟨by linarith, by linarith⟩,
      fun _ => by linarith, fun h' => by linarith⟩
  · rw [abs_of_nonpos hc] at ht
    obtain ⟨h1, h2⟩ := abs_le.1 ht
    refine ⟨abs_le.2 ⟨by linarith, by linarith⟩, abs_le.2 ⟨by linarith, by linarith⟩,
      fun h' => by linarith, fun _ => by linarith⟩

/-- the two roundings of `minX` against the exact product `a·(D − s)` -/
theorem PlaceQ.min_err {D s a t m x : ℚ} (h : PlaceQ D s a t m x) (hD : 0 < D) (hs : 0 < s)
    (ha0 : 0 ≤ a) (ha1 : a ≤ 1) (hN : minN ≤ D) :
    |m - a * (D - s)| ≤ (2 * u + u * u) * (D + s) := by
  obtain ⟨t1, t2, _, _⟩ := h.t_facts hD hs
  have haz := abs_unit_mul ha0 ha1 t1
  have e : t * a = a * (D - s) + a * (t - (D - s)) := by ring
  have hm : |m - (a * (D - s) + a * (t - (D - s)))| ≤ u * (1 + u) * (D + s) := by
    rw [← e]
    rcases h.hm with h1 | h1
    · refine le_trans h1 ?_
      rw [mul_assoc]; exact mul_le_mul_of_nonneg_left t2 u_pos.le
    · refine le_trans h1 ?_
      have : minN ≤ (1 + u) * (D + s) := by unfold u; nlinarith
      rw [mul_assoc]; exact mul_le_mul_of_nonneg_left this u_pos.le
  obtain ⟨a1, a2⟩ := abs_le.1 haz
  obtain ⟨b1, b2⟩ := abs_le.1 hm
  unfold u at *
  exact abs_le.2 ⟨by linarith, by linarith⟩

/-- `minX + s` lies between `s` and `t + s ≈ D` -/
theorem PlaceQ.sum_facts {D s a t m x : ℚ} (h : PlaceQ D s a t m x) (hD : 0 < D) (hs : 0 < s) :
    |m + s| ≤ (1 + u) * (D + s) := by
  obtain ⟨t1, t2, _, _⟩ := h.t_facts hD hs
  obtain ⟨a1, a2⟩ := abs_le.1 t1
  unfold u at *
  rcases le_total 0 t with hc | hc
  · obtain ⟨m1, m2⟩ := h.hpos hc
    exact abs_le.2 ⟨by linarith, by linarith⟩
  · obtain ⟨m1, m2⟩ := h.hneg hc
    exact abs_le.2 ⟨by linarith, by linarith⟩

/-- **alignment** (clause d, third part): with `|s − S| ≤ 3u·S` for the exact side `S`, the computed minimum
    is within `6u·(D + S)` of `a·(D − S)` and the computed maximum within `7u·(D + S)` of `a·(D − S) + S` -/
theorem PlaceQ.align {D s a t m x S : ℚ} (h : PlaceQ D s a t m x) (hD : 0 < D) (hs : 0 < s)
    (ha0 : 0 ≤ a) (ha1 : a ≤ 1) (hN : minN ≤ D) (hS : 0 < S) (hsS : |s - S| ≤ 3 * u * S) :
    |m - a * (D - S)| ≤ 6 * u * (D + S) ∧ |x - (a * (D - S) + S)| ≤ 7 * u * (D + S) := by
  have e1 := h.min_err hD hs ha0 ha1 hN
  have e2 := h.sum_facts hD hs
  have hx := le_trans h.hx (mul_le_mul_of_nonneg_left e2 u_pos.le)
  have haS : |a * (s - S)| ≤ 3 * u * S := abs_unit_mul ha0 ha1 hsS
  have haS' : |(1 - a) * (s - S)| ≤ 3 * u * S := abs_unit_mul (by linarith) (by linarith) hsS
  have q1 : a * (D - S) = a * (D - s) + a * (s - S) := by ring
  have q2 : a * (D - S) + S = a * (D - s) + s - (1 - a) * (s - S) := by ring
  rw [q2, q1]
  obtain ⟨s1, s2⟩ := abs_le.1 hsS
  obtain ⟨b1, b2⟩ := abs_le.1 e1
  obtain ⟨c1, c2⟩ := abs_le.1 hx
  obtain ⟨d1, d2⟩ := abs_le.1 haS
  obtain ⟨f1, f2⟩ := abs_le.1 haS'
  unfold u at *
  constructor
  · exact abs_le.2 ⟨by linarith, by linarith⟩
  · exact abs_le.2 ⟨by linarith, by linarith⟩

/-- **containment, meet** (clause d, first part): if the exact side fits (`S ≤ D`), the computed side lies in
    the target side enlarged by `4u·D` below and `5u·D` above -/
theorem PlaceQ.inside {D s a t m x S : ℚ} (h : PlaceQ D s a t m x) (hD : 0 < D) (hs : 0 < s)
    (_hS : 0 < S) (hsS : |s - S| ≤ 3 * u * S) (hfit : S ≤ D) :
    -(4 * u * D) ≤ m ∧ x ≤ (1 + 5 * u) * D := by
  obtain ⟨t1, t2, t3, t4⟩ := h.t_facts hD hs
  obtain ⟨s1, s2⟩ := abs_le.1 hsS
  obtain ⟨a1, a2⟩ := abs_le.1 t1
  have ht := h.ht
  have hx := h.hx
  unfold u at *
  -- 0 ≤ m + s ≤ (1+3u) D
  have hms : 0 ≤ m + s ∧ m + s ≤ (1 + 3 * (1 / 16777216)) * D ∧ -(4 * (1 / 16777216) * D) ≤ m := by
    rcases le_total 0 (D - s) with hc | hc
    · have ht0 := t3 hc
      obtain ⟨m1, m2⟩ := h.hpos ht0
      rw [abs_of_nonneg hc] at ht
      obtain ⟨g1, g2⟩ := abs_le.1 ht
      refine ⟨by linarith, by linarith, by linarith⟩
    · have ht0 := t4 hc
      obtain ⟨m1, m2⟩ := h.hneg ht0
      rw [abs_of_nonpos hc] at ht
      obtain ⟨g1, g2⟩ := abs_le.1 ht
      refine ⟨by linarith, by linarith, by linarith⟩
  rw [abs_of_nonneg hms.1] at hx
  obtain ⟨c1, c2⟩ := abs_le.1 hx
  exact ⟨hms.2.2, by linarith⟩

/-- **covering, slice** (clause d, second part): if the exact side covers (`D ≤ S`), the computed minimum is at
    most `4u·D` and the computed maximum at least `D − 6u·(D + S)` — an error relative to the FITTED side,
    which for `S ≫ D` is not small relative to the target (see `slice_far_right`) -/
theorem PlaceQ.covers {D s a t m x S : ℚ} (h : PlaceQ D s a t m x) (hD : 0 < D) (hs : 0 < s)
    (hS : 0 < S) (hsS : |s - S| ≤ 3 * u * S) (hcov : D ≤ S) :
    m ≤ 4 * u * D ∧ D - 6 * u * (D + S) ≤ x := by
  obtain ⟨t1, t2, t3, t4⟩ := h.t_facts hD hs
  obtain ⟨s1, s2⟩ := abs_le.1 hsS
  obtain ⟨a1, a2⟩ := abs_le.1 t1
  have e2 := h.sum_facts hD hs
  have hx := le_trans h.hx (mul_le_mul_of_nonneg_left e2 u_pos.le)
  obtain ⟨c1, c2⟩ := abs_le.1 hx
  have ht := h.ht
  unfold u at *
  rcases le_total 0 (D - s) with hc | hc
  · have ht0 := t3 hc
    obtain ⟨m1, m2⟩ := h.hpos ht0
    rw [abs_of_nonneg hc] at ht
    obtain ⟨g1, g2⟩ := abs_le.1 ht
    exact ⟨by linarith, by linarith⟩
  · have ht0 := t4 hc
    obtain ⟨m1, m2⟩ := h.hneg ht0
    rw [abs_of_nonpos hc] at ht
    obtain ⟨g1, g2⟩ := abs_le.1 ht
    exact ⟨by linarith, by linarith⟩


/-! ## the float placement satisfies them -/

theorem bval_zero0 : bval 0 = 0 := bval_zero 0 (by decide)

/-- a product with a fraction `a ∈ [0,1]` rounds to something between `0` and the other factor -/
theorem mul_frac_between {t a : F32} (ft : Fn t) (fa : Fn a) (fm : Fn (t * a)) (ha0 : 0 ≤ val a) (ha1 : val a ≤ 1) :
    (0 ≤ val t → 0 ≤ val (t * a) ∧ val (t * a) ≤ val t) ∧ (val t ≤ 0 → val t ≤ val (t * a) ∧ val (t * a) ≤ 0) := by
  have hR := mul_nb ft fa
  have f0 : FinB 0 := by decide
  constructor
  · intro h
    have h1 : 0 ≤ val t * val a := mul_nonneg h ha0
    have h2 : val t * val a ≤ val t := mul_le_of_le_one_right h ha1
    have r1 := Rnd_ge_repr _ _ 0 hR fm (by norm_num) f0 (by rw [bval_zero0]; exact h1)
    rw [bval_zero0] at r1
    exact ⟨r1, Rnd_le_repr _ _ t.nb hR fm (nb_lt t) ft h2⟩
  · intro h
    have h1 : val t * val a ≤ 0 := mul_nonpos_of_nonpos_of_nonneg h ha0
    have h2 : val t ≤ val t * val a := by
      have := mul_le_mul_of_nonpos_left ha1 h
      linarith
    have r1 := Rnd_le_repr _ _ 0 hR fm (by norm_num) f0 (by rw [bval_zero0]; exact h1)
    rw [bval_zero0] at r1
    exact ⟨Rnd_ge_repr _ _ t.nb hR fm (nb_lt t) ft h2, r1⟩

/-- the three float operations of one placement: finiteness and the rounding facts -/
theorem place_float {d s a : F32} (fd : Fn d) (fs : Fn s) (fa : Fn a) (hd : 0 < val d) (hs : 0 < val s)
    (ha0 : 0 ≤ val a) (ha1 : val a ≤ 1) (hsum : val d + val s ≤ maxv / 3) :
    Fn (place d s a).1 ∧ Fn (place d s a).2 ∧
    PlaceQ (val d) (val s) (val a) (val (d - s)) (val (place d s a).1) (val (place d s a).2) := by
  unfold place
  have hmax := maxv_pos
  have hb1 : |val d - val s| ≤ val d + val s := abs_le.2 ⟨by linarith, by linarith⟩
  obtain ⟨ft, et⟩ := sub_err fd fs (by linarith)
  have hta : |val (d - s) * val a| ≤ |val (d - s)| := by
    rw [abs_mul, abs_of_nonneg ha0]; exact mul_le_of_le_one_right (abs_nonneg _) ha1
  obtain ⟨fm, em⟩ := mul_err ft fa (le_trans hta (abs_val_le_maxv ft))
  obtain ⟨bp, bn⟩ := mul_frac_between ft fa fm ha0 ha1
  have hm : |val ((d - s) * a) - val (d - s) * val a| ≤ u * |val (d - s)| ∨
      |val ((d - s) * a) - val (d - s) * val a| ≤ u * minN := by
    rcases em with h | ⟨_, h⟩
    · left
      exact le_trans h (mul_le_mul_of_nonneg_left hta u_pos.le)
    · right; exact h
  -- no overflow in the final sum
  have hms : |val ((d - s) * a) + val s| ≤ maxv := by
    have e1 : |val (d - s)| ≤ (1 + u) * (val d + val s) := by
      have := abs_le.1 (le_trans et (mul_le_mul_of_nonneg_left hb1 u_pos.le))
      have := abs_le.1 hb1
      unfold u at *
      exact abs_le.2 ⟨by linarith, by linarith⟩
    obtain ⟨g1, g2⟩ := abs_le.1 e1
    unfold u at *
    rcases le_total 0 (val (d - s)) with hc | hc
    · obtain ⟨m1, m2⟩ := bp hc
      exact abs_le.2 ⟨by linarith, by linarith⟩
    · obtain ⟨m1, m2⟩ := bn hc
      exact abs_le.2 ⟨by linarith, by linarith⟩
  obtain ⟨fx, ex⟩ := add_err fm fs hms
  exact ⟨fm, fx, et, hm, bp, bn, ex⟩

/-- a finite float of non-zero value is determined by its value -/
theorem eq_of_val_eq {a b : F32} (fa : Fn a) (fb : Fn b) (h : val a = val b) (h0 : val a ≠ 0) : a = b := by
  have k1 := (key_le_iff a.nb b.nb (nb_lt a) (nb_lt b) fa fb).2 (le_of_eq h)
  have k2 := (key_le_iff b.nb a.nb (nb_lt b) (nb_lt a) fb fa).2 (le_of_eq h.symm)
  rcases key_eq a.nb b.nb (nb_lt a) (nb_lt b) (by omega) with e | ⟨e, _⟩
  · exact ext_nb e
  · exact absurd (bval_zero a.nb e) h0

/-- **exactness** (clause c): in the dimension where the fitted side IS the target side, the computed minimum
    is zero and the computed maximum is the target side, bit for bit -/
theorem place_touch {d a : F32} (fd : Fn d) (fa : Fn a) (hd : 0 < val d) (ha0 : 0 ≤ val a) (ha1 : val a ≤ 1) :
    val (place d d a).1 = 0 ∧ (place d d a).2 = d := by
  unfold place
  obtain ⟨ft, et⟩ := sub_err fd fd (by rw [sub_self, abs_zero]; exact maxv_pos.le)
  rw [sub_self, abs_zero, mul_zero, sub_zero] at et
  have ht : val (d - d) = 0 := abs_eq_zero.1 (le_antisymm et (abs_nonneg _))
  have hmax := maxv_pos
  obtain ⟨fm, _⟩ := mul_err ft fa (by rw [ht, zero_mul, abs_zero]; exact hmax.le)
  obtain ⟨bp, _⟩ := mul_frac_between ft fa fm ha0 ha1
  obtain ⟨m1, m2⟩ := bp (le_of_eq ht.symm)
  have hm : val ((d - d) * a) = 0 := le_antisymm (by rw [ht] at m2; exact m2) m1
  have hR := add_nb fm fd
  rw [hm, zero_add] at hR
  have hv : val ((d - d) * a + d) = val d := Rnd_repr _ _ d.nb hR (nb_lt d) fd rfl
  have fx : Fn ((d - d) * a + d) := Rnd_fin _ _ hR (abs_val_le_maxv fd)
  exact ⟨hm, eq_of_val_eq fx fd hv (by rw [hv]; exact ne_of_gt hd)⟩

end Ivg.Fit32
