import Ivg.Lemmas.Fit32
/-!
# C12 at `F32`, continued: placement `minX := (d − s)·a; maxX := minX + s` (meet),
`minX := (d − s)·a; maxX := d − (d − s)·(1 − a)` (slice)
-/
namespace Ivg.Fit32
open Ivg Num FloatOrder32 FloatMono32 FloatErr

/-- `AspectMeet`/`AspectSlice`'s placement of a side of length `s` in a target side `d` with alignment `a` -/
def place (d s a : F32) : F32 × F32 := ((d - s) * a, (d - s) * a + s)

/-! ## the rounding facts of one placement, abstractly -/

/-- `t = fl(D − s)`, `m = fl(t·a)`, `x = fl(m + s)` -/
structure PlaceQ (D s a t m x : ℚ) : Prop where
  ht : |t - (D - s)| ≤ u * |D - s|
  hm : |m - t * a| ≤ u * |t| ∨ |m - t * a| ≤ u * minN
  hpos : 0 ≤ t → 0 ≤ m ∧ m ≤ t
  hneg : t ≤ 0 → t ≤ m ∧ m ≤ 0
  hx : |x - (m + s)| ≤ u * |m + s|

theorem abs_unit_mul {a z b : ℚ} (ha0 : 0 ≤ a) (ha1 : a ≤ 1) (h : |z| ≤ b) : |a * z| ≤ b := by
  rw [abs_mul, abs_of_nonneg ha0]
  exact le_trans (mul_le_of_le_one_left (abs_nonneg z) ha1) h

/-- sign preservation and the size of `t = fl(D − s)` -/
theorem t_facts' {D s t : ℚ} (ht : |t - (D - s)| ≤ u * |D - s|) (hD : 0 < D) (hs : 0 < s) :
    |t - (D - s)| ≤ u * (D + s) ∧ |t| ≤ (1 + u) * (D + s) ∧ (0 ≤ D - s → 0 ≤ t) ∧ (D - s ≤ 0 → t ≤ 0) := by
  unfold u at *
  rcases le_total 0 (D - s) with hc | hc
  · rw [abs_of_nonneg hc] at ht
    obtain ⟨h1, h2⟩ := abs_le.1 ht
    refine ⟨abs_le.2 ⟨by linarith, by linarith⟩, abs_le.2 ⟨by linarith, by linarith⟩,
      fun _ => by linarith, fun h' => by linarith⟩
  · rw [abs_of_nonpos hc] at ht
    obtain ⟨h1, h2⟩ := abs_le.1 ht
    refine ⟨abs_le.2 ⟨by linarith, by linarith⟩, abs_le.2 ⟨by linarith, by linarith⟩,
      fun h' => by linarith, fun _ => by linarith⟩

theorem PlaceQ.t_facts {D s a t m x : ℚ} (h : PlaceQ D s a t m x) (hD : 0 < D) (hs : 0 < s) :
    |t - (D - s)| ≤ u * (D + s) ∧ |t| ≤ (1 + u) * (D + s) ∧ (0 ≤ D - s → 0 ≤ t) ∧ (D - s ≤ 0 → t ≤ 0) :=
  t_facts' h.ht hD hs

/-- the two roundings of `minX` against the exact product `a·(D − s)` -/
theorem min_err' {D s a t m : ℚ} (ht : |t - (D - s)| ≤ u * |D - s|)
    (hmm : |m - t * a| ≤ u * |t| ∨ |m - t * a| ≤ u * minN) (hD : 0 < D) (hs : 0 < s)
    (ha0 : 0 ≤ a) (ha1 : a ≤ 1) (hN : minN ≤ D) :
    |m - a * (D - s)| ≤ (2 * u + u * u) * (D + s) := by
  obtain ⟨t1, t2, _, _⟩ := t_facts' ht hD hs
  have haz := abs_unit_mul ha0 ha1 t1
  have e : t * a = a * (D - s) + a * (t - (D - s)) := by ring
  have hm : |m - (a * (D - s) + a * (t - (D - s)))| ≤ u * (1 + u) * (D + s) := by
    rw [← e]
    rcases hmm with h1 | h1
    · refine le_trans h1 ?_
      rw [mul_assoc]; exact mul_le_mul_of_nonneg_left t2 u_pos.le
    · refine le_trans h1 ?_
      have : minN ≤ (1 + u) * (D + s) := by unfold u; nlinarith
      rw [mul_assoc]; exact mul_le_mul_of_nonneg_left this u_pos.le
  obtain ⟨a1, a2⟩ := abs_le.1 haz
  obtain ⟨b1, b2⟩ := abs_le.1 hm
  unfold u at *
  exact abs_le.2 ⟨by linarith, by linarith⟩

theorem PlaceQ.min_err {D s a t m x : ℚ} (h : PlaceQ D s a t m x) (hD : 0 < D) (hs : 0 < s)
    (ha0 : 0 ≤ a) (ha1 : a ≤ 1) (hN : minN ≤ D) :
    |m - a * (D - s)| ≤ (2 * u + u * u) * (D + s) := min_err' h.ht h.hm hD hs ha0 ha1 hN

/-- `minX + s` lies between `s` and `t + s ≈ D` -/
theorem PlaceQ.sum_facts {D s a t m x : ℚ} (h : PlaceQ D s a t m x) (hD : 0 < D) (hs : 0 < s) :
    |m + s| ≤ (1 + u) * (D + s) := by
  obtain ⟨t1, t2, _, _⟩ := h.t_facts hD hs
  obtain ⟨a1, a2⟩ := abs_le.1 t1
  unfold u at *
  rcases le_total 0 t with hc | hc
  · obtain ⟨m1, m2⟩ := h.hpos hc
    exact abs_le.2 ⟨by linarith, by linarith⟩
  · obtain ⟨m1, m2⟩ := h.hneg hc
    exact abs_le.2 ⟨by linarith, by linarith⟩

/-- **alignment** (clause d, third part): with `|s − S| ≤ 3u·S` for the exact side `S`, the computed minimum
    is within `6u·(D + S)` of `a·(D − S)` and the computed maximum within `7u·(D + S)` of `a·(D − S) + S` -/
theorem PlaceQ.align {D s a t m x S : ℚ} (h : PlaceQ D s a t m x) (hD : 0 < D) (hs : 0 < s)
    (ha0 : 0 ≤ a) (ha1 : a ≤ 1) (hN : minN ≤ D) (hS : 0 < S) (hsS : |s - S| ≤ 3 * u * S) :
    |m - a * (D - S)| ≤ 6 * u * (D + S) ∧ |x - (a * (D - S) + S)| ≤ 7 * u * (D + S) := by
  have e1 := h.min_err hD hs ha0 ha1 hN
  have e2 := h.sum_facts hD hs
  have hx := le_trans h.hx (mul_le_mul_of_nonneg_left e2 u_pos.le)
  have haS : |a * (s - S)| ≤ 3 * u * S := abs_unit_mul ha0 ha1 hsS
  have haS' : |(1 - a) * (s - S)| ≤ 3 * u * S := abs_unit_mul (by linarith) (by linarith) hsS
  have q1 : a * (D - S) = a * (D - s) + a * (s - S) := by ring
  have q2 : a * (D - S) + S = a * (D - s) + s - (1 - a) * (s - S) := by ring
  rw [q2, q1]
  obtain ⟨s1, s2⟩ := abs_le.1 hsS
  obtain ⟨b1, b2⟩ := abs_le.1 e1
  obtain ⟨c1, c2⟩ := abs_le.1 hx
  obtain ⟨d1, d2⟩ := abs_le.1 haS
  obtain ⟨f1, f2⟩ := abs_le.1 haS'
  unfold u at *
  constructor
  · exact abs_le.2 ⟨by linarith, by linarith⟩
  · exact abs_le.2 ⟨by linarith, by linarith⟩

/-- **containment, meet** (clause d, first part): if the exact side fits (`S ≤ D`), the computed side lies in
    the target side enlarged by `4u·D` below and `5u·D` above -/
theorem PlaceQ.inside {D s a t m x S : ℚ} (h : PlaceQ D s a t m x) (hD : 0 < D) (hs : 0 < s)
    (_hS : 0 < S) (hsS : |s - S| ≤ 3 * u * S) (hfit : S ≤ D) :
    -(4 * u * D) ≤ m ∧ x ≤ (1 + 5 * u) * D := by
  obtain ⟨t1, t2, t3, t4⟩ := h.t_facts hD hs
  obtain ⟨s1, s2⟩ := abs_le.1 hsS
  obtain ⟨a1, a2⟩ := abs_le.1 t1
  have ht := h.ht
  have hx := h.hx
  unfold u at *
  -- 0 ≤ m + s ≤ (1+3u) D
  have hms : 0 ≤ m + s ∧ m + s ≤ (1 + 3 * (1 / 16777216)) * D ∧ -(4 * (1 / 16777216) * D) ≤ m := by
    rcases le_total 0 (D - s) with hc | hc
    · have ht0 := t3 hc
      obtain ⟨m1, m2⟩ := h.hpos ht0
      rw [abs_of_nonneg hc] at ht
      obtain ⟨g1, g2⟩ := abs_le.1 ht
      refine ⟨by linarith, by linarith, by linarith⟩
    · have ht0 := t4 hc
      obtain ⟨m1, m2⟩ := h.hneg ht0
      rw [abs_of_nonpos hc] at ht
      obtain ⟨g1, g2⟩ := abs_le.1 ht
      refine ⟨by linarith, by linarith, by linarith⟩
  rw [abs_of_nonneg hms.1] at hx
  obtain ⟨c1, c2⟩ := abs_le.1 hx
  exact ⟨hms.2.2, by linarith⟩

/-! ## the float placement satisfies them -/

theorem bval_zero0 : bval 0 = 0 := bval_zero 0 (by decide)

/-- a product with a fraction `a ∈ [0,1]` rounds to something between `0` and the other factor -/
theorem mul_frac_between {t a : F32} (ft : Fn t) (fa : Fn a) (fm : Fn (t * a)) (ha0 : 0 ≤ val a) (ha1 : val a ≤ 1) :
    (0 ≤ val t → 0 ≤ val (t * a) ∧ val (t * a) ≤ val t) ∧ (val t ≤ 0 → val t ≤ val (t * a) ∧ val (t * a) ≤ 0) := by
  have hR := mul_nb ft fa
  have f0 : FinB 0 := by decide
  constructor
  · intro h
    have h1 : 0 ≤ val t * val a := mul_nonneg h ha0
    have h2 : val t * val a ≤ val t := mul_le_of_le_one_right h ha1
    have r1 := Rnd_ge_repr _ _ 0 hR fm (by norm_num) f0 (by rw [bval_zero0]; exact h1)
    rw [bval_zero0] at r1
    exact ⟨r1, Rnd_le_repr _ _ t.nb hR fm (nb_lt t) ft h2⟩
  · intro h
    have h1 : val t * val a ≤ 0 := mul_nonpos_of_nonpos_of_nonneg h ha0
    have h2 : val t ≤ val t * val a := by
      have := mul_le_mul_of_nonpos_left ha1 h
      linarith
    have r1 := Rnd_le_repr _ _ 0 hR fm (by norm_num) f0 (by rw [bval_zero0]; exact h1)
    rw [bval_zero0] at r1
    exact ⟨Rnd_ge_repr _ _ t.nb hR fm (nb_lt t) ft h2, r1⟩

/-- the three float operations of one placement: finiteness and the rounding facts -/
theorem place_float {d s a : F32} (fd : Fn d) (fs : Fn s) (fa : Fn a) (hd : 0 < val d) (hs : 0 < val s)
    (ha0 : 0 ≤ val a) (ha1 : val a ≤ 1) (hsum : val d + val s ≤ maxv / 3) :
    Fn (place d s a).1 ∧ Fn (place d s a).2 ∧
    PlaceQ (val d) (val s) (val a) (val (d - s)) (val (place d s a).1) (val (place d s a).2) := by
  unfold place
  have hmax := maxv_pos
  have hb1 : |val d - val s| ≤ val d + val s := abs_le.2 ⟨by linarith, by linarith⟩
  obtain ⟨ft, et⟩ := sub_err fd fs (by linarith)
  have hta : |val (d - s) * val a| ≤ |val (d - s)| := by
    rw [abs_mul, abs_of_nonneg ha0]; exact mul_le_of_le_one_right (abs_nonneg _) ha1
  obtain ⟨fm, em⟩ := mul_err ft fa (le_trans hta (abs_val_le_maxv ft))
  obtain ⟨bp, bn⟩ := mul_frac_between ft fa fm ha0 ha1
  have hm : |val ((d - s) * a) - val (d - s) * val a| ≤ u * |val (d - s)| ∨
      |val ((d - s) * a) - val (d - s) * val a| ≤ u * minN := by
    rcases em with h | ⟨_, h⟩
    · left
      exact le_trans h (mul_le_mul_of_nonneg_left hta u_pos.le)
    · right; exact h
  -- no overflow in the final sum
  have hms : |val ((d - s) * a) + val s| ≤ maxv := by
    have e1 : |val (d - s)| ≤ (1 + u) * (val d + val s) := by
      have := abs_le.1 (le_trans et (mul_le_mul_of_nonneg_left hb1 u_pos.le))
      have := abs_le.1 hb1
      unfold u at *
      exact abs_le.2 ⟨by linarith, by linarith⟩
    obtain ⟨g1, g2⟩ := abs_le.1 e1
    unfold u at *
    rcases le_total 0 (val (d - s)) with hc | hc
    · obtain ⟨m1, m2⟩ := bp hc
      exact abs_le.2 ⟨by linarith, by linarith⟩
    · obtain ⟨m1, m2⟩ := bn hc
      exact abs_le.2 ⟨by linarith, by linarith⟩
  obtain ⟨fx, ex⟩ := add_err fm fs hms
  exact ⟨fm, fx, et, hm, bp, bn, ex⟩

/-- a finite float of non-zero value is determined by its value -/
theorem eq_of_val_eq {a b : F32} (fa : Fn a) (fb : Fn b) (h : val a = val b) (h0 : val a ≠ 0) : a = b := by
  have k1 := (key_le_iff a.nb b.nb (nb_lt a) (nb_lt b) fa fb).2 (le_of_eq h)
  have k2 := (key_le_iff b.nb a.nb (nb_lt b) (nb_lt a) fb fa).2 (le_of_eq h.symm)
  rcases key_eq a.nb b.nb (nb_lt a) (nb_lt b) (by omega) with e | ⟨e, _⟩
  · exact ext_nb e
  · exact absurd (bval_zero a.nb e) h0

/-- **exactness** (clause c): in the dimension where the fitted side IS the target side, the computed minimum
    is zero and the computed maximum is the target side, bit for bit -/
theorem place_touch {d a : F32} (fd : Fn d) (fa : Fn a) (hd : 0 < val d) (ha0 : 0 ≤ val a) (ha1 : val a ≤ 1) :
    val (place d d a).1 = 0 ∧ (place d d a).2 = d := by
  unfold place
  obtain ⟨ft, et⟩ := sub_err fd fd (by rw [sub_self, abs_zero]; exact maxv_pos.le)
  rw [sub_self, abs_zero, mul_zero, sub_zero] at et
  have ht : val (d - d) = 0 := abs_eq_zero.1 (le_antisymm et (abs_nonneg _))
  have hmax := maxv_pos
  obtain ⟨fm, _⟩ := mul_err ft fa (by rw [ht, zero_mul, abs_zero]; exact hmax.le)
  obtain ⟨bp, _⟩ := mul_frac_between ft fa fm ha0 ha1
  obtain ⟨m1, m2⟩ := bp (le_of_eq ht.symm)
  have hm : val ((d - d) * a) = 0 := le_antisymm (by rw [ht] at m2; exact m2) m1
  have hR := add_nb fm fd
  rw [hm, zero_add] at hR
  have hv : val ((d - d) * a + d) = val d := Rnd_repr _ _ d.nb hR (nb_lt d) fd rfl
  have fx : Fn ((d - d) * a + d) := Rnd_fin _ _ hR (abs_val_le_maxv fd)
  exact ⟨hm, eq_of_val_eq fx fd hv (by rw [hv]; exact ne_of_gt hd)⟩


/-! # Slice: the far edge is measured from the target's far edge -/

/-- `1 : F32` as the model writes it (`Arith.ofInt 1`) -/
def one32 : F32 := Arith.ofInt 1

theorem one32_bits : one32 = ⟨0x3F800000⟩ := by decide

theorem bval_one : bval 1065353216 = 1 := by
  have h1 : negB32 1065353216 = false := by decide
  have h2 : mantB 1065353216 = 8388608 := by decide
  have h3 : expB 1065353216 = -23 := by decide
  unfold bval sval; rw [h1, h2, h3]; unfold pow2; norm_num

theorem one32_fin : Fn one32 := by rw [one32_bits]; decide
theorem one32_val : val one32 = 1 := by
  rw [one32_bits]
  have : (⟨0x3F800000⟩ : F32).nb = 1065353216 := by decide
  unfold val; rw [this]; exact bval_one

/-- `AspectSlice`'s placement: `minX := (d − s)·a`, `maxX := d − (d − s)·(1 − a)` -/
def placeS (d s a : F32) : F32 × F32 := ((d - s) * a, d - (d - s) * (one32 - a))

/-- `t = fl(D − s)`, `m = fl(t·a)`, `b = fl(1 − a)`, `p = fl(t·b)`, `x = fl(D − p)` -/
structure SliceQ (D s a t m b p x : ℚ) : Prop where
  ht : |t - (D - s)| ≤ u * |D - s|
  hm : |m - t * a| ≤ u * |t| ∨ |m - t * a| ≤ u * minN
  hpos : 0 ≤ t → 0 ≤ m ∧ m ≤ t
  hneg : t ≤ 0 → t ≤ m ∧ m ≤ 0
  hb : |b - (1 - a)| ≤ u * |1 - a|
  hb01 : 0 ≤ b ∧ b ≤ 1
  hp : |p - t * b| ≤ u * |t| ∨ |p - t * b| ≤ u * minN
  hppos : 0 ≤ t → 0 ≤ p ∧ p ≤ t
  hpneg : t ≤ 0 → t ≤ p ∧ p ≤ 0
  hx : |x - (D - p)| ≤ u * |D - p|
  /-- monotone rounding against the representable `D` -/
  hxge : p ≤ 0 → D ≤ x
  hxle : 0 ≤ p → x ≤ D

/-- **exact covering** (no tolerance): if the float side is at least the target side, the computed minimum is
    `≤ 0` and the computed maximum is `≥ D` -/
theorem SliceQ.covers_exact {D s a t m b p x : ℚ} (h : SliceQ D s a t m b p x) (hD : 0 < D) (hs : 0 < s)
    (hcov : D ≤ s) : m ≤ 0 ∧ D ≤ x := by
  obtain ⟨_, _, _, t4⟩ := t_facts' h.ht hD hs
  have ht0 := t4 (by linarith)
  exact ⟨(h.hneg ht0).2, h.hxge (h.hpneg ht0).2⟩

/-- if the float side is below the target side by at most `k·D`, covering holds up to `(k+u)·D`-ish:
    for `k = 2u` (one rounding of the fitted side): minimum `≤ 3u·D`, maximum `≥ (1 − 4u)·D` -/
theorem SliceQ.covers_ulp {D s a t m b p x : ℚ} (h : SliceQ D s a t m b p x) (hD : 0 < D) (hs : 0 < s)
    (hnear : (1 - 2 * u) * D ≤ s) : m ≤ 3 * u * D ∧ (1 - 4 * u) * D ≤ x := by
  obtain ⟨t1, t2, t3, t4⟩ := t_facts' h.ht hD hs
  have ht := h.ht
  have hx := h.hx
  unfold u at *
  rcases le_total 0 (D - s) with hc | hc
  · have ht0 := t3 hc
    obtain ⟨m1, m2⟩ := h.hpos ht0
    obtain ⟨p1, p2⟩ := h.hppos ht0
    rw [abs_of_nonneg hc] at ht
    obtain ⟨g1, g2⟩ := abs_le.1 ht
    have hDp : 0 ≤ D - p := by linarith
    rw [abs_of_nonneg hDp] at hx
    obtain ⟨c1, c2⟩ := abs_le.1 hx
    exact ⟨by linarith, by linarith⟩
  · have ht0 := t4 hc
    have := h.hxge (h.hpneg ht0).2
    exact ⟨by linarith [(h.hneg ht0).2], by linarith⟩

/-- **covering relative to the target** (clause d for slice): if the exact side covers (`D ≤ S`) and
    `|s − S| ≤ 3u·S`: minimum `≤ 4u·D`, maximum `≥ (1 − 5u)·D` -/
theorem SliceQ.covers {D s a t m b p x S : ℚ} (h : SliceQ D s a t m b p x) (hD : 0 < D) (hs : 0 < s)
    (_hS : 0 < S) (hsS : |s - S| ≤ 3 * u * S) (hcov : D ≤ S) :
    m ≤ 4 * u * D ∧ (1 - 5 * u) * D ≤ x := by
  obtain ⟨t1, t2, t3, t4⟩ := t_facts' h.ht hD hs
  obtain ⟨s1, s2⟩ := abs_le.1 hsS
  have ht := h.ht
  have hx := h.hx
  unfold u at *
  rcases le_total 0 (D - s) with hc | hc
  · have ht0 := t3 hc
    obtain ⟨m1, m2⟩ := h.hpos ht0
    obtain ⟨p1, p2⟩ := h.hppos ht0
    rw [abs_of_nonneg hc] at ht
    obtain ⟨g1, g2⟩ := abs_le.1 ht
    have hDp : 0 ≤ D - p := by linarith
    rw [abs_of_nonneg hDp] at hx
    obtain ⟨c1, c2⟩ := abs_le.1 hx
    exact ⟨by linarith, by linarith⟩
  · have ht0 := t4 hc
    have := h.hxge (h.hpneg ht0).2
    exact ⟨by linarith [(h.hneg ht0).2], by linarith⟩

/-- **alignment** for slice: minimum within `6u·(D + S)` of `a·(D − S)`, maximum within `8u·(D + S)` of
    `a·(D − S) + S = D − (D − S)·(1 − a)` — necessarily relative to the size of the overflowing rectangle -/
theorem SliceQ.align {D s a t m b p x S : ℚ} (h : SliceQ D s a t m b p x) (hD : 0 < D) (hs : 0 < s)
    (ha0 : 0 ≤ a) (ha1 : a ≤ 1) (hN : minN ≤ D) (hS : 0 < S) (hsS : |s - S| ≤ 3 * u * S) :
    |m - a * (D - S)| ≤ 6 * u * (D + S) ∧ |x - (a * (D - S) + S)| ≤ 8 * u * (D + S) := by
  have e1 := min_err' h.ht h.hm hD hs ha0 ha1 hN
  obtain ⟨t1, t2, t3, t4⟩ := t_facts' h.ht hD hs
  -- the product `p` against `(D − s)·(1 − a)`
  have hb1 : |b - (1 - a)| ≤ u := by
    refine le_trans h.hb ?_
    rw [abs_of_nonneg (by linarith)]
    have := mul_le_mul_of_nonneg_left (by linarith : 1 - a ≤ 1) u_pos.le
    linarith
  have hp1 : |p - t * b| ≤ u * (1 + u) * (D + s) := by
    rcases h.hp with h1 | h1
    · refine le_trans h1 ?_
      rw [mul_assoc]; exact mul_le_mul_of_nonneg_left t2 u_pos.le
    · refine le_trans h1 ?_
      have : minN ≤ (1 + u) * (D + s) := by unfold u; nlinarith
      rw [mul_assoc]; exact mul_le_mul_of_nonneg_left this u_pos.le
  have hbz : |b * (t - (D - s))| ≤ u * (D + s) := abs_unit_mul h.hb01.1 h.hb01.2 t1
  have hDs : |D - s| ≤ D + s := abs_le.2 ⟨by linarith, by linarith⟩
  have hzb : |(D - s) * (b - (1 - a))| ≤ u * (D + s) := by
    rw [abs_mul]
    calc |D - s| * |b - (1 - a)| ≤ (D + s) * u := mul_le_mul hDs hb1 (abs_nonneg _) (by linarith)
      _ = u * (D + s) := mul_comm _ _
  have e : t * b = (D - s) * (1 - a) + b * (t - (D - s)) + (D - s) * (b - (1 - a)) := by ring
  rw [e] at hp1
  have haS : |a * (s - S)| ≤ 3 * u * S := abs_unit_mul ha0 ha1 hsS
  have haS' : |(1 - a) * (s - S)| ≤ 3 * u * S := abs_unit_mul (by linarith) (by linarith) hsS
  -- `|D − p| ≤ (1+u)(D+s)`
  have hDp : |D - p| ≤ (1 + u) * (D + s) := by
    obtain ⟨a1, a2⟩ := abs_le.1 t1
    unfold u at *
    rcases le_total 0 t with hc | hc
    · obtain ⟨p1, p2⟩ := h.hppos hc
      exact abs_le.2 ⟨by linarith, by linarith⟩
    · obtain ⟨p1, p2⟩ := h.hpneg hc
      exact abs_le.2 ⟨by linarith, by linarith⟩
  have hx := le_trans h.hx (mul_le_mul_of_nonneg_left hDp u_pos.le)
  have q1 : a * (D - S) = a * (D - s) + a * (s - S) := by ring
  have q2 : a * (D - S) + S = D - (D - s) * (1 - a) - (1 - a) * (s - S) := by ring
  rw [q2, q1]
  obtain ⟨s1, s2⟩ := abs_le.1 hsS
  obtain ⟨b1, b2⟩ := abs_le.1 e1
  obtain ⟨c1, c2⟩ := abs_le.1 hx
  obtain ⟨d1, d2⟩ := abs_le.1 haS
  obtain ⟨f1, f2⟩ := abs_le.1 haS'
  obtain ⟨g1, g2⟩ := abs_le.1 hp1
  obtain ⟨k1, k2⟩ := abs_le.1 hbz
  obtain ⟨l1, l2⟩ := abs_le.1 hzb
  unfold u at *
  constructor
  · exact abs_le.2 ⟨by linarith, by linarith⟩
  · exact abs_le.2 ⟨by linarith, by linarith⟩

/-! ## the float placement of slice satisfies them -/

theorem one_le_maxv : (1 : ℚ) ≤ maxv := by
  unfold maxv
  have : pow2 0 ≤ pow2 104 := pow2_mono (by omega)
  rw [pow2_zero] at this
  linarith

/-- `fl(1 − a)` for `a ∈ [0,1]`: finite, in `[0,1]`, relative error `u` -/
theorem one_sub_frac {a : F32} (fa : Fn a) (ha0 : 0 ≤ val a) (ha1 : val a ≤ 1) :
    Fn (one32 - a) ∧ |val (one32 - a) - (1 - val a)| ≤ u * |1 - val a| ∧
    0 ≤ val (one32 - a) ∧ val (one32 - a) ≤ 1 := by
  have h1 : |val one32 - val a| ≤ maxv := by
    rw [one32_val, abs_of_nonneg (by linarith)]; have := one_le_maxv; linarith
  obtain ⟨fb, eb⟩ := sub_err one32_fin fa h1
  have hR := sub_nb one32_fin fa
  rw [one32_val] at eb hR
  have f0 : FinB 0 := by decide
  have r0 := Rnd_ge_repr _ _ 0 hR fb (by norm_num) f0 (by rw [bval_zero0]; linarith)
  rw [bval_zero0] at r0
  have r1 := Rnd_le_repr _ _ one32.nb hR fb (nb_lt _) one32_fin (by
    show 1 - val a ≤ val one32
    rw [one32_val]; linarith)
  have : bval one32.nb = 1 := one32_val
  rw [this] at r1
  exact ⟨fb, eb, r0, r1⟩

/-- the five float operations of one slice placement: finiteness and the rounding facts -/
theorem placeS_float {d s a : F32} (fd : Fn d) (fs : Fn s) (fa : Fn a) (hd : 0 < val d) (hs : 0 < val s)
    (ha0 : 0 ≤ val a) (ha1 : val a ≤ 1) (hsum : val d + val s ≤ maxv / 3) :
    Fn (placeS d s a).1 ∧ Fn (placeS d s a).2 ∧
    SliceQ (val d) (val s) (val a) (val (d - s)) (val (placeS d s a).1) (val (one32 - a))
      (val ((d - s) * (one32 - a))) (val (placeS d s a).2) := by
  unfold placeS
  have hmax := maxv_pos
  have hb1 : |val d - val s| ≤ val d + val s := abs_le.2 ⟨by linarith, by linarith⟩
  obtain ⟨ft, et⟩ := sub_err fd fs (by linarith)
  have hta : |val (d - s) * val a| ≤ |val (d - s)| := by
    rw [abs_mul, abs_of_nonneg ha0]; exact mul_le_of_le_one_right (abs_nonneg _) ha1
  obtain ⟨fm, em⟩ := mul_err ft fa (le_trans hta (abs_val_le_maxv ft))
  obtain ⟨bp, bn⟩ := mul_frac_between ft fa fm ha0 ha1
  have hm : |val ((d - s) * a) - val (d - s) * val a| ≤ u * |val (d - s)| ∨
      |val ((d - s) * a) - val (d - s) * val a| ≤ u * minN := by
    rcases em with h | ⟨_, h⟩
    · left; exact le_trans h (mul_le_mul_of_nonneg_left hta u_pos.le)
    · right; exact h
  obtain ⟨fb, eb, b0, b1⟩ := one_sub_frac fa ha0 ha1
  have htb : |val (d - s) * val (one32 - a)| ≤ |val (d - s)| := by
    rw [abs_mul, abs_of_nonneg b0]; exact mul_le_of_le_one_right (abs_nonneg _) b1
  obtain ⟨fp, ep⟩ := mul_err ft fb (le_trans htb (abs_val_le_maxv ft))
  obtain ⟨pp, pn⟩ := mul_frac_between ft fb fp b0 b1
  have hp : |val ((d - s) * (one32 - a)) - val (d - s) * val (one32 - a)| ≤ u * |val (d - s)| ∨
      |val ((d - s) * (one32 - a)) - val (d - s) * val (one32 - a)| ≤ u * minN := by
    rcases ep with h | ⟨_, h⟩
    · left; exact le_trans h (mul_le_mul_of_nonneg_left htb u_pos.le)
    · right; exact h
  -- no overflow in the final difference
  have hdp : |val d - val ((d - s) * (one32 - a))| ≤ maxv := by
    have e1 : |val (d - s)| ≤ (1 + u) * (val d + val s) := by
      have := abs_le.1 (le_trans et (mul_le_mul_of_nonneg_left hb1 u_pos.le))
      have := abs_le.1 hb1
      unfold u at *
      exact abs_le.2 ⟨by linarith, by linarith⟩
    obtain ⟨g1, g2⟩ := abs_le.1 e1
    unfold u at *
    rcases le_total 0 (val (d - s)) with hc | hc
    · obtain ⟨m1, m2⟩ := pp hc
      exact abs_le.2 ⟨by linarith, by linarith⟩
    · obtain ⟨m1, m2⟩ := pn hc
      exact abs_le.2 ⟨by linarith, by linarith⟩
  obtain ⟨fx, ex⟩ := sub_err fd fp hdp
  have hR := sub_nb fd fp
  have xge : val ((d - s) * (one32 - a)) ≤ 0 → val d ≤ val (d - (d - s) * (one32 - a)) := fun h =>
    Rnd_ge_repr _ _ d.nb hR fx (nb_lt d) fd (by show val d ≤ _; linarith)
  have xle : 0 ≤ val ((d - s) * (one32 - a)) → val (d - (d - s) * (one32 - a)) ≤ val d := fun h =>
    Rnd_le_repr _ _ d.nb hR fx (nb_lt d) fd (by show _ ≤ val d; linarith)
  exact ⟨fm, fx, et, hm, bp, bn, eb, ⟨b0, b1⟩, hp, pp, pn, ex, xge, xle⟩

/-- **exactness** (clause c, slice): where the fitted side IS the target side, the computed minimum is zero and
    the computed maximum is the target side, bit for bit -/
theorem placeS_touch {d a : F32} (fd : Fn d) (fa : Fn a) (hd : 0 < val d) (ha0 : 0 ≤ val a) (ha1 : val a ≤ 1) :
    val (placeS d d a).1 = 0 ∧ (placeS d d a).2 = d := by
  unfold placeS
  obtain ⟨ft, et⟩ := sub_err fd fd (by rw [sub_self, abs_zero]; exact maxv_pos.le)
  rw [sub_self, abs_zero, mul_zero, sub_zero] at et
  have ht : val (d - d) = 0 := abs_eq_zero.1 (le_antisymm et (abs_nonneg _))
  have hmax := maxv_pos
  obtain ⟨fm, _⟩ := mul_err ft fa (by rw [ht, zero_mul, abs_zero]; exact hmax.le)
  obtain ⟨bp, _⟩ := mul_frac_between ft fa fm ha0 ha1
  obtain ⟨m1, m2⟩ := bp (le_of_eq ht.symm)
  have hm : val ((d - d) * a) = 0 := le_antisymm (by rw [ht] at m2; exact m2) m1
  obtain ⟨fb, _, b0, b1⟩ := one_sub_frac fa ha0 ha1
  obtain ⟨fp, _⟩ := mul_err ft fb (by rw [ht, zero_mul, abs_zero]; exact hmax.le)
  obtain ⟨pp, _⟩ := mul_frac_between ft fb fp b0 b1
  obtain ⟨p1, p2⟩ := pp (le_of_eq ht.symm)
  have hp : val ((d - d) * (one32 - a)) = 0 := le_antisymm (by rw [ht] at p2; exact p2) p1
  have hR := sub_nb fd fp
  rw [hp, sub_zero] at hR
  have hv : val (d - (d - d) * (one32 - a)) = val d := Rnd_repr _ _ d.nb hR (nb_lt d) fd rfl
  have fx : Fn (d - (d - d) * (one32 - a)) := Rnd_fin _ _ hR (abs_val_le_maxv fd)
  exact ⟨hm, eq_of_val_eq fx fd hv (by rw [hv]; exact ne_of_gt hd)⟩

end Ivg.Fit32
