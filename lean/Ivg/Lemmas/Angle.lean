import Ivg.Lemmas.Quantize
import Ivg.Lemmas.ZeroToOne
import Ivg.Lemmas.SpecDiv
/-!
# `angleNorm` (encode/buffer.go `encodeAngle`): `float32(g − floor g)`, `g = float64(f)`

* `angleNorm_id`: an already normalised angle `0 ≤ f < 1` is unchanged, bit for bit.
* `angle_mod1`: for every finite `f`, `angleNorm f` is the float32 nearest to the rational
  `f − ⌊f⌋` (`F32.ofRatio false N 2^149` with `N = (f − ⌊f⌋)·2^149` computed on integers).
-/
namespace Ivg.Angle
open Ivg Num Codec Quant

/-! ## `float32(float64(f)) = f` and `g − 0 = g` -/

theorem f64_sub_def (a b : F64) : a - b = F64.sub a b := rfl

theorem isNaN64_pack (s : Bool) (Q : Nat) (FE : Int) (hQ2 : Q < 9007199254740992) (h1 : -1074 ≤ FE)
    (h2 : FE + 1075 < 2047) : Num.isNaN .f64 (pack64 s Q FE) = false := by
  simp only [Num.isNaN, signBit_f64, infBits_f64, decide_eq_false_iff_not]
  unfold pack64
  split <;> omega

theorem unpack64_negzero : unpack .f64 9223372036854775808 = .fin true 0 (-1074) := by
  rw [unpack_f64]; simp [negB64]

/-- `g − (+0) = g` for a normal binary64 `g` -/
theorem sub_zero64 (s : Bool) (Q : Nat) (FE : Int) (hQ1 : 4503599627370496 ≤ Q)
    (hQ2 : Q < 9007199254740992) (h1 : -1074 ≤ FE) (h2 : FE + 1075 < 2047) :
    Num.sub .f64 (pack64 s Q FE) 0 = pack64 s Q FE := by
  have hn0 : Num.isNaN .f64 0 = false := by
    simp [Num.isNaN, signBit_f64, infBits_f64]
  have hneg : Num.neg .f64 0 = 9223372036854775808 := by
    simp [Num.neg, signBit_f64]
  unfold Num.sub
  rw [isNaN64_pack s Q FE hQ2 h1 h2, hn0, hneg]
  simp only [Bool.or_self, Bool.false_eq_true, if_false]
  have hu := unpack_pack64 s Q FE hQ1 hQ2 h1 h2
  rw [add_fin_fin _ _ _ _ _ _ _ _ _ hu unpack64_negzero]
  have he0 : (if FE ≤ -1074 then FE else -1074) = -1074 := by split <;> omega
  simp only [he0, Nat.zero_mul, if_true, Int.natCast_zero, Int.neg_zero, Int.add_zero]
  have hx0 : 0 < Q * 2^(FE - -1074).toNat := Nat.mul_pos (by omega) (Nat.two_pow_pos _)
  generalize hX : Q * 2^(FE - -1074).toNat = X at *
  have hz : ¬ ((if s then -(X : Int) else (X : Int)) == 0) = true := by
    simp only [beq_iff_eq]; split <;> omega
  rw [if_neg hz]
  have hsg : decide ((if s then -(X : Int) else (X : Int)) < 0) = s := by
    cases s
    · simp <;> omega
    · simp <;> omega
  have hab : (if s then -(X : Int) else (X : Int)).natAbs = X := by split <;> omega
  rw [hsg, hab, ← hX]
  apply roundPack64_exact _ _ _ _ _ hQ1 hQ2 h1 h2
  by_cases h : FE = -1074
  · left; refine ⟨by omega, ?_⟩
    subst h; simp
  · right; exact ⟨by omega, rfl⟩


/-- `float32(float64(f)) = f` on the packed form, normal case -/
theorem convert_back_normal (sg ex mt : Nat) (hs : sg < 2) (hex1 : 0 < ex) (hex2 : ex < 255)
    (hmt : mt < 8388608) :
    convert .f64 .f32 (pack64 (sg == 1) ((mt + 8388608) * 2^29) ((ex : Int) - 150 - 29)) =
      sg * 2147483648 + ex * 8388608 + mt := by
  have c29 : (2:Nat)^29 = 536870912 := by decide
  have hu := unpack_pack64 (sg == 1) ((mt + 8388608) * 2^29) ((ex : Int) - 150 - 29)
    (by rw [c29]; omega) (by rw [c29]; omega) (by omega) (by omega)
  have hn : (mt + 8388608) * 2^29 ≠ 0 := by rw [c29]; omega
  rw [convert_fin _ _ _ _ _ _ hu, roundPack_pos _ _ _ _ hn]
  have hr := roundMag_shr' (mt + 8388608) ((ex : Int) - 150 - 29) 29 (by omega) (by omega) (by omega)
    (Or.inl (by omega)) (by omega)
  rw [hr]
  clear c29
  have : ((ex : Int) - 150 - 29 + ((29 : Nat) : Int) + 149).toNat = ex - 1 := by omega
  rw [this, if_neg (by omega), Z2O.withSign32]
  have : sg = 0 ∨ sg = 1 := by omega
  rcases this with rfl | rfl
  · have : ((0 : Nat) == 1) = false := rfl
    rw [this]; simp only [Bool.false_eq_true, if_false]; omega
  · have : ((1 : Nat) == 1) = true := rfl
    rw [this]; simp only [if_true]; omega

/-- … subnormal case -/
theorem convert_back_sub (s : Bool) (mt j : Nat) (h1 : 2^j ≤ mt) (h2 : mt < 2^(j+1)) (hj : j ≤ 22)
    (hmt : mt < 8388608) :
    convert .f64 .f32 (pack64 s (mt * 2^(52 - j)) ((-149 : Int) - ((52 - j : Nat) : Int))) =
      (if s then 2147483648 else 0) + mt := by
  obtain ⟨hq1, hq2⟩ := norm64 mt j (52 - j) (by omega) h1 h2
  have hu := unpack_pack64 s (mt * 2^(52 - j)) ((-149 : Int) - ((52 - j : Nat) : Int)) hq1 hq2
    (by omega) (by omega)
  have hn : mt * 2^(52 - j) ≠ 0 := by omega
  have hm0 : 0 < mt := by have := Nat.two_pow_pos j; omega
  rw [convert_fin _ _ _ _ _ _ hu, roundPack_pos _ _ _ _ hn]
  have hr := roundMag_shr' mt ((-149 : Int) - ((52 - j : Nat) : Int)) (52 - j) (by omega) hm0 (by omega)
    (Or.inr (by omega)) (by omega)
  rw [hr]
  have : ((-149 : Int) - ((52 - j : Nat) : Int) + ((52 - j : Nat) : Int) + 149).toNat = 0 := by omega
  rw [this, if_neg (by omega), Z2O.withSign32]
  omega


set_option maxRecDepth 100000 in
theorem angleNorm_zeros : angleNorm ⟨0⟩ = ⟨0⟩ ∧ angleNorm ⟨0x80000000⟩ = ⟨0⟩ := by decide +kernel

/-- **an already normalised angle is left unchanged**: for `0 ≤ f < 1`, `angleNorm f = f` bit for bit
    (`float64(f)` is exact, its floor is `+0`, `g − 0 = g`, and `float32(g)` is `f` again) -/
theorem angleNorm_id (f : F32) (h : f.nb < 1065353216) : angleNorm f = f := by
  by_cases hz : f.nb = 0
  · have : f = ⟨0⟩ := F32.ext_nb hz
    rw [this]; exact angleNorm_zeros.1
  obtain ⟨hf, hs, hex, hmt⟩ := nb_fields f
  have hsg : sgn f = 0 := by omega
  have hex126 : expo f ≤ 126 := by omega
  -- the packed double and the float it converts back to
  have hkey : ∃ (Q : Nat) (FE : Int), 4503599627370496 ≤ Q ∧ Q < 9007199254740992 ∧ -1074 ≤ FE ∧
      FE ≤ -53 ∧ convert .f32 .f64 f.nb = pack64 false Q FE ∧
      convert .f64 .f32 (pack64 false Q FE) = f.nb := by
    by_cases hex0 : expo f = 0
    · have hm0 : 0 < mant f := by omega
      obtain ⟨j, kk, hjk, hj1, hj2⟩ := exists_jk (mant f) hm0 (by omega)
      have hj22 : j ≤ 22 := by
        rcases Nat.lt_or_ge j 23 with h | h
        · omega
        · have := Nat.pow_le_pow_right (n := 2) (by omega) h
          have c : (2:Nat)^23 = 8388608 := by decide
          rw [c] at this
          clear c
          omega
      have hu := unpack_f32 f.nb
      have e1 : f.nb / 8388608 % 256 = 0 := hex0
      have e2 : f.nb % 8388608 = mant f := rfl
      have hsgn : negB f.nb = false := by
        unfold negB
        have : f.nb / 2147483648 % 2 = 0 := by omega
        rw [this]; rfl
      rw [e1, e2, hsgn, if_neg (by omega), if_pos rfl] at hu
      obtain ⟨hq1, hq2⟩ := norm64 (mant f) j (52 - j) (by omega) hj1 hj2
      refine ⟨mant f * 2^(52 - j), (-149 : Int) - ((52 - j : Nat) : Int), hq1, hq2, by omega, by omega,
        stage1 f.nb false (mant f) (-149) j (52 - j) hu (by omega) hj1 hj2 (by omega) (by omega), ?_⟩
      rw [convert_back_sub false (mant f) j hj1 hj2 hj22 hmt]
      simp only [Bool.false_eq_true, if_false]
      rw [hf, hsg, hex0]
    · have hu := unpack_normal (sgn f) (expo f) (mant f) hs (by omega) (by omega) hmt
      rw [← hf, hsg] at hu
      have hb0 : ((0 : Nat) == 1) = false := rfl
      rw [hb0] at hu
      have c23 : (2:Nat)^23 ≤ mant f + 8388608 := by
        have c : (2:Nat)^23 = 8388608 := by decide
        rw [c]; clear c; omega
      have c24 : mant f + 8388608 < (2:Nat)^(23 + 1) := by
        have c : (2:Nat)^(23+1) = 16777216 := by decide
        rw [c]; clear c; omega
      obtain ⟨hq1, hq2⟩ := norm64 (mant f + 8388608) 23 29 (by omega) c23 c24
      have hs1 := stage1 f.nb false (mant f + 8388608) ((expo f : Int) - 150) 23 29 hu (by omega) c23 c24
        (by omega) (by omega)
      have hcb := convert_back_normal 0 (expo f) (mant f) (by omega) (by omega) (by omega) hmt
      rw [hb0] at hcb
      refine ⟨(mant f + 8388608) * 2^29, (expo f : Int) - 150 - 29, hq1, hq2, by omega, by omega, ?_, ?_⟩
      · rw [hs1]; rfl
      · rw [hcb, hf, hsg]
  obtain ⟨Q, FE, hQ1, hQ2, hFE1, hFE2, hconv, hback⟩ := hkey
  have hlt := pack64_lt false Q FE hQ2 (by omega)
  have hsmall : pack64 false Q FE < 4607182418800017408 := by
    unfold pack64; simp only [Bool.false_eq_true, if_false]; omega
  have hg : (F64.ofF32 f).nb = pack64 false Q FE := by
    unfold F64.ofF32; rw [hconv, nb64_ofNatBits _ hlt]
  have hfl : (F64.ofF32 f).floor.nb = 0 := by
    unfold F64.floor; rw [hg, floor_small _ hsmall]; rfl
  have hsub : (F64.ofF32 f - (F64.ofF32 f).floor).nb = pack64 false Q FE := by
    rw [f64_sub_def]; unfold F64.sub
    rw [hg, hfl, sub_zero64 false Q FE hQ1 hQ2 hFE1 (by omega), nb64_ofNatBits _ hlt]
  apply F32.ext_nb
  show (F64.toF32 (F64.ofF32 f - (F64.ofF32 f).floor)).nb = f.nb
  unfold F64.toF32
  rw [hsub, hback, nb_ofNatBits _ (nb_lt f)]

/-! ## `g − floor g` on a normal binary64 `g = ±M·2^E` -/

theorem neg64_pack (s : Bool) (Q : Nat) (FE : Int) (hQ2 : Q < 9007199254740992) (h1 : -1074 ≤ FE)
    (h2 : FE + 1075 < 2047) : Num.neg .f64 (pack64 s Q FE) = pack64 (!s) Q FE := by
  unfold Num.neg pack64
  rw [signBit_f64]
  cases s
  · simp only [Bool.false_eq_true, if_false, Bool.not_false, if_true]
    rw [if_neg (by omega)]; omega
  · simp only [if_true, Bool.not_true, Bool.false_eq_true, if_false]
    rw [if_pos (by omega)]; omega

/-- the fractional part, in units of `2^E`: `R = M mod 2^sh` for `g ≥ 0`, `2^sh − (M mod 2^sh)` (or 0) for
    `g < 0` -/
def fracR (s : Bool) (M sh : Nat) : Nat :=
  if s then (if M % 2^sh = 0 then 0 else 2^sh - M % 2^sh) else M % 2^sh

/-- `g − floor g` for a normal binary64 with negative exponent: the exact fractional part
    `R·2^E`, rounded once -/
theorem sub_floor64 (s : Bool) (M : Nat) (E : Int) (sh : Nat) (hsh : (sh : Int) = -E) (hsh1 : 1 ≤ sh)
    (hM1 : 4503599627370496 ≤ M) (hM2 : M < 9007199254740992) (hE1 : -1074 ≤ E) :
    Num.sub .f64 (pack64 s M E) (Num.floor .f64 (pack64 s M E)) =
      if fracR s M sh = 0 then 0 else roundPack .f64 false (fracR s M sh) E := by
  have hE2 : E + 1075 < 2047 := by omega
  have hu := unpack_pack64 s M E hM1 hM2 hE1 hE2
  have hPpos := Nat.two_pow_pos sh
  have hdm := Nat.div_add_mod M (2^sh)
  have hr := Nat.mod_lt M hPpos
  -- floor
  rw [floor_fin _ _ _ _ _ hu, if_neg (by omega)]
  have hshn : (-E).toNat = sh := by omega
  simp only [hshn]
  generalize hq' : (if (s && M % 2 ^ sh != 0) = true then M / 2 ^ sh + 1 else M / 2 ^ sh) = q'
  by_cases hq0 : q' = 0
  · -- floor is +0: g ∈ [0, 1)
    subst hq0
    have hs : s = false := by
      cases s
      · rfl
      · exfalso
        simp only [Bool.true_and] at hq'
        split at hq' <;> rename_i hc
        · exact absurd hq' (Nat.succ_ne_zero _)
        · simp only [bne_iff_ne, ne_eq, Decidable.not_not] at hc
          have : M = 0 := by rw [← hdm, hc, hq', Nat.mul_zero]
          omega
    subst hs
    simp only [Bool.false_and, Bool.false_eq_true, if_false] at hq'
    rw [roundPack_zero]
    have : withSign .f64 false 0 = 0 := by simp [withSign]
    rw [this, sub_zero64 false M E hM1 hM2 hE1 hE2]
    have hR : fracR false M sh = M := by
      unfold fracR; simp only [Bool.false_eq_true, if_false]
      have : M = M % 2^sh := by
        conv => lhs; rw [← hdm, hq', Nat.mul_zero, Nat.zero_add]
      exact this.symm
    rw [hR, if_neg (by omega)]
    symm
    apply roundPack64_exact _ _ _ _ _ hM1 hM2 hE1 hE2
    left; exact ⟨by omega, by simp⟩
  · -- floor is the nonzero integer ±q'
    have hq'pos : 0 < q' := by omega
    have hqle : M / 2^sh ≤ 4503599627370496 := by
      have h2 : 2 ≤ 2^sh := by
        have := Nat.pow_le_pow_right (n := 2) (by omega) hsh1
        simpa using this
      have := Nat.div_le_div_left (a := M) h2 (by omega)
      omega
    have hq'lt : q' < 9007199254740992 := by
      rw [← hq']; split <;> omega
    obtain ⟨j2, k2, hjk2, hj1, hj2⟩ := exists_jk64 q' hq'pos hq'lt
    obtain ⟨hQ1, hQ2⟩ := norm64 q' j2 k2 hjk2 hj1 hj2
    have hfl : roundPack .f64 s q' 0 = pack64 s (q' * 2^k2) (-(k2 : Int)) := by
      apply roundPack64_exact _ _ _ _ _ hQ1 hQ2 (by omega) (by omega)
      left; refine ⟨by omega, ?_⟩
      have : ((0 : Int) - -(k2 : Int)).toNat = k2 := by omega
      rw [this]
    rw [hfl]
    -- alignment: the exponent of g is the smaller one
    have hk2sh : k2 ≤ sh := by
      rcases Nat.lt_or_ge 52 sh with h | h
      · omega
      · -- q ≥ 2^(52 - sh)
        have hqlo : 2^(52 - sh) ≤ M / 2^sh := by
          apply (Nat.le_div_iff_mul_le hPpos).2
          rw [← Nat.pow_add]
          have : 52 - sh + sh = 52 := by omega
          rw [this]; exact hM1
        have hq'lo : 2^(52 - sh) ≤ q' := by rw [← hq']; split <;> omega
        have : 52 - sh < j2 + 1 := by
          rcases Nat.lt_or_ge (52 - sh) (j2 + 1) with h' | h'
          · exact h'
          · have := Nat.pow_le_pow_right (n := 2) (by omega) h'
            omega
        omega
    unfold Num.sub
    rw [isNaN64_pack s M E hM2 hE1 hE2, isNaN64_pack s _ _ hQ2 (by omega) (by omega)]
    simp only [Bool.or_self, Bool.false_eq_true, if_false]
    rw [neg64_pack s _ _ hQ2 (by omega) (by omega)]
    have hu2 := unpack_pack64 (!s) (q' * 2^k2) (-(k2 : Int)) hQ1 hQ2 (by omega) (by omega)
    rw [add_fin_fin _ _ _ _ _ _ _ _ _ hu hu2]
    have he0 : (if E ≤ -(k2 : Int) then E else -(k2 : Int)) = E := by rw [if_pos (by omega)]
    simp only [he0]
    have t1 : (E - E).toNat = 0 := by omega
    have t2 : (-(k2 : Int) - E).toNat = sh - k2 := by omega
    simp only [t1, t2, Nat.pow_zero, Nat.mul_one]
    have hy : q' * 2^k2 * 2^(sh - k2) = q' * 2^sh := by
      rw [Nat.mul_assoc, ← Nat.pow_add]; congr 2; omega
    rw [hy]
    -- the integer difference is the fractional part
    generalize hq : M / 2^sh = q at *
    generalize hrr : M % 2^sh = r at *
    have hXq : 2^sh * q = q * 2^sh := Nat.mul_comm _ _
    cases s
    · -- g > 0: z = M − q·2^sh = r
      simp only [Bool.false_and, Bool.false_eq_true, if_false] at hq'
      subst hq'
      simp only [Bool.false_eq_true, if_false, Bool.not_false, if_true, Bool.false_and]
      have hR : fracR false M sh = r := by
        unfold fracR; simp only [Bool.false_eq_true, if_false]; exact hrr
      rw [hR]
      have hz : (M : Int) + -((q * 2^sh : Nat) : Int) = (r : Int) := by
        have : ((q * 2^sh + r : Nat) : Int) = (M : Int) := by rw [← hXq, hdm]
        rw [Int.natCast_add] at this; omega
      rw [hz]
      by_cases hr0 : r = 0
      · subst hr0; simp [withSign]
      · rw [if_neg hr0]
        have h1 : ¬ ((r : Int) == 0) = true := by simp only [beq_iff_eq]; omega
        have h2 : ¬ ((r : Int) < 0) := by omega
        rw [if_neg h1, Int.natAbs_natCast]
        simp only [h2, decide_false]
    · -- g < 0
      simp only [Bool.true_and] at hq'
      simp only [if_true, Bool.not_true, Bool.false_eq_true, if_false, Bool.and_false]
      by_cases hr0 : r = 0
      · have hb : (r != 0) = false := by simp [hr0]
        rw [hb] at hq'
        simp only [Bool.false_eq_true, if_false] at hq'
        subst hq'
        have hR : fracR true M sh = 0 := by
          unfold fracR; simp only [if_true]; rw [hrr, if_pos hr0]
        rw [hR]
        have hz : -(M : Int) + ((q * 2^sh : Nat) : Int) = 0 := by
          have : ((q * 2^sh + r : Nat) : Int) = (M : Int) := by rw [← hXq, hdm]
          rw [Int.natCast_add] at this; omega
        rw [hz]
        simp [withSign]
      · have hb : (r != 0) = true := bne_iff_ne.2 hr0
        rw [hb] at hq'
        simp only [if_true] at hq'
        subst hq'
        have hR : fracR true M sh = 2^sh - r := by
          unfold fracR; simp only [if_true]; rw [hrr, if_neg hr0]
        rw [hR]
        have hz : -(M : Int) + (((q + 1) * 2^sh : Nat) : Int) = ((2^sh - r : Nat) : Int) := by
          have h1 : ((q * 2^sh + r : Nat) : Int) = (M : Int) := by rw [← hXq, hdm]
          have h2 : (q + 1) * 2^sh = q * 2^sh + 2^sh := by rw [Nat.add_mul, Nat.one_mul]
          rw [h2]
          rw [Int.natCast_add] at h1
          rw [Int.natCast_add]
          omega
        rw [hz]
        have hpos : 0 < 2^sh - r := by omega
        have hne : ¬ (2^sh - r = 0) := by omega
        have h1 : ¬ (((2^sh - r : Nat) : Int) == 0) = true := by simp only [beq_iff_eq]; omega
        have h2 : ¬ (((2^sh - r : Nat) : Int) < 0) := by omega
        rw [if_neg h1, Int.natAbs_natCast, if_neg hne]
        simp only [h2, decide_false]

/-! ## one binary32 rounding, two ways: `float32(·)` of an exact binary64 and `F32.ofRatio` -/

theorem bitLen_2_149 : bitLen (2^149) = 150 :=
  bitLen_eq (k := 149) (Nat.le_refl _) (Nat.pow_lt_pow_right (by omega) (by omega))

/-- denominator powers of two move into the exponent -/
theorem rq_den_pow (A j : Nat) (e : Int) (hb : 2^25 ≤ A / 2^j) :
    SpecL.rq A (2^j) e = SpecL.rq A 1 (e - j) := by
  have h1 := SpecL.rq_scale A (2^j) j e (Nat.two_pow_pos j) hb
  have h2 := SpecL.rq_cancel A 1 (2^j) (e - j) (Nat.two_pow_pos j)
  rw [Nat.one_mul] at h2
  rw [← h1, h2]

/-- `float32(w)` for an exactly known positive binary64 `w = A·2^FE` equals the float32 nearest to the
    rational `N/2^149`, provided `N·2^K = A·2^137` and `FE = −K − 12` (same value), `K` being
    `ofRatio`'s pre-scaling -/
theorem convert_eq_ofRatio (A : Nat) (FE : Int) (N : Nat) (hA1 : 4503599627370496 ≤ A)
    (hA2 : A < 9007199254740992) (hFE1 : -1074 ≤ FE) (hFE2 : FE + 1075 < 2047) (hN : 0 < N)
    (hval : N * 2^(190 - bitLen N) = A * 2^137) (hexp : FE = -((190 - bitLen N : Nat) : Int) - 12) :
    F32.ofNatBits (convert .f64 .f32 (pack64 false A FE)) = F32.ofRatio false N (2^149) := by
  have hu := unpack_pack64 false A FE hA1 hA2 hFE1 hFE2
  rw [convert_fin _ _ _ _ _ _ hu]
  -- left: rq A 1 FE
  have c25 : (2:Nat)^25 = 33554432 := by decide
  have hL := SpecL.roundPack_div false A 1 FE (by omega) (by rw [Nat.div_one, c25]; omega)
  rw [Nat.div_one, Nat.mod_one] at hL
  have hb0 : ((0 : Nat) != 0) = false := rfl
  rw [hb0] at hL
  rw [hL]
  -- right
  unfold F32.ofRatio
  have hbeq : (N == 0) = false := by simp; omega
  have hK : 40 + bitLen (2^149) - bitLen N = 190 - bitLen N := by rw [bitLen_2_149]
  simp only [hbeq, Bool.false_eq_true, if_false, hK]
  generalize 190 - bitLen N = K at *
  have hq : 2^25 ≤ N * 2^K / 2^149 := by
    rw [hval]
    have : A * 2^137 / 2^149 = A / 2^12 := by
      have e : (2:Nat)^149 = 2^12 * 2^137 := by rw [← Nat.pow_add]
      rw [e, Nat.mul_div_mul_right _ _ (Nat.two_pow_pos 137)]
    rw [this, c25]
    have : (2:Nat)^12 = 4096 := by decide
    rw [this]; omega
  rw [SpecL.roundPack_div false _ _ _ (Nat.two_pow_pos 149) hq, hval]
  -- cancel 2^137, then move 2^12 into the exponent
  have e149 : (2:Nat)^149 = 2^12 * 2^137 := by rw [← Nat.pow_add]
  rw [e149, SpecL.rq_cancel A (2^12) (2^137) _ (Nat.two_pow_pos 137)]
  have hb12 : 2^25 ≤ A / 2^12 := by
    rw [c25]; have : (2:Nat)^12 = 4096 := by decide
    rw [this]; omega
  rw [rq_den_pow A 12 _ hb12, hexp]
  rfl


/-- the exact regime: `w = RN64(R·2^E)` is exact because `R = Rn·2^tz` with `Rn < 2^53`; then
    `float32(w)` is the float32 nearest to `N/2^149` whenever `N/2^149 = R·2^E` -/
theorem exact_regime (R Rn tz : Nat) (E : Int) (N a c : Nat) (hR : R = Rn * 2^tz) (hRn0 : 0 < Rn)
    (hRn : Rn < 9007199254740992) (htz : tz ≤ 29) (hE1 : -1000 ≤ E) (hE2 : E < 0)
    (hN0 : 0 < N) (hNlt : N < 2^149) (hNR : N * 2^c = R * 2^a) (hac : (a : Int) - c = E + 149) :
    F32.ofNatBits (convert .f64 .f32 (roundPack .f64 false R E)) = F32.ofRatio false N (2^149) := by
  obtain ⟨jR, kR, hjk, h1, h2⟩ := exists_jk64 Rn hRn0 hRn
  obtain ⟨hA1, hA2⟩ := norm64 Rn jR kR hjk h1 h2
  have hpk : roundPack .f64 false R E = pack64 false (Rn * 2^kR) (E + tz - kR) := by
    apply roundPack64_exact _ _ _ _ _ hA1 hA2 (by omega) (by omega)
    by_cases hc : tz ≤ kR
    · left; refine ⟨by omega, ?_⟩
      have : (E - (E + (tz : Int) - kR)).toNat = kR - tz := by omega
      rw [this, hR, Nat.mul_assoc, ← Nat.pow_add]
      congr 2; omega
    · right; refine ⟨by omega, ?_⟩
      have : (E + (tz : Int) - kR - E).toNat = tz - kR := by omega
      rw [this, hR, Nat.mul_assoc, ← Nat.pow_add]
      congr 2; omega
  rw [hpk]
  -- bit lengths
  have hblRn : bitLen Rn = jR + 1 := bitLen_eq h1 h2
  have hRpos : 0 < R := by rw [hR]; exact Nat.mul_pos hRn0 (Nat.two_pow_pos _)
  have hblR : bitLen R = jR + 1 + tz := by rw [hR, bitLen_mul_pow _ _ hRn0, hblRn]
  have hblN : bitLen N + c = jR + 1 + tz + a := by
    have := congrArg bitLen hNR
    rw [bitLen_mul_pow _ _ hN0, bitLen_mul_pow _ _ hRpos, hblR] at this
    exact this
  have hblN149 : bitLen N ≤ 149 := bitLen_le_of_lt _ _ hNlt
  apply convert_eq_ofRatio _ _ _ hA1 hA2 (by omega) (by omega) hN0
  · -- N·2^K = A·2^137
    apply Nat.eq_of_mul_eq_mul_right (Nat.two_pow_pos c)
    have e1 : N * 2^(190 - bitLen N) * 2^c = N * 2^c * 2^(190 - bitLen N) := by
      rw [Nat.mul_assoc, Nat.mul_comm (2^(190 - bitLen N)), ← Nat.mul_assoc]
    rw [e1, hNR, hR]
    rw [Nat.mul_assoc, Nat.mul_assoc, Nat.mul_assoc, Nat.mul_assoc, ← Nat.pow_add, ← Nat.pow_add,
      ← Nat.pow_add, ← Nat.pow_add]
    congr 2; omega
  · omega

/-! ## tiny negative `f`: both sides are 1.0 -/

/-- the float32 nearest to `N/2^149` is 1.0 when `N` is within `2^119` of `2^149` -/
theorem ofRatio_near_one (N : Nat) (h1 : 2^149 - 2^119 < N) (h2 : N < 2^149) :
    F32.ofRatio false N (2^149) = F32.ofNatBits 1065353216 := by
  have c149 : (2:Nat)^149 = 713623846352979940529142984724747568191373312 := by decide
  have c119 : (2:Nat)^119 = 664613997892457936451903530140172288 := by decide
  have c148 : (2:Nat)^148 = 356811923176489970264571492362373784095686656 := by decide
  rw [c149, c119] at h1
  rw [c149] at h2
  have hbl : bitLen N = 148 + 1 := bitLen_eq (k := 148) (by rw [c148]; omega) (by
    have : (2:Nat)^(148+1) = 713623846352979940529142984724747568191373312 := by decide
    rw [this]; exact h2)
  unfold F32.ofRatio
  have hbeq : (N == 0) = false := by simp; omega
  have hK : 40 + bitLen (2^149) - bitLen N = 41 := by rw [bitLen_2_149, hbl]
  simp only [hbeq, Bool.false_eq_true, if_false, hK]
  have c41 : (2:Nat)^41 = 2199023255552 := by decide
  have c25 : (2:Nat)^25 = 33554432 := by decide
  have hq : 2^25 ≤ N * 2^41 / 2^149 := by rw [c41, c149, c25]; omega
  rw [SpecL.roundPack_div false _ _ _ (Nat.two_pow_pos 149) hq]
  -- evaluate rq: working exponent −24, shift 17, q0 = 2^24 − 1, round up
  have hblq : bitLen (N * 2^41 / 2^149) = 40 + 1 := by
    apply bitLen_eq
    · have : (2:Nat)^40 = 1099511627776 := by decide
      rw [c41, c149, this]; omega
    · have : (2:Nat)^(40+1) = 2199023255552 := by decide
      rw [this, c149]; omega
  have hfe : (-24 : Int) = if -((41 : Nat) : Int) + (bitLen (N * 2^41 / 2^149) : Int) - 24 < -149 then -149
      else -((41 : Nat) : Int) + (bitLen (N * 2^41 / 2^149) : Int) - 24 := by
    rw [hblq]; split <;> omega
  rw [SpecL.rq_eq_rqAt _ _ _ (-24) hfe]
  have hs : ((-24 : Int) - -((41 : Nat) : Int)).toNat = 17 := by omega
  rw [hs]
  unfold SpecL.rqAt SpecL.pack
  have c17 : (2:Nat)^17 = 131072 := by decide
  have c16 : (2:Nat)^(17-1) = 65536 := by decide
  rw [c41, c149, c17, c16]
  have hq0 : N * 2199023255552 / (713623846352979940529142984724747568191373312 * 131072) = 16777215 := by
    omega
  rw [hq0]
  have hup : N * 2199023255552 >
      713623846352979940529142984724747568191373312 * 65536 * (2 * 16777215 + 1) := by omega
  rw [if_pos (Or.inl hup)]
  have : ((-24 : Int) + 149).toNat = 125 := by omega
  rw [this]
  rfl


/-- `float32(q·2^-53)` is 1.0 for `2^53 − 2^23 ≤ q < 2^53` -/
theorem convert_near_one (q : Nat) (h1 : 9007199246352384 ≤ q) (h2 : q < 9007199254740992) :
    convert .f64 .f32 (pack64 false q (-53)) = 1065353216 := by
  have hu := unpack_pack64 false q (-53) (by omega) h2 (by omega) (by omega)
  rw [convert_fin _ _ _ _ _ _ hu, roundPack_pos _ _ _ _ (by omega), Z2O.withSign32]
  have hbl : bitLen q = 52 + 1 := bitLen_eq (k := 52) (by
    have : (2:Nat)^52 = 4503599627370496 := by decide
    rw [this]; omega) (by
    have : (2:Nat)^(52+1) = 9007199254740992 := by decide
    rw [this]; exact h2)
  have hfe : (-24 : Int) = if (-53 : Int) + (bitLen q : Int) - 24 < -149 then -149
      else (-53 : Int) + (bitLen q : Int) - 24 := by rw [hbl]; split <;> omega
  obtain ⟨qq, hqq, hr⟩ := Z2O.roundMag32_q q (-53) (-24) hfe
  rw [hr]
  have hsh : ((-24 : Int) - -53).toNat = 29 := by omega
  rw [if_neg (by omega), hsh] at hqq
  have c29 : (2:Nat)^29 = 536870912 := by decide
  have c28 : (2:Nat)^(29-1) = 268435456 := by decide
  rw [c29, c28] at hqq
  have hgt : q % 536870912 > 268435456 := by omega
  have hcond : (decide (q % 536870912 > 268435456) ||
      (q % 536870912 == 268435456 && q / 536870912 % 2 == 1)) = true := by simp [hgt]
  rw [if_pos hcond] at hqq
  have hqv : qq = 16777216 := by omega
  rw [hqv]
  have : ((-24 : Int) + 149).toNat = 125 := by omega
  rw [this]
  rfl

/-- `float32(1.0) = 1.0` -/
theorem convert_one : convert .f64 .f32 4607182418800017408 = 1065353216 := by
  have hu : unpack .f64 4607182418800017408 = .fin false 4503599627370496 (-52) := by
    have := unpack_pack64 false 4503599627370496 (-52) (by omega) (by omega) (by omega) (by omega)
    have e : pack64 false 4503599627370496 (-52) = 4607182418800017408 := by decide
    rw [e] at this; exact this
  rw [convert_fin _ _ _ _ _ _ hu, roundPack_pos _ _ _ _ (by omega), Z2O.withSign32]
  have hr := roundMag_shr' 8388608 (-52) 29 (by omega) (by omega) (by omega) (Or.inl (by omega)) (by omega)
  have e : 8388608 * 2^29 = 4503599627370496 := by decide
  rw [e] at hr
  rw [hr]
  decide

/-- tiny negative regime: `RN64(1 − M·2^E)` converts to the float32 1.0 when `E ≤ −83` -/
theorem tiny_neg_one (M sh : Nat) (E : Int) (hsh : (sh : Int) = -E) (hsh83 : 83 ≤ sh)
    (hM1 : 4503599627370496 ≤ M) (hM2 : M < 9007199254740992) (hE : -1000 ≤ E) :
    convert .f64 .f32 (roundPack .f64 false (2^sh - M) E) = 1065353216 := by
  -- 2^sh = 2^53 · P with P ≥ 2^30
  obtain ⟨P, hP⟩ : ∃ P, P = 2^(sh - 53) := ⟨_, rfl⟩
  have hP30 : 1073741824 ≤ P := by
    rw [hP]
    have := Nat.pow_le_pow_right (n := 2) (by omega) (show 30 ≤ sh - 53 by omega)
    have c : (2:Nat)^30 = 1073741824 := by decide
    rw [c] at this; exact this
  have hsplit : 2^sh = 9007199254740992 * P := by
    rw [hP]
    have : sh = 53 + (sh - 53) := by omega
    conv => lhs; rw [this, Nat.pow_add]
  have hsplit1 : 2^(sh - 1) = 4503599627370496 * P := by
    rw [hP]
    have : sh - 1 = 52 + (sh - 53) := by omega
    rw [this, Nat.pow_add]
  have hRpos : 0 < 2^sh - M := by omega
  have hbl : bitLen (2^sh - M) = (sh - 1) + 1 := by
    apply bitLen_eq
    · rw [hsplit1, hsplit]; omega
    · have : sh - 1 + 1 = sh := by omega
      rw [this]; omega
  rw [roundPack_pos _ _ _ _ (by omega), withSign64_false]
  have hfe : (-53 : Int) = if E + (bitLen (2^sh - M) : Int) - 53 < -1074 then -1074
      else E + (bitLen (2^sh - M) : Int) - 53 := by rw [hbl]; split <;> omega
  obtain ⟨q, hq, hr⟩ := roundMag_f64_q _ E (-53) hfe
  rw [hr]
  have hshift : ((-53 : Int) - E).toNat = sh - 53 := by omega
  rw [if_neg (by omega), hshift, ← hP] at hq
  -- q0 = R / P lies in [2^53 − 2^23, 2^53)
  have hPpos : 0 < P := by omega
  have hq0lo : 9007199246352384 ≤ (2^sh - M) / P := by
    apply (Nat.le_div_iff_mul_le hPpos).2
    rw [hsplit]; omega
  have hq0hi : (2^sh - M) / P < 9007199254740992 := by
    apply Nat.div_lt_of_lt_mul
    rw [hsplit]
    have : P * 9007199254740992 = 9007199254740992 * P := Nat.mul_comm _ _
    omega
  have hqb : (2^sh - M) / P ≤ q ∧ q ≤ (2^sh - M) / P + 1 := by
    rw [hq]; split <;> omega
  clear hq
  have : ((-53 : Int) + 1074).toNat = 1021 := by omega
  rw [this, if_neg (by omega)]
  by_cases hq53 : q = 9007199254740992
  · rw [hq53]
    have : 1021 * 4503599627370496 + 9007199254740992 = 4607182418800017408 := by decide
    rw [this]; exact convert_one
  · have hpk : 1021 * 4503599627370496 + q = pack64 false q (-53) := by
      unfold pack64; simp only [Bool.false_eq_true, if_false]
      have : ((-53 : Int) + 1074).toNat = 1021 := by omega
      rw [this]; omega
    rw [hpk]
    exact convert_near_one q (by omega) (by omega)

/-! ## the exact fractional part on integers -/

/-- `|f|·2^149` for a finite float32 given as `m·2^e` -/
def absVOf (m : Nat) (e : Int) : Nat := m * 2^(e + 149).toNat

/-- `(f − ⌊f⌋)·2^149` -/
def fracNOf (s : Bool) (m : Nat) (e : Int) : Nat :=
  if s then (2^149 - absVOf m e % 2^149) % 2^149 else absVOf m e % 2^149

/-- the fractional part `R` (in units of `2^E`) and `N` (in units of `2^-149`) are the same number -/
theorem frac_rel (s : Bool) (m : Nat) (e : Int) (kk sh : Nat) (_he : -149 ≤ e) (_hkk : kk ≤ 52)
    (hM1 : 4503599627370496 ≤ m * 2^kk) (hM2 : m * 2^kk < 9007199254740992)
    (hsh : (sh : Int) = -(e - kk)) (hsh1 : 1 ≤ sh) :
    (∃ a : Nat, (a : Int) = e - kk + 149 ∧ fracNOf s m e = fracR s (m * 2^kk) sh * 2^a) ∨
    (∃ c : Nat, 1 ≤ c ∧ (c : Int) = -(e - kk + 149) ∧ fracNOf s m e * 2^c = fracR s (m * 2^kk) sh ∧
      absVOf m e * 2^c = m * 2^kk ∧ absVOf m e < 9007199254740992) := by
  by_cases hA : 0 ≤ e - kk + 149
  · left
    obtain ⟨a, ha⟩ : ∃ a : Nat, (a : Int) = e - kk + 149 := ⟨(e - kk + 149).toNat, by omega⟩
    refine ⟨a, ha, ?_⟩
    have hV : absVOf m e = m * 2^kk * 2^a := by
      unfold absVOf
      rw [Nat.mul_assoc, ← Nat.pow_add]; congr 2; omega
    have h149 : 2^149 = 2^sh * 2^a := by rw [← Nat.pow_add]; congr 1; omega
    have hTpos := Nat.two_pow_pos a
    have hPpos := Nat.two_pow_pos sh
    unfold fracNOf fracR
    rw [hV, h149, Nat.mul_mod_mul_right]
    generalize m * 2^kk = M at *
    have hr := Nat.mod_lt M hPpos
    generalize M % 2^sh = r at *
    cases s
    · simp only [Bool.false_eq_true, if_false]
    · simp only [if_true]
      by_cases hr0 : r = 0
      · rw [if_pos hr0, hr0, Nat.zero_mul, Nat.sub_zero, Nat.mod_self]
      · rw [if_neg hr0]
        have e1 : 2^sh * 2^a - r * 2^a = (2^sh - r) * 2^a := by rw [Nat.sub_mul]
        rw [e1]
        apply Nat.mod_eq_of_lt
        exact (Nat.mul_lt_mul_right hTpos).2 (by omega)
  · right
    obtain ⟨c, hc⟩ : ∃ c : Nat, (c : Int) = -(e - kk + 149) := ⟨(-(e - kk + 149)).toNat, by omega⟩
    have hV : absVOf m e * 2^c = m * 2^kk := by
      unfold absVOf
      rw [Nat.mul_assoc, ← Nat.pow_add]; congr 2; omega
    have hcpos := Nat.two_pow_pos c
    have hVlt : absVOf m e < 9007199254740992 := by
      have := Nat.le_mul_of_pos_right (absVOf m e) hcpos
      omega
    have hsh149 : 2^sh = 2^149 * 2^c := by rw [← Nat.pow_add]; congr 1; omega
    have c149 : (2:Nat)^149 = 713623846352979940529142984724747568191373312 := by decide
    have hVmod : absVOf m e % 2^149 = absVOf m e := Nat.mod_eq_of_lt (by rw [c149]; omega)
    have hMlt : m * 2^kk < 2^sh := by
      rw [hsh149, c149]
      have : 1 ≤ 2^c := hcpos
      have := Nat.le_mul_of_pos_right 713623846352979940529142984724747568191373312 hcpos
      omega
    have hMmod : m * 2^kk % 2^sh = m * 2^kk := Nat.mod_eq_of_lt hMlt
    refine ⟨c, by omega, hc, ?_, hV, hVlt⟩
    unfold fracNOf fracR
    rw [hVmod, hMmod]
    have hVpos : 0 < absVOf m e := by
      rcases Nat.eq_zero_or_pos (absVOf m e) with h | h
      · rw [h, Nat.zero_mul] at hV; omega
      · exact h
    cases s
    · simp only [Bool.false_eq_true, if_false]; exact hV
    · simp only [if_true]
      rw [if_neg (by omega)]
      have : (2^149 - absVOf m e) % 2^149 = 2^149 - absVOf m e := Nat.mod_eq_of_lt (by omega)
      rw [this, Nat.sub_mul, hV, hsh149]


/-! ## assembling -/

theorem roundMag64_le_inf (n : Nat) (e : Int) : roundMag .f64 n e ≤ 9218868437227405312 := by
  obtain ⟨fe, hfe⟩ : ∃ fe : Int, fe = if e + (bitLen n : Int) - 53 < -1074 then -1074
      else e + (bitLen n : Int) - 53 := ⟨_, rfl⟩
  obtain ⟨q, _, hr⟩ := roundMag_f64_q n e fe hfe
  rw [hr]
  by_cases h : (fe + 1074).toNat * 4503599627370496 + q ≥ 9218868437227405312
  · rw [if_pos h]; omega
  · rw [if_neg h]; omega

theorem roundPack64_lt (neg : Bool) (n : Nat) (e : Int) :
    roundPack .f64 neg n e < 18446744073709551616 := by
  by_cases hn : n = 0
  · subst hn; rw [roundPack_zero, withSign64]; split <;> omega
  · rw [roundPack_pos _ _ _ _ hn, withSign64]
    have := roundMag64_le_inf n e
    split <;> omega

theorem floor_lt64 (s : Bool) (M : Nat) (E : Int) (hM1 : 4503599627370496 ≤ M)
    (hM2 : M < 9007199254740992) (hE1 : -1074 ≤ E) (hE2 : E + 1075 < 2047) :
    Num.floor .f64 (pack64 s M E) < 18446744073709551616 := by
  rw [floor_fin _ _ _ _ _ (unpack_pack64 s M E hM1 hM2 hE1 hE2)]
  split
  · exact pack64_lt _ _ _ hM2 hE2
  · exact roundPack64_lt _ _ _

/-- `g − g = +0` -/
theorem sub_self64 (s : Bool) (Q : Nat) (FE : Int) (hQ1 : 4503599627370496 ≤ Q)
    (hQ2 : Q < 9007199254740992) (h1 : -1074 ≤ FE) (h2 : FE + 1075 < 2047) :
    Num.sub .f64 (pack64 s Q FE) (pack64 s Q FE) = 0 := by
  unfold Num.sub
  rw [isNaN64_pack s Q FE hQ2 h1 h2]
  simp only [Bool.or_self, Bool.false_eq_true, if_false]
  rw [neg64_pack s Q FE hQ2 h1 h2]
  rw [add_fin_fin _ _ _ _ _ _ _ _ _ (unpack_pack64 s Q FE hQ1 hQ2 h1 h2)
    (unpack_pack64 (!s) Q FE hQ1 hQ2 h1 h2)]
  simp only [Int.le_refl, if_true, Int.sub_self, Int.toNat_zero, Nat.pow_zero, Nat.mul_one]
  cases s <;> simp [withSign] <;> omega

theorem convert_zero : convert .f64 .f32 0 = 0 := by
  rw [convert_fin _ _ _ _ _ _ unpack64_zero, roundPack_zero]; simp [withSign]

theorem ofRatio_zero (d : Nat) : F32.ofRatio false 0 d = F32.ofNatBits 0 := by
  simp [F32.ofRatio, withSign]

/-- the general statement on an unpacked finite nonzero float -/
theorem angle_core (f : F32) (s : Bool) (m : Nat) (e : Int) (j : Nat)
    (hu : unpack .f32 f.nb = .fin s m e) (h1 : 2^j ≤ m) (h2 : m < 2^(j+1)) (hj : j ≤ 23)
    (he : -149 ≤ e) (he2 : e ≤ 104) :
    angleNorm f = F32.ofRatio false (fracNOf s m e) (2^149) := by
  obtain ⟨hM1, hM2⟩ := norm64 m j (52 - j) (by omega) h1 h2
  have hs1 := stage1 f.nb s m e j (52 - j) hu (by omega) h1 h2 he he2
  obtain ⟨E, hEdef⟩ : ∃ E : Int, E = e - ((52 - j : Nat) : Int) := ⟨_, rfl⟩
  rw [← hEdef] at hs1
  have hE1 : -1074 ≤ E := by omega
  have hE2 : E + 1075 < 2047 := by omega
  have hg : (F64.ofF32 f).nb = pack64 s (m * 2^(52 - j)) E := by
    unfold F64.ofF32
    rw [hs1, nb64_ofNatBits _ (pack64_lt _ _ _ hM2 hE2)]
  have hfl : (F64.ofF32 f).floor.nb = Num.floor .f64 (pack64 s (m * 2^(52 - j)) E) := by
    unfold F64.floor
    rw [hg, nb64_ofNatBits _ (floor_lt64 _ _ _ hM1 hM2 hE1 hE2)]
  -- reduce to the bit pattern of the subtraction
  suffices hmain : ∃ SB, Num.sub .f64 (pack64 s (m * 2^(52 - j)) E)
        (Num.floor .f64 (pack64 s (m * 2^(52 - j)) E)) = SB ∧ SB < 18446744073709551616 ∧
      F32.ofNatBits (convert .f64 .f32 SB) = F32.ofRatio false (fracNOf s m e) (2^149) by
    obtain ⟨SB, hsb, hlt, hres⟩ := hmain
    show F64.toF32 (F64.ofF32 f - (F64.ofF32 f).floor) = _
    rw [f64_sub_def]
    unfold F64.sub F64.toF32
    rw [hg, hfl, hsb, nb64_ofNatBits _ hlt, hres]
  generalize hM : m * 2^(52 - j) = M at *
  by_cases hEnn : 0 ≤ E
  · -- an integer: g − g = +0
    refine ⟨0, ?_, by omega, ?_⟩
    · rw [floor_fin _ _ _ _ _ (unpack_pack64 s M E hM1 hM2 hE1 hE2), if_pos hEnn]
      exact sub_self64 s M E hM1 hM2 hE1 hE2
    · rw [convert_zero]
      have hN : fracNOf s m e = 0 := by
        have hV : absVOf m e % 2^149 = 0 := by
          unfold absVOf
          have : (e + 149).toNat = ((e + 149).toNat - 149) + 149 := by omega
          rw [this, Nat.pow_add, ← Nat.mul_assoc]
          exact Nat.mul_mod_left _ _
        unfold fracNOf
        rw [hV]
        cases s <;> simp
      rw [hN, ofRatio_zero]
  · -- a fractional part
    obtain ⟨sh, hsh⟩ : ∃ sh : Nat, (sh : Int) = -E := ⟨(-E).toNat, by omega⟩
    have hsh1 : 1 ≤ sh := by omega
    have hsb := sub_floor64 s M E sh hsh hsh1 hM1 hM2 hE1
    have hrel := frac_rel s m e (52 - j) sh he (by omega) (by rw [hM]; exact hM1) (by rw [hM]; exact hM2)
      (by omega) hsh1
    rw [hM] at hrel
    have hNlt : fracNOf s m e < 2^149 := by
      unfold fracNOf
      split <;> exact Nat.mod_lt _ (Nat.two_pow_pos 149)
    generalize hN : fracNOf s m e = N at *
    generalize hR : fracR s M sh = R at *
    by_cases hR0 : R = 0
    · refine ⟨0, by rw [hsb, if_pos hR0], by omega, ?_⟩
      have hN0 : N = 0 := by
        rcases hrel with ⟨a, _, h⟩ | ⟨c, _, _, h, _, _⟩
        · rw [h, hR0, Nat.zero_mul]
        · rw [hR0] at h
          have := Nat.two_pow_pos c
          rcases Nat.eq_zero_or_pos N with h0 | h0
          · exact h0
          · have := Nat.mul_pos h0 this; omega
      rw [convert_zero, hN0, ofRatio_zero]
    · refine ⟨roundPack .f64 false R E, by rw [hsb, if_neg hR0], roundPack64_lt _ _ _, ?_⟩
      have hRpos : 0 < R := by omega
      have hPpos := Nat.two_pow_pos sh
      have hrlt := Nat.mod_lt M hPpos
      have c53 : (2:Nat)^53 = 9007199254740992 := by decide
      by_cases hiii : s = true ∧ 83 ≤ sh
      · -- tiny negative: both sides are 1.0
        obtain ⟨hs, h83⟩ := hiii
        subst hs
        have hMlt : M < 2^sh := by
          have := Nat.pow_le_pow_right (n := 2) (by omega) (show 53 ≤ sh by omega)
          rw [c53] at this; omega
        have hRv : R = 2^sh - M := by
          rw [← hR]; unfold fracR
          simp only [if_true]
          rw [Nat.mod_eq_of_lt hMlt, if_neg (by omega)]
        rw [hRv, tiny_neg_one M sh E hsh h83 hM1 hM2 (by omega)]
        symm
        apply ofRatio_near_one N _ hNlt
        have c119 : (2:Nat)^119 = 664613997892457936451903530140172288 := by decide
        rcases hrel with ⟨a, ha, h⟩ | ⟨c, hc1, hc, h, hV, hVlt⟩
        · -- N = (2^sh − M)·2^a = 2^149 − M·2^a, with M·2^a < 2^119
          have h149 : 2^sh * 2^a = 2^149 := by rw [← Nat.pow_add]; congr 1; omega
          have hMa : M * 2^a < 2^119 := by
            have ha66 : a ≤ 66 := by omega
            have hp := Nat.pow_le_pow_right (n := 2) (by omega) ha66
            have : M * 2^a < 9007199254740992 * 2^66 :=
              Nat.mul_lt_mul_of_lt_of_le hM2 hp (Nat.two_pow_pos _)
            have e : 9007199254740992 * 2^66 = 2^119 := by decide
            omega
          rw [h, hRv, Nat.sub_mul, h149]
          omega
        · -- N·2^c = 2^sh − M = (2^149 − |V|)·2^c
          have hsh149 : 2^sh = 2^149 * 2^c := by rw [← Nat.pow_add]; congr 1; omega
          have hcpos := Nat.two_pow_pos c
          have hNv : N = 2^149 - absVOf m e := by
            apply Nat.eq_of_mul_eq_mul_right hcpos
            rw [h, hRv, Nat.sub_mul, hV, hsh149]
          rw [hNv, c119]
          have c149 : (2:Nat)^149 = 713623846352979940529142984724747568191373312 := by decide
          rw [c149]; omega
      · -- exact regime
        have hex : ∃ Rn tz : Nat, R = Rn * 2^tz ∧ 0 < Rn ∧ Rn < 9007199254740992 ∧ tz ≤ 29 := by
          clear hrel
          by_cases hsm : R < 9007199254740992
          · exact ⟨R, 0, by simp, hRpos, hsm, by omega⟩
          · -- only possible for negative f with 53 ≤ sh ≤ 82: R = 2^sh − M, a multiple of 2^29
            have hs : s = true := by
              cases s
              · exfalso; apply hsm
                rw [← hR]; unfold fracR
                simp only [Bool.false_eq_true, if_false]
                have := Nat.mod_le M (2^sh); omega
              · rfl
            subst hs
            have hsh82 : sh ≤ 82 := by
              rcases Nat.lt_or_ge sh 83 with h | h
              · omega
              · exact absurd ⟨rfl, h⟩ hiii
            have hRle : R ≤ 2^sh := by
              rw [← hR]; unfold fracR; simp only [if_true]; split <;> omega
            have hsh53 : 53 ≤ sh := by
              rcases Nat.lt_or_ge sh 53 with h | h
              · exfalso
                have := Nat.pow_le_pow_right (n := 2) (by omega) (show sh ≤ 52 by omega)
                have c52 : (2:Nat)^52 = 4503599627370496 := by decide
                rw [c52] at this; omega
              · exact h
            have hMlt : M < 2^sh := by
              have := Nat.pow_le_pow_right (n := 2) (by omega) hsh53
              rw [c53] at this; omega
            have hRv : R = 2^sh - M := by
              rw [← hR]; unfold fracR
              simp only [if_true]
              rw [Nat.mod_eq_of_lt hMlt, if_neg (by omega)]
            -- M = mn·2^29
            have hMsplit : M = m * 2^(52 - j - 29) * 2^29 := by
              rw [← hM, Nat.mul_assoc, ← Nat.pow_add]; congr 2; omega
            have hshsplit : 2^sh = 2^(sh - 29) * 2^29 := by
              rw [← Nat.pow_add]; congr 1; omega
            refine ⟨2^(sh - 29) - m * 2^(52 - j - 29), 29, ?_, ?_, ?_, by omega⟩
            · rw [hRv, hMsplit, hshsplit, Nat.sub_mul]
            · have : 0 < (2^(sh - 29) - m * 2^(52 - j - 29)) * 2^29 := by
                rw [Nat.sub_mul, ← hshsplit, ← hMsplit]; omega
              rcases Nat.eq_zero_or_pos (2^(sh - 29) - m * 2^(52 - j - 29)) with h0 | h0
              · rw [h0, Nat.zero_mul] at this; omega
              · exact h0
            · have := Nat.pow_le_pow_right (n := 2) (by omega) (show sh - 29 ≤ 53 by omega)
              rw [c53] at this
              have hmn : 0 < m * 2^(52 - j - 29) := by
                rcases Nat.eq_zero_or_pos (m * 2^(52 - j - 29)) with h0 | h0
                · rw [h0, Nat.zero_mul] at hMsplit; omega
                · exact h0
              omega
        obtain ⟨Rn, tz, hRRn, hRn0, hRnlt, htz⟩ := hex
        rcases hrel with ⟨a, ha, h⟩ | ⟨c, hc1, hc, h, _, _⟩
        · have hN0 : 0 < N := by
            rw [h]; exact Nat.mul_pos hRpos (Nat.two_pow_pos _)
          exact exact_regime R Rn tz E N a 0 hRRn hRn0 hRnlt htz (by omega) (by omega) hN0 hNlt
            (by rw [Nat.pow_zero, Nat.mul_one]; exact h) (by omega)
        · have hN0 : 0 < N := by
            rcases Nat.eq_zero_or_pos N with h0 | h0
            · rw [h0, Nat.zero_mul] at h; omega
            · exact h0
          exact exact_regime R Rn tz E N 0 c hRRn hRn0 hRnlt htz (by omega) (by omega) hN0 hNlt
            (by rw [Nat.pow_zero, Nat.mul_one]; exact h) (by omega)

/-! ## the headline theorem -/

/-- `|f|·2^149` for a finite float32, from its fields -/
def absV (f : F32) : Nat :=
  (if expo f = 0 then mant f else mant f + 8388608) * 2^(expo f - 1)

/-- `(f − ⌊f⌋)·2^149`: the fractional part of `f` as an integer multiple of `2^-149` -/
def fracN (f : F32) : Nat :=
  if sgn f = 1 then (2^149 - absV f % 2^149) % 2^149 else absV f % 2^149

/-- **`angleNorm f` is `f − ⌊f⌋` rounded once to binary32**: for every finite float32 `f` (normal,
    subnormal or zero, either sign) the value `encodeAngle` hands to `encodeZeroToOne` is the float32
    nearest (ties to even) to the rational `N/2^149`, `N = fracN f = (f − ⌊f⌋)·2^149` -/
theorem angle_mod1 (f : F32) (hfin : expo f ≠ 255) :
    angleNorm f = F32.ofRatio false (fracN f) (2^149) := by
  obtain ⟨hf, hs, hex, hmt⟩ := nb_fields f
  by_cases hz : f.nb % 2147483648 = 0
  · have hN : fracN f = 0 := by
      have h1 : expo f = 0 := by omega
      have h2 : mant f = 0 := by omega
      have hV : absV f = 0 := by simp [absV, h1, h2]
      unfold fracN; rw [hV]; split <;> simp
    rw [hN, ofRatio_zero]
    rcases zero_cases f hz with rfl | rfl
    · rw [angleNorm_zeros.1]; rfl
    · rw [angleNorm_zeros.2]; rfl
  · have hsgB : decide (sgn f = 1) = (sgn f == 1) := by
      by_cases h : sgn f = 1 <;> simp [h]
    by_cases hex0 : expo f = 0
    · -- subnormal
      have hm0 : 0 < mant f := by omega
      obtain ⟨j, kk, hjk, hj1, hj2⟩ := exists_jk (mant f) hm0 (by omega)
      have hj22 : j ≤ 22 := by
        rcases Nat.lt_or_ge j 23 with h | h
        · omega
        · have := Nat.pow_le_pow_right (n := 2) (by omega) h
          have c : (2:Nat)^23 = 8388608 := by decide
          rw [c] at this
          clear c
          omega
      have hu := unpack_f32 f.nb
      have e1 : f.nb / 8388608 % 256 = 0 := hex0
      have e2 : f.nb % 8388608 = mant f := rfl
      rw [e1, e2, if_neg (by omega), if_pos rfl] at hu
      have hsg : negB f.nb = (sgn f == 1) := by
        unfold negB
        have : f.nb / 2147483648 % 2 = sgn f := by
          show f.nb / 2147483648 % 2 = f.nb / 2147483648
          omega
        rw [this]
      rw [hsg] at hu
      rw [angle_core f _ _ _ j hu hj1 hj2 (by omega) (by omega) (by omega)]
      congr 1
      unfold fracNOf fracN absVOf absV
      rw [hex0]
      have : ((-149 : Int) + 149).toNat = 0 := by omega
      rw [this]
      by_cases h : sgn f = 1 <;> simp [h]
    · -- normal
      have hu := unpack_normal (sgn f) (expo f) (mant f) hs (by omega) (by omega) hmt
      rw [← hf] at hu
      have c23 : (2:Nat)^23 ≤ mant f + 8388608 := by
        have c : (2:Nat)^23 = 8388608 := by decide
        rw [c]; clear c; omega
      have c24 : mant f + 8388608 < (2:Nat)^(23 + 1) := by
        have c : (2:Nat)^(23+1) = 16777216 := by decide
        rw [c]; clear c; omega
      rw [angle_core f _ _ _ 23 hu c23 c24 (by omega) (by omega) (by omega)]
      congr 1
      unfold fracNOf fracN absVOf absV
      have : ((expo f : Int) - 150 + 149).toNat = expo f - 1 := by omega
      rw [this, if_neg hex0]
      by_cases h : sgn f = 1 <;> simp [h]


/-- the float32 nearest to `N/2^149`, `N < 2^149`, is non-negative and at most 1.0 -/
theorem ofRatio_le_one (N : Nat) (hN : N < 2^149) :
    (F32.ofRatio false N (2^149)).nb ≤ 1065353216 := by
  by_cases hN0 : N = 0
  · subst hN0; rw [ofRatio_zero]; decide
  have hNpos : 0 < N := by omega
  unfold F32.ofRatio
  have hbeq : (N == 0) = false := by simp; omega
  have hK : 40 + bitLen (2^149) - bitLen N = 190 - bitLen N := by rw [bitLen_2_149]
  simp only [hbeq, Bool.false_eq_true, if_false, hK]
  have hblN : bitLen N ≤ 149 := bitLen_le_of_lt _ _ hN
  obtain ⟨hb1, hb2⟩ := SpecL.bitLen_bounds hNpos
  obtain ⟨K, hKd⟩ : ∃ K, K = 190 - bitLen N := ⟨_, rfl⟩
  rw [← hKd]
  have hK41 : 41 ≤ K := by omega
  have hbl1 : 1 ≤ bitLen N := by
    rcases Nat.eq_zero_or_pos (bitLen N) with h | h
    · rw [h] at hb2; simp at hb2; omega
    · exact h
  have hD := Nat.two_pow_pos 149
  -- the scaled quotient has at least 40 bits and is below 2^K
  have hXlt : N * 2^K / 2^149 < 2^K := by
    apply Nat.div_lt_of_lt_mul
    exact (Nat.mul_lt_mul_right (Nat.two_pow_pos K)).2 hN
  have hXlo : 2^39 ≤ N * 2^K / 2^149 := by
    apply (Nat.le_div_iff_mul_le hD).2
    have h1 : 2^(bitLen N - 1) * 2^K ≤ N * 2^K := Nat.mul_le_mul_right _ hb1
    rw [← Nat.pow_add] at h1
    have hexp : 39 + 149 ≤ bitLen N - 1 + K := by omega
    have : 2^39 * 2^149 ≤ 2^(bitLen N - 1 + K) := by
      rw [← Nat.pow_add]; exact Nat.pow_le_pow_right (by omega) hexp
    omega
  have c25 : 2^25 ≤ N * 2^K / 2^149 := by
    have : (2:Nat)^25 ≤ 2^39 := Nat.pow_le_pow_right (by omega) (by omega)
    omega
  rw [SpecL.roundPack_div false _ _ _ hD c25, Z2O.withSign32]
  simp only [Bool.false_eq_true, if_false, Nat.zero_add]
  generalize hX : N * 2^K / 2^149 = X at *
  have hXpos : 0 < X := by have := Nat.two_pow_pos 39; omega
  have hblX : bitLen X ≤ K := bitLen_le_of_lt _ _ hXlt
  have hblX40 : 40 ≤ bitLen X := SpecL.bitLen_ge hXlo
  obtain ⟨hx1, hx2⟩ := SpecL.bitLen_bounds hXpos
  -- working exponent and shift of rq
  obtain ⟨fe, hfe⟩ : ∃ fe : Int, fe = if -(K : Int) + (bitLen (N * 2^K / 2^149) : Int) - 24 < -149 then -149
      else -(K : Int) + (bitLen (N * 2^K / 2^149) : Int) - 24 := ⟨_, rfl⟩
  rw [SpecL.rq_eq_rqAt _ _ _ fe hfe]
  rw [hX] at hfe
  have hfe24 : fe ≤ -24 := by rw [hfe]; split <;> omega
  have hfe149 : -149 ≤ fe := by rw [hfe]; split <;> omega
  obtain ⟨sft, hsft⟩ : ∃ sft : Nat, sft = (fe - -(K : Int)).toNat := ⟨_, rfl⟩
  rw [← hsft]
  have hsft1 : bitLen X ≤ sft + 24 := by rw [hfe] at hsft; split at hsft <;> omega
  unfold SpecL.rqAt SpecL.pack
  -- the truncated quotient is below 2^24
  have hq0 : N * 2^K / (2^149 * 2^sft) < 16777216 := by
    rw [← Nat.div_div_eq_div_mul, hX]
    apply Nat.div_lt_of_lt_mul
    have h1 := Nat.pow_le_pow_right (n := 2) (by omega) hsft1
    rw [Nat.pow_add] at h1
    have c24 : (2:Nat)^24 = 16777216 := by decide
    rw [c24] at h1
    omega
  generalize N * 2^K / (2^149 * 2^sft) = q0 at *
  have hbase : (fe + 149).toNat ≤ 125 := by omega
  generalize (fe + 149).toNat = base at *
  have hnb : ∀ x : Nat, x ≤ 1065353216 → (F32.ofNatBits x).nb = x :=
    fun x hx => nb_ofNatBits x (by omega)
  split
  · rw [if_neg (by omega), hnb _ (by omega)]; omega
  · rw [if_neg (by omega), hnb _ (by omega)]; omega

/-- `angleNorm f` lies in `[0, 1]`: sign bit clear, bit pattern at most that of 1.0 -/
theorem angle_range (f : F32) (hfin : expo f ≠ 255) :
    sgn (angleNorm f) = 0 ∧ (angleNorm f).nb ≤ 1065353216 := by
  have hlt : fracN f < 2^149 := by
    unfold fracN; split <;> exact Nat.mod_lt _ (Nat.two_pow_pos 149)
  have := ofRatio_le_one (fracN f) hlt
  rw [← angle_mod1 f hfin] at this
  refine ⟨?_, this⟩
  show (angleNorm f).nb / 2147483648 = 0
  omega

end Ivg.Angle
