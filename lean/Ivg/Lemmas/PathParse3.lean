import Ivg.Lemmas.PathParse2
/-!
# C20, parsing clauses — the generator's `SetPathData` on printed path data: the round trip

`setPathData_renderC`: for every well-formed concrete syntax tree `cs` (arbitrary separator runs),
`SetPathData (renderC cs)` succeeds and makes exactly the calls `spelled` by the path.
`setPathData_render`: the canonical printer.
-/
namespace Ivg.PathParse
open Ivg Gen Spec.PathData
variable {α : Type} [Arith α]

/-! ## what `cmdOK` says -/

theorem cmdOK_elim (c : Cmd CTok) (h : cmdOK c = true) :
    ∃ n, verbArgCount c.verb = some n ∧
      ((n = 0 ∧ c.groups = []) ∨
       (n ≠ 0 ∧ ∃ g gs, c.groups = g :: gs ∧ (∀ g' ∈ g :: gs, g'.length = n ∧ ∀ t ∈ g', TokOK t) ∧
          chainOK (g :: gs).flatten = true)) := by
  unfold cmdOK at h
  rw [arity_eq] at h
  split at h
  · cases h
  · rename_i hv
    exact ⟨0, hv, Or.inl ⟨rfl, by simpa using h⟩⟩
  · rename_i n hn0 hv
    refine ⟨n, hv, Or.inr ⟨fun h0 => hn0 h0, ?_⟩⟩
    simp only [Bool.and_eq_true, Bool.not_eq_true', List.isEmpty_eq_false_iff, List.all_eq_true, beq_iff_eq,
      ne_eq] at h
    obtain ⟨⟨⟨hne, hlen⟩, htok⟩, hchain⟩ := h
    cases hg : c.groups with
    | nil => exact absurd hg hne
    | cons g gs =>
      rw [hg] at hlen htok hchain
      exact ⟨g, gs, rfl, fun g' h' => ⟨hlen g' h', fun t ht => ⟨(htok g' h' t ht).1, by
        have := (htok g' h' t ht).2; simpa [List.all_eq_true] using this⟩⟩, hchain⟩

theorem flatMap_congr' {β γ : Type} (l : List β) (f g : β → List γ) (h : ∀ a ∈ l, f a = g a) :
    l.flatMap f = l.flatMap g := by
  induction l with
  | nil => rfl
  | cons a l ih =>
    rw [List.flatMap_cons, List.flatMap_cons, h a List.mem_cons_self,
      ih (fun b hb => h b (List.mem_cons_of_mem _ hb))]

theorem cmdCalls_eq (ts : List (Aff3 α)) (f : CTok → α) (v : Char) (n : Nat) (g : List CTok)
    (gs : List (List CTok)) (hall : ∀ g' ∈ g :: gs, g'.length = n) :
    cmdCalls ts (Cmd.map f ⟨v, g :: gs⟩) =
      draw v (normalizeArgs (g.map f) n v ts) ++
        gs.flatMap (fun g => draw (lineVerb v) (normalizeArgs (g.map f) n (lineVerb v) ts)) := by
  simp only [cmdCalls, Cmd.map, List.map_cons, op, List.length_map, List.flatMap_map]
  rw [hall g List.mem_cons_self]
  congr 1
  apply flatMap_congr'
  intro a ha
  rw [hall a (List.mem_cons_of_mem _ ha)]

theorem firstCalls_eq (adj : UInt8) (ts : List (Aff3 α)) (f : CTok → α) (v : Char) (n : Nat) (g : List CTok)
    (gs : List (List CTok)) (hall : ∀ g' ∈ g :: gs, g'.length = n) :
    firstCalls adj ts (Cmd.map f ⟨v, g :: gs⟩) =
      start adj (normalizeArgs (g.map f) 2 'M' ts) ++
        gs.flatMap (fun g => draw (lineVerb v) (normalizeArgs (g.map f) n (lineVerb v) ts)) := by
  simp only [firstCalls, Cmd.map, List.map_cons, op, List.length_map, List.flatMap_map]
  congr 1
  apply flatMap_congr'
  intro a ha
  rw [hall a (List.mem_cons_of_mem _ ha)]

/-! ## a later command -/

theorem loop_cmd_later (ts : List (Aff3 α)) (adj : UInt8) (c : Cmd CTok) (hc : cmdOK c = true)
    (x : Char) (X : List Char) (hxv : verbArgCount x ≠ none) (rest : List (Call α)) (K : Nat)
    (hk : ∀ k ≥ K, ∀ pn pv, pathLoop ts adj k false pn pv (x :: X) = .ok rest) :
    ∀ k ≥ K + 1 + c.groups.length, ∀ pn pv,
      pathLoop ts adj k false pn pv (renderCmd c ++ x :: X) =
        .ok (cmdCalls ts (c.map fun t => t.tok.value) ++ rest) := by
  intro k hk' pn pv
  obtain ⟨v, groups⟩ := c
  obtain ⟨n, hv, h | ⟨hn, g, gs, hgs, hall, hchain⟩⟩ := cmdOK_elim _ hc
  · obtain ⟨rfl, hg⟩ := h
    simp only at hg hv; subst hg
    obtain ⟨k', rfl⟩ : ∃ k', k = k' + 1 := ⟨k - 1, by omega⟩
    have := step_explicit ts adj k' false pn pv v 0 hv [] rfl (fun _ h => by cases h) x X trivial
      (verb_term x hxv).1
    simp only [List.flatMap_nil, List.nil_append, List.map_nil, Bool.false_eq_true, ↓reduceIte,
      normalize_nil, emit_z v hv] at this
    rw [hk k' (by simp at hk'; omega)] at this
    simpa [renderCmd, cmdCalls, Cmd.map] using this
  · simp only at hgs hv; subst hgs
    have hterm := verb_term x hxv
    have hch : ChainTo (g :: gs).flatten x :=
      chainTo_of_chainOK _ (fun t ht => by
        obtain ⟨g', hg', htg⟩ := List.mem_flatten.mp ht
        exact (hall g' hg').2 t htg) hchain x hterm
    have := loop_cmd_aux ts adj false v n hv hn g gs hall x X hch hterm.1 _
      (by simpa using emit_draw v n hv hn adj _ (by rw [normalize_length, List.length_map, (hall g List.mem_cons_self).1]))
      rest K hk k (by simp only [List.length_cons] at hk'; omega) pn pv
    rw [this, cmdCalls_eq ts _ v n g gs (fun g' h' => (hall g' h').1)]

/-! ## the commands after the first, up to the final `z` -/

/-- iterations (over-)estimated per command: one per group, one for the verb, one for the final test -/
def fuelOf (cs : List (Cmd CTok)) : Nat := (cs.map fun c => 1 + c.groups.length).sum + 1

theorem rest_head (cs : List (Cmd CTok)) (hcs : ∀ c ∈ cs, cmdOK c = true) :
    ∃ x X, renderCmds cs ++ ['z'] = x :: X ∧ verbArgCount x ≠ none := by
  cases cs with
  | nil => exact ⟨'z', [], rfl, by decide⟩
  | cons c cs =>
    obtain ⟨n, hv, _⟩ := cmdOK_elim c (hcs c List.mem_cons_self)
    exact ⟨c.verb, _, by simp [renderCmds, renderCmd]; rfl, by rw [hv]; simp⟩

theorem loop_cmds (ts : List (Aff3 α)) (adj : UInt8) (cs : List (Cmd CTok)) (hcs : ∀ c ∈ cs, cmdOK c = true) :
    ∀ k ≥ fuelOf cs, ∀ pn pv,
      pathLoop ts adj k false pn pv (renderCmds cs ++ ['z']) =
        .ok (cs.flatMap (fun c => cmdCalls ts (c.map fun t => t.tok.value)) ++ [.closeEnd]) := by
  induction cs with
  | nil =>
    intro k hk pn pv
    obtain ⟨k', rfl⟩ : ∃ k', k = k' + 1 := ⟨k - 1, by simp [fuelOf] at hk; omega⟩
    simp [renderCmds, pathLoop]
  | cons c cs ih =>
    intro k hk pn pv
    have hcs' : ∀ c' ∈ cs, cmdOK c' = true := fun c' h' => hcs c' (List.mem_cons_of_mem _ h')
    obtain ⟨x, X, hX, hxv⟩ := rest_head cs hcs'
    have hih := ih hcs'
    rw [hX] at hih
    have hstr : renderCmds (c :: cs) ++ ['z'] = renderCmd c ++ x :: X := by
      rw [← hX]; simp [renderCmds]
    rw [hstr, loop_cmd_later ts adj c (hcs c List.mem_cons_self) x X hxv _ (fuelOf cs) hih k
      (by simp only [fuelOf, List.map_cons, List.sum_cons] at hk ⊢; omega)]
    simp

/-! ## the whole path -/

theorem isMove_count (v : Char) (h : isMove v = true) : verbArgCount v = some 2 := by
  simp only [isMove, decide_eq_true_eq] at h
  rcases h with rfl | rfl <;> rfl

theorem pathLoop_render (ts : List (Aff3 α)) (adj : UInt8) (cs : List (Cmd CTok)) (hwf : WellFormedC cs) :
    ∀ k ≥ fuelOf cs,
      pathLoop ts adj k true 0 none (renderCmds cs ++ ['z']) =
        .ok (spelled adj ts (cs.map (Cmd.map fun t => t.tok.value))) := by
  intro k hk
  obtain ⟨hfirst, hall⟩ := hwf
  rw [List.all_eq_true] at hall
  cases cs with
  | nil => simp at hfirst
  | cons c cs =>
    simp only at hfirst
    have hcs' : ∀ c' ∈ cs, cmdOK c' = true := fun c' h' => hall c' (List.mem_cons_of_mem _ h')
    obtain ⟨x, X, hX, hxv⟩ := rest_head cs hcs'
    have hrest := loop_cmds ts adj cs hcs'
    rw [hX] at hrest
    have hstr : renderCmds (c :: cs) ++ ['z'] = renderCmd c ++ x :: X := by
      rw [← hX]; simp [renderCmds]
    obtain ⟨v, groups⟩ := c
    have hv2 := isMove_count v hfirst
    obtain ⟨n, hv, h | ⟨hn, g, gs, hgs, hallg, hchain⟩⟩ := cmdOK_elim _ (hall _ List.mem_cons_self)
    · simp only at hv; rw [hv2] at hv; cases hv; exact absurd h.1 (by decide)
    · simp only at hgs hv; subst hgs
      rw [hv2] at hv; cases hv
      have hterm := verb_term x hxv
      have hch : ChainTo (g :: gs).flatten x :=
        chainTo_of_chainOK _ (fun t ht => by
          obtain ⟨g', hg', htg⟩ := List.mem_flatten.mp ht
          exact (hallg g' hg').2 t htg) hchain x hterm
      have := loop_cmd_aux ts adj true v 2 hv2 hn g gs hallg x X hch hterm.1 _
        (by simpa using emit_start adj _ (by rw [List.length_map, (hallg g List.mem_cons_self).1]) ts)
        _ (fuelOf cs) hrest k
        (by simp only [fuelOf, List.map_cons, List.sum_cons, List.length_cons] at hk ⊢; omega) 0 none
      rw [hstr, this, List.map_cons, spelled, firstCalls_eq adj ts _ v 2 g gs (fun g' h' => (hallg g' h').1)]
      simp [List.flatMap_map]

/-! ## fuel: the string is long enough -/

theorem group_render_pos (g : List CTok) (hne : g ≠ []) (hg : ∀ t ∈ g, TokOK t) :
    1 ≤ (g.flatMap CTok.render).length := by
  cases g with
  | nil => exact absurd rfl hne
  | cons t r =>
    obtain ⟨w, tl, hr, _⟩ := tok_first t.tok (hg t List.mem_cons_self).1
    simp [CTok.render, hr]

theorem groups_render_len (gs : List (List CTok)) (h : ∀ g ∈ gs, g ≠ [] ∧ ∀ t ∈ g, TokOK t) :
    gs.length ≤ (gs.flatMap (·.flatMap CTok.render)).length := by
  induction gs with
  | nil => simp
  | cons g gs ih =>
    have h1 := group_render_pos g (h g List.mem_cons_self).1 (h g List.mem_cons_self).2
    have h2 := ih (fun g' h' => h g' (List.mem_cons_of_mem _ h'))
    simp only [List.flatMap_cons, List.length_append, List.length_cons]
    omega

theorem cmd_render_len (c : Cmd CTok) (hc : cmdOK c = true) : 1 + c.groups.length ≤ (renderCmd c).length := by
  obtain ⟨n, _, h | ⟨hn, g, gs, hgs, hall, _⟩⟩ := cmdOK_elim c hc
  · simp [renderCmd, h.2]
  · have := groups_render_len c.groups (by
      rw [hgs]; intro g' h'
      refine ⟨?_, (hall g' h').2⟩
      intro h0; have := (hall g' h').1; rw [h0] at this; exact hn this.symm)
    simp only [renderCmd, List.length_cons]; omega

theorem fuel_le (cs : List (Cmd CTok)) (hcs : ∀ c ∈ cs, cmdOK c = true) :
    fuelOf cs ≤ (renderCmds cs ++ ['z']).length + 1 := by
  induction cs with
  | nil => simp [fuelOf, renderCmds]
  | cons c cs ih =>
    have h1 := cmd_render_len c (hcs c List.mem_cons_self)
    have h2 := ih (fun c' h' => hcs c' (List.mem_cons_of_mem _ h'))
    simp only [fuelOf, List.map_cons, List.sum_cons, renderCmds, List.flatMap_cons, List.length_append,
      List.length_cons, List.length_nil] at h2 ⊢
    omega

/-! ## headline: the round trip -/

/-- **C20, parsing clause, generator.**  For every well-formed path in the generator's dialect — printed
    with ARBITRARY runs of spaces and commas between numerals, possibly none where the next numeral
    delimits itself (`1-2`, `1.5.5`), numerals with optional sign, leading `.5`, trailing `5.` —
    `SetPathData` succeeds and makes exactly the calls spelled by the path, operands read as
    `float32(ParseFloat(·, 64))` and passed through the configured transforms. -/
theorem setPathData_renderC (ts : List (Aff3 α)) (adj : UInt8) (cs : List (Cmd CTok)) (hwf : WellFormedC cs) :
    setPathData ts (renderC cs) adj = .ok (spelled adj ts (cs.map (Cmd.map fun t => t.tok.value))) := by
  unfold setPathData renderC
  rw [String.toList_ofList, String.length_ofList]
  apply pathLoop_render ts adj cs hwf
  have := fuel_le cs (by have := hwf.2; rwa [List.all_eq_true] at this)
  omega

/-! ## the canonical printer -/

def withSpace (t : Tok) : CTok := ⟨t, [' ']⟩

theorem chainOK_of_sep (l : List CTok) (h : ∀ t ∈ l, t.sep ≠ []) : chainOK l = true := by
  induction l with
  | nil => rfl
  | cons t r ih =>
    cases r with
    | nil => rfl
    | cons t2 r' =>
      simp only [chainOK, Bool.and_eq_true]
      refine ⟨?_, ih (fun t' h' => h t' (List.mem_cons_of_mem _ h'))⟩
      have := h t List.mem_cons_self
      simp [adjOK, this]

theorem wellFormedC_of_wellFormed (cs : List (Cmd Tok)) (hwf : WellFormed cs) :
    WellFormedC (cs.map (Cmd.map withSpace)) := by
  obtain ⟨h1, h2⟩ := hwf
  constructor
  · cases cs with
    | nil => simp at h1
    | cons c cs => simpa [Cmd.map] using h1
  · rw [List.all_eq_true] at h2 ⊢
    intro c' hc'
    obtain ⟨c, hc, rfl⟩ := List.mem_map.mp hc'
    have := h2 c hc
    unfold cmdOK
    simp only [Cmd.map]
    split at this
    · cases this
    · simpa using this
    · rename_i n hn0 hv
      simp only [Bool.and_eq_true, Bool.not_eq_true', List.isEmpty_eq_false_iff, List.all_eq_true,
        beq_iff_eq, ne_eq] at this
      obtain ⟨⟨hne, hlen⟩, htok⟩ := this
      simp only [Bool.and_eq_true, Bool.not_eq_true', List.isEmpty_eq_false_iff, List.all_eq_true,
        beq_iff_eq, ne_eq, List.map_eq_nil_iff, List.mem_map, forall_exists_index, and_imp,
        forall_apply_eq_imp_iff₂, List.length_map]
      refine ⟨⟨⟨hne, hlen⟩, ?_⟩, ?_⟩
      · intro g hg t ht
        exact ⟨htok g hg t ht, by simp [withSpace, isSep]⟩
      · apply chainOK_of_sep
        intro t ht
        obtain ⟨g', hg', htg⟩ := List.mem_flatten.mp ht
        obtain ⟨g, _, rfl⟩ := List.mem_map.mp hg'
        obtain ⟨t0, _, rfl⟩ := List.mem_map.mp htg
        simp [withSpace]

theorem cmd_map_map {β γ δ : Type} (f : β → γ) (g : γ → δ) (c : Cmd β) :
    Cmd.map g (Cmd.map f c) = Cmd.map (fun a => g (f a)) c := by
  simp [Cmd.map, List.map_map, Function.comp_def]

theorem render_eq_renderC (cs : List (Cmd Tok)) : render cs = renderC (cs.map (Cmd.map withSpace)) := rfl

/-- **C20, parsing clause, generator, canonical syntax** (`M1 2 3 4 L5 6 z`): printing an abstract path
    and handing it to `SetPathData` makes exactly the calls the path spells. -/
theorem setPathData_render (ts : List (Aff3 α)) (adj : UInt8) (cmds : List (Cmd Tok)) (hwf : WellFormed cmds) :
    setPathData ts (render cmds) adj = .ok (spelled adj ts (cmds.map (Cmd.map Tok.value))) := by
  rw [render_eq_renderC, setPathData_renderC ts adj _ (wellFormedC_of_wellFormed cmds hwf), List.map_map]
  congr 2
  apply List.map_congr_left
  intro c _
  simp [Cmd.map, withSpace, Function.comp_def]

end Ivg.PathParse
