import Ivg.Lemmas.RatInst
import Ivg.Model.ViewBox
import Mathlib.Tactic.Ring
import Mathlib.Tactic.FieldSimp
import Mathlib.Tactic.Linarith
import Mathlib.Tactic.Positivity
/-!
# C12 at exact arithmetic: `ViewBox.aspectMeet` / `aspectSlice` / `size` over `ℚ`
-/
namespace Ivg.FitQ
open Ivg RatInst

/-- `aspectMeet` written with the field operations of `ℚ` (definitional unfolding) -/
theorem aspectMeet_def (v : ViewBox ℚ) (dx dy ax ay : ℚ) :
    v.aspectMeet dx dy ax ay =
      (let r := (v.maxX - v.minX) / (v.maxY - v.minY)
       let p : ℚ × ℚ := if dx / dy < r then (dx, dx / r) else (dy * r, dy)
       ((dx - p.1) * ax, (dy - p.2) * ay, (dx - p.1) * ax + p.1, (dy - p.2) * ay + p.2)) := rfl

theorem aspectSlice_def (v : ViewBox ℚ) (dx dy ax ay : ℚ) :
    v.aspectSlice dx dy ax ay =
      (let r := (v.maxX - v.minX) / (v.maxY - v.minY)
       let p : ℚ × ℚ := if dx / dy < r then (dy * r, dy) else (dx, dx / r)
       ((dx - p.1) * ax, (dy - p.2) * ay, dx - (dx - p.1) * (((1 : Int) : ℚ) - ax),
        dy - (dy - p.2) * (((1 : Int) : ℚ) - ay))) := rfl

/-- at exact arithmetic the far edge measured from the target's far edge is the near edge plus the size -/
theorem far_edge (d p a : ℚ) : d - (d - p) * (((1 : Int) : ℚ) - a) = (d - p) * a + p := by
  simp only [Int.cast_one]; ring

theorem aspectMeet_eq (v : ViewBox ℚ) (dx dy ax ay : ℚ) :
    v.aspectMeet dx dy ax ay =
      (if dx / dy < (v.maxX - v.minX) / (v.maxY - v.minY) then
        ((dx - dx) * ax, (dy - dx / ((v.maxX - v.minX) / (v.maxY - v.minY))) * ay,
         (dx - dx) * ax + dx,
         (dy - dx / ((v.maxX - v.minX) / (v.maxY - v.minY))) * ay + dx / ((v.maxX - v.minX) / (v.maxY - v.minY)))
      else
        ((dx - dy * ((v.maxX - v.minX) / (v.maxY - v.minY))) * ax, (dy - dy) * ay,
         (dx - dy * ((v.maxX - v.minX) / (v.maxY - v.minY))) * ax + dy * ((v.maxX - v.minX) / (v.maxY - v.minY)),
         (dy - dy) * ay + dy)) := by
  rw [aspectMeet_def]
  by_cases h : dx / dy < (v.maxX - v.minX) / (v.maxY - v.minY)
  · simp only [if_pos h]
  · simp only [if_neg h]

theorem aspectSlice_eq (v : ViewBox ℚ) (dx dy ax ay : ℚ) :
    v.aspectSlice dx dy ax ay =
      (if dx / dy < (v.maxX - v.minX) / (v.maxY - v.minY) then
        ((dx - dy * ((v.maxX - v.minX) / (v.maxY - v.minY))) * ax, (dy - dy) * ay,
         (dx - dy * ((v.maxX - v.minX) / (v.maxY - v.minY))) * ax + dy * ((v.maxX - v.minX) / (v.maxY - v.minY)),
         (dy - dy) * ay + dy)
      else
        ((dx - dx) * ax, (dy - dx / ((v.maxX - v.minX) / (v.maxY - v.minY))) * ay,
         (dx - dx) * ax + dx,
         (dy - dx / ((v.maxX - v.minX) / (v.maxY - v.minY))) * ay + dx / ((v.maxX - v.minX) / (v.maxY - v.minY)))) := by
  rw [aspectSlice_def]
  by_cases h : dx / dy < (v.maxX - v.minX) / (v.maxY - v.minY)
  · simp only [if_pos h, far_edge]
  · simp only [if_neg h, far_edge]

/-- the fitted size `(w, h)`: closed form of both functions.  `meet` picks the smaller rectangle. -/
theorem meet_cases (v : ViewBox ℚ) (dx dy ax ay : ℚ)
    (hx : v.minX < v.maxX) (hy : v.minY < v.maxY) (hdx : 0 < dx) (hdy : 0 < dy) :
    let W := v.maxX - v.minX
    let H := v.maxY - v.minY
    (dx * H < dy * W ∧
      v.aspectMeet dx dy ax ay = (0, (dy - dx * H / W) * ay, dx, (dy - dx * H / W) * ay + dx * H / W)) ∨
    (dy * W ≤ dx * H ∧
      v.aspectMeet dx dy ax ay = ((dx - dy * W / H) * ax, 0, (dx - dy * W / H) * ax + dy * W / H, dy)) := by
  intro W H
  have hW : 0 < W := sub_pos.mpr hx
  have hH : 0 < H := sub_pos.mpr hy
  rw [aspectMeet_eq]
  by_cases h : dx / dy < (v.maxX - v.minX) / (v.maxY - v.minY)
  · left
    rw [if_pos h]
    refine ⟨by rw [div_lt_div_iff₀ hdy hH] at h; linarith, ?_⟩
    show _ = ((0 : ℚ), (dy - dx * H / W) * ay, dx, (dy - dx * H / W) * ay + dx * H / W)
    have e : dx / (W / H) = dx * H / W := by field_simp
    simp only [Prod.mk.injEq]
    refine ⟨by ring, ?_, by ring, ?_⟩ <;> (show _ = _; rw [← e])
  · right
    rw [if_neg h]
    refine ⟨by rw [not_lt, div_le_div_iff₀ hH hdy] at h; linarith, ?_⟩
    have e : dy * (W / H) = dy * W / H := by ring
    simp only [Prod.mk.injEq]
    refine ⟨?_, by ring, ?_, by ring⟩ <;> (show _ = _; rw [← e])

theorem slice_cases (v : ViewBox ℚ) (dx dy ax ay : ℚ)
    (hx : v.minX < v.maxX) (hy : v.minY < v.maxY) (hdx : 0 < dx) (hdy : 0 < dy) :
    let W := v.maxX - v.minX
    let H := v.maxY - v.minY
    (dx * H < dy * W ∧
      v.aspectSlice dx dy ax ay = ((dx - dy * W / H) * ax, 0, (dx - dy * W / H) * ax + dy * W / H, dy)) ∨
    (dy * W ≤ dx * H ∧
      v.aspectSlice dx dy ax ay = (0, (dy - dx * H / W) * ay, dx, (dy - dx * H / W) * ay + dx * H / W)) := by
  intro W H
  have hW : 0 < W := sub_pos.mpr hx
  have hH : 0 < H := sub_pos.mpr hy
  rw [aspectSlice_eq]
  by_cases h : dx / dy < (v.maxX - v.minX) / (v.maxY - v.minY)
  · left
    rw [if_pos h]
    refine ⟨by rw [div_lt_div_iff₀ hdy hH] at h; linarith, ?_⟩
    have e : dy * (W / H) = dy * W / H := by ring
    simp only [Prod.mk.injEq]
    refine ⟨?_, by ring, ?_, by ring⟩ <;> (show _ = _; rw [← e])
  · right
    rw [if_neg h]
    refine ⟨by rw [not_lt, div_le_div_iff₀ hH hdy] at h; linarith, ?_⟩
    have e : dx / (W / H) = dx * H / W := by field_simp
    simp only [Prod.mk.injEq]
    refine ⟨by ring, ?_, by ring, ?_⟩ <;> (show _ = _; rw [← e])

/-! ## the headline statements -/

/-- everything C12 says about `meet`, for one result tuple `(x0, y0, x1, y1)` -/
structure MeetSpec (v : ViewBox ℚ) (dx dy ax ay : ℚ) (x0 y0 x1 y1 : ℚ) : Prop where
  /-- the viewBox's aspect ratio (cross-multiplied) -/
  aspect : (x1 - x0) * (v.maxY - v.minY) = (y1 - y0) * (v.maxX - v.minX)
  /-- positive size -/
  pos : x0 < x1 ∧ y0 < y1
  /-- lies within the target `[0,dx] × [0,dy]` -/
  inside : 0 ≤ x0 ∧ x1 ≤ dx ∧ 0 ≤ y0 ∧ y1 ≤ dy
  /-- equals the target in at least one dimension -/
  touches : x1 - x0 = dx ∨ y1 - y0 = dy
  /-- the slack is divided according to the alignment fractions -/
  align : x0 = (dx - (x1 - x0)) * ax ∧ y0 = (dy - (y1 - y0)) * ay

structure SliceSpec (v : ViewBox ℚ) (dx dy ax ay : ℚ) (x0 y0 x1 y1 : ℚ) : Prop where
  aspect : (x1 - x0) * (v.maxY - v.minY) = (y1 - y0) * (v.maxX - v.minX)
  pos : x0 < x1 ∧ y0 < y1
  /-- covers the target `[0,dx] × [0,dy]` -/
  covers : x0 ≤ 0 ∧ dx ≤ x1 ∧ y0 ≤ 0 ∧ dy ≤ y1
  touches : x1 - x0 = dx ∨ y1 - y0 = dy
  /-- the overflow (a non-positive slack) is divided according to the alignment fractions -/
  align : x0 = (dx - (x1 - x0)) * ax ∧ y0 = (dy - (y1 - y0)) * ay

theorem meet_fits (v : ViewBox ℚ) (dx dy ax ay : ℚ)
    (hx : v.minX < v.maxX) (hy : v.minY < v.maxY) (hdx : 0 < dx) (hdy : 0 < dy)
    (hax : 0 ≤ ax ∧ ax ≤ 1) (hay : 0 ≤ ay ∧ ay ≤ 1) :
    MeetSpec v dx dy ax ay (v.aspectMeet dx dy ax ay).1 (v.aspectMeet dx dy ax ay).2.1
      (v.aspectMeet dx dy ax ay).2.2.1 (v.aspectMeet dx dy ax ay).2.2.2 := by
  have hW : 0 < v.maxX - v.minX := sub_pos.mpr hx
  have hH : 0 < v.maxY - v.minY := sub_pos.mpr hy
  rcases meet_cases v dx dy ax ay hx hy hdx hdy with ⟨hlt, e⟩ | ⟨hle, e⟩
  · rw [e]
    simp only
    generalize hWd : v.maxX - v.minX = W at *
    generalize hHd : v.maxY - v.minY = H at *
    have hh : dx * H / W < dy := by rw [div_lt_iff₀ hW]; exact hlt
    have hp : 0 < dx * H / W := by positivity
    have hc : dx * H / W * W = dx * H := by field_simp
    generalize dx * H / W = h at *
    refine ⟨by rw [hWd, hHd]; linarith, ⟨hdx, by linarith⟩, ⟨le_refl _, le_refl _, ?_, ?_⟩, Or.inl (by ring), by ring, by ring⟩
    · exact mul_nonneg (by linarith) hay.1
    · nlinarith [mul_nonneg (sub_nonneg.mpr hh.le) (sub_nonneg.mpr hay.2)]
  · rw [e]
    simp only
    generalize hWd : v.maxX - v.minX = W at *
    generalize hHd : v.maxY - v.minY = H at *
    have hh : dy * W / H ≤ dx := by rw [div_le_iff₀ hH]; exact hle
    have hp : 0 < dy * W / H := by positivity
    have hc : dy * W / H * H = dy * W := by field_simp
    generalize dy * W / H = w at *
    refine ⟨by rw [hWd, hHd]; linarith, ⟨by linarith, hdy⟩, ⟨?_, ?_, le_refl _, le_refl _⟩, Or.inr (by ring), by ring, by ring⟩
    · exact mul_nonneg (by linarith) hax.1
    · nlinarith [mul_nonneg (sub_nonneg.mpr hh) (sub_nonneg.mpr hax.2)]

theorem slice_covers (v : ViewBox ℚ) (dx dy ax ay : ℚ)
    (hx : v.minX < v.maxX) (hy : v.minY < v.maxY) (hdx : 0 < dx) (hdy : 0 < dy)
    (hax : 0 ≤ ax ∧ ax ≤ 1) (hay : 0 ≤ ay ∧ ay ≤ 1) :
    SliceSpec v dx dy ax ay (v.aspectSlice dx dy ax ay).1 (v.aspectSlice dx dy ax ay).2.1
      (v.aspectSlice dx dy ax ay).2.2.1 (v.aspectSlice dx dy ax ay).2.2.2 := by
  have hW : 0 < v.maxX - v.minX := sub_pos.mpr hx
  have hH : 0 < v.maxY - v.minY := sub_pos.mpr hy
  rcases slice_cases v dx dy ax ay hx hy hdx hdy with ⟨hlt, e⟩ | ⟨hle, e⟩
  · rw [e]
    simp only
    generalize hWd : v.maxX - v.minX = W at *
    generalize hHd : v.maxY - v.minY = H at *
    have hh : dx < dy * W / H := by rw [lt_div_iff₀ hH]; exact hlt
    have hp : 0 < dy * W / H := by positivity
    have hc : dy * W / H * H = dy * W := by field_simp
    generalize dy * W / H = w at *
    refine ⟨by rw [hWd, hHd]; linarith, ⟨by linarith, hdy⟩, ⟨?_, ?_, le_refl _, le_refl _⟩, Or.inr (by ring), by ring, by ring⟩
    · exact mul_nonpos_of_nonpos_of_nonneg (by linarith) hax.1
    · nlinarith [mul_nonneg (sub_nonneg.mpr hh.le) (sub_nonneg.mpr hax.2)]
  · rw [e]
    simp only
    generalize hWd : v.maxX - v.minX = W at *
    generalize hHd : v.maxY - v.minY = H at *
    have hh : dy ≤ dx * H / W := by rw [le_div_iff₀ hW]; exact hle
    have hp : 0 < dx * H / W := by positivity
    have hc : dx * H / W * W = dx * H := by field_simp
    generalize dx * H / W = h at *
    refine ⟨by rw [hWd, hHd]; linarith, ⟨hdx, by linarith⟩, ⟨le_refl _, le_refl _, ?_, ?_⟩, Or.inl (by ring), by ring, by ring⟩
    · exact mul_nonpos_of_nonpos_of_nonneg (by linarith) hay.1
    · nlinarith [mul_nonneg (sub_nonneg.mpr hh) (sub_nonneg.mpr hay.2)]

/-- the three named alignments, as consequences of the `align` clause (any result tuple) -/
theorem align_cases {d a x0 x1 : ℚ} (h : x0 = (d - (x1 - x0)) * a) :
    (a = 0 → x0 = 0) ∧ (a = 1 → x1 = d) ∧ (a = 1 / 2 → x0 - 0 = d - x1) := by
  refine ⟨fun ha => by rw [h, ha]; ring, fun ha => ?_, fun ha => ?_⟩
  · rw [ha] at h; linarith
  · rw [ha] at h; linarith

theorem size_eq (v : ViewBox ℚ) : v.size = (v.maxX - v.minX, v.maxY - v.minY) := rfl

end Ivg.FitQ
