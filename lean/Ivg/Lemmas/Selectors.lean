import Ivg.Model.Renderer
import Ivg.Lemmas.EncoderProto
/-!
# CSEL / NSEL: the Encoder and the Renderer follow the same selector machine (C07, selector clause)
-/
namespace Ivg.Selectors
set_option linter.constructorNameAsVariable false
open Ivg Ivg.Num Ivg.Enc Ivg.Ren Ivg.EncoderProto

/-! ## specification: the selector part of the decoding machine

`(CSEL, NSEL)` as the format specification defines them: both 0 after the metadata (Reset), set to the
low six bits by "Set CSEL/NSEL", incremented modulo 64 by the incrementing forms of "Set CREG/NREG",
untouched by everything else. -/

def vmSel {α : Type} (s : UInt8 × UInt8) : Call α → UInt8 × UInt8
  | .reset _ _ => (0, 0)
  | .setCSel v => (v % 64, s.2)
  | .setNSel v => (s.1, v % 64)
  | .setCReg _ incr _ => (if incr then (s.1 + 1) % 64 else s.1, s.2)
  | .setNReg _ incr _ => (s.1, if incr then (s.2 + 1) % 64 else s.2)
  | .setLOD _ _ => s
  | .startPath _ _ _ => s
  | .closeEnd => s
  | .d1 _ _ => s
  | .d2 _ _ _ => s
  | .d4 _ _ _ _ _ => s
  | .d6 _ _ _ _ _ _ _ => s
  | .arc _ _ _ _ _ _ _ _ => s

def vmSelRun {α : Type} (s : UInt8 × UInt8) (cs : List (Call α)) : UInt8 × UInt8 := cs.foldl vmSel s

theorem and_3f (v : UInt8) : v &&& 0x3f = v % 64 := by
  apply UInt8.toNat_inj.mp
  rw [UInt8.toNat_and, UInt8.toNat_mod]
  exact Nat.and_two_pow_sub_one_eq_mod v.toNat 6

/-- `% 64` on bytes is the arithmetic "modulo 64", also across the wrap-around of `+ 1` at 256. -/
theorem succ_mod64_toNat (v : UInt8) : ((v + 1) % 64).toNat = (v.toNat + 1) % 64 := by
  rw [UInt8.toNat_mod, UInt8.toNat_add]
  have := v.toNat_lt
  simp

theorem mod64_lt (v : UInt8) : v % 64 < 64 := by
  rw [UInt8.lt_iff_toNat_lt, UInt8.toNat_mod]
  exact Nat.mod_lt _ (by decide)

/-- the selector machine keeps both selectors below 64 -/
theorem vmSel_lt {α : Type} (s : UInt8 × UInt8) (c : Call α) (h : s.1 < 64 ∧ s.2 < 64) :
    (vmSel s c).1 < 64 ∧ (vmSel s c).2 < 64 := by
  cases c with
  | reset vb pal => exact ⟨(by decide : (0 : UInt8) < 64), (by decide : (0 : UInt8) < 64)⟩
  | setCSel v => exact ⟨mod64_lt _, h.2⟩
  | setNSel v => exact ⟨h.1, mod64_lt _⟩
  | setCReg adj incr c =>
    refine ⟨?_, h.2⟩; simp only [vmSel]; split
    · exact mod64_lt _
    · exact h.1
  | setNReg adj incr c =>
    refine ⟨h.1, ?_⟩; simp only [vmSel]; split
    · exact mod64_lt _
    · exact h.2
  | _ => exact h

/-! ## (a) the Renderer -/

section renderer
variable {α β : Type} [Arith α] [Arith β] [Wide α β]

def rsel (z : Renderer α β) : UInt8 × UInt8 := (z.cSel, z.nSel)

omit [Arith α] [Arith β] [Wide α β] in
theorem foldl_pen_sel (ops : List (RasterOp α β)) (z : Renderer α β) :
    rsel (ops.foldl (fun (z : Renderer α β) op => match op with
      | .lineTo x y => { z with penX := x, penY := y }
      | .cubeTo _ _ _ _ x y => { z with penX := x, penY := y }
      | _ => z) z) = rsel z := by
  induction ops generalizing z with
  | nil => rfl
  | cons op ops ih =>
    rw [List.foldl_cons, ih]
    cases op <;> rfl

theorem startPath_sel (z : Renderer α β) (adj : UInt8) (x y : α) : rsel (z.startPath adj x y).1 = rsel z := by
  unfold Renderer.startPath
  simp only []
  repeat' split
  all_goals rfl

/-- The Renderer's selectors follow the selector machine, for every call, whatever its state,
    the arc implementation and the number types. -/
theorem renderer_sel (arc : ArcFn α β) (posInf : α) (z : Renderer α β) (c : Call α) :
    rsel (z.step arc posInf c).1 = vmSel (rsel z) c := by
  cases c with
  | reset vb pal => rfl
  | setCSel v => simp [Renderer.step, rsel, vmSel, and_3f]
  | setNSel v => simp [Renderer.step, rsel, vmSel, and_3f]
  | setCReg adj incr c => cases incr <;> simp [Renderer.step, rsel, vmSel, and_3f]
  | setNReg adj incr f => cases incr <;> simp [Renderer.step, rsel, vmSel, and_3f]
  | setLOD l0 l1 => rfl
  | startPath adj x y => exact startPath_sel z adj x y
  | closeEnd => simp only [Renderer.step, vmSel]; split <;> rfl
  | d1 v x => cases v <;> (simp only [Renderer.step, vmSel]; split <;> rfl)
  | d2 v x y => cases v <;> (simp only [Renderer.step, vmSel]; split <;> rfl)
  | d4 v a b x y => cases v <;> (simp only [Renderer.step, vmSel]; split <;> rfl)
  | d6 v a b c d x y => cases v <;> (simp only [Renderer.step, vmSel]; split <;> rfl)
  | arc rel rx ry rot la sw x y =>
    simp only [Renderer.step, vmSel]
    split
    · rfl
    · exact foldl_pen_sel _ _

theorem renderer_run_cons (arc : ArcFn α β) (posInf : α) (z : Renderer α β) (c : Call α) (cs : List (Call α)) :
    (z.run arc posInf (c :: cs)).1 = ((z.step arc posInf c).1.run arc posInf cs).1 := rfl

theorem renderer_run_sel (arc : ArcFn α β) (posInf : α) (z : Renderer α β) (cs : List (Call α)) :
    rsel (z.run arc posInf cs).1 = vmSelRun (rsel z) cs := by
  induction cs generalizing z with
  | nil => rfl
  | cons c cs ih => rw [renderer_run_cons, ih, renderer_sel]; rfl

theorem vmSelRun_lt {α : Type} (s : UInt8 × UInt8) (cs : List (Call α)) (h : s.1 < 64 ∧ s.2 < 64) :
    (vmSelRun s cs).1 < 64 ∧ (vmSelRun s cs).2 < 64 := by
  induction cs generalizing s with
  | nil => exact h
  | cons c cs ih => exact ih _ (vmSel_lt s c h)

/-- the bound is preserved by every call … -/
theorem renderer_sel_lt (arc : ArcFn α β) (posInf : α) (z : Renderer α β) (c : Call α)
    (h : z.cSel < 64 ∧ z.nSel < 64) : (z.step arc posInf c).1.cSel < 64 ∧ (z.step arc posInf c).1.nSel < 64 := by
  have := vmSel_lt (rsel z) c h
  rw [← renderer_sel arc posInf] at this
  exact this

/-- … hence the Renderer's selectors are 6-bit values after any history from the zero value. -/
theorem renderer_selectors_6bit (arc : ArcFn α β) (posInf : α) (cs : List (Call α)) :
    ((Renderer.zero : Renderer α β).run arc posInf cs).1.cSel < 64 ∧
    ((Renderer.zero : Renderer α β).run arc posInf cs).1.nSel < 64 := by
  have := vmSelRun_lt (rsel (Renderer.zero : Renderer α β)) cs
    ⟨(by decide : (0 : UInt8) < 64), (by decide : (0 : UInt8) < 64)⟩
  rw [← renderer_run_sel arc posInf] at this
  exact this

end renderer

/-! ## (b) the Encoder -/

def esel (e : Encoder) : UInt8 × UInt8 := (e.cSel, e.nSel)

@[simp] theorem esel_cms (e : Encoder) : esel e.checkModeStyling = esel e := by simp [esel]
@[simp] theorem esel_draw (e : Encoder) (op : DrawOp) (args : List F32) : esel (e.draw op args) = esel e := by
  simp [esel]

/-- Every call either moves the Encoder's selectors as the selector machine does, or is rejected
    (leaves an error) and does not move them. -/
theorem encoder_sel_or (e : Encoder) (c : Call F32) :
    esel (e.step c) = vmSel (esel e) c ∨ (esel (e.step c) = esel e ∧ (e.step c).err.isSome = true) := by
  cases c with
  | reset vb pal => left; rfl
  | setCSel v =>
    simp only [Encoder.step, Encoder.setCSel]
    split
    · right; exact ⟨esel_cms e, ‹_›⟩
    · left; simp [esel, vmSel, and_3f]
  | setNSel v =>
    simp only [Encoder.step, Encoder.setNSel]
    split
    · right; exact ⟨esel_cms e, ‹_›⟩
    · left; simp [esel, vmSel, and_3f]
  | setCReg adj incr c =>
    simp only [Encoder.step, Encoder.setCReg]
    split
    · right; exact ⟨esel_cms e, ‹_›⟩
    · split
      · right; exact ⟨esel_cms e, rfl⟩
      · left; cases incr <;> simp [esel, vmSel, and_3f]
  | setNReg adj incr f =>
    simp only [Encoder.step, Encoder.setNReg]
    split
    · right; exact ⟨esel_cms e, ‹_›⟩
    · split
      · right; exact ⟨esel_cms e, rfl⟩
      · left; cases incr <;> simp [esel, vmSel, and_3f]
  | setLOD l0 l1 =>
    left
    simp only [Encoder.step, Encoder.setLOD, vmSel]
    split
    · exact esel_cms e
    · exact esel_cms e
  | startPath adj x y =>
    left
    simp only [Encoder.step, Encoder.startPath, vmSel]
    split
    · exact esel_cms e
    · split
      · exact esel_cms e
      · exact esel_cms e
  | closeEnd => left; exact esel_draw _ _ _
  | d1 v x => left; exact esel_draw _ _ _
  | d2 v x y => left; exact esel_draw _ _ _
  | d4 v a b x y => left; exact esel_draw _ _ _
  | d6 v a b c d x y => left; exact esel_draw _ _ _
  | arc rel rx ry rot la sw x y => left; exact esel_draw _ _ _


/-- (b) An accepted call (no error afterwards) moves the Encoder's selectors exactly as the selector
    machine prescribes. -/
theorem encoder_sel (e : Encoder) (c : Call F32) (h : (e.step c).err = none) :
    esel (e.step c) = vmSel (esel e) c := by
  rcases encoder_sel_or e c with h' | ⟨_, h'⟩
  · exact h'
  · rw [h] at h'; cases h'

/-- the bound is preserved by every call, accepted or not … -/
theorem encoder_sel_lt (e : Encoder) (c : Call F32) (h : e.cSel < 64 ∧ e.nSel < 64) :
    (e.step c).cSel < 64 ∧ (e.step c).nSel < 64 := by
  rcases encoder_sel_or e c with h' | ⟨h', _⟩
  · have := vmSel_lt (esel e) c h
    rw [← h'] at this; exact this
  · have : (esel (e.step c)).1 < 64 ∧ (esel (e.step c)).2 < 64 := by rw [h']; exact h
    exact this

/-- … and by every other use of the API, which moreover reports them unchanged. -/
theorem esel_stepOp (e : Encoder) (op : EncOp) (hop : ∀ c, op ≠ .call c) : esel (e.stepOp op).1 = esel e := by
  cases op with
  | call c => exact absurd rfl (hop c)
  | readCSel => show esel (norm e) = esel e; simp [esel]
  | readNSel => show esel (norm e) = esel e; simp [esel]
  | readLOD => show esel (norm e) = esel e; simp [esel]
  | bytes =>
    show esel e.bytes.1 = esel e
    cases h : e.err with
    | none => rw [bytes_of_ok h]; simp [esel]
    | some k => rw [bytes_of_err h]
  | setHiRes b => rfl

theorem encoder_stepOp_lt (e : Encoder) (op : EncOp) (h : e.cSel < 64 ∧ e.nSel < 64) :
    (e.stepOp op).1.cSel < 64 ∧ (e.stepOp op).1.nSel < 64 := by
  cases op with
  | call c => exact encoder_sel_lt e c h
  | readCSel => have := esel_stepOp e .readCSel (by simp); simp only [esel, Prod.mk.injEq] at this; rw [this.1, this.2]; exact h
  | readNSel => have := esel_stepOp e .readNSel (by simp); simp only [esel, Prod.mk.injEq] at this; rw [this.1, this.2]; exact h
  | readLOD => have := esel_stepOp e .readLOD (by simp); simp only [esel, Prod.mk.injEq] at this; rw [this.1, this.2]; exact h
  | bytes => have := esel_stepOp e .bytes (by simp); simp only [esel, Prod.mk.injEq] at this; rw [this.1, this.2]; exact h
  | setHiRes b => exact h

/-- the value a selector read reports is the selector held -/
theorem read_reports (e : Encoder) :
    (e.stepOp .readCSel).2 = some (.sel e.cSel) ∧ (e.stepOp .readNSel).2 = some (.sel e.nSel) := by
  constructor
  · show some (EncObs.sel (norm e).cSel) = _; simp
  · show some (EncObs.sel (norm e).nSel) = _; simp

/-- The Encoder's selectors are 6-bit values after any history over the whole API from the zero
    value (or from any state whose selectors are). -/
theorem encoder_runOps_lt (e : Encoder) (h : e.cSel < 64 ∧ e.nSel < 64) (ops : List EncOp) :
    (e.runOps ops).1.cSel < 64 ∧ (e.runOps ops).1.nSel < 64 := by
  induction ops generalizing e with
  | nil => exact h
  | cons op ops ih => rw [runOps_cons]; exact ih _ (encoder_stepOp_lt e op h)

theorem encoder_selectors_6bit (ops : List EncOp) :
    (({} : Encoder).runOps ops).1.cSel < 64 ∧ (({} : Encoder).runOps ops).1.nSel < 64 :=
  encoder_runOps_lt _ ⟨(by decide : (0 : UInt8) < 64), (by decide : (0 : UInt8) < 64)⟩ ops

/-! ## (c) agreement -/

theorem run_cons (e : Encoder) (c : Call F32) (cs : List (Call F32)) : e.run (c :: cs) = (e.step c).run cs := rfl
theorem run_append (e : Encoder) (p q : List (Call F32)) : e.run (p ++ q) = (e.run p).run q := by
  simp [Encoder.run, List.foldl_append]
theorem run_eq_runOps (e : Encoder) (cs : List (Call F32)) : e.run cs = (e.runOps (cs.map .call)).1 := by
  induction cs generalizing e with
  | nil => rfl
  | cons c cs ih => rw [run_cons, List.map_cons, runOps_cons, ih]; rfl

section agree
variable {β : Type} [Arith β] [Wide F32 β]

/-- General form: an Encoder and a Renderer holding the same selectors and fed the same calls hold
    the same selectors at every point, as long as the Encoder has accepted every call so far. -/
theorem sel_agree_gen (arc : ArcFn F32 β) (posInf : F32) (h : List (Call F32)) :
    ∀ (e : Encoder) (z : Renderer F32 β), esel e = rsel z →
      (∀ p, p <+: h → (e.run p).err = none) →
      ∀ p, p <+: h → esel (e.run p) = rsel (z.run arc posInf p).1 := by
  induction h with
  | nil =>
    intro e z hs _ p hp
    rw [List.prefix_nil] at hp; subst hp; exact hs
  | cons c h ih =>
    intro e z hs herr p hp
    cases p with
    | nil => exact hs
    | cons c' p =>
      obtain ⟨rfl, hp'⟩ := List.cons_prefix_cons.mp hp
      have h1 : (e.step c').err = none := herr [c'] ⟨h, rfl⟩
      have hs' : esel (e.step c') = rsel (z.step arc posInf c').1 := by
        rw [encoder_sel e c' h1, renderer_sel, hs]
      exact ih (e.step c') (z.step arc posInf c').1 hs'
        (fun q hq => herr (c' :: q) (List.cons_prefix_cons.mpr ⟨rfl, hq⟩)) p hp'

/-- C07, selector clause, from the zero values: at every point `p` of a call sequence `h` that the
    Encoder accepts, the CSEL and NSEL an Encoder reports equal those a Renderer fed the same calls
    reports (both are 6-bit values, see `encoder_selectors_6bit`, `renderer_selectors_6bit`). -/
theorem sel_agree (arc : ArcFn F32 β) (posInf : F32) (h : List (Call F32))
    (herr : ∀ p, p <+: h → (({} : Encoder).run p).err = none) (p : List (Call F32)) (hp : p <+: h) :
    (({} : Encoder).run p).cSel = ((Renderer.zero : Renderer F32 β).run arc posInf p).1.cSel ∧
    (({} : Encoder).run p).nSel = ((Renderer.zero : Renderer F32 β).run arc posInf p).1.nSel := by
  have := sel_agree_gen arc posInf h {} (Renderer.zero : Renderer F32 β) rfl herr p hp
  simp only [esel, rsel, Prod.mk.injEq] at this
  exact this

/-- … and after a Reset, from ANY two states (the selectors held before are forgotten). -/
theorem sel_agree_after_reset (arc : ArcFn F32 β) (posInf : F32) (e : Encoder) (z : Renderer F32 β)
    (vb : ViewBox F32) (pal : Palette) (h : List (Call F32))
    (herr : ∀ p, p <+: h → ((e.step (.reset vb pal)).run p).err = none) (p : List (Call F32)) (hp : p <+: h) :
    (e.run (.reset vb pal :: p)).cSel = (z.run arc posInf (.reset vb pal :: p)).1.cSel ∧
    (e.run (.reset vb pal :: p)).nSel = (z.run arc posInf (.reset vb pal :: p)).1.nSel := by
  have := sel_agree_gen arc posInf h (e.step (.reset vb pal)) (z.step arc posInf (.reset vb pal)).1 rfl herr p hp
  simp only [esel, rsel, Prod.mk.injEq] at this
  exact this

end agree

/-- The hypothesis of `sel_agree` in terms of the protocol: the sequence is violation free. -/
theorem err_none_of_violationFree (h : List (Call F32))
    (hv : Spec.Protocol.ViolationFree .fresh (h.map Spec.Protocol.classifyCall)) :
    ∀ p, p <+: h → (({} : Encoder).run p).err = none := by
  intro p hp
  have h1 := hv (p.map Spec.Protocol.classifyCall) (List.IsPrefix.map _ hp)
  have h2 := err_iff_violation (p.map .call)
  rw [List.map_map] at h2
  have h3 : classify ∘ EncOp.call = Spec.Protocol.classifyCall := rfl
  rw [h3, h1, ← run_eq_runOps] at h2
  cases hh : (({} : Encoder).run p).err with
  | none => rfl
  | some k => rw [hh] at h2; cases h2

/-- For a sequence without Reset the hypothesis of `sel_agree` is "no error at the end" (the first
    error is kept). -/
theorem err_none_of_final (h : List (Call F32)) (hnr : ∀ c ∈ h, Spec.Protocol.classifyCall c ≠ .reset)
    (hend : (({} : Encoder).run h).err = none) :
    ∀ p, p <+: h → (({} : Encoder).run p).err = none := by
  intro p hp
  obtain ⟨q, rfl⟩ := hp
  cases hk : (({} : Encoder).run p).err with
  | none => rfl
  | some k =>
    exfalso
    have hinv : Inv (({} : Encoder).run p) := by rw [run_eq_runOps]; exact inv_runOps _ inv_zero _
    have := (first_error_kept_run _ hinv k hk (q.map .call) (by
      intro op hop
      obtain ⟨c, hc, rfl⟩ := List.mem_map.mp hop
      exact hnr c (List.mem_append_right _ hc))).1
    rw [← run_eq_runOps, ← run_append, hend] at this
    cases this

end Ivg.Selectors
