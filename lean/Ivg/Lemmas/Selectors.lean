import Ivg.Model.Renderer
import Ivg.Lemmas.EncoderProto
/-!
# CSEL / NSEL: the Encoder and the Renderer follow the same selector machine (C07, selector clause)
-/
namespace Ivg.Selectors
set_option linter.constructorNameAsVariable false
open Ivg Ivg.Num Ivg.Enc Ivg.Ren Ivg.EncoderProto

/-! ## specification: the selector part of the decoding machine

`(CSEL, NSEL)` as the format specification defines them: both 0 after the metadata (Reset), set to the
low six bits by "Set CSEL/NSEL", incremented modulo 64 by the incrementing forms of "Set CREG/NREG",
untouched by everything else. -/

def vmSel {α : Type} (s : UInt8 × UInt8) : Call α → UInt8 × UInt8
  | .reset _ _ => (0, 0)
  | .setCSel v => (v % 64, s.2)
  | .setNSel v => (s.1, v % 64)
  | .setCReg _ incr _ => (if incr then (s.1 + 1) % 64 else s.1, s.2)
  | .setNReg _ incr _ => (s.1, if incr then (s.2 + 1) % 64 else s.2)
  | .setLOD _ _ => s
  | .startPath _ _ _ => s
  | .closeEnd => s
  | .d1 _ _ => s
  | .d2 _ _ _ => s
  | .d4 _ _ _ _ _ => s
  | .d6 _ _ _ _ _ _ _ => s
  | .arc _ _ _ _ _ _ _ _ => s

def vmSelRun {α : Type} (s : UInt8 × UInt8) (cs : List (Call α)) : UInt8 × UInt8 := cs.foldl vmSel s

theorem and_3f (v : UInt8) : v &&& 0x3f = v % 64 := by
  apply UInt8.toNat_inj.mp
  rw [UInt8.toNat_and, UInt8.toNat_mod]
  exact Nat.and_two_pow_sub_one_eq_mod v.toNat 6

/-- `% 64` on bytes is the arithmetic "modulo 64", also across the wrap-around of `+ 1` at 256. -/
theorem succ_mod64_toNat (v : UInt8) : ((v + 1) % 64).toNat = (v.toNat + 1) % 64 := by
  rw [UInt8.toNat_mod, UInt8.toNat_add]
  have := v.toNat_lt
  simp

theorem mod64_lt (v : UInt8) : v % 64 < 64 := by
  rw [UInt8.lt_iff_toNat_lt, UInt8.toNat_mod]
  exact Nat.mod_lt _ (by decide)

/-- the selector machine keeps both selectors below 64 -/
theorem vmSel_lt {α : Type} (s : UInt8 × UInt8) (c : Call α) (h : s.1 < 64 ∧ s.2 < 64) :
    (vmSel s c).1 < 64 ∧ (vmSel s c).2 < 64 := by
  cases c with
  | reset vb pal => exact ⟨(by decide : (0 : UInt8) < 64), (by decide : (0 : UInt8) < 64)⟩
  | setCSel v => exact ⟨mod64_lt _, h.2⟩
  | setNSel v => exact ⟨h.1, mod64_lt _⟩
  | setCReg adj incr c =>
    refine ⟨?_, h.2⟩; simp only [vmSel]; split
    · exact mod64_lt _
    · exact h.1
  | setNReg adj incr c =>
    refine ⟨h.1, ?_⟩; simp only [vmSel]; split
    · exact mod64_lt _
    · exact h.2
  | _ => exact h

/-! ## (a) the Renderer -/

section renderer
variable {α β : Type} [Arith α] [Arith β] [Wide α β]

def rsel (z : Renderer α β) : UInt8 × UInt8 := (z.cSel, z.nSel)

omit [Arith α] [Arith β] [Wide α β] in
theorem foldl_pen_sel (ops : List (RasterOp α β)) (z : Renderer α β) :
    rsel (ops.foldl (fun (z : Renderer α β) op => match op with
      | .lineTo x y => { z with penX := x, penY := y }
      | .cubeTo _ _ _ _ x y => { z with penX := x, penY := y }
      | _ => z) z) = rsel z := by
  induction ops generalizing z with
  | nil => rfl
  | cons op ops ih =>
    rw [List.foldl_cons, ih]
    cases op <;> rfl

theorem startPath_sel (z : Renderer α β) (adj : UInt8) (x y : α) : rsel (z.startPath adj x y).1 = rsel z := by
  unfold Renderer.startPath
  simp only []
  repeat' split
  all_goals rfl

/-- The Renderer's selectors follow the selector machine, for every call, whatever its state,
    the arc implementation and the number types. -/
theorem renderer_sel (arc : ArcFn α β) (posInf : α) (z : Renderer α β) (c : Call α) :
    rsel (z.step arc posInf c).1 = vmSel (rsel z) c := by
  cases c with
  | reset vb pal => rfl
  | setCSel v => simp [Renderer.step, rsel, vmSel, and_3f]
  | setNSel v => simp [Renderer.step, rsel, vmSel, and_3f]
  | setCReg adj incr c => cases incr <;> simp [Renderer.step, rsel, vmSel, and_3f]
  | setNReg adj incr f => cases incr <;> simp [Renderer.step, rsel, vmSel, and_3f]
  | setLOD l0 l1 => rfl
  | startPath adj x y => exact startPath_sel z adj x y
  | closeEnd => simp only [Renderer.step, vmSel]; split <;> rfl
  | d1 v x => cases v <;> (simp only [Renderer.step, vmSel]; split <;> rfl)
  | d2 v x y => cases v <;> (simp only [Renderer.step, vmSel]; split <;> rfl)
  | d4 v a b x y => cases v <;> (simp only [Renderer.step, vmSel]; split <;> rfl)
  | d6 v a b c d x y => cases v <;> (simp only [Renderer.step, vmSel]; split <;> rfl)
  | arc rel rx ry rot la sw x y =>
    simp only [Renderer.step, vmSel]
    split
    · rfl
    · exact foldl_pen_sel _ _

theorem renderer_run_cons (arc : ArcFn α β) (posInf : α) (z : Renderer α β) (c : Call α) (cs : List (Call α)) :
    (z.run arc posInf (c :: cs)).1 = ((z.step arc posInf c).1.run arc posInf cs).1 := rfl

theorem renderer_run_sel (arc : ArcFn α β) (posInf : α) (z : Renderer α β) (cs : List (Call α)) :
    rsel (z.run arc posInf cs).1 = vmSelRun (rsel z) cs := by
  induction cs generalizing z with
  | nil => rfl
  | cons c cs ih => rw [renderer_run_cons, ih, renderer_sel]; rfl

theorem vmSelRun_lt {α : Type} (s : UInt8 × UInt8) (cs : List (Call α)) (h : s.1 < 64 ∧ s.2 < 64) :
    (vmSelRun s cs).1 < 64 ∧ (vmSelRun s cs).2 < 64 := by
  induction cs generalizing s with
  | nil => exact h
  | cons c cs ih => exact ih _ (vmSel_lt s c h)

/-- the bound is preserved by every call … -/
theorem renderer_sel_lt (arc : ArcFn α β) (posInf : α) (z : Renderer α β) (c : Call α)
    (h : z.cSel < 64 ∧ z.nSel < 64) : (z.step arc posInf c).1.cSel < 64 ∧ (z.step arc posInf c).1.nSel < 64 := by
  have := vmSel_lt (rsel z) c h
  rw [← renderer_sel arc posInf] at this
  exact this

/-- … hence the Renderer's selectors are 6-bit values after any history from the zero value. -/
theorem renderer_selectors_6bit (arc : ArcFn α β) (posInf : α) (cs : List (Call α)) :
    ((Renderer.zero : Renderer α β).run arc posInf cs).1.cSel < 64 ∧
    ((Renderer.zero : Renderer α β).run arc posInf cs).1.nSel < 64 := by
  have := vmSelRun_lt (rsel (Renderer.zero : Renderer α β)) cs
    ⟨(by decide : (0 : UInt8) < 64), (by decide : (0 : UInt8) < 64)⟩
  rw [← renderer_run_sel arc posInf] at this
  exact this

end renderer

/-! ## (b) the Encoder -/

def esel (e : Encoder) : UInt8 × UInt8 := (e.cSel, e.nSel)

@[simp] theorem esel_cms (e : Encoder) : esel e.checkModeStyling = esel e := by simp [esel]
@[simp] theorem esel_draw (e : Encoder) (op : DrawOp) (args : List F32) : esel (e.draw op args) = esel e := by
  simp [esel]

/-- Every call either moves the Encoder's selectors as the selector machine does, or is rejected
    (leaves an error) and does not move them. -/
theorem encoder_sel_or (e : Encoder) (c : Call F32) :
    esel (e.step c) = vmSel (esel e) c ∨ (esel (e.step c) = esel e ∧ (e.step c).err.isSome = true) := by
  cases c with
  | reset vb pal => left; rfl
  | setCSel v =>
    simp only [Encoder.step, Encoder.setCSel]
    split
    · right; exact ⟨esel_cms e, ‹_›⟩
    · left; simp [esel, vmSel, and_3f]
  | setNSel v =>
    simp only [Encoder.step, Encoder.setNSel]
    split
    · right; exact ⟨esel_cms e, ‹_›⟩
    · left; simp [esel, vmSel, and_3f]
  | setCReg adj incr c =>
    simp only [Encoder.step, Encoder.setCReg]
    split
    · right; exact ⟨esel_cms e, ‹_›⟩
    · split
      · right; exact ⟨esel_cms e, rfl⟩
      · left; cases incr <;> simp [esel, vmSel, and_3f]
  | setNReg adj incr f =>
    simp only [Encoder.step, Encoder.setNReg]
    split
    · right; exact ⟨esel_cms e, ‹_›⟩
    · split
      · right; exact ⟨esel_cms e, rfl⟩
      · left; cases incr <;> simp [esel, vmSel, and_3f]
  | setLOD l0 l1 =>
    left
    simp only [Encoder.step, Encoder.setLOD, vmSel]
    split
    · exact esel_cms e
    · exact esel_cms e
  | startPath adj x y =>
    left
    simp only [Encoder.step, Encoder.startPath, vmSel]
    split
    · exact esel_cms e
    · split
      · exact esel_cms e
      · exact esel_cms e
  | closeEnd => left; exact esel_draw _ _ _
  | d1 v x => left; exact esel_draw _ _ _
  | d2 v x y => left; exact esel_draw _ _ _
  | d4 v a b x y => left; exact esel_draw _ _ _
  | d6 v a b c d x y => left; exact esel_draw _ _ _
  | arc rel rx ry rot la sw x y => left; exact esel_draw _ _ _


/-- (b) An accepted call (no error afterwards) moves the Encoder's selectors exactly as the selector
    machine prescribes. -/
theorem encoder_sel (e : Encoder) (c : Call F32) (h : (e.step c).err = none) :
    esel (e.step c) = vmSel (esel e) c := by
  rcases encoder_sel_or e c with h' | ⟨_, h'⟩
  · exact h'
  · rw [h] at h'; cases h'

/-- the bound is preserved by every call, accepted or not … -/
theorem encoder_sel_lt (e : Encoder) (c : Call F32) (h : e.cSel < 64 ∧ e.nSel < 64) :
    (e.step c).cSel < 64 ∧ (e.step c).nSel < 64 := by
  rcases encoder_sel_or e c with h' | ⟨h', _⟩
  · have := vmSel_lt (esel e) c h
    rw [← h'] at this; exact this
  · have : (esel (e.step c)).1 < 64 ∧ (esel (e.step c)).2 < 64 := by rw [h']; exact h
    exact this

/-- … and by every other use of the API, which moreover reports them unchanged. -/
theorem esel_stepOp (e : Encoder) (op : EncOp) (hop : ∀ c, op ≠ .call c) : esel (e.stepOp op).1 = esel e := by
  cases op with
  | call c => exact absurd rfl (hop c)
  | readCSel => show esel (norm e) = esel e; simp [esel]
  | readNSel => show esel (norm e) = esel e; simp [esel]
  | readLOD => show esel (norm e) = esel e; simp [esel]
  | bytes =>
    show esel e.bytes.1 = esel e
    cases h : e.err with
    | none => rw [bytes_of_ok h]; simp [esel]
    | some k => rw [bytes_of_err h]
  | setHiRes b => rfl

theorem encoder_stepOp_lt (e : Encoder) (op : EncOp) (h : e.cSel < 64 ∧ e.nSel < 64) :
    (e.stepOp op).1.cSel < 64 ∧ (e.stepOp op).1.nSel < 64 := by
  cases op with
  | call c => exact encoder_sel_lt e c h
  | readCSel => have := esel_stepOp e .readCSel (by simp); simp only [esel, Prod.mk.injEq] at this; rw [this.1, this.2]; exact h
  | readNSel => have := esel_stepOp e .readNSel (by simp); simp only [esel, Prod.mk.injEq] at this; rw [this.1, this.2]; exact h
  | readLOD => have := esel_stepOp e .readLOD (by simp); simp only [esel, Prod.mk.injEq] at this; rw [this.1, this.2]; exact h
  | bytes => have := esel_stepOp e .bytes (by simp); simp only [esel, Prod.mk.injEq] at this; rw [this.1, this.2]; exact h
  | setHiRes b => exact h

/-- the value a selector read reports is the selector held -/
theorem read_reports (e : Encoder) :
    (e.stepOp .readCSel).2 = some (.sel e.cSel) ∧ (e.stepOp .readNSel).2 = some (.sel e.nSel) := by
  constructor
  · show some (EncObs.sel (norm e).cSel) = _; simp
  · show some (EncObs.sel (norm e).nSel) = _; simp

/-- The Encoder's selectors are 6-bit values after any history over the whole API from the zero
    value (or from any state whose selectors are). -/
theorem encoder_runOps_lt (e : Encoder) (h : e.cSel < 64 ∧ e.nSel < 64) (ops : List EncOp) :
    (e.runOps ops).1.cSel < 64 ∧ (e.runOps ops).1.nSel < 64 := by
  induction ops generalizing e with
  | nil => exact h
  | cons op ops ih => rw [runOps_cons]; exact ih _ (encoder_stepOp_lt e op h)

theorem encoder_selectors_6bit (ops : List EncOp) :
    (({} : Encoder).runOps ops).1.cSel < 64 ∧ (({} : Encoder).runOps ops).1.nSel < 64 :=
  encoder_runOps_lt _ ⟨(by decide : (0 : UInt8) < 64), (by decide : (0 : UInt8) < 64)⟩ ops

/-! ## (c) agreement -/

theorem run_cons (e : Encoder) (c : Call F32) (cs : List (Call F32)) : e.run (c :: cs) = (e.step c).run cs := rfl
theorem run_append (e : Encoder) (p q : List (Call F32)) : e.run (p ++ q) = (e.run p).run q := by
  simp [Encoder.run, List.foldl_append]
theorem run_eq_runOps (e : Encoder) (cs : List (Call F32)) : e.run cs = (e.runOps (cs.map .call)).1 := by
  induction cs generalizing e with
  | nil => rfl
  | cons c cs ih => rw [run_cons, List.map_cons, runOps_cons, ih]; rfl

section agree
variable {β : Type} [Arith β] [Wide F32 β]

/-- General form: an Encoder and a Renderer holding the same selectors and fed the same calls hold
    the same selectors at every point, as long as the Encoder has accepted every call so far. -/
theorem sel_agree_gen (arc : ArcFn F32 β) (posInf : F32) (h : List (Call F32)) :
    ∀ (e : Encoder) (z : Renderer F32 β), esel e = rsel z →
      (∀ p, p <+: h → (e.run p).err = none) →
      ∀ p, p <+: h → esel (e.run p) = rsel (z.run arc posInf p).1 := by
  induction h with
  | nil =>
    intro e z hs _ p hp
    rw [List.prefix_nil] at hp; subst hp; exact hs
  | cons c h ih =>
    intro e z hs herr p hp
    cases p with
    | nil => exact hs
    | cons c' p =>
      obtain ⟨rfl, hp'⟩ := List.cons_prefix_cons.mp hp
      have h1 : (e.step c').err = none := herr [c'] ⟨h, rfl⟩
      have hs' : esel (e.step c') = rsel (z.step arc posInf c').1 := by
        rw [encoder_sel e c' h1, renderer_sel, hs]
      exact ih (e.step c') (z.step arc posInf c').1 hs'
        (fun q hq => herr (c' :: q) (List.cons_prefix_cons.mpr ⟨rfl, hq⟩)) p hp'

/-- C07, selector clause, from the zero values: at every point `p` of a call sequence `h` that the
    Encoder accepts, the CSEL and NSEL an Encoder reports equal those a Renderer fed the same calls
    reports (both are 6-bit values, see `encoder_selectors_6bit`, `renderer_selectors_6bit`). -/
theorem sel_agree (arc : ArcFn F32 β) (posInf : F32) (h : List (Call F32))
    (herr : ∀ p, p <+: h → (({} : Encoder).run p).err = none) (p : List (Call F32)) (hp : p <+: h) :
    (({} : Encoder).run p).cSel = ((Renderer.zero : Renderer F32 β).run arc posInf p).1.cSel ∧
    (({} : Encoder).run p).nSel = ((Renderer.zero : Renderer F32 β).run arc posInf p).1.nSel := by
  have := sel_agree_gen arc posInf h {} (Renderer.zero : Renderer F32 β) rfl herr p hp
  simp only [esel, rsel, Prod.mk.injEq] at this
  exact this

/-- … and after a Reset, from ANY two states (the selectors held before are forgotten). -/
theorem sel_agree_after_reset (arc : ArcFn F32 β) (posInf : F32) (e : Encoder) (z : Renderer F32 β)
    (vb : ViewBox F32) (pal : Palette) (h : List (Call F32))
    (herr : ∀ p, p <+: h → ((e.step (.reset vb pal)).run p).err = none) (p : List (Call F32)) (hp : p <+: h) :
    (e.run (.reset vb pal :: p)).cSel = (z.run arc posInf (.reset vb pal :: p)).1.cSel ∧
    (e.run (.reset vb pal :: p)).nSel = (z.run arc posInf (.reset vb pal :: p)).1.nSel := by
  have := sel_agree_gen arc posInf h (e.step (.reset vb pal)) (z.step arc posInf (.reset vb pal)).1 rfl herr p hp
  simp only [esel, rsel, Prod.mk.injEq] at this
  exact this

end agree

/-- The hypothesis of `sel_agree` in terms of the protocol: the sequence is violation free. -/
theorem err_none_of_violationFree (h : List (Call F32))
    (hv : Spec.Protocol.ViolationFree .fresh (h.map Spec.Protocol.classifyCall)) :
    ∀ p, p <+: h → (({} : Encoder).run p).err = none := by
  intro p hp
  have h1 := hv (p.map Spec.Protocol.classifyCall) (List.IsPrefix.map _ hp)
  have h2 := err_iff_violation (p.map .call)
  rw [List.map_map] at h2
  have h3 : classify ∘ EncOp.call = Spec.Protocol.classifyCall := rfl
  rw [h3, h1, ← run_eq_runOps] at h2
  cases hh : (({} : Encoder).run p).err with
  | none => rfl
  | some k => rw [hh] at h2; cases h2

/-- For a sequence without Reset the hypothesis of `sel_agree` is "no error at the end" (the first
    error is kept). -/
theorem err_none_of_final (h : List (Call F32)) (hnr : ∀ c ∈ h, Spec.Protocol.classifyCall c ≠ .reset)
    (hend : (({} : Encoder).run h).err = none) :
    ∀ p, p <+: h → (({} : Encoder).run p).err = none := by
  intro p hp
  obtain ⟨q, rfl⟩ := hp
  cases hk : (({} : Encoder).run p).err with
  | none => rfl
  | some k =>
    exfalso
    have hinv : Inv (({} : Encoder).run p) := by rw [run_eq_runOps]; exact inv_runOps _ inv_zero _
    have := (first_error_kept_run _ hinv k hk (q.map .call) (by
      intro op hop
      obtain ⟨c, hc, rfl⟩ := List.mem_map.mp hop
      exact hnr c (List.mem_append_right _ hc))).1
    rw [← run_eq_runOps, ← run_append, hend] at this
    cases this

end Ivg.Selectors

/-! # Renderer: Reset forgets (C17, Renderer clause)

(Kept in this file because it shares the Renderer case analyses above.)

`Renderer.reset` re-initialises every field except the target rectangle `r` (set by SetRasterizer),
`disabled`, `fill` and the rasteriser's pen (`penX/penY/firstX/firstY`).  Those four survive a Reset
but are dead: `StartPath` rewrites `disabled`; when the path is enabled it also rewrites `fill` and
(via the rasteriser's Reset/MoveTo) the pen; when it is disabled nothing is emitted until the next
`StartPath`.  Drawing calls outside a path would read them — such programs are excluded
(`WellBracketed`), as the Encoder's protocol and the decoder exclude them. -/
namespace Ivg.RendererReset
set_option linter.constructorNameAsVariable false
set_option linter.unusedSectionVars false
open Ivg Ivg.Ren

section
variable {α β : Type} [Arith α] [Arith β] [Wide α β]

/-- the state with the fields a Reset does not touch (other than the target `r`) blanked -/
def shared (z : Renderer α β) : Renderer α β :=
  { z with disabled := false, fill := .flat ⟨0, 0, 0, 0⟩, penX := zeroA, penY := zeroA,
           firstX := zeroA, firstY := zeroA }

def EqS (z₁ z₂ : Renderer α β) : Prop := shared z₁ = shared z₂
def EqD (z₁ z₂ : Renderer α β) : Prop :=
  shared z₁ = shared z₂ ∧ z₁.disabled = z₂.disabled ∧ (z₁.disabled = false → z₁ = z₂)

def upd (z : Renderer α β) (d : Bool) (f : Paint β) (a b c e : α) : Renderer α β :=
  { z with disabled := d, fill := f, penX := a, penY := b, firstX := c, firstY := e }

theorem initGradient_upd (z : Renderer α β) (d : Bool) (f : Paint β) (a b c e : α) (rgba : RGBA) :
    (upd z d f a b c e).initGradient rgba = z.initGradient rgba := rfl
omit [Arith α] [Arith β] [Wide α β] in
theorem upd_proj (z : Renderer α β) (d : Bool) (f : Paint β) (a b c e : α) :
    (upd z d f a b c e).cReg = z.cReg ∧ (upd z d f a b c e).cSel = z.cSel ∧ (upd z d f a b c e).r = z.r ∧
    (upd z d f a b c e).lod0 = z.lod0 ∧ (upd z d f a b c e).lod1 = z.lod1 ∧ (upd z d f a b c e).fill = f :=
  ⟨rfl, rfl, rfl, rfl, rfl, rfl⟩

theorem startPath_upd (z : Renderer α β) (d : Bool) (f : Paint β) (a b c e : α) (adj : UInt8) (x y : α) :
    ((upd z d f a b c e).startPath adj x y).2 = (z.startPath adj x y).2 ∧
    EqD ((upd z d f a b c e).startPath adj x y).1 (z.startPath adj x y).1 := by
  unfold Renderer.startPath
  simp only [initGradient_upd, (upd_proj z d f a b c e).1, (upd_proj z d f a b c e).2.1,
    (upd_proj z d f a b c e).2.2.1, (upd_proj z d f a b c e).2.2.2.1, (upd_proj z d f a b c e).2.2.2.2.1,
    (upd_proj z d f a b c e).2.2.2.2.2]
  generalize z.cReg.get6 (z.cSel - adj) = flat
  by_cases h1 : flat.validPremul = true
  · simp only [h1, if_true]
    split
    · exact ⟨rfl, rfl, rfl, fun h => by simp_all⟩
    · exact ⟨rfl, rfl, rfl, fun _ => rfl⟩
  · simp only [h1]
    by_cases h2 : flat.validGradient = true
    · simp only [h2, if_true]
      cases hg : z.initGradient flat with
      | none =>
        simp only [Bool.false_eq_true, if_false, Bool.true_or, if_true]
        exact ⟨trivial, rfl, rfl, fun h => by simp at h⟩
      | some g =>
        simp only [Bool.false_eq_true, if_false]
        split
        · exact ⟨rfl, rfl, rfl, fun h => by simp_all⟩
        · exact ⟨rfl, rfl, rfl, fun _ => rfl⟩
    · simp only [h2, Bool.false_eq_true, if_false, Bool.true_or, if_true]
      exact ⟨trivial, rfl, rfl, fun h => by simp at h⟩

omit [Arith β] [Wide α β] in
theorem eq_upd_of_shared (z₁ z₂ : Renderer α β) (h : shared z₁ = shared z₂) :
    z₁ = upd z₂ z₁.disabled z₁.fill z₁.penX z₁.penY z₁.firstX z₁.firstY := by
  rcases z₁ with ⟨r, sx, bx, sy, by_, vb, pal, l0, l1, cs, ns, dis, pst, psx, psy, fill, cr, nr, px, py, fx, fy⟩
  rcases z₂ with ⟨r', sx', bx', sy', by', vb', pal', l0', l1', cs', ns', dis', pst', psx', psy', fill', cr', nr', px', py', fx', fy'⟩
  simp only [shared, Renderer.mk.injEq] at h
  simp only [upd, Renderer.mk.injEq]
  simp_all

def isDraw : Call α → Bool
  | .closeEnd | .d1 _ _ | .d2 _ _ _ | .d4 _ _ _ _ _ | .d6 _ _ _ _ _ _ _ | .arc _ _ _ _ _ _ _ _ => true
  | _ => false

/-- in a path that is not being drawn nothing happens -/
theorem step_disabled (arc : ArcFn α β) (posInf : α) (z : Renderer α β) (hd : z.disabled = true) (c : Call α)
    (hc : isDraw c = true) : z.step arc posInf c = (z, []) := by
  cases c with
  | closeEnd => simp [Renderer.step, hd]
  | d1 v x => cases v <;> simp [Renderer.step, hd]
  | d2 v x y => cases v <;> simp [Renderer.step, hd]
  | d4 v a b x y => cases v <;> simp [Renderer.step, hd]
  | d6 v a b c d x y => cases v <;> simp [Renderer.step, hd]
  | arc rel rx ry rot la sw x y => cases rel <;> simp [Renderer.step, hd]
  | _ => cases hc

/-- the bracketing part of the call protocol: `some inPath'` if the call is allowed -/
def pathStep : Bool → Call α → Option Bool
  | _, .reset _ _ => some false
  | false, .setCSel _ => some false
  | false, .setNSel _ => some false
  | false, .setCReg _ _ _ => some false
  | false, .setNReg _ _ _ => some false
  | false, .setLOD _ _ => some false
  | false, .startPath _ _ _ => some true
  | true, .closeEnd => some false
  | true, .d1 _ _ => some true
  | true, .d2 _ _ _ => some true
  | true, .d4 _ _ _ _ _ => some true
  | true, .d6 _ _ _ _ _ _ _ => some true
  | true, .arc _ _ _ _ _ _ _ _ => some true
  | _, _ => none

/-- every styling call and StartPath is outside a path, every drawing call inside one -/
def WellBracketed : Bool → List (Call α) → Prop
  | _, [] => True
  | b, c :: cs => match pathStep b c with
    | some b' => WellBracketed b' cs
    | none => False

/-- the relation kept between the two Renderers -/
def Rel : Bool → Renderer α β → Renderer α β → Prop
  | false => EqS
  | true => EqD

theorem rel_shared {b : Bool} {z₁ z₂ : Renderer α β} (h : Rel b z₁ z₂) : shared z₁ = shared z₂ := by
  cases b
  · exact h
  · exact h.1

theorem rel_refl (b : Bool) (z : Renderer α β) : Rel b z z := by
  cases b
  · exact rfl
  · exact ⟨rfl, rfl, fun _ => rfl⟩

theorem step_rel (arc : ArcFn α β) (posInf : α) (b b' : Bool) (z₁ z₂ : Renderer α β) (c : Call α)
    (hr : Rel b z₁ z₂) (hc : pathStep b c = some b') :
    (z₁.step arc posInf c).2 = (z₂.step arc posInf c).2 ∧
    Rel b' (z₁.step arc posInf c).1 (z₂.step arc posInf c).1 := by
  have hs := eq_upd_of_shared z₁ z₂ (rel_shared hr)
  cases b with
  | false =>
    cases c <;> simp only [pathStep, Option.some.injEq, reduceCtorEq] at hc <;> subst hc
    case startPath adj x y => rw [hs]; exact startPath_upd z₂ _ _ _ _ _ _ adj x y
    case setCReg adj incr c => rw [hs]; cases incr <;> exact ⟨rfl, rfl⟩
    case setNReg adj incr c => rw [hs]; cases incr <;> exact ⟨rfl, rfl⟩
    all_goals (rw [hs]; exact ⟨rfl, rfl⟩)
  | true =>
    cases c <;> simp only [pathStep, Option.some.injEq, reduceCtorEq] at hc <;> subst hc
    case reset vb pal => rw [hs]; exact ⟨rfl, rfl⟩
    case closeEnd =>
      obtain ⟨h1, h2, h3⟩ := hr
      cases hd : z₁.disabled with
      | false => rw [h3 hd]; exact ⟨rfl, rel_refl _ _⟩
      | true =>
        rw [step_disabled arc posInf z₁ hd _ rfl, step_disabled arc posInf z₂ (h2 ▸ hd) _ rfl]
        exact ⟨rfl, h1⟩
    all_goals
      obtain ⟨h1, h2, h3⟩ := hr
      cases hd : z₁.disabled with
      | false => rw [h3 hd]; exact ⟨rfl, rel_refl _ _⟩
      | true =>
        rw [step_disabled arc posInf z₁ hd _ rfl, step_disabled arc posInf z₂ (h2 ▸ hd) _ rfl]
        exact ⟨rfl, h1, h2, h3⟩


theorem run_cons_snd (arc : ArcFn α β) (posInf : α) (z : Renderer α β) (c : Call α) (cs : List (Call α)) :
    (z.run arc posInf (c :: cs)).2 = (z.step arc posInf c).2 ++ ((z.step arc posInf c).1.run arc posInf cs).2 := rfl

theorem run_rel (arc : ArcFn α β) (posInf : α) (B : List (Call α)) :
    ∀ (b : Bool) (z₁ z₂ : Renderer α β), Rel b z₁ z₂ → WellBracketed b B →
      (z₁.run arc posInf B).2 = (z₂.run arc posInf B).2 ∧
      shared (z₁.run arc posInf B).1 = shared (z₂.run arc posInf B).1 := by
  induction B with
  | nil => intro b z₁ z₂ hr _; exact ⟨rfl, rel_shared hr⟩
  | cons c B ih =>
    intro b z₁ z₂ hr hw
    simp only [WellBracketed] at hw
    cases hc : pathStep b c with
    | none => rw [hc] at hw; exact hw.elim
    | some b' =>
      rw [hc] at hw
      have hs := step_rel arc posInf b b' z₁ z₂ c hr hc
      have hi := ih b' _ _ hs.2 hw
      rw [run_cons_snd, run_cons_snd, Selectors.renderer_run_cons, Selectors.renderer_run_cons, hs.1, hi.1]
      exact ⟨rfl, hi.2⟩

theorem reset_eqS (posInf : α) (z₁ z₂ : Renderer α β) (hr : z₁.r = z₂.r) (vb : ViewBox α) (pal : Palette) :
    shared (z₁.reset posInf vb pal) = shared (z₂.reset posInf vb pal) := by
  simp only [Renderer.reset, Renderer.recalcTransform, shared, hr]

theorem foldl_pen_r (ops : List (RasterOp α β)) (z : Renderer α β) :
    (ops.foldl (fun (z : Renderer α β) op => match op with
      | .lineTo x y => { z with penX := x, penY := y }
      | .cubeTo _ _ _ _ x y => { z with penX := x, penY := y }
      | _ => z) z).r = z.r := by
  induction ops generalizing z with
  | nil => rfl
  | cons op ops ih =>
    rw [List.foldl_cons, ih]
    cases op <;> rfl

/-- every call leaves the target rectangle alone -/
theorem step_r (arc : ArcFn α β) (posInf : α) (z : Renderer α β) (c : Call α) :
    (z.step arc posInf c).1.r = z.r := by
  cases c with
  | reset vb pal => rfl
  | setCSel v => rfl
  | setNSel v => rfl
  | setCReg adj incr c => cases incr <;> rfl
  | setNReg adj incr f => cases incr <;> rfl
  | setLOD l0 l1 => rfl
  | startPath adj x y =>
    unfold Renderer.step Renderer.startPath
    simp only []
    repeat' split
    all_goals rfl
  | closeEnd => simp only [Renderer.step]; split <;> rfl
  | d1 v x => cases v <;> (simp only [Renderer.step]; split <;> rfl)
  | d2 v x y => cases v <;> (simp only [Renderer.step]; split <;> rfl)
  | d4 v a b x y => cases v <;> (simp only [Renderer.step]; split <;> rfl)
  | d6 v a b c d x y => cases v <;> (simp only [Renderer.step]; split <;> rfl)
  | arc rel rx ry rot la sw x y =>
    simp only [Renderer.step]
    split
    · rfl
    · exact foldl_pen_r _ _


theorem run_r (arc : ArcFn α β) (posInf : α) (z : Renderer α β) (cs : List (Call α)) :
    (z.run arc posInf cs).1.r = z.r := by
  induction cs generalizing z with
  | nil => rfl
  | cons c cs ih => rw [Selectors.renderer_run_cons, ih, step_r]

/-- C17, Renderer clause.  Two Renderers drawing into the same target (`r`, set by SetRasterizer), in
    ANY two states, make the same rasteriser calls from a Reset on, for every well-bracketed
    program `B`; and their states agree afterwards on every field that Reset initialises. -/
theorem renderer_reset_forgets (arc : ArcFn α β) (posInf : α) (z₁ z₂ : Renderer α β) (hr : z₁.r = z₂.r)
    (vb : ViewBox α) (pal : Palette) (B : List (Call α)) (hB : WellBracketed false B) :
    (z₁.run arc posInf (.reset vb pal :: B)).2 = (z₂.run arc posInf (.reset vb pal :: B)).2 ∧
    shared (z₁.run arc posInf (.reset vb pal :: B)).1 = shared (z₂.run arc posInf (.reset vb pal :: B)).1 := by
  have h := run_rel arc posInf B false (z₁.reset posInf vb pal) (z₂.reset posInf vb pal)
    (reset_eqS posInf z₁ z₂ hr vb pal) hB
  rw [run_cons_snd, run_cons_snd, Selectors.renderer_run_cons, Selectors.renderer_run_cons]
  exact ⟨congrArg _ h.1, h.2⟩

/-- … in particular whatever was decoded before (`A`, any call sequence, well-bracketed or not, ending
    mid-path, with registers, selectors, LOD and smooth-curve state dirtied): reusing the Renderer
    gives the rasteriser calls of a Renderer `z` that has not seen `A`. -/
theorem renderer_reuse (arc : ArcFn α β) (posInf : α) (z : Renderer α β) (A : List (Call α))
    (vb : ViewBox α) (pal : Palette) (B : List (Call α)) (hB : WellBracketed false B) :
    ((z.run arc posInf A).1.run arc posInf (.reset vb pal :: B)).2 = (z.run arc posInf (.reset vb pal :: B)).2 :=
  (renderer_reset_forgets arc posInf _ z (run_r arc posInf z A) vb pal B hB).1

open Spec.Protocol in
theorem checkAdj_ok (adj : UInt8) (incr : Bool) (ok : PState) (h : (checkAdj adj incr ok).isFailed = false) :
    checkAdj adj incr ok = ok := by
  unfold checkAdj at h ⊢
  split
  · simp_all [PState.isFailed]
  · split
    · simp_all [PState.isFailed]
    · rfl

open Spec.Protocol in
/-- a sequence that respects the Encoder's call protocol is well bracketed -/
theorem wellBracketed_of_violationFree (B : List (Call α)) :
    ∀ b : Bool, ViolationFree (if b then .drawing else .styling) (B.map classifyCall) → WellBracketed b B := by
  induction B with
  | nil => intro _ _; trivial
  | cons c B ih =>
    intro b hv
    have h1 : (pstep (if b then .drawing else .styling) (classifyCall c)).isFailed = false :=
      hv [classifyCall c] ⟨B.map classifyCall, rfl⟩
    have h2 : ViolationFree (pstep (if b then .drawing else .styling) (classifyCall c)) (B.map classifyCall) :=
      fun p hp => hv (classifyCall c :: p) (List.cons_prefix_cons.mpr ⟨rfl, hp⟩)
    simp only [WellBracketed]
    cases b <;> cases c <;>
      simp only [classifyCall, pstep, PState.isFailed, pathStep, Bool.false_eq_true, if_false, if_true,
        reduceCtorEq] at h1 h2 ⊢
    all_goals first
      | exact ih false h2
      | exact ih true h2
      | (rw [checkAdj_ok _ _ _ h1] at h2; first | exact ih false h2 | exact ih true h2)

end
end Ivg.RendererReset
