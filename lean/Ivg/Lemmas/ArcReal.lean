import Ivg.Lemmas.ArcGeneric
import Mathlib.Analysis.SpecialFunctions.Trigonometric.Inverse
import Mathlib.Tactic.Ring
import Mathlib.Tactic.FieldSimp
import Mathlib.Tactic.Linarith
import Mathlib.Tactic.NormNum
import Mathlib.Tactic.Positivity
import Mathlib.Tactic.LinearCombination
/-!
# The arc algorithm of `Renderer.AbsArcTo` over the real numbers, part 1: the ellipse

`Ivg/Lemmas/ArcGeneric.lean` transcribes the float64 part of `AbsArcTo` against the class `ArcNum` and proves
that the bit-exact model `arcF32` IS that transcription at `F64`.  Here THE SAME generic definitions
(`arcCentreG`, `arcAngleG`, `arcEndG`, `arcSegAngleG`) are instantiated at `ℝ` (`Real.sqrt`, `Real.sin`,
`Real.cos`, `Real.arccos`, `Real.pi`) and the geometric clauses of C06 are proved for them:

* this file: the centre `(cx, cy)` and the (possibly scaled-up) radii returned by `arcCentreG` describe an
  ellipse through BOTH end points (`centre_on_ellipse`); the radii are scaled up uniformly and only when needed
  (`radii_scaled`); every point `arcEndG c θ` lies on that ellipse (`arcEnd_on_ellipse`);
* `ArcReal2.lean`: the arc starts at the pen and ends at the end point;
* `ArcReal3.lean`: direction and extent of the sweep.

To keep the algebra readable the algorithm is restated in ordinary Mathlib notation in stages
(`x1P`, `y1P`, `radiiR`, `step2R`, `angleR`, `adjustR`, `arcCentreR`); `arcCentreG_real` proves BY `rfl` that
the staged restatement is the generic definition at the instance `ArcNum ℝ`, so nothing is assumed about it.
-/
namespace Ivg.ArcReal
open Ivg Ren Real

/-- the real numbers as an `ArcNum`: the exact operations the float64 code approximates -/
noncomputable instance instArcNumReal : ArcNum ℝ where
  ofInt i := (i : ℝ)
  decLt := Real.decidableLT
  decLe := Real.decidableLE
  abs x := |x|
  sqrt := Real.sqrt
  sin := Real.sin
  cos := Real.cos
  acos := Real.arccos
  pi := Real.pi
  half := 1 / 2

/-! ## The algorithm in Mathlib notation, in stages -/

/-- step 1: `x1′` -/
noncomputable def x1P (x1 y1 x2 y2 phi : ℝ) : ℝ :=
  cos phi * ((x1 - x2) / ((2 : ℤ) : ℝ)) + sin phi * ((y1 - y2) / ((2 : ℤ) : ℝ))

/-- step 1: `y1′` -/
noncomputable def y1P (x1 y1 x2 y2 phi : ℝ) : ℝ :=
  -sin phi * ((x1 - x2) / ((2 : ℤ) : ℝ)) + cos phi * ((y1 - y2) / ((2 : ℤ) : ℝ))

/-- `radiiCheck` -/
noncomputable def radiiCheckR (Rx Ry xp yp : ℝ) : ℝ := xp * xp / (Rx * Rx) + yp * yp / (Ry * Ry)

/-- the radii correction: `(Rx, Ry, rxSq, rySq)` after `if radiiCheck > 1 { … }` -/
noncomputable def radiiR (Rx0 Ry0 xp yp : ℝ) : ℝ × ℝ × ℝ × ℝ :=
  if ((1 : ℤ) : ℝ) < radiiCheckR Rx0 Ry0 xp yp then
    (Rx0 * √(radiiCheckR Rx0 Ry0 xp yp), Ry0 * √(radiiCheckR Rx0 Ry0 xp yp),
      Rx0 * √(radiiCheckR Rx0 Ry0 xp yp) * (Rx0 * √(radiiCheckR Rx0 Ry0 xp yp)),
      Ry0 * √(radiiCheckR Rx0 Ry0 xp yp) * (Ry0 * √(radiiCheckR Rx0 Ry0 xp yp)))
  else (Rx0, Ry0, Rx0 * Rx0, Ry0 * Ry0)

/-- the signed `step2` -/
noncomputable def step2R (rxSq rySq xp yp : ℝ) (la sw : Bool) : ℝ :=
  if la == sw then
    -(if ((0 : ℤ) : ℝ) < rxSq * rySq / (rxSq * (yp * yp) + rySq * (xp * xp)) - ((1 : ℤ) : ℝ)
      then √(rxSq * rySq / (rxSq * (yp * yp) + rySq * (xp * xp)) - ((1 : ℤ) : ℝ)) else ((0 : ℤ) : ℝ))
  else
    (if ((0 : ℤ) : ℝ) < rxSq * rySq / (rxSq * (yp * yp) + rySq * (xp * xp)) - ((1 : ℤ) : ℝ)
      then √(rxSq * rySq / (rxSq * (yp * yp) + rySq * (xp * xp)) - ((1 : ℤ) : ℝ)) else ((0 : ℤ) : ℝ))

/-- the `angle` closure -/
noncomputable def angleR (ux uy vx vy : ℝ) : ℝ :=
  if ux * vy < uy * vx then
    -(if (ux * vx + uy * vy) / (√(ux * ux + uy * uy) * √(vx * vx + vy * vy)) ≤ ((-1 : ℤ) : ℝ) then π
      else if ((1 : ℤ) : ℝ) ≤ (ux * vx + uy * vy) / (√(ux * ux + uy * uy) * √(vx * vx + vy * vy))
        then ((0 : ℤ) : ℝ)
      else arccos ((ux * vx + uy * vy) / (√(ux * ux + uy * uy) * √(vx * vx + vy * vy))))
  else
    (if (ux * vx + uy * vy) / (√(ux * ux + uy * uy) * √(vx * vx + vy * vy)) ≤ ((-1 : ℤ) : ℝ) then π
      else if ((1 : ℤ) : ℝ) ≤ (ux * vx + uy * vy) / (√(ux * ux + uy * uy) * √(vx * vx + vy * vy))
        then ((0 : ℤ) : ℝ)
      else arccos ((ux * vx + uy * vy) / (√(ux * ux + uy * uy) * √(vx * vx + vy * vy))))

/-- the sweep adjustment of `Δθ` -/
noncomputable def adjustR (sw : Bool) (d : ℝ) : ℝ :=
  if sw then (if d < ((0 : ℤ) : ℝ) then d + ((2 : ℤ) : ℝ) * π else d)
  else (if ((0 : ℤ) : ℝ) < d then d - ((2 : ℤ) : ℝ) * π else d)

/-- `cx′` and `cy′` -/
noncomputable def cxP (σ Rx Ry yp : ℝ) : ℝ := σ * Rx * yp / Ry
noncomputable def cyP (σ Rx Ry xp : ℝ) : ℝ := -σ * Ry * xp / Rx

/-- the whole centre parameterisation, from the stages -/
noncomputable def arcCentreR (x1 y1 x2 y2 Rx0 Ry0 phi : ℝ) (la sw : Bool) : ArcCentre ℝ :=
  let xp := x1P x1 y1 x2 y2 phi
  let yp := y1P x1 y1 x2 y2 phi
  let r := radiiR Rx0 Ry0 xp yp
  let Rx := r.1
  let Ry := r.2.1
  let σ := step2R r.2.2.1 r.2.2.2 xp yp la sw
  let cx' := cxP σ Rx Ry yp
  let cy' := cyP σ Rx Ry xp
  { cx := cos phi * cx' - sin phi * cy' + (x1 + x2) / ((2 : ℤ) : ℝ)
    cy := sin phi * cx' + cos phi * cy' + (y1 + y2) / ((2 : ℤ) : ℝ)
    Rx := Rx
    Ry := Ry
    cosPhi := cos phi
    sinPhi := sin phi
    theta1 := angleR ((1 : ℤ) : ℝ) ((0 : ℤ) : ℝ) ((xp - cx') / Rx) ((yp - cy') / Ry)
    deltaTheta := adjustR sw (angleR ((xp - cx') / Rx) ((yp - cy') / Ry) ((-xp - cx') / Rx) ((-yp - cy') / Ry)) }

/-- the `angle` closure: staged restatement = generic definition at `ℝ` -/
theorem arcAngleG_real (ux uy vx vy : ℝ) : arcAngleG ux uy vx vy = angleR ux uy vx vy := by
  rfl

/-- **the staged restatement IS the generic algorithm at `ℝ`** -/
theorem arcCentreG_real (x1 y1 x2 y2 Rx0 Ry0 phi : ℝ) (la sw : Bool) :
    arcCentreG x1 y1 x2 y2 Rx0 Ry0 phi la sw = arcCentreR x1 y1 x2 y2 Rx0 Ry0 phi la sw := by
  rfl


/-! ## Algebra of the stages -/

theorem cast2 : ((2 : ℤ) : ℝ) = 2 := by norm_num
theorem cast1 : ((1 : ℤ) : ℝ) = 1 := by norm_num
theorem cast0 : ((0 : ℤ) : ℝ) = 0 := by norm_num
theorem castm1 : ((-1 : ℤ) : ℝ) = -1 := by norm_num

/-- `(x1′, y1′)` is the half-difference rotated by `-φ`: same length -/
theorem xyP_sq (x1 y1 x2 y2 phi : ℝ) :
    x1P x1 y1 x2 y2 phi ^ 2 + y1P x1 y1 x2 y2 phi ^ 2 = ((x1 - x2) / 2) ^ 2 + ((y1 - y2) / 2) ^ 2 := by
  unfold x1P y1P
  rw [cast2]
  have h := Real.cos_sq_add_sin_sq phi
  nlinarith [h]

theorem xyP_ne {x1 y1 x2 y2 : ℝ} (phi : ℝ) (h : (x1, y1) ≠ (x2, y2)) :
    x1P x1 y1 x2 y2 phi ≠ 0 ∨ y1P x1 y1 x2 y2 phi ≠ 0 := by
  by_contra hc
  push Not at hc
  have e := xyP_sq x1 y1 x2 y2 phi
  rw [hc.1, hc.2] at e
  have h1 : (x1 - x2) / 2 = 0 := by nlinarith [sq_nonneg ((x1 - x2) / 2), sq_nonneg ((y1 - y2) / 2)]
  have h2 : (y1 - y2) / 2 = 0 := by nlinarith [sq_nonneg ((x1 - x2) / 2), sq_nonneg ((y1 - y2) / 2)]
  apply h
  have : x1 = x2 := by linarith
  have : y1 = y2 := by linarith
  simp [*]

theorem radiiCheckR_pos {Rx Ry xp yp : ℝ} (hx : 0 < Rx) (hy : 0 < Ry) (hp : xp ≠ 0 ∨ yp ≠ 0) :
    0 < radiiCheckR Rx Ry xp yp := by
  unfold radiiCheckR
  rcases hp with hp | hp
  · have : 0 < xp * xp / (Rx * Rx) := div_pos (mul_self_pos.2 hp) (mul_pos hx hx)
    have : 0 ≤ yp * yp / (Ry * Ry) := div_nonneg (mul_self_nonneg _) (le_of_lt (mul_pos hy hy))
    linarith
  · have : 0 ≤ xp * xp / (Rx * Rx) := div_nonneg (mul_self_nonneg _) (le_of_lt (mul_pos hx hx))
    have : 0 < yp * yp / (Ry * Ry) := div_pos (mul_self_pos.2 hp) (mul_pos hy hy)
    linarith

/-- the uniform scale factor applied to both radii -/
noncomputable def scaleR (Rx0 Ry0 xp yp : ℝ) : ℝ :=
  if 1 < radiiCheckR Rx0 Ry0 xp yp then √(radiiCheckR Rx0 Ry0 xp yp) else 1

theorem one_le_scaleR (Rx0 Ry0 xp yp : ℝ) : 1 ≤ scaleR Rx0 Ry0 xp yp := by
  unfold scaleR
  split
  · rename_i h
    rw [show (1:ℝ) = √1 by simp]
    exact Real.sqrt_le_sqrt (le_of_lt h)
  · exact le_refl _

theorem radiiR_eq (Rx0 Ry0 xp yp : ℝ) :
    radiiR Rx0 Ry0 xp yp =
      (Rx0 * scaleR Rx0 Ry0 xp yp, Ry0 * scaleR Rx0 Ry0 xp yp,
       (Rx0 * scaleR Rx0 Ry0 xp yp) * (Rx0 * scaleR Rx0 Ry0 xp yp),
       (Ry0 * scaleR Rx0 Ry0 xp yp) * (Ry0 * scaleR Rx0 Ry0 xp yp)) := by
  unfold radiiR scaleR
  rw [cast1]
  split <;> simp

theorem radiiCheckR_scale {Rx0 Ry0 : ℝ} (xp yp : ℝ) {k : ℝ} (hx : 0 < Rx0) (hy : 0 < Ry0) (hk : 0 < k) :
    radiiCheckR (Rx0 * k) (Ry0 * k) xp yp = radiiCheckR Rx0 Ry0 xp yp / (k * k) := by
  unfold radiiCheckR
  field_simp

/-- after the correction the radii are large enough: `radiiCheck ≤ 1`, with equality when they were scaled -/
theorem radiiCheckR_final {Rx0 Ry0 xp yp : ℝ} (hx : 0 < Rx0) (hy : 0 < Ry0) (hp : xp ≠ 0 ∨ yp ≠ 0) :
    radiiCheckR (Rx0 * scaleR Rx0 Ry0 xp yp) (Ry0 * scaleR Rx0 Ry0 xp yp) xp yp =
      if 1 < radiiCheckR Rx0 Ry0 xp yp then 1 else radiiCheckR Rx0 Ry0 xp yp := by
  have hk : 0 < scaleR Rx0 Ry0 xp yp := lt_of_lt_of_le one_pos (one_le_scaleR _ _ _ _)
  rw [radiiCheckR_scale xp yp hx hy hk]
  have hrc := radiiCheckR_pos hx hy hp
  unfold scaleR
  split
  · rw [Real.mul_self_sqrt (le_of_lt hrc)]
    exact div_self (ne_of_gt hrc)
  · simp

/-- the signed `step2`: `(1 + σ²)·radiiCheck = 1`, sign chosen by `largeArc == sweep` -/
theorem step2R_spec {Rx Ry xp yp : ℝ} (hx : 0 < Rx) (hy : 0 < Ry) (hp : xp ≠ 0 ∨ yp ≠ 0)
    (hle : radiiCheckR Rx Ry xp yp ≤ 1) (la sw : Bool) :
    (1 + step2R (Rx * Rx) (Ry * Ry) xp yp la sw ^ 2) * radiiCheckR Rx Ry xp yp = 1 ∧
    ((la == sw) = true → step2R (Rx * Rx) (Ry * Ry) xp yp la sw ≤ 0) ∧
    ((la == sw) = false → 0 ≤ step2R (Rx * Rx) (Ry * Ry) xp yp la sw) := by
  have hpos := radiiCheckR_pos hx hy hp
  have hden : Rx * Rx * (yp * yp) + Ry * Ry * (xp * xp) = Rx * Rx * (Ry * Ry) * radiiCheckR Rx Ry xp yp := by
    unfold radiiCheckR; field_simp; ring
  have hA : Rx * Rx * (Ry * Ry) / (Rx * Rx * (yp * yp) + Ry * Ry * (xp * xp)) - 1
      = 1 / radiiCheckR Rx Ry xp yp - 1 := by
    rw [hden]; field_simp
  have hA0 : 0 ≤ 1 / radiiCheckR Rx Ry xp yp - 1 := by
    have := one_le_one_div hpos hle
    linarith
  have hs : ∀ A : ℝ, (if 0 < A then √A else 0) = √A := by
    intro A
    split
    · rfl
    · rename_i h; rw [Real.sqrt_eq_zero_of_nonpos (not_lt.1 h)]
  unfold step2R
  rw [cast0, cast1, hA, hs]
  have hsq : √(1 / radiiCheckR Rx Ry xp yp - 1) ^ 2 = 1 / radiiCheckR Rx Ry xp yp - 1 := Real.sq_sqrt hA0
  have hnn := Real.sqrt_nonneg (1 / radiiCheckR Rx Ry xp yp - 1)
  refine ⟨?_, ?_, ?_⟩
  · split
    · rw [neg_sq, hsq]; field_simp; ring
    · rw [hsq]; field_simp; ring
  · intro h; rw [if_pos h]; linarith
  · intro h; rw [if_neg (by simp [h])]; exact hnn


/-! ## The inputs bundled, and the named intermediate quantities -/

/-- the real inputs of the centre parameterisation -/
structure In where
  x1 : ℝ
  y1 : ℝ
  x2 : ℝ
  y2 : ℝ
  Rx0 : ℝ
  Ry0 : ℝ
  phi : ℝ
  la : Bool
  sw : Bool

/-- the hypotheses of all theorems: both radii positive (else `AbsArcTo` draws a line), distinct end points -/
structure In.Valid (I : In) : Prop where
  hRx : 0 < I.Rx0
  hRy : 0 < I.Ry0
  hne : (I.x1, I.y1) ≠ (I.x2, I.y2)

namespace In
noncomputable def xp (I : In) : ℝ := x1P I.x1 I.y1 I.x2 I.y2 I.phi
noncomputable def yp (I : In) : ℝ := y1P I.x1 I.y1 I.x2 I.y2 I.phi
/-- the original `radiiCheck` -/
noncomputable def rc0 (I : In) : ℝ := radiiCheckR I.Rx0 I.Ry0 I.xp I.yp
/-- the uniform scale factor of the radii -/
noncomputable def k (I : In) : ℝ := scaleR I.Rx0 I.Ry0 I.xp I.yp
/-- the final radii -/
noncomputable def Rx (I : In) : ℝ := I.Rx0 * I.k
noncomputable def Ry (I : In) : ℝ := I.Ry0 * I.k
/-- `radiiCheck` recomputed with the final radii -/
noncomputable def rc (I : In) : ℝ := radiiCheckR I.Rx I.Ry I.xp I.yp
/-- the signed `step2` -/
noncomputable def σ (I : In) : ℝ := step2R (I.Rx * I.Rx) (I.Ry * I.Ry) I.xp I.yp I.la I.sw
noncomputable def cx' (I : In) : ℝ := cxP I.σ I.Rx I.Ry I.yp
noncomputable def cy' (I : In) : ℝ := cyP I.σ I.Rx I.Ry I.xp
noncomputable def ax (I : In) : ℝ := (I.xp - I.cx') / I.Rx
noncomputable def ay (I : In) : ℝ := (I.yp - I.cy') / I.Ry
noncomputable def bx (I : In) : ℝ := (-I.xp - I.cx') / I.Rx
noncomputable def by' (I : In) : ℝ := (-I.yp - I.cy') / I.Ry
/-- the unadjusted `Δθ` -/
noncomputable def rawDelta (I : In) : ℝ := angleR I.ax I.ay I.bx I.by'
/-- the result of the GENERIC algorithm at `ℝ` -/
noncomputable def centre (I : In) : ArcCentre ℝ :=
  arcCentreG I.x1 I.y1 I.x2 I.y2 I.Rx0 I.Ry0 I.phi I.la I.sw

/-- the record returned by the generic algorithm, in terms of the named quantities -/
theorem centre_eq (I : In) : I.centre =
    { cx := cos I.phi * I.cx' - sin I.phi * I.cy' + (I.x1 + I.x2) / 2
      cy := sin I.phi * I.cx' + cos I.phi * I.cy' + (I.y1 + I.y2) / 2
      Rx := I.Rx
      Ry := I.Ry
      cosPhi := cos I.phi
      sinPhi := sin I.phi
      theta1 := angleR 1 0 I.ax I.ay
      deltaTheta := adjustR I.sw I.rawDelta } := by
  unfold centre
  rw [arcCentreG_real]
  unfold arcCentreR
  simp only [radiiR_eq, cast2, cast1, cast0]
  rfl

variable {I : In}

theorem p_ne (h : I.Valid) : I.xp ≠ 0 ∨ I.yp ≠ 0 := xyP_ne I.phi h.hne
theorem k_ge_one (I : In) : 1 ≤ I.k := one_le_scaleR _ _ _ _
theorem k_pos (I : In) : 0 < I.k := lt_of_lt_of_le one_pos I.k_ge_one
theorem Rx_pos (h : I.Valid) : 0 < I.Rx := mul_pos h.hRx I.k_pos
theorem Ry_pos (h : I.Valid) : 0 < I.Ry := mul_pos h.hRy I.k_pos
theorem rc_eq (h : I.Valid) : I.rc = if 1 < I.rc0 then 1 else I.rc0 := radiiCheckR_final h.hRx h.hRy (p_ne h)
theorem rc_pos (h : I.Valid) : 0 < I.rc := radiiCheckR_pos (Rx_pos h) (Ry_pos h) (p_ne h)
theorem rc_le_one (h : I.Valid) : I.rc ≤ 1 := by
  rw [rc_eq h]; split
  · exact le_refl _
  · rename_i h'; exact not_lt.1 h'
theorem sigma_rc (h : I.Valid) : (1 + I.σ ^ 2) * I.rc = 1 :=
  (step2R_spec (Rx_pos h) (Ry_pos h) (p_ne h) (rc_le_one h) I.la I.sw).1
theorem sigma_nonpos (h : I.Valid) (e : I.la = I.sw) : I.σ ≤ 0 :=
  (step2R_spec (Rx_pos h) (Ry_pos h) (p_ne h) (rc_le_one h) I.la I.sw).2.1 (by simp [e])
theorem sigma_nonneg (h : I.Valid) (e : I.la ≠ I.sw) : 0 ≤ I.σ :=
  (step2R_spec (Rx_pos h) (Ry_pos h) (p_ne h) (rc_le_one h) I.la I.sw).2.2 (by simp [e])

/-- `a = ((x1′ - cx′)/Rx, (y1′ - cy′)/Ry)` in terms of `p = x1′/Rx`, `q = y1′/Ry` -/
theorem ax_eq (h : I.Valid) : I.ax = I.xp / I.Rx - I.σ * (I.yp / I.Ry) := by
  have := Rx_pos h; have := Ry_pos h
  unfold ax cx' cxP; field_simp
theorem ay_eq (h : I.Valid) : I.ay = I.yp / I.Ry + I.σ * (I.xp / I.Rx) := by
  have := Rx_pos h; have := Ry_pos h
  unfold ay cy' cyP; field_simp; ring
theorem bx_eq (h : I.Valid) : I.bx = -(I.xp / I.Rx) - I.σ * (I.yp / I.Ry) := by
  have := Rx_pos h; have := Ry_pos h
  unfold bx cx' cxP; field_simp
theorem by_eq (h : I.Valid) : I.by' = -(I.yp / I.Ry) + I.σ * (I.xp / I.Rx) := by
  have := Rx_pos h; have := Ry_pos h
  unfold by' cy' cyP; field_simp; ring
theorem rc_pq (h : I.Valid) : I.rc = (I.xp / I.Rx) ^ 2 + (I.yp / I.Ry) ^ 2 := by
  have := Rx_pos h; have := Ry_pos h
  unfold rc radiiCheckR; field_simp

/-- the start vector is a unit vector -/
theorem a_unit (h : I.Valid) : I.ax ^ 2 + I.ay ^ 2 = 1 := by
  have e := sigma_rc h
  rw [rc_pq h] at e
  rw [ax_eq h, ay_eq h]
  linear_combination e
/-- the end vector is a unit vector -/
theorem b_unit (h : I.Valid) : I.bx ^ 2 + I.by' ^ 2 = 1 := by
  have e := sigma_rc h
  rw [rc_pq h] at e
  rw [bx_eq h, by_eq h]
  linear_combination e
theorem dot_ab (h : I.Valid) : I.ax * I.bx + I.ay * I.by' = 1 - 2 * I.rc := by
  have e := sigma_rc h
  rw [rc_pq h] at e ⊢
  rw [ax_eq h, ay_eq h, bx_eq h, by_eq h]
  linear_combination e
theorem cross_ab (h : I.Valid) : I.ax * I.by' - I.ay * I.bx = 2 * I.σ * I.rc := by
  rw [rc_pq h, ax_eq h, ay_eq h, bx_eq h, by_eq h]
  ring

end In

/-! ## (a) The ellipse -/

/-- `P` satisfies the equation of the ellipse with centre `(c.cx, c.cy)`, radii `c.Rx`, `c.Ry` and x-axis
    rotation `(c.cosPhi, c.sinPhi)`: in the frame of the ellipse axes `P - centre` is `(u, v)` with
    `(u/Rx)² + (v/Ry)² = 1` -/
def OnEllipse (c : ArcCentre ℝ) (P : ℝ × ℝ) : Prop :=
  ((c.cosPhi * (P.1 - c.cx) + c.sinPhi * (P.2 - c.cy)) / c.Rx) ^ 2 +
  ((-c.sinPhi * (P.1 - c.cx) + c.cosPhi * (P.2 - c.cy)) / c.Ry) ^ 2 = 1

theorem arcEndG_real (c : ArcCentre ℝ) (θ : ℝ) :
    arcEndG c θ = (c.cx + c.cosPhi * (c.Rx * cos θ) - c.sinPhi * (c.Ry * sin θ),
                   c.cy + c.sinPhi * (c.Rx * cos θ) + c.cosPhi * (c.Ry * sin θ)) := rfl

theorem arcSegAngleG_real (c : ArcCentre ℝ) (n i : ℤ) :
    arcSegAngleG c n i = c.theta1 + c.deltaTheta * (i : ℝ) / (n : ℝ) := rfl

/-- **Every point the segments end at lies on the ellipse.**  For any ellipse record with non-zero radii and a
    genuine rotation, the point `arcEndG c θ` satisfies the ellipse equation, for every angle `θ`. -/
theorem arcEnd_on_ellipse (c : ArcCentre ℝ) (hx : c.Rx ≠ 0) (hy : c.Ry ≠ 0)
    (hcs : c.cosPhi ^ 2 + c.sinPhi ^ 2 = 1) (θ : ℝ) : OnEllipse c (arcEndG c θ) := by
  rw [arcEndG_real]
  unfold OnEllipse
  simp only []
  have hu : c.cosPhi * (c.cx + c.cosPhi * (c.Rx * cos θ) - c.sinPhi * (c.Ry * sin θ) - c.cx) +
      c.sinPhi * (c.cy + c.sinPhi * (c.Rx * cos θ) + c.cosPhi * (c.Ry * sin θ) - c.cy) = c.Rx * cos θ := by
    linear_combination (c.Rx * cos θ) * hcs
  have hv : -c.sinPhi * (c.cx + c.cosPhi * (c.Rx * cos θ) - c.sinPhi * (c.Ry * sin θ) - c.cx) +
      c.cosPhi * (c.cy + c.sinPhi * (c.Rx * cos θ) + c.cosPhi * (c.Ry * sin θ) - c.cy) = c.Ry * sin θ := by
    linear_combination (c.Ry * sin θ) * hcs
  rw [hu, hv, mul_div_cancel_left₀ _ hx, mul_div_cancel_left₀ _ hy]
  exact cos_sq_add_sin_sq θ

namespace In
variable {I : In}

theorem sigma_eq_zero_iff (h : I.Valid) : I.σ = 0 ↔ I.rc = 1 := by
  have e := sigma_rc h
  constructor
  · intro hs; rw [hs] at e; linarith
  · intro hr; rw [hr] at e
    have : I.σ ^ 2 = 0 := by linarith
    exact pow_eq_zero_iff (two_ne_zero) |>.1 this

theorem centre_cosPhi (I : In) : I.centre.cosPhi = cos I.phi := by rw [centre_eq]
theorem centre_sinPhi (I : In) : I.centre.sinPhi = sin I.phi := by rw [centre_eq]
theorem centre_Rx (I : In) : I.centre.Rx = I.Rx := by rw [centre_eq]
theorem centre_Ry (I : In) : I.centre.Ry = I.Ry := by rw [centre_eq]
theorem centre_cx (I : In) : I.centre.cx = cos I.phi * I.cx' - sin I.phi * I.cy' + (I.x1 + I.x2) / 2 := by
  rw [centre_eq]
theorem centre_cy (I : In) : I.centre.cy = sin I.phi * I.cx' + cos I.phi * I.cy' + (I.y1 + I.y2) / 2 := by
  rw [centre_eq]
theorem centre_theta1 (I : In) : I.centre.theta1 = angleR 1 0 I.ax I.ay := by rw [centre_eq]
theorem centre_deltaTheta (I : In) : I.centre.deltaTheta = adjustR I.sw I.rawDelta := by rw [centre_eq]

theorem xp_def (I : In) : I.xp = cos I.phi * ((I.x1 - I.x2) / 2) + sin I.phi * ((I.y1 - I.y2) / 2) := by
  unfold xp x1P; rw [cast2]
theorem yp_def (I : In) : I.yp = -sin I.phi * ((I.x1 - I.x2) / 2) + cos I.phi * ((I.y1 - I.y2) / 2) := by
  unfold yp y1P; rw [cast2]

theorem Rx_ax (h : I.Valid) : I.Rx * I.ax = I.xp - I.cx' := by
  unfold ax; rw [mul_comm]; exact div_mul_cancel₀ _ (ne_of_gt (Rx_pos h))
theorem Ry_ay (h : I.Valid) : I.Ry * I.ay = I.yp - I.cy' := by
  unfold ay; rw [mul_comm]; exact div_mul_cancel₀ _ (ne_of_gt (Ry_pos h))
theorem Rx_bx (h : I.Valid) : I.Rx * I.bx = -I.xp - I.cx' := by
  unfold bx; rw [mul_comm]; exact div_mul_cancel₀ _ (ne_of_gt (Rx_pos h))
theorem Ry_by (h : I.Valid) : I.Ry * I.by' = -I.yp - I.cy' := by
  unfold by'; rw [mul_comm]; exact div_mul_cancel₀ _ (ne_of_gt (Ry_pos h))

/-- in the frame of the ellipse axes, start point − centre is `(Rx·ax, Ry·ay)` -/
theorem start_u (h : I.Valid) :
    I.centre.cosPhi * (I.x1 - I.centre.cx) + I.centre.sinPhi * (I.y1 - I.centre.cy) = I.Rx * I.ax := by
  rw [Rx_ax h, centre_cosPhi, centre_sinPhi, centre_cx, centre_cy, xp_def]
  linear_combination (-I.cx') * (cos_sq_add_sin_sq I.phi)
theorem start_v (h : I.Valid) :
    -I.centre.sinPhi * (I.x1 - I.centre.cx) + I.centre.cosPhi * (I.y1 - I.centre.cy) = I.Ry * I.ay := by
  rw [Ry_ay h, centre_cosPhi, centre_sinPhi, centre_cx, centre_cy, yp_def]
  linear_combination (-I.cy') * (cos_sq_add_sin_sq I.phi)
theorem end_u (h : I.Valid) :
    I.centre.cosPhi * (I.x2 - I.centre.cx) + I.centre.sinPhi * (I.y2 - I.centre.cy) = I.Rx * I.bx := by
  rw [Rx_bx h, centre_cosPhi, centre_sinPhi, centre_cx, centre_cy, xp_def]
  linear_combination (-I.cx') * (cos_sq_add_sin_sq I.phi)
theorem end_v (h : I.Valid) :
    -I.centre.sinPhi * (I.x2 - I.centre.cx) + I.centre.cosPhi * (I.y2 - I.centre.cy) = I.Ry * I.by' := by
  rw [Ry_by h, centre_cosPhi, centre_sinPhi, centre_cx, centre_cy, yp_def]
  linear_combination (-I.cy') * (cos_sq_add_sin_sq I.phi)

theorem start_on_ellipse (h : I.Valid) : OnEllipse I.centre (I.x1, I.y1) := by
  unfold OnEllipse
  simp only []
  rw [start_u h, start_v h, centre_Rx, centre_Ry, mul_div_cancel_left₀ _ (ne_of_gt (Rx_pos h)),
    mul_div_cancel_left₀ _ (ne_of_gt (Ry_pos h))]
  exact a_unit h

theorem end_on_ellipse (h : I.Valid) : OnEllipse I.centre (I.x2, I.y2) := by
  unfold OnEllipse
  simp only []
  rw [end_u h, end_v h, centre_Rx, centre_Ry, mul_div_cancel_left₀ _ (ne_of_gt (Rx_pos h)),
    mul_div_cancel_left₀ _ (ne_of_gt (Ry_pos h))]
  exact b_unit h

end In

/-! ## Headline statements with explicit arguments -/

/-- the SVG radii check value `Λ = x1′²/rx² + y1′²/ry²` of the ORIGINAL radii (F.6.6.2): the radii are too
    small to span the end points iff `Λ > 1` -/
noncomputable def radiiLambda (x1 y1 x2 y2 Rx0 Ry0 phi : ℝ) : ℝ :=
  (cos phi * ((x1 - x2) / 2) + sin phi * ((y1 - y2) / 2)) ^ 2 / Rx0 ^ 2 +
  (-sin phi * ((x1 - x2) / 2) + cos phi * ((y1 - y2) / 2)) ^ 2 / Ry0 ^ 2

theorem In.rc0_eq (I : In) : I.rc0 = radiiLambda I.x1 I.y1 I.x2 I.y2 I.Rx0 I.Ry0 I.phi := by
  unfold In.rc0 radiiCheckR radiiLambda
  rw [In.xp_def, In.yp_def]
  ring

/-- **(a) The centre parameterisation describes an ellipse through both end points.**  For positive radii and
    distinct end points the record `c` returned by the generic algorithm at `ℝ` carries the rotation
    `(cos φ, sin φ)`, positive radii, and a centre such that BOTH the start point (the pen) and the end point
    satisfy the ellipse equation — in both branches (radii large enough / radii scaled up). -/
theorem centre_on_ellipse {x1 y1 x2 y2 Rx0 Ry0 : ℝ} (phi : ℝ) (la sw : Bool)
    (hRx : 0 < Rx0) (hRy : 0 < Ry0) (hne : (x1, y1) ≠ (x2, y2)) :
    let c := arcCentreG x1 y1 x2 y2 Rx0 Ry0 phi la sw
    c.cosPhi = cos phi ∧ c.sinPhi = sin phi ∧ 0 < c.Rx ∧ 0 < c.Ry ∧
    OnEllipse c (x1, y1) ∧ OnEllipse c (x2, y2) := by
  intro c
  let I : In := In.mk x1 y1 x2 y2 Rx0 Ry0 phi la sw
  have h : I.Valid := ⟨hRx, hRy, hne⟩
  have hc : c = I.centre := rfl
  rw [hc]
  refine ⟨In.centre_cosPhi I, In.centre_sinPhi I, ?_, ?_, In.start_on_ellipse h, In.end_on_ellipse h⟩
  · rw [In.centre_Rx]; exact In.Rx_pos h
  · rw [In.centre_Ry]; exact In.Ry_pos h

/-- non-vacuity: the half circle from (0,0) to (2,0) with radii 1 -/
example := centre_on_ellipse (x1 := 0) (y1 := 0) (x2 := 2) (y2 := 0) (Rx0 := 1) (Ry0 := 1) 0 true true
  one_pos one_pos (by simp)

/-- **(a) The radii are scaled up uniformly, and only when needed.**  Both radii are multiplied by the same
    factor, which is `√Λ` when `Λ > 1` (radii too small) and `1` otherwise; so the ratio is kept, the radii
    never shrink, and they are untouched when `Λ ≤ 1`. -/
theorem radii_scaled {x1 y1 x2 y2 Rx0 Ry0 : ℝ} (phi : ℝ) (la sw : Bool)
    (hRx : 0 < Rx0) (hRy : 0 < Ry0) :
    let c := arcCentreG x1 y1 x2 y2 Rx0 Ry0 phi la sw
    let Λ := radiiLambda x1 y1 x2 y2 Rx0 Ry0 phi
    c.Rx = Rx0 * (if 1 < Λ then √Λ else 1) ∧ c.Ry = Ry0 * (if 1 < Λ then √Λ else 1) ∧
    c.Rx / c.Ry = Rx0 / Ry0 ∧ Rx0 ≤ c.Rx ∧ Ry0 ≤ c.Ry ∧ (Λ ≤ 1 → c.Rx = Rx0 ∧ c.Ry = Ry0) := by
  intro c Λ
  let I : In := In.mk x1 y1 x2 y2 Rx0 Ry0 phi la sw
  have hk : I.k = if 1 < Λ then √Λ else 1 := by
    show scaleR I.Rx0 I.Ry0 I.xp I.yp = _
    unfold scaleR
    rw [show radiiCheckR I.Rx0 I.Ry0 I.xp I.yp = Λ from I.rc0_eq]
  have e1 : c.Rx = Rx0 * I.k := In.centre_Rx I
  have e2 : c.Ry = Ry0 * I.k := In.centre_Ry I
  have hk1 := I.k_ge_one
  have hk0 := I.k_pos
  refine ⟨by rw [e1, hk], by rw [e2, hk], ?_, ?_, ?_, ?_⟩
  · rw [e1, e2]; field_simp
  · rw [e1]; nlinarith
  · rw [e2]; nlinarith
  · intro hΛ
    rw [e1, e2, hk, if_neg (not_lt.2 hΛ)]
    simp

/-- non-vacuity, both branches: radii 1 span (0,0)–(2,0) exactly (`Λ = 1`); radii 1/2 do not (`Λ = 4`) -/
example : radiiLambda 0 0 2 0 1 1 0 = 1 := by unfold radiiLambda; norm_num
example : radiiLambda 0 0 2 0 (1/2) (1/2) 0 = 4 := by unfold radiiLambda; norm_num

/-- **(a) scaled-up branch.**  When the radii were too small (`Λ > 1`) the quantity under the root of step 2 is
    exactly zero: the centre is the midpoint of the end points (the smallest ellipse of the given shape through
    both points). -/
theorem scaled_centre_midpoint {x1 y1 x2 y2 Rx0 Ry0 : ℝ} (phi : ℝ) (la sw : Bool)
    (hRx : 0 < Rx0) (hRy : 0 < Ry0) (hne : (x1, y1) ≠ (x2, y2))
    (hΛ : 1 < radiiLambda x1 y1 x2 y2 Rx0 Ry0 phi) :
    let c := arcCentreG x1 y1 x2 y2 Rx0 Ry0 phi la sw
    c.cx = (x1 + x2) / 2 ∧ c.cy = (y1 + y2) / 2 := by
  intro c
  let I : In := In.mk x1 y1 x2 y2 Rx0 Ry0 phi la sw
  have h : I.Valid := ⟨hRx, hRy, hne⟩
  have hrc : I.rc = 1 := by
    rw [In.rc_eq h, In.rc0_eq, if_pos hΛ]
  have hσ : I.σ = 0 := (In.sigma_eq_zero_iff h).2 hrc
  have h1 : I.cx' = 0 := by unfold In.cx' cxP; rw [hσ]; simp
  have h2 : I.cy' = 0 := by unfold In.cy' cyP; rw [hσ]; simp
  have e1 : c.cx = _ := In.centre_cx I
  have e2 : c.cy = _ := In.centre_cy I
  rw [e1, e2, h1, h2]
  simp [I]

example : (1 : ℝ) < radiiLambda 0 0 2 0 (1/2) (1/2) 0 := by unfold radiiLambda; norm_num

end Ivg.ArcReal
