import Ivg.Lemmas.SpecInstr
import Ivg.Lemmas.Metadata
import Ivg.Lemmas.Decoder2
/-!
# C03, layer 3: metadata chunks and the whole graphic

`FFV0.chunks` / `FFV0.parse` against `Dec.decodeChunks` / `Dec.decode`: same framing (magic, chunk count,
per-chunk length consistency, increasing MIDs, only MIDs 0 and 1), same viewBox validity, same palette
entries, same defaults, and finally the same delivered operation sequence.
-/
namespace Ivg.SpecL
open Ivg Num Codec Dec DecL
open Ivg.Spec

/-- the metadata record of the model as the spec's -/
def toMeta (m : Metadata) : FFV0.Meta := ⟨m.viewBox, m.palette⟩

set_option maxRecDepth 100000 in
theorem nearest_m32 : FFV0.nearest true 32 1 = ⟨0xc2000000⟩ := by decide +kernel
set_option maxRecDepth 100000 in
theorem nearest_p32 : FFV0.nearest false 32 1 = ⟨0x42000000⟩ := by decide +kernel

/-- "the default ViewBox is (-32, -32, +32, +32)", "the default palette is 64 opaque black" -/
theorem toMeta_default : toMeta {} = FFV0.defaultMeta := by
  unfold toMeta FFV0.defaultMeta
  rw [nearest_m32, nearest_p32]
  rfl

/-! ## palette colours -/

theorem paletteColor_eq (c : Color) : FFV0.paletteColor c = c.toRGBA.1 := by
  unfold FFV0.paletteColor Color.toRGBA RGBA.validPremul
  by_cases ht : c.typ = .rgba
  · by_cases h1 : c.data.r ≤ c.data.a <;> by_cases h2 : c.data.g ≤ c.data.a <;>
      by_cases h3 : c.data.b ≤ c.data.a <;> simp [ht, h1, h2, h3] <;> rfl
  · simp [ht]; rfl

theorem set6_ofNat (pal : Palette) (i : Nat) (x : RGBA) :
    pal.set6 (UInt8.ofNat i) x = pal.set (i % 64) x (Nat.mod_lt _ (by decide)) := by
  have h : (UInt8.ofNat i).toNat % 64 = i % 64 := by
    simp only [UInt8.toNat_ofNat']; omega
  simp only [Regs.set6, h]

/-- the palette loop: same palette and rest, or both fail (for each of the colour forms) -/
theorem paletteColors_eq (form : FFV0.ColorForm) : ∀ (n i : Nat) (pal : Palette) (b : Bytes),
    (decodePaletteColors (colorDec form) n i pal b).map (fun r => (r.2.1, r.2.2)) =
      FFV0.paletteColors form n i pal b
  | 0, i, pal, b => rfl
  | n + 1, i, pal, b => by
    simp only [decodePaletteColors, FFV0.paletteColors, color_eq]
    rcases colorDec form b with _ | ⟨c, rest⟩
    · rfl
    · simp only [set6_ofNat, paletteColor_eq]
      rw [← paletteColors_eq form n (i + 1) _ rest]
      rcases decodePaletteColors (colorDec form) n (i + 1) _ rest with _ | ⟨its, pal', rest'⟩ <;> rfl

def palFormOf (format : Nat) : FFV0.ColorForm :=
  match format with
  | 0 => .one | 1 => .two | 2 => .threeDirect | _ => .four

theorem palDec_eq (format : Nat) : palDec format = colorDec (palFormOf format) := by
  match format with
  | 0 => rfl | 1 => rfl | 2 => rfl | _ + 3 => rfl

set_option maxRecDepth 100000 in
theorem palHeader_eq : ∀ h : UInt8,
    (h >>> 6).toNat = h.toNat / 64 ∧ 1 + (h &&& 0x3f).toNat = h.toNat % 64 + 1 := by decide +kernel

/-! ## viewBox validity -/

theorem not_isFinite (f : F32) : (!FFV0.isFinite f) = isNaNOrInfinity f := by
  unfold FFV0.isFinite isNaNOrInfinity
  have c : (2:Nat)^23 = 0x800000 := by decide
  rw [c]
  by_cases h : f.bits.toNat / 0x800000 % 256 = 255 <;> simp [h]

/-! ## one chunk -/

/-- one chunk according to the specification: the body of `FFV0.chunks` (`chunks_succ`) -/
def chunkSem (m : FFV0.Meta) (minMID : Nat) (b : Bytes) : Option (FFV0.Meta × Nat × Bytes) :=
  match FFV0.natural b with
  | none => none
  | some (length, _, b) =>
    match FFV0.natural b with
    | none => none
    | some (mid, _, b') =>
      if mid < minMID then none else
      match FFV0.chunkData m mid b' with
      | none => none
      | some (m, rest) =>
        if b.length ≠ length + rest.length then none else some (m, mid + 1, rest)

theorem chunks_succ (fuel count : Nat) (m : FFV0.Meta) (minMID : Nat) (b : Bytes) :
    FFV0.chunks (fuel + 1) (count + 1) m minMID b =
      match chunkSem m minMID b with
      | none => none
      | some (m, mm, rest) => FFV0.chunks fuel count m mm rest := by
  simp only [FFV0.chunks, chunkSem]
  rcases FFV0.natural b with _ | ⟨length, w, b1⟩
  · rfl
  simp only
  rcases FFV0.natural b1 with _ | ⟨mid, w2, b2⟩
  · rfl
  simp only
  split
  · rfl
  rcases FFV0.chunkData m mid b2 with _ | ⟨m', rest⟩
  · rfl
  simp only
  split <;> rfl

def okChunk : Except DecErr (Metadata × Nat × Bytes) → Option (FFV0.Meta × Nat × Bytes)
  | .ok (md, mm, rest) => some (toMeta md, mm, rest)
  | .error _ => none

/-- `chunk_eq`: one metadata chunk is accepted by the model iff by the specification, with the same
    resulting metadata, next admissible MID and rest -/
theorem chunk_eq (m : Metadata) (minMID : Nat) (b : Bytes) :
    okChunk (decodeMetadataChunk m minMID b).2 = chunkSem (toMeta m) minMID b := by
  unfold decodeMetadataChunk chunkSem
  rw [natural_eq]
  rcases decodeNatural b with _ | ⟨length, w, src1⟩
  · rfl
  simp only
  rw [natural_eq]
  rcases decodeNatural src1 with _ | ⟨mid, w2, src2⟩
  · rfl
  simp only
  by_cases hge : mid ≥ 2
  · have hcd : FFV0.chunkData (toMeta m) mid src2 = none := by
      simp [FFV0.chunkData, show mid ≠ 0 by omega, show mid ≠ 1 by omega]
    simp only [hge, if_true, hcd]
    split <;> rfl
  simp only [hge, if_false]
  by_cases hlt : mid < minMID
  · simp only [hlt, if_true]; rfl
  simp only [hlt, if_false]
  by_cases h0 : mid = 0
  · subst h0
    simp only [FFV0.chunkData, ↓reduceIte]
    rw [← coords_eq]
    generalize decodeCoordinates 4 src2 = r
    rcases r with ⟨its, _ | ⟨xs, src3⟩⟩
    · rfl
    rcases xs with _ | ⟨a, _ | ⟨b', _ | ⟨c, _ | ⟨d, _ | ⟨z, t⟩⟩⟩⟩⟩
    · rfl
    · rfl
    · rfl
    · rfl
    · simp only [not_isFinite]
      by_cases hinv : (c < a ∨ d < b' ∨ isNaNOrInfinity a = true ∨ isNaNOrInfinity b' = true ∨
          isNaNOrInfinity c = true ∨ isNaNOrInfinity d = true)
      · simp only [hinv, if_true]; rfl
      · simp only [hinv, if_false]
        by_cases hlen : src1.length = length + src3.length
        · have e : ¬ ((src3.length : Int) ≠ (src1.length : Int) - (length : Int)) := by omega
          have e' : ¬ (src1.length ≠ length + src3.length) := by omega
          rw [if_neg e, if_neg e']
          rfl
        · have e : ((src3.length : Int) ≠ (src1.length : Int) - (length : Int)) := by omega
          have e' : src1.length ≠ length + src3.length := by omega
          rw [if_pos e, if_pos e']
          rfl
    · rfl
  · have h1 : mid = 1 := by omega
    subst h1
    simp only [FFV0.chunkData, show ¬ (1 = 0) by omega, ↓reduceIte]
    rcases src2 with _ | ⟨h, src3⟩
    · rfl
    simp only
    obtain ⟨hf, hcnt⟩ := palHeader_eq h
    rw [hcnt, hf]
    generalize h.toNat / 64 = f
    rw [← paletteColors_eq]
    simp only [toMeta]
    have tail : ∀ (X : Option (List Item × Palette × Bytes)) (l0 : List Item) (l1 : List Item → List Item),
        okChunk (match X with
          | none => (l0, Except.error DecErr.invalidSuggestedPalette)
          | some (its, pal, src4) =>
            if (src4.length : Int) ≠ (src1.length : Int) - (length : Int) then
              (l1 its, Except.error DecErr.inconsistentMetadataChunkLength)
            else (l1 its, Except.ok (({ viewBox := m.viewBox, palette := pal } : Metadata), 1 + 1, src4))).2 =
        (match (match X.map (fun r => (r.2.1, r.2.2)) with
            | none => none
            | some (pal, b) => some (({ viewBox := m.viewBox, palette := pal } : FFV0.Meta), b)) with
          | none => none
          | some (m, rest) => if src1.length ≠ length + rest.length then none else some (m, 1 + 1, rest)) := by
      intro X l0 l1
      rcases X with _ | ⟨its, pal, src4⟩
      · rfl
      · simp only [Option.map_some]
        by_cases hlen : src1.length = length + src4.length
        · have e : ¬ ((src4.length : Int) ≠ (src1.length : Int) - (length : Int)) := by omega
          have e' : ¬ (src1.length ≠ length + src4.length) := by omega
          rw [if_neg e, if_neg e']
          rfl
        · have e : ((src4.length : Int) ≠ (src1.length : Int) - (length : Int)) := by omega
          have e' : src1.length ≠ length + src4.length := by omega
          rw [if_pos e, if_pos e']
          rfl
    rcases f with _ | _ | _ | f <;> exact tail _ _ _

/-! ## the chunk loop -/

def okChunks : Except DecErr (Metadata × Bytes) → Option (FFV0.Meta × Bytes)
  | .ok (md, rest) => some (toMeta md, rest)
  | .error _ => none

/-- `chunks_eq`: `n` metadata chunks (same fuel on both sides) are accepted by the model iff by the
    specification, and then yield the same metadata and leave the same bytes -/
theorem chunks_eq : ∀ (fuel n : Nat) (m : Metadata) (mm : Nat) (b : Bytes),
    okChunks (decodeChunks fuel n m mm b).2 = FFV0.chunks fuel n (toMeta m) mm b
  | fuel, 0, m, mm, b => by simp [decodeChunks, FFV0.chunks, okChunks]
  | 0, n + 1, m, mm, b => rfl
  | fuel + 1, n + 1, m, mm, b => by
    rw [chunks_succ, ← chunk_eq]
    conv => lhs; unfold decodeChunks
    generalize decodeMetadataChunk m mm b = r
    rcases r with ⟨its, (e | ⟨m', mm', rest⟩)⟩
    · rfl
    · simp only [okChunk]
      rw [← chunks_eq fuel n m' mm' rest]

/-! ## the whole graphic -/

/-- `decode_eq_spec`: for every byte string, if the specification parser accepts it with operation
    sequence `cs` then `Decode` delivers exactly `cs` and reports no error; if the specification
    rejects it then `Decode` reports an error. -/
theorem decode_eq_spec (bs : Bytes) :
    match FFV0.parse bs with
    | some cs => Dec.decode [] bs = (cs, none)
    | none => (Dec.decode [] bs).2 ≠ none := by
  by_cases hm : bs.take 4 = Enc.magic
  · obtain ⟨b, rfl⟩ : ∃ b, bs = 0x89 :: 0x49 :: 0x56 :: 0x47 :: b := ⟨bs.drop 4, take4_magic hm⟩
    simp only [FFV0.parse]
    rw [natural_eq]
    rcases hn : decodeNatural b with _ | ⟨n, w, src2⟩
    · simp only
      have hno : ¬ ∃ hdr m src3, MetaOk {} (0x89 :: 0x49 :: 0x56 :: 0x47 :: b) hdr m src3 := by
        rintro ⟨hdr, m, src3, n, w, src2, its, _, h2, _⟩
        simp [hn] at h2
      obtain ⟨e, he⟩ := decode_of_not_metaOk hno []
      rw [he]; simp
    · simp only
      have hch := chunks_eq (src2.length + 1) n {} 0 src2
      rw [toMeta_default] at hch
      rw [← hch]
      rcases hd : decodeChunks (src2.length + 1) n {} 0 src2 with ⟨its, (e | ⟨m, src3⟩)⟩
      · simp only [okChunks]
        have hno : ¬ ∃ hdr m src3, MetaOk {} (0x89 :: 0x49 :: 0x56 :: 0x47 :: b) hdr m src3 := by
          rintro ⟨hdr, m, src3, n', w', src2', its', _, h2, h3, _⟩
          simp [hn] at h2
          obtain ⟨rfl, rfl, rfl⟩ := h2
          rw [hd] at h3
          simp at h3
        obtain ⟨e, he⟩ := decode_of_not_metaOk hno []
        rw [he]; simp
      · simp only [okChunks]
        have hM : MetaOk {} (0x89 :: 0x49 :: 0x56 :: 0x47 :: b) _ m src3 := ⟨n, w, src2, its, rfl, hn, hd, rfl⟩
        rw [decode_of_metaOk hM []]
        have hi := instructions_eq (src3.length + 1) .styling src3 (Nat.lt_succ_self _)
        generalize FFV0.instructions (src3.length + 1) .styling src3 = s at hi ⊢
        rcases s with _ | cs
        · simp only at hi ⊢
          exact hi
        · simp only at hi ⊢
          obtain ⟨h1, h2⟩ := hi
          rw [← h2]
          exact Prod.ext rfl h1
  · have hp : FFV0.parse bs = none := by
      unfold FFV0.parse
      split
      · exact absurd rfl hm
      · rfl
    rw [hp]
    have hno : ¬ ∃ hdr m src3, MetaOk {} bs hdr m src3 := by
      rintro ⟨hdr, m, src3, n, w, src2, its, h1, _⟩
      exact hm h1
    obtain ⟨e, he⟩ := decode_of_not_metaOk hno []
    rw [he]; simp

/-- `accepts_iff`: `Decode` reports no error exactly for the byte strings the specification parser
    accepts -/
theorem accepts_iff (bs : Bytes) : (Dec.decode [] bs).2 = none ↔ (FFV0.parse bs).isSome := by
  have h := decode_eq_spec bs
  rcases hp : FFV0.parse bs with _ | cs <;> rw [hp] at h <;> simp only at h
  · simp [h]
  · simp [h]

/-- `calls_eq`: for an accepted string, `Decode` delivers exactly the specification's sequence -/
theorem calls_eq (bs : Bytes) (cs : List (Call F32)) (hp : FFV0.parse bs = some cs) :
    (Dec.decode [] bs).1 = cs := by
  have h := decode_eq_spec bs
  rw [hp] at h
  simp only at h
  rw [h]

end Ivg.SpecL
