import Ivg.Lemmas.SpecZ2Oa
/-! # C03, zero-to-one forms, 2-byte form: values 12288 … 16383 (see `SpecZ2Oa.lean`) -/
namespace Ivg.SpecL
open Ivg Num

set_option maxRecDepth 100000 in
theorem z2o15120_12 : z2oChk 15120 15120 12288 1024 = true := by decide +kernel
set_option maxRecDepth 100000 in
theorem z2o15120_13 : z2oChk 15120 15120 13312 1024 = true := by decide +kernel
set_option maxRecDepth 100000 in
theorem z2o15120_14 : z2oChk 15120 15120 14336 1024 = true := by decide +kernel
set_option maxRecDepth 100000 in
theorem z2o15120_15 : z2oChk 15120 15120 15360 1024 = true := by decide +kernel

end Ivg.SpecL
