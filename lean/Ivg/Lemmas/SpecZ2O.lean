import Ivg.Lemmas.SpecDiv
/-!
# C03, zero-to-one forms: `float32(u)/120` and `float32(u)/15120` are correctly rounded quotients

Instances of `ofInt_div_eq_ofRatio` (`SpecDiv.lean`): the model divides two float32 values, the
specification takes the float32 nearest to the rational `u/120` resp. `u/15120`.
-/
namespace Ivg.SpecL
open Ivg Num

/-- 1-byte zero-to-one: `float32(u)/120` is the float32 nearest to `u/120` -/
theorem z2o_one (u : Nat) (h : u < 128) : F32.ofInt u / F32.ofInt 120 = F32.ofRatio false u 120 := by
  by_cases h0 : u = 0
  · subst h0; decide +kernel
  · exact ofInt_div_eq_ofRatio u 120 (by omega) (by omega) (by omega) (by omega)

/-- 2-byte zero-to-one: `float32(u)/15120` is the float32 nearest to `u/15120` -/
theorem z2o_two (u : Nat) (h : u < 16384) : F32.ofInt u / F32.ofInt 15120 = F32.ofRatio false u 15120 := by
  by_cases h0 : u = 0
  · subst h0; decide +kernel
  · exact ofInt_div_eq_ofRatio u 15120 (by omega) (by omega) (by omega) (by omega)

end Ivg.SpecL
