import Ivg.Lemmas.SpecZ2Oa
import Ivg.Lemmas.SpecZ2Ob
import Ivg.Lemmas.SpecZ2Oc
import Ivg.Lemmas.SpecZ2Od
/-! # C03, zero-to-one forms: the two division facts for the whole domain -/
namespace Ivg.SpecL
open Ivg Num

/-- 1-byte zero-to-one: `float32(u)/120` is the float32 nearest to `u/120` -/
theorem z2o_one (u : Nat) (h : u < 128) : F32.ofInt u / F32.ofInt 120 = F32.ofRatio false u 120 :=
  z2oChk_spec z2o120_all u (by omega) (by omega)

/-- 2-byte zero-to-one: `float32(u)/15120` is the float32 nearest to `u/15120` -/
theorem z2o_two (u : Nat) (h : u < 16384) : F32.ofInt u / F32.ofInt 15120 = F32.ofRatio false u 15120 := by
  by_cases h0 : u < 1024
  · exact z2oChk_spec z2o15120_0 u (by omega) (by omega)
  by_cases h1 : u < 2048
  · exact z2oChk_spec z2o15120_1 u (by omega) (by omega)
  by_cases h2 : u < 3072
  · exact z2oChk_spec z2o15120_2 u (by omega) (by omega)
  by_cases h3 : u < 4096
  · exact z2oChk_spec z2o15120_3 u (by omega) (by omega)
  by_cases h4 : u < 5120
  · exact z2oChk_spec z2o15120_4 u (by omega) (by omega)
  by_cases h5 : u < 6144
  · exact z2oChk_spec z2o15120_5 u (by omega) (by omega)
  by_cases h6 : u < 7168
  · exact z2oChk_spec z2o15120_6 u (by omega) (by omega)
  by_cases h7 : u < 8192
  · exact z2oChk_spec z2o15120_7 u (by omega) (by omega)
  by_cases h8 : u < 9216
  · exact z2oChk_spec z2o15120_8 u (by omega) (by omega)
  by_cases h9 : u < 10240
  · exact z2oChk_spec z2o15120_9 u (by omega) (by omega)
  by_cases h10 : u < 11264
  · exact z2oChk_spec z2o15120_10 u (by omega) (by omega)
  by_cases h11 : u < 12288
  · exact z2oChk_spec z2o15120_11 u (by omega) (by omega)
  by_cases h12 : u < 13312
  · exact z2oChk_spec z2o15120_12 u (by omega) (by omega)
  by_cases h13 : u < 14336
  · exact z2oChk_spec z2o15120_13 u (by omega) (by omega)
  by_cases h14 : u < 15360
  · exact z2oChk_spec z2o15120_14 u (by omega) (by omega)
  by_cases h15 : u < 16384
  · exact z2oChk_spec z2o15120_15 u (by omega) (by omega)
  omega

end Ivg.SpecL
