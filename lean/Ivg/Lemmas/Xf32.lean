import Ivg.Lemmas.Mix32
import Ivg.Lemmas.GenQ
import Ivg.Lemmas.FloatCmp
import Ivg.Model.MdIcons
import Batteries.Tactic.OpenPrivate
/-!
# C20 at `F32`: rounding-error analysis of the generator's transforms and the converter's coordinate map

`MulAff3(x, y, T) = (fl(fl(fl(x·a0) + fl(y·a1)) + a2), fl(fl(fl(x·a3) + fl(y·a4)) + a5))`.  For a
scale-and-translate transform (`a1`, `a3` of value zero) the cross products are exact zeros, and adding an
exact zero is exact, so an absolute operand costs two roundings (`fl(fl(x·sx) + tx)`), a relative one a single
rounding (`fl(x·sx)`).

* `normalize_struct`  (every number type): which `MulAff3` each operand of each verb goes through;
* `mulAff3_abs`, `mulAff3_rel` : the two error bounds (`AbsNear`, `RelNear`);
* `normalize_f32`, `normalize_hv_f32`, `emit_arc_f32` : the generator's `normalize` and the arc call;
* `concat_pair_f32` : `Concat(a, b)` against the exact matrix product `GenQ.comp`;
* `md_normalize_struct`, `md_abs_f32`, `md_rel_f32` : the converter's map.
-/
namespace Ivg.Xf32
open Ivg Num Gen FloatOrder32 FloatMono32 FloatErr Geom32 Mix32

/-! ## one coordinate -/

theorem cap_le_big : cap ≤ 1329227995784915872903807060280344576 := by unfold cap; norm_num

/-- first row of `MulAff3` when the cross product `y·z` is an exact zero -/
theorem axis_abs {x s y z t : F32} (fx : Fn x) (fs : Fn s) (fy : Fn y) (fz : Fn z) (ft : Fn t)
    (hz : val y * val z = 0) (h1 : |val x * val s| ≤ cap) (h2 : |val t| ≤ cap) :
    Fn (x * s + y * z + t) ∧
    |val (x * s + y * z + t) - (val x * val s + val t)| ≤
      (2 * u + u * u) * |val x * val s| + u * |val t| + (1 + u) * tiny := by
  obtain ⟨fp, hp⟩ := mul_mix fx fs (le_maxv (le_trans h1 cap_le_big))
  obtain ⟨fq, vq⟩ := mul_zero_exact fy fz hz
  obtain ⟨fpq, vpq⟩ := add_zero_exact fp fq vq
  have sz := mix_size hp h1
  have hsum : |val (x * s + y * z) + val t| ≤ maxv := by
    rw [vpq]
    have := abs_add_le (val (x * s)) (val t)
    apply le_maxv
    unfold cap at sz h2; linarith
  obtain ⟨fr, hr⟩ := add_err fpq ft hsum
  refine ⟨fr, ?_⟩
  rw [vpq] at hr
  have h := sum3 hp hr
  have e : (1 + u) * (u * |val x * val s| + tiny) + u * (|val x * val s| + |val t|) =
      (2 * u + u * u) * |val x * val s| + u * |val t| + (1 + u) * tiny := by ring
  rw [e] at h
  exact h

/-- second row of `MulAff3` when the cross product `x·z` is an exact zero -/
theorem axis_abs' {x z y s t : F32} (fx : Fn x) (fz : Fn z) (fy : Fn y) (fs : Fn s) (ft : Fn t)
    (hz : val x * val z = 0) (h1 : |val y * val s| ≤ cap) (h2 : |val t| ≤ cap) :
    Fn (x * z + y * s + t) ∧
    |val (x * z + y * s + t) - (val y * val s + val t)| ≤
      (2 * u + u * u) * |val y * val s| + u * |val t| + (1 + u) * tiny := by
  obtain ⟨fp, hp⟩ := mul_mix fy fs (le_maxv (le_trans h1 cap_le_big))
  obtain ⟨fq, vq⟩ := mul_zero_exact fx fz hz
  obtain ⟨fpq, vpq⟩ := zero_add_exact fq fp vq
  have sz := mix_size hp h1
  have hsum : |val (x * z + y * s) + val t| ≤ maxv := by
    rw [vpq]
    have := abs_add_le (val (y * s)) (val t)
    apply le_maxv
    unfold cap at sz h2; linarith
  obtain ⟨fr, hr⟩ := add_err fpq ft hsum
  refine ⟨fr, ?_⟩
  rw [vpq] at hr
  have h := sum3 hp hr
  have e : (1 + u) * (u * |val y * val s| + tiny) + u * (|val y * val s| + |val t|) =
      (2 * u + u * u) * |val y * val s| + u * |val t| + (1 + u) * tiny := by ring
  rw [e] at h
  exact h

/-- first row with a zero translation: a single rounding -/
theorem axis_rel {x s y z w : F32} (fx : Fn x) (fs : Fn s) (fy : Fn y) (fz : Fn z) (fw : Fn w)
    (hz : val y * val z = 0) (hw : val w = 0) (h1 : |val x * val s| ≤ cap) :
    Fn (x * s + y * z + w) ∧
    |val (x * s + y * z + w) - val x * val s| ≤ u * |val x * val s| + tiny := by
  obtain ⟨fp, hp⟩ := mul_mix fx fs (le_maxv (le_trans h1 cap_le_big))
  obtain ⟨fq, vq⟩ := mul_zero_exact fy fz hz
  obtain ⟨fpq, vpq⟩ := add_zero_exact fp fq vq
  obtain ⟨fr, vr⟩ := add_zero_exact fpq fw hw
  exact ⟨fr, by rw [vr, vpq]; exact hp⟩

theorem axis_rel' {x z y s w : F32} (fx : Fn x) (fz : Fn z) (fy : Fn y) (fs : Fn s) (fw : Fn w)
    (hz : val x * val z = 0) (hw : val w = 0) (h1 : |val y * val s| ≤ cap) :
    Fn (x * z + y * s + w) ∧
    |val (x * z + y * s + w) - val y * val s| ≤ u * |val y * val s| + tiny := by
  obtain ⟨fp, hp⟩ := mul_mix fy fs (le_maxv (le_trans h1 cap_le_big))
  obtain ⟨fq, vq⟩ := mul_zero_exact fx fz hz
  obtain ⟨fpq, vpq⟩ := zero_add_exact fq fp vq
  obtain ⟨fr, vr⟩ := add_zero_exact fpq fw hw
  exact ⟨fr, by rw [vr, vpq]; exact hp⟩

/-! ## `MulAff3` with a scale-and-translate transform -/

/-- **the range hypothesis on a transform**: a scale-and-translate matrix `[sx 0 tx; 0 sy ty]` — the two
    off-diagonal entries have the value zero (`+0` or `−0`) — with finite entries of magnitude at most `2^40` -/
structure STOk (T : Aff3 F32) : Prop where
  f0 : Fn T.a0
  f1 : Fn T.a1
  f2 : Fn T.a2
  f3 : Fn T.a3
  f4 : Fn T.a4
  f5 : Fn T.a5
  z1 : val T.a1 = 0
  z3 : val T.a3 = 0
  b0 : |val T.a0| ≤ 1099511627776
  b2 : |val T.a2| ≤ 1099511627776
  b4 : |val T.a4| ≤ 1099511627776
  b5 : |val T.a5| ≤ 1099511627776

/-- **the range hypothesis on an operand**: finite, magnitude at most `2^40` -/
def OpOK (x : F32) : Prop := Fn x ∧ |val x| ≤ 1099511627776

/-- `r` is the float32 image of the absolute operand `x` under scale `s`, translation `t`: finite and within
    `3u·|s·x| + u·|t| + 2·2^-150` of the exact `s·x + t` (two roundings; `2^-150` only if `s·x` underflows) -/
def AbsNear (s t x r : F32) : Prop :=
  Fn r ∧ |val r - (val s * val x + val t)| ≤ 3 * u * |val s * val x| + u * |val t| + 2 * tiny

/-- `r` is the float32 image of the relative operand (or arc radius) `x` under scale `s`: finite and within
    `u·|s·x| + 2^-150` of the exact `s·x` (one rounding) -/
def RelNear (s x r : F32) : Prop :=
  Fn r ∧ |val r - val s * val x| ≤ u * |val s * val x| + tiny

theorem prod_cap {x s : F32} (hx : |val x| ≤ 1099511627776) (hs : |val s| ≤ 1099511627776) :
    |val x * val s| ≤ cap := by
  rw [abs_mul]
  have := mul_le_mul hx hs (abs_nonneg _) (by norm_num)
  unfold cap; linarith

theorem small_cap {t : F32} (ht : |val t| ≤ 1099511627776) : |val t| ≤ cap := by
  unfold cap; linarith

theorem abs_weaken {P T e : ℚ}
    (h : e ≤ (2 * u + u * u) * |P| + u * |T| + (1 + u) * tiny) : e ≤ 3 * u * |P| + u * |T| + 2 * tiny := by
  have hu : u = 1 / 16777216 := rfl
  have := abs_nonneg P
  have := tiny_pos
  rw [hu] at h ⊢
  linarith

variable {T : Aff3 F32}

/-- **absolute operands get the full transform**, with two roundings per coordinate -/
theorem mulAff3_abs (hT : STOk T) {x y : F32} (hx : OpOK x) (hy : OpOK y) :
    AbsNear T.a0 T.a2 x (mulAff3 x y T).1 ∧ AbsNear T.a4 T.a5 y (mulAff3 x y T).2 := by
  constructor
  · obtain ⟨f, h⟩ := axis_abs hx.1 hT.f0 hy.1 hT.f1 hT.f2 (by rw [hT.z1, mul_zero])
      (prod_cap hx.2 hT.b0) (small_cap hT.b2)
    refine ⟨f, ?_⟩
    rw [mul_comm (val T.a0)]
    exact abs_weaken h
  · obtain ⟨f, h⟩ := axis_abs' hx.1 hT.f3 hy.1 hT.f4 hT.f5 (by rw [hT.z3, mul_zero])
      (prod_cap hy.2 hT.b4) (small_cap hT.b5)
    refine ⟨f, ?_⟩
    rw [mul_comm (val T.a4)]
    exact abs_weaken h

section priv
open private i from Ivg.Model.Generator

/-- the scale-only matrix `normalize` uses for relative operands and arc radii -/
def scaleOf (T : Aff3 F32) : Aff3 F32 := ⟨T.a0, F32.ofInt 0, F32.ofInt 0, F32.ofInt 0, T.a4, F32.ofInt 0⟩

theorem scaleOf_eq (T : Aff3 F32) : scaleOf T = ⟨T.a0, i 0, i 0, i 0, T.a4, i 0⟩ := rfl

/-- **relative operands and arc radii get the scale only**, with one rounding per coordinate -/
theorem mulAff3_rel (hT : STOk T) {x y : F32} (hx : OpOK x) (hy : OpOK y) :
    RelNear T.a0 x (mulAff3 x y (scaleOf T)).1 ∧ RelNear T.a4 y (mulAff3 x y (scaleOf T)).2 := by
  obtain ⟨z0, z1⟩ := zero_val
  constructor
  · obtain ⟨f, h⟩ := axis_rel hx.1 hT.f0 hy.1 z0 z0 (by rw [z1, mul_zero]) z1 (prod_cap hx.2 hT.b0)
    refine ⟨f, ?_⟩
    rw [mul_comm (val T.a0)]
    exact h
  · obtain ⟨f, h⟩ := axis_rel' hx.1 z0 hy.1 hT.f4 z0 (by rw [z1, mul_zero]) z1 (prod_cap hy.2 hT.b4)
    refine ⟨f, ?_⟩
    rw [mul_comm (val T.a4)]
    exact h

theorem opOK_zero : OpOK (F32.ofInt 0) := by
  obtain ⟨z0, z1⟩ := zero_val
  exact ⟨z0, by rw [z1]; norm_num⟩

/-! ## `normalize` -/

/-- the matrix `normalize` applies to the operand pairs of `verb`: the concatenation for an absolute verb,
    its diagonal for a relative (lower-case) one -/
def xfOf {α : Type} [Arith α] (ts : List (Aff3 α)) (verb : Char) : Aff3 α :=
  if isLower verb then ⟨(concat ts).a0, i 0, i 0, i 0, (concat ts).a4, i 0⟩ else concat ts

/-- the scale-only matrix (arc radii) -/
def scOf {α : Type} [Arith α] (ts : List (Aff3 α)) : Aff3 α :=
  ⟨(concat ts).a0, i 0, i 0, i 0, (concat ts).a4, i 0⟩

/-- **structure of `normalize`, every number type**: with a non-empty transform list, every operand pair of a
    2-, 4- or 6-operand verb and the end point of an arc go through `MulAff3` with `xfOf ts verb`, the arc's radii
    with the scale-only matrix, and the arc's rotation and flags are passed on untouched; the single operand of
    `H`/`h` is paired with a zero `y`, of `V`/`v` with a zero `x` -/
theorem normalize_struct {α : Type} [Arith α] (ts : List (Aff3 α)) (hne : ts ≠ []) (verb : Char) :
    let f := fun x y => mulAff3 x y (xfOf ts verb)
    (∀ a0 a1, normalizeArgs [a0, a1] 2 verb ts = [(f a0 a1).1, (f a0 a1).2]) ∧
    (∀ a0 a1 a2 a3, normalizeArgs [a0, a1, a2, a3] 4 verb ts =
      [(f a0 a1).1, (f a0 a1).2, (f a2 a3).1, (f a2 a3).2]) ∧
    (∀ a0 a1 a2 a3 a4 a5, normalizeArgs [a0, a1, a2, a3, a4, a5] 6 verb ts =
      [(f a0 a1).1, (f a0 a1).2, (f a2 a3).1, (f a2 a3).2, (f a4 a5).1, (f a4 a5).2]) ∧
    (∀ rx ry rot la sw x y, normalizeArgs [rx, ry, rot, la, sw, x, y] 7 verb ts =
      [(mulAff3 rx ry (scOf ts)).1, (mulAff3 rx ry (scOf ts)).2, rot, la, sw, (f x y).1, (f x y).2]) := by
  have he : ts.isEmpty = false := by cases ts <;> simp_all
  refine ⟨?_, ?_, ?_, ?_⟩
  · intro a0 a1
    simp only [normalizeArgs, he, Bool.false_eq_true, if_false, xfOf]
  · intro a0 a1 a2 a3
    simp only [normalizeArgs, he, Bool.false_eq_true, if_false, xfOf]
  · intro a0 a1 a2 a3 a4 a5
    simp only [normalizeArgs, he, Bool.false_eq_true, if_false, xfOf]
  · intro rx ry rot la sw x y
    simp only [normalizeArgs, he, Bool.false_eq_true, if_false, xfOf, scOf]

theorem normalize_hv_struct {α : Type} [Arith α] (ts : List (Aff3 α)) (hne : ts ≠ []) (a : α) :
    normalizeArgs [a] 1 'H' ts = [(mulAff3 a (Arith.ofInt 0) (concat ts)).1] ∧
    normalizeArgs [a] 1 'h' ts = [(mulAff3 a (Arith.ofInt 0) (scOf ts)).1] ∧
    normalizeArgs [a] 1 'V' ts = [(mulAff3 (Arith.ofInt 0) a (concat ts)).2] ∧
    normalizeArgs [a] 1 'v' ts = [(mulAff3 (Arith.ofInt 0) a (scOf ts)).2] := by
  have he : ts.isEmpty = false := by cases ts <;> simp_all
  have hH : isLower 'H' = false := by decide
  have hh : isLower 'h' = true := by decide
  have hV : isLower 'V' = false := by decide
  have hv : isLower 'v' = true := by decide
  refine ⟨?_, ?_, ?_, ?_⟩
  · simp [normalizeArgs, he, hH]; rfl
  · simp [normalizeArgs, he, hh, scOf]; rfl
  · simp [normalizeArgs, he, hV]; rfl
  · simp [normalizeArgs, he, hv, scOf]; rfl

/-- the image of an operand pair: `AbsNear` in both coordinates for an absolute verb, `RelNear` for a
    relative one -/
def PairNear (T : Aff3 F32) (rel : Bool) (x y r1 r2 : F32) : Prop :=
  if rel then RelNear T.a0 x r1 ∧ RelNear T.a4 y r2
  else AbsNear T.a0 T.a2 x r1 ∧ AbsNear T.a4 T.a5 y r2

/-- **`normalize_abs_f32`** — C20 "absolute operands get the full transform, relative operands the scale only,
    arc radii the scale, arc flags unchanged [rotation passed on]", at float32.  For a non-empty transform list
    whose (float32) concatenation `T` is a scale-and-translate matrix in range (`STOk`; for a single transform
    `T` is that transform, `concat_single`): the operand pairs of the 2-, 4- and 6-operand verbs and the arc's
    end point are images `(f x y)` with, for operands in range, each coordinate within
    `3u·|s·x| + u·|t| + 2·2^-150` of `s·x + t` (absolute verb) or `u·|s·x| + 2^-150` of `s·x` (relative verb);
    the arc's radii are within `u·|s·r| + 2^-150` of `s·r`; rotation and flags are untouched. -/
theorem normalize_f32 (ts : List (Aff3 F32)) (hne : ts ≠ []) (hT : STOk (concat ts)) (verb : Char) :
    ∃ f : F32 → F32 → F32 × F32,
    (∀ x y, OpOK x → OpOK y → PairNear (concat ts) (isLower verb) x y (f x y).1 (f x y).2) ∧
    (∀ a0 a1, normalizeArgs [a0, a1] 2 verb ts = [(f a0 a1).1, (f a0 a1).2]) ∧
    (∀ a0 a1 a2 a3, normalizeArgs [a0, a1, a2, a3] 4 verb ts =
      [(f a0 a1).1, (f a0 a1).2, (f a2 a3).1, (f a2 a3).2]) ∧
    (∀ a0 a1 a2 a3 a4 a5, normalizeArgs [a0, a1, a2, a3, a4, a5] 6 verb ts =
      [(f a0 a1).1, (f a0 a1).2, (f a2 a3).1, (f a2 a3).2, (f a4 a5).1, (f a4 a5).2]) ∧
    (∀ rx ry rot la sw x y, ∃ r1 r2,
      normalizeArgs [rx, ry, rot, la, sw, x, y] 7 verb ts = [r1, r2, rot, la, sw, (f x y).1, (f x y).2] ∧
      (OpOK rx → OpOK ry → RelNear (concat ts).a0 rx r1 ∧ RelNear (concat ts).a4 ry r2)) := by
  obtain ⟨s2, s4, s6, s7⟩ := normalize_struct ts hne verb
  refine ⟨fun x y => mulAff3 x y (xfOf ts verb), ?_, s2, s4, s6, ?_⟩
  · intro x y hx hy
    unfold PairNear xfOf
    cases isLower verb
    · simp only [Bool.false_eq_true, if_false]
      exact mulAff3_abs hT hx hy
    · simp only [if_true]
      exact mulAff3_rel hT hx hy
  · intro rx ry rot la sw x y
    exact ⟨_, _, s7 rx ry rot la sw x y, fun h1 h2 => mulAff3_rel hT h1 h2⟩

/-- … single-operand verbs: `H ↦ sx·x + tx`, `h ↦ sx·x`, `V ↦ sy·y + ty`, `v ↦ sy·y`, with the same bounds -/
theorem normalize_hv_f32 (ts : List (Aff3 F32)) (hne : ts ≠ []) (hT : STOk (concat ts)) (a : F32) (ha : OpOK a) :
    (∃ r, normalizeArgs [a] 1 'H' ts = [r] ∧ AbsNear (concat ts).a0 (concat ts).a2 a r) ∧
    (∃ r, normalizeArgs [a] 1 'h' ts = [r] ∧ RelNear (concat ts).a0 a r) ∧
    (∃ r, normalizeArgs [a] 1 'V' ts = [r] ∧ AbsNear (concat ts).a4 (concat ts).a5 a r) ∧
    (∃ r, normalizeArgs [a] 1 'v' ts = [r] ∧ RelNear (concat ts).a4 a r) := by
  obtain ⟨sH, sh, sV, sv⟩ := normalize_hv_struct ts hne a
  exact ⟨⟨_, sH, (mulAff3_abs hT ha opOK_zero).1⟩, ⟨_, sh, (mulAff3_rel hT ha opOK_zero).1⟩,
    ⟨_, sV, (mulAff3_abs hT opOK_zero ha).2⟩, ⟨_, sv, (mulAff3_rel hT opOK_zero ha).2⟩⟩

end priv

/-- `Concat` of ONE transform is that transform (every number type) -/
theorem concat_single {α : Type} [Arith α] (a : Aff3 α) : concat [a] = a := rfl

/-- when the magnitude `|s·x| + |t|` is not below the normal range, the absolute-operand bound is
    `5u·(|s·x| + |t|)` -/
theorem AbsNear.mag {s t x r : F32} (h : AbsNear s t x r) (hn : minN ≤ |val s * val x| + |val t|) :
    |val r - (val s * val x + val t)| ≤ 5 * u * (|val s * val x| + |val t|) := by
  have hu : u = 1 / 16777216 := rfl
  have h1 := h.2
  have h2 : tiny ≤ u * (|val s * val x| + |val t|) := mul_le_mul_of_nonneg_left hn u_pos.le
  have := abs_nonneg (val s * val x)
  have := abs_nonneg (val t)
  rw [hu] at h1 h2 ⊢
  linarith

theorem RelNear.mag {s x r : F32} (h : RelNear s x r) (hn : minN ≤ |val s * val x|) :
    |val r - val s * val x| ≤ 2 * u * |val s * val x| := by
  have h1 := h.2
  have h2 : tiny ≤ u * |val s * val x| := mul_le_mul_of_nonneg_left hn u_pos.le
  linarith

/-! ## the arc call -/

/-- **`emit_arc_f32`** — "arc flags unchanged and rotation converted from degrees to turns": the arc call
    carries `fl(rot / 360)` — ONE rounding: within `u·|rot/360| + 2^-150` of the exact quotient — and the flags
    are `true` exactly when the operand's value is non-zero (`−0` counts as zero, as Go's `!= 0`) -/
theorem emit_arc_f32 (adj : UInt8) (rx ry rot la sw x y : F32) :
    emitVerb 'A' adj [rx, ry, rot, la, sw, x, y] =
      .ok [.arc false rx ry (rot / F32.ofInt 360) (!F32.feq la (F32.ofInt 0)) (!F32.feq sw (F32.ofInt 0)) x y] ∧
    emitVerb 'a' adj [rx, ry, rot, la, sw, x, y] =
      .ok [.arc true rx ry (rot / F32.ofInt 360) (!F32.feq la (F32.ofInt 0)) (!F32.feq sw (F32.ofInt 0)) x y] ∧
    (Fn rot → Fn (rot / F32.ofInt 360) ∧
      |val (rot / F32.ofInt 360) - val rot / 360| ≤ u * |val rot / 360| + tiny) ∧
    (Fn la → ((!F32.feq la (F32.ofInt 0)) = true ↔ val la ≠ 0)) ∧
    (Fn sw → ((!F32.feq sw (F32.ofInt 0)) = true ↔ val sw ≠ 0)) := by
  obtain ⟨z0, z1⟩ := zero_val
  have flag : ∀ a : F32, Fn a → ((!F32.feq a (F32.ofInt 0)) = true ↔ val a ≠ 0) := by
    intro a fa
    have := FloatCmp32.F32_feq_fin fa z0
    rw [z1] at this
    rw [Bool.not_eq_true', ne_eq, ← this]
    cases F32.feq a (F32.ofInt 0) <;> simp
  refine ⟨rfl, rfl, ?_, flag la, flag sw⟩
  intro fr
  obtain ⟨f360, v360⟩ := ofInt_val 360 (by decide)
  have v360' : val (F32.ofInt 360) = 360 := by rw [v360]; norm_num
  have hr : |val rot / val (F32.ofInt 360)| ≤ maxv := by
    rw [v360', abs_div]
    have := abs_val_le_maxv fr
    have h0 : (0:ℚ) ≤ |val rot| := abs_nonneg _
    rw [show |(360:ℚ)| = 360 by norm_num, div_le_iff₀ (by norm_num)]
    have := Axis.maxv_pos
    linarith
  have := div_mix fr f360 (by rw [v360']; norm_num) hr
  rw [v360'] at this
  exact this

/-! ## `Concat` of two transforms -/

/-- the values of the entries -/
def valA (a : Aff3 F32) : Aff3 ℚ := ⟨val a.a0, val a.a1, val a.a2, val a.a3, val a.a4, val a.a5⟩

/-- all entries finite, of magnitude at most `2^40` -/
structure AffOK (a : Aff3 F32) : Prop where
  f0 : Fn a.a0
  f1 : Fn a.a1
  f2 : Fn a.a2
  f3 : Fn a.a3
  f4 : Fn a.a4
  f5 : Fn a.a5
  b0 : |val a.a0| ≤ 1099511627776
  b1 : |val a.a1| ≤ 1099511627776
  b2 : |val a.a2| ≤ 1099511627776
  b3 : |val a.a3| ≤ 1099511627776
  b4 : |val a.a4| ≤ 1099511627776
  b5 : |val a.a5| ≤ 1099511627776

/-- the fold step of `Concat` at float32 -/
def compF (a b : Aff3 F32) : Aff3 F32 :=
  ⟨a.a0 * b.a0 + a.a3 * b.a1, a.a1 * b.a0 + a.a4 * b.a1, a.a2 * b.a0 + a.a5 * b.a1 + b.a2,
   a.a0 * b.a3 + a.a3 * b.a4, a.a1 * b.a3 + a.a4 * b.a4, a.a2 * b.a3 + a.a5 * b.a4 + b.a5⟩

theorem concat_pair_eq (a b : Aff3 F32) : concat [a, b] = compF (compF Aff3.identity a) b := rfl

/-- composing the identity with `a` changes no VALUE (the products with 1 and 0 are exact; a `−0` entry may
    become `+0`) -/
theorem ident_comp_f32 {a : Aff3 F32} (h : AffOK a) :
    AffOK (compF Aff3.identity a) ∧ valA (compF Aff3.identity a) = valA a := by
  obtain ⟨z0, z1⟩ := zero_val
  obtain ⟨o0, o1⟩ := one_val
  have hz : ∀ {x : F32}, Fn x → Fn (F32.ofInt 0 * x) ∧ val (F32.ofInt 0 * x) = 0 := fun fx =>
    mul_zero_exact z0 fx (by rw [z1, zero_mul])
  have ho : ∀ {x : F32}, Fn x → Fn (F32.ofInt 1 * x) ∧ val (F32.ofInt 1 * x) = val x := fun fx =>
    one_mul_exact o0 fx o1
  -- 1·p + 0·q
  have r1 : ∀ {p q : F32}, Fn p → Fn q →
      Fn (F32.ofInt 1 * p + F32.ofInt 0 * q) ∧ val (F32.ofInt 1 * p + F32.ofInt 0 * q) = val p := by
    intro p q fp fq
    obtain ⟨f1, v1⟩ := ho fp
    obtain ⟨f2, v2⟩ := hz fq
    obtain ⟨f3, v3⟩ := add_zero_exact f1 f2 v2
    exact ⟨f3, by rw [v3, v1]⟩
  -- 0·p + 1·q
  have r2 : ∀ {p q : F32}, Fn p → Fn q →
      Fn (F32.ofInt 0 * p + F32.ofInt 1 * q) ∧ val (F32.ofInt 0 * p + F32.ofInt 1 * q) = val q := by
    intro p q fp fq
    obtain ⟨f1, v1⟩ := hz fp
    obtain ⟨f2, v2⟩ := ho fq
    obtain ⟨f3, v3⟩ := zero_add_exact f1 f2 v1
    exact ⟨f3, by rw [v3, v2]⟩
  -- 0·p + 0·q + r
  have r3 : ∀ {p q r : F32}, Fn p → Fn q → Fn r →
      Fn (F32.ofInt 0 * p + F32.ofInt 0 * q + r) ∧ val (F32.ofInt 0 * p + F32.ofInt 0 * q + r) = val r := by
    intro p q r fp fq fr
    obtain ⟨f1, v1⟩ := hz fp
    obtain ⟨f2, v2⟩ := hz fq
    obtain ⟨f3, v3⟩ := add_zero_exact f1 f2 v2
    obtain ⟨f4, v4⟩ := zero_add_exact f3 fr (by rw [v3, v1])
    exact ⟨f4, v4⟩
  obtain ⟨e0f, e0v⟩ := r1 h.f0 h.f1
  obtain ⟨e1f, e1v⟩ := r2 h.f0 h.f1
  obtain ⟨e2f, e2v⟩ := r3 h.f0 h.f1 h.f2
  obtain ⟨e3f, e3v⟩ := r1 h.f3 h.f4
  obtain ⟨e4f, e4v⟩ := r2 h.f3 h.f4
  obtain ⟨e5f, e5v⟩ := r3 h.f3 h.f4 h.f5
  have hv : valA (compF Aff3.identity a) = valA a := by
    show (⟨_, _, _, _, _, _⟩ : Aff3 ℚ) = ⟨_, _, _, _, _, _⟩
    congr 1
  refine ⟨⟨e0f, e1f, e2f, e3f, e4f, e5f, ?_, ?_, ?_, ?_, ?_, ?_⟩, hv⟩
  · show |val (F32.ofInt 1 * a.a0 + F32.ofInt 0 * a.a1)| ≤ _; rw [e0v]; exact h.b0
  · show |val (F32.ofInt 0 * a.a0 + F32.ofInt 1 * a.a1)| ≤ _; rw [e1v]; exact h.b1
  · show |val (F32.ofInt 0 * a.a0 + F32.ofInt 0 * a.a1 + a.a2)| ≤ _; rw [e2v]; exact h.b2
  · show |val (F32.ofInt 1 * a.a3 + F32.ofInt 0 * a.a4)| ≤ _; rw [e3v]; exact h.b3
  · show |val (F32.ofInt 0 * a.a3 + F32.ofInt 1 * a.a4)| ≤ _; rw [e4v]; exact h.b4
  · show |val (F32.ofInt 0 * a.a3 + F32.ofInt 0 * a.a4 + a.a5)| ≤ _; rw [e5v]; exact h.b5

/-- one fold step against the exact product: linear entries `fl(fl(p) + fl(q))`, translation entries
    `fl(fl(fl(p) + fl(q)) + t)` -/
theorem compF_err {a b : Aff3 F32} (ha : AffOK a) (hb : AffOK b) :
    let c := compF a b
    let A := valA a
    let B := valA b
    let P := GenQ.comp A B
    (Fn c.a0 ∧ Fn c.a1 ∧ Fn c.a2 ∧ Fn c.a3 ∧ Fn c.a4 ∧ Fn c.a5) ∧
    |val c.a0 - P.a0| ≤ 3 * u * (|A.a0 * B.a0| + |A.a3 * B.a1|) + 3 * tiny ∧
    |val c.a1 - P.a1| ≤ 3 * u * (|A.a1 * B.a0| + |A.a4 * B.a1|) + 3 * tiny ∧
    |val c.a2 - P.a2| ≤ 4 * u * (|A.a2 * B.a0| + |A.a5 * B.a1|) + u * |B.a2| + 3 * tiny ∧
    |val c.a3 - P.a3| ≤ 3 * u * (|A.a0 * B.a3| + |A.a3 * B.a4|) + 3 * tiny ∧
    |val c.a4 - P.a4| ≤ 3 * u * (|A.a1 * B.a3| + |A.a4 * B.a4|) + 3 * tiny ∧
    |val c.a5 - P.a5| ≤ 4 * u * (|A.a2 * B.a3| + |A.a5 * B.a4|) + u * |B.a5| + 3 * tiny := by
  have hu : u = 1 / 16777216 := rfl
  intro c A B P
  have ht := tiny_pos
  have w2 : ∀ {p q e : ℚ}, e ≤ (2 * u + u * u) * (|p| + |q|) + (2 + 2 * u) * tiny →
      e ≤ 3 * u * (|p| + |q|) + 3 * tiny := by
    intro p q e h
    have := abs_nonneg p; have := abs_nonneg q
    rw [hu] at h ⊢; linarith
  have w3 : ∀ {p q t e : ℚ}, e ≤ (3 * u + 3 * u * u + u * u * u) * (|p| + |q|) + u * |t| + 3 * tiny →
      e ≤ 4 * u * (|p| + |q|) + u * |t| + 3 * tiny := by
    intro p q t e h
    have := abs_nonneg p; have := abs_nonneg q
    rw [hu] at h ⊢; linarith
  obtain ⟨g0, h0⟩ := dot2_add ha.f0 hb.f0 ha.f3 hb.f1 (prod_cap ha.b0 hb.b0) (prod_cap ha.b3 hb.b1)
  obtain ⟨g1, h1⟩ := dot2_add ha.f1 hb.f0 ha.f4 hb.f1 (prod_cap ha.b1 hb.b0) (prod_cap ha.b4 hb.b1)
  obtain ⟨g2, h2⟩ := dot3 ha.f2 hb.f0 ha.f5 hb.f1 hb.f2 (prod_cap ha.b2 hb.b0) (prod_cap ha.b5 hb.b1)
    (small_cap hb.b2)
  obtain ⟨g3, h3⟩ := dot2_add ha.f0 hb.f3 ha.f3 hb.f4 (prod_cap ha.b0 hb.b3) (prod_cap ha.b3 hb.b4)
  obtain ⟨g4, h4⟩ := dot2_add ha.f1 hb.f3 ha.f4 hb.f4 (prod_cap ha.b1 hb.b3) (prod_cap ha.b4 hb.b4)
  obtain ⟨g5, h5⟩ := dot3 ha.f2 hb.f3 ha.f5 hb.f4 hb.f5 (prod_cap ha.b2 hb.b3) (prod_cap ha.b5 hb.b4)
    (small_cap hb.b5)
  exact ⟨⟨g0, g1, g2, g3, g4, g5⟩, w2 h0, w2 h1, w3 h2, w2 h3, w2 h4, w3 h5⟩

/-- **`concat_pair_f32`** — "concatenating transforms is matrix composition", at float32, for two transforms
    with finite entries of magnitude at most `2^40`: every entry of `Concat(a, b)` is finite and within
    `3u·(|p| + |q|) + 3·2^-150` (linear part, `p + q` the exact entry) or `4u·(|p| + |q|) + u·|t| + 3·2^-150`
    (translation part `p + q + t`) of the entry of the exact product `GenQ.comp (valA a) (valA b)` — which is
    `concat [valA a, valA b]` at exact arithmetic (`concat_pair_exact`).  The rounding is relative to the SUM OF
    MAGNITUDES of the products, not to the entry: entries that cancel lose relative accuracy. -/
theorem concat_pair_f32 {a b : Aff3 F32} (ha : AffOK a) (hb : AffOK b) :
    let c := concat [a, b]
    let A := valA a
    let B := valA b
    let P := GenQ.comp A B
    (Fn c.a0 ∧ Fn c.a1 ∧ Fn c.a2 ∧ Fn c.a3 ∧ Fn c.a4 ∧ Fn c.a5) ∧
    |val c.a0 - P.a0| ≤ 3 * u * (|A.a0 * B.a0| + |A.a3 * B.a1|) + 3 * tiny ∧
    |val c.a1 - P.a1| ≤ 3 * u * (|A.a1 * B.a0| + |A.a4 * B.a1|) + 3 * tiny ∧
    |val c.a2 - P.a2| ≤ 4 * u * (|A.a2 * B.a0| + |A.a5 * B.a1|) + u * |B.a2| + 3 * tiny ∧
    |val c.a3 - P.a3| ≤ 3 * u * (|A.a0 * B.a3| + |A.a3 * B.a4|) + 3 * tiny ∧
    |val c.a4 - P.a4| ≤ 3 * u * (|A.a1 * B.a3| + |A.a4 * B.a4|) + 3 * tiny ∧
    |val c.a5 - P.a5| ≤ 4 * u * (|A.a2 * B.a3| + |A.a5 * B.a4|) + u * |B.a5| + 3 * tiny := by
  obtain ⟨ok, hv⟩ := ident_comp_f32 ha
  have := compF_err ok hb
  rw [hv] at this
  exact this

theorem concat_pair_exact (a b : Aff3 F32) : concat [valA a, valA b] = GenQ.comp (valA a) (valA b) := by
  rw [GenQ.concat_eq_foldl]; simp only [List.foldl]; rw [GenQ.ident_comp]

/-- scale followed by translate: `Concat(Scale(sx, sy), Translate(tx, ty))` is, in VALUE, exactly the
    scale-and-translate matrix `[sx 0 tx; 0 sy ty]` (all products are with 0 or 1), so `normalize_f32` applies
    to the generator's usual transform list without any concatenation error -/
theorem concat_scale_translate_f32 {sx sy tx ty : F32} (fsx : Fn sx) (fsy : Fn sy) (ftx : Fn tx) (fty : Fn ty)
    (bsx : |val sx| ≤ 1099511627776) (bsy : |val sy| ≤ 1099511627776)
    (btx : |val tx| ≤ 1099511627776) (bty : |val ty| ≤ 1099511627776) :
    STOk (concat [scale2 sx sy, translate tx ty]) ∧
    valA (concat [scale2 sx sy, translate tx ty]) = ⟨val sx, 0, val tx, 0, val sy, val ty⟩ := by
  obtain ⟨z0, z1⟩ := zero_val
  obtain ⟨o0, o1⟩ := one_val
  have hS : AffOK (scale2 sx sy) := by
    refine ⟨fsx, z0, z0, z0, fsy, z0, bsx, ?_, ?_, ?_, bsy, ?_⟩ <;>
      · show |val (F32.ofInt 0)| ≤ _; rw [z1]; norm_num
  obtain ⟨ok, hv⟩ := ident_comp_f32 hS
  rw [concat_pair_eq]
  generalize compF Aff3.identity (scale2 sx sy) = S at ok hv
  have v0 : val S.a0 = val sx := congrArg Aff3.a0 hv
  have v1 : val S.a1 = 0 := (congrArg Aff3.a1 hv).trans z1
  have v2 : val S.a2 = 0 := (congrArg Aff3.a2 hv).trans z1
  have v3 : val S.a3 = 0 := (congrArg Aff3.a3 hv).trans z1
  have v4 : val S.a4 = val sy := congrArg Aff3.a4 hv
  have v5 : val S.a5 = 0 := (congrArg Aff3.a5 hv).trans z1
  -- entries of `compF S (translate tx ty)`
  have mz : ∀ {p q : F32}, Fn p → Fn q → val p * val q = 0 → Fn (p * q) ∧ val (p * q) = 0 :=
    fun fp fq h => mul_zero_exact fp fq h
  -- a0 = S0·1 + S3·0
  obtain ⟨f00, v00⟩ := mul_one_exact ok.f0 o0 o1
  obtain ⟨f01, v01⟩ := mz ok.f3 z0 (by rw [z1, mul_zero])
  obtain ⟨e0f, e0v⟩ := add_zero_exact f00 f01 v01
  -- a1 = S1·1 + S4·0
  obtain ⟨f10, v10⟩ := mul_one_exact ok.f1 o0 o1
  obtain ⟨f11, v11⟩ := mz ok.f4 z0 (by rw [z1, mul_zero])
  obtain ⟨e1f, e1v⟩ := add_zero_exact f10 f11 v11
  -- a2 = S2·1 + S5·0 + tx
  obtain ⟨f20, v20⟩ := mul_one_exact ok.f2 o0 o1
  obtain ⟨f21, v21⟩ := mz ok.f5 z0 (by rw [z1, mul_zero])
  obtain ⟨f22, v22⟩ := add_zero_exact f20 f21 v21
  obtain ⟨e2f, e2v⟩ := zero_add_exact f22 ftx (by rw [v22, v20, v2])
  -- a3 = S0·0 + S3·1
  obtain ⟨f30, v30⟩ := mz ok.f0 z0 (by rw [z1, mul_zero])
  obtain ⟨f31, v31⟩ := mul_one_exact ok.f3 o0 o1
  obtain ⟨e3f, e3v⟩ := zero_add_exact f30 f31 v30
  -- a4 = S1·0 + S4·1
  obtain ⟨f40, v40⟩ := mz ok.f1 z0 (by rw [z1, mul_zero])
  obtain ⟨f41, v41⟩ := mul_one_exact ok.f4 o0 o1
  obtain ⟨e4f, e4v⟩ := zero_add_exact f40 f41 v40
  -- a5 = S2·0 + S5·1 + ty
  obtain ⟨f50, v50⟩ := mz ok.f2 z0 (by rw [z1, mul_zero])
  obtain ⟨f51, v51⟩ := mul_one_exact ok.f5 o0 o1
  obtain ⟨f52, v52⟩ := zero_add_exact f50 f51 v50
  obtain ⟨e5f, e5v⟩ := zero_add_exact f52 fty (by rw [v52, v51, v5])
  have w0 : val (compF S (translate tx ty)).a0 = val sx := by
    show val (S.a0 * F32.ofInt 1 + S.a3 * F32.ofInt 0) = _; rw [e0v, v00, v0]
  have w1 : val (compF S (translate tx ty)).a1 = 0 := by
    show val (S.a1 * F32.ofInt 1 + S.a4 * F32.ofInt 0) = _; rw [e1v, v10, v1]
  have w2 : val (compF S (translate tx ty)).a2 = val tx := by
    show val (S.a2 * F32.ofInt 1 + S.a5 * F32.ofInt 0 + tx) = _; rw [e2v]
  have w3 : val (compF S (translate tx ty)).a3 = 0 := by
    show val (S.a0 * F32.ofInt 0 + S.a3 * F32.ofInt 1) = _; rw [e3v, v31, v3]
  have w4 : val (compF S (translate tx ty)).a4 = val sy := by
    show val (S.a1 * F32.ofInt 0 + S.a4 * F32.ofInt 1) = _; rw [e4v, v41, v4]
  have w5 : val (compF S (translate tx ty)).a5 = val ty := by
    show val (S.a2 * F32.ofInt 0 + S.a5 * F32.ofInt 1 + ty) = _; rw [e5v]
  refine ⟨⟨e0f, e1f, e2f, e3f, e4f, e5f, w1, w3, ?_, ?_, ?_, ?_⟩, ?_⟩
  · rw [w0]; exact bsx
  · rw [w2]; exact btx
  · rw [w4]; exact bsy
  · rw [w5]; exact bty
  · unfold valA; rw [w0, w1, w2, w3, w4, w5]


/-! ## the converter's coordinate map (`mdicons/parsepathdata.go` `normalize`) -/
section md
open private i from Ivg.Model.MdIcons

/-- the converter's map of a relative operand, as computed: `a · (outSize / size)` -/
def mdRelF {α : Type} [Arith α] (size outSize a : α) : α := a * (outSize / size)
/-- … and of an absolute operand: `a · (outSize / size) − outSize / 2 − off` -/
def mdAbsF {α : Type} [Arith α] (size outSize off a : α) : α :=
  a * (outSize / size) - outSize / Arith.ofInt 2 - off

/-- **structure of the converter's `normalize`, every number type** (the analogue of `MdG.md_normalize`) -/
theorem md_normalize_struct {α : Type} [Arith α] (size offX offY outSize : α) (op : Char) :
    let X := mdAbsF size outSize offX
    let Y := mdAbsF size outSize offY
    let R := mdRelF size outSize
    (∀ x y, Md.normalizeArgs [x, y] 2 op size offX offY outSize false = [X x, Y y]) ∧
    (∀ x y, Md.normalizeArgs [x, y] 2 op size offX offY outSize true = [R x, R y]) ∧
    (∀ x1 y1 x y, Md.normalizeArgs [x1, y1, x, y] 4 op size offX offY outSize false = [X x1, Y y1, X x, Y y]) ∧
    (∀ x1 y1 x y, Md.normalizeArgs [x1, y1, x, y] 4 op size offX offY outSize true = [R x1, R y1, R x, R y]) ∧
    (∀ x1 y1 x2 y2 x y, Md.normalizeArgs [x1, y1, x2, y2, x, y] 6 op size offX offY outSize false =
      [X x1, Y y1, X x2, Y y2, X x, Y y]) ∧
    (∀ x1 y1 x2 y2 x y, Md.normalizeArgs [x1, y1, x2, y2, x, y] 6 op size offX offY outSize true =
      [R x1, R y1, R x2, R y2, R x, R y]) ∧
    (∀ a, Md.normalizeArgs [a] 1 'H' size offX offY outSize false = [X a]) ∧
    (∀ a, Md.normalizeArgs [a] 1 'V' size offX offY outSize false = [Y a]) ∧
    (∀ a, Md.normalizeArgs [a] 1 'h' size offX offY outSize true = [R a]) ∧
    (∀ a, Md.normalizeArgs [a] 1 'v' size offX offY outSize true = [R a]) := by
  have hi : (i 2 : α) = Arith.ofInt 2 := rfl
  simp [Md.normalizeArgs, List.range, List.range.loop, mdAbsF, mdRelF, hi]

end md

/-- **the range hypothesis of the converter's map**: `size`, `outSize` finite, `2^-20 ≤ |size| ≤ 2^20`,
    `|outSize| ≤ 2^20` -/
structure MdOK (size outSize : F32) : Prop where
  fs : Fn size
  fo : Fn outSize
  s_lo : 1 / 1048576 ≤ |val size|
  s_hi : |val size| ≤ 1048576
  o_hi : |val outSize| ≤ 1048576

/-- a converter operand or offset in range: finite, magnitude at most `2^20` -/
def MdOp (x : F32) : Prop := Fn x ∧ |val x| ≤ 1048576

variable {size outSize : F32}

theorem MdOK.ratio (h : MdOK size outSize) : val size ≠ 0 ∧ |val outSize / val size| ≤ 1099511627776 := by
  have hs : 0 < |val size| := lt_of_lt_of_le (by norm_num) h.s_lo
  refine ⟨abs_pos.1 hs, ?_⟩
  rw [abs_div, div_le_iff₀ hs]
  have := h.o_hi
  have := h.s_lo
  linarith

/-- the rounded scale factor `fl(outSize / size)` -/
theorem md_scale_err (h : MdOK size outSize) :
    Fn (outSize / size) ∧
    |val (outSize / size) - val outSize / val size| ≤ u * |val outSize / val size| + tiny := by
  obtain ⟨h0, hk⟩ := h.ratio
  exact div_mix h.fo h.fs h0 (le_maxv (by linarith))

/-- **`md_rel_f32`**: a relative operand of the converter is `fl(x · fl(outSize/size))` — two roundings: within
    `3u·|x·outSize/size| + 2^21·2^-150` of the exact `x·outSize/size` -/
theorem md_rel_f32 (h : MdOK size outSize) {x : F32} (hx : MdOp x) :
    Fn (mdRelF size outSize x) ∧
    |val (mdRelF size outSize x) - val x * (val outSize / val size)| ≤
      (2 * u + u * u) * |val x * (val outSize / val size)| + 2097152 * tiny := by
  have hu : u = 1 / 16777216 := rfl
  obtain ⟨h0, hk⟩ := h.ratio
  obtain ⟨fk, ek⟩ := md_scale_err h
  have ht0 := tiny_pos
  have ht1 := tiny_le_one
  have hK0 := abs_nonneg (val outSize / val size)
  have hX0 := abs_nonneg (val x)
  have sk : |val (outSize / size)| ≤ (1 + u) * |val outSize / val size| + tiny := mix_abs_le ek
  have bk : |val (outSize / size)| ≤ 2199023255552 := by rw [hu] at sk; linarith
  have bxk : |val x * val (outSize / size)| ≤ 1048576 * 2199023255552 := by
    rw [abs_mul]; exact mul_le_mul hx.2 bk (abs_nonneg _) (by norm_num)
  obtain ⟨fp, ep⟩ := mul_mix hx.1 fk (le_maxv (by linarith))
  refine ⟨fp, ?_⟩
  change |val (x * (outSize / size)) - _| ≤ _
  have t1 := abs_sub_le (val (x * (outSize / size))) (val x * val (outSize / size))
    (val x * (val outSize / val size))
  have e1 : val x * val (outSize / size) - val x * (val outSize / val size) =
      val x * (val (outSize / size) - val outSize / val size) := by ring
  rw [e1, abs_mul (val x) (val (outSize / size) - _)] at t1
  have m1 : |val x| * |val (outSize / size) - val outSize / val size| ≤
      |val x| * (u * |val outSize / val size| + tiny) := mul_le_mul_of_nonneg_left ek hX0
  have m2 : |val x * val (outSize / size)| ≤ |val x| * ((1 + u) * |val outSize / val size| + tiny) := by
    rw [abs_mul]; exact mul_le_mul_of_nonneg_left sk hX0
  have m3 : |val x| * tiny ≤ 1048576 * tiny := mul_le_mul_of_nonneg_right hx.2 ht0.le
  rw [abs_mul (val x) (val outSize / val size)]
  have e2 : |val x| * (u * |val outSize / val size| + tiny) =
      u * (|val x| * |val outSize / val size|) + |val x| * tiny := by ring
  have e3 : |val x| * ((1 + u) * |val outSize / val size| + tiny) =
      (1 + u) * (|val x| * |val outSize / val size|) + |val x| * tiny := by ring
  rw [e2] at m1
  rw [e3] at m2
  have hXK0 : 0 ≤ |val x| * |val outSize / val size| := mul_nonneg hX0 hK0
  rw [hu] at ep m1 m2 ⊢
  linarith

/-- **`md_abs_f32`**: an absolute operand of the converter is
    `fl(fl(fl(x · fl(outSize/size)) − fl(outSize/2)) − off)` — five roundings: within
    `5u·(|x·outSize/size| + |outSize/2| + |off|) + 2^22·2^-150` of the exact `x·outSize/size − outSize/2 − off`.
    The error is relative to the SUM of the three magnitudes: a coordinate that the shift brings close to zero
    keeps the absolute accuracy of its summands. -/
theorem md_abs_f32 (h : MdOK size outSize) {x off : F32} (hx : MdOp x) (ho : MdOp off) :
    Fn (mdAbsF size outSize off x) ∧
    |val (mdAbsF size outSize off x) - (val x * (val outSize / val size) - val outSize / 2 - val off)| ≤
      5 * u * (|val x * (val outSize / val size)| + |val outSize / 2| + |val off|) + 4194304 * tiny := by
  have hu : u = 1 / 16777216 := rfl
  obtain ⟨h0, hk⟩ := h.ratio
  obtain ⟨fp, ep⟩ := md_rel_f32 h hx
  change Fn (x * (outSize / size)) at fp
  change |val (x * (outSize / size)) - _| ≤ _ at ep
  obtain ⟨f2, v2⟩ := ofInt_val 2 (by decide)
  have v2' : val (F32.ofInt 2) = 2 := by rw [v2]; norm_num
  have ht0 := tiny_pos
  have ht1 := tiny_le_one
  have hH : |val outSize / 2| ≤ 524288 := by
    rw [abs_div, show |(2:ℚ)| = 2 by norm_num]; have := h.o_hi; linarith
  obtain ⟨fh, eh⟩ := div_mix h.fo f2 (by rw [v2']; norm_num) (le_maxv (by rw [v2']; linarith))
  rw [v2'] at eh
  have hP : |val x * (val outSize / val size)| ≤ 1048576 * 1099511627776 := by
    rw [abs_mul]; exact mul_le_mul hx.2 hk (abs_nonneg _) (by norm_num)
  have hP0 := abs_nonneg (val x * (val outSize / val size))
  have hH0 := abs_nonneg (val outSize / 2)
  have hF0 := abs_nonneg (val off)
  -- sizes
  have sp := abs_sub_abs_le_abs_sub (val (x * (outSize / size))) (val x * (val outSize / val size))
  have sh := abs_sub_abs_le_abs_sub (val (outSize / F32.ofInt 2)) (val outSize / 2)
  have t1 := abs_sub (val (x * (outSize / size))) (val (outSize / F32.ofInt 2))
  have bq : |val (x * (outSize / size)) - val (outSize / F32.ofInt 2)| ≤ maxv := by
    apply le_maxv; rw [hu] at ep eh; linarith
  obtain ⟨fq, eq⟩ := sub_err fp fh bq
  have t2 := abs_sub_le (val (x * (outSize / size) - outSize / F32.ofInt 2))
    (val (x * (outSize / size)) - val (outSize / F32.ofInt 2))
    (val x * (val outSize / val size) - val outSize / 2)
  have t2' : |val (x * (outSize / size)) - val (outSize / F32.ofInt 2) -
      (val x * (val outSize / val size) - val outSize / 2)| ≤
      |val (x * (outSize / size)) - val x * (val outSize / val size)| +
        |val (outSize / F32.ofInt 2) - val outSize / 2| := by
    have e : val (x * (outSize / size)) - val (outSize / F32.ofInt 2) -
        (val x * (val outSize / val size) - val outSize / 2) =
        (val (x * (outSize / size)) - val x * (val outSize / val size)) -
          (val (outSize / F32.ofInt 2) - val outSize / 2) := by ring
    rw [e]; exact abs_sub _ _
  have t3 := abs_sub (val x * (val outSize / val size)) (val outSize / 2)
  have sq := abs_sub_abs_le_abs_sub (val (x * (outSize / size) - outSize / F32.ofInt 2))
    (val x * (val outSize / val size) - val outSize / 2)
  have t4 := abs_sub (val (x * (outSize / size) - outSize / F32.ofInt 2)) (val off)
  have br : |val (x * (outSize / size) - outSize / F32.ofInt 2) - val off| ≤ maxv := by
    apply le_maxv; have := ho.2; rw [hu] at ep eh eq; linarith
  obtain ⟨fr, er⟩ := sub_err fq ho.1 br
  refine ⟨fr, ?_⟩
  change |val (x * (outSize / size) - outSize / F32.ofInt 2 - off) - _| ≤ _
  have t5 := abs_sub_le (val (x * (outSize / size) - outSize / F32.ofInt 2 - off))
    (val (x * (outSize / size) - outSize / F32.ofInt 2) - val off)
    (val x * (val outSize / val size) - val outSize / 2 - val off)
  have e5 : val (x * (outSize / size) - outSize / F32.ofInt 2) - val off -
      (val x * (val outSize / val size) - val outSize / 2 - val off) =
      val (x * (outSize / size) - outSize / F32.ofInt 2) -
        (val x * (val outSize / val size) - val outSize / 2) := by ring
  rw [e5] at t5
  rw [hu] at ep eh eq er ⊢
  linarith

/-! ## the converter's circles (`parsepath.go`: `cx*outSize/size − (outSize/2 + off)`, another association) -/

/-- a circle's radius as computed: `r * outSize / size` -/
def mdCircR (size outSize a : F32) : F32 := a * outSize / size
/-- a circle's centre coordinate as computed: `c * outSize / size − (outSize/2 + off)` -/
def mdCircF (size outSize off a : F32) : F32 := a * outSize / size - (outSize / F32.ofInt 2 + off)

/-- **`md_circle_r_f32`**: `fl(fl(x·outSize) / size)` — two roundings: within
    `(2u + u²)·|x·outSize/size| + 2^21·2^-150` of `x·outSize/size` -/
theorem md_circle_r_f32 (h : MdOK size outSize) {x : F32} (hx : MdOp x) :
    Fn (mdCircR size outSize x) ∧
    |val (mdCircR size outSize x) - val x * val outSize / val size| ≤
      (2 * u + u * u) * |val x * val outSize / val size| + 2097152 * tiny := by
  have hu : u = 1 / 16777216 := rfl
  obtain ⟨h0, _⟩ := h.ratio
  have hs : 0 < |val size| := abs_pos.2 h0
  have ht0 := tiny_pos
  have ht1 := tiny_le_one
  have bxo : |val x * val outSize| ≤ 1048576 * 1048576 := by
    rw [abs_mul]; exact mul_le_mul hx.2 h.o_hi (abs_nonneg _) (by norm_num)
  obtain ⟨fp, ep⟩ := mul_mix hx.1 h.fo (le_maxv (by linarith))
  have sp := mix_abs_le ep
  have hinv : 1 / |val size| ≤ 1048576 := by
    rw [div_le_iff₀ hs]; have := h.s_lo; linarith
  have hinv0 : 0 ≤ 1 / |val size| := by positivity
  have bp : |val (x * outSize)| ≤ 2199023255552 := by rw [hu] at sp; linarith
  have bq : |val (x * outSize) / val size| ≤ 2199023255552 * 1048576 := by
    rw [abs_div, div_eq_mul_one_div]
    exact mul_le_mul bp hinv hinv0 (by norm_num)
  obtain ⟨fq, eq⟩ := div_mix fp h.fs h0 (le_maxv (by linarith))
  refine ⟨fq, ?_⟩
  change |val (x * outSize / size) - _| ≤ _
  have t1 := abs_sub_le (val (x * outSize / size)) (val (x * outSize) / val size) (val x * val outSize / val size)
  have e1 : val (x * outSize) / val size - val x * val outSize / val size =
      (val (x * outSize) - val x * val outSize) * (1 / val size) := by ring
  have hinvs : |1 / val size| = 1 / |val size| := by rw [abs_div, abs_one]
  rw [e1, abs_mul, hinvs] at t1
  have m1 : |val (x * outSize) - val x * val outSize| * (1 / |val size|) ≤
      (u * |val x * val outSize| + tiny) * (1 / |val size|) := mul_le_mul_of_nonneg_right ep hinv0
  have e2 : |val (x * outSize) / val size| = |val (x * outSize)| * (1 / |val size|) := by
    rw [abs_div, div_eq_mul_one_div]
  have m2 : |val (x * outSize)| * (1 / |val size|) ≤ ((1 + u) * |val x * val outSize| + tiny) * (1 / |val size|) :=
    mul_le_mul_of_nonneg_right sp hinv0
  have e3 : |val x * val outSize / val size| = |val x * val outSize| * (1 / |val size|) := by
    rw [abs_div, div_eq_mul_one_div]
  rw [e2] at eq
  rw [e3]
  have m3 : tiny * (1 / |val size|) ≤ tiny * 1048576 := mul_le_mul_of_nonneg_left hinv ht0.le
  have e4 : (u * |val x * val outSize| + tiny) * (1 / |val size|) =
      u * (|val x * val outSize| * (1 / |val size|)) + tiny * (1 / |val size|) := by ring
  have e5 : ((1 + u) * |val x * val outSize| + tiny) * (1 / |val size|) =
      (1 + u) * (|val x * val outSize| * (1 / |val size|)) + tiny * (1 / |val size|) := by ring
  rw [e4] at m1
  rw [e5] at m2
  have g0 : 0 ≤ |val x * val outSize| * (1 / |val size|) := mul_nonneg (abs_nonneg _) hinv0
  have m4 : u * (|val (x * outSize)| * (1 / |val size|)) ≤
      u * ((1 + u) * (|val x * val outSize| * (1 / |val size|)) + tiny * (1 / |val size|)) :=
    mul_le_mul_of_nonneg_left m2 u_pos.le
  rw [hu] at eq m1 m4 ⊢
  linarith

/-- **`md_circle_f32`**: a circle's centre coordinate
    `fl(fl(fl(x·outSize) / size) − fl(fl(outSize/2) + off))` — five roundings: within
    `5u·(|x·outSize/size| + |outSize/2| + |off|) + 2^22·2^-150` of `x·outSize/size − (outSize/2 + off)` -/
theorem md_circle_f32 (h : MdOK size outSize) {x off : F32} (hx : MdOp x) (ho : MdOp off) :
    Fn (mdCircF size outSize off x) ∧
    |val (mdCircF size outSize off x) - (val x * val outSize / val size - (val outSize / 2 + val off))| ≤
      5 * u * (|val x * val outSize / val size| + |val outSize / 2| + |val off|) + 4194304 * tiny := by
  have hu : u = 1 / 16777216 := rfl
  obtain ⟨h0, hk⟩ := h.ratio
  obtain ⟨fq, eq⟩ := md_circle_r_f32 h hx
  change Fn (x * outSize / size) at fq
  change |val (x * outSize / size) - _| ≤ _ at eq
  obtain ⟨f2, v2⟩ := ofInt_val 2 (by decide)
  have v2' : val (F32.ofInt 2) = 2 := by rw [v2]; norm_num
  have ht0 := tiny_pos
  have ht1 := tiny_le_one
  have hH : |val outSize / 2| ≤ 524288 := by
    rw [abs_div, show |(2:ℚ)| = 2 by norm_num]; have := h.o_hi; linarith
  obtain ⟨fh, eh⟩ := div_mix h.fo f2 (by rw [v2']; norm_num) (le_maxv (by rw [v2']; linarith))
  rw [v2'] at eh
  have hP : |val x * val outSize / val size| ≤ 1048576 * 1099511627776 := by
    have e : val x * val outSize / val size = val x * (val outSize / val size) := by ring
    rw [e, abs_mul]; exact mul_le_mul hx.2 hk (abs_nonneg _) (by norm_num)
  have hP0 := abs_nonneg (val x * val outSize / val size)
  have hH0 := abs_nonneg (val outSize / 2)
  have hF0 := abs_nonneg (val off)
  have hF := ho.2
  have sq := abs_sub_abs_le_abs_sub (val (x * outSize / size)) (val x * val outSize / val size)
  have sh := abs_sub_abs_le_abs_sub (val (outSize / F32.ofInt 2)) (val outSize / 2)
  -- w = fl(h + off)
  have t1 := abs_add_le (val (outSize / F32.ofInt 2)) (val off)
  have bw : |val (outSize / F32.ofInt 2) + val off| ≤ maxv := by
    apply le_maxv; rw [hu] at eh; linarith
  obtain ⟨fw, ew⟩ := add_err fh ho.1 bw
  have t2 := abs_sub_le (val (outSize / F32.ofInt 2 + off)) (val (outSize / F32.ofInt 2) + val off)
    (val outSize / 2 + val off)
  have e2 : val (outSize / F32.ofInt 2) + val off - (val outSize / 2 + val off) =
      val (outSize / F32.ofInt 2) - val outSize / 2 := by ring
  rw [e2] at t2
  have t3 := abs_add_le (val outSize / 2) (val off)
  have sw := abs_sub_abs_le_abs_sub (val (outSize / F32.ofInt 2 + off)) (val outSize / 2 + val off)
  -- r = fl(q − w)
  have t4 := abs_sub (val (x * outSize / size)) (val (outSize / F32.ofInt 2 + off))
  have br : |val (x * outSize / size) - val (outSize / F32.ofInt 2 + off)| ≤ maxv := by
    apply le_maxv; rw [hu] at eq eh ew; linarith
  obtain ⟨fr, er⟩ := sub_err fq fw br
  refine ⟨fr, ?_⟩
  change |val (x * outSize / size - (outSize / F32.ofInt 2 + off)) - _| ≤ _
  have t5 := abs_sub_le (val (x * outSize / size - (outSize / F32.ofInt 2 + off)))
    (val (x * outSize / size) - val (outSize / F32.ofInt 2 + off))
    (val x * val outSize / val size - (val outSize / 2 + val off))
  have t6 : |val (x * outSize / size) - val (outSize / F32.ofInt 2 + off) -
      (val x * val outSize / val size - (val outSize / 2 + val off))| ≤
      |val (x * outSize / size) - val x * val outSize / val size| +
        |val (outSize / F32.ofInt 2 + off) - (val outSize / 2 + val off)| := by
    have e : val (x * outSize / size) - val (outSize / F32.ofInt 2 + off) -
        (val x * val outSize / val size - (val outSize / 2 + val off)) =
        (val (x * outSize / size) - val x * val outSize / val size) -
          (val (outSize / F32.ofInt 2 + off) - (val outSize / 2 + val off)) := by ring
    rw [e]; exact abs_sub _ _
  rw [hu] at eq eh ew er ⊢
  linarith

/-- the calls of one circle in terms of the two maps (then `cx − r`: one more rounded subtraction; `±2·r`: exact) -/
theorem circleCalls_f32 (size offX offY outSize : F32) (adj : UInt8) (needStart : Bool) (c : Md.Circle F32) :
    GenQ.MdG.circleCalls size offX offY outSize adj needStart c =
      (let cx := mdCircF size outSize offX c.cx
       let cy := mdCircF size outSize offY c.cy
       let r := mdCircR size outSize c.r
       [if needStart then Call.startPath adj (cx - r) cy else Call.d2 .Y (cx - r) cy,
        .arc true r r (F32.ofInt 0) false true (F32.ofInt 2 * r) (F32.ofInt 0),
        .arc true r r (F32.ofInt 0) false true (F32.ofInt (-2) * r) (F32.ofInt 0)]) := rfl

end Ivg.Xf32
