import Ivg.Model.Decoder
import Ivg.Model.Renderer
import Ivg.Lemmas.RendererVM
/-!
# Palette options of `decode.Decode` (C14)

`Dec.applyOptions` mirrors decode.go:127–137: the options are applied in order (a left fold of
`applyOption`) to the metadata decoded from the file, and — only when at least one option was given —
every entry that is not a valid premultiplied colour is then replaced by opaque black.
-/
namespace Ivg.Lemmas.Options
open Ivg Ivg.Dec

/-- what sanitising does to one entry -/
def san (c : RGBA) : RGBA := if c.validPremul then c else RGBA.black

/-- the metadata after the options, before sanitising -/
def raw (m : Metadata) (opts : List DecodeOption) : Metadata := opts.foldl applyOption m

theorem black_valid : RGBA.black.validPremul = true := by decide

theorem san_valid (c : RGBA) : (san c).validPremul = true := by
  unfold san; split
  · assumption
  · exact black_valid

theorem san_of_valid {c : RGBA} (h : c.validPremul = true) : san c = c := by
  unfold san; rw [if_pos h]

theorem san_of_invalid {c : RGBA} (h : c.validPremul = false) : san c = RGBA.black := by
  unfold san; rw [if_neg (by rw [h]; exact Bool.false_ne_true)]

theorem sanitize_get (p : Palette) (j : Nat) (hj : j < 64) : (sanitizePalette p)[j] = san p[j] := by
  simp only [sanitizePalette, Vector.getElem_map, san]

theorem set6_ofNat_get (p : Palette) (i : Nat) (hi : i < 64) (c : RGBA) (j : Nat) (hj : j < 64) :
    (p.set6 (UInt8.ofNat i) c)[j] = if i = j then c else p[j] := by
  have h : (UInt8.ofNat i).toNat % 64 = i := by simp; omega
  simp only [Regs.set6, Vector.getElem_set, h]

/-! ## structure of `applyOptions` -/

theorem applyOptions_nil (m : Metadata) : applyOptions m [] = m := rfl

theorem applyOptions_ne_nil (m : Metadata) (opts : List DecodeOption) (h : opts ≠ []) :
    applyOptions m opts = { raw m opts with palette := sanitizePalette (raw m opts).palette } := by
  cases opts with
  | nil => exact absurd rfl h
  | cons o os => rfl

theorem applyOption_viewBox (m : Metadata) (o : DecodeOption) : (applyOption m o).viewBox = m.viewBox := by
  cases o with
  | withPalette p => rfl
  | withColorAt i c => simp only [applyOption]; split <;> rfl

theorem raw_viewBox (opts : List DecodeOption) : ∀ m : Metadata, (raw m opts).viewBox = m.viewBox := by
  induction opts with
  | nil => intro m; rfl
  | cons o os ih => intro m; exact (ih (applyOption m o)).trans (applyOption_viewBox m o)

/-- palette options never touch the viewBox -/
theorem applyOptions_viewBox (m : Metadata) (opts : List DecodeOption) :
    (applyOptions m opts).viewBox = m.viewBox := by
  cases opts with
  | nil => rfl
  | cons o os => exact raw_viewBox (o :: os) m

theorem raw_append (m : Metadata) (a b : List DecodeOption) : raw m (a ++ b) = raw (raw m a) b := by
  simp only [raw, List.foldl_append]

/-- the unsanitised palette after the options depends on the metadata only through its palette -/
theorem raw_palette_congr (opts : List DecodeOption) :
    ∀ m m' : Metadata, m.palette = m'.palette → (raw m opts).palette = (raw m' opts).palette := by
  induction opts with
  | nil => intro m m' h; exact h
  | cons o os ih =>
    intro m m' h
    apply ih
    cases o with
    | withPalette p => rfl
    | withColorAt i c => simp only [applyOption]; split <;> simp only [h]

/-! ## consequences -/

/-- user_sanitised: with at least one option, every entry of the resulting palette is the sanitised
    entry of the option-folded palette … -/
theorem applyOptions_get (m : Metadata) (opts : List DecodeOption) (h : opts ≠ []) (j : Nat) (hj : j < 64) :
    (applyOptions m opts).palette[j] = san (raw m opts).palette[j] := by
  rw [applyOptions_ne_nil m opts h]
  exact sanitize_get _ j hj

/-- … hence a valid premultiplied colour -/
theorem user_sanitised (m : Metadata) (opts : List DecodeOption) (h : opts ≠ []) (j : Nat) (hj : j < 64) :
    ((applyOptions m opts).palette[j]).validPremul = true := by
  rw [applyOptions_get m opts h j hj]; exact san_valid _

/-- A full replacement discards the suggested palette and everything before it: the result depends
    only on `p` and the later options. -/
theorem withPalette_discards (m m' : Metadata) (before before' after : List DecodeOption) (p : Palette) :
    (applyOptions m (before ++ .withPalette p :: after)).palette =
      (applyOptions m' (before' ++ .withPalette p :: after)).palette := by
  rw [applyOptions_ne_nil _ _ (by simp), applyOptions_ne_nil _ _ (by simp)]
  simp only [raw_append]
  congr 1
  exact raw_palette_congr after _ _ rfl

/-- `WithPalette p` as the last option: the custom palette is `p`, sanitised, whatever the file says -/
theorem withPalette_last (m : Metadata) (before : List DecodeOption) (p : Palette) :
    (applyOptions m (before ++ [.withPalette p])).palette = sanitizePalette p := by
  rw [applyOptions_ne_nil _ _ (by simp)]
  simp only [raw_append]
  rfl

/-- `WithColorAt i c` (`i < 64`) as the last option: entry `i` becomes `c` (sanitised) … -/
theorem withColorAt_entry (m : Metadata) (before : List DecodeOption) (i : Nat) (hi : i < 64) (c : RGBA) :
    (applyOptions m (before ++ [.withColorAt i c])).palette[i] = san c := by
  rw [applyOptions_get _ _ (by simp) i hi, raw_append]
  simp only [raw, List.foldl_cons, List.foldl_nil, applyOption, if_pos hi]
  rw [set6_ofNat_get _ i hi c i hi, if_pos rfl]

/-- … and every other entry is what it is without that option.  (Without any earlier option the
    palette is not sanitised by `Decode`; it is then the decoded suggested palette, whose entries are
    valid premultiplied colours: `decodeCore_palette_valid`.) -/
theorem withColorAt_others (m : Metadata) (before : List DecodeOption) (i : Nat) (hi : i < 64) (c : RGBA)
    (j : Nat) (hj : j < 64) (hij : j ≠ i)
    (h : before ≠ [] ∨ (m.palette[j]).validPremul = true) :
    (applyOptions m (before ++ [.withColorAt i c])).palette[j] = (applyOptions m before).palette[j] := by
  rw [applyOptions_get _ _ (by simp) j hj, raw_append]
  have h1 : (raw (raw m before) [.withColorAt i c]).palette[j] = (raw m before).palette[j] := by
    simp only [raw, List.foldl_cons, List.foldl_nil, applyOption, if_pos hi]
    rw [set6_ofNat_get _ i hi c j hj, if_neg (fun e => hij e.symm)]
  rw [h1]
  cases before with
  | nil =>
    rcases h with h | h
    · exact absurd rfl h
    · exact san_of_valid h
  | cons o os => exact (applyOptions_get m (o :: os) (by simp) j hj).symm

/-- `validPremul c → ¬ validGradient c`: a sanitised entry is never reinterpreted as a gradient -/
theorem never_gradient (c : RGBA) (h : c.validPremul = true) : c.validGradient = false := by
  simp only [RGBA.validPremul, Bool.and_eq_true, decide_eq_true_eq, UInt8.le_iff_toNat_le] at h
  simp only [RGBA.validGradient]
  by_cases ha : c.a = 0
  · have hb : c.b = 0 := by
      apply UInt8.toNat_inj.mp
      have := h.2; rw [ha] at this; simpa using this
    simp [ha, hb]
  · simp [ha]

/-! ## the palette `Decode` works with is always valid -/

theorem toRGBA_valid (c : Color) : (c.toRGBA.1).validPremul = true := by
  unfold Color.toRGBA
  split
  · exact black_valid
  · rename_i h
    simp only [not_or, Bool.not_eq_eq_eq_not] at h
    simpa using h.2

def AllValid (p : Palette) : Prop := ∀ (j : Nat) (hj : j < 64), (p[j]).validPremul = true

theorem allValid_default : AllValid defaultPalette := by
  intro j hj
  simp only [defaultPalette, Regs.const, Vector.getElem_replicate]
  exact black_valid

theorem allValid_set6 {p : Palette} (h : AllValid p) (i : UInt8) {c : RGBA} (hc : c.validPremul = true) :
    AllValid (p.set6 i c) := by
  intro j hj
  simp only [Regs.set6, Vector.getElem_set]
  split
  · exact hc
  · exact h j hj

theorem decodePaletteColors_valid (dec : Bytes → Option (Color × Bytes)) :
    ∀ (n i : Nat) (pal : Palette) (src : Bytes) (its : List Item) (pal' : Palette) (rest : Bytes),
      AllValid pal → decodePaletteColors dec n i pal src = some (its, pal', rest) → AllValid pal' := by
  intro n
  induction n with
  | zero =>
    intro i pal src its pal' rest hv h
    simp only [decodePaletteColors, Option.some.injEq, Prod.mk.injEq] at h
    obtain ⟨_, rfl, _⟩ := h
    exact hv
  | succ n ih =>
    intro i pal src its pal' rest hv h
    simp only [decodePaletteColors] at h
    split at h <;> try contradiction
    rename_i c r1 _
    split at h <;> try contradiction
    rename_i its1 pal1 rest1 h1
    simp only [Option.some.injEq, Prod.mk.injEq] at h
    obtain ⟨_, rfl, _⟩ := h
    exact ih _ _ _ _ _ _ (allValid_set6 hv _ (toRGBA_valid c)) h1


theorem decodeMetadataChunk_valid (m : Metadata) (minMID : Nat) (src : Bytes) (its : List Item)
    (m' : Metadata) (k : Nat) (rest : Bytes) (hv : AllValid m.palette)
    (h : decodeMetadataChunk m minMID src = (its, .ok (m', k, rest))) : AllValid m'.palette := by
  unfold decodeMetadataChunk at h
  split at h
  · cases h
  · split at h
    · cases h
    · dsimp only at h
      split at h
      · cases h
      · split at h
        · cases h
        · split at h
          · split at h
            · split at h
              · cases h
              · split at h
                · cases h
                · simp only [Prod.mk.injEq, Except.ok.injEq] at h
                  obtain ⟨_, rfl, _⟩ := h
                  exact hv
            · cases h
          · split at h
            · cases h
            · split at h
              · cases h
              · rename_i hp
                split at h
                · cases h
                · simp only [Prod.mk.injEq, Except.ok.injEq] at h
                  obtain ⟨_, rfl, _⟩ := h
                  exact decodePaletteColors_valid _ _ _ _ _ _ _ _ hv hp


theorem decodeChunks_valid :
    ∀ (fuel n : Nat) (m : Metadata) (minMID : Nat) (src : Bytes) (its : List Item) (m' : Metadata)
      (rest : Bytes), AllValid m.palette → decodeChunks fuel n m minMID src = (its, .ok (m', rest)) →
      AllValid m'.palette := by
  intro fuel
  induction fuel with
  | zero =>
    intro n m minMID src its m' rest hv h
    cases n with
    | zero =>
      simp only [decodeChunks, Prod.mk.injEq, Except.ok.injEq] at h
      obtain ⟨_, rfl, _⟩ := h; exact hv
    | succ n => simp [decodeChunks] at h
  | succ fuel ih =>
    intro n m minMID src its m' rest hv h
    cases n with
    | zero =>
      simp only [decodeChunks, Prod.mk.injEq, Except.ok.injEq] at h
      obtain ⟨_, rfl, _⟩ := h; exact hv
    | succ n =>
      simp only [decodeChunks] at h
      split at h
      · cases h
      · rename_i its1 m1 k1 rest1 h1
        simp only [Prod.mk.injEq] at h
        exact ih _ _ _ _ _ _ _ (decodeMetadataChunk_valid _ _ _ _ _ _ _ hv h1) (Prod.ext rfl h.2)

theorem applyOptions_valid (m : Metadata) (opts : List DecodeOption) (hv : AllValid m.palette) :
    AllValid (applyOptions m opts).palette := by
  cases opts with
  | nil => exact hv
  | cons o os => intro j hj; exact user_sanitised m (o :: os) (by simp) j hj

/-- The palette `Decode` ends up with — the one handed to `Destination.Reset`, which seeds
    palette-indexed colours and the initial `CREG` — consists of valid premultiplied colours, for
    every input and every option list: the suggested palette is sanitised entry by entry while it
    is decoded (`Color.RGBA()`), user-supplied palettes after the options are applied. -/
theorem decodeCore_palette_valid (metadataOnly : Bool) (m0 : Metadata) (hv : AllValid m0.palette)
    (opts : List DecodeOption) (src : Bytes) :
    AllValid (decodeCore metadataOnly m0 opts src).2.palette := by
  unfold decodeCore
  split
  · exact hv
  · dsimp only
    split
    · exact hv
    · split
      · exact hv
      · rename_i its m src3 h
        have hm := decodeChunks_valid _ _ _ _ _ _ _ _ hv h
        split
        · exact applyOptions_valid m opts hm
        · exact applyOptions_valid m opts hm


/-- The options are applied to the metadata decoded from the file ("on top of the suggested palette
    after the metadata is decoded"): whenever the metadata decodes without error, the metadata `Decode`
    works with is `applyOptions` of the metadata decoded without options. -/
theorem decodeCore_options (metadataOnly : Bool) (m0 : Metadata) (opts : List DecodeOption) (src : Bytes)
    (h : (decodeCore true m0 [] src).1.err = none) :
    (decodeCore metadataOnly m0 opts src).2 = applyOptions (decodeCore true m0 [] src).2 opts := by
  unfold decodeCore at h ⊢
  by_cases hm : List.take 4 src ≠ Enc.magic
  · simp only [if_pos hm] at h; cases h
  · simp only [if_neg hm] at h ⊢
    cases hn : decodeNatural (List.drop 4 src) with
    | none => simp only [hn] at h; cases h
    | some t =>
      obtain ⟨n, k, src2⟩ := t
      simp only [hn] at h ⊢
      cases hc : decodeChunks (src2.length + 1) n m0 0 src2 with
      | mk its r =>
        cases r with
        | error e => simp only [hc] at h; cases h
        | ok v =>
          obtain ⟨m, src3⟩ := v
          simp only [applyOptions_nil, if_true]
          cases metadataOnly <;> simp

/-- … and `Decode` hands exactly that metadata (viewBox and option-folded, sanitised palette) to
    `Destination.Reset`, before any instruction is decoded. -/
theorem decodeCore_reset (m0 : Metadata) (opts : List DecodeOption) (src : Bytes)
    (h : (decodeCore true m0 [] src).1.err = none) :
    ∃ pre post,
      (decodeCore false m0 opts src).1.items =
        pre ++ .call (.reset (decodeCore false m0 opts src).2.viewBox (decodeCore false m0 opts src).2.palette)
          :: post ∧
      (decodeCore true m0 [] src).1.items = pre := by
  unfold decodeCore at h ⊢
  by_cases hm : List.take 4 src ≠ Enc.magic
  · simp only [if_pos hm] at h; cases h
  · simp only [if_neg hm] at h ⊢
    cases hn : decodeNatural (List.drop 4 src) with
    | none => simp only [hn] at h; cases h
    | some t =>
      obtain ⟨n, k, src2⟩ := t
      simp only [hn] at h ⊢
      cases hc : decodeChunks (src2.length + 1) n m0 0 src2 with
      | mk its r =>
        cases r with
        | error e => simp only [hc] at h; cases h
        | ok v =>
          obtain ⟨m, src3⟩ := v
          simp only [applyOptions_nil, if_true, Bool.false_eq_true, if_false]
          exact ⟨_, (loop (src3.length + 1) .styling src3).1, by simp, rfl⟩

/-! ## what the palette seeds -/

open Ivg.Ren Ivg.Spec.VM Ivg.Lemmas.RendererVM in
/-- `Reset` seeds both the palette (palette-indexed colours) and the initial colour registers of the
    Renderer with the palette it is given -/
theorem seeds_registers {α β : Type} [Arith α] [Arith β] [Wide α β] (z : Renderer α β) (posInf : α)
    (vb : ViewBox α) (pal : Palette) :
    (z.reset posInf vb pal).cReg = pal ∧ (z.reset posInf vb pal).palette = pal ∧
      absVM (z.reset posInf vb pal) = VM.init posInf pal :=
  ⟨rfl, rfl, abs_reset z posInf vb pal⟩

open Ivg.Spec.VM Ivg.Lemmas.RendererVM in
/-- with a valid palette, every register of the initial machine state holds a premultiplied colour,
    so a path painted from an untouched register is flat (or transparent / out of LOD range): never a
    gradient -/
theorem palette_paint_flat {α : Type} [Arith α] (posInf : α) (pal : Palette) (hv : AllValid pal)
    (H : Int) (adj : UInt8) :
    (VM.init posInf pal).paintChoice H adj = none ∨
      (VM.init posInf pal).paintChoice H adj =
        some (.flat ((VM.init posInf pal).cReg (sub (VM.init posInf pal).cSel adj))) := by
  apply premul_paint_flat
  exact (validPremul_iff _).mp (hv _ (sub (VM.init posInf pal).cSel adj).isLt)

end Ivg.Lemmas.Options
