import Ivg.Lemmas.Grad64f
import Ivg.Lemmas.Grad64e
import Mathlib.Algebra.Order.Round
/-!
# The gradient paint at float64, strictly inside a range: the delivered channel, and the tie to `Gradient.at`

* `floor_near`      : `|R − C| ≤ ε < 1` ⟹ `⌊R⌋ = ⌊C⌋`, or `⌊R⌋ = ⌊C⌋ + 1` and `C` is within `ε` BELOW the integer
                      `⌊C⌋ + 1`, or `⌊R⌋ + 1 = ⌊C⌋` and `C` is within `ε` ABOVE the integer `⌊C⌋`;
* `Near ch C ε`     : that statement about a delivered channel `ch`; `Near.round`: the form
                      `ch = ⌊C⌋ ∨ (|C − round C| ≤ ε ∧ (ch = ⌊C⌋ + 1 ∨ ch + 1 = ⌊C⌋))`;
* `channel_err`     : (3) for one range: `Near (lerpChan s t c0 c1) C (epsChan c0 c1)`;
* `channel_const`   : a constant channel (`c0 = c1 = c`) is delivered as `c` or as `c − 1` (and `c − 1` occurs:
                      `Ex.opaque_not_opaque`);
* `at_err_f64`      : the same about `Gradient.at` of a gradient made by `Gradient.init` from a valid stop list;
* `renderer_gradient_err_f64` : … and of every gradient the float renderer paints with (`initGradient`).
-/
namespace Ivg.Grad64
open Ivg Num Grad Ren FloatOrder FloatMono FloatRound FloatErr64
open Ivg.Spec.Grad (lerp)

/-! ## truncation of a perturbed value -/

theorem floor_near (R C ε : ℚ) (h : |R - C| ≤ ε) (hε : ε < 1) :
    ⌊R⌋ = ⌊C⌋ ∨ (⌊R⌋ = ⌊C⌋ + 1 ∧ ((⌊C⌋ : ℚ) + 1) - C ≤ ε) ∨ (⌊R⌋ + 1 = ⌊C⌋ ∧ C - (⌊C⌋ : ℚ) ≤ ε) := by
  obtain ⟨h1, h2⟩ := abs_le.1 h
  have r1 := Int.floor_le R
  have r2 := Int.lt_floor_add_one R
  have c1 := Int.floor_le C
  have c2 := Int.lt_floor_add_one C
  rcases lt_trichotomy ⌊R⌋ ⌊C⌋ with hlt | heq | hgt
  · right; right
    have hle : ⌊R⌋ + 1 ≤ ⌊C⌋ := hlt
    have hq : ((⌊R⌋ : ℚ)) + 1 ≤ (⌊C⌋ : ℚ) := by exact_mod_cast hle
    have hge : ⌊C⌋ < ⌊R⌋ + 2 := by
      have : ((⌊C⌋ : ℚ)) < (⌊R⌋ : ℚ) + 2 := by linarith
      exact_mod_cast this
    have e : ⌊R⌋ + 1 = ⌊C⌋ := by omega
    refine ⟨e, ?_⟩
    have : ((⌊C⌋ : ℚ)) = (⌊R⌋ : ℚ) + 1 := by exact_mod_cast e.symm
    linarith
  · exact Or.inl heq
  · right; left
    have hle : ⌊C⌋ + 1 ≤ ⌊R⌋ := hgt
    have hq : ((⌊C⌋ : ℚ)) + 1 ≤ (⌊R⌋ : ℚ) := by exact_mod_cast hle
    have hge : ⌊R⌋ < ⌊C⌋ + 2 := by
      have : ((⌊R⌋ : ℚ)) < (⌊C⌋ : ℚ) + 2 := by linarith
      exact_mod_cast this
    have e : ⌊R⌋ = ⌊C⌋ + 1 := by omega
    refine ⟨e, ?_⟩
    have : ((⌊R⌋ : ℚ)) = (⌊C⌋ : ℚ) + 1 := by exact_mod_cast e
    linarith

/-- the delivered channel `ch` against the exact value `C`: it is the integer part of `C`; or one more, and then
    `C` is at most `ε` below that integer; or one less, and then `C` is at most `ε` above its integer part -/
def Near (ch : Nat) (C ε : ℚ) : Prop :=
  (ch : Int) = ⌊C⌋ ∨ ((ch : Int) = ⌊C⌋ + 1 ∧ ((⌊C⌋ : ℚ) + 1) - C ≤ ε) ∨ ((ch : Int) + 1 = ⌊C⌋ ∧ C - (⌊C⌋ : ℚ) ≤ ε)

theorem Near.mono {ch : Nat} {C ε ε' : ℚ} (h : Near ch C ε) (hε : ε ≤ ε') : Near ch C ε' := by
  rcases h with h | ⟨h, e⟩ | ⟨h, e⟩
  · exact Or.inl h
  · exact Or.inr (Or.inl ⟨h, le_trans e hε⟩)
  · exact Or.inr (Or.inr ⟨h, le_trans e hε⟩)

/-- the form with the nearest integer: a channel that is not `⌊C⌋` differs from it by one, and `C` is within
    `ε` of an integer -/
theorem Near.round {ch : Nat} {C ε : ℚ} (h : Near ch C ε) :
    (ch : Int) = ⌊C⌋ ∨ (|C - (round C : ℚ)| ≤ ε ∧ ((ch : Int) = ⌊C⌋ + 1 ∨ (ch : Int) + 1 = ⌊C⌋)) := by
  have c1 := Int.floor_le C
  have c2 := Int.lt_floor_add_one C
  rcases h with h | ⟨h, e⟩ | ⟨h, e⟩
  · exact Or.inl h
  · right
    refine ⟨le_trans (round_le C (⌊C⌋ + 1)) ?_, Or.inl h⟩
    push_cast
    rw [abs_le]; constructor <;> linarith
  · right
    refine ⟨le_trans (round_le C ⌊C⌋) ?_, Or.inr h⟩
    rw [abs_le]; constructor <;> linarith

/-- `ch` within one of `⌊C⌋`, in any case -/
theorem Near.within_one {ch : Nat} {C ε : ℚ} (h : Near ch C ε) : ⌊C⌋ - 1 ≤ (ch : Int) ∧ (ch : Int) ≤ ⌊C⌋ + 1 := by
  rcases h with h | ⟨h, _⟩ | ⟨h, _⟩ <;> omega

/-- if `C` is farther than `ε` from every integer, the channel is exactly `⌊C⌋` -/
theorem Near.exact {ch : Nat} {C ε : ℚ} (h : Near ch C ε) (h1 : ε < C - (⌊C⌋ : ℚ)) (h2 : ε < ((⌊C⌋ : ℚ) + 1) - C) :
    (ch : Int) = ⌊C⌋ := by
  rcases h with h | ⟨_, e⟩ | ⟨_, e⟩
  · exact h
  · linarith
  · linarith

/-! ## (3) one range -/

theorem epsChan_lt_one (c0 c1 : Nat) (h0 : c0 < 65536) (h1 : c1 < 65536) : epsChan c0 c1 < 1 := by
  have := epsChan_le c0 c1 h0 h1
  have := eps_small
  linarith

/-- **(3)** for one range: the delivered channel is `⌊C⌋`, or `⌊C⌋ ± 1` with `C` within `epsChan c0 c1` of the
    integer in question -/
theorem channel_err {r : Range F64} (h : RangeOK r) (x : F64) (h0 : r.offset0 ≤ x) (h1 : x ≤ r.offset1)
    (c0 c1 : Nat) (hc0 : c0 < 65536) (hc1 : c1 < 65536) :
    Near (lerpChan (α := F32) (sOf r x) (tOf r x) c0 c1) (Cex r x c0 c1) (epsChan c0 c1) := by
  obtain ⟨ft, t0, _, fs, s0, _, hst⟩ := t_facts h x h0 h1
  have hf := lerpChan_floor _ _ fs ft s0 t0 hst c0 c1 hc0 hc1
  have he := chan_err h x h0 h1 c0 c1 hc0 hc1
  unfold Near
  rw [hf]
  exact floor_near _ _ _ he (epsChan_lt_one c0 c1 hc0 hc1)

theorem Cex_const (r : Range F64) (x : F64) (c : Nat) : Cex r x c c = (c : ℚ) := by
  unfold Cex; ring

/-- a constant channel (`c0 = c1 = c`, e.g. the alpha of two opaque stops) is delivered as `c` — or as `c − 1` -/
theorem channel_const {r : Range F64} (h : RangeOK r) (x : F64) (h0 : r.offset0 ≤ x) (h1 : x ≤ r.offset1)
    (c : Nat) (hc : c < 65536) :
    lerpChan (α := F32) (sOf r x) (tOf r x) c c = c ∨ lerpChan (α := F32) (sOf r x) (tOf r x) c c + 1 = c := by
  have hn := channel_err h x h0 h1 c c hc hc
  rw [Cex_const] at hn
  have hfl : ⌊((c : Nat) : ℚ)⌋ = (c : Int) := Int.floor_natCast c
  rcases hn with e | ⟨_, e⟩ | ⟨e, _⟩
  · left; rw [hfl] at e; exact_mod_cast e
  · exfalso
    rw [hfl] at e
    have := epsChan_lt_one c c hc hc
    push_cast at e
    linarith
  · right; rw [hfl] at e; exact_mod_cast e

/-- the exact value lies between the two channel ends -/
theorem Cex_between {r : Range F64} (h : RangeOK r) (x : F64) (h0 : r.offset0 ≤ x) (h1 : x ≤ r.offset1)
    (c0 c1 : Nat) : ((min c0 c1 : Nat) : ℚ) ≤ Cex r x c0 c1 ∧ Cex r x c0 c1 ≤ ((max c0 c1 : Nat) : ℚ) := by
  obtain ⟨T0, T1⟩ := Tex_range h x h0 h1
  have a0 : ((min c0 c1 : Nat) : ℚ) ≤ c0 := by exact_mod_cast Nat.min_le_left c0 c1
  have a1 : ((min c0 c1 : Nat) : ℚ) ≤ c1 := by exact_mod_cast Nat.min_le_right c0 c1
  have b0 : (c0 : ℚ) ≤ ((max c0 c1 : Nat) : ℚ) := by exact_mod_cast Nat.le_max_left c0 c1
  have b1 : (c1 : ℚ) ≤ ((max c0 c1 : Nat) : ℚ) := by exact_mod_cast Nat.le_max_right c0 c1
  have hT : 0 ≤ 1 - Tex r x := by linarith
  unfold Cex
  constructor
  · have := mul_le_mul_of_nonneg_left a0 hT
    have := mul_le_mul_of_nonneg_left a1 T0
    nlinarith
  · have := mul_le_mul_of_nonneg_left b0 hT
    have := mul_le_mul_of_nonneg_left b1 T0
    nlinarith

/-- the delivered channel never exceeds the larger channel end and is at most one below the smaller one -/
theorem channel_between {r : Range F64} (h : RangeOK r) (x : F64) (h0 : r.offset0 ≤ x) (h1 : x ≤ r.offset1)
    (c0 c1 : Nat) (hc0 : c0 < 65536) (hc1 : c1 < 65536) :
    min c0 c1 ≤ lerpChan (α := F32) (sOf r x) (tOf r x) c0 c1 + 1 ∧
    lerpChan (α := F32) (sOf r x) (tOf r x) c0 c1 ≤ max c0 c1 := by
  have hn := channel_err h x h0 h1 c0 c1 hc0 hc1
  obtain ⟨lo, hi⟩ := Cex_between h x h0 h1 c0 c1
  have hε := epsChan_lt_one c0 c1 hc0 hc1
  generalize lerpChan (α := F32) (sOf r x) (tOf r x) c0 c1 = ch at hn ⊢
  generalize Cex r x c0 c1 = C at hn lo hi
  generalize max c0 c1 = M at hi ⊢
  generalize min c0 c1 = m at lo ⊢
  have c1' := Int.floor_le C
  have c2' := Int.lt_floor_add_one C
  have hlo : (m : Int) ≤ ⌊C⌋ := by
    rw [Int.le_floor]; exact_mod_cast lo
  have hhi : ⌊C⌋ ≤ (M : Int) := by
    have : ((⌊C⌋ : Int) : ℚ) ≤ ((M : Int) : ℚ) := by rw [Int.cast_natCast]; linarith
    exact_mod_cast this
  rcases hn with e | ⟨e, d⟩ | ⟨e, _⟩
  · omega
  · have : ((⌊C⌋ : Int) : ℚ) < ((M : Int) : ℚ) := by rw [Int.cast_natCast]; linarith
    have : ⌊C⌋ < (M : Int) := by exact_mod_cast this
    omega
  · omega

/-! ## the tie to `Gradient.at` -/

/-- the exact value is the specification's `lerp` (`Ivg/Spec/Grad.lean`) at the values of the three floats -/
theorem Cex_make (a b : Stop F64) (o : F64) (c0 c1 : Nat) :
    Cex (makeRange a b) o c0 c1 = lerp (val a.offset) (val b.offset) c0 c1 (val o) := rfl

/-- everything about one channel: the delivered value `ch` is the integer part of the float `F`, `F` is within
    `ε` of the exact value `C`, hence `Near ch C ε` -/
def ChanErr (ch : Nat) (F : F64) (C ε : ℚ) : Prop :=
  (ch : Int) = ⌊val F⌋ ∧ |val F - C| ≤ ε ∧ Near ch C ε

theorem chanErr_range {r : Range F64} (h : RangeOK r) (x : F64) (h0 : r.offset0 ≤ x) (h1 : x ≤ r.offset1)
    (c0 c1 : Nat) (hc0 : c0 < 65536) (hc1 : c1 < 65536) :
    ChanErr (lerpChan (α := F32) (sOf r x) (tOf r x) c0 c1) (lerpF (sOf r x) (tOf r x) c0 c1)
      (Cex r x c0 c1) (epsChan c0 c1) := by
  obtain ⟨ft, t0, _, fs, s0, _, hst⟩ := t_facts h x h0 h1
  exact ⟨lerpChan_floor _ _ fs ft s0 t0 hst c0 c1 hc0 hc1, chan_err h x h0 h1 c0 c1 hc0 hc1,
    channel_err h x h0 h1 c0 c1 hc0 hc1⟩

/-- **(1), (2), (3) about `Gradient.at`**: for a gradient made by `Init` from a valid stop list and a pixel whose
    offset lies between the first and the last stop offset, the range `[a.offset, b.offset]` selected by
    `findRange` consists of two consecutive stops, and with `t`, `s` as `At` computes them, `T` the exact
    parameter and `lerp … ` the specification's exact interpolation at the VALUE of the float offset:
    `|t − T| ≤ 3u + 3u²`, and for every channel the delivered value is the integer part of the float
    `s*c0 + t*c1`, which is within `epsChan c0 c1 ≤ 7·u·65535 < 2^-34` of the exact value — so the channel is
    `⌊C⌋`, or `⌊C⌋ ± 1` with `C` that close to the integer crossed. -/
theorem at_err_f64 (shape spread : UInt8) (m : Aff3 F64) (s0 s1 : Stop F64) (rest : List (Stop F64))
    (hok : StopsOK (s0 :: s1 :: rest)) (x y : Int)
    (h0 : s0.offset ≤ offsetAt (Gradient.init shape spread m (s0 :: s1 :: rest)).1 x y)
    (h1 : offsetAt (Gradient.init shape spread m (s0 :: s1 :: rest)).1 x y ≤
      ((s0 :: s1 :: rest).getLast (by simp)).offset) :
    let g := (Gradient.init shape spread m (s0 :: s1 :: rest)).1
    let o := offsetAt g x y
    ∃ a b, a ∈ s0 :: s1 :: rest ∧ b ∈ s0 :: s1 :: rest ∧ a.offset < b.offset ∧
      (∀ s ∈ s0 :: s1 :: rest, s = a ∨ s = b ∨ s.offset < a.offset ∨ b.offset < s.offset) ∧
      a.offset ≤ o ∧ o ≤ b.offset ∧
      (let t := (o - a.offset) / (b.offset - a.offset)
       let s := (oneB : F64) - t
       let c := g.at (α := F32) x y
       let C := fun c0 c1 : Nat => lerp (val a.offset) (val b.offset) c0 c1 (val o)
       |val t - (val o - val a.offset) / (val b.offset - val a.offset)| ≤ 3 * u + 3 * u ^ 2 ∧
       ChanErr c.r (lerpF s t a.color.r b.color.r) (C a.color.r b.color.r) (epsChan a.color.r b.color.r) ∧
       ChanErr c.g (lerpF s t a.color.g b.color.g) (C a.color.g b.color.g) (epsChan a.color.g b.color.g) ∧
       ChanErr c.b (lerpF s t a.color.b b.color.b) (C a.color.b b.color.b) (epsChan a.color.b b.color.b) ∧
       ChanErr c.a (lerpF s t a.color.a b.color.a) (C a.color.a b.color.a) (epsChan a.color.a b.color.a)) := by
  intro g o
  obtain ⟨a, b, ha, hb, hab, hmid, ho0, ho1, hc⟩ := colorOf_inside shape spread m s0 s1 rest hok o h0 h1
  refine ⟨a, b, ha, hb, hab, hmid, ho0, ho1, ?_⟩
  have rok := RangeOK_make (hok.1 a ha) (hok.1 b hb) hab
  obtain ⟨car, cag, cab, caa⟩ := (hok.1 a ha).2.2
  obtain ⟨cbr, cbg, cbb, cba⟩ := (hok.1 b hb).2.2
  intro t s c C
  have hcc : c = lerpColor (makeRange a b) o := by
    show g.at (α := F32) x y = _
    rw [at_eq]; exact hc
  rw [hcc]
  exact ⟨t_err rok o ho0 ho1, chanErr_range rok o ho0 ho1 _ _ car cbr, chanErr_range rok o ho0 ho1 _ _ cag cbg,
    chanErr_range rok o ho0 ho1 _ _ cab cbb, chanErr_range rok o ho0 ho1 _ _ caa cba⟩

/-- the short form of `at_err_f64`: every channel of the colour `At` returns is `Near` the specification's exact
    interpolation between the two consecutive stops around the offset, with the uniform `ε = 7·u·65535` -/
theorem at_near_f64 (shape spread : UInt8) (m : Aff3 F64) (s0 s1 : Stop F64) (rest : List (Stop F64))
    (hok : StopsOK (s0 :: s1 :: rest)) (x y : Int)
    (h0 : s0.offset ≤ offsetAt (Gradient.init shape spread m (s0 :: s1 :: rest)).1 x y)
    (h1 : offsetAt (Gradient.init shape spread m (s0 :: s1 :: rest)).1 x y ≤
      ((s0 :: s1 :: rest).getLast (by simp)).offset) :
    let g := (Gradient.init shape spread m (s0 :: s1 :: rest)).1
    let o := offsetAt g x y
    ∃ a b, a ∈ s0 :: s1 :: rest ∧ b ∈ s0 :: s1 :: rest ∧ a.offset < b.offset ∧
      (∀ s ∈ s0 :: s1 :: rest, s = a ∨ s = b ∨ s.offset < a.offset ∨ b.offset < s.offset) ∧
      a.offset ≤ o ∧ o ≤ b.offset ∧
      (let c := g.at (α := F32) x y
       let C := fun c0 c1 : Nat => lerp (val a.offset) (val b.offset) c0 c1 (val o)
       Near c.r (C a.color.r b.color.r) (7 * u * 65535) ∧ Near c.g (C a.color.g b.color.g) (7 * u * 65535) ∧
       Near c.b (C a.color.b b.color.b) (7 * u * 65535) ∧ Near c.a (C a.color.a b.color.a) (7 * u * 65535)) := by
  intro g o
  obtain ⟨a, b, ha, hb, hab, hmid, ho0, ho1, hh⟩ := at_err_f64 shape spread m s0 s1 rest hok x y h0 h1
  refine ⟨a, b, ha, hb, hab, hmid, ho0, ho1, ?_⟩
  obtain ⟨car, cag, cab, caa⟩ := (hok.1 a ha).2.2
  obtain ⟨cbr, cbg, cbb, cba⟩ := (hok.1 b hb).2.2
  obtain ⟨_, hr, hg, hbb, haa⟩ := hh
  exact ⟨hr.2.2.mono (epsChan_le _ _ car cbr), hg.2.2.mono (epsChan_le _ _ cag cbg),
    hbb.2.2.mono (epsChan_le _ _ cab cbb), haa.2.2.mono (epsChan_le _ _ caa cba)⟩

/-- **every gradient the float renderer paints with**: a successful `initGradient` is `Init` of a valid stop list
    read from the registers (`Grad64.initGradient_ok`), so `at_err_f64` applies at every pixel whose offset lies
    between the first and the last stop offset -/
theorem renderer_gradient_err_f64 (z : Renderer F32 F64) (rgba : RGBA) (g : Gradient F64)
    (h : z.initGradient rgba = some g) :
    ∃ s0 s1 rest,
      g = (Gradient.init (decodeGradient rgba).shape (decodeGradient rgba).spread
            (pixMatrix64 z (decodeGradient rgba).nBase) (s0 :: s1 :: rest)).1 ∧
      StopsOK (s0 :: s1 :: rest) ∧
      (∀ k (hk : k < (s0 :: s1 :: rest).length), (s0 :: s1 :: rest)[k] =
        ⟨F64.ofF32 (z.nReg.get6 ((decodeGradient rgba).nBase + (0 + UInt8.ofNat k))),
         rgba64Of (z.cReg.get6 ((decodeGradient rgba).cBase + (0 + UInt8.ofNat k)))⟩) ∧
      ∀ x y : Int, s0.offset ≤ offsetAt g x y → offsetAt g x y ≤ ((s0 :: s1 :: rest).getLast (by simp)).offset →
        ∃ a b, a ∈ s0 :: s1 :: rest ∧ b ∈ s0 :: s1 :: rest ∧ a.offset < b.offset ∧
          (∀ s ∈ s0 :: s1 :: rest, s = a ∨ s = b ∨ s.offset < a.offset ∨ b.offset < s.offset) ∧
          a.offset ≤ offsetAt g x y ∧ offsetAt g x y ≤ b.offset ∧
          (let t := (offsetAt g x y - a.offset) / (b.offset - a.offset)
           let s := (oneB : F64) - t
           let c := g.at (α := F32) x y
           let C := fun c0 c1 : Nat => lerp (val a.offset) (val b.offset) c0 c1 (val (offsetAt g x y))
           |val t - (val (offsetAt g x y) - val a.offset) / (val b.offset - val a.offset)| ≤ 3 * u + 3 * u ^ 2 ∧
           ChanErr c.r (lerpF s t a.color.r b.color.r) (C a.color.r b.color.r) (epsChan a.color.r b.color.r) ∧
           ChanErr c.g (lerpF s t a.color.g b.color.g) (C a.color.g b.color.g) (epsChan a.color.g b.color.g) ∧
           ChanErr c.b (lerpF s t a.color.b b.color.b) (C a.color.b b.color.b) (epsChan a.color.b b.color.b) ∧
           ChanErr c.a (lerpF s t a.color.a b.color.a) (C a.color.a b.color.a) (epsChan a.color.a b.color.a)) := by
  obtain ⟨s0, s1, rest, rfl, _, hok, _, hget⟩ := initGradient_ok z rgba g h
  refine ⟨s0, s1, rest, rfl, hok, hget, ?_⟩
  intro x y h0 h1
  exact at_err_f64 _ _ _ s0 s1 rest hok x y h0 h1

/-! ## concrete data for the non-vacuity examples of `Ivg/Props/C15Err.lean` -/
namespace Ex

/-- opaque white -/
def white : RGBA64 := ⟨0xFFFF, 0xFFFF, 0xFFFF, 0xFFFF⟩
/-- two opaque white stops at 0.25 and 1.0 -/
def sP : Stop F64 := ⟨⟨0x3FD0000000000000⟩, white⟩
def sQ : Stop F64 := ⟨⟨0x3FF0000000000000⟩, white⟩
/-- an offset inside `[0.25, 1]` (≈ 0.6055) at which `s + t < 1` after rounding -/
def oLow : F64 := ⟨0x3FE360A056F07490⟩

/-- two grey stops at 0.0 and 1.0 with channel values 32768 and 32896 -/
def sG0 : Stop F64 := ⟨⟨0⟩, ⟨32768, 32768, 32768, 32768⟩⟩
def sG1 : Stop F64 := ⟨⟨0x3FF0000000000000⟩, ⟨32896, 32896, 32896, 32896⟩⟩
/-- `0.90625 − 2^-53`: the exact value `32768 + 128·o = 32884 − 2^-46` is just below an integer -/
def oHigh : F64 := ⟨0x3FECFFFFFFFFFFFF⟩

set_option maxRecDepth 100000 in
/-- the case "one less" occurs: a gradient between two OPAQUE WHITE stops returns `0xFFFE` in every channel at
    this offset (exact value: `65535`) -/
theorem opaque_not_opaque :
    (Gradient.init 0 0 (mC oLow) [sP, sQ]).1.at (α := F32) 7 3 = ⟨0xFFFE, 0xFFFE, 0xFFFE, 0xFFFE⟩ := by
  decide +kernel

set_option maxRecDepth 100000 in
/-- the case "one more" occurs: exact value `32884 − 2^-46`, integer part `32883`, delivered `32884` -/
theorem one_more :
    (Gradient.init 0 0 (mC oHigh) [sG0, sG1]).1.at (α := F32) 7 3 = ⟨32884, 32884, 32884, 32884⟩ := by
  decide +kernel

set_option maxRecDepth 100000 in
theorem stops_ok : StopsOK [sP, sQ] ∧ StopsOK [sG0, sG1] := by decide +kernel

set_option maxRecDepth 100000 in
theorem offsets_inside :
    sP.offset ≤ offsetAt (Gradient.init 0 0 (mC oLow) [sP, sQ]).1 7 3 ∧
    offsetAt (Gradient.init 0 0 (mC oLow) [sP, sQ]).1 7 3 ≤ sQ.offset ∧
    sG0.offset ≤ offsetAt (Gradient.init 0 0 (mC oHigh) [sG0, sG1]).1 7 3 ∧
    offsetAt (Gradient.init 0 0 (mC oHigh) [sG0, sG1]).1 7 3 ≤ sG1.offset := by decide +kernel

end Ex

end Ivg.Grad64
