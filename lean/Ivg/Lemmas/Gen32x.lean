import Ivg.Lemmas.Gen32b
import Ivg.Lemmas.Gen32c
import Ivg.Lemmas.Xf32
/-!
# C19 / C20 at `F32`: concrete instances of the range hypotheses (non-vacuity) and kernel-evaluated matrices
-/
namespace Ivg.Gen32x
open Ivg Num Gen FloatOrder32 FloatMono32 FloatErr Geom32 Mix32 Gen32 Xf32

/-- small integers are float32 numbers in range -/
theorem ofInt_small (n : Int) (h : n.natAbs ≤ 1048576) :
    Fn (F32.ofInt n) ∧ val (F32.ofInt n) = (n : ℚ) ∧ |val (F32.ofInt n)| ≤ 1048576 := by
  obtain ⟨f, v⟩ := ofInt_val n (by omega)
  refine ⟨f, v, ?_⟩
  rw [v]
  have : |(n : ℚ)| = ((n.natAbs : Nat) : ℚ) := by
    rw [← Int.cast_abs, Int.abs_eq_natAbs]; simp
  rw [this]
  exact_mod_cast h

/-- linear gradient from (1,2) to (4,6) -/
theorem linOK_example : LinOK (F32.ofInt 1) (F32.ofInt 2) (F32.ofInt 4) (F32.ofInt 6) := by
  obtain ⟨f1, v1, b1⟩ := ofInt_small 1 (by decide)
  obtain ⟨f2, v2, b2⟩ := ofInt_small 2 (by decide)
  obtain ⟨f4, v4, b4⟩ := ofInt_small 4 (by decide)
  obtain ⟨f6, v6, b6⟩ := ofInt_small 6 (by decide)
  refine ⟨f1, f2, f4, f6, b1, b2, b4, b6, ?_⟩
  rw [v1, v2, v4, v6]; norm_num

/-- circular gradient with centre (5,7) and radius vector (3,4) -/
theorem circOK_example : CircOK (F32.ofInt 5) (F32.ofInt 7) (F32.ofInt 3) (F32.ofInt 4) := by
  obtain ⟨f5, v5, b5⟩ := ofInt_small 5 (by decide)
  obtain ⟨f7, v7, b7⟩ := ofInt_small 7 (by decide)
  obtain ⟨f3, v3, b3⟩ := ofInt_small 3 (by decide)
  obtain ⟨f4, v4, b4⟩ := ofInt_small 4 (by decide)
  refine ⟨f5, f7, b5, b7, f3, f4, b3, b4, ?_⟩
  rw [v3, v4]; norm_num

/-- elliptical gradient with centre (5,7) and axis vectors (2,0), (1,3): `DET = 6`, `N = 6` -/
theorem ellOK_example :
    EllOK (F32.ofInt 5) (F32.ofInt 7) (F32.ofInt 2) (F32.ofInt 0) (F32.ofInt 1) (F32.ofInt 3) := by
  obtain ⟨f5, v5, b5⟩ := ofInt_small 5 (by decide)
  obtain ⟨f7, v7, b7⟩ := ofInt_small 7 (by decide)
  obtain ⟨f2, v2, b2⟩ := ofInt_small 2 (by decide)
  obtain ⟨f0, v0, b0⟩ := ofInt_small 0 (by decide)
  obtain ⟨f1, v1, b1⟩ := ofInt_small 1 (by decide)
  obtain ⟨f3, v3, b3⟩ := ofInt_small 3 (by decide)
  refine ⟨f5, f7, f2, f0, f1, f3, b5, b7, b2, b0, b1, b3, ?_, ?_⟩
  · rw [v2, v0, v1, v3]; norm_num
  · rw [v2, v0, v1, v3]; norm_num

/-- the generator's usual transform list: scale by 2, translate by −32 -/
theorem stOK_example :
    STOk (concat [scale2 (F32.ofInt 2) (F32.ofInt 2), translate (F32.ofInt (-32)) (F32.ofInt (-32))]) := by
  obtain ⟨f2, _, b2⟩ := ofInt_small 2 (by decide)
  obtain ⟨f32, _, b32⟩ := ofInt_small (-32) (by decide)
  exact (concat_scale_translate_f32 f2 f2 f32 f32 (by linarith) (by linarith) (by linarith) (by linarith)).1

theorem opOK_example : OpOK (F32.ofInt 5) := by
  obtain ⟨f, _, b⟩ := ofInt_small 5 (by decide)
  exact ⟨f, by linarith⟩

theorem affOK_example : AffOK (scale2 (F32.ofInt 2) (F32.ofInt 3)) ∧ AffOK (translate (F32.ofInt 5) (F32.ofInt 7)) := by
  obtain ⟨f0, _, b0⟩ := ofInt_small 0 (by decide)
  obtain ⟨f1, _, b1⟩ := ofInt_small 1 (by decide)
  obtain ⟨f2, _, b2⟩ := ofInt_small 2 (by decide)
  obtain ⟨f3, _, b3⟩ := ofInt_small 3 (by decide)
  obtain ⟨f5, _, b5⟩ := ofInt_small 5 (by decide)
  obtain ⟨f7, _, b7⟩ := ofInt_small 7 (by decide)
  have w : ∀ {x : ℚ}, x ≤ 1048576 → x ≤ 1099511627776 := fun h => le_trans h (by norm_num)
  constructor
  · exact ⟨f2, f0, f0, f0, f3, f0, w b2, w b0, w b0, w b0, w b3, w b0⟩
  · exact ⟨f1, f0, f5, f0, f1, f7, w b1, w b0, w b5, w b0, w b1, w b7⟩

/-- the converter's usual setting: a 24-unit icon scaled to 48 -/
theorem mdOK_example : MdOK (F32.ofInt 24) (F32.ofInt 48) ∧ MdOp (F32.ofInt 25) ∧ MdOp (F32.ofInt 0) := by
  obtain ⟨f24, v24, b24⟩ := ofInt_small 24 (by decide)
  obtain ⟨f48, _, b48⟩ := ofInt_small 48 (by decide)
  obtain ⟨f25, _, b25⟩ := ofInt_small 25 (by decide)
  obtain ⟨f0, _, b0⟩ := ofInt_small 0 (by decide)
  refine ⟨⟨f24, f48, ?_, b24, b48⟩, ⟨f25, b25⟩, ⟨f0, b0⟩⟩
  rw [v24]; norm_num

/-! ## kernel evaluation of the model at float32 (independent of the theorems) -/

-- (1,2) → (4,6): a = 3/25, b = 4/25, c = −11/25, each correctly rounded here
example : linearMatrix (F32.ofInt 1) (F32.ofInt 2) (F32.ofInt 4) (F32.ofInt 6) =
    ⟨⟨0x3DF5C28F⟩, ⟨0x3E23D70A⟩, ⟨0xBEE147AE⟩, ⟨0⟩, ⟨0⟩, ⟨0⟩⟩ := by decide +kernel

-- centre (5,7), radius vector (3,4): invR = 0.2, −cx·invR = −1, −cy·invR = −1.4
example : circularMatrix (β := F64) (F32.ofInt 5) (F32.ofInt 7) (F32.ofInt 3) (F32.ofInt 4) =
    ⟨⟨0x3E4CCCCD⟩, ⟨0⟩, ⟨0xBF800000⟩, ⟨0⟩, ⟨0x3E4CCCCD⟩, ⟨0xBFB33333⟩⟩ := by decide +kernel

-- centre (5,7), axes (2,0), (1,3): [1/2 −1/6 −4/3; −0 1/3 −7/3]
example : ellipticalMatrix (F32.ofInt 5) (F32.ofInt 7) (F32.ofInt 2) (F32.ofInt 0) (F32.ofInt 1) (F32.ofInt 3) =
    ⟨⟨0x3F000000⟩, ⟨0xBE2AAAAB⟩, ⟨0xBFAAAAAA⟩, ⟨0x80000000⟩, ⟨0x3EAAAAAB⟩, ⟨0xC0155556⟩⟩ := by decide +kernel

-- ILL-CONDITIONED, in range: a horizontal gradient from x1 = 1000000.0625 to x2 = 1000000.25 (three float32 steps
-- apart at that magnitude), y = 0.  `a = 5.3333335`, `c = −5333334` (the float32 grid at `c` has spacing 0.5): the
-- offset read from the matrix is −0.1744 at p1 and 0.8256 at p2 instead of 0 and 1.  `linK ≈ 5.3·10^6`, the bound
-- `3u·K ≈ 0.95`.  The error is in `c = −a·x1 − b·y1`, which no float32 `c` can represent better than to 0.25 here.
example : linearMatrix ⟨0x49742401⟩ (F32.ofInt 0) ⟨0x49742404⟩ (F32.ofInt 0) =
    ⟨⟨0x40AAAAAB⟩, ⟨0⟩, ⟨0xCAA2C2AC⟩, ⟨0⟩, ⟨0⟩, ⟨0⟩⟩ := by decide +kernel

/-- the value of a float32 bit pattern from its fields -/
theorem val_bits (b : UInt32) (s : Bool) (m : Nat) (e : Int)
    (hs : negB32 b.toNat = s) (hm : mantB b.toNat = m) (he : expB b.toNat = e) :
    val (⟨b⟩ : F32) = (if s then -1 else 1) * ((m : ℚ) * pow2 e) := by
  show bval b.toNat = _
  unfold bval sval; rw [hs, hm, he]

/-- … the offsets of that ill-conditioned (in-range) example, exactly: `−5851477/2^25 ≈ −0.1744` at the first
    point and `6925739/2^23 ≈ 0.8256` at the second, where the requested geometry has 0 and 1 -/
theorem ill_conditioned_linear :
    let x1 : F32 := ⟨0x49742401⟩
    let x2 : F32 := ⟨0x49742404⟩
    let M := linearMatrix x1 (F32.ofInt 0) x2 (F32.ofInt 0)
    val x1 = 16000001 / 16 ∧ val x2 = 4000001 / 4 ∧
    off M (val x1) 0 = -5851477 / 33554432 ∧ off M (val x2) 0 = 6925739 / 8388608 := by
  intro x1 x2 M
  have hM : M = ⟨⟨0x40AAAAAB⟩, ⟨0⟩, ⟨0xCAA2C2AC⟩, ⟨0⟩, ⟨0⟩, ⟨0⟩⟩ := by decide +kernel
  have v1 : val x1 = 16000001 / 16 := by
    rw [val_bits 0x49742401 false 16000001 (-4) (by decide) (by decide) (by decide)]
    unfold pow2; norm_num
  have v2 : val x2 = 4000001 / 4 := by
    rw [val_bits 0x49742404 false 16000004 (-4) (by decide) (by decide) (by decide)]
    unfold pow2; norm_num
  have va : val (⟨0x40AAAAAB⟩ : F32) = 11184811 / 2097152 := by
    rw [val_bits 0x40AAAAAB false 11184811 (-21) (by decide) (by decide) (by decide)]
    unfold pow2; norm_num
  have vc : val (⟨0xCAA2C2AC⟩ : F32) = -5333334 := by
    rw [val_bits 0xCAA2C2AC true 10666668 (-1) (by decide) (by decide) (by decide)]
    unfold pow2; norm_num
  refine ⟨v1, v2, ?_, ?_⟩
  · rw [hM, v1]; unfold off; simp only []; rw [va, vc]; norm_num
  · rw [hM, v2]; unfold off; simp only []; rw [va, vc]; norm_num

end Ivg.Gen32x
