import Ivg.Lemmas.Codec
/-!
# `quantize` (encode/encode.go) rounds to the nearest multiple of 1/64, ties up

`Enc.quantize false f = float32(floor(float64(f)*64 + 0.5)) / 64` for `-128 ≤ f < 128`.
This file proves, from the soft-float definitions, that the result is `float32(k)/64` with
`k = ⌊64·f + 1/2⌋` exactly, for EVERY float32 in the guarded range (including subnormals, where the
float64 addition is inexact but the floor is still 0).

Part 1: binary64 versions of the rounding lemmas of `Codec.lean` (`roundMag`, `unpack`).
Part 2: the five stages (`ofF32`, `*64`, `+0.5`, `floor`, `toF32`).
Part 3: the headline theorem and the cheap corollaries.
-/
namespace Ivg.Quant
open Ivg Num Codec

/-! ## binary64 constants and rounding -/

theorem emin_f64 : Fmt.f64.emin = -1074 := by decide
theorem prec_f64 : Fmt.f64.prec = 53 := by decide
theorem infBits_f64 : Fmt.f64.infBits = 9218868437227405312 := by decide
theorem signBit_f64 : Fmt.f64.signBit = 9223372036854775808 := by decide
theorem mbits_f64 : Fmt.f64.mbits = 52 := rfl
theorem ebits_f64 : Fmt.f64.ebits = 11 := rfl
theorem expMax_f64 : Fmt.f64.expMax = 2047 := by decide

/-- `roundMag` for binary64 with the working exponent `fe` named -/
theorem roundMag_f64 (m : Nat) (e fe : Int)
    (hfe : fe = if e + (bitLen m : Int) - 53 < -1074 then -1074 else e + (bitLen m : Int) - 53) :
    roundMag .f64 m e =
      (let q : Nat :=
        if fe ≤ e then m * 2 ^ (e - fe).toNat
        else
          if m % 2 ^ (fe - e).toNat > 2 ^ ((fe - e).toNat - 1) ||
              (m % 2 ^ (fe - e).toNat == 2 ^ ((fe - e).toNat - 1) && m / 2 ^ (fe - e).toNat % 2 == 1)
          then m / 2 ^ (fe - e).toNat + 1 else m / 2 ^ (fe - e).toNat
       if (fe + 1074).toNat * 4503599627370496 + q ≥ 9218868437227405312 then 9218868437227405312
       else (fe + 1074).toNat * 4503599627370496 + q) := by
  have c53 : ((53 : Nat) : Int) = 53 := rfl
  have c52 : (2:Nat)^52 = 4503599627370496 := by decide
  simp only [roundMag, emin_f64, prec_f64, infBits_f64, mbits_f64, c53, c52]
  rw [← hfe]
  have : fe - -1074 = fe + 1074 := by omega
  simp only [this]

/-- no rounding, left shift: a mantissa of `j+1 ≤ 53` bits is normalised exactly -/
theorem roundMag64_shl (m : Nat) (e : Int) (j k : Nat) (hjk : j + k = 52)
    (h1 : 2^j ≤ m) (h2 : m < 2^(j+1)) (he : -1074 ≤ e - k) (hno : e - k + 1074 < 2046) :
    roundMag .f64 m e = (e - k + 1074).toNat * 4503599627370496 + m * 2^k ∧
      4503599627370496 ≤ m * 2^k ∧ m * 2^k < 9007199254740992 := by
  have hbl := bitLen_eq h1 h2
  have hq1 : 4503599627370496 ≤ m * 2^k := by
    have h : 2^j * 2^k = 4503599627370496 := by rw [← Nat.pow_add, hjk]
    have := Nat.mul_le_mul_right (2^k) h1
    omega
  have hq2 : m * 2^k < 9007199254740992 := by
    have h53 : j + 1 + k = 53 := by omega
    have h : 2^(j+1) * 2^k = 9007199254740992 := by rw [← Nat.pow_add, h53]
    have := (Nat.mul_lt_mul_right (Nat.two_pow_pos k)).2 h2
    omega
  refine ⟨?_, hq1, hq2⟩
  have hfe : e - k = if e + (bitLen m : Int) - 53 < -1074 then -1074 else e + (bitLen m : Int) - 53 := by
    rw [hbl]; split <;> omega
  rw [roundMag_f64 m e (e - k) hfe]
  have hk : (e - (e - (k : Int))).toNat = k := by omega
  have hle : e - (k : Int) ≤ e := by omega
  simp only [hk, if_pos hle]
  rw [if_neg (by omega)]

theorem bitLen_le53 (q : Nat) (h : q < 9007199254740992) : bitLen q ≤ 53 := by
  unfold bitLen
  split
  · omega
  · rename_i h0
    have hq : q ≠ 0 := by simpa using h0
    have := (Nat.log2_lt hq).2 (show q < 2^53 by omega)
    omega

/-- exact right shift, allowing overflow and a subnormal result -/
theorem roundMag64_shr (q : Nat) (e : Int) (s : Nat) (hs : 0 < s) (h0 : 0 < q)
    (h2 : q < 9007199254740992) (hn : 4503599627370496 ≤ q ∨ e + s = -1074) (he : -1074 ≤ e + s) :
    roundMag .f64 (q * 2^s) e =
      if (e + s + 1074).toNat * 4503599627370496 + q ≥ 9218868437227405312 then 9218868437227405312
      else (e + s + 1074).toNat * 4503599627370496 + q := by
  have hp := Nat.two_pow_pos s
  have hbl := bitLen_mul_pow q s h0
  have hle := bitLen_le53 q h2
  have hfe : e + s = if e + (bitLen (q * 2^s) : Int) - 53 < -1074 then -1074
      else e + (bitLen (q * 2^s) : Int) - 53 := by
    rw [hbl]
    rcases hn with hn | hn
    · have : bitLen q = 53 := bitLen_eq (k := 52) (by omega) (by omega)
      rw [this]; split <;> omega
    · split <;> omega
  rw [roundMag_f64 _ e (e + s) hfe]
  have hk : (e + (s : Int) - e).toNat = s := by omega
  have hle : ¬ (e + (s : Int) ≤ e) := by omega
  simp only [hk, if_neg hle]
  have hr : q * 2^s % 2^s = 0 := Nat.mul_mod_left _ _
  have hd : q * 2^s / 2^s = q := Nat.mul_div_cancel _ hp
  have hh : 0 < 2^(s-1) := Nat.two_pow_pos _
  simp only [hr, hd]
  have : ¬ ((decide (0 > 2 ^ (s - 1)) || (0 == 2 ^ (s - 1) && q % 2 == 1)) = true) := by
    simp; omega
  rw [if_neg this]

/-- sign bit of a 64-bit pattern as the soft-float reads it -/
def negB64 (b : Nat) : Bool := b / 9223372036854775808 % 2 == 1

theorem unpack_f64 (b : Nat) : unpack .f64 b =
    if b / 4503599627370496 % 2048 = 2047 then
      (if b % 4503599627370496 = 0 then .inf (negB64 b) else .nan b)
    else if b / 4503599627370496 % 2048 = 0 then .fin (negB64 b) (b % 4503599627370496) (-1074)
    else .fin (negB64 b) (b % 4503599627370496 + 4503599627370496)
      (((b / 4503599627370496 % 2048 : Nat) : Int) - 1075) := by
  simp only [unpack, emin_f64, signBit_f64, mbits_f64, ebits_f64, expMax_f64, negB64, beq_iff_eq]
  have c1 : (2:Nat)^52 = 4503599627370496 := by decide
  have c2 : (2:Nat)^11 = 2048 := by decide
  simp only [c1, c2]
  split
  · rfl
  · split
    · rfl
    · congr 1; omega

/-- a normal binary64 given by fields -/
theorem unpack_normal64 (sg ex mt : Nat) (hs : sg < 2) (hex1 : 0 < ex) (hex2 : ex < 2047)
    (hmt : mt < 4503599627370496) :
    unpack .f64 (sg * 9223372036854775808 + ex * 4503599627370496 + mt) =
      .fin (sg == 1) (mt + 4503599627370496) ((ex : Int) - 1075) := by
  rw [unpack_f64]
  have h1 : (sg * 9223372036854775808 + ex * 4503599627370496 + mt) / 4503599627370496 % 2048 = ex := by
    omega
  have h2 : (sg * 9223372036854775808 + ex * 4503599627370496 + mt) % 4503599627370496 = mt := by omega
  have h3 : negB64 (sg * 9223372036854775808 + ex * 4503599627370496 + mt) = (sg == 1) := by
    unfold negB64
    have : (sg * 9223372036854775808 + ex * 4503599627370496 + mt) / 9223372036854775808 % 2 = sg := by
      omega
    rw [this]
  rw [h1, h2, h3, if_neg (by omega), if_neg (by omega)]

end Ivg.Quant
