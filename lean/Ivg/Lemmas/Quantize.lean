import Ivg.Lemmas.Codec
/-!
# `quantize` (encode/encode.go) rounds to the nearest multiple of 1/64, ties up

`Enc.quantize false f = float32(floor(float64(f)*64 + 0.5)) / 64` for `-128 ≤ f < 128`.
This file proves, from the soft-float definitions, that the result is `float32(k)/64` with
`k = ⌊64·f + 1/2⌋` exactly, for EVERY float32 in the guarded range (including subnormals, where the
float64 addition is inexact but the floor is still 0).

Part 1: binary64 versions of the rounding lemmas of `Codec.lean` (`roundMag`, `unpack`).
Part 2: the five stages (`ofF32`, `*64`, `+0.5`, `floor`, `toF32`).
Part 3: the headline theorem and the cheap corollaries.
-/
namespace Ivg.Quant
open Ivg Num Codec

/-! ## binary64 constants and rounding -/

theorem emin_f64 : Fmt.f64.emin = -1074 := by decide
theorem prec_f64 : Fmt.f64.prec = 53 := by decide
theorem infBits_f64 : Fmt.f64.infBits = 9218868437227405312 := by decide
theorem signBit_f64 : Fmt.f64.signBit = 9223372036854775808 := by decide
theorem mbits_f64 : Fmt.f64.mbits = 52 := rfl
theorem ebits_f64 : Fmt.f64.ebits = 11 := rfl
theorem expMax_f64 : Fmt.f64.expMax = 2047 := by decide

/-- `roundMag` for binary64 with the working exponent `fe` named -/
theorem roundMag_f64 (m : Nat) (e fe : Int)
    (hfe : fe = if e + (bitLen m : Int) - 53 < -1074 then -1074 else e + (bitLen m : Int) - 53) :
    roundMag .f64 m e =
      (let q : Nat :=
        if fe ≤ e then m * 2 ^ (e - fe).toNat
        else
          if m % 2 ^ (fe - e).toNat > 2 ^ ((fe - e).toNat - 1) ||
              (m % 2 ^ (fe - e).toNat == 2 ^ ((fe - e).toNat - 1) && m / 2 ^ (fe - e).toNat % 2 == 1)
          then m / 2 ^ (fe - e).toNat + 1 else m / 2 ^ (fe - e).toNat
       if (fe + 1074).toNat * 4503599627370496 + q ≥ 9218868437227405312 then 9218868437227405312
       else (fe + 1074).toNat * 4503599627370496 + q) := by
  have c53 : ((53 : Nat) : Int) = 53 := rfl
  have c52 : (2:Nat)^52 = 4503599627370496 := by decide
  simp only [roundMag, emin_f64, prec_f64, infBits_f64, mbits_f64, c53, c52]
  rw [← hfe]
  have : fe - -1074 = fe + 1074 := by omega
  simp only [this]

/-- no rounding, left shift: a mantissa of `j+1 ≤ 53` bits is normalised exactly -/
theorem roundMag64_shl (m : Nat) (e : Int) (j k : Nat) (hjk : j + k = 52)
    (h1 : 2^j ≤ m) (h2 : m < 2^(j+1)) (he : -1074 ≤ e - k) (hno : e - k + 1074 < 2046) :
    roundMag .f64 m e = (e - k + 1074).toNat * 4503599627370496 + m * 2^k ∧
      4503599627370496 ≤ m * 2^k ∧ m * 2^k < 9007199254740992 := by
  have hbl := bitLen_eq h1 h2
  have hq1 : 4503599627370496 ≤ m * 2^k := by
    have h : 2^j * 2^k = 4503599627370496 := by rw [← Nat.pow_add, hjk]
    have := Nat.mul_le_mul_right (2^k) h1
    omega
  have hq2 : m * 2^k < 9007199254740992 := by
    have h53 : j + 1 + k = 53 := by omega
    have h : 2^(j+1) * 2^k = 9007199254740992 := by rw [← Nat.pow_add, h53]
    have := (Nat.mul_lt_mul_right (Nat.two_pow_pos k)).2 h2
    omega
  refine ⟨?_, hq1, hq2⟩
  have hfe : e - k = if e + (bitLen m : Int) - 53 < -1074 then -1074 else e + (bitLen m : Int) - 53 := by
    rw [hbl]; split <;> omega
  rw [roundMag_f64 m e (e - k) hfe]
  have hk : (e - (e - (k : Int))).toNat = k := by omega
  have hle : e - (k : Int) ≤ e := by omega
  simp only [hk, if_pos hle]
  rw [if_neg (by omega)]

theorem bitLen_le53 (q : Nat) (h : q < 9007199254740992) : bitLen q ≤ 53 := by
  unfold bitLen
  split
  · omega
  · rename_i h0
    have hq : q ≠ 0 := by simpa using h0
    have := (Nat.log2_lt hq).2 (show q < 2^53 by omega)
    omega

/-- exact right shift, allowing overflow and a subnormal result -/
theorem roundMag64_shr (q : Nat) (e : Int) (s : Nat) (hs : 0 < s) (h0 : 0 < q)
    (h2 : q < 9007199254740992) (hn : 4503599627370496 ≤ q ∨ e + s = -1074) (he : -1074 ≤ e + s) :
    roundMag .f64 (q * 2^s) e =
      if (e + s + 1074).toNat * 4503599627370496 + q ≥ 9218868437227405312 then 9218868437227405312
      else (e + s + 1074).toNat * 4503599627370496 + q := by
  have hp := Nat.two_pow_pos s
  have hbl := bitLen_mul_pow q s h0
  have hle := bitLen_le53 q h2
  have hfe : e + s = if e + (bitLen (q * 2^s) : Int) - 53 < -1074 then -1074
      else e + (bitLen (q * 2^s) : Int) - 53 := by
    rw [hbl]
    rcases hn with hn | hn
    · have : bitLen q = 53 := bitLen_eq (k := 52) (by omega) (by omega)
      rw [this]; split <;> omega
    · split <;> omega
  rw [roundMag_f64 _ e (e + s) hfe]
  have hk : (e + (s : Int) - e).toNat = s := by omega
  have hle : ¬ (e + (s : Int) ≤ e) := by omega
  simp only [hk, if_neg hle]
  have hr : q * 2^s % 2^s = 0 := Nat.mul_mod_left _ _
  have hd : q * 2^s / 2^s = q := Nat.mul_div_cancel _ hp
  have hh : 0 < 2^(s-1) := Nat.two_pow_pos _
  simp only [hr, hd]
  have : ¬ ((decide (0 > 2 ^ (s - 1)) || (0 == 2 ^ (s - 1) && q % 2 == 1)) = true) := by
    simp; omega
  rw [if_neg this]

/-- sign bit of a 64-bit pattern as the soft-float reads it -/
def negB64 (b : Nat) : Bool := b / 9223372036854775808 % 2 == 1

theorem unpack_f64 (b : Nat) : unpack .f64 b =
    if b / 4503599627370496 % 2048 = 2047 then
      (if b % 4503599627370496 = 0 then .inf (negB64 b) else .nan b)
    else if b / 4503599627370496 % 2048 = 0 then .fin (negB64 b) (b % 4503599627370496) (-1074)
    else .fin (negB64 b) (b % 4503599627370496 + 4503599627370496)
      (((b / 4503599627370496 % 2048 : Nat) : Int) - 1075) := by
  simp only [unpack, emin_f64, signBit_f64, mbits_f64, ebits_f64, expMax_f64, negB64, beq_iff_eq]
  have c1 : (2:Nat)^52 = 4503599627370496 := by decide
  have c2 : (2:Nat)^11 = 2048 := by decide
  simp only [c1, c2]
  split
  · rfl
  · split
    · rfl
    · congr 1; omega

/-- a normal binary64 given by fields -/
theorem unpack_normal64 (sg ex mt : Nat) (hs : sg < 2) (hex1 : 0 < ex) (hex2 : ex < 2047)
    (hmt : mt < 4503599627370496) :
    unpack .f64 (sg * 9223372036854775808 + ex * 4503599627370496 + mt) =
      .fin (sg == 1) (mt + 4503599627370496) ((ex : Int) - 1075) := by
  rw [unpack_f64]
  have h1 : (sg * 9223372036854775808 + ex * 4503599627370496 + mt) / 4503599627370496 % 2048 = ex := by
    omega
  have h2 : (sg * 9223372036854775808 + ex * 4503599627370496 + mt) % 4503599627370496 = mt := by omega
  have h3 : negB64 (sg * 9223372036854775808 + ex * 4503599627370496 + mt) = (sg == 1) := by
    unfold negB64
    have : (sg * 9223372036854775808 + ex * 4503599627370496 + mt) / 9223372036854775808 % 2 = sg := by
      omega
    rw [this]
  rw [h1, h2, h3, if_neg (by omega), if_neg (by omega)]

/-! ## packed normal binary64 values -/

/-- the bit pattern of `±Q·2^FE` for a normalised `Q ∈ [2^52, 2^53)` -/
def pack64 (neg : Bool) (Q : Nat) (FE : Int) : Nat :=
  (if neg then 9223372036854775808 else 0) + ((FE + 1074).toNat * 4503599627370496 + Q)

theorem pack64_lt (neg : Bool) (Q : Nat) (FE : Int) (hQ2 : Q < 9007199254740992)
    (h2 : FE + 1075 < 2047) : pack64 neg Q FE < 18446744073709551616 := by
  unfold pack64; split <;> omega

theorem unpack_pack64 (neg : Bool) (Q : Nat) (FE : Int) (hQ1 : 4503599627370496 ≤ Q)
    (hQ2 : Q < 9007199254740992) (h1 : -1074 ≤ FE) (h2 : FE + 1075 < 2047) :
    unpack .f64 (pack64 neg Q FE) = .fin neg Q FE := by
  have e : pack64 neg Q FE = (if neg then 1 else 0) * 9223372036854775808 +
      (FE + 1075).toNat * 4503599627370496 + (Q - 4503599627370496) := by
    unfold pack64; split <;> omega
  rw [e, unpack_normal64 _ _ _ (by split <;> omega) (by omega) (by omega) (by omega)]
  have e1 : Q - 4503599627370496 + 4503599627370496 = Q := by omega
  have e2 : (((FE + 1075).toNat : Nat) : Int) - 1075 = FE := by omega
  rw [e1, e2]
  cases neg <;> rfl

theorem withSign64 (neg : Bool) (x : Nat) :
    withSign .f64 neg x = (if neg then 9223372036854775808 else 0) + x := by
  unfold withSign; rw [signBit_f64]; split <;> omega

/-- rounding a value that is exactly a normalised `Q·2^FE` (given as `n·2^e` with the shift either
    way) packs it exactly -/
theorem roundPack64_exact (neg : Bool) (n : Nat) (e : Int) (Q : Nat) (FE : Int)
    (hQ1 : 4503599627370496 ≤ Q) (hQ2 : Q < 9007199254740992) (h1 : -1074 ≤ FE)
    (h2 : FE + 1075 < 2047)
    (hv : (FE ≤ e ∧ Q = n * 2^(e - FE).toNat) ∨ (e < FE ∧ n = Q * 2^(FE - e).toNat)) :
    roundPack .f64 neg n e = pack64 neg Q FE := by
  have hn : n ≠ 0 := by
    rcases hv with ⟨_, h⟩ | ⟨_, h⟩
    · intro h0; rw [h0] at h; omega
    · have := Nat.two_pow_pos (FE - e).toNat
      intro h0; rw [h0] at h
      have : 0 < Q * 2^(FE - e).toNat := Nat.mul_pos (by omega) this
      omega
  rw [roundPack_pos _ _ _ _ hn, withSign64]
  unfold pack64
  congr 1
  rcases hv with ⟨hle, hq⟩ | ⟨hlt, hq⟩
  · -- left shift: n has at most 53 bits
    have hp := Nat.two_pow_pos (e - FE).toNat
    have hn0 : 0 < n := by omega
    have hbl : bitLen Q = bitLen n + (e - FE).toNat := by rw [hq]; exact bitLen_mul_pow n _ hn0
    have hb53 : bitLen Q = 53 := bitLen_eq (k := 52) (by omega) (by omega)
    have hfe : FE = if e + (bitLen n : Int) - 53 < -1074 then -1074 else e + (bitLen n : Int) - 53 := by
      split <;> omega
    rw [roundMag_f64 n e FE hfe]
    simp only [if_pos hle, ← hq]
    rw [if_neg (by omega)]
  · have hs : 0 < (FE - e).toNat := by omega
    have := roundMag64_shr Q e (FE - e).toNat hs (by omega) hQ2 (Or.inl hQ1) (by omega)
    rw [← hq] at this
    rw [this]
    have e1 : e + ((FE - e).toNat : Int) = FE := by omega
    rw [e1, if_neg (by omega)]


/-! ## the soft-float operations on finite operands -/

theorem add_fin_fin (f : Fmt) (a b : Nat) (s : Bool) (m : Nat) (e : Int) (t : Bool) (n : Nat) (g : Int)
    (ha : unpack f a = .fin s m e) (hb : unpack f b = .fin t n g) :
    Num.add f a b =
      (let e0 := if e ≤ g then e else g
       let x : Int := (m * 2 ^ (e - e0).toNat : Nat)
       let y : Int := (n * 2 ^ (g - e0).toNat : Nat)
       let x := if s then -x else x
       let y := if t then -y else y
       let z := x + y
       if z == 0 then withSign f (s && t) 0 else roundPack f (z < 0) z.natAbs e0) := by
  unfold Num.add; rw [ha, hb]

theorem floor_fin (f : Fmt) (a : Nat) (s : Bool) (m : Nat) (e : Int) (ha : unpack f a = .fin s m e) :
    Num.floor f a =
      if e ≥ 0 then a
      else
        (let sh := (-e).toNat
         let q := m / 2 ^ sh
         let r := m % 2 ^ sh
         let q := if s && r != 0 then q + 1 else q
         roundPack f s q 0) := by
  unfold Num.floor; rw [ha]

theorem convert_fin (src dst : Fmt) (a : Nat) (s : Bool) (m : Nat) (e : Int)
    (ha : unpack src a = .fin s m e) : convert src dst a = roundPack dst s m e := by
  unfold convert; rw [ha]

theorem exists_jk64 (m : Nat) (h0 : 0 < m) (h : m < 9007199254740992) :
    ∃ j k, j + k = 52 ∧ 2^j ≤ m ∧ m < 2^(j+1) := by
  have hm : m ≠ 0 := by omega
  have hl : m.log2 < 53 := (Nat.log2_lt hm).2 (by omega)
  exact ⟨m.log2, 52 - m.log2, by omega, Nat.log2_self_le hm, Nat.lt_log2_self⟩

/-- normalising a `j+1`-bit number to 53 bits -/
theorem norm64 (m j k : Nat) (hjk : j + k = 52) (h1 : 2^j ≤ m) (h2 : m < 2^(j+1)) :
    4503599627370496 ≤ m * 2^k ∧ m * 2^k < 9007199254740992 := by
  constructor
  · have h : 2^j * 2^k = 4503599627370496 := by rw [← Nat.pow_add, hjk]
    have := Nat.mul_le_mul_right (2^k) h1
    omega
  · have h53 : j + 1 + k = 53 := by omega
    have h : 2^(j+1) * 2^k = 9007199254740992 := by rw [← Nat.pow_add, h53]
    have := (Nat.mul_lt_mul_right (Nat.two_pow_pos k)).2 h2
    omega

/-- stage 1: `float64(f)` is exact -/
theorem stage1 (a : Nat) (s : Bool) (m : Nat) (e : Int) (j k : Nat) (ha : unpack .f32 a = .fin s m e)
    (hjk : j + k = 52) (h1 : 2^j ≤ m) (h2 : m < 2^(j+1)) (he1 : -149 ≤ e) (he2 : e ≤ 104) :
    convert .f32 .f64 a = pack64 s (m * 2^k) (e - k) := by
  obtain ⟨hq1, hq2⟩ := norm64 m j k hjk h1 h2
  rw [convert_fin _ _ _ _ _ _ ha]
  apply roundPack64_exact _ _ _ _ _ hq1 hq2 (by omega) (by omega)
  left
  refine ⟨by omega, ?_⟩
  have : (e - (e - (k : Int))).toNat = k := by omega
  rw [this]

/-- stage 2: `* 64` is exact (exponent + 6) -/
theorem stage2 (c64 : Nat) (hc : unpack .f64 c64 = .fin false 4503599627370496 (-46))
    (s : Bool) (M : Nat) (E : Int) (hM1 : 4503599627370496 ≤ M) (hM2 : M < 9007199254740992)
    (hE1 : -1074 ≤ E) (hE2 : E + 1081 < 2047) :
    Num.mul .f64 (pack64 s M E) c64 = pack64 s M (E + 6) := by
  have hu := unpack_pack64 s M E hM1 hM2 hE1 (by omega)
  rw [mul_fin_fin _ _ _ _ _ _ _ _ _ hu hc, bne_false]
  apply roundPack64_exact _ _ _ _ _ hM1 hM2 (by omega) (by omega)
  right
  refine ⟨by omega, ?_⟩
  have : (E + 6 - (E + -46)).toNat = 52 := by omega
  rw [this]

/-! ## stages 3–5 when the addition of 0.5 is exact (`|64·f| ≥ 1/2`) -/

theorem stage3A (half : Nat) (hh : unpack .f64 half = .fin false 4503599627370496 (-53))
    (s : Bool) (mn a : Nat) (hmn1 : 8388608 ≤ mn) (hmn2 : mn < 16777216) (ha : a ≤ 14) :
    Num.add .f64 (pack64 s (mn * 536870912) ((a : Int) - 53)) half =
      (let Z' : Int := (if s then -(mn : Int) else (mn : Int)) + ((2^(23 - a) : Nat) : Int)
       if Z' = 0 then 0 else roundPack .f64 (decide (Z' < 0)) (Z'.natAbs * 2^(29 + a)) (-53)) := by
  have hu := unpack_pack64 s (mn * 536870912) ((a : Int) - 53) (by omega) (by omega) (by omega) (by omega)
  rw [add_fin_fin _ _ _ _ _ _ _ _ _ hu hh]
  have he0 : (if (a : Int) - 53 ≤ -53 then (a : Int) - 53 else -53) = -53 := by split <;> omega
  simp only [he0]
  have t1 : ((a : Int) - 53 - -53).toNat = a := by omega
  have t2 : ((-53 : Int) - -53).toNat = 0 := by omega
  simp only [t1, t2, Nat.pow_zero, Nat.mul_one, Bool.and_false, Bool.false_eq_true, if_false]
  -- factor out 2^(29+a)
  have hp : 0 < 2^(29 + a) := Nat.two_pow_pos _
  have e1 : mn * 536870912 * 2^a = mn * 2^(29 + a) := by
    rw [Nat.pow_add, Nat.mul_assoc]
  have e2 : (4503599627370496 : Nat) = 2^(23 - a) * 2^(29 + a) := by
    rw [← Nat.pow_add]; have : 23 - a + (29 + a) = 52 := by omega
    rw [this]
  rw [e1]
  conv => lhs; rw [e2]
  generalize 2^(29 + a) = P at *
  generalize 2^(23 - a) = R at *
  have hz : ((if s then -((mn * P : Nat) : Int) else ((mn * P : Nat) : Int)) + ((R * P : Nat) : Int)) =
      ((if s then -(mn : Int) else (mn : Int)) + (R : Int)) * (P : Int) := by
    cases s
    · simp only [Bool.false_eq_true, if_false, Int.natCast_mul, Int.add_mul]
    · simp only [if_true, Int.natCast_mul, Int.add_mul, Int.neg_mul]
  rw [hz]
  generalize ((if s then -(mn : Int) else (mn : Int)) + (R : Int)) = Z'
  have hP : (P : Int) ≠ 0 := by omega
  by_cases h0 : Z' = 0
  · subst h0; simp [withSign]
  · have hne : ¬ (Z' * (P : Int) = 0) := by
      intro h; rcases Int.mul_eq_zero.1 h with h | h
      · exact h0 h
      · exact hP h
    simp only [beq_iff_eq, hne, h0, if_false]
    have hneg : decide (Z' * (P : Int) < 0) = decide (Z' < 0) := by
      have hPpos : (0 : Int) < P := by omega
      by_cases hz0 : Z' < 0
      · have : Z' * (P : Int) < 0 := Int.mul_neg_of_neg_of_pos hz0 hPpos
        simp [hz0, this]
      · have : 0 ≤ Z' * (P : Int) := Int.mul_nonneg (by omega) (by omega)
        have h' : ¬ (Z' * (P : Int) < 0) := by omega
        simp [hz0, h']
    rw [hneg, Int.natAbs_mul, Int.natAbs_natCast]


/-- the integer-valued binary64 `±q` as `floor` produces it -/
def int64 (k : Int) : Nat := roundPack .f64 (decide (k < 0)) k.natAbs 0

/-- floor of a nonzero `±w·2^(a-24)` given as the (unnormalised) sum of stage 3 -/
theorem stage4A_nz (sz : Bool) (w a : Nat) (hw0 : 0 < w) (hw : w < 33554432) (ha : a ≤ 14) :
    roundPack .f64 sz (w * 2^(29 + a)) (-53) < 18446744073709551616 ∧
    Num.floor .f64 (roundPack .f64 sz (w * 2^(29 + a)) (-53)) =
      roundPack .f64 sz
        (if sz && w % 2^(24 - a) != 0 then w / 2^(24 - a) + 1 else w / 2^(24 - a)) 0 := by
  obtain ⟨jz, kz, hjk, h1, h2⟩ := exists_jk64 w hw0 (by omega)
  obtain ⟨hq1, hq2⟩ := norm64 w jz kz hjk h1 h2
  have hjz : jz < 25 := by
    rcases Nat.lt_or_ge jz 25 with h | h
    · exact h
    · have := Nat.pow_le_pow_right (n := 2) (by omega) h
      have c : (2:Nat)^25 = 33554432 := by decide
      rw [c] at this
      clear c
      omega
  have hpk : roundPack .f64 sz (w * 2^(29 + a)) (-53) = pack64 sz (w * 2^kz) ((a : Int) - 24 - kz) := by
    apply roundPack64_exact _ _ _ _ _ hq1 hq2 (by omega) (by omega)
    by_cases hc : kz ≥ a + 29
    · left
      refine ⟨by omega, ?_⟩
      have : ((-53 : Int) - ((a : Int) - 24 - kz)).toNat = kz - (29 + a) := by omega
      rw [this, Nat.mul_assoc, ← Nat.pow_add]
      congr 2; omega
    · right
      refine ⟨by omega, ?_⟩
      have : ((a : Int) - 24 - kz - -53).toNat = (29 + a) - kz := by omega
      rw [this, Nat.mul_assoc, ← Nat.pow_add]
      congr 2; omega
  rw [hpk]
  refine ⟨pack64_lt _ _ _ hq2 (by omega), ?_⟩
  have hu := unpack_pack64 sz (w * 2^kz) ((a : Int) - 24 - kz) hq1 hq2 (by omega) (by omega)
  rw [floor_fin _ _ _ _ _ hu, if_neg (by omega)]
  have hsh : (-((a : Int) - 24 - kz)).toNat = (24 - a) + kz := by omega
  simp only [hsh]
  have hp := Nat.two_pow_pos kz
  rw [Nat.pow_add, Nat.mul_div_mul_right _ _ hp, Nat.mul_mod_mul_right]
  have hr : (w % 2^(24 - a) * 2^kz != 0) = (w % 2^(24 - a) != 0) := by
    by_cases h0 : w % 2^(24 - a) = 0
    · rw [h0, Nat.zero_mul]
    · have : w % 2^(24 - a) * 2^kz ≠ 0 := Nat.mul_ne_zero h0 (by omega)
      rw [bne_iff_ne.2 this, bne_iff_ne.2 h0]
  rw [hr]


/-- the integer `floor` computes from magnitude `w`, unit `P` and sign: `k = ⌊±w / P⌋` -/
theorem floor_spec (w P : Nat) (hP : 0 < P) (sz : Bool) (hw : 0 < w) :
    ∀ q' : Nat, q' = (if sz && w % P != 0 then w / P + 1 else w / P) →
    ∀ k : Int, k = (if sz then -(q' : Int) else (q' : Int)) →
    ∀ Z : Int, Z = (if sz then -(w : Int) else (w : Int)) →
      k * P ≤ Z ∧ Z < (k + 1) * P ∧ (decide (k < 0)) = (sz && decide (0 < q')) ∧ k.natAbs = q' ∧
        (sz = true → 0 < q') := by
  intro q' hq' k hk Z hZ
  have hdm := Nat.div_add_mod w P
  have hr := Nat.mod_lt w hP
  generalize w / P = q0 at *
  generalize w % P = r at *
  have hdm' : (q0 : Int) * (P : Int) + r = w := by
    have : ((P * q0 + r : Nat) : Int) = (w : Int) := by rw [hdm]
    rw [Int.natCast_add, Int.natCast_mul, Int.mul_comm] at this
    exact this
  generalize hX : (q0 : Int) * (P : Int) = X at *
  have hXnn : 0 ≤ X := by rw [← hX]; exact Int.mul_nonneg (by omega) (by omega)
  have hq0pos : r = 0 → 0 < q0 := by
    intro h0
    rcases Nat.eq_zero_or_pos q0 with h | h
    · subst h; simp at hX; omega
    · exact h
  cases sz
  · simp only [Bool.false_and, Bool.false_eq_true, if_false] at hq' hk hZ
    subst hq' hk hZ
    rw [Int.add_mul, Int.one_mul, hX]
    refine ⟨by omega, by omega, by simp <;> omega, by omega, by intro h; cases h⟩
  · simp only [Bool.true_and, if_true] at hq' hk hZ
    by_cases h0 : r = 0
    · have hb : (r != 0) = false := by simp [h0]
      rw [hb] at hq'
      simp only [Bool.false_eq_true, if_false] at hq'
      have := hq0pos h0
      subst hq' hk hZ
      rw [Int.add_mul, Int.one_mul, Int.neg_mul, hX]
      refine ⟨by omega, by omega, by simp <;> omega, by omega, by intro _; omega⟩
    · have hb : (r != 0) = true := bne_iff_ne.2 h0
      rw [hb] at hq'
      simp only [if_true] at hq'
      subst hq' hk hZ
      have e1 : -(((q0 + 1 : Nat)) : Int) * (P : Int) = -X - P := by
        rw [Int.natCast_add, Int.neg_mul, Int.add_mul, hX]; simp; omega
      have e2 : (-(((q0 + 1 : Nat)) : Int) + 1) * (P : Int) = -X := by
        rw [Int.natCast_add]
        have : (-((q0 : Int) + ((1 : Nat) : Int)) + 1) = -(q0 : Int) := by omega
        rw [this, Int.neg_mul, hX]
      rw [e1, e2]
      refine ⟨by omega, by omega, by simp <;> omega, by omega, by intro _; omega⟩


theorem unpack64_zero : unpack .f64 0 = .fin false 0 (-1074) := by
  rw [unpack_f64]; simp [negB64]
theorem roundPack_zero (f : Fmt) (neg : Bool) (e : Int) : roundPack f neg 0 e = withSign f neg 0 := by
  simp [roundPack]
theorem floor_zero64 : Num.floor .f64 0 = 0 := by
  rw [floor_fin _ _ _ _ _ unpack64_zero, if_neg (by omega)]
  simp only [Nat.zero_div, Nat.zero_mod, Bool.false_and, Bool.false_eq_true, if_false, roundPack_zero,
    withSign]
theorem int64_zero : int64 0 = 0 := by
  simp [int64, roundPack_zero, withSign]

/-- stages 3 and 4 when `|64·f| ≥ 1/2`: `floor(y + 0.5)` is the integer `k = ⌊Z'/2^(24-a)⌋` where
    `Z'·2^(a-24) = 64·f + 1/2` exactly -/
theorem stage34A (half : Nat) (hh : unpack .f64 half = .fin false 4503599627370496 (-53))
    (s : Bool) (mn a : Nat) (hmn1 : 8388608 ≤ mn) (hmn2 : mn < 16777216) (ha : a ≤ 14) :
    ∃ k : Int,
      Num.add .f64 (pack64 s (mn * 536870912) ((a : Int) - 53)) half < 18446744073709551616 ∧
      Num.floor .f64 (Num.add .f64 (pack64 s (mn * 536870912) ((a : Int) - 53)) half) = int64 k ∧
      k * ((2^(24 - a) : Nat) : Int) ≤ (if s then -(mn : Int) else (mn : Int)) + ((2^(23 - a) : Nat) : Int) ∧
      (if s then -(mn : Int) else (mn : Int)) + ((2^(23 - a) : Nat) : Int) <
        (k + 1) * ((2^(24 - a) : Nat) : Int) := by
  rw [stage3A half hh s mn a hmn1 hmn2 ha]
  have hR : 2^(23 - a) ≤ 8388608 := by
    have := Nat.pow_le_pow_right (n := 2) (by omega) (show 23 - a ≤ 23 by omega)
    have c : (2:Nat)^23 = 8388608 := by decide
    rw [c] at this; exact this
  have hP := Nat.two_pow_pos (24 - a)
  simp only []
  generalize hZ : (if s then -(mn : Int) else (mn : Int)) + ((2^(23 - a) : Nat) : Int) = Z'
  by_cases h0 : Z' = 0
  · refine ⟨0, ?_, ?_, ?_, ?_⟩
    · rw [if_pos h0]; omega
    · rw [if_pos h0, floor_zero64, int64_zero]
    · rw [h0]; omega
    · rw [h0]; omega
  · rw [if_neg h0]
    have hw0 : 0 < Z'.natAbs := by omega
    have hw : Z'.natAbs < 33554432 := by
      generalize 2^(23 - a) = R at *
      cases s
      · simp only [Bool.false_eq_true, ↓reduceIte] at hZ; omega
      · simp only [↓reduceIte] at hZ; omega
    obtain ⟨hlt, hfl⟩ := stage4A_nz (decide (Z' < 0)) Z'.natAbs a hw0 hw ha
    have hZeq : Z' = if decide (Z' < 0) then -(Z'.natAbs : Int) else (Z'.natAbs : Int) := by
      by_cases hn : Z' < 0 <;> simp [hn] <;> omega
    generalize hq' : (if (decide (Z' < 0) && Z'.natAbs % 2 ^ (24 - a) != 0) = true
      then Z'.natAbs / 2 ^ (24 - a) + 1 else Z'.natAbs / 2 ^ (24 - a)) = q' at hfl
    generalize hk : (if decide (Z' < 0) then -(q' : Int) else (q' : Int)) = k
    obtain ⟨hs1, hs2, hs3, hs4, hs5⟩ := floor_spec Z'.natAbs (2^(24 - a)) hP (decide (Z' < 0)) hw0
      q' hq'.symm k hk.symm Z' hZeq
    refine ⟨k, hlt, ?_, hs1, hs2⟩
    rw [hfl]
    unfold int64
    rw [hs3, hs4]
    by_cases hn : Z' < 0
    · have := hs5 (by simp [hn])
      simp [hn, this]
    · simp [hn]


/-- stage 5: `float32(x)` of an integer-valued binary64 `x = ±q`, `q < 2^24`, is `float32(±q)` -/
theorem stage5 (k : Int) (hk : k.natAbs < 16777216) :
    int64 k < 18446744073709551616 ∧ convert .f64 .f32 (int64 k) = Num.ofInt .f32 k := by
  by_cases h0 : k = 0
  · subst h0
    rw [int64_zero, convert_fin _ _ _ _ _ _ unpack64_zero, roundPack_zero]
    refine ⟨by omega, ?_⟩
    simp [withSign, Num.ofInt]
  · have hq0 : 0 < k.natAbs := by omega
    obtain ⟨jq, kq, hjk, h1, h2⟩ := exists_jk64 k.natAbs hq0 (by omega)
    obtain ⟨hq1, hq2⟩ := norm64 k.natAbs jq kq hjk h1 h2
    have hjq : jq < 24 := by
      rcases Nat.lt_or_ge jq 24 with h | h
      · exact h
      · have := Nat.pow_le_pow_right (n := 2) (by omega) h
        have c : (2:Nat)^24 = 16777216 := by decide
        rw [c] at this
        clear c
        omega
    have hpk : int64 k = pack64 (decide (k < 0)) (k.natAbs * 2^kq) (-(kq : Int)) := by
      unfold int64
      apply roundPack64_exact _ _ _ _ _ hq1 hq2 (by omega) (by omega)
      left
      refine ⟨by omega, ?_⟩
      have : ((0 : Int) - -(kq : Int)).toNat = kq := by omega
      rw [this]
    rw [hpk]
    refine ⟨pack64_lt _ _ _ hq2 (by omega), ?_⟩
    have hu := unpack_pack64 (decide (k < 0)) (k.natAbs * 2^kq) (-(kq : Int)) hq1 hq2 (by omega) (by omega)
    have hn1 : k.natAbs * 2^kq ≠ 0 := by omega
    have hn2 : k.natAbs ≠ 0 := by omega
    rw [convert_fin _ _ _ _ _ _ hu, roundPack_pos _ _ _ _ hn1]
    have hki : (k == 0) = false := by simp [h0]
    simp only [Num.ofInt, hki, Bool.false_eq_true, if_false]
    rw [roundPack_pos _ _ _ _ hn2]
    -- both sides are the exactly normalised 24-bit mantissa
    have hmag : roundMag .f32 (k.natAbs * 2^kq) (-(kq : Int)) = roundMag .f32 k.natAbs 0 := by
      obtain ⟨hl, hl1, hl2⟩ := roundMag_shl k.natAbs 0 jq (23 - jq) (by omega) h1 h2 (by omega) (by omega)
      rw [hl]
      have hsplit : k.natAbs * 2^kq = k.natAbs * 2^(23 - jq) * 2^29 := by
        rw [Nat.mul_assoc, ← Nat.pow_add]; congr 2; omega
      rw [hsplit]
      have hr := roundMag_shr' (k.natAbs * 2^(23 - jq)) (-(kq : Int)) 29 (by omega) (by omega) hl2
        (Or.inl hl1) (by omega)
      rw [hr]
      have e1 : (-(kq : Int) + ((29 : Nat) : Int) + 149).toNat = 126 + jq := by omega
      have e2 : ((0 : Int) - ((23 - jq : Nat) : Int) + 149).toNat = 126 + jq := by omega
      rw [e1, e2, if_neg (by omega)]
    rw [hmag]

/-! ## stages 3–4 when `|64·f| < 1/2`: the sum may round, its floor is still 0 -/

/-- floor of a non-negative binary64 below 1.0 is +0 -/
theorem floor_small (b : Nat) (hb : b < 4607182418800017408) : Num.floor .f64 b = 0 := by
  have hu := unpack_f64 b
  have hneg : negB64 b = false := by
    unfold negB64
    have : b / 9223372036854775808 % 2 = 0 := by omega
    rw [this]; rfl
  have hex : b / 4503599627370496 % 2048 = b / 4503599627370496 := by omega
  rw [hneg, hex, if_neg (by omega)] at hu
  have hzero : ∀ m sh : Nat, m < 9007199254740992 → 53 ≤ sh →
      roundPack .f64 false (if false && m % 2^sh != 0 then m / 2^sh + 1 else m / 2^sh) 0 = 0 := by
    intro m sh hm hsh
    have hp : 9007199254740992 ≤ 2^sh := by
      have := Nat.pow_le_pow_right (n := 2) (by omega) hsh
      have c : (2:Nat)^53 = 9007199254740992 := by decide
      rw [c] at this; exact this
    have : m / 2^sh = 0 := Nat.div_eq_of_lt (by omega)
    simp only [Bool.false_and, Bool.false_eq_true, if_false, this, roundPack_zero, withSign]
  by_cases h0 : b / 4503599627370496 = 0
  · rw [if_pos h0] at hu
    rw [floor_fin _ _ _ _ _ hu, if_neg (by omega)]
    have : (-(-1074 : Int)).toNat = 1074 := by omega
    simp only [this]
    exact hzero _ 1074 (by omega) (by omega)
  · rw [if_neg h0] at hu
    rw [floor_fin _ _ _ _ _ hu, if_neg (by omega)]
    generalize hsh : (-(((b / 4503599627370496 : Nat) : Int) - 1075)).toNat = sh
    simp only []
    exact hzero _ sh (by omega) (by omega)


theorem lt_pow_bitLen (n : Nat) (hn : 0 < n) : n < 2^(bitLen n) := by
  have h0 : n ≠ 0 := by omega
  unfold bitLen
  have : (n == 0) = false := by simp [h0]
  rw [this]
  exact Nat.lt_log2_self

theorem bitLen_le_of_lt (n t : Nat) (h : n < 2^t) : bitLen n ≤ t := by
  unfold bitLen
  split
  · omega
  · rename_i h0
    have hn : n ≠ 0 := by simpa using h0
    have := (Nat.log2_lt hn).2 h
    omega

theorem roundMag_f64_q (m : Nat) (e fe : Int)
    (hfe : fe = if e + (bitLen m : Int) - 53 < -1074 then -1074 else e + (bitLen m : Int) - 53) :
    ∃ q : Nat,
      q = (if fe ≤ e then m * 2 ^ (e - fe).toNat
        else
          if m % 2 ^ (fe - e).toNat > 2 ^ ((fe - e).toNat - 1) ||
              (m % 2 ^ (fe - e).toNat == 2 ^ ((fe - e).toNat - 1) && m / 2 ^ (fe - e).toNat % 2 == 1)
          then m / 2 ^ (fe - e).toNat + 1 else m / 2 ^ (fe - e).toNat) ∧
      roundMag .f64 m e =
        if (fe + 1074).toNat * 4503599627370496 + q ≥ 9218868437227405312 then 9218868437227405312
        else (fe + 1074).toNat * 4503599627370496 + q :=
  ⟨_, rfl, roundMag_f64 m e fe hfe⟩

/-- generic upper bound: the rounded mantissa never exceeds `2^53` -/
theorem roundMag64_le (n : Nat) (e : Int) (hn : 0 < n) (fe : Int)
    (hfe : fe = if e + (bitLen n : Int) - 53 < -1074 then -1074 else e + (bitLen n : Int) - 53) :
    roundMag .f64 n e ≤ (fe + 1074).toNat * 4503599627370496 + 9007199254740992 := by
  obtain ⟨q, hq, hr⟩ := roundMag_f64_q n e fe hfe
  rw [hr]
  have hlt := lt_pow_bitLen n hn
  generalize bitLen n = bl at *
  have c53 : (2:Nat)^53 = 9007199254740992 := by decide
  have hqle : q ≤ 9007199254740992 := by
    rw [hq]
    by_cases hle : fe ≤ e
    · rw [if_pos hle]
      have hd : bl + (e - fe).toNat ≤ 53 := by split at hfe <;> omega
      have h1 : n * 2^(e - fe).toNat < 2^bl * 2^(e - fe).toNat :=
        (Nat.mul_lt_mul_right (Nat.two_pow_pos _)).2 hlt
      rw [← Nat.pow_add] at h1
      have h2 := Nat.pow_le_pow_right (n := 2) (by omega) hd
      rw [c53] at h2
      clear c53
      omega
    · rw [if_neg hle]
      have hd : bl ≤ (fe - e).toNat + 53 := by split at hfe <;> omega
      have h2 := Nat.pow_le_pow_right (n := 2) (by omega) hd
      rw [Nat.pow_add, c53] at h2
      have h3 : n / 2^(fe - e).toNat < 9007199254740992 :=
        Nat.div_lt_of_lt_mul (by omega)
      clear c53
      split <;> omega
  clear c53 hq
  split <;> omega


theorem withSign64_false (x : Nat) : withSign .f64 false x = x := by
  simp [withSign]

/-- rounding `2^52·P − M` at exponent `E'` (value just below 1/2) stays below 1.0 -/
theorem tiny_neg (M : Nat) (E' : Int) (d : Nat) (hd : (d : Int) = -53 - E') (hd1 : 1 ≤ d)
    (hM1 : 4503599627370496 ≤ M) (hM2 : M < 9007199254740992) (_hE1 : -1074 ≤ E') :
    roundMag .f64 (4503599627370496 * 2^d - M) E' < 4607182418800017408 := by
  have hP : 2 ≤ 2^d := by
    have := Nat.pow_le_pow_right (n := 2) (by omega) hd1
    simpa using this
  have hZ0 : 0 < 4503599627370496 * 2^d - M := by omega
  have hZlt : 4503599627370496 * 2^d - M < 2^(52 + d) := by
    rw [Nat.pow_add]
    have c : (2:Nat)^52 = 4503599627370496 := by decide
    rw [c]; clear c; omega
  have hbl := bitLen_le_of_lt _ _ hZlt
  have := roundMag64_le (4503599627370496 * 2^d - M) E' hZ0 _ rfl
  generalize bitLen (4503599627370496 * 2^d - M) = bl at *
  generalize roundMag .f64 (4503599627370496 * 2^d - M) E' = R at *
  split at this <;> omega

/-- rounding `2^52·P + M` at exponent `E'` (value in [1/2, 1)) stays below 1.0 -/
theorem tiny_pos (M : Nat) (E' : Int) (d : Nat) (hd : (d : Int) = -53 - E') (hd1 : 1 ≤ d)
    (hM1 : 4503599627370496 ≤ M) (hM3 : M ≤ 9007198717870080) (_hE1 : -1074 ≤ E') :
    roundMag .f64 (4503599627370496 * 2^d + M) E' < 4607182418800017408 := by
  have hP : 2 ≤ 2^d := by
    have := Nat.pow_le_pow_right (n := 2) (by omega) hd1
    simpa using this
  have hPpos : 0 < 2^d := by omega
  have c52 : (2:Nat)^52 = 4503599627370496 := by decide
  have hbl : bitLen (4503599627370496 * 2^d + M) = (52 + d) + 1 := by
    apply bitLen_eq
    · rw [Nat.pow_add, c52]; clear c52; omega
    · have : 52 + d + 1 = 53 + d := by omega
      rw [this, Nat.pow_add]
      have c53 : (2:Nat)^53 = 9007199254740992 := by decide
      rw [c53]; clear c52 c53; omega
  clear c52
  have hfe : (-53 : Int) = if E' + (bitLen (4503599627370496 * 2^d + M) : Int) - 53 < -1074 then -1074
      else E' + (bitLen (4503599627370496 * 2^d + M) : Int) - 53 := by
    rw [hbl]; split <;> omega
  obtain ⟨q, hq, hr⟩ := roundMag_f64_q _ E' (-53) hfe
  rw [hr]
  have hsh : ((-53 : Int) - E').toNat = d := by omega
  rw [if_neg (by omega), hsh] at hq
  have hq0 : (4503599627370496 * 2^d + M) / 2^d = 4503599627370496 + M / 2^d := by
    rw [Nat.mul_comm]; exact Nat.mul_add_div hPpos _ _
  have hMd : M / 2^d ≤ M / 2 := Nat.div_le_div_left hP (by omega)
  have hqle : q ≤ 4503599627370496 + M / 2 + 1 := by
    rw [hq, hq0]; split <;> omega
  clear hq hr
  split <;> omega

/-- stages 3 and 4 when `|64·f| < 1/2`: the sum rounds to something in (0, 1), whose floor is +0 -/
theorem stage34B (half : Nat) (hh : unpack .f64 half = .fin false 4503599627370496 (-53))
    (s : Bool) (M : Nat) (E' : Int) (hM1 : 4503599627370496 ≤ M) (hM3 : M ≤ 9007198717870080)
    (hE1 : -1074 ≤ E') (hE2 : E' ≤ -54) :
    Num.add .f64 (pack64 s M E') half < 18446744073709551616 ∧
    Num.floor .f64 (Num.add .f64 (pack64 s M E') half) = 0 := by
  have hu := unpack_pack64 s M E' hM1 (by omega) hE1 (by omega)
  have hlt : Num.add .f64 (pack64 s M E') half < 4607182418800017408 := by
    rw [add_fin_fin _ _ _ _ _ _ _ _ _ hu hh]
    have he0 : (if E' ≤ -53 then E' else -53) = E' := by rw [if_pos (by omega)]
    simp only [he0]
    have t1 : (E' - E').toNat = 0 := by omega
    obtain ⟨d, hd⟩ : ∃ d : Nat, (d : Int) = -53 - E' := ⟨(-53 - E').toNat, by omega⟩
    have t2 : ((-53 : Int) - E').toNat = d := by omega
    simp only [t1, t2, Nat.pow_zero, Nat.mul_one, Bool.false_eq_true, if_false, Bool.and_false]
    have hP : 2 ≤ 2^d := by
      have := Nat.pow_le_pow_right (n := 2) (by omega) (show 1 ≤ d by omega)
      simpa using this
    cases s
    · simp only [Bool.false_eq_true, if_false]
      have e1 : ((M : Int) + ((4503599627370496 * 2^d : Nat) : Int)) =
          ((4503599627370496 * 2^d + M : Nat) : Int) := by
        rw [Int.natCast_add]; omega
      rw [e1]
      have hz : ¬ (((4503599627370496 * 2^d + M : Nat) : Int) == 0) = true := by
        simp only [beq_iff_eq]; omega
      have hn : ¬ (((4503599627370496 * 2^d + M : Nat) : Int) < 0) := by omega
      rw [if_neg hz, Int.natAbs_natCast, roundPack_pos _ _ _ _ (by omega)]
      simp only [hn, decide_false, withSign64_false]
      exact tiny_pos M E' d hd (by omega) hM1 hM3 hE1
    · simp only [if_true]
      have e1 : (-(M : Int) + ((4503599627370496 * 2^d : Nat) : Int)) =
          ((4503599627370496 * 2^d - M : Nat) : Int) := by omega
      rw [e1]
      have hz : ¬ (((4503599627370496 * 2^d - M : Nat) : Int) == 0) = true := by
        simp only [beq_iff_eq]; omega
      have hn : ¬ (((4503599627370496 * 2^d - M : Nat) : Int) < 0) := by omega
      rw [if_neg hz, Int.natAbs_natCast, roundPack_pos _ _ _ _ (by omega)]
      simp only [hn, decide_false, withSign64_false]
      exact tiny_neg M E' d hd (by omega) hM1 (by omega) hE1
  exact ⟨by omega, floor_small _ hlt⟩

/-! ## wrappers and constants -/

set_option maxRecDepth 100000 in
theorem unpack64_c64 : unpack .f64 (F64.ofInt 64).nb = .fin false 4503599627370496 (-46) := by
  decide +kernel
set_option maxRecDepth 100000 in
theorem unpack64_half : unpack .f64 Enc.f64Half.nb = .fin false 4503599627370496 (-53) := by
  decide +kernel
theorem nb_m128 : (F32.ofInt (-128)).nb = 3271557120 := by decide
theorem nb_128 : (F32.ofInt 128).nb = 1124073472 := by decide

theorem nb64_ofNatBits (n : Nat) (h : n < 18446744073709551616) : (F64.ofNatBits n).nb = n := by
  simp only [F64.nb, F64.ofNatBits, UInt64.toNat_ofNat']
  omega

theorem toOrd_f32 (x : Nat) (hx : Num.isNaN .f32 x = false) :
    toOrd .f32 x = some (if x ≥ 2147483648 then -((x - 2147483648 : Nat) : Int) else (x : Int)) := by
  simp only [toOrd, hx, signBit_f32, Bool.false_eq_true, if_false]
  split <;> rfl

/-- the model's float guard `-128 ≤ f < 128`, on bits -/
theorem range_bits (f : F32) (h1 : F32.ofInt (-128) ≤ f) (h2 : f < F32.ofInt 128) :
    f.isNaN = false ∧ (f.nb < 2147483648 → f.nb < 1124073472) ∧
      (2147483648 ≤ f.nb → f.nb - 2147483648 ≤ 1124073472) := by
  have h1' : Num.le .f32 (F32.ofInt (-128)).nb f.nb = true := h1
  have h2' : Num.lt .f32 f.nb (F32.ofInt 128).nb = true := h2
  rw [nb_m128] at h1'
  rw [nb_128] at h2'
  have hn : Num.isNaN .f32 f.nb = false := by
    cases hc : Num.isNaN .f32 f.nb with
    | false => rfl
    | true => simp [Num.lt, toOrd, hc] at h2'
  have c1 : Num.isNaN .f32 3271557120 = false := by decide
  have c2 : Num.isNaN .f32 1124073472 = false := by decide
  simp only [Num.le, Num.lt, toOrd_f32 _ hn, toOrd_f32 _ c1, toOrd_f32 _ c2, decide_eq_true_eq] at h1' h2'
  refine ⟨hn, ?_, ?_⟩
  · intro h; rw [if_neg (by omega)] at h2'; simp at h2'; omega
  · intro h; rw [if_pos (by omega)] at h1'; simp at h1'; omega


theorem scale_spec (k sm : Int) (P R T Q2 S : Nat) (hPT : P * T = 2^150) (hRT : R * T = 2^149)
    (hQT : Q2 * T = 128 * S) (hT : 0 < T) (h1 : k * (P : Int) ≤ sm * (Q2 : Int) + (R : Int))
    (h2 : sm * (Q2 : Int) + (R : Int) < (k + 1) * (P : Int)) :
    k * 2^150 ≤ 128 * (sm * (S : Int)) + 2^149 ∧ 128 * (sm * (S : Int)) + 2^149 < (k + 1) * 2^150 := by
  have e1 : (P : Int) * (T : Int) = ((2^150 : Nat) : Int) := by rw [← Int.natCast_mul, hPT]
  have e2 : (R : Int) * (T : Int) = ((2^149 : Nat) : Int) := by rw [← Int.natCast_mul, hRT]
  have e3 : (Q2 : Int) * (T : Int) = 128 * (S : Int) := by
    rw [← Int.natCast_mul, hQT, Int.natCast_mul]; rfl
  have hTnn : (0 : Int) ≤ T := by omega
  have hTpos : (0 : Int) < T := by omega
  have m1 := Int.mul_le_mul_of_nonneg_right h1 hTnn
  have m2 := Int.mul_lt_mul_of_pos_right h2 hTpos
  rw [Int.mul_assoc, e1, Int.add_mul, Int.mul_assoc, e3, e2, Int.mul_left_comm] at m1
  rw [Int.mul_assoc (k + 1), e1, Int.add_mul, Int.mul_assoc, e3, e2, Int.mul_left_comm] at m2
  generalize sm * (S : Int) = X at *
  constructor <;> omega

theorem k_bound (k Z' : Int) (P : Nat) (hP : 1024 ≤ P) (hZ : Z'.natAbs < 33554432)
    (h1 : k * (P : Int) ≤ Z') (h2 : Z' < (k + 1) * (P : Int)) : k.natAbs < 16777216 := by
  have hPnn : (0 : Int) ≤ P := by omega
  by_cases hk : k < 32769
  · by_cases hk' : -32770 < k
    · omega
    · have : (k + 1) * (P : Int) ≤ (-32769) * (P : Int) :=
        Int.mul_le_mul_of_nonneg_right (by omega) hPnn
      omega
  · have : 32769 * (P : Int) ≤ k * (P : Int) := Int.mul_le_mul_of_nonneg_right (by omega) hPnn
    omega

/-- `f·2^149` as an integer, from the unpacked triple -/
def scaledOf (s : Bool) (m : Nat) (e : Int) : Int :=
  (if s then -(m : Int) else (m : Int)) * ((2^(e + 149).toNat : Nat) : Int)

theorem f64_mul_def (a b : F64) : a * b = F64.mul a b := rfl
theorem f64_add_def (a b : F64) : a + b = F64.add a b := rfl

/-- the five stages chained, for a nonzero finite `f = ±m·2^e` with `|f| ≤ 128` -/
theorem quantize_core (f : F32) (s : Bool) (m : Nat) (e : Int) (j : Nat)
    (hu : unpack .f32 f.nb = .fin s m e) (h1 : 2^j ≤ m) (h2 : m < 2^(j+1)) (hj : j ≤ 23)
    (he : -149 ≤ e) (hje : e + j ≤ 7) :
    ∃ k : Int, k.natAbs < 16777216 ∧
      ((F64.ofF32 f * F64.ofInt 64 + Enc.f64Half).floor).toF32 = F32.ofInt k ∧
      k * 2^150 ≤ 128 * scaledOf s m e + 2^149 ∧ 128 * scaledOf s m e + 2^149 < (k + 1) * 2^150 := by
  -- stage 1
  obtain ⟨hM1, hM2⟩ := norm64 m j (52 - j) (by omega) h1 h2
  have hs1 := stage1 f.nb s m e j (52 - j) hu (by omega) h1 h2 he (by omega)
  have hc : (F64.ofF32 f).nb = pack64 s (m * 2^(52 - j)) (e - ((52 - j : Nat) : Int)) := by
    unfold F64.ofF32
    rw [hs1, nb64_ofNatBits _ (pack64_lt _ _ _ hM2 (by omega))]
  -- stage 2
  have hs2 := stage2 (F64.ofInt 64).nb unpack64_c64 s (m * 2^(52 - j)) (e - ((52 - j : Nat) : Int))
    hM1 hM2 (by omega) (by omega)
  have hy : (F64.ofF32 f * F64.ofInt 64).nb =
      pack64 s (m * 2^(52 - j)) (e - ((52 - j : Nat) : Int) + 6) := by
    rw [f64_mul_def]; unfold F64.mul
    rw [hc, hs2, nb64_ofNatBits _ (pack64_lt _ _ _ hM2 (by omega))]
  -- the 24-bit normalised mantissa
  have hsplit : m * 2^(52 - j) = m * 2^(23 - j) * 536870912 := by
    have c : (536870912 : Nat) = 2^29 := by decide
    rw [c, Nat.mul_assoc, ← Nat.pow_add]; congr 2; omega
  obtain ⟨hl1, hl2⟩ : 8388608 ≤ m * 2^(23 - j) ∧ m * 2^(23 - j) < 16777216 := by omega
  -- reduce the goal to: floor (y + 1/2) = int64 k with the spec
  suffices hmain : ∃ k : Int, k.natAbs < 16777216 ∧
      Num.add .f64 (F64.ofF32 f * F64.ofInt 64).nb Enc.f64Half.nb < 18446744073709551616 ∧
      Num.floor .f64 (Num.add .f64 (F64.ofF32 f * F64.ofInt 64).nb Enc.f64Half.nb) = int64 k ∧
      k * 2^150 ≤ 128 * scaledOf s m e + 2^149 ∧ 128 * scaledOf s m e + 2^149 < (k + 1) * 2^150 by
    obtain ⟨k, hk, hlt, hfl, hsp1, hsp2⟩ := hmain
    refine ⟨k, hk, ?_, hsp1, hsp2⟩
    obtain ⟨h5a, h5b⟩ := stage5 k hk
    rw [f64_add_def]
    unfold F64.add F64.floor F64.toF32
    rw [nb64_ofNatBits _ hlt, hfl, nb64_ofNatBits _ h5a, h5b]
    rfl
  rw [hy]
  by_cases hA : 0 ≤ e + j + 7
  · -- the addition is exact
    obtain ⟨a, ha⟩ : ∃ a : Nat, (a : Int) = e + j + 7 := ⟨(e + j + 7).toNat, by omega⟩
    have ha14 : a ≤ 14 := by omega
    have hE : e - ((52 - j : Nat) : Int) + 6 = (a : Int) - 53 := by omega
    rw [hE, hsplit]
    obtain ⟨k, hlt, hfl, hsp1, hsp2⟩ := stage34A _ unpack64_half s (m * 2^(23 - j)) a hl1 hl2 ha14
    have hP : 1024 ≤ 2^(24 - a) := by
      have := Nat.pow_le_pow_right (n := 2) (by omega) (show 10 ≤ 24 - a by omega)
      simpa using this
    have hR : 2^(23 - a) ≤ 8388608 := by
      have := Nat.pow_le_pow_right (n := 2) (by omega) (show 23 - a ≤ 23 by omega)
      simpa using this
    have hZb : ((if s then -((m * 2^(23 - j) : Nat) : Int) else ((m * 2^(23 - j) : Nat) : Int)) +
        ((2^(23 - a) : Nat) : Int)).natAbs < 33554432 := by
      generalize m * 2^(23 - j) = mn at *
      generalize 2^(23 - a) = R at *
      cases s
      · simp only [Bool.false_eq_true, ↓reduceIte]; omega
      · simp only [↓reduceIte]; omega
    have hkb := k_bound k _ _ hP hZb hsp1 hsp2
    have hconv : (if s then -((m * 2^(23 - j) : Nat) : Int) else ((m * 2^(23 - j) : Nat) : Int)) =
        (if s then -(m : Int) else (m : Int)) * ((2^(23 - j) : Nat) : Int) := by
      cases s
      · simp only [Bool.false_eq_true, ↓reduceIte, Int.natCast_mul]
      · simp only [↓reduceIte, Int.natCast_mul, Int.neg_mul]
    rw [hconv] at hsp1 hsp2
    obtain ⟨n, hn⟩ : ∃ n : Nat, (n : Int) = e + 149 := ⟨(e + 149).toNat, by omega⟩
    have hnn : (e + 149).toNat = n := by omega
    have hspec := scale_spec k (if s then -(m : Int) else (m : Int)) (2^(24 - a)) (2^(23 - a))
      (2^(126 + a)) (2^(23 - j)) (2^n)
      (by rw [← Nat.pow_add]; congr 1; omega) (by rw [← Nat.pow_add]; congr 1; omega)
      (by
        have c : (128 : Nat) = 2^7 := by decide
        rw [c, ← Nat.pow_add, ← Nat.pow_add]; congr 1; omega)
      (Nat.two_pow_pos _) hsp1 hsp2
    unfold scaledOf
    rw [hnn]
    exact ⟨k, hkb, hlt, hfl, hspec.1, hspec.2⟩
  · -- |64 f| < 1/2
    have hE1 : -1074 ≤ e - ((52 - j : Nat) : Int) + 6 := by omega
    have hE2 : e - ((52 - j : Nat) : Int) + 6 ≤ -54 := by omega
    obtain ⟨hlt, hfl⟩ := stage34B _ unpack64_half s (m * 2^(52 - j)) _ hM1 (by omega) hE1 hE2
    refine ⟨0, by decide, hlt, by rw [hfl, int64_zero], ?_, ?_⟩
    all_goals
      obtain ⟨n, hn⟩ : ∃ n : Nat, (n : Int) = e + 149 := ⟨(e + 149).toNat, by omega⟩
      have hnn : (e + 149).toNat = n := by omega
      unfold scaledOf
      rw [hnn]
      have hb1 : m * 2^n < 2^(j + 1) * 2^n := (Nat.mul_lt_mul_right (Nat.two_pow_pos _)).2 h2
      rw [← Nat.pow_add] at hb1
      have hb2 := Nat.pow_le_pow_right (n := 2) (by omega) (show j + 1 + n ≤ 142 by omega)
      have c : (2:Nat)^142 = 5575186299632655785383929568162090376495104 := by decide
      rw [c] at hb2
      clear c
      have hcast : ((2^n : Nat) : Int) * 1 = ((2^n : Nat) : Int) := Int.mul_one _
      cases s
      · simp only [Bool.false_eq_true, ↓reduceIte, ← Int.natCast_mul]
        generalize m * 2^n = X at *
        omega
      · simp only [↓reduceIte, Int.neg_mul, ← Int.natCast_mul]
        generalize m * 2^n = X at *
        omega


/-! ## the headline theorem -/

/-- `f·2^149` as an integer, for every finite float32 (normal or subnormal) -/
def scaled (f : F32) : Int :=
  (if sgn f = 1 then -((if expo f = 0 then mant f else mant f + 8388608 : Nat) : Int)
   else ((if expo f = 0 then mant f else mant f + 8388608 : Nat) : Int)) *
    ((2^(expo f - 1) : Nat) : Int)

theorem quantize_eq (f : F32) (h1 : F32.ofInt (-128) ≤ f) (h2 : f < F32.ofInt 128) :
    Enc.quantize false f =
      ((F64.ofF32 f * F64.ofInt 64 + Enc.f64Half).floor).toF32 / F32.ofInt 64 := by
  simp only [Enc.quantize]
  rw [if_pos ⟨by rfl, h1, h2⟩]

set_option maxRecDepth 100000 in
theorem quantize_zeros :
    ((F64.ofF32 ⟨0⟩ * F64.ofInt 64 + Enc.f64Half).floor).toF32 = F32.ofInt 0 ∧
    ((F64.ofF32 ⟨0x80000000⟩ * F64.ofInt 64 + Enc.f64Half).floor).toF32 = F32.ofInt 0 := by
  decide +kernel

/-- **`quantize` rounds to the nearest multiple of 1/64, ties up**, for every float32 in the guarded
    range: the result is `float32(k)/64` where `k = ⌊64·f + 1/2⌋`, stated on the exact integer
    `scaled f = f·2^149`:  `k·2^150 ≤ 128·(f·2^149) + 2^149 < (k+1)·2^150`, i.e.
    `k ≤ 64·f + 1/2 < k + 1`, i.e. `64·f − 1/2 < k ≤ 64·f + 1/2`. -/
theorem quantize_nearest (f : F32) (h1 : F32.ofInt (-128) ≤ f) (h2 : f < F32.ofInt 128) :
    ∃ k : Int, -8192 ≤ k ∧ k ≤ 8192 ∧
      Enc.quantize false f = F32.ofInt k / F32.ofInt 64 ∧
      k * 2^150 ≤ 128 * scaled f + 2^149 ∧ 128 * scaled f + 2^149 < (k + 1) * 2^150 := by
  rw [quantize_eq f h1 h2]
  obtain ⟨hnan, hpos, hneg⟩ := range_bits f h1 h2
  obtain ⟨hf, hs, hex, hmt⟩ := nb_fields f
  have hnb := nb_lt f
  by_cases hz : f.nb % 2147483648 = 0
  · -- ±0
    have hsc : scaled f = 0 := by
      have h1 : expo f = 0 := by omega
      have h2 : mant f = 0 := by omega
      simp [scaled, h1, h2]
    refine ⟨0, by omega, by omega, ?_, by rw [hsc]; omega, by rw [hsc]; omega⟩
    rcases zero_cases f hz with rfl | rfl
    · rw [quantize_zeros.1]
    · rw [quantize_zeros.2]
  · -- the magnitude bits are at most those of 128.0, with equality only for -128
    have hex134 : expo f ≤ 134 := by omega
    have hsuff : ∀ (s : Bool) (m : Nat) (e : Int) (j : Nat), unpack .f32 f.nb = .fin s m e →
        2^j ≤ m → m < 2^(j+1) → j ≤ 23 → -149 ≤ e → e + j ≤ 7 →
        scaledOf s m e = scaled f → -(2:Int)^156 ≤ scaled f → scaled f < 2^156 →
        ∃ k : Int, -8192 ≤ k ∧ k ≤ 8192 ∧
          ((F64.ofF32 f * F64.ofInt 64 + Enc.f64Half).floor).toF32 / F32.ofInt 64 =
            F32.ofInt k / F32.ofInt 64 ∧
          k * 2^150 ≤ 128 * scaled f + 2^149 ∧ 128 * scaled f + 2^149 < (k + 1) * 2^150 := by
      intro s m e j hu h1' h2' hj he hje hsc hlo hhi
      obtain ⟨k, _, hq, hs1, hs2⟩ := quantize_core f s m e j hu h1' h2' hj he hje
      rw [hsc] at hs1 hs2
      exact ⟨k, by omega, by omega, by rw [hq], hs1, hs2⟩
    by_cases hex0 : expo f = 0
    · -- subnormal
      have hm0 : 0 < mant f := by omega
      obtain ⟨j, kk, hjk, hj1, hj2⟩ := exists_jk (mant f) hm0 (by omega)
      have hj22 : j ≤ 22 := by
        rcases Nat.lt_or_ge j 23 with h | h
        · omega
        · have := Nat.pow_le_pow_right (n := 2) (by omega) h
          have c : (2:Nat)^23 = 8388608 := by decide
          rw [c] at this
          clear c
          omega
      have hu := unpack_f32 f.nb
      have e1 : f.nb / 8388608 % 256 = 0 := hex0
      have e2 : f.nb % 8388608 = mant f := rfl
      rw [e1, e2, if_neg (by omega), if_pos rfl] at hu
      have hsg : negB f.nb = decide (sgn f = 1) := by
        unfold negB
        have : f.nb / 2147483648 % 2 = sgn f := by
          show f.nb / 2147483648 % 2 = f.nb / 2147483648
          omega
        rw [this]
        by_cases h : sgn f = 1 <;> simp [h]
      have hsc : scaledOf (negB f.nb) (mant f) (-149) = scaled f := by
        unfold scaledOf scaled
        rw [hsg, hex0]
        by_cases h : sgn f = 1 <;> simp [h]
      have hval : scaled f = if sgn f = 1 then -(mant f : Int) else (mant f : Int) := by
        unfold scaled; rw [hex0]; by_cases h : sgn f = 1 <;> simp [h]
      exact hsuff _ _ _ j hu hj1 hj2 (by omega) (by omega) (by omega) hsc
        (by rw [hval]; split <;> omega) (by rw [hval]; split <;> omega)
    · -- normal
      have hu := unpack_normal (sgn f) (expo f) (mant f) hs (by omega) (by omega) hmt
      rw [← hf] at hu
      have hsc : scaledOf (sgn f == 1) (mant f + 8388608) ((expo f : Int) - 150) = scaled f := by
        unfold scaledOf scaled
        have : ((expo f : Int) - 150 + 149).toNat = expo f - 1 := by omega
        rw [this, if_neg hex0]
        by_cases h : sgn f = 1 <;> simp [h]
      have c23 : (2:Nat)^23 ≤ mant f + 8388608 := by
        have c : (2:Nat)^23 = 8388608 := by decide
        rw [c]; clear c; omega
      have c24 : mant f + 8388608 < (2:Nat)^(23 + 1) := by
        have c : (2:Nat)^(23+1) = 16777216 := by decide
        rw [c]; clear c; omega
      -- magnitude bound: below 2^156, or exactly 2^156 for -128
      have hmag : (mant f + 8388608) * 2^(expo f - 1) ≤ 2^156 ∧
          (sgn f = 0 → (mant f + 8388608) * 2^(expo f - 1) < 2^156) := by
        by_cases h134 : expo f = 134
        · have hm0 : mant f = 0 := by omega
          have hsg : sgn f = 1 := by omega
          rw [h134, hm0]
          exact ⟨by decide, by omega⟩
        · have hp := Nat.pow_le_pow_right (n := 2) (by omega) (show expo f - 1 ≤ 132 by omega)
          have hmul := Nat.mul_le_mul (show mant f + 8388608 ≤ 16777215 by omega) hp
          have c : 16777215 * 2^132 < 2^156 := by decide
          exact ⟨by omega, fun _ => by omega⟩
      have hval : scaled f = if sgn f = 1 then -(((mant f + 8388608) * 2^(expo f - 1) : Nat) : Int)
          else (((mant f + 8388608) * 2^(expo f - 1) : Nat) : Int) := by
        unfold scaled; rw [if_neg hex0]
        by_cases h : sgn f = 1 <;> simp [h, Int.natCast_mul, Int.neg_mul]
      have c156 : ((2^156 : Nat) : Int) = 2^156 := by decide
      generalize (mant f + 8388608) * 2^(expo f - 1) = X at *
      exact hsuff _ _ _ 23 hu c23 c24 (by omega) (by omega) (by omega) hsc
        (by rw [hval]; split <;> omega) (by rw [hval]; split <;> omega)

/-! ## corollaries -/

/-- high-resolution coordinates are not quantised -/
theorem quantize_hi (f : F32) : Enc.quantize true f = f := by
  simp [Enc.quantize]

/-- outside the guard (including NaN, ±Inf and exactly 128) the value is left alone -/
theorem quantize_out_of_range (f : F32) (h : ¬ (F32.ofInt (-128) ≤ f ∧ f < F32.ofInt 128)) :
    Enc.quantize false f = f := by
  simp only [Enc.quantize]
  rw [if_neg]
  intro hc; exact h ⟨hc.2.1, hc.2.2⟩

/-- bits of `float32(k)/64` for `0 < |k| < 2^24` -/
theorem ofInt_div64_bits (k : Int) (h0 : k ≠ 0) (hk : k.natAbs < 16777216) :
    ∃ kk : Nat, kk ≤ 23 ∧ 8388608 ≤ k.natAbs * 2^kk ∧ k.natAbs * 2^kk < 16777216 ∧
      (F32.ofInt k / F32.ofInt 64).nb = (if k < 0 then 1 else 0) * 2147483648 + (144 - kk) * 8388608 +
        (k.natAbs * 2^kk - 8388608) := by
  obtain ⟨kk, hkk, hq1, hq2, hnb, _⟩ := ofInt_small k h0 hk
  have hex : expo (F32.ofInt k) = 150 - kk := by
    rw [expo_nb, hnb]; split <;> omega
  have hd := div64_nb (F32.ofInt k) (by omega) (by omega)
  refine ⟨kk, hkk, hq1, hq2, ?_⟩
  rw [hd, hnb]; split <;> omega

theorem ofInt_div64_not_nan (k : Int) (hk : k.natAbs < 16777216) :
    (F32.ofInt k / F32.ofInt 64).isNaN = false := by
  by_cases h0 : k = 0
  · subst h0; decide
  · obtain ⟨kk, hkk, hq1, hq2, hnb⟩ := ofInt_div64_bits k h0 hk
    rw [isNaN_nb, hnb]
    simp only [decide_eq_false_iff_not]
    split <;> omega

/-- the quantised value always takes a short (1- or 2-byte) coordinate form, or is exactly 128.0 -/
theorem quantize_short (f : F32) (h1 : F32.ofInt (-128) ≤ f) (h2 : f < F32.ofInt 128) :
    (Enc.encodeCoordinate (Enc.quantize false f)).length ≠ 4 ∨ Enc.quantize false f = F32.ofInt 128 := by
  obtain ⟨k, hk1, hk2, hq, _, _⟩ := quantize_nearest f h1 h2
  rw [hq]
  by_cases h : k = 8192
  · right; subst h; decide
  · left
    exact (coord_short_iff _).2 ⟨k, hk1, by omega, feq_self _ (ofInt_div64_not_nan k (by omega))⟩


/-- converse of `range_bits` -/
theorem range_of_bits (f : F32) (hn : f.isNaN = false) (hpos : f.nb < 2147483648 → f.nb < 1124073472)
    (hneg : 2147483648 ≤ f.nb → f.nb - 2147483648 ≤ 1124073472) :
    F32.ofInt (-128) ≤ f ∧ f < F32.ofInt 128 := by
  have hn' : Num.isNaN .f32 f.nb = false := hn
  have c1 : Num.isNaN .f32 3271557120 = false := by decide
  have c2 : Num.isNaN .f32 1124073472 = false := by decide
  have hb := nb_lt f
  constructor
  · show Num.le .f32 (F32.ofInt (-128)).nb f.nb = true
    rw [nb_m128]
    simp only [Num.le, toOrd_f32 _ hn', toOrd_f32 _ c1, decide_eq_true_eq]
    split <;> simp <;> omega
  · show Num.lt .f32 f.nb (F32.ofInt 128).nb = true
    rw [nb_128]
    simp only [Num.lt, toOrd_f32 _ hn', toOrd_f32 _ c2, decide_eq_true_eq]
    split <;> simp <;> omega

theorem fields_of_nb (f : F32) (sg ex mt : Nat) (h : f.nb = sg * 2147483648 + ex * 8388608 + mt)
    (_hs : sg < 2) (hex : ex < 256) (hmt : mt < 8388608) : sgn f = sg ∧ expo f = ex ∧ mant f = mt := by
  have e : f.bits.toNat = f.nb := rfl
  simp only [sgn, expo, mant, e, h]
  refine ⟨by omega, by omega, by omega⟩

theorem div64_zero : F32.ofInt 0 / F32.ofInt 64 = ⟨0⟩ := by decide

/-- `float32(k)/64` is `k/64` exactly: scaled by 2^149 it is `k·2^143` -/
theorem scaled_ofInt_div64 (k : Int) (hk : k.natAbs < 16777216) :
    scaled (F32.ofInt k / F32.ofInt 64) = k * 2^143 := by
  by_cases h0 : k = 0
  · subst h0; rw [div64_zero]
    have : scaled ⟨0⟩ = 0 := by
      have h1 : expo ⟨0⟩ = 0 := by decide
      have h2 : mant ⟨0⟩ = 0 := by decide
      simp [scaled, h1, h2]
    rw [this]; omega
  · obtain ⟨kk, hkk, hq1, hq2, hnb⟩ := ofInt_div64_bits k h0 hk
    obtain ⟨hs, he, hm⟩ := fields_of_nb _ _ _ _ hnb (by split <;> omega) (by omega) (by omega)
    have hex0 : ¬ (144 - kk = 0) := by omega
    have e1 : k.natAbs * 2^kk - 8388608 + 8388608 = k.natAbs * 2^kk := by omega
    have e2 : k.natAbs * 2^kk * 2^(144 - kk - 1) = k.natAbs * 2^143 := by
      have : kk + (144 - kk - 1) = 143 := by omega
      rw [Nat.mul_assoc, ← Nat.pow_add, this]
    have c : ((2^143 : Nat) : Int) = 2^143 := by rw [Int.natCast_pow]; rfl
    unfold scaled
    rw [he, hm, if_neg hex0, e1]
    by_cases hneg : k < 0
    · rw [if_pos hneg] at hs
      rw [hs, if_pos rfl, Int.neg_mul, ← Int.natCast_mul, e2, Int.natCast_mul, c]
      have : (k.natAbs : Int) = -k := by omega
      rw [this, Int.neg_mul, Int.neg_neg]
    · rw [if_neg hneg] at hs
      have h10 : ¬ ((0 : Nat) = 1) := by omega
      rw [hs, if_neg h10, ← Int.natCast_mul, e2, Int.natCast_mul, c]
      have : (k.natAbs : Int) = k := by omega
      rw [this]

/-- multiples of 1/64 in [-128, 128) satisfy the float guard -/
theorem ofInt_div64_in_range (k : Int) (h1 : -8192 ≤ k) (h2 : k < 8192) :
    F32.ofInt (-128) ≤ F32.ofInt k / F32.ofInt 64 ∧ F32.ofInt k / F32.ofInt 64 < F32.ofInt 128 := by
  by_cases h0 : k = 0
  · subst h0; rw [div64_zero]; decide
  · obtain ⟨kk, hkk, hq1, hq2, hnb⟩ := ofInt_div64_bits k h0 (by omega)
    have hkk10 : 10 ≤ kk := by
      rcases Nat.lt_or_ge kk 10 with h | h
      · have hp := Nat.pow_le_pow_right (n := 2) (by omega) (show kk ≤ 9 by omega)
        have hm := Nat.mul_le_mul (show k.natAbs ≤ 8192 by omega) hp
        have c : 8192 * 2^9 = 4194304 := by decide
        omega
      · exact h
    have hkk10' : kk = 10 → k < 0 ∧ k.natAbs * 2^kk = 8388608 := by
      intro h; subst h
      have c : (2:Nat)^10 = 1024 := by decide
      rw [c] at hq1 ⊢
      have : k.natAbs = 8192 := by omega
      exact ⟨by omega, by rw [this]⟩
    -- magnitude bits: below those of 128.0, or equal for k = -8192
    have hmagn : (144 - kk) * 8388608 + (k.natAbs * 2^kk - 8388608) < 1124073472 ∨
        (k < 0 ∧ (144 - kk) * 8388608 + (k.natAbs * 2^kk - 8388608) = 1124073472) := by
      by_cases h10 : kk = 10
      · obtain ⟨hn, hx⟩ := hkk10' h10
        right; refine ⟨hn, ?_⟩
        rw [hx, h10]
      · left
        generalize k.natAbs * 2^kk = X at *
        clear hkk10'
        omega
    clear hkk10' hkk10 hq1 hq2
    rw [Nat.add_assoc] at hnb
    obtain ⟨Mg, hMg⟩ : ∃ Mg, Mg = (144 - kk) * 8388608 + (k.natAbs * 2^kk - 8388608) := ⟨_, rfl⟩
    rw [← hMg] at hmagn hnb
    clear hMg
    apply range_of_bits _ (ofInt_div64_not_nan k (by omega))
    · intro hlt; rw [hnb] at hlt ⊢
      split at hlt <;> split <;> omega
    · intro hge; rw [hnb] at hge ⊢
      split at hge <;> split <;> omega

/-- quantising twice is the same as quantising once (bit for bit) -/
theorem quantize_idem (f : F32) :
    Enc.quantize false (Enc.quantize false f) = Enc.quantize false f := by
  by_cases hr : F32.ofInt (-128) ≤ f ∧ f < F32.ofInt 128
  · obtain ⟨k, hk1, hk2, hq, _, _⟩ := quantize_nearest f hr.1 hr.2
    rw [hq]
    by_cases h : k = 8192
    · subst h
      apply quantize_out_of_range
      decide
    · obtain ⟨r1, r2⟩ := ofInt_div64_in_range k hk1 (by omega)
      obtain ⟨k', _, _, hq', hs1, hs2⟩ := quantize_nearest _ r1 r2
      rw [hq', scaled_ofInt_div64 k (by omega)] at *
      have : k' = k := by omega
      rw [this]
  · rw [quantize_out_of_range f hr, quantize_out_of_range f hr]

end Ivg.Quant
