import Ivg.Lemmas.Codec
/-!
# `quantize` (encode/encode.go) rounds to the nearest multiple of 1/64, ties up

`Enc.quantize false f = float32(floor(float64(f)*64 + 0.5)) / 64` for `-128 ≤ f < 128`.
This file proves, from the soft-float definitions, that the result is `float32(k)/64` with
`k = ⌊64·f + 1/2⌋` exactly, for EVERY float32 in the guarded range (including subnormals, where the
float64 addition is inexact but the floor is still 0).

Part 1: binary64 versions of the rounding lemmas of `Codec.lean` (`roundMag`, `unpack`).
Part 2: the five stages (`ofF32`, `*64`, `+0.5`, `floor`, `toF32`).
Part 3: the headline theorem and the cheap corollaries.
-/
namespace Ivg.Quant
open Ivg Num Codec

/-! ## binary64 constants and rounding -/

theorem emin_f64 : Fmt.f64.emin = -1074 := by decide
theorem prec_f64 : Fmt.f64.prec = 53 := by decide
theorem infBits_f64 : Fmt.f64.infBits = 9218868437227405312 := by decide
theorem signBit_f64 : Fmt.f64.signBit = 9223372036854775808 := by decide
theorem mbits_f64 : Fmt.f64.mbits = 52 := rfl
theorem ebits_f64 : Fmt.f64.ebits = 11 := rfl
theorem expMax_f64 : Fmt.f64.expMax = 2047 := by decide

/-- `roundMag` for binary64 with the working exponent `fe` named -/
theorem roundMag_f64 (m : Nat) (e fe : Int)
    (hfe : fe = if e + (bitLen m : Int) - 53 < -1074 then -1074 else e + (bitLen m : Int) - 53) :
    roundMag .f64 m e =
      (let q : Nat :=
        if fe ≤ e then m * 2 ^ (e - fe).toNat
        else
          if m % 2 ^ (fe - e).toNat > 2 ^ ((fe - e).toNat - 1) ||
              (m % 2 ^ (fe - e).toNat == 2 ^ ((fe - e).toNat - 1) && m / 2 ^ (fe - e).toNat % 2 == 1)
          then m / 2 ^ (fe - e).toNat + 1 else m / 2 ^ (fe - e).toNat
       if (fe + 1074).toNat * 4503599627370496 + q ≥ 9218868437227405312 then 9218868437227405312
       else (fe + 1074).toNat * 4503599627370496 + q) := by
  have c53 : ((53 : Nat) : Int) = 53 := rfl
  have c52 : (2:Nat)^52 = 4503599627370496 := by decide
  simp only [roundMag, emin_f64, prec_f64, infBits_f64, mbits_f64, c53, c52]
  rw [← hfe]
  have : fe - -1074 = fe + 1074 := by omega
  simp only [this]

/-- no rounding, left shift: a mantissa of `j+1 ≤ 53` bits is normalised exactly -/
theorem roundMag64_shl (m : Nat) (e : Int) (j k : Nat) (hjk : j + k = 52)
    (h1 : 2^j ≤ m) (h2 : m < 2^(j+1)) (he : -1074 ≤ e - k) (hno : e - k + 1074 < 2046) :
    roundMag .f64 m e = (e - k + 1074).toNat * 4503599627370496 + m * 2^k ∧
      4503599627370496 ≤ m * 2^k ∧ m * 2^k < 9007199254740992 := by
  have hbl := bitLen_eq h1 h2
  have hq1 : 4503599627370496 ≤ m * 2^k := by
    have h : 2^j * 2^k = 4503599627370496 := by rw [← Nat.pow_add, hjk]
    have := Nat.mul_le_mul_right (2^k) h1
    omega
  have hq2 : m * 2^k < 9007199254740992 := by
    have h53 : j + 1 + k = 53 := by omega
    have h : 2^(j+1) * 2^k = 9007199254740992 := by rw [← Nat.pow_add, h53]
    have := (Nat.mul_lt_mul_right (Nat.two_pow_pos k)).2 h2
    omega
  refine ⟨?_, hq1, hq2⟩
  have hfe : e - k = if e + (bitLen m : Int) - 53 < -1074 then -1074 else e + (bitLen m : Int) - 53 := by
    rw [hbl]; split <;> omega
  rw [roundMag_f64 m e (e - k) hfe]
  have hk : (e - (e - (k : Int))).toNat = k := by omega
  have hle : e - (k : Int) ≤ e := by omega
  simp only [hk, if_pos hle]
  rw [if_neg (by omega)]

theorem bitLen_le53 (q : Nat) (h : q < 9007199254740992) : bitLen q ≤ 53 := by
  unfold bitLen
  split
  · omega
  · rename_i h0
    have hq : q ≠ 0 := by simpa using h0
    have := (Nat.log2_lt hq).2 (show q < 2^53 by omega)
    omega

/-- exact right shift, allowing overflow and a subnormal result -/
theorem roundMag64_shr (q : Nat) (e : Int) (s : Nat) (hs : 0 < s) (h0 : 0 < q)
    (h2 : q < 9007199254740992) (hn : 4503599627370496 ≤ q ∨ e + s = -1074) (he : -1074 ≤ e + s) :
    roundMag .f64 (q * 2^s) e =
      if (e + s + 1074).toNat * 4503599627370496 + q ≥ 9218868437227405312 then 9218868437227405312
      else (e + s + 1074).toNat * 4503599627370496 + q := by
  have hp := Nat.two_pow_pos s
  have hbl := bitLen_mul_pow q s h0
  have hle := bitLen_le53 q h2
  have hfe : e + s = if e + (bitLen (q * 2^s) : Int) - 53 < -1074 then -1074
      else e + (bitLen (q * 2^s) : Int) - 53 := by
    rw [hbl]
    rcases hn with hn | hn
    · have : bitLen q = 53 := bitLen_eq (k := 52) (by omega) (by omega)
      rw [this]; split <;> omega
    · split <;> omega
  rw [roundMag_f64 _ e (e + s) hfe]
  have hk : (e + (s : Int) - e).toNat = s := by omega
  have hle : ¬ (e + (s : Int) ≤ e) := by omega
  simp only [hk, if_neg hle]
  have hr : q * 2^s % 2^s = 0 := Nat.mul_mod_left _ _
  have hd : q * 2^s / 2^s = q := Nat.mul_div_cancel _ hp
  have hh : 0 < 2^(s-1) := Nat.two_pow_pos _
  simp only [hr, hd]
  have : ¬ ((decide (0 > 2 ^ (s - 1)) || (0 == 2 ^ (s - 1) && q % 2 == 1)) = true) := by
    simp; omega
  rw [if_neg this]

/-- sign bit of a 64-bit pattern as the soft-float reads it -/
def negB64 (b : Nat) : Bool := b / 9223372036854775808 % 2 == 1

theorem unpack_f64 (b : Nat) : unpack .f64 b =
    if b / 4503599627370496 % 2048 = 2047 then
      (if b % 4503599627370496 = 0 then .inf (negB64 b) else .nan b)
    else if b / 4503599627370496 % 2048 = 0 then .fin (negB64 b) (b % 4503599627370496) (-1074)
    else .fin (negB64 b) (b % 4503599627370496 + 4503599627370496)
      (((b / 4503599627370496 % 2048 : Nat) : Int) - 1075) := by
  simp only [unpack, emin_f64, signBit_f64, mbits_f64, ebits_f64, expMax_f64, negB64, beq_iff_eq]
  have c1 : (2:Nat)^52 = 4503599627370496 := by decide
  have c2 : (2:Nat)^11 = 2048 := by decide
  simp only [c1, c2]
  split
  · rfl
  · split
    · rfl
    · congr 1; omega

/-- a normal binary64 given by fields -/
theorem unpack_normal64 (sg ex mt : Nat) (hs : sg < 2) (hex1 : 0 < ex) (hex2 : ex < 2047)
    (hmt : mt < 4503599627370496) :
    unpack .f64 (sg * 9223372036854775808 + ex * 4503599627370496 + mt) =
      .fin (sg == 1) (mt + 4503599627370496) ((ex : Int) - 1075) := by
  rw [unpack_f64]
  have h1 : (sg * 9223372036854775808 + ex * 4503599627370496 + mt) / 4503599627370496 % 2048 = ex := by
    omega
  have h2 : (sg * 9223372036854775808 + ex * 4503599627370496 + mt) % 4503599627370496 = mt := by omega
  have h3 : negB64 (sg * 9223372036854775808 + ex * 4503599627370496 + mt) = (sg == 1) := by
    unfold negB64
    have : (sg * 9223372036854775808 + ex * 4503599627370496 + mt) / 9223372036854775808 % 2 = sg := by
      omega
    rw [this]
  rw [h1, h2, h3, if_neg (by omega), if_neg (by omega)]

/-! ## packed normal binary64 values -/

/-- the bit pattern of `±Q·2^FE` for a normalised `Q ∈ [2^52, 2^53)` -/
def pack64 (neg : Bool) (Q : Nat) (FE : Int) : Nat :=
  (if neg then 9223372036854775808 else 0) + ((FE + 1074).toNat * 4503599627370496 + Q)

theorem pack64_lt (neg : Bool) (Q : Nat) (FE : Int) (hQ2 : Q < 9007199254740992)
    (h2 : FE + 1075 < 2047) : pack64 neg Q FE < 18446744073709551616 := by
  unfold pack64; split <;> omega

theorem unpack_pack64 (neg : Bool) (Q : Nat) (FE : Int) (hQ1 : 4503599627370496 ≤ Q)
    (hQ2 : Q < 9007199254740992) (h1 : -1074 ≤ FE) (h2 : FE + 1075 < 2047) :
    unpack .f64 (pack64 neg Q FE) = .fin neg Q FE := by
  have e : pack64 neg Q FE = (if neg then 1 else 0) * 9223372036854775808 +
      (FE + 1075).toNat * 4503599627370496 + (Q - 4503599627370496) := by
    unfold pack64; split <;> omega
  rw [e, unpack_normal64 _ _ _ (by split <;> omega) (by omega) (by omega) (by omega)]
  have e1 : Q - 4503599627370496 + 4503599627370496 = Q := by omega
  have e2 : (((FE + 1075).toNat : Nat) : Int) - 1075 = FE := by omega
  rw [e1, e2]
  cases neg <;> rfl

theorem withSign64 (neg : Bool) (x : Nat) :
    withSign .f64 neg x = (if neg then 9223372036854775808 else 0) + x := by
  unfold withSign; rw [signBit_f64]; split <;> omega

/-- rounding a value that is exactly a normalised `Q·2^FE` (given as `n·2^e` with the shift either
    way) packs it exactly -/
theorem roundPack64_exact (neg : Bool) (n : Nat) (e : Int) (Q : Nat) (FE : Int)
    (hQ1 : 4503599627370496 ≤ Q) (hQ2 : Q < 9007199254740992) (h1 : -1074 ≤ FE)
    (h2 : FE + 1075 < 2047)
    (hv : (FE ≤ e ∧ Q = n * 2^(e - FE).toNat) ∨ (e < FE ∧ n = Q * 2^(FE - e).toNat)) :
    roundPack .f64 neg n e = pack64 neg Q FE := by
  have hn : n ≠ 0 := by
    rcases hv with ⟨_, h⟩ | ⟨_, h⟩
    · intro h0; rw [h0] at h; omega
    · have := Nat.two_pow_pos (FE - e).toNat
      intro h0; rw [h0] at h
      have : 0 < Q * 2^(FE - e).toNat := Nat.mul_pos (by omega) this
      omega
  rw [roundPack_pos _ _ _ _ hn, withSign64]
  unfold pack64
  congr 1
  rcases hv with ⟨hle, hq⟩ | ⟨hlt, hq⟩
  · -- left shift: n has at most 53 bits
    have hp := Nat.two_pow_pos (e - FE).toNat
    have hn0 : 0 < n := by omega
    have hbl : bitLen Q = bitLen n + (e - FE).toNat := by rw [hq]; exact bitLen_mul_pow n _ hn0
    have hb53 : bitLen Q = 53 := bitLen_eq (k := 52) (by omega) (by omega)
    have hfe : FE = if e + (bitLen n : Int) - 53 < -1074 then -1074 else e + (bitLen n : Int) - 53 := by
      split <;> omega
    rw [roundMag_f64 n e FE hfe]
    simp only [if_pos hle, ← hq]
    rw [if_neg (by omega)]
  · have hs : 0 < (FE - e).toNat := by omega
    have := roundMag64_shr Q e (FE - e).toNat hs (by omega) hQ2 (Or.inl hQ1) (by omega)
    rw [← hq] at this
    rw [this]
    have e1 : e + ((FE - e).toNat : Int) = FE := by omega
    rw [e1, if_neg (by omega)]


/-! ## the soft-float operations on finite operands -/

theorem add_fin_fin (f : Fmt) (a b : Nat) (s : Bool) (m : Nat) (e : Int) (t : Bool) (n : Nat) (g : Int)
    (ha : unpack f a = .fin s m e) (hb : unpack f b = .fin t n g) :
    Num.add f a b =
      (let e0 := if e ≤ g then e else g
       let x : Int := (m * 2 ^ (e - e0).toNat : Nat)
       let y : Int := (n * 2 ^ (g - e0).toNat : Nat)
       let x := if s then -x else x
       let y := if t then -y else y
       let z := x + y
       if z == 0 then withSign f (s && t) 0 else roundPack f (z < 0) z.natAbs e0) := by
  unfold Num.add; rw [ha, hb]

theorem floor_fin (f : Fmt) (a : Nat) (s : Bool) (m : Nat) (e : Int) (ha : unpack f a = .fin s m e) :
    Num.floor f a =
      if e ≥ 0 then a
      else
        (let sh := (-e).toNat
         let q := m / 2 ^ sh
         let r := m % 2 ^ sh
         let q := if s && r != 0 then q + 1 else q
         roundPack f s q 0) := by
  unfold Num.floor; rw [ha]

theorem convert_fin (src dst : Fmt) (a : Nat) (s : Bool) (m : Nat) (e : Int)
    (ha : unpack src a = .fin s m e) : convert src dst a = roundPack dst s m e := by
  unfold convert; rw [ha]

theorem exists_jk64 (m : Nat) (h0 : 0 < m) (h : m < 9007199254740992) :
    ∃ j k, j + k = 52 ∧ 2^j ≤ m ∧ m < 2^(j+1) := by
  have hm : m ≠ 0 := by omega
  have hl : m.log2 < 53 := (Nat.log2_lt hm).2 (by omega)
  exact ⟨m.log2, 52 - m.log2, by omega, Nat.log2_self_le hm, Nat.lt_log2_self⟩

/-- normalising a `j+1`-bit number to 53 bits -/
theorem norm64 (m j k : Nat) (hjk : j + k = 52) (h1 : 2^j ≤ m) (h2 : m < 2^(j+1)) :
    4503599627370496 ≤ m * 2^k ∧ m * 2^k < 9007199254740992 := by
  constructor
  · have h : 2^j * 2^k = 4503599627370496 := by rw [← Nat.pow_add, hjk]
    have := Nat.mul_le_mul_right (2^k) h1
    omega
  · have h53 : j + 1 + k = 53 := by omega
    have h : 2^(j+1) * 2^k = 9007199254740992 := by rw [← Nat.pow_add, h53]
    have := (Nat.mul_lt_mul_right (Nat.two_pow_pos k)).2 h2
    omega

/-- stage 1: `float64(f)` is exact -/
theorem stage1 (a : Nat) (s : Bool) (m : Nat) (e : Int) (j k : Nat) (ha : unpack .f32 a = .fin s m e)
    (hjk : j + k = 52) (h1 : 2^j ≤ m) (h2 : m < 2^(j+1)) (he1 : -149 ≤ e) (he2 : e ≤ 104) :
    convert .f32 .f64 a = pack64 s (m * 2^k) (e - k) := by
  obtain ⟨hq1, hq2⟩ := norm64 m j k hjk h1 h2
  rw [convert_fin _ _ _ _ _ _ ha]
  apply roundPack64_exact _ _ _ _ _ hq1 hq2 (by omega) (by omega)
  left
  refine ⟨by omega, ?_⟩
  have : (e - (e - (k : Int))).toNat = k := by omega
  rw [this]

/-- stage 2: `* 64` is exact (exponent + 6) -/
theorem stage2 (c64 : Nat) (hc : unpack .f64 c64 = .fin false 4503599627370496 (-46))
    (s : Bool) (M : Nat) (E : Int) (hM1 : 4503599627370496 ≤ M) (hM2 : M < 9007199254740992)
    (hE1 : -1074 ≤ E) (hE2 : E + 1081 < 2047) :
    Num.mul .f64 (pack64 s M E) c64 = pack64 s M (E + 6) := by
  have hu := unpack_pack64 s M E hM1 hM2 hE1 (by omega)
  rw [mul_fin_fin _ _ _ _ _ _ _ _ _ hu hc, bne_false]
  apply roundPack64_exact _ _ _ _ _ hM1 hM2 (by omega) (by omega)
  right
  refine ⟨by omega, ?_⟩
  have : (E + 6 - (E + -46)).toNat = 52 := by omega
  rw [this]

end Ivg.Quant
