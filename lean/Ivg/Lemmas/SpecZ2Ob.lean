import Ivg.Lemmas.SpecZ2Oa
/-! # C03, zero-to-one forms, 2-byte form: values 4096 … 8191 (see `SpecZ2Oa.lean`) -/
namespace Ivg.SpecL
open Ivg Num

set_option maxRecDepth 100000 in
theorem z2o15120_4 : z2oChk 15120 15120 4096 1024 = true := by decide +kernel
set_option maxRecDepth 100000 in
theorem z2o15120_5 : z2oChk 15120 15120 5120 1024 = true := by decide +kernel
set_option maxRecDepth 100000 in
theorem z2o15120_6 : z2oChk 15120 15120 6144 1024 = true := by decide +kernel
set_option maxRecDepth 100000 in
theorem z2o15120_7 : z2oChk 15120 15120 7168 1024 = true := by decide +kernel

end Ivg.SpecL
