import Ivg.Model.Encoder
import Ivg.Model.Decoder
/-!
# Number codec lemmas (encode/buffer.go ↔ decode/buffer.go)

Naturals, reals, coordinates and zero-to-one numbers: the decoder inverts the encoder (with explicit
round-trip functions `trunc30`, `rtReal`, `rtCoord`, `rtZ2O`, `rtAngle`, `rtNReg`), the decoders are
prefix-stable, never read past what they return, and report a truncated number as an error.
-/
namespace Ivg.Codec
open Ivg Num

/-! ## exhaustive checks over bytes -/

theorem forall_uint8_iff {p : UInt8 → Prop} :
    (∀ x, p x) ↔ ∀ i : Fin 256, p (UInt8.ofNat i.val) := by
  constructor
  · intro h i; exact h _
  · intro h x
    have := h ⟨x.toNat, x.toNat_lt⟩
    simpa using this

/-- `decide` can enumerate all 256 bytes -/
instance decForallUInt8 {p : UInt8 → Prop} [DecidablePred p] : Decidable (∀ x, p x) :=
  decidable_of_iff _ forall_uint8_iff.symm

/-- the width in bytes the encoder uses for the natural `u` -/
def natWidth (u : Nat) : Nat := if u < 128 then 1 else if u < 16384 then 2 else 4

@[simp] theorem byte_toNat (n : Nat) : (Enc.byte n).toNat = n % 256 := by
  simp [Enc.byte]

/-! ## characterisation of `decodeNatural` by the low bits of the first byte -/

theorem decodeNatural_cons1 (x : UInt8) (rest : Bytes) (h : x.toNat % 2 = 0) :
    Dec.decodeNatural (x :: rest) = some (x.toNat / 2, 1, rest) := by
  simp [Dec.decodeNatural, h]

theorem decodeNatural_cons2 (x y : UInt8) (rest : Bytes) (h : x.toNat % 4 = 1) :
    Dec.decodeNatural (x :: y :: rest) = some ((x.toNat + y.toNat * 256) / 4, 2, rest) := by
  have h1 : ¬ x.toNat % 2 = 0 := by omega
  have h2 : x.toNat / 2 % 2 = 0 := by omega
  simp [Dec.decodeNatural, h1, h2]

theorem decodeNatural_cons4 (x b1 b2 b3 : UInt8) (rest : Bytes) (h : x.toNat % 4 = 3) :
    Dec.decodeNatural (x :: b1 :: b2 :: b3 :: rest) =
      some ((x.toNat + b1.toNat * 256 + b2.toNat * 65536 + b3.toNat * 16777216) / 4, 4, rest) := by
  have h1 : ¬ x.toNat % 2 = 0 := by omega
  have h2 : ¬ x.toNat / 2 % 2 = 0 := by omega
  simp [Dec.decodeNatural, h1, h2]

/-- every successful `decodeNatural` is one of the three shapes -/
theorem decodeNatural_shape {b : Bytes} {u n : Nat} {rest : Bytes}
    (h : Dec.decodeNatural b = some (u, n, rest)) :
    (∃ x, b = x :: rest ∧ x.toNat % 2 = 0 ∧ u = x.toNat / 2 ∧ n = 1) ∨
    (∃ x y, b = x :: y :: rest ∧ x.toNat % 4 = 1 ∧ u = (x.toNat + y.toNat * 256) / 4 ∧ n = 2) ∨
    (∃ x b1 b2 b3, b = x :: b1 :: b2 :: b3 :: rest ∧ x.toNat % 4 = 3 ∧
      u = (x.toNat + b1.toNat * 256 + b2.toNat * 65536 + b3.toNat * 16777216) / 4 ∧ n = 4) := by
  unfold Dec.decodeNatural at h
  split at h
  · contradiction
  · rename_i x r
    split at h
    · simp at h; obtain ⟨rfl, rfl, rfl⟩ := h
      exact Or.inl ⟨x, rfl, by assumption, rfl, rfl⟩
    · split at h
      · split at h
        · rename_i y r'
          simp at h; obtain ⟨rfl, rfl, rfl⟩ := h
          exact Or.inr (Or.inl ⟨x, y, rfl, by omega, rfl, rfl⟩)
        · contradiction
      · split at h
        · rename_i b1 b2 b3 r'
          simp at h; obtain ⟨rfl, rfl, rfl⟩ := h
          exact Or.inr (Or.inr ⟨x, b1, b2, b3, rfl, by omega, rfl, rfl⟩)
        · contradiction

/-! ## A.1 / A.2 naturals round-trip, length, shortest form -/

theorem decodeNatural_encodeNatural (u : Nat) (h : u < 2^30) (rest : Bytes) :
    Dec.decodeNatural (Enc.encodeNatural u ++ rest) = some (u, natWidth u, rest) := by
  unfold Enc.encodeNatural natWidth
  split
  · simp only [List.cons_append, List.nil_append]
    rw [decodeNatural_cons1 _ _ (by rw [byte_toNat]; omega)]
    simp; omega
  · split
    · simp only [List.cons_append, List.nil_append]
      rw [decodeNatural_cons2 _ _ _ (by rw [byte_toNat]; omega)]
      simp; omega
    · simp only [List.cons_append, List.nil_append]
      rw [decodeNatural_cons4 _ _ _ _ _ (by rw [byte_toNat]; omega)]
      simp; omega

theorem encodeNatural_length (u : Nat) : (Enc.encodeNatural u).length = natWidth u := by
  unfold Enc.encodeNatural natWidth
  split
  · rfl
  · split <;> rfl

theorem encodeNatural_ne_nil (u : Nat) : Enc.encodeNatural u ≠ [] := by
  intro h
  have := encodeNatural_length u
  rw [h] at this
  unfold natWidth at this
  simp only [List.length_nil] at this
  split at this
  · omega
  · split at this <;> omega

theorem natWidth_cases (u : Nat) : natWidth u = 1 ∨ natWidth u = 2 ∨ natWidth u = 4 := by
  unfold natWidth
  split
  · simp
  · split <;> simp

/-- whatever byte string decodes to `u`, its width is at least the encoder's width for `u` -/
theorem natWidth_le_of_decodeNatural {b : Bytes} {u n : Nat} {rest : Bytes}
    (h : Dec.decodeNatural b = some (u, n, rest)) : natWidth u ≤ n := by
  unfold natWidth
  rcases decodeNatural_shape h with ⟨x, _, _, rfl, rfl⟩ | ⟨x, y, _, _, rfl, rfl⟩ | ⟨_, _, _, _, _, _, _, rfl⟩
  · have := x.toNat_lt; rw [if_pos (by omega)]; omega
  · have := x.toNat_lt; have := y.toNat_lt
    split
    · omega
    · rw [if_pos (by omega)]; omega
  · split
    · omega
    · split <;> omega

/-- the encoder's form is the shortest byte string that decodes to `u` -/
theorem encodeNatural_shortest (b rest : Bytes) (u n : Nat)
    (h : Dec.decodeNatural (b ++ rest) = some (u, n, rest)) (_hn : b.length = n) :
    (Enc.encodeNatural u).length ≤ b.length := by
  rw [encodeNatural_length, _hn]
  exact natWidth_le_of_decodeNatural h

/-! ## A.3 consumption, truncation, range -/

theorem decodeNatural_consumes {b : Bytes} {u n : Nat} {rest : Bytes}
    (h : Dec.decodeNatural b = some (u, n, rest)) :
    (n = 1 ∨ n = 2 ∨ n = 4) ∧ b.length = n + rest.length ∧ b = b.take n ++ rest := by
  rcases decodeNatural_shape h with ⟨x, rfl, _, _, rfl⟩ | ⟨x, y, rfl, _, _, rfl⟩ |
    ⟨_, _, _, _, rfl, _, _, rfl⟩ <;> simp <;> omega

theorem decodeNatural_nil : Dec.decodeNatural [] = none := rfl

/-- a number cut short by end of input is an error -/
theorem decodeNatural_truncated {b : Bytes} {u n : Nat} {rest : Bytes}
    (h : Dec.decodeNatural b = some (u, n, rest)) (k : Nat) (hk : k < n) :
    Dec.decodeNatural (b.take k) = none := by
  rcases decodeNatural_shape h with ⟨x, rfl, _, _, rfl⟩ | ⟨x, y, rfl, hx, _, rfl⟩ |
    ⟨x, b1, b2, b3, rfl, hx, _, rfl⟩
  · have : k = 0 := by omega
    subst this; rfl
  · have h1 : ¬ x.toNat % 2 = 0 := by omega
    have h2 : x.toNat / 2 % 2 = 0 := by omega
    have : k = 0 ∨ k = 1 := by omega
    rcases this with rfl | rfl
    · rfl
    · simp [Dec.decodeNatural, h1, h2]
  · have h1 : ¬ x.toNat % 2 = 0 := by omega
    have h2 : ¬ x.toNat / 2 % 2 = 0 := by omega
    have : k = 0 ∨ k = 1 ∨ k = 2 ∨ k = 3 := by omega
    rcases this with rfl | rfl | rfl | rfl
    · rfl
    · simp [Dec.decodeNatural, h1, h2]
    · simp [Dec.decodeNatural, h1, h2]
    · simp [Dec.decodeNatural, h1, h2]

theorem decodeNatural_lt {b : Bytes} {u n : Nat} {rest : Bytes}
    (h : Dec.decodeNatural b = some (u, n, rest)) : u < 2^30 := by
  rcases decodeNatural_shape h with ⟨x, _, _, rfl, _⟩ | ⟨x, y, _, _, rfl, _⟩ |
    ⟨x, b1, b2, b3, _, _, rfl, _⟩
  · have := x.toNat_lt; omega
  · have := x.toNat_lt; have := y.toNat_lt; omega
  · have := x.toNat_lt; have := b1.toNat_lt; have := b2.toNat_lt; have := b3.toNat_lt; omega

/-! ## A.4 prefix stability -/

theorem decodeNatural_append {b : Bytes} {u n : Nat} {rest : Bytes}
    (h : Dec.decodeNatural b = some (u, n, rest)) (k : Bytes) :
    Dec.decodeNatural (b ++ k) = some (u, n, rest ++ k) := by
  rcases decodeNatural_shape h with ⟨x, rfl, hx, rfl, rfl⟩ | ⟨x, y, rfl, hx, rfl, rfl⟩ |
    ⟨x, b1, b2, b3, rfl, hx, rfl, rfl⟩
  · exact decodeNatural_cons1 _ _ hx
  · exact decodeNatural_cons2 _ _ _ hx
  · exact decodeNatural_cons4 _ _ _ _ _ hx


/-- the pure conversions applied after `decodeNatural` -/
def realOf (u n : Nat) : F32 := if n = 4 then F32.ofNatBits (u * 4) else F32.ofInt u
def coordOf (u n : Nat) : F32 :=
  if n = 1 then F32.ofInt ((u : Int) - 64)
  else if n = 2 then F32.ofInt ((u : Int) - 64 * 128) / F32.ofInt 64
  else F32.ofNatBits (u * 4)
def z2oOf (u n : Nat) : F32 :=
  if n = 1 then F32.ofInt u / F32.ofInt 120
  else if n = 2 then F32.ofInt u / F32.ofInt 15120
  else F32.ofNatBits (u * 4)

theorem decodeReal_map (b : Bytes) :
    Dec.decodeReal b = (Dec.decodeNatural b).map fun p => (realOf p.1 p.2.1, p.2.2) := by
  unfold Dec.decodeReal realOf
  cases Dec.decodeNatural b with
  | none => rfl
  | some p => obtain ⟨u, n, r⟩ := p; simp only [Option.map_some]; split <;> rfl

theorem decodeCoordinate_map (b : Bytes) :
    Dec.decodeCoordinate b = (Dec.decodeNatural b).map fun p => (coordOf p.1 p.2.1, p.2.2) := by
  unfold Dec.decodeCoordinate coordOf
  cases Dec.decodeNatural b with
  | none => rfl
  | some p =>
    obtain ⟨u, n, r⟩ := p; simp only [Option.map_some]
    split
    · rfl
    · split <;> rfl

theorem decodeZeroToOne_map (b : Bytes) :
    Dec.decodeZeroToOne b = (Dec.decodeNatural b).map fun p => (z2oOf p.1 p.2.1, p.2.2) := by
  unfold Dec.decodeZeroToOne z2oOf
  cases Dec.decodeNatural b with
  | none => rfl
  | some p =>
    obtain ⟨u, n, r⟩ := p; simp only [Option.map_some]
    split
    · rfl
    · split <;> rfl

theorem decodeReal_eq {b : Bytes} {f : F32} {rest : Bytes} (h : Dec.decodeReal b = some (f, rest)) :
    ∃ u n, Dec.decodeNatural b = some (u, n, rest) ∧ f = realOf u n := by
  rw [decodeReal_map] at h
  cases hd : Dec.decodeNatural b with
  | none => simp [hd] at h
  | some p =>
    obtain ⟨u, n, r⟩ := p
    simp [hd] at h; obtain ⟨rfl, rfl⟩ := h
    exact ⟨u, n, rfl, rfl⟩

theorem decodeCoordinate_eq {b : Bytes} {f : F32} {rest : Bytes}
    (h : Dec.decodeCoordinate b = some (f, rest)) :
    ∃ u n, Dec.decodeNatural b = some (u, n, rest) ∧ f = coordOf u n := by
  rw [decodeCoordinate_map] at h
  cases hd : Dec.decodeNatural b with
  | none => simp [hd] at h
  | some p =>
    obtain ⟨u, n, r⟩ := p
    simp [hd] at h; obtain ⟨rfl, rfl⟩ := h
    exact ⟨u, n, rfl, rfl⟩

theorem decodeZeroToOne_eq {b : Bytes} {f : F32} {rest : Bytes}
    (h : Dec.decodeZeroToOne b = some (f, rest)) :
    ∃ u n, Dec.decodeNatural b = some (u, n, rest) ∧ f = z2oOf u n := by
  rw [decodeZeroToOne_map] at h
  cases hd : Dec.decodeNatural b with
  | none => simp [hd] at h
  | some p =>
    obtain ⟨u, n, r⟩ := p
    simp [hd] at h; obtain ⟨rfl, rfl⟩ := h
    exact ⟨u, n, rfl, rfl⟩

theorem decodeReal_append {b : Bytes} {f : F32} {rest : Bytes}
    (h : Dec.decodeReal b = some (f, rest)) (k : Bytes) :
    Dec.decodeReal (b ++ k) = some (f, rest ++ k) := by
  obtain ⟨u, n, hd, rfl⟩ := decodeReal_eq h
  simp [decodeReal_map, decodeNatural_append hd k]

theorem decodeCoordinate_append {b : Bytes} {f : F32} {rest : Bytes}
    (h : Dec.decodeCoordinate b = some (f, rest)) (k : Bytes) :
    Dec.decodeCoordinate (b ++ k) = some (f, rest ++ k) := by
  obtain ⟨u, n, hd, rfl⟩ := decodeCoordinate_eq h
  simp [decodeCoordinate_map, decodeNatural_append hd k]

theorem decodeZeroToOne_append {b : Bytes} {f : F32} {rest : Bytes}
    (h : Dec.decodeZeroToOne b = some (f, rest)) (k : Bytes) :
    Dec.decodeZeroToOne (b ++ k) = some (f, rest ++ k) := by
  obtain ⟨u, n, hd, rfl⟩ := decodeZeroToOne_eq h
  simp [decodeZeroToOne_map, decodeNatural_append hd k]

/-- what "consumes exactly a 1/2/4-byte prefix" means for the number decoders -/
def ConsumesNum (b rest : Bytes) : Prop :=
  ∃ n, (n = 1 ∨ n = 2 ∨ n = 4) ∧ b.length = n + rest.length ∧ b = b.take n ++ rest

theorem ConsumesNum.length_lt {b rest : Bytes} (h : ConsumesNum b rest) : rest.length < b.length := by
  obtain ⟨n, hn, hl, _⟩ := h; omega

theorem decodeReal_consumes {b : Bytes} {f : F32} {rest : Bytes}
    (h : Dec.decodeReal b = some (f, rest)) : ConsumesNum b rest := by
  obtain ⟨u, n, hd, _⟩ := decodeReal_eq h
  exact ⟨n, decodeNatural_consumes hd⟩

theorem decodeCoordinate_consumes {b : Bytes} {f : F32} {rest : Bytes}
    (h : Dec.decodeCoordinate b = some (f, rest)) : ConsumesNum b rest := by
  obtain ⟨u, n, hd, _⟩ := decodeCoordinate_eq h
  exact ⟨n, decodeNatural_consumes hd⟩

theorem decodeZeroToOne_consumes {b : Bytes} {f : F32} {rest : Bytes}
    (h : Dec.decodeZeroToOne b = some (f, rest)) : ConsumesNum b rest := by
  obtain ⟨u, n, hd, _⟩ := decodeZeroToOne_eq h
  exact ⟨n, decodeNatural_consumes hd⟩

/-- the number decoders fail exactly when `decodeNatural` fails … -/
theorem decodeReal_none_iff (b : Bytes) : Dec.decodeReal b = none ↔ Dec.decodeNatural b = none := by
  simp [decodeReal_map]
theorem decodeCoordinate_none_iff (b : Bytes) :
    Dec.decodeCoordinate b = none ↔ Dec.decodeNatural b = none := by
  simp [decodeCoordinate_map]
theorem decodeZeroToOne_none_iff (b : Bytes) :
    Dec.decodeZeroToOne b = none ↔ Dec.decodeNatural b = none := by
  simp [decodeZeroToOne_map]

/-- … hence a real / coordinate / zero-to-one number cut short is an error as well -/
theorem decodeReal_truncated {b : Bytes} {f : F32} {rest : Bytes}
    (h : Dec.decodeReal b = some (f, rest)) (k : Nat) (hk : k < b.length - rest.length) :
    Dec.decodeReal (b.take k) = none := by
  obtain ⟨u, n, hd, _⟩ := decodeReal_eq h
  have := decodeNatural_consumes hd
  exact (decodeReal_none_iff _).2 (decodeNatural_truncated hd k (by omega))

theorem decodeCoordinate_truncated {b : Bytes} {f : F32} {rest : Bytes}
    (h : Dec.decodeCoordinate b = some (f, rest)) (k : Nat) (hk : k < b.length - rest.length) :
    Dec.decodeCoordinate (b.take k) = none := by
  obtain ⟨u, n, hd, _⟩ := decodeCoordinate_eq h
  have := decodeNatural_consumes hd
  exact (decodeCoordinate_none_iff _).2 (decodeNatural_truncated hd k (by omega))

theorem decodeZeroToOne_truncated {b : Bytes} {f : F32} {rest : Bytes}
    (h : Dec.decodeZeroToOne b = some (f, rest)) (k : Nat) (hk : k < b.length - rest.length) :
    Dec.decodeZeroToOne (b.take k) = none := by
  obtain ⟨u, n, hd, _⟩ := decodeZeroToOne_eq h
  have := decodeNatural_consumes hd
  exact (decodeZeroToOne_none_iff _).2 (decodeNatural_truncated hd k (by omega))

/-! ### colour decoders: fixed-width, prefix-stable -/

theorem decodeColor1_append {b : Bytes} {c : Color} {rest : Bytes}
    (h : Dec.decodeColor1 b = some (c, rest)) (k : Bytes) :
    Dec.decodeColor1 (b ++ k) = some (c, rest ++ k) := by
  unfold Dec.decodeColor1 at h
  split at h
  · simp at h; obtain ⟨rfl, rfl⟩ := h; rfl
  · contradiction

theorem decodeColor2_append {b : Bytes} {c : Color} {rest : Bytes}
    (h : Dec.decodeColor2 b = some (c, rest)) (k : Bytes) :
    Dec.decodeColor2 (b ++ k) = some (c, rest ++ k) := by
  unfold Dec.decodeColor2 at h
  split at h
  · simp at h; obtain ⟨rfl, rfl⟩ := h; rfl
  · contradiction

theorem decodeColor3Direct_append {b : Bytes} {c : Color} {rest : Bytes}
    (h : Dec.decodeColor3Direct b = some (c, rest)) (k : Bytes) :
    Dec.decodeColor3Direct (b ++ k) = some (c, rest ++ k) := by
  unfold Dec.decodeColor3Direct at h
  split at h
  · simp at h; obtain ⟨rfl, rfl⟩ := h; rfl
  · contradiction

theorem decodeColor4_append {b : Bytes} {c : Color} {rest : Bytes}
    (h : Dec.decodeColor4 b = some (c, rest)) (k : Bytes) :
    Dec.decodeColor4 (b ++ k) = some (c, rest ++ k) := by
  unfold Dec.decodeColor4 at h
  split at h
  · simp at h; obtain ⟨rfl, rfl⟩ := h; rfl
  · contradiction

theorem decodeColor3Indirect_append {b : Bytes} {c : Color} {rest : Bytes}
    (h : Dec.decodeColor3Indirect b = some (c, rest)) (k : Bytes) :
    Dec.decodeColor3Indirect (b ++ k) = some (c, rest ++ k) := by
  unfold Dec.decodeColor3Indirect at h
  split at h
  · simp at h; obtain ⟨rfl, rfl⟩ := h; rfl
  · contradiction

theorem decodeColor1_consumes {b : Bytes} {c : Color} {rest : Bytes}
    (h : Dec.decodeColor1 b = some (c, rest)) :
    b.length = 1 + rest.length ∧ b = b.take 1 ++ rest := by
  unfold Dec.decodeColor1 at h
  split at h
  · simp at h; obtain ⟨rfl, rfl⟩ := h; simp; omega
  · contradiction

theorem decodeColor2_consumes {b : Bytes} {c : Color} {rest : Bytes}
    (h : Dec.decodeColor2 b = some (c, rest)) :
    b.length = 2 + rest.length ∧ b = b.take 2 ++ rest := by
  unfold Dec.decodeColor2 at h
  split at h
  · simp at h; obtain ⟨rfl, rfl⟩ := h; simp; omega
  · contradiction

theorem decodeColor3Direct_consumes {b : Bytes} {c : Color} {rest : Bytes}
    (h : Dec.decodeColor3Direct b = some (c, rest)) :
    b.length = 3 + rest.length ∧ b = b.take 3 ++ rest := by
  unfold Dec.decodeColor3Direct at h
  split at h
  · simp at h; obtain ⟨rfl, rfl⟩ := h; simp; omega
  · contradiction

theorem decodeColor4_consumes {b : Bytes} {c : Color} {rest : Bytes}
    (h : Dec.decodeColor4 b = some (c, rest)) :
    b.length = 4 + rest.length ∧ b = b.take 4 ++ rest := by
  unfold Dec.decodeColor4 at h
  split at h
  · simp at h; obtain ⟨rfl, rfl⟩ := h; simp; omega
  · contradiction

theorem decodeColor3Indirect_consumes {b : Bytes} {c : Color} {rest : Bytes}
    (h : Dec.decodeColor3Indirect b = some (c, rest)) :
    b.length = 3 + rest.length ∧ b = b.take 3 ++ rest := by
  unfold Dec.decodeColor3Indirect at h
  split at h
  · simp at h; obtain ⟨rfl, rfl⟩ := h; simp; omega
  · contradiction


/-! ## A.5 the 4-byte (30-bit) real: `trunc30` -/

/-- mantissa, exponent and sign fields of a binary32 -/
def mant (f : F32) : Nat := f.bits.toNat % 8388608
def expo (f : F32) : Nat := f.bits.toNat / 8388608 % 256
def sgn (f : F32) : Nat := f.bits.toNat / 2147483648

/-- rounding of the 23-bit mantissa to a multiple of 4 as `encode4ByteReal` does it -/
def roundMant (v : Nat) : Nat := (if v < 0x7ffffe then v + 2 else v) / 4 * 4

/-- the float that a 4-byte encoding of `f` decodes to: mantissa rounded to 21 bits,
    sign and exponent fields unchanged -/
def trunc30 (f : F32) : F32 :=
  F32.ofNatBits (f.bits.toNat / 8388608 * 8388608 + roundMant (mant f))

theorem bits_lt (f : F32) : f.bits.toNat < 4294967296 := f.bits.toNat_lt

theorem roundMant_lt {v : Nat} (h : v < 8388608) : roundMant v < 8388608 := by
  unfold roundMant; split <;> omega

theorem roundMant_mod4 (v : Nat) : roundMant v % 4 = 0 := by
  unfold roundMant; omega

theorem roundMant_near {v : Nat} (h : v < 0x7ffffe) : roundMant v ≤ v + 2 ∧ v ≤ roundMant v + 1 := by
  unfold roundMant; rw [if_pos h]; omega

theorem roundMant_top {v : Nat} (h : ¬ v < 0x7ffffe) : roundMant v ≤ v ∧ v ≤ roundMant v + 3 := by
  unfold roundMant; rw [if_neg h]; omega

theorem roundMant_fix {v : Nat} (h : v % 4 = 0) (hv : v < 8388608) : roundMant v = v := by
  unfold roundMant; split <;> omega

theorem trunc30_bits (f : F32) :
    (trunc30 f).bits.toNat = f.bits.toNat / 8388608 * 8388608 + roundMant (mant f) := by
  have h1 := bits_lt f
  have h2 : roundMant (mant f) < 8388608 := roundMant_lt (by unfold mant; omega)
  simp only [trunc30, F32.ofNatBits, UInt32.toNat_ofNat']
  omega

theorem trunc30_sgn (f : F32) : sgn (trunc30 f) = sgn f := by
  have h2 : roundMant (mant f) < 8388608 := roundMant_lt (by unfold mant; omega)
  simp only [sgn, trunc30_bits]; omega

theorem trunc30_expo (f : F32) : expo (trunc30 f) = expo f := by
  have h2 : roundMant (mant f) < 8388608 := roundMant_lt (by unfold mant; omega)
  simp only [expo, trunc30_bits]; omega

theorem trunc30_mant (f : F32) : mant (trunc30 f) = roundMant (mant f) := by
  have h2 : roundMant (mant f) < 8388608 := roundMant_lt (by unfold mant; omega)
  simp only [mant, trunc30_bits] at *; omega

theorem trunc30_mant_mod4 (f : F32) : mant (trunc30 f) % 4 = 0 := by
  rw [trunc30_mant]; exact roundMant_mod4 _

/-- the low two bits of the whole pattern are clear: a 30-bit float -/
theorem trunc30_bits_mod4 (f : F32) : (trunc30 f).bits.toNat % 4 = 0 := by
  have := roundMant_mod4 (mant f)
  rw [trunc30_bits]; omega

theorem F32.ext_toNat {a b : F32} (h : a.bits.toNat = b.bits.toNat) : a = b := by
  cases a; cases b; simp only [F32.mk.injEq]; exact UInt32.toNat_inj.1 h

/-- a float whose mantissa already is a multiple of 4 is unchanged -/
theorem trunc30_fix {f : F32} (h : mant f % 4 = 0) : trunc30 f = f := by
  apply F32.ext_toNat
  rw [trunc30_bits, roundMant_fix h (by unfold mant; omega)]
  unfold mant; omega

theorem trunc30_idem (f : F32) : trunc30 (trunc30 f) = trunc30 f :=
  trunc30_fix (trunc30_mant_mod4 f)

/-- precision: as integers the bit patterns differ by at most 3 (< 4 units in the last place),
    and by at most 2 unless the mantissa is one of the top two values (where rounding up would
    overflow into the exponent and the encoder truncates instead) -/
theorem trunc30_close (f : F32) :
    (trunc30 f).bits.toNat ≤ f.bits.toNat + 2 ∧ f.bits.toNat ≤ (trunc30 f).bits.toNat + 3 := by
  rw [trunc30_bits]
  by_cases h : mant f < 0x7ffffe
  · have := roundMant_near h; unfold mant at *; omega
  · have := roundMant_top h; unfold mant at *; omega

theorem trunc30_close_mant (f : F32) :
    (mant f < 0x7ffffe → mant (trunc30 f) ≤ mant f + 2 ∧ mant f ≤ mant (trunc30 f) + 1) ∧
    (¬ mant f < 0x7ffffe → mant (trunc30 f) ≤ mant f ∧ mant f ≤ mant (trunc30 f) + 3) := by
  rw [trunc30_mant]; exact ⟨roundMant_near, roundMant_top⟩

/-- the DESIGN.md `real4_bits` statement in one piece -/
theorem real4_bits (f : F32) :
    sgn (trunc30 f) = sgn f ∧ expo (trunc30 f) = expo f ∧ mant (trunc30 f) % 4 = 0 ∧
    (mant f < 0x7ffffe → mant (trunc30 f) = (mant f + 2) / 4 * 4) ∧
    (0x7ffffe ≤ mant f → mant (trunc30 f) = 0x7ffffc) := by
  refine ⟨trunc30_sgn f, trunc30_expo f, trunc30_mant_mod4 f, ?_, ?_⟩
  · intro h; rw [trunc30_mant]; unfold roundMant; rw [if_pos h]
  · intro h
    have : mant f < 8388608 := by unfold mant; omega
    rw [trunc30_mant]; unfold roundMant; rw [if_neg (by omega)]; omega

/-- ±Inf (and every float with mantissa 0, e.g. ±0 and powers of two) is preserved exactly -/
theorem trunc30_posInf : trunc30 F32.posInf = F32.posInf := trunc30_fix (by decide)
theorem trunc30_negInf : trunc30 F32.negInf = F32.negInf := trunc30_fix (by decide)
theorem trunc30_zero : trunc30 F32.zero = F32.zero := trunc30_fix (by decide)

/-- finite ↦ finite, non-finite ↦ non-finite (exponent field 255 iff it was 255) -/
theorem trunc30_finite_iff (f : F32) : expo (trunc30 f) = 255 ↔ expo f = 255 := by
  rw [trunc30_expo]

/-- relation of the field view to the soft-float's own NaN test -/
theorem isNaN_iff (f : F32) : f.isNaN = true ↔ expo f = 255 ∧ mant f ≠ 0 := by
  have := bits_lt f
  simp only [F32.isNaN, Num.isNaN, F32.nb, Fmt.signBit, Fmt.infBits, Fmt.expMax, Fmt.f32, expo, mant,
    decide_eq_true_eq, gt_iff_lt]
  omega

/-- a NaN stays non-finite (its payload may round to 0, i.e. to an infinity, only for payload 1) -/
theorem trunc30_nan (f : F32) (h : f.isNaN = true) : expo (trunc30 f) = 255 := by
  rw [trunc30_expo]; exact ((isNaN_iff f).1 h).1

theorem trunc30_nan_stays_nan (f : F32) (h : f.isNaN = true) (h1 : mant f ≠ 1) :
    (trunc30 f).isNaN = true := by
  rw [isNaN_iff] at *
  refine ⟨by rw [trunc30_expo]; exact h.1, ?_⟩
  rw [trunc30_mant]; unfold roundMant; split <;> omega

/-- an infinity is never produced from a finite value -/
theorem trunc30_not_nan (f : F32) (h : f.isNaN = false) : (trunc30 f).isNaN = false := by
  have h' : ¬ (f.isNaN = true) := by simp [h]
  have : ¬ ((trunc30 f).isNaN = true) := by
    rw [isNaN_iff] at *
    rw [trunc30_expo, trunc30_mant]
    intro ⟨he, hm⟩
    apply h'
    refine ⟨he, ?_⟩
    intro h0; rw [h0] at hm; exact hm (by decide)
  simpa using this

theorem decodeNatural_encode4 (f : F32) (rest : Bytes) :
    Dec.decodeNatural (Enc.encode4ByteReal f ++ rest) =
      some ((trunc30 f).bits.toNat / 4, 4, rest) := by
  have h1 := bits_lt f
  have h2 : roundMant (mant f) < 8388608 := roundMant_lt (by unfold mant; omega)
  have h3 := roundMant_mod4 (mant f)
  unfold Enc.encode4ByteReal
  simp only [List.cons_append, List.nil_append]
  rw [decodeNatural_cons4 _ _ _ _ _ (by rw [byte_toNat]; omega)]
  rw [trunc30_bits]
  simp only [byte_toNat, Option.some.injEq, Prod.mk.injEq, and_true]
  unfold roundMant mant at *
  omega

theorem ofNatBits_trunc30 (f : F32) : F32.ofNatBits ((trunc30 f).bits.toNat / 4 * 4) = trunc30 f := by
  apply F32.ext_toNat
  have := trunc30_bits_mod4 f
  have := bits_lt (trunc30 f)
  simp only [F32.ofNatBits, UInt32.toNat_ofNat']
  omega

theorem decodeReal_encode4 (f : F32) (rest : Bytes) :
    Dec.decodeReal (Enc.encode4ByteReal f ++ rest) = some (trunc30 f, rest) := by
  simp [decodeReal_map, decodeNatural_encode4, realOf, ofNatBits_trunc30]

theorem decodeCoordinate_encode4 (f : F32) (rest : Bytes) :
    Dec.decodeCoordinate (Enc.encode4ByteReal f ++ rest) = some (trunc30 f, rest) := by
  simp [decodeCoordinate_map, decodeNatural_encode4, coordOf, ofNatBits_trunc30]

theorem decodeZeroToOne_encode4 (f : F32) (rest : Bytes) :
    Dec.decodeZeroToOne (Enc.encode4ByteReal f ++ rest) = some (trunc30 f, rest) := by
  simp [decodeZeroToOne_map, decodeNatural_encode4, z2oOf, ofNatBits_trunc30]

theorem encode4ByteReal_length (f : F32) : (Enc.encode4ByteReal f).length = 4 := rfl

/-! ## A.6 round trips of the number encoders -/

theorem decodeNatural_one (u : Nat) (h : u < 128) (rest : Bytes) :
    Dec.decodeNatural (Enc.byte (u * 2) :: rest) = some (u, 1, rest) := by
  rw [decodeNatural_cons1 _ _ (by rw [byte_toNat]; omega)]
  simp only [byte_toNat, Option.some.injEq, Prod.mk.injEq, and_true]; omega

theorem decodeNatural_two (u : Nat) (h : u < 16384) (rest : Bytes) :
    Dec.decodeNatural (Enc.byte (u * 4 + 1) :: Enc.byte ((u * 4 + 1) / 256) :: rest) =
      some (u, 2, rest) := by
  rw [decodeNatural_cons2 _ _ _ (by rw [byte_toNat]; omega)]
  simp only [byte_toNat, Option.some.injEq, Prod.mk.injEq, and_true]; omega

theorem realOf_one (u : Nat) : realOf u 1 = F32.ofInt u := rfl
theorem realOf_two (u : Nat) : realOf u 2 = F32.ofInt u := rfl
theorem realOf_four (u : Nat) : realOf u 4 = F32.ofNatBits (u * 4) := rfl
theorem coordOf_one (u : Nat) : coordOf u 1 = F32.ofInt ((u : Int) - 64) := rfl
theorem coordOf_two (u : Nat) : coordOf u 2 = F32.ofInt ((u : Int) - 64 * 128) / F32.ofInt 64 := rfl
theorem coordOf_four (u : Nat) : coordOf u 4 = F32.ofNatBits (u * 4) := rfl
theorem z2oOf_one (u : Nat) : z2oOf u 1 = F32.ofInt u / F32.ofInt 120 := rfl
theorem z2oOf_two (u : Nat) : z2oOf u 2 = F32.ofInt u / F32.ofInt 15120 := rfl
theorem z2oOf_four (u : Nat) : z2oOf u 4 = F32.ofNatBits (u * 4) := rfl

def rtReal (f : F32) : F32 :=
  let u := f.toUInt32.toNat
  if (F32.ofInt u).feq f ∧ u < 16384 then F32.ofInt u else trunc30 f

theorem decodeReal_encodeReal (f : F32) (rest : Bytes) :
    Dec.decodeReal (Enc.encodeReal f ++ rest) = some (rtReal f, rest) := by
  simp only [Enc.encodeReal, rtReal]
  split
  · rename_i h
    split
    · rename_i h1
      simp [decodeReal_map, decodeNatural_one _ h1, realOf]
    · simp [decodeReal_map, decodeNatural_two _ h.2, realOf]
  · exact decodeReal_encode4 f rest

theorem toInt32_range (f : F32) : -2147483648 ≤ f.toInt32 ∧ f.toInt32 < 2147483648 := by
  unfold F32.toInt32
  split
  · omega
  · split <;> omega

def rtCoord (f : F32) : F32 :=
  let i := f.toInt32
  if -64 ≤ i ∧ i < 64 ∧ (F32.ofInt i).feq f then F32.ofInt i
  else
    let f64 := f * F32.ofInt 64
    let i := f64.toInt32
    if -128 * 64 ≤ i ∧ i < 128 * 64 ∧ (F32.ofInt i).feq f64 then F32.ofInt i / F32.ofInt 64
    else trunc30 f

theorem decodeCoordinate_encodeCoordinate (f : F32) (rest : Bytes) :
    Dec.decodeCoordinate (Enc.encodeCoordinate f ++ rest) = some (rtCoord f, rest) := by
  simp only [Enc.encodeCoordinate, rtCoord]
  split
  · rename_i h
    have h1 : (f.toInt32 + 64).toNat < 128 := by omega
    have h2 : (((f.toInt32 + 64).toNat : Nat) : Int) - 64 = f.toInt32 := by omega
    simp only [List.cons_append, List.nil_append, decodeCoordinate_map]
    rw [decodeNatural_one _ h1, Option.map_some, coordOf_one, h2]
  · split
    · rename_i h
      generalize (f * F32.ofInt 64).toInt32 = i at *
      have h1 : (i + 128 * 64).toNat < 16384 := by omega
      have h2 : (((i + 128 * 64).toNat : Nat) : Int) - 64 * 128 = i := by omega
      simp only [List.cons_append, List.nil_append, decodeCoordinate_map]
      rw [decodeNatural_two _ h1, Option.map_some, coordOf_two, h2]
    · exact decodeCoordinate_encode4 f rest

def rtZ2O (f : F32) : F32 :=
  let g := f * F32.ofInt 15120
  let u := g.toUInt32.toNat
  if (F32.ofInt u).feq g ∧ u < 15120 then
    if u % 126 = 0 then F32.ofInt (u / 126 : Nat) / F32.ofInt 120 else F32.ofInt u / F32.ofInt 15120
  else trunc30 f

theorem decodeZeroToOne_encodeZeroToOne (f : F32) (rest : Bytes) :
    Dec.decodeZeroToOne (Enc.encodeZeroToOne f ++ rest) = some (rtZ2O f, rest) := by
  simp only [Enc.encodeZeroToOne, rtZ2O]
  split
  · rename_i h
    split
    · have h1 : (f * F32.ofInt 15120).toUInt32.toNat / 126 < 128 := by omega
      simp [decodeZeroToOne_map, decodeNatural_one _ h1, z2oOf]
    · have h1 : (f * F32.ofInt 15120).toUInt32.toNat < 16384 := by omega
      simp [decodeZeroToOne_map, decodeNatural_two _ h1, z2oOf]
  · exact decodeZeroToOne_encode4 f rest

/-- the float32 in [0,1) (or NaN) that `encodeAngle` hands to `encodeZeroToOne` -/
def angleNorm (f : F32) : F32 :=
  let g := F64.ofF32 f
  (g - g.floor).toF32

def rtAngle (f : F32) : F32 := rtZ2O (angleNorm f)

theorem encodeAngle_eq (f : F32) : Enc.encodeAngle f = Enc.encodeZeroToOne (angleNorm f) := rfl

theorem decodeZeroToOne_encodeAngle (f : F32) (rest : Bytes) :
    Dec.decodeZeroToOne (Enc.encodeAngle f ++ rest) = some (rtAngle f, rest) := by
  rw [encodeAngle_eq]; exact decodeZeroToOne_encodeZeroToOne _ rest

/-! ### lengths -/

theorem encodeReal_length (f : F32) :
    (Enc.encodeReal f).length =
      (let u := f.toUInt32.toNat
       if (F32.ofInt u).feq f ∧ u < 16384 then (if u < 128 then 1 else 2) else 4) := by
  simp only [Enc.encodeReal]
  split
  · split <;> rfl
  · rfl

theorem encodeReal_length_cases (f : F32) :
    (Enc.encodeReal f).length = 1 ∨ (Enc.encodeReal f).length = 2 ∨ (Enc.encodeReal f).length = 4 := by
  simp only [Enc.encodeReal]
  split
  · split <;> simp
  · simp [encode4ByteReal_length]

theorem encodeCoordinate_length_cases (f : F32) :
    (Enc.encodeCoordinate f).length = 1 ∨ (Enc.encodeCoordinate f).length = 2 ∨
      (Enc.encodeCoordinate f).length = 4 := by
  simp only [Enc.encodeCoordinate]
  split
  · simp
  · split
    · simp
    · simp [encode4ByteReal_length]

theorem encodeZeroToOne_length_cases (f : F32) :
    (Enc.encodeZeroToOne f).length = 1 ∨ (Enc.encodeZeroToOne f).length = 2 ∨
      (Enc.encodeZeroToOne f).length = 4 := by
  simp only [Enc.encodeZeroToOne]
  split
  · split <;> simp
  · simp [encode4ByteReal_length]

theorem encodeAngle_length_cases (f : F32) :
    (Enc.encodeAngle f).length = 1 ∨ (Enc.encodeAngle f).length = 2 ∨
      (Enc.encodeAngle f).length = 4 := by
  rw [encodeAngle_eq]; exact encodeZeroToOne_length_cases _

theorem ne_nil_of_length_cases {l : Bytes} (h : l.length = 1 ∨ l.length = 2 ∨ l.length = 4) :
    l ≠ [] := by
  intro h0; subst h0; simp at h

theorem encodeReal_ne_nil (f : F32) : Enc.encodeReal f ≠ [] :=
  ne_nil_of_length_cases (encodeReal_length_cases f)
theorem encodeCoordinate_ne_nil (f : F32) : Enc.encodeCoordinate f ≠ [] :=
  ne_nil_of_length_cases (encodeCoordinate_length_cases f)
theorem encodeZeroToOne_ne_nil (f : F32) : Enc.encodeZeroToOne f ≠ [] :=
  ne_nil_of_length_cases (encodeZeroToOne_length_cases f)
theorem encodeAngle_ne_nil (f : F32) : Enc.encodeAngle f ≠ [] :=
  ne_nil_of_length_cases (encodeAngle_length_cases f)

/-! ### the short forms are only chosen when they are numerically equal to the input -/

/-- a 1- or 2-byte real decodes to a float that compares `==` to the input -/
theorem rtReal_feq_of_short (f : F32) (h : (Enc.encodeReal f).length ≠ 4) :
    (rtReal f).feq f = true := by
  simp only [Enc.encodeReal, rtReal] at *
  split
  · rename_i hc; exact hc.1
  · rename_i hc; rw [if_neg hc] at h; exact absurd (encode4ByteReal_length f) h

/-- the converse direction of the guard: the 4-byte form is used only if the value is not an
    integer in [0, 2^14) (in the sense of the Go test `float32(uint32(f)) == f && u < 1<<14`) -/
theorem encodeReal_long_iff (f : F32) :
    (Enc.encodeReal f).length = 4 ↔
      ¬ ((F32.ofInt f.toUInt32.toNat).feq f = true ∧ f.toUInt32.toNat < 16384) := by
  simp only [Enc.encodeReal]
  split
  · rename_i hc
    constructor
    · intro h; split at h <;> simp at h
    · intro h; exact absurd hc h
  · rename_i hc; simp [encode4ByteReal_length, hc]

/-- a 1-byte coordinate decodes to a float that compares `==` to the input -/
theorem rtCoord_feq_of_one (f : F32) (h : (Enc.encodeCoordinate f).length = 1) :
    (rtCoord f).feq f = true := by
  simp only [Enc.encodeCoordinate, rtCoord] at *
  split
  · rename_i hc; exact hc.2.2
  · rename_i hc
    rw [if_neg hc] at h
    split at h
    · simp at h
    · simp [encode4ByteReal_length] at h

/-- a 2-byte coordinate `i/64` was chosen because `float32(i) == f*64` -/
theorem encodeCoordinate_two (f : F32) (h : (Enc.encodeCoordinate f).length = 2) :
    -128 * 64 ≤ (f * F32.ofInt 64).toInt32 ∧ (f * F32.ofInt 64).toInt32 < 128 * 64 ∧
      (F32.ofInt (f * F32.ofInt 64).toInt32).feq (f * F32.ofInt 64) = true ∧
      rtCoord f = F32.ofInt (f * F32.ofInt 64).toInt32 / F32.ofInt 64 := by
  simp only [Enc.encodeCoordinate, rtCoord] at *
  split
  · rename_i hc; rw [if_pos hc] at h; simp at h
  · rename_i hc
    rw [if_neg hc] at h
    split
    · rename_i hc2; exact ⟨hc2.1, hc2.2.1, hc2.2.2, rfl⟩
    · rename_i hc2; rw [if_neg hc2] at h; simp [encode4ByteReal_length] at h

/-- a 1- or 2-byte zero-to-one number `u/15120` was chosen because `float32(u) == f*15120` -/
theorem encodeZeroToOne_short (f : F32) (h : (Enc.encodeZeroToOne f).length ≠ 4) :
    (F32.ofInt (f * F32.ofInt 15120).toUInt32.toNat).feq (f * F32.ofInt 15120) = true ∧
      (f * F32.ofInt 15120).toUInt32.toNat < 15120 := by
  simp only [Enc.encodeZeroToOne] at *
  split at h
  · assumption
  · exact absurd (encode4ByteReal_length f) h

/-- the 4-byte form decodes to `trunc30 f`: sign/exponent kept, < 4 ulp (see `real4_bits`,
    `trunc30_close`) -/
theorem rtReal_long (f : F32) (h : (Enc.encodeReal f).length = 4) : rtReal f = trunc30 f := by
  have := (encodeReal_long_iff f).1 h
  simp only [rtReal]; rw [if_neg this]

theorem rtCoord_long (f : F32) (h : (Enc.encodeCoordinate f).length = 4) : rtCoord f = trunc30 f := by
  simp only [Enc.encodeCoordinate, rtCoord] at *
  split
  · rename_i hc; rw [if_pos hc] at h; simp at h
  · rename_i hc
    rw [if_neg hc] at h
    split
    · rename_i hc2; rw [if_pos hc2] at h; simp at h
    · rfl

theorem rtZ2O_long (f : F32) (h : (Enc.encodeZeroToOne f).length = 4) : rtZ2O f = trunc30 f := by
  simp only [Enc.encodeZeroToOne, rtZ2O] at *
  split
  · rename_i hc
    rw [if_pos hc] at h
    split at h <;> simp at h
  · rfl

/-! ## A.7 `nregForm` -/

/-- the number decoder selected by a SetNReg opcode, as in `Dec.decodeStyling` -/
def nregDecoder (opcode : UInt8) : Bytes → Option (F32 × Bytes) :=
  match ((opcode - 0xa8) >>> 3).toNat with
  | 0 => Dec.decodeReal
  | 1 => Dec.decodeCoordinate
  | _ => Dec.decodeZeroToOne

def rtNReg (f : F32) : F32 :=
  let op := (Enc.nregForm f).1
  if op = 0xa8 then rtReal f else if op = 0xb0 then rtCoord f else rtZ2O f

theorem nregForm_cases (f : F32) :
    Enc.nregForm f = (0xa8, Enc.encodeReal f) ∨ Enc.nregForm f = (0xb0, Enc.encodeCoordinate f) ∨
      Enc.nregForm f = (0xb8, Enc.encodeZeroToOne f) := by
  simp only [Enc.nregForm]
  split
  · split
    · exact Or.inr (Or.inr rfl)
    · exact Or.inr (Or.inl rfl)
  · split
    · exact Or.inr (Or.inr rfl)
    · exact Or.inl rfl

theorem nregForm_opcode (f : F32) :
    (Enc.nregForm f).1 = 0xa8 ∨ (Enc.nregForm f).1 = 0xb0 ∨ (Enc.nregForm f).1 = 0xb8 := by
  rcases nregForm_cases f with h | h | h <;> simp [h]

theorem nregDecoder_a8 : nregDecoder 0xa8 = Dec.decodeReal := by simp [nregDecoder]
theorem nregDecoder_b0 : nregDecoder 0xb0 = Dec.decodeCoordinate := by simp [nregDecoder]
theorem nregDecoder_b8 : nregDecoder 0xb8 = Dec.decodeZeroToOne := by simp [nregDecoder]

theorem rtNReg_cases (f : F32) :
    (Enc.nregForm f = (0xa8, Enc.encodeReal f) ∧ rtNReg f = rtReal f) ∨
    (Enc.nregForm f = (0xb0, Enc.encodeCoordinate f) ∧ rtNReg f = rtCoord f) ∨
    (Enc.nregForm f = (0xb8, Enc.encodeZeroToOne f) ∧ rtNReg f = rtZ2O f) := by
  unfold rtNReg
  rcases nregForm_cases f with h | h | h
  · exact Or.inl ⟨h, by rw [h]; simp⟩
  · exact Or.inr (Or.inl ⟨h, by rw [h]; simp⟩)
  · exact Or.inr (Or.inr ⟨h, by rw [h]; simp⟩)

theorem nregForm_decodes (f : F32) (rest : Bytes) :
    nregDecoder (Enc.nregForm f).1 ((Enc.nregForm f).2 ++ rest) = some (rtNReg f, rest) := by
  rcases rtNReg_cases f with ⟨h, h'⟩ | ⟨h, h'⟩ | ⟨h, h'⟩ <;> rw [h, h']
  · rw [nregDecoder_a8]; exact decodeReal_encodeReal f rest
  · rw [nregDecoder_b0]; exact decodeCoordinate_encodeCoordinate f rest
  · rw [nregDecoder_b8]; exact decodeZeroToOne_encodeZeroToOne f rest

/-- the payload is the shortest of the three candidate encodings -/
theorem nregForm_shortest (f : F32) :
    (Enc.nregForm f).2.length ≤ (Enc.encodeReal f).length ∧
    (Enc.nregForm f).2.length ≤ (Enc.encodeCoordinate f).length ∧
    (Enc.nregForm f).2.length ≤ (Enc.encodeZeroToOne f).length := by
  simp only [Enc.nregForm]
  split
  · rename_i h1
    split
    · rename_i h2; simp only at h2 ⊢; omega
    · rename_i h2; simp only at h2 ⊢; omega
  · rename_i h1
    split
    · rename_i h2; simp only at h2 ⊢; omega
    · rename_i h2; simp only at h2 ⊢; omega

theorem nregForm_length_cases (f : F32) :
    (Enc.nregForm f).2.length = 1 ∨ (Enc.nregForm f).2.length = 2 ∨ (Enc.nregForm f).2.length = 4 := by
  rcases nregForm_cases f with h | h | h <;> rw [h]
  · exact encodeReal_length_cases f
  · exact encodeCoordinate_length_cases f
  · exact encodeZeroToOne_length_cases f

/-! ## float semantics (stretch): exactness of `float32(i)`, `*64`, `/64` on the soft-float

Everything here is proved from the definitions in `Ivg/Num/Soft.lean` (`unpack`, `roundMag`,
`roundPack`, `mul`, `div`, `ofInt`, `truncInt`, `eq`) by integer arithmetic on bit patterns.
-/

theorem emin_f32 : Fmt.f32.emin = -149 := by decide
theorem prec_f32 : Fmt.f32.prec = 24 := by decide
theorem infBits_f32 : Fmt.f32.infBits = 2139095040 := by decide
theorem signBit_f32 : Fmt.f32.signBit = 2147483648 := by decide
theorem mbits_f32 : Fmt.f32.mbits = 23 := rfl
theorem ebits_f32 : Fmt.f32.ebits = 8 := rfl
theorem expMax_f32 : Fmt.f32.expMax = 255 := by decide

/-- `roundMag` for binary32 with the working exponent `fe` named -/
theorem roundMag_f32 (m : Nat) (e fe : Int)
    (hfe : fe = if e + (bitLen m : Int) - 24 < -149 then -149 else e + (bitLen m : Int) - 24) :
    roundMag .f32 m e =
      (let q : Nat :=
        if fe ≤ e then m * 2 ^ (e - fe).toNat
        else
          if m % 2 ^ (fe - e).toNat > 2 ^ ((fe - e).toNat - 1) ||
              (m % 2 ^ (fe - e).toNat == 2 ^ ((fe - e).toNat - 1) && m / 2 ^ (fe - e).toNat % 2 == 1)
          then m / 2 ^ (fe - e).toNat + 1 else m / 2 ^ (fe - e).toNat
       if (fe + 149).toNat * 8388608 + q ≥ 2139095040 then 2139095040
       else (fe + 149).toNat * 8388608 + q) := by
  have c24 : ((24 : Nat) : Int) = 24 := rfl
  simp only [roundMag, emin_f32, prec_f32, infBits_f32, mbits_f32, c24]
  rw [← hfe]
  have : fe - -149 = fe + 149 := by omega
  simp only [this]

theorem bitLen_eq {m k : Nat} (h1 : 2^k ≤ m) (h2 : m < 2^(k+1)) : bitLen m = k + 1 := by
  have hm : m ≠ 0 := by have := Nat.two_pow_pos k; omega
  unfold bitLen
  simp [hm, (Nat.log2_eq_iff hm).2 ⟨h1, h2⟩]

/-- no rounding, left shift: a mantissa of `j+1 ≤ 24` bits is normalised exactly -/
theorem roundMag_shl (m : Nat) (e : Int) (j k : Nat) (hjk : j + k = 23)
    (h1 : 2^j ≤ m) (h2 : m < 2^(j+1)) (he : -149 ≤ e - k) (hno : e - k + 149 < 254) :
    roundMag .f32 m e = (e - k + 149).toNat * 8388608 + m * 2^k ∧
      8388608 ≤ m * 2^k ∧ m * 2^k < 16777216 := by
  have hbl := bitLen_eq h1 h2
  have hq1 : 8388608 ≤ m * 2^k := by
    have h : 2^j * 2^k = 8388608 := by rw [← Nat.pow_add, hjk]
    have := Nat.mul_le_mul_right (2^k) h1
    omega
  have hq2 : m * 2^k < 16777216 := by
    have h24 : j + 1 + k = 24 := by omega
    have h : 2^(j+1) * 2^k = 16777216 := by rw [← Nat.pow_add, h24]
    have := (Nat.mul_lt_mul_right (Nat.two_pow_pos k)).2 h2
    omega
  refine ⟨?_, hq1, hq2⟩
  have hfe : e - k = if e + (bitLen m : Int) - 24 < -149 then -149 else e + (bitLen m : Int) - 24 := by
    rw [hbl]; split <;> omega
  rw [roundMag_f32 m e (e - k) hfe]
  have hk : (e - (e - (k : Int))).toNat = k := by omega
  have hle : e - (k : Int) ≤ e := by omega
  simp only [hk, if_pos hle]
  rw [if_neg (by omega)]

/-- no rounding, right shift by `s`: the low `s` bits are zero -/
theorem roundMag_shr (q : Nat) (e : Int) (s : Nat) (hs : 0 < s)
    (h1 : 8388608 ≤ q) (h2 : q < 16777216) (he : -149 ≤ e + s) (hno : e + s + 149 < 254) :
    roundMag .f32 (q * 2^s) e = (e + s + 149).toNat * 8388608 + q := by
  have hp := Nat.two_pow_pos s
  have hbl : bitLen (q * 2^s) = 23 + s + 1 := by
    apply bitLen_eq
    · rw [Nat.pow_add]; exact Nat.mul_le_mul_right _ h1
    · have : 23 + s + 1 = 24 + s := by omega
      rw [this, Nat.pow_add]; exact (Nat.mul_lt_mul_right hp).2 h2
  have hfe : e + s = if e + (bitLen (q * 2^s) : Int) - 24 < -149 then -149
      else e + (bitLen (q * 2^s) : Int) - 24 := by
    rw [hbl]; split <;> omega
  rw [roundMag_f32 _ e (e + s) hfe]
  have hk : (e + (s : Int) - e).toNat = s := by omega
  have hle : ¬ (e + (s : Int) ≤ e) := by omega
  simp only [hk, if_neg hle]
  have hr : q * 2^s % 2^s = 0 := Nat.mul_mod_left _ _
  have hd : q * 2^s / 2^s = q := Nat.mul_div_cancel _ hp
  have hh : 0 < 2^(s-1) := Nat.two_pow_pos _
  simp only [hr, hd]
  have : ¬ ((decide (0 > 2 ^ (s - 1)) || (0 == 2 ^ (s - 1) && q % 2 == 1)) = true) := by
    simp; omega
  rw [if_neg this, if_neg (by omega)]


/-- sign bit of a 32-bit pattern as the soft-float reads it -/
def negB (b : Nat) : Bool := b / 2147483648 % 2 == 1

theorem unpack_f32 (b : Nat) : unpack .f32 b =
    if b / 8388608 % 256 = 255 then (if b % 8388608 = 0 then .inf (negB b) else .nan b)
    else if b / 8388608 % 256 = 0 then .fin (negB b) (b % 8388608) (-149)
    else .fin (negB b) (b % 8388608 + 8388608) (((b / 8388608 % 256 : Nat) : Int) - 150) := by
  simp only [unpack, emin_f32, signBit_f32, mbits_f32, ebits_f32, expMax_f32, negB, beq_iff_eq]
  have c1 : (2:Nat)^23 = 8388608 := by decide
  have c2 : (2:Nat)^8 = 256 := by decide
  simp only [c1, c2]
  split
  · rfl
  · split
    · rfl
    · congr 1; omega

/-- a normal number given by fields -/
theorem unpack_normal (sg ex mt : Nat) (hs : sg < 2) (hex1 : 0 < ex) (hex2 : ex < 255) (hmt : mt < 8388608) :
    unpack .f32 (sg * 2147483648 + ex * 8388608 + mt) = .fin (sg == 1) (mt + 8388608) ((ex : Int) - 150) := by
  rw [unpack_f32]
  have h1 : (sg * 2147483648 + ex * 8388608 + mt) / 8388608 % 256 = ex := by omega
  have h2 : (sg * 2147483648 + ex * 8388608 + mt) % 8388608 = mt := by omega
  have h3 : negB (sg * 2147483648 + ex * 8388608 + mt) = (sg == 1) := by
    unfold negB
    have : (sg * 2147483648 + ex * 8388608 + mt) / 2147483648 % 2 = sg := by omega
    rw [this]
  rw [h1, h2, h3, if_neg (by omega), if_neg (by omega)]

theorem exists_jk (m : Nat) (h0 : 0 < m) (h : m < 16777216) :
    ∃ j k, j + k = 23 ∧ 2^j ≤ m ∧ m < 2^(j+1) := by
  have hm : m ≠ 0 := by omega
  have hl : m.log2 < 24 := (Nat.log2_lt hm).2 (by omega)
  exact ⟨m.log2, 23 - m.log2, by omega, Nat.log2_self_le hm, Nat.lt_log2_self⟩

theorem roundPack_pos (f : Fmt) (neg : Bool) (m : Nat) (e : Int) (hm : m ≠ 0) :
    roundPack f neg m e = withSign f neg (roundMag f m e) := by
  have : (m == 0) = false := by simp [hm]
  simp [roundPack, this]

/-- bits of `float32(i)` for `0 < |i| < 2^24`: exact, normal, exponent field `150 - k` -/
theorem ofInt_bits (i : Int) (j k : Nat) (hjk : j + k = 23) (h1 : 2^j ≤ i.natAbs) (h2 : i.natAbs < 2^(j+1)) :
    Num.ofInt .f32 i = (if i < 0 then 1 else 0) * 2147483648 + (150 - k) * 8388608 + (i.natAbs * 2^k - 8388608) ∧
      8388608 ≤ i.natAbs * 2^k ∧ i.natAbs * 2^k < 16777216 := by
  obtain ⟨hr, hq1, hq2⟩ := roundMag_shl i.natAbs 0 j k hjk h1 h2 (by omega) (by omega)
  refine ⟨?_, hq1, hq2⟩
  have hp := Nat.two_pow_pos j
  have hi : i ≠ 0 := by omega
  have hm : i.natAbs ≠ 0 := by omega
  simp only [Num.ofInt, beq_iff_eq, hi, if_false, roundPack_pos _ _ _ _ hm, withSign, signBit_f32, hr]
  have : ((0:Int) - k + 149).toNat = 149 - k := by omega
  rw [this]
  by_cases hneg : i < 0
  · simp only [hneg, decide_true, if_true]; omega
  · simp only [hneg, decide_false, if_false, Bool.false_eq_true]; omega


theorem nb_ofNatBits (n : Nat) (h : n < 4294967296) : (F32.ofNatBits n).nb = n := by
  simp only [F32.nb, F32.ofNatBits, UInt32.toNat_ofNat']
  omega

/-- `float32(i)` for `0 < |i| < 2^24`, unpacked: the value is exactly `i` (`|i|·2^k · 2^-k`) -/
theorem ofInt_small (i : Int) (h0 : i ≠ 0) (h : i.natAbs < 16777216) :
    ∃ k : Nat, k ≤ 23 ∧ 8388608 ≤ i.natAbs * 2^k ∧ i.natAbs * 2^k < 16777216 ∧
      (F32.ofInt i).nb = (if i < 0 then 1 else 0) * 2147483648 + (150 - k) * 8388608 +
        (i.natAbs * 2^k - 8388608) ∧
      unpack .f32 (F32.ofInt i).nb = .fin (decide (i < 0)) (i.natAbs * 2^k) (-(k : Int)) := by
  obtain ⟨j, k, hjk, h1, h2⟩ := exists_jk i.natAbs (by omega) h
  obtain ⟨hb, hq1, hq2⟩ := ofInt_bits i j k hjk h1 h2
  have hnb : (F32.ofInt i).nb = (if i < 0 then 1 else 0) * 2147483648 + (150 - k) * 8388608 +
        (i.natAbs * 2^k - 8388608) := by
    unfold F32.ofInt
    rw [nb_ofNatBits _ (by rw [hb]; split <;> omega), hb]
  refine ⟨k, by omega, hq1, hq2, hnb, ?_⟩
  rw [hnb, unpack_normal _ (150 - k) _ (by split <;> omega) (by omega) (by omega) (by omega)]
  have e1 : i.natAbs * 2^k - 8388608 + 8388608 = i.natAbs * 2^k := by omega
  have e2 : ((150 - k : Nat) : Int) - 150 = -(k : Int) := by omega
  rw [e1, e2]
  by_cases hneg : i < 0 <;> simp [hneg]

theorem truncInt_ofInt (i : Int) (h : i.natAbs < 16777216) :
    truncInt .f32 (F32.ofInt i).nb = some i := by
  by_cases h0 : i = 0
  · subst h0; decide
  · obtain ⟨k, hk, hq1, hq2, _, hu⟩ := ofInt_small i h0 h
    simp only [truncInt, hu]
    have hp := Nat.two_pow_pos k
    by_cases hk0 : k = 0
    · subst hk0
      simp only [Int.natCast_zero, Int.neg_zero, ge_iff_le, Int.le_refl, if_true, Int.toNat_zero,
        Nat.pow_zero, Nat.mul_one]
      by_cases hneg : i < 0 <;> simp [hneg] <;> omega
    · have : ¬ (-(k : Int) ≥ 0) := by omega
      have hn : (- -(k : Int)).toNat = k := by omega
      simp only [this, if_false, hn, Nat.mul_div_cancel _ hp]
      by_cases hneg : i < 0 <;> simp [hneg] <;> omega

theorem toInt32_ofInt (i : Int) (h : i.natAbs < 16777216) : (F32.ofInt i).toInt32 = i := by
  simp only [F32.toInt32, truncInt_ofInt i h]
  rw [if_neg (by omega)]

theorem toUInt32_ofInt (u : Nat) (h : u < 16777216) : (F32.ofInt u).toUInt32.toNat = u := by
  simp only [F32.toUInt32, truncInt_ofInt (u : Int) (by omega)]
  rw [if_neg (by omega)]
  simp only [UInt32.toNat_ofNat']
  omega


theorem nb_lt (a : F32) : a.nb < 4294967296 := a.bits.toNat_lt

theorem F32.ext_nb {a b : F32} (h : a.nb = b.nb) : a = b := F32.ext_toNat h

/-- Go's `==` on float32: neither is NaN and the bit patterns agree, or both are zeros -/
theorem feq_iff (a b : F32) :
    a.feq b = true ↔ a.isNaN = false ∧ b.isNaN = false ∧
      (a = b ∨ (a.nb % 2147483648 = 0 ∧ b.nb % 2147483648 = 0)) := by
  have ha := nb_lt a
  have hb := nb_lt b
  have hab : a = b ↔ a.nb = b.nb := ⟨fun h => by rw [h], F32.ext_nb⟩
  rw [hab]
  have ho : ∀ x : Nat, Num.isNaN .f32 x = false →
      toOrd .f32 x = some (if x ≥ 2147483648 then -((x - 2147483648 : Nat) : Int) else (x : Int)) := by
    intro x hx
    simp only [toOrd, hx, signBit_f32, Bool.false_eq_true, if_false]
    split <;> rfl
  simp only [F32.feq, F32.isNaN, Num.eq]
  cases hna : Num.isNaN .f32 a.nb
  · cases hnb : Num.isNaN .f32 b.nb
    · simp only [ho _ hna, ho _ hnb, true_and, beq_iff_eq]
      split <;> split <;> omega
    · simp [toOrd, hnb]
  · simp [toOrd, hna]

theorem feq_self (a : F32) (h : a.isNaN = false) : a.feq a = true :=
  (feq_iff a a).2 ⟨h, h, Or.inl rfl⟩


theorem isNaN_nb (a : F32) : a.isNaN = decide (a.nb % 2147483648 > 2139095040) := by
  simp only [F32.isNaN, Num.isNaN, signBit_f32, infBits_f32]

theorem ofInt_not_nan (i : Int) (h : i.natAbs < 16777216) : (F32.ofInt i).isNaN = false := by
  by_cases h0 : i = 0
  · subst h0; decide
  · obtain ⟨k, hk, hq1, hq2, hnb, _⟩ := ofInt_small i h0 h
    rw [isNaN_nb, hnb]
    simp only [decide_eq_false_iff_not]
    split <;> omega

theorem ofInt_feq_self (i : Int) (h : i.natAbs < 16777216) : (F32.ofInt i).feq (F32.ofInt i) = true :=
  feq_self _ (ofInt_not_nan i h)

/-- re-encoding a decoded 1- or 2-byte real: the same bytes as the shortest natural encoding -/
theorem encodeReal_ofInt (u : Nat) (h : u < 16384) : Enc.encodeReal (F32.ofInt u) = Enc.encodeNatural u := by
  have hu := toUInt32_ofInt u (by omega)
  have hf := ofInt_feq_self (u : Int) (by omega)
  simp only [Enc.encodeReal, hu, hf, h, and_self, if_true, Enc.encodeNatural]

theorem rtReal_ofInt (u : Nat) (h : u < 16384) : rtReal (F32.ofInt u) = F32.ofInt u := by
  have hu := toUInt32_ofInt u (by omega)
  have hf := ofInt_feq_self (u : Int) (by omega)
  simp only [rtReal, hu, hf, h, and_self, if_true]

/-- re-encoding a decoded 1-byte coordinate: the same byte -/
theorem encodeCoordinate_ofInt (i : Int) (h1 : -64 ≤ i) (h2 : i < 64) :
    Enc.encodeCoordinate (F32.ofInt i) = [Enc.byte ((i + 64).toNat * 2)] := by
  have hu := toInt32_ofInt i (by omega)
  have hf := ofInt_feq_self i (by omega)
  simp only [Enc.encodeCoordinate, hu, hf, h1, h2, and_self, if_true]

theorem rtCoord_ofInt (i : Int) (h1 : -64 ≤ i) (h2 : i < 64) : rtCoord (F32.ofInt i) = F32.ofInt i := by
  have hu := toInt32_ofInt i (by omega)
  have hf := ofInt_feq_self i (by omega)
  simp only [rtCoord, hu, hf, h1, h2, and_self, if_true]


theorem zero_cases (f : F32) (h : f.nb % 2147483648 = 0) : f = ⟨0⟩ ∨ f = ⟨0x80000000⟩ := by
  have := nb_lt f
  have : f.nb = 0 ∨ f.nb = 2147483648 := by omega
  rcases this with h | h
  · exact Or.inl (F32.ext_nb h)
  · exact Or.inr (F32.ext_nb h)

theorem ofInt_zero_iff (i : Int) (h : i.natAbs < 16777216) :
    (F32.ofInt i).nb % 2147483648 = 0 ↔ i = 0 := by
  constructor
  · intro hz
    by_cases h0 : i = 0
    · exact h0
    · obtain ⟨k, hk, hq1, hq2, hnb, _⟩ := ofInt_small i h0 h
      rw [hnb] at hz
      split at hz <;> omega
  · intro h0; subst h0; decide

/-- Clause "reals always use the shortest form that represents the value exactly": a float that is
    `==` to an integer `u < 2^14` is written exactly like the natural `u` -/
theorem encodeReal_of_feq (f : F32) (u : Nat) (hu : u < 16384) (h : (F32.ofInt u).feq f = true) :
    Enc.encodeReal f = Enc.encodeNatural u := by
  obtain ⟨_, _, h | ⟨hz1, hz2⟩⟩ := (feq_iff _ _).1 h
  · rw [← h]; exact encodeReal_ofInt u hu
  · have : (u : Int) = 0 := (ofInt_zero_iff u (by omega)).1 hz1
    have : u = 0 := by omega
    subst this
    rcases zero_cases f hz2 with rfl | rfl <;> decide

/-- … and conversely a 1- or 2-byte real is `==` to the integer it encodes -/
theorem real_short_iff (f : F32) :
    (Enc.encodeReal f).length ≠ 4 ↔ ∃ u, u < 16384 ∧ (F32.ofInt (u : Nat)).feq f = true := by
  constructor
  · intro h
    have := (encodeReal_long_iff f)
    by_cases hc : (F32.ofInt f.toUInt32.toNat).feq f = true ∧ f.toUInt32.toNat < 16384
    · exact ⟨_, hc.2, hc.1⟩
    · exact absurd (this.2 hc) h
  · intro ⟨u, hu, h⟩
    rw [encodeReal_of_feq f u hu h, encodeNatural_length]
    unfold natWidth; split
    · omega
    · omega



theorem bne_false (b : Bool) : (b != false) = b := by cases b <;> rfl

theorem mul_fin_fin (f : Fmt) (a b : Nat) (s : Bool) (m : Nat) (e : Int) (t : Bool) (n : Nat) (g : Int)
    (ha : unpack f a = .fin s m e) (hb : unpack f b = .fin t n g) :
    Num.mul f a b = roundPack f (s != t) (m * n) (e + g) := by
  unfold Num.mul; rw [ha, hb]

theorem div_fin_fin (f : Fmt) (a b : Nat) (s : Bool) (m : Nat) (e : Int) (t : Bool) (n : Nat) (g : Int)
    (ha : unpack f a = .fin s m e) (hb : unpack f b = .fin t n g) (hn : n ≠ 0) (hm : m ≠ 0) :
    Num.div f a b =
      roundPack f (s != t) (m * 2 ^ (f.prec + 3 + bitLen n - bitLen m) / n)
        (e - g - ((f.prec + 3 + bitLen n - bitLen m : Nat) : Int))
        (m * 2 ^ (f.prec + 3 + bitLen n - bitLen m) % n != 0) := by
  have h1 : (n == 0) = false := by simp [hn]
  have h2 : (m == 0) = false := by simp [hm]
  unfold Num.div; rw [ha, hb]
  simp only [h1, h2, Bool.false_eq_true, if_false]

theorem mul64_bits' (c64 : Nat) (hc : unpack .f32 c64 = .fin false 8388608 (-17))
    (sg ex mt : Nat) (hs : sg < 2) (hex1 : 0 < ex) (hex2 : ex < 249) (hmt : mt < 8388608) :
    Num.mul .f32 (sg * 2147483648 + ex * 8388608 + mt) c64 =
      sg * 2147483648 + (ex + 6) * 8388608 + mt := by
  have hu := unpack_normal sg ex mt hs hex1 (by omega) hmt
  have hm : (mt + 8388608) * 8388608 ≠ 0 := by omega
  have hr := roundMag_shr (mt + 8388608) ((ex : Int) - 150 + -17) 23 (by omega) (by omega) (by omega)
    (by omega) (by omega)
  have c : (2:Nat)^23 = 8388608 := by decide
  rw [c] at hr
  clear c
  rw [mul_fin_fin _ _ _ _ _ _ _ _ _ hu hc, roundPack_pos _ _ _ _ hm, hr, bne_false]
  have : ((ex : Int) - 150 + -17 + ((23 : Nat) : Int) + 149).toNat = ex + 5 := by omega
  rw [this]
  unfold withSign
  rw [signBit_f32]
  have : sg = 0 ∨ sg = 1 := by omega
  rcases this with rfl | rfl
  · have : ((0 : Nat) == 1) = false := rfl
    rw [this]; simp only [Bool.false_eq_true, if_false]; clear hr hu hc; omega
  · have : ((1 : Nat) == 1) = true := rfl
    rw [this]; simp only [if_true]; clear hr hu hc; omega

theorem div64_bits' (c64 : Nat) (hc : unpack .f32 c64 = .fin false 8388608 (-17))
    (sg ex mt : Nat) (hs : sg < 2) (hex1 : 7 ≤ ex) (hex2 : ex < 255) (hmt : mt < 8388608) :
    Num.div .f32 (sg * 2147483648 + ex * 8388608 + mt) c64 =
      sg * 2147483648 + (ex - 6) * 8388608 + mt := by
  have hu := unpack_normal sg ex mt hs (by omega) hex2 hmt
  have hb1 : bitLen 8388608 = 24 := bitLen_eq (k := 23) (by omega) (by omega)
  have hb2 : bitLen (mt + 8388608) = 24 := bitLen_eq (k := 23) (by omega) (by omega)
  have hk : Fmt.f32.prec + 3 + 24 - 24 = 27 := by rw [prec_f32]
  have c27 : (2:Nat) ^ 27 = 134217728 := by decide
  have hq : (mt + 8388608) * 134217728 / 8388608 = (mt + 8388608) * 2^4 := by omega
  have hrem : (mt + 8388608) * 134217728 % 8388608 = 0 := by omega
  have hm : (mt + 8388608) * 2^4 ≠ 0 := by omega
  have hr := roundMag_shr (mt + 8388608) ((ex : Int) - 150 - -17 - ((27 : Nat) : Int)) 4
    (by omega) (by omega) (by omega) (by omega) (by omega)
  have n0 : (8388608 : Nat) ≠ 0 := by decide
  have m0 : mt + 8388608 ≠ 0 := Nat.succ_ne_zero _
  rw [div_fin_fin _ _ _ _ _ _ _ _ _ hu hc n0 m0, hb1, hb2, hk, c27, hq, hrem]
  clear c27
  have : ((0 : Nat) != 0) = false := rfl
  rw [this, roundPack_pos _ _ _ _ hm, hr, bne_false]
  have : ((ex : Int) - 150 - -17 - ((27 : Nat) : Int) + ((4 : Nat) : Int) + 149).toNat = ex - 7 := by
    omega
  rw [this]
  unfold withSign
  rw [signBit_f32]
  have : sg = 0 ∨ sg = 1 := by omega
  rcases this with rfl | rfl
  · have : ((0 : Nat) == 1) = false := rfl
    rw [this]; simp only [Bool.false_eq_true, if_false]; clear hr hu hc; omega
  · have : ((1 : Nat) == 1) = true := rfl
    rw [this]; simp only [if_true]; clear hr hu hc; omega
theorem bitLen_mul_pow (q s : Nat) (h0 : 0 < q) : bitLen (q * 2^s) = bitLen q + s := by
  have hq : q ≠ 0 := by omega
  have h1 := Nat.log2_self_le hq
  have h2 : q < 2^(q.log2 + 1) := Nat.lt_log2_self
  have hp := Nat.two_pow_pos s
  have hb : bitLen q = q.log2 + 1 := bitLen_eq h1 h2
  rw [hb]
  have : q.log2 + 1 + s = (q.log2 + s) + 1 := by omega
  rw [this]
  apply bitLen_eq
  · rw [Nat.pow_add]; exact Nat.mul_le_mul_right _ h1
  · have : q.log2 + s + 1 = (q.log2 + 1) + s := by omega
    rw [this, Nat.pow_add]; exact (Nat.mul_lt_mul_right hp).2 h2

theorem bitLen_le24 (q : Nat) (h : q < 16777216) : bitLen q ≤ 24 := by
  unfold bitLen
  split
  · omega
  · rename_i h0
    have hq : q ≠ 0 := by simpa using h0
    have := (Nat.log2_lt hq).2 (show q < 2^24 by omega)
    omega

/-- exact right shift, allowing overflow and a subnormal result -/
theorem roundMag_shr' (q : Nat) (e : Int) (s : Nat) (hs : 0 < s) (h0 : 0 < q) (h2 : q < 16777216)
    (hn : 8388608 ≤ q ∨ e + s = -149) (he : -149 ≤ e + s) :
    roundMag .f32 (q * 2^s) e =
      if (e + s + 149).toNat * 8388608 + q ≥ 2139095040 then 2139095040
      else (e + s + 149).toNat * 8388608 + q := by
  have hp := Nat.two_pow_pos s
  have hbl := bitLen_mul_pow q s h0
  have hle := bitLen_le24 q h2
  have hfe : e + s = if e + (bitLen (q * 2^s) : Int) - 24 < -149 then -149
      else e + (bitLen (q * 2^s) : Int) - 24 := by
    rw [hbl]
    rcases hn with hn | hn
    · have : bitLen q = 24 := bitLen_eq (k := 23) (by omega) (by omega)
      rw [this]; split <;> omega
    · split <;> omega
  rw [roundMag_f32 _ e (e + s) hfe]
  have hk : (e + (s : Int) - e).toNat = s := by omega
  have hle : ¬ (e + (s : Int) ≤ e) := by omega
  simp only [hk, if_neg hle]
  have hr : q * 2^s % 2^s = 0 := Nat.mul_mod_left _ _
  have hd : q * 2^s / 2^s = q := Nat.mul_div_cancel _ hp
  have hh : 0 < 2^(s-1) := Nat.two_pow_pos _
  simp only [hr, hd]
  have : ¬ ((decide (0 > 2 ^ (s - 1)) || (0 == 2 ^ (s - 1) && q % 2 == 1)) = true) := by
    simp; omega
  rw [if_neg this]

theorem mul_nan_left (f : Fmt) (a b x : Nat) (ha : unpack f a = .nan x) :
    Num.mul f a b = propNaN f a b := by
  unfold Num.mul; rw [ha]

theorem mul_inf_fin (f : Fmt) (a b : Nat) (s t : Bool) (n : Nat) (g : Int)
    (ha : unpack f a = .inf s) (hb : unpack f b = .fin t n g) :
    Num.mul f a b = if n == 0 then f.defaultNaN else withSign f (s != t) f.infBits := by
  unfold Num.mul; rw [ha, hb]

/-- ×64 of an infinity or NaN is an infinity or NaN -/
theorem mul64_nonfinite (c64 : Nat) (hc : unpack .f32 c64 = .fin false 8388608 (-17))
    (sg mt : Nat) (hs : sg < 2) (hmt : mt < 8388608) :
    Num.mul .f32 (sg * 2147483648 + 255 * 8388608 + mt) c64 / 8388608 % 256 = 255 ∧
      Num.mul .f32 (sg * 2147483648 + 255 * 8388608 + mt) c64 < 4294967296 := by
  have hu := unpack_f32 (sg * 2147483648 + 255 * 8388608 + mt)
  have h1 : (sg * 2147483648 + 255 * 8388608 + mt) / 8388608 % 256 = 255 := by omega
  have h2 : (sg * 2147483648 + 255 * 8388608 + mt) % 8388608 = mt := by omega
  rw [h1, h2, if_pos rfl] at hu
  by_cases hm : mt = 0
  · rw [if_pos hm] at hu
    rw [mul_inf_fin _ _ _ _ _ _ _ hu hc]
    have : ((8388608 : Nat) == 0) = false := rfl
    rw [this]
    simp only [Bool.false_eq_true, if_false, withSign, signBit_f32, infBits_f32]
    split <;> omega
  · rw [if_neg hm] at hu
    rw [mul_nan_left _ _ _ _ hu]
    have hn : Num.isNaN .f32 (sg * 2147483648 + 255 * 8388608 + mt) = true := by
      simp only [Num.isNaN, signBit_f32, infBits_f32, decide_eq_true_eq]; omega
    simp only [propNaN, hn, if_true, quiet, Fmt.quietBit, mbits_f32]
    have c : (2:Nat)^(23-1) = 4194304 := by decide
    simp only [c]; clear c
    split
    · omega
    · rename_i hq
      simp only [beq_iff_eq] at hq
      omega

/-- ×64 of a zero is a zero -/
theorem mul64_zero (c64 : Nat) (hc : unpack .f32 c64 = .fin false 8388608 (-17))
    (sg : Nat) (hs : sg < 2) :
    Num.mul .f32 (sg * 2147483648) c64 = sg * 2147483648 := by
  have hu := unpack_f32 (sg * 2147483648)
  have h1 : (sg * 2147483648) / 8388608 % 256 = 0 := by omega
  have h2 : (sg * 2147483648) % 8388608 = 0 := by omega
  have h3 : negB (sg * 2147483648) = (sg == 1) := by
    unfold negB
    have : sg * 2147483648 / 2147483648 % 2 = sg := by omega
    rw [this]
  rw [h1, h2, h3, if_neg (by omega), if_pos rfl] at hu
  rw [mul_fin_fin _ _ _ _ _ _ _ _ _ hu hc, bne_false]
  simp only [roundPack, Nat.zero_mul, beq_self_eq_true, Bool.not_false, Bool.and_self, if_true, withSign,
    signBit_f32]
  have : sg = 0 ∨ sg = 1 := by omega
  rcases this with rfl | rfl <;> simp

/-- ×64 of a normal number: exponent field + 6, or overflow to infinity -/
theorem mul64_normal (c64 : Nat) (hc : unpack .f32 c64 = .fin false 8388608 (-17))
    (sg ex mt : Nat) (hs : sg < 2) (hex1 : 0 < ex) (hex2 : ex < 255) (hmt : mt < 8388608) :
    Num.mul .f32 (sg * 2147483648 + ex * 8388608 + mt) c64 =
      if ex < 249 then sg * 2147483648 + (ex + 6) * 8388608 + mt else sg * 2147483648 + 2139095040 := by
  split
  · rename_i h; exact mul64_bits' c64 hc sg ex mt hs hex1 h hmt
  · rename_i h
    have hu := unpack_normal sg ex mt hs hex1 (by omega) hmt
    have hm : (mt + 8388608) * 8388608 ≠ 0 := by omega
    have hr := roundMag_shr' (mt + 8388608) ((ex : Int) - 150 + -17) 23 (by omega) (by omega) (by omega)
      (Or.inl (by omega)) (by omega)
    have c : (2:Nat)^23 = 8388608 := by decide
    rw [c] at hr
    clear c
    rw [mul_fin_fin _ _ _ _ _ _ _ _ _ hu hc, roundPack_pos _ _ _ _ hm, hr, bne_false]
    have : ((ex : Int) - 150 + -17 + ((23 : Nat) : Int) + 149).toNat = ex + 5 := by omega
    rw [this, if_pos (by omega)]
    unfold withSign
    rw [signBit_f32]
    have : sg = 0 ∨ sg = 1 := by omega
    rcases this with rfl | rfl
    · have : ((0 : Nat) == 1) = false := rfl
      rw [this]; simp only [Bool.false_eq_true, if_false]
    · have : ((1 : Nat) == 1) = true := rfl
      rw [this]; simp only [if_true]

/-- `mt·2^23 · 2^-166` for a subnormal mantissa rounds to a tiny nonzero magnitude -/
theorem roundMag_sub64 (mt : Nat) (h0 : 0 < mt) (hmt : mt < 8388608) :
    0 < roundMag .f32 (mt * 8388608) (-166) ∧ roundMag .f32 (mt * 8388608) (-166) < 58720256 := by
  by_cases hsmall : mt < 131072
  · have hr := roundMag_shr' (mt * 64) (-166) 17 (by omega) (by omega) (by omega) (Or.inr (by omega))
      (by omega)
    have c : (2:Nat)^17 = 131072 := by decide
    have e1 : mt * 64 * 2^17 = mt * 8388608 := by rw [c]; omega
    rw [e1] at hr
    clear c e1
    have : ((-166 : Int) + ((17 : Nat) : Int) + 149).toNat = 0 := by omega
    rw [this, if_neg (by omega)] at hr
    rw [hr]; omega
  · have hm : mt ≠ 0 := by omega
    have hj1 := Nat.log2_self_le hm
    have hj2 : mt < 2^(mt.log2 + 1) := Nat.lt_log2_self
    have hj17 : 17 ≤ mt.log2 := by
      have := (Nat.log2_lt (k := 17) hm)
      have c : (2:Nat)^17 = 131072 := by decide
      rw [c] at this
      clear c
      omega
    have hj22 : mt.log2 < 23 := (Nat.log2_lt hm).2 (by omega)
    generalize mt.log2 = j at *
    have hp := Nat.two_pow_pos (23 - j)
    have e23 : 2^j * 2^(23 - j) = 8388608 := by
      rw [← Nat.pow_add]; have : j + (23 - j) = 23 := by omega
      rw [this]
    have e24 : 2^(j+1) * 2^(23 - j) = 16777216 := by
      rw [← Nat.pow_add]; have : j + 1 + (23 - j) = 24 := by omega
      rw [this]
    have hq1 : 8388608 ≤ mt * 2^(23 - j) := by
      have := Nat.mul_le_mul_right (2^(23-j)) hj1
      omega
    have hq2 : mt * 2^(23 - j) < 16777216 := by
      have := (Nat.mul_lt_mul_right hp).2 hj2
      omega
    have hr := roundMag_shr' (mt * 2^(23 - j)) (-166) j (by omega) (by omega) hq2 (Or.inl hq1) (by omega)
    have e1 : mt * 2^(23 - j) * 2^j = mt * 8388608 := by
      rw [Nat.mul_assoc, Nat.mul_comm (2^(23-j)), e23]
    rw [e1] at hr
    have : ((-166 : Int) + (j : Int) + 149).toNat = j - 17 := by omega
    rw [this] at hr
    have hb : (j - 17) * 8388608 + mt * 2^(23 - j) < 58720256 := by omega
    rw [if_neg (by omega)] at hr
    rw [hr]; omega

/-- ×64 of a nonzero subnormal is nonzero and far below 1 -/
theorem mul64_subnormal (c64 : Nat) (hc : unpack .f32 c64 = .fin false 8388608 (-17))
    (sg mt : Nat) (hs : sg < 2) (h0 : 0 < mt) (hmt : mt < 8388608) :
    ∃ r, Num.mul .f32 (sg * 2147483648 + mt) c64 = sg * 2147483648 + r ∧ 0 < r ∧ r < 58720256 := by
  have hu := unpack_f32 (sg * 2147483648 + mt)
  have h1 : (sg * 2147483648 + mt) / 8388608 % 256 = 0 := by omega
  have h2 : (sg * 2147483648 + mt) % 8388608 = mt := by omega
  have h3 : negB (sg * 2147483648 + mt) = (sg == 1) := by
    unfold negB
    have : (sg * 2147483648 + mt) / 2147483648 % 2 = sg := by omega
    rw [this]
  rw [h1, h2, h3, if_neg (by omega), if_pos rfl] at hu
  obtain ⟨hr1, hr2⟩ := roundMag_sub64 mt h0 hmt
  have hm : mt * 8388608 ≠ 0 := by omega
  refine ⟨roundMag .f32 (mt * 8388608) (-166), ?_, hr1, hr2⟩
  rw [mul_fin_fin _ _ _ _ _ _ _ _ _ hu hc, bne_false, roundPack_pos _ _ _ _ hm]
  have : ((-149 : Int) + -17) = -166 := by omega
  rw [this]
  unfold withSign
  rw [signBit_f32]
  have : sg = 0 ∨ sg = 1 := by omega
  rcases this with rfl | rfl
  · have : ((0 : Nat) == 1) = false := rfl
    rw [this]; simp only [Bool.false_eq_true, if_false]; omega
  · have : ((1 : Nat) == 1) = true := rfl
    rw [this]; simp only [if_true]

theorem unpack_64 : unpack .f32 (F32.ofInt 64).nb = .fin false 8388608 (-17) := by decide

theorem nb_fields (f : F32) :
    f.nb = sgn f * 2147483648 + expo f * 8388608 + mant f ∧ sgn f < 2 ∧ expo f < 256 ∧
      mant f < 8388608 := by
  have := nb_lt f
  have h : f.bits.toNat = f.nb := rfl
  simp only [sgn, expo, mant, h]
  refine ⟨by omega, by omega, by omega, by omega⟩

theorem mul_nb (f g : F32) : (f * g).nb = Num.mul .f32 f.nb g.nb % 4294967296 := by
  show (F32.mul f g).nb = _
  simp only [F32.mul, F32.nb, F32.ofNatBits, UInt32.toNat_ofNat']

theorem div_nb (f g : F32) : (f / g).nb = Num.div .f32 f.nb g.nb % 4294967296 := by
  show (F32.div f g).nb = _
  simp only [F32.div, F32.nb, F32.ofNatBits, UInt32.toNat_ofNat']

/-- if `f*64` is a normal float with exponent field in [127, 151) then `f*64` is exact:
    `f` is normal and its bit pattern is that of `f*64` with 6 subtracted from the exponent field -/
theorem mul64_inv (f : F32) (h1 : 1065353216 ≤ (f * F32.ofInt 64).nb % 2147483648)
    (h2 : (f * F32.ofInt 64).nb % 2147483648 < 1266679808) :
    (f * F32.ofInt 64).nb = f.nb + 50331648 := by
  obtain ⟨hf, hs, hex, hmt⟩ := nb_fields f
  rw [mul_nb] at *
  generalize hc64 : (F32.ofInt 64).nb = c64 at *
  have hc : unpack .f32 c64 = .fin false 8388608 (-17) := by rw [← hc64]; exact unpack_64
  clear hc64
  rw [hf] at h1 h2 ⊢
  generalize sgn f = sg at *
  generalize expo f = ex at *
  generalize mant f = mt at *
  by_cases hex255 : ex = 255
  · subst hex255
    obtain ⟨ha, hb⟩ := mul64_nonfinite c64 hc sg mt hs hmt
    omega
  · by_cases hex0 : ex = 0
    · subst hex0
      simp only [Nat.zero_mul, Nat.add_zero] at h1 h2 ⊢
      by_cases hm0 : mt = 0
      · subst hm0
        rw [Nat.add_zero, mul64_zero c64 hc sg hs] at h1
        omega
      · obtain ⟨r, hr, hr1, hr2⟩ := mul64_subnormal c64 hc sg mt hs (by omega) hmt
        rw [hr] at h1
        omega
    · have hn := mul64_normal c64 hc sg ex mt hs (by omega) (by omega) hmt
      rw [hn] at h1 h2 ⊢
      split at h1
      · rename_i hlt
        rw [if_pos hlt] at h2 ⊢
        omega
      · rename_i hge
        rw [if_neg hge] at h2
        omega

/-- if `f*64` is a zero then `f` is a zero -/
theorem mul64_zero_inv (f : F32) (h : (f * F32.ofInt 64).nb % 2147483648 = 0) :
    f.nb % 2147483648 = 0 := by
  obtain ⟨hf, hs, hex, hmt⟩ := nb_fields f
  rw [mul_nb] at *
  generalize hc64 : (F32.ofInt 64).nb = c64 at *
  have hc : unpack .f32 c64 = .fin false 8388608 (-17) := by rw [← hc64]; exact unpack_64
  clear hc64
  rw [hf] at h ⊢
  generalize sgn f = sg at *
  generalize expo f = ex at *
  generalize mant f = mt at *
  by_cases hex255 : ex = 255
  · subst hex255
    obtain ⟨ha, hb⟩ := mul64_nonfinite c64 hc sg mt hs hmt
    omega
  · by_cases hex0 : ex = 0
    · subst hex0
      simp only [Nat.zero_mul, Nat.add_zero] at h ⊢
      by_cases hm0 : mt = 0
      · subst hm0; omega
      · obtain ⟨r, hr, hr1, hr2⟩ := mul64_subnormal c64 hc sg mt hs (by omega) hmt
        rw [hr] at h
        omega
    · have hn := mul64_normal c64 hc sg ex mt hs (by omega) (by omega) hmt
      rw [hn] at h
      split at h <;> omega

/-- dividing a normal float with exponent field in [7, 255) by 64 subtracts 6 from the field -/
theorem div64_nb (g : F32) (h1 : 7 ≤ expo g) (h2 : expo g < 255) :
    (g / F32.ofInt 64).nb = g.nb - 50331648 := by
  obtain ⟨hf, hs, hex, hmt⟩ := nb_fields g
  rw [div_nb]
  generalize hc64 : (F32.ofInt 64).nb = c64 at *
  have hc : unpack .f32 c64 = .fin false 8388608 (-17) := by rw [← hc64]; exact unpack_64
  clear hc64
  rw [hf]
  generalize sgn g = sg at *
  generalize expo g = ex at *
  generalize mant g = mt at *
  rw [div64_bits' c64 hc sg ex mt hs h1 h2 hmt]
  omega

theorem expo_nb (f : F32) : expo f = f.nb / 8388608 % 256 := rfl

/-- **2-byte coordinates are exact**: whenever `encodeCoordinate` picks the 2-byte form, the decoded
    value is bit-for-bit the input. -/
theorem coord_two_exact (f : F32) (h : (Enc.encodeCoordinate f).length = 2) : rtCoord f = f := by
  obtain ⟨hi1, hi2, hfeq, hrt⟩ := encodeCoordinate_two f h
  have hnot1 : ¬ (-64 ≤ f.toInt32 ∧ f.toInt32 < 64 ∧ (F32.ofInt f.toInt32).feq f = true) := by
    intro hc
    simp only [Enc.encodeCoordinate] at h
    rw [if_pos hc] at h
    simp at h
  generalize (f * F32.ofInt 64).toInt32 = i at *
  have hsmall : i.natAbs < 16777216 := by omega
  obtain ⟨_, _, hcase⟩ := (feq_iff _ _).1 hfeq
  -- the zero case is impossible: `f` would be ±0, which takes the 1-byte form
  have hZ : (f * F32.ofInt 64).nb % 2147483648 = 0 → False := by
    intro hz
    have := mul64_zero_inv f hz
    rcases zero_cases f this with rfl | rfl <;> exact hnot1 (by decide)
  rcases hcase with heq | ⟨_, hz⟩
  · by_cases h0 : i = 0
    · subst h0
      exact (hZ (by rw [← heq]; decide)).elim
    · obtain ⟨k, hk, hq1, hq2, hnb, _⟩ := ofInt_small i h0 hsmall
      rw [heq] at hnb
      have hg1 : 1065353216 ≤ (f * F32.ofInt 64).nb % 2147483648 := by
        rw [hnb]; split <;> omega
      have hg2 : (f * F32.ofInt 64).nb % 2147483648 < 1266679808 := by
        rw [hnb]; split <;> omega
      have hinv := mul64_inv f hg1 hg2
      have hex : 7 ≤ expo (f * F32.ofInt 64) ∧ expo (f * F32.ofInt 64) < 255 := by
        rw [expo_nb, hnb]; split <;> omega
      have hdiv := div64_nb (f * F32.ofInt 64) hex.1 hex.2
      rw [hrt, heq]
      apply F32.ext_nb
      rw [hdiv, hinv]
      omega
  · exact (hZ hz).elim

/-- hence every short coordinate form decodes to a float `==` to the input -/
theorem rtCoord_feq_of_short (f : F32) (h : (Enc.encodeCoordinate f).length ≠ 4) :
    (rtCoord f).feq f = true := by
  rcases encodeCoordinate_length_cases f with h1 | h2 | h4
  · exact rtCoord_feq_of_one f h1
  · have hx := coord_two_exact f h2
    obtain ⟨_, _, hfeq, _⟩ := encodeCoordinate_two f h2
    -- `f` is not NaN because `f*64` is not
    rw [hx]
    apply feq_self
    have hnn := ((feq_iff _ _).1 hfeq).2.1
    cases hf : f.isNaN with
    | false => rfl
    | true =>
      exfalso
      -- a NaN times 64 is a NaN
      have hfn := (isNaN_iff f).1 hf
      obtain ⟨hfld, hs, hex, hmt⟩ := nb_fields f
      have hm := mul_nb f (F32.ofInt 64)
      generalize hc64 : (F32.ofInt 64).nb = c64 at *
      have hc : unpack .f32 c64 = .fin false 8388608 (-17) := by rw [← hc64]; exact unpack_64
      rw [hfld, hfn.1] at hm
      obtain ⟨ha, hb⟩ := mul64_nonfinite c64 hc (sgn f) (mant f) hs hmt
      have hu := unpack_f32 (sgn f * 2147483648 + 255 * 8388608 + mant f)
      have h1 : (sgn f * 2147483648 + 255 * 8388608 + mant f) / 8388608 % 256 = 255 := by omega
      have h2 : (sgn f * 2147483648 + 255 * 8388608 + mant f) % 8388608 = mant f := by omega
      rw [h1, h2, if_pos rfl, if_neg hfn.2] at hu
      have hnan : Num.isNaN .f32 (sgn f * 2147483648 + 255 * 8388608 + mant f) = true := by
        simp only [Num.isNaN, signBit_f32, infBits_f32, decide_eq_true_eq]; omega
      rw [mul_nan_left _ _ _ _ hu] at hm
      simp only [propNaN, hnan, if_true, quiet, Fmt.quietBit, mbits_f32] at hm
      have c : (2:Nat)^(23-1) = 4194304 := by decide
      simp only [c] at hm
      clear c
      rw [isNaN_nb, hm] at hnn
      simp only [decide_eq_false_iff_not] at hnn
      split at hnn
      · omega
      · rename_i hq
        simp only [beq_iff_eq] at hq
        omega
  · exact absurd h4 h

/-- forward direction: ×64 of a normal float below overflow adds 6 to the exponent field -/
theorem mul64_nb (f : F32) (h1 : 1 ≤ expo f) (h2 : expo f < 249) :
    (f * F32.ofInt 64).nb = f.nb + 50331648 := by
  obtain ⟨hf, hs, hex, hmt⟩ := nb_fields f
  rw [mul_nb]
  generalize hc64 : (F32.ofInt 64).nb = c64 at *
  have hc : unpack .f32 c64 = .fin false 8388608 (-17) := by rw [← hc64]; exact unpack_64
  clear hc64
  rw [hf]
  generalize sgn f = sg at *
  generalize expo f = ex at *
  generalize mant f = mt at *
  rw [mul64_bits' c64 hc sg ex mt hs (by omega) h2 hmt]
  omega

/-- the value a 2-byte coordinate decodes to, `float32(k)/64`, times 64 is `float32(k)` again -/
theorem div64_mul64 (k : Int) (h0 : k ≠ 0) (hk : k.natAbs < 16777216) :
    F32.ofInt k / F32.ofInt 64 * F32.ofInt 64 = F32.ofInt k := by
  obtain ⟨kk, hkk, hq1, hq2, hnb, _⟩ := ofInt_small k h0 hk
  have hex : expo (F32.ofInt k) = 150 - kk := by
    rw [expo_nb, hnb]; split <;> omega
  have hd := div64_nb (F32.ofInt k) (by omega) (by omega)
  have hexd : expo (F32.ofInt k / F32.ofInt 64) = 144 - kk := by
    rw [expo_nb, hd, hnb]; split <;> omega
  have hm := mul64_nb (F32.ofInt k / F32.ofInt 64) (by omega) (by omega)
  apply F32.ext_nb
  rw [hm, hd, hnb]
  split <;> omega

/-- re-encoding a decoded 2-byte coordinate `float32(k)/64` takes at most 2 bytes and decodes to
    exactly the same float -/
theorem reencode_coord_two (k : Int) (h1 : -8192 ≤ k) (h2 : k < 8192) :
    (Enc.encodeCoordinate (F32.ofInt k / F32.ofInt 64)).length ≤ 2 ∧
      (rtCoord (F32.ofInt k / F32.ofInt 64) = F32.ofInt k / F32.ofInt 64 ∨
       (rtCoord (F32.ofInt k / F32.ofInt 64)).feq (F32.ofInt k / F32.ofInt 64) = true) := by
  by_cases h0 : k = 0
  · subst h0; decide
  · have hmul := div64_mul64 k h0 (by omega)
    have hti := toInt32_ofInt k (by omega)
    have hfe := ofInt_feq_self k (by omega)
    have hlen : (Enc.encodeCoordinate (F32.ofInt k / F32.ofInt 64)).length ≤ 2 := by
      simp only [Enc.encodeCoordinate, hmul, hti, hfe]
      split
      · simp
      · have hc : -128 * 64 ≤ k ∧ k < 128 * 64 ∧ True := ⟨by omega, by omega, trivial⟩
        rw [if_pos hc]
        simp
    refine ⟨hlen, ?_⟩
    rcases encodeCoordinate_length_cases (F32.ofInt k / F32.ofInt 64) with h | h | h
    · exact Or.inr (rtCoord_feq_of_one _ h)
    · exact Or.inl (coord_two_exact _ h)
    · omega

theorem mant_ofNatBits_mul4 (u : Nat) (hu : u < 2^30) : mant (F32.ofNatBits (u * 4)) % 4 = 0 := by
  have : (F32.ofNatBits (u * 4)).bits.toNat = u * 4 := by
    simp only [F32.ofNatBits, UInt32.toNat_ofNat']; omega
  simp only [mant, this]; omega

/-- Clause "re-encoding a decoded real never changes its value or makes it longer" -/
theorem reencode_real {b : Bytes} {d : F32} {rest : Bytes} (h : Dec.decodeReal b = some (d, rest)) :
    (Enc.encodeReal d).length ≤ b.length - rest.length ∧
      (rtReal d = d ∨ (rtReal d).feq d = true) := by
  obtain ⟨u, n, hd, rfl⟩ := decodeReal_eq h
  obtain ⟨hn, hlen, _⟩ := decodeNatural_consumes hd
  have hu := decodeNatural_lt hd
  have hw := natWidth_le_of_decodeNatural hd
  by_cases h4 : n = 4
  · subst h4
    rw [realOf_four]
    refine ⟨?_, ?_⟩
    · rcases encodeReal_length_cases (F32.ofNatBits (u * 4)) with h | h | h <;> omega
    · by_cases hl : (Enc.encodeReal (F32.ofNatBits (u * 4))).length = 4
      · left; rw [rtReal_long _ hl]; exact trunc30_fix (mant_ofNatBits_mul4 u hu)
      · right; exact rtReal_feq_of_short _ hl
  · have hr : realOf u n = F32.ofInt u := by simp [realOf, h4]
    have hu14 : u < 16384 := by
      unfold natWidth at hw
      split at hw
      · omega
      · split at hw <;> omega
    rw [hr, encodeReal_ofInt u hu14, encodeNatural_length, rtReal_ofInt u hu14]
    exact ⟨by omega, Or.inl rfl⟩

/-- Clause "re-encoding a decoded coordinate never changes its value or makes it longer" -/
theorem reencode_coord {b : Bytes} {d : F32} {rest : Bytes}
    (h : Dec.decodeCoordinate b = some (d, rest)) :
    (Enc.encodeCoordinate d).length ≤ b.length - rest.length ∧
      (rtCoord d = d ∨ (rtCoord d).feq d = true) := by
  obtain ⟨u, n, hd, rfl⟩ := decodeCoordinate_eq h
  obtain ⟨hn, hlen, _⟩ := decodeNatural_consumes hd
  have hu := decodeNatural_lt hd
  have hw := natWidth_le_of_decodeNatural hd
  rcases hn with rfl | rfl | rfl
  · have hu7 : u < 128 := by
      unfold natWidth at hw
      split at hw
      · omega
      · split at hw <;> omega
    rw [coordOf_one, encodeCoordinate_ofInt _ (by omega) (by omega), rtCoord_ofInt _ (by omega) (by omega)]
    exact ⟨by simp; omega, Or.inl rfl⟩
  · have hu14 : u < 16384 := by
      unfold natWidth at hw
      split at hw
      · omega
      · split at hw <;> omega
    rw [coordOf_two]
    have := reencode_coord_two ((u : Int) - 64 * 128) (by omega) (by omega)
    exact ⟨by omega, this.2⟩
  · rw [coordOf_four]
    refine ⟨?_, ?_⟩
    · rcases encodeCoordinate_length_cases (F32.ofNatBits (u * 4)) with h | h | h <;> omega
    · by_cases hl : (Enc.encodeCoordinate (F32.ofNatBits (u * 4))).length = 4
      · left; rw [rtCoord_long _ hl]; exact trunc30_fix (mant_ofNatBits_mul4 u hu)
      · right; exact rtCoord_feq_of_short _ hl

/-- Clause "coordinates always use the shortest form that represents the value exactly", 1 byte:
    exactly the floats `==` to an integer in [-64, 64) -/
theorem encodeCoordinate_of_feq_int (f : F32) (i : Int) (h1 : -64 ≤ i) (h2 : i < 64)
    (h : (F32.ofInt i).feq f = true) : Enc.encodeCoordinate f = [Enc.byte ((i + 64).toNat * 2)] := by
  obtain ⟨_, _, h | ⟨hz1, hz2⟩⟩ := (feq_iff _ _).1 h
  · rw [← h]; exact encodeCoordinate_ofInt i h1 h2
  · have : i = 0 := (ofInt_zero_iff i (by omega)).1 hz1
    subst this
    rcases zero_cases f hz2 with rfl | rfl <;> decide

theorem coord_one_iff (f : F32) :
    (Enc.encodeCoordinate f).length = 1 ↔
      ∃ i : Int, -64 ≤ i ∧ i < 64 ∧ (F32.ofInt i).feq f = true := by
  constructor
  · intro h
    by_cases hc : -64 ≤ f.toInt32 ∧ f.toInt32 < 64 ∧ (F32.ofInt f.toInt32).feq f = true
    · exact ⟨_, hc⟩
    · simp only [Enc.encodeCoordinate] at h
      rw [if_neg hc] at h
      split at h
      · simp at h
      · simp [encode4ByteReal_length] at h
  · intro ⟨i, h1, h2, h⟩
    rw [encodeCoordinate_of_feq_int f i h1 h2 h]; rfl

/-- 2 bytes: the input IS `float32(k)/64` for the `k` written -/
theorem coord_two_form (f : F32) (h : (Enc.encodeCoordinate f).length = 2) :
    ∃ k : Int, -8192 ≤ k ∧ k < 8192 ∧ f = F32.ofInt k / F32.ofInt 64 := by
  obtain ⟨h1, h2, _, hrt⟩ := encodeCoordinate_two f h
  refine ⟨(f * F32.ofInt 64).toInt32, ?_, ?_, ?_⟩
  · omega
  · omega
  · rw [← hrt, coord_two_exact f h]

/-- at most 2 bytes whenever the input is `==` to some `float32(k)/64`, `k ∈ [-8192, 8192)` -/
theorem coord_short_of_feq (f : F32) (k : Int) (h1 : -8192 ≤ k) (h2 : k < 8192)
    (h : (F32.ofInt k / F32.ofInt 64).feq f = true) : (Enc.encodeCoordinate f).length ≤ 2 := by
  obtain ⟨_, _, h | ⟨_, hz2⟩⟩ := (feq_iff _ _).1 h
  · rw [← h]; exact (reencode_coord_two k h1 h2).1
  · rcases zero_cases f hz2 with rfl | rfl <;> decide

set_option maxRecDepth 100000 in
theorem ofInt_mul64_div64 : ∀ u : Fin 128,
    F32.ofInt (((u.val : Int) - 64) * 64) / F32.ofInt 64 = F32.ofInt ((u.val : Int) - 64) := by
  decide +kernel

/-- the 1- and 2-byte forms together are used exactly for the floats `==` to a multiple of 1/64 in
    [-128, 128) -/
theorem coord_short_iff (f : F32) :
    (Enc.encodeCoordinate f).length ≠ 4 ↔
      ∃ k : Int, -8192 ≤ k ∧ k < 8192 ∧ (F32.ofInt k / F32.ofInt 64).feq f = true := by
  constructor
  · intro h
    rcases encodeCoordinate_length_cases f with h1 | h2 | h4
    · obtain ⟨i, hi1, hi2, hf⟩ := (coord_one_iff f).1 h1
      refine ⟨i * 64, by omega, by omega, ?_⟩
      have := ofInt_mul64_div64 ⟨(i + 64).toNat, by omega⟩
      have e : (((⟨(i + 64).toNat, by omega⟩ : Fin 128).val : Nat) : Int) - 64 = i := by
        show (((i + 64).toNat : Nat) : Int) - 64 = i
        omega
      rw [e] at this
      rw [this]; exact hf
    · obtain ⟨k, hk1, hk2, hf⟩ := coord_two_form f h2
      refine ⟨k, hk1, hk2, ?_⟩
      rw [← hf]
      have := rtCoord_feq_of_short f h
      rw [coord_two_exact f h2] at this
      exact this
    · exact absurd h4 h
  · intro ⟨k, h1, h2, h⟩
    have := coord_short_of_feq f k h1 h2 h
    omega


/-- encode → decode → encode → decode: the second round trip changes nothing (up to the sign of
    zero: `rtCoord ⟨0x80000001⟩ = -0` but `rtCoord (-0) = +0`) and is not longer -/
theorem rtCoord_idem (f : F32) :
    (Enc.encodeCoordinate (rtCoord f)).length ≤ (Enc.encodeCoordinate f).length ∧
      (rtCoord (rtCoord f) = rtCoord f ∨ (rtCoord (rtCoord f)).feq (rtCoord f) = true) := by
  have h := decodeCoordinate_encodeCoordinate f []
  have := reencode_coord h
  simpa using this

theorem rtReal_idem (f : F32) :
    (Enc.encodeReal (rtReal f)).length ≤ (Enc.encodeReal f).length ∧
      (rtReal (rtReal f) = rtReal f ∨ (rtReal (rtReal f)).feq (rtReal f) = true) := by
  have h := decodeReal_encodeReal f []
  have := reencode_real h
  simpa using this

/-! ## SetNReg at the instruction level -/

theorem consumed_append (p r : Bytes) : Dec.consumed (p ++ r) r = p := by
  simp [Dec.consumed]

/-- `Dec.decodeStyling` on a SetNReg opcode runs exactly `nregDecoder opcode` on the operand bytes -/
theorem decodeStyling_setNReg (opcode : UInt8) (h1 : 0xa8 ≤ opcode) (h2 : opcode < 0xc0)
    (rest : Bytes) (f : F32) (rest' : Bytes) (hd : nregDecoder opcode rest = some (f, rest')) :
    ∃ l0 l1, Dec.decodeStyling (opcode :: rest) =
      ([.line l0, .line l1,
        .call (.setNReg (if (opcode &&& 0x07) == 7 then 0 else opcode &&& 0x07) ((opcode &&& 0x07) == 7) f)],
       .ok (.styling, rest')) ∧ l0.bytes = [opcode] ∧ l1.bytes = Dec.consumed rest rest' ∧
       l1.kind = .nregNumber f := by
  have n1 : ¬ opcode < 0x80 := by
    rw [UInt8.le_iff_toNat_le] at h1; rw [UInt8.lt_iff_toNat_lt]
    have : (0xa8 : UInt8).toNat = 168 := rfl
    have : (0x80 : UInt8).toNat = 128 := rfl
    omega
  have n2 : ¬ opcode < 0xa8 := by
    rw [UInt8.le_iff_toNat_le] at h1; rw [UInt8.lt_iff_toNat_lt]; omega
  unfold Dec.decodeStyling
  simp only [n1, n2, h2, if_false, if_true]
  unfold nregDecoder at hd
  generalize ((opcode - 0xa8) >>> 3).toNat = sel at hd ⊢
  rcases sel with _ | _ | n <;> simp only [] at hd ⊢ <;> simp only [hd] <;>
    exact ⟨_, _, rfl, rfl, rfl, rfl⟩

set_option maxRecDepth 100000 in
theorem nreg_opcode_facts : ∀ a : UInt8, a ≤ 7 → ∀ base ∈ [(0xa8 : UInt8), 0xb0, 0xb8],
    0xa8 ≤ a ||| base ∧ a ||| base < 0xc0 ∧ (a ||| base) &&& 0x07 = a ∧
      ((a ||| base) - 0xa8) >>> 3 = (base - 0xa8) >>> 3 := by
  decide +kernel

/-- **SetNReg instruction round trip**: opcode byte `adj | opcode` and payload as written by
    `Encoder.setNReg` decode to the call `SetNReg(adj, incr, rtNReg f)`, consuming exactly opcode and
    payload. -/
theorem setNReg_instruction (f : F32) (a : UInt8) (ha : a ≤ 7) (rest : Bytes) :
    ∃ l0 l1, Dec.decodeStyling ((a ||| (Enc.nregForm f).1) :: ((Enc.nregForm f).2 ++ rest)) =
      ([.line l0, .line l1, .call (.setNReg (if a == 7 then 0 else a) (a == 7) (rtNReg f))],
       .ok (.styling, rest)) ∧
      l0.bytes = [a ||| (Enc.nregForm f).1] ∧ l1.bytes = (Enc.nregForm f).2 ∧
      l1.kind = .nregNumber (rtNReg f) := by
  have hb : (Enc.nregForm f).1 ∈ [(0xa8 : UInt8), 0xb0, 0xb8] := by
    rcases nregForm_opcode f with h | h | h <;> simp [h]
  obtain ⟨f1, f2, f3, f4⟩ := nreg_opcode_facts a ha _ hb
  have hdec : nregDecoder (a ||| (Enc.nregForm f).1) = nregDecoder (Enc.nregForm f).1 := by
    unfold nregDecoder; rw [f4]
  have hd := nregForm_decodes f rest
  rw [← hdec] at hd
  obtain ⟨l0, l1, h, hl0, hl1, hk⟩ := decodeStyling_setNReg _ f1 f2 _ _ rest hd
  rw [f3] at h
  exact ⟨l0, l1, h, hl0, by rw [hl1, consumed_append], hk⟩

/-- arc flags travel as a 1-byte natural: `uint32(float32(flags))` is the flag value again, and the
    decoder's bit tests recover both flags -/
theorem arcFlags_roundtrip (la sw : Bool) (rest : Bytes) :
    ∃ fl, Dec.decodeNatural (Enc.encodeNatural (Enc.arcFlags la sw).toUInt32.toNat ++ rest) =
      some (fl, 1, rest) ∧ (fl % 2 != 0) = la ∧ (fl / 2 % 2 != 0) = sw := by
  have h : (Enc.arcFlags la sw).toUInt32.toNat = (if la then 1 else 0) + (if sw then 2 else 0) := by
    cases la <;> cases sw <;> decide
  rw [h, decodeNatural_encodeNatural _ (by cases la <;> cases sw <;> decide)]
  cases la <;> cases sw <;> exact ⟨_, rfl, rfl, rfl⟩

end Ivg.Codec
