import Ivg.Lemmas.Codec
import Ivg.Lemmas.ColorCodec
import Ivg.Model.Decoder
/-!
# One encoded instruction decodes to the call it came from (C01, forward direction)

For every instruction the Encoder emits, `stepDec` on those bytes followed by an arbitrary
continuation `k` consumes exactly the instruction and delivers exactly the quantised call.
-/
namespace Ivg.RoundTrip
open Ivg Num Enc Dec Codec ColorCodec

/-- the coordinate a drawing call delivers after encoding at resolution `hi` -/
def qc (hi : Bool) (f : F32) : F32 := rtCoord (quantize hi f)

@[simp] theorem callsOf_nil : callsOf [] = [] := rfl
@[simp] theorem callsOf_line (l : Line) (r : List Item) : callsOf (.line l :: r) = callsOf r := rfl
@[simp] theorem callsOf_call (c : Call F32) (r : List Item) : callsOf (.call c :: r) = c :: callsOf r := rfl

theorem callsOf_append (a b : List Item) : callsOf (a ++ b) = callsOf a ++ callsOf b := by
  induction a with
  | nil => rfl
  | cons x xs ih => cases x <;> simp [ih]

/-- a list of items that are all lines delivers nothing -/
def AllLines (its : List Item) : Prop := callsOf its = []

theorem decodeNumber_ok {dnf : Bytes → Option (F32 × Bytes)} {src : Bytes} {v : F32} {k : Bytes}
    (h : dnf src = some (v, k)) :
    ∃ it, decodeNumber dnf src = some (it, v, k) ∧ callsOf [it] = [] := by
  unfold decodeNumber; rw [h]; exact ⟨_, rfl, rfl⟩

theorem decodeCoordinates_enc (hi : Bool) : ∀ (args : List F32) (k : Bytes),
    ∃ its, decodeCoordinates args.length (encCoords hi args ++ k) = (its, some (args.map (qc hi), k))
      ∧ callsOf its = [] := by
  intro args
  induction args with
  | nil => intro k; exact ⟨[], by simp [decodeCoordinates, encCoords], rfl⟩
  | cons a as ih =>
    intro k
    obtain ⟨its, h1, h2⟩ := ih k
    have hd := decodeCoordinate_encodeCoordinate (quantize hi a) (encCoords hi as ++ k)
    obtain ⟨it, hn, hc⟩ := decodeNumber_ok hd
    refine ⟨it :: its, ?_, ?_⟩
    · have : encCoords hi (a :: as) ++ k = encodeCoordinate (quantize hi a) ++ (encCoords hi as ++ k) := by
        simp [encCoords, List.flatMap_cons, List.append_assoc]
      simp only [List.length_cons, decodeCoordinates, this, hn, h1, List.map_cons, qc]
    · cases it with
      | line l => simpa using h2
      | call c => simp at hc

/-! ## byte facts (all by evaluation over the 256 byte values) -/

set_option maxRecDepth 100000 in
theorem sel_byte : ∀ v : UInt8, (v &&& 0x3f) < 0x80 ∧ (v &&& 0x3f) < 0x40 ∧ ((v &&& 0x3f) &&& 0x3f) = (v &&& 0x3f) := by
  decide +kernel

set_option maxRecDepth 100000 in
theorem nsel_byte : ∀ v : UInt8, ((v &&& 0x3f) ||| 0x40) < 0x80 ∧ ¬ ((v &&& 0x3f) ||| 0x40) < 0x40 ∧
    (((v &&& 0x3f) ||| 0x40) &&& 0x3f) = (v &&& 0x3f) := by
  decide +kernel

/-- the opcode byte of a register write: `adj' ||| base` with `adj' ≤ 7` -/
def IsCRegBase (b : UInt8) : Prop := b = 0x80 ∨ b = 0x88 ∨ b = 0x90 ∨ b = 0x98 ∨ b = 0xa0
def IsNRegBase (b : UInt8) : Prop := b = 0xa8 ∨ b = 0xb0 ∨ b = 0xb8

/-- facts about the opcode byte `adj ||| base` of a register write, for one `base` -/
def RegOpcode (base lo hi : UInt8) (idx : Nat) : Prop :=
  ∀ a : Fin 8, ¬ (UInt8.ofNat a.val ||| base) < 0x80 ∧ (lo = 0xa8 → ¬ (UInt8.ofNat a.val ||| base) < 0xa8) ∧
    (UInt8.ofNat a.val ||| base) < hi ∧ ((UInt8.ofNat a.val ||| base) &&& 0x07) = UInt8.ofNat a.val ∧
    (((UInt8.ofNat a.val ||| base) - lo) >>> 3).toNat = idx

set_option maxRecDepth 100000 in
theorem creg_opcode_80 : RegOpcode 0x80 0x80 0xa8 0 := by unfold RegOpcode; decide +kernel
set_option maxRecDepth 100000 in
theorem creg_opcode_88 : RegOpcode 0x88 0x80 0xa8 1 := by unfold RegOpcode; decide +kernel
set_option maxRecDepth 100000 in
theorem creg_opcode_90 : RegOpcode 0x90 0x80 0xa8 2 := by unfold RegOpcode; decide +kernel
set_option maxRecDepth 100000 in
theorem creg_opcode_98 : RegOpcode 0x98 0x80 0xa8 3 := by unfold RegOpcode; decide +kernel
set_option maxRecDepth 100000 in
theorem creg_opcode_a0 : RegOpcode 0xa0 0x80 0xa8 4 := by unfold RegOpcode; decide +kernel
set_option maxRecDepth 100000 in
theorem nreg_opcode_a8 : RegOpcode 0xa8 0xa8 0xc0 0 := by unfold RegOpcode; decide +kernel
set_option maxRecDepth 100000 in
theorem nreg_opcode_b0 : RegOpcode 0xb0 0xa8 0xc0 1 := by unfold RegOpcode; decide +kernel
set_option maxRecDepth 100000 in
theorem nreg_opcode_b8 : RegOpcode 0xb8 0xa8 0xc0 2 := by unfold RegOpcode; decide +kernel

set_option maxRecDepth 100000 in
theorem start_opcode : ∀ a : Fin 7,
    let adj : UInt8 := UInt8.ofNat a.val
    ¬ (0xc0 + adj) < 0x80 ∧ ¬ (0xc0 + adj) < 0xa8 ∧ ¬ (0xc0 + adj) < 0xc0 ∧ (0xc0 + adj) < 0xc7 ∧
      ((0xc0 + adj) &&& 0x07) = adj := by
  decide +kernel

theorem uint8_of_le {adj : UInt8} {n : Nat} (h : adj.toNat < n) :
    ∃ a : Fin n, adj = UInt8.ofNat a.val :=
  ⟨⟨adj.toNat, h⟩, by simp⟩

/-! ## styling instructions

`Step m src c m' k` : one instruction of `src` in mode `m` delivers exactly the calls `cs`,
leaves mode `m'` and the remaining input `k`. -/

def Step (m : DMode) (src : Bytes) (cs : List (Call F32)) (m' : DMode) (k : Bytes) : Prop :=
  (stepDec m src).2 = .ok (m', k) ∧ callsOf (stepDec m src).1 = cs

theorem step_setCSel (v : UInt8) (k : Bytes) :
    Step .styling ([v &&& 0x3f] ++ k) [.setCSel (v &&& 0x3f)] .styling k := by
  obtain ⟨h1, h2, h3⟩ := sel_byte v
  constructor <;>
    simp only [stepDec, decodeStyling, List.singleton_append, h1, h2, if_true, h3, callsOf_line, callsOf_call, callsOf_nil]

theorem step_setNSel (v : UInt8) (k : Bytes) :
    Step .styling ([(v &&& 0x3f) ||| 0x40] ++ k) [.setNSel (v &&& 0x3f)] .styling k := by
  obtain ⟨h1, h2, h3⟩ := nsel_byte v
  constructor <;>
    simp only [stepDec, decodeStyling, List.singleton_append, h1, h2, if_true, if_false, h3, callsOf_line, callsOf_call, callsOf_nil]

theorem step_setCReg (adj' : UInt8) (hadj : adj'.toNat < 8) (c : Color) (hwf : c.WF) (k : Bytes) :
    Step .styling ([adj' ||| (cregForm c).1] ++ (cregForm c).2 ++ k)
      [.setCReg (if (adj' == 7) = true then 0 else adj') (adj' == 7) c] .styling k := by
  obtain ⟨a, rfl⟩ := uint8_of_le hadj
  have hdec := cregForm_decodes c hwf k
  rcases cregForm_base c with h | h | h | h | h
  · obtain ⟨h1, _, h2, h3, h4⟩ := creg_opcode_80 a
    rw [h] at hdec ⊢; rw [decoderFor_80] at hdec
    unfold Step stepDec decodeStyling
    simp only [List.cons_append, List.nil_append, h1, h2, h3, h4, if_false, if_true, hdec]
    constructor <;> first | rfl | trivial | simp
  · obtain ⟨h1, _, h2, h3, h4⟩ := creg_opcode_88 a
    rw [h] at hdec ⊢; rw [decoderFor_88] at hdec
    unfold Step stepDec decodeStyling
    simp only [List.cons_append, List.nil_append, h1, h2, h3, h4, if_false, if_true, hdec]
    constructor <;> first | rfl | trivial | simp
  · obtain ⟨h1, _, h2, h3, h4⟩ := creg_opcode_90 a
    rw [h] at hdec ⊢; rw [decoderFor_90] at hdec
    unfold Step stepDec decodeStyling
    simp only [List.cons_append, List.nil_append, h1, h2, h3, h4, if_false, if_true, hdec]
    constructor <;> first | rfl | trivial | simp
  · obtain ⟨h1, _, h2, h3, h4⟩ := creg_opcode_98 a
    rw [h] at hdec ⊢; rw [decoderFor_98] at hdec
    unfold Step stepDec decodeStyling
    simp only [List.cons_append, List.nil_append, h1, h2, h3, h4, if_false, if_true, hdec]
    constructor <;> first | rfl | trivial | simp
  · obtain ⟨h1, _, h2, h3, h4⟩ := creg_opcode_a0 a
    rw [h] at hdec ⊢; rw [decoderFor_a0] at hdec
    unfold Step stepDec decodeStyling
    simp only [List.cons_append, List.nil_append, h1, h2, h3, h4, if_false, if_true, hdec]
    constructor <;> first | rfl | trivial | simp

theorem step_setNReg (adj' : UInt8) (hadj : adj'.toNat < 8) (f : F32) (k : Bytes) :
    Step .styling ([adj' ||| (nregForm f).1] ++ (nregForm f).2 ++ k)
      [.setNReg (if (adj' == 7) = true then 0 else adj') (adj' == 7) (rtNReg f)] .styling k := by
  obtain ⟨a, rfl⟩ := uint8_of_le hadj
  have hdec := nregForm_decodes f k
  rcases nregForm_opcode f with h | h | h
  · obtain ⟨h1, h1', h2, h3, h4⟩ := nreg_opcode_a8 a
    have h1' := h1' rfl
    rw [h] at hdec ⊢; rw [nregDecoder_a8] at hdec
    unfold Step stepDec decodeStyling
    simp only [List.cons_append, List.nil_append, h1, h1', h2, h3, h4, if_false, if_true, hdec]
    constructor <;> first | rfl | trivial | simp
  · obtain ⟨h1, h1', h2, h3, h4⟩ := nreg_opcode_b0 a
    have h1' := h1' rfl
    rw [h] at hdec ⊢; rw [nregDecoder_b0] at hdec
    unfold Step stepDec decodeStyling
    simp only [List.cons_append, List.nil_append, h1, h1', h2, h3, h4, if_false, if_true, hdec]
    constructor <;> first | rfl | trivial | simp
  · obtain ⟨h1, h1', h2, h3, h4⟩ := nreg_opcode_b8 a
    have h1' := h1' rfl
    rw [h] at hdec ⊢; rw [nregDecoder_b8] at hdec
    unfold Step stepDec decodeStyling
    simp only [List.cons_append, List.nil_append, h1, h1', h2, h3, h4, if_false, if_true, hdec]
    constructor <;> first | rfl | trivial | simp

theorem step_setLOD (l0 l1 : F32) (k : Bytes) :
    Step .styling ([0xc7] ++ encodeReal l0 ++ encodeReal l1 ++ k)
      [.setLOD (rtReal l0) (rtReal l1)] .styling k := by
  have h0 := decodeReal_encodeReal l0 (encodeReal l1 ++ k)
  have h1 := decodeReal_encodeReal l1 k
  obtain ⟨it0, hn0, _⟩ := decodeNumber_ok h0
  obtain ⟨it1, hn1, _⟩ := decodeNumber_ok h1
  have e1 : ¬ (0xc7 : UInt8) < 0x80 := by decide
  have e2 : ¬ (0xc7 : UInt8) < 0xa8 := by decide
  have e3 : ¬ (0xc7 : UInt8) < 0xc0 := by decide
  have e4 : ¬ (0xc7 : UInt8) < 0xc7 := by decide
  unfold Step stepDec decodeStyling
  simp only [List.cons_append, List.nil_append, List.append_assoc, e1, e2, e3, e4, if_false, if_true, hn0, hn1]
  cases it0 <;> cases it1 <;> constructor <;> first | rfl | trivial | simp_all

theorem step_startPath (hi : Bool) (adj : UInt8) (hadj : adj.toNat < 7) (x y : F32) (k : Bytes) :
    Step .styling ([0xc0 + adj] ++ encodeCoordinate (quantize hi x) ++ encodeCoordinate (quantize hi y) ++ k)
      [.startPath adj (qc hi x) (qc hi y)] .drawing k := by
  obtain ⟨a, rfl⟩ := uint8_of_le hadj
  obtain ⟨e1, e2, e3, e4, e5⟩ := start_opcode a
  have h0 := decodeCoordinate_encodeCoordinate (quantize hi x) (encodeCoordinate (quantize hi y) ++ k)
  have h1 := decodeCoordinate_encodeCoordinate (quantize hi y) k
  obtain ⟨it0, hn0, _⟩ := decodeNumber_ok h0
  obtain ⟨it1, hn1, _⟩ := decodeNumber_ok h1
  unfold Step stepDec decodeStyling
  simp only [List.cons_append, List.nil_append, List.append_assoc, e1, e2, e3, e4, e5, if_false, if_true, hn0, hn1]
  cases it0 <;> cases it1 <;> constructor <;> first | rfl | trivial | simp_all [qc]

/-! ## drawing instructions -/

/-- the verb a drawing call is buffered under, and its operand group (as `Encoder.step` builds them) -/
def drawOpOf : Call F32 → Option DrawOp
  | .closeEnd => some .Z
  | .d1 v _ => some (.v1 v)
  | .d2 v _ _ => some (.v2 v)
  | .d4 v _ _ _ _ => some (.v4 v)
  | .d6 v _ _ _ _ _ _ => some (.v6 v)
  | .arc rel _ _ _ _ _ _ _ => some (if rel then .arcRel else .arcAbs)
  | _ => none

def groupOf : Call F32 → List F32
  | .d1 _ x => [x]
  | .d2 _ x y => [x, y]
  | .d4 _ a b x y => [a, b, x, y]
  | .d6 _ a b c d x y => [a, b, c, d, x, y]
  | .arc _ rx ry rot la sw x y => [rx, ry, rot, arcFlags la sw, x, y]
  | _ => []

theorem step_eq_draw (e : Encoder) (c : Call F32) (d : DrawOp) (h : drawOpOf c = some d) :
    e.step c = e.draw d (groupOf c) := by
  cases c <;> simp_all [drawOpOf, groupOf, Encoder.step]

/-- what the decoder delivers for an encoded call -/
def Q (hi : Bool) : Call F32 → Call F32
  | .reset vb pal => .reset vb pal
  | .setCSel v => .setCSel (v &&& 0x3f)
  | .setNSel v => .setNSel (v &&& 0x3f)
  | .setCReg adj incr c => .setCReg adj incr c
  | .setNReg adj incr f => .setNReg adj incr (rtNReg f)
  | .setLOD a b => .setLOD (rtReal a) (rtReal b)
  | .startPath adj x y => .startPath adj (qc hi x) (qc hi y)
  | .closeEnd => .closeEnd
  | .d1 v x => .d1 v (qc hi x)
  | .d2 v x y => .d2 v (qc hi x) (qc hi y)
  | .d4 v a b x y => .d4 v (qc hi a) (qc hi b) (qc hi x) (qc hi y)
  | .d6 v a b c d x y => .d6 v (qc hi a) (qc hi b) (qc hi c) (qc hi d) (qc hi x) (qc hi y)
  | .arc rel rx ry rot la sw x y => .arc rel (qc hi rx) (qc hi ry) (rtAngle rot) la sw (qc hi x) (qc hi y)

/-- the repeat-capable decoder operation of a verb -/
def repOf : DrawOp → Option RepOp
  | .v2 .L => some .L | .v2 .l => some .l | .v2 .T => some .T | .v2 .t => some .t
  | .v4 .Q => some .Q | .v4 .q => some .q | .v4 .S => some .S | .v4 .s => some .s
  | .v6 .C => some .C | .v6 .c => some .c
  | .arcAbs => some .A | .arcRel => some .a
  | _ => none

theorem arcFlags_toNat (la sw : Bool) :
    (arcFlags la sw).toUInt32.toNat = (if la then 1 else 0) + (if sw then 2 else 0) := by
  cases la <;> cases sw <;> decide

/-- one repetition of a repeat-capable verb -/
theorem decodeRep_enc (hi : Bool) (c : Call F32) (d : DrawOp) (r : RepOp) (hd : drawOpOf c = some d)
    (hr : repOf d = some r) (k : Bytes) :
    (decodeRep r (encGroup hi d (groupOf c) ++ k)).2 = some (Q hi c, k) ∧
      callsOf (decodeRep r (encGroup hi d (groupOf c) ++ k)).1 = [] := by
  cases c with
  | d2 v x y =>
    simp only [drawOpOf, Option.some.injEq] at hd; subst hd
    obtain ⟨its, h1, h2⟩ := decodeCoordinates_enc hi [x, y] k
    cases v <;> simp only [repOf, Option.some.injEq, reduceCtorEq] at hr <;> subst hr <;>
      simp_all [decodeRep, encGroup, groupOf, RepOp.nCoords, RepOp.mkCall, Q]
  | d4 v a b x y =>
    simp only [drawOpOf, Option.some.injEq] at hd; subst hd
    obtain ⟨its, h1, h2⟩ := decodeCoordinates_enc hi [a, b, x, y] k
    cases v <;> simp only [repOf, Option.some.injEq, reduceCtorEq] at hr <;> subst hr <;>
      simp_all [decodeRep, encGroup, groupOf, RepOp.nCoords, RepOp.mkCall, Q]
  | d6 v a b c d x y =>
    simp only [drawOpOf, Option.some.injEq] at hd; subst hd
    obtain ⟨its, h1, h2⟩ := decodeCoordinates_enc hi [a, b, c, d, x, y] k
    cases v <;> simp only [repOf, Option.some.injEq, reduceCtorEq] at hr <;> subst hr <;>
      simp_all [decodeRep, encGroup, groupOf, RepOp.nCoords, RepOp.mkCall, Q]
  | arc rel rx ry rot la sw x y =>
    simp only [drawOpOf, Option.some.injEq] at hd; subst hd
    have hfl := arcFlags_toNat la sw
    have hlt : (arcFlags la sw).toUInt32.toNat < 2 ^ 30 := by rw [hfl]; cases la <;> cases sw <;> decide
    obtain ⟨its1, h1, h1c⟩ := decodeCoordinates_enc hi [rx, ry]
      (encodeAngle rot ++ (encodeNatural (arcFlags la sw).toUInt32.toNat ++ (encCoords hi [x, y] ++ k)))
    have h2 := decodeZeroToOne_encodeAngle rot (encodeNatural (arcFlags la sw).toUInt32.toNat ++ (encCoords hi [x, y] ++ k))
    have h3 := decodeNatural_encodeNatural _ hlt (encCoords hi [x, y] ++ k)
    obtain ⟨its2, h4, h4c⟩ := decodeCoordinates_enc hi [x, y] k
    have hla : ((arcFlags la sw).toUInt32.toNat % 2 != 0) = la := by rw [hfl]; cases la <;> cases sw <;> decide
    have hsw : ((arcFlags la sw).toUInt32.toNat / 2 % 2 != 0) = sw := by rw [hfl]; cases la <;> cases sw <;> decide
    have henc : ∀ d : DrawOp, (d = .arcAbs ∨ d = .arcRel) →
        encGroup hi d (groupOf (.arc rel rx ry rot la sw x y)) ++ k =
        encCoords hi [rx, ry] ++ (encodeAngle rot ++ (encodeNatural (arcFlags la sw).toUInt32.toNat ++ (encCoords hi [x, y] ++ k))) := by
      intro d hd
      rcases hd with rfl | rfl <;> simp [encGroup, groupOf, encCoords, List.append_assoc]
    cases rel
    · simp only [Bool.false_eq_true, if_false, repOf, Option.some.injEq] at hr; subst hr
      simp only [Bool.false_eq_true, if_false]
      rw [henc _ (Or.inl rfl)]
      simp only [decodeRep, decodeArcRep, List.length_cons, List.length_nil] at h1 h4 ⊢
      simp only [h1, h2, h3, h4, hla, hsw, List.map_cons, List.map_nil, Q]
      simp [callsOf_append, h1c, h4c]
    · simp only [if_true, repOf, Option.some.injEq] at hr; subst hr
      simp only [if_true]
      rw [henc _ (Or.inr rfl)]
      simp only [decodeRep, decodeArcRep, List.length_cons, List.length_nil] at h1 h4 ⊢
      simp only [h1, h2, h3, h4, hla, hsw, List.map_cons, List.map_nil, Q]
      simp [callsOf_append, h1c, h4c]
  | _ => simp [drawOpOf, repOf] at hd hr <;> (try subst hd) <;> simp [repOf] at hr

/-- the operand bytes of a run of buffered calls -/
def encRun (hi : Bool) (d : DrawOp) (cs : List (Call F32)) : Bytes :=
  (cs.map groupOf).flatMap (encGroup hi d)

theorem encRun_cons (hi : Bool) (d : DrawOp) (c : Call F32) (cs : List (Call F32)) :
    encRun hi d (c :: cs) = encGroup hi d (groupOf c) ++ encRun hi d cs := by
  simp [encRun]

theorem encRun_append (hi : Bool) (d : DrawOp) (a b : List (Call F32)) :
    encRun hi d (a ++ b) = encRun hi d a ++ encRun hi d b := by
  simp [encRun]

theorem decodeReps_enc (hi : Bool) (d : DrawOp) (r : RepOp) (hr : repOf d = some r) :
    ∀ (cs : List (Call F32)), (∀ c ∈ cs, drawOpOf c = some d) → ∀ (first : Bool) (k : Bytes),
      (decodeReps r cs.length first (encRun hi d cs ++ k)).2 = .ok k ∧
      callsOf (decodeReps r cs.length first (encRun hi d cs ++ k)).1 = cs.map (Q hi) := by
  intro cs
  induction cs with
  | nil => intro _ first k; simp [decodeReps, encRun]
  | cons c cs ih =>
    intro hcs first k
    have hc := hcs c (by simp)
    obtain ⟨h1, h2⟩ := decodeRep_enc hi c d r hc hr (encRun hi d cs ++ k)
    obtain ⟨h3, h4⟩ := ih (fun c' hc' => hcs c' (by simp [hc'])) false k
    rw [encRun_cons, List.append_assoc]
    generalize hrep : decodeRep r (encGroup hi d (groupOf c) ++ (encRun hi d cs ++ k)) = rep at h1 h2
    obtain ⟨its, o⟩ := rep
    simp only at h1 h2
    subst h1
    generalize hreps : decodeReps r cs.length false (encRun hi d cs ++ k) = reps at h3 h4
    obtain ⟨its', res⟩ := reps
    simp only at h3 h4
    subst h3
    simp only [List.length_cons, decodeReps, hrep, hreps]
    constructor
    · trivial
    · cases first <;> simp [callsOf_append, h2, h4]

/-- the opcode of a chunk of `m` repetitions decodes to the right operation and count -/
def ChunkOpcode (base : UInt8) (maxRep : Nat) (r : RepOp) : Prop :=
  ∀ m : Fin (maxRep + 1), 0 < m.val →
    (base + UInt8.ofNat m.val - 1) < 0xe0 ∧
    repOpOf ((base + UInt8.ofNat m.val - 1) >>> 4).toNat = r ∧
    (if ((base + UInt8.ofNat m.val - 1) >>> 4).toNat < 4
      then 1 + ((base + UInt8.ofNat m.val - 1) &&& 0x1f).toNat
      else 1 + ((base + UInt8.ofNat m.val - 1) &&& 0x0f).toNat) = m.val

set_option maxRecDepth 100000 in
theorem chunkOpcode (d : DrawOp) (r : RepOp) (hr : repOf d = some r) :
    ChunkOpcode (opInfo d).opcodeBase (opInfo d).maxRepCount r := by
  cases d with
  | v1 v => cases v <;> simp [repOf] at hr
  | Z => simp [repOf] at hr
  | v2 v =>
    cases v <;> simp only [repOf, Option.some.injEq, reduceCtorEq] at hr <;> subst hr <;>
      simp only [opInfo, ChunkOpcode] <;> decide +kernel
  | v4 v =>
    cases v <;> simp only [repOf, Option.some.injEq] at hr <;> subst hr <;>
      simp only [opInfo, ChunkOpcode] <;> decide +kernel
  | v6 v =>
    cases v <;> simp only [repOf, Option.some.injEq] at hr <;> subst hr <;>
      simp only [opInfo, ChunkOpcode] <;> decide +kernel
  | arcAbs => simp only [repOf, Option.some.injEq] at hr; subst hr; simp only [opInfo, ChunkOpcode]; decide +kernel
  | arcRel => simp only [repOf, Option.some.injEq] at hr; subst hr; simp only [opInfo, ChunkOpcode]; decide +kernel

/-- one chunk (opcode + up to maxRepCount groups) of a repeat-capable verb -/
theorem step_chunk (hi : Bool) (d : DrawOp) (r : RepOp) (hr : repOf d = some r) (cs : List (Call F32))
    (hcs : ∀ c ∈ cs, drawOpOf c = some d) (hpos : 0 < cs.length) (hmax : cs.length ≤ (opInfo d).maxRepCount)
    (k : Bytes) :
    Step .drawing ([(opInfo d).opcodeBase + UInt8.ofNat cs.length - 1] ++ encRun hi d cs ++ k)
      (cs.map (Q hi)) .drawing k := by
  obtain ⟨h1, h2, h3⟩ := chunkOpcode d r hr ⟨cs.length, by omega⟩ hpos
  simp only at h1 h2 h3
  obtain ⟨h4, h5⟩ := decodeReps_enc hi d r hr cs hcs true k
  unfold Step stepDec decodeDrawing
  simp only [List.cons_append, List.nil_append, List.append_assoc, h1, if_true, h2, h3]
  generalize hreps : decodeReps r cs.length true (encRun hi d cs ++ k) = reps at h4 h5
  obtain ⟨its, res⟩ := reps
  simp only at h4 h5
  subst h4
  simp [h5]

theorem step_Z (k : Bytes) : Step .drawing ([0xe1] ++ k) [.closeEnd] .styling k := by
  have e1 : ¬ (0xe1 : UInt8) < 0xe0 := by decide
  unfold Step stepDec decodeDrawing
  simp [e1]

/-- the verbs with maxRepCount 1 and operands: H h V v (one coordinate), Y y (two) -/
theorem step_single (hi : Bool) (c : Call F32) (d : DrawOp) (hd : drawOpOf c = some d)
    (hr : repOf d = none) (hz : d ≠ .Z) (k : Bytes) :
    Step .drawing ([(opInfo d).opcodeBase + UInt8.ofNat 1 - 1] ++ encGroup hi d (groupOf c) ++ k)
      [Q hi c] .drawing k := by
  cases c with
  | d1 v x =>
    simp only [drawOpOf, Option.some.injEq] at hd; subst hd
    obtain ⟨its, h1, h2⟩ := decodeCoordinates_enc hi [x] k
    simp only [List.length_cons, List.length_nil] at h1
    cases v <;>
      simp [Step, stepDec, decodeDrawing, opInfo, encGroup, groupOf, single1, h1, h2, Q, callsOf_append]
  | d2 v x y =>
    simp only [drawOpOf, Option.some.injEq] at hd; subst hd
    obtain ⟨its, h1, h2⟩ := decodeCoordinates_enc hi [x, y] k
    simp only [List.length_cons, List.length_nil] at h1
    cases v <;> simp [repOf] at hr <;>
      simp [Step, stepDec, decodeDrawing, opInfo, encGroup, groupOf, single2, h1, h2, Q, callsOf_append]
  | closeEnd => simp [drawOpOf] at hd; exact absurd hd.symm hz
  | d4 v _ _ _ _ => simp only [drawOpOf, Option.some.injEq] at hd; subst hd; cases v <;> simp [repOf] at hr
  | d6 v _ _ _ _ _ _ => simp only [drawOpOf, Option.some.injEq] at hd; subst hd; cases v <;> simp [repOf] at hr
  | arc rel _ _ _ _ _ _ _ => simp only [drawOpOf, Option.some.injEq] at hd; subst hd; cases rel <;> simp [repOf] at hr
  | _ => simp [drawOpOf] at hd

end Ivg.RoundTrip
