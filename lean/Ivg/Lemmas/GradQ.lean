import Ivg.Lemmas.RatInst
import Ivg.Model.Renderer
import Ivg.Spec.Grad
import Mathlib.Tactic.Ring
import Mathlib.Tactic.FieldSimp
import Mathlib.Tactic.Linarith
import Mathlib.Tactic.Positivity
/-!
# C15 at exact arithmetic: `Spread.Clamp`, `Gradient.At`, and the matrix `initGradient` builds

The model (`Ivg/Model/Gradient.lean`, `Renderer.initGradient`) instantiated at `ℚ` against the
specification `Ivg/Spec/Grad.lean`.  The float64 square root of the radial shape is the parameter
`[SqrtQ]` of the instance and stays symbolic.
-/
open Ivg Grad RatInst
open Ivg.Spec.Grad (Spread frac mod2 tri spreadOffset Col lerp sample sampleChan sampleCol colorAt increasing)

namespace Ivg.GradQ

theorem floor_eq_rat (x : ℚ) : ⌊x⌋ = x.floor := rfl
theorem natCast_floor_toNat (n : Nat) : ((n : ℚ)).floor.toNat = n := by
  rw [← floor_eq_rat]; simp

/-! ## the triangle wave -/

/-- the triangle wave from the integer part -/
theorem tri_of_floor (x : ℚ) (n : ℤ) (hn : ⌊x⌋ = n) :
    tri x = if n % 2 = 0 then x - n else n + 1 - x := by
  have h1 : (n : ℚ) ≤ x := by rw [← hn]; exact Int.floor_le x
  have h2 : x < n + 1 := by rw [← hn]; exact Int.lt_floor_add_one x
  unfold tri mod2
  rw [← floor_eq_rat]
  by_cases hpar : n % 2 = 0
  · rw [if_pos hpar]
    obtain ⟨k, hk⟩ : ∃ k, n = 2 * k := ⟨n / 2, by omega⟩
    have hf : ⌊x / 2⌋ = k := by
      rw [Int.floor_eq_iff]; subst hk; push_cast at h1 h2 ⊢; constructor <;> linarith
    rw [hf]; subst hk; push_cast at h1 h2 ⊢
    rw [if_pos (by linarith)]
  · rw [if_neg hpar]
    obtain ⟨k, hk⟩ : ∃ k, n = 2 * k + 1 := ⟨n / 2, by omega⟩
    have hf : ⌊x / 2⌋ = k := by
      rw [Int.floor_eq_iff]; subst hk; push_cast at h1 h2 ⊢; constructor <;> linarith
    rw [hf]; subst hk; push_cast at h1 h2 ⊢
    split
    · linarith
    · ring

theorem tri_neg (x : ℚ) : tri (-x) = tri x := by
  rw [tri_of_floor x ⌊x⌋ rfl]
  by_cases hx : (⌊x⌋ : ℚ) = x
  · have : ⌊-x⌋ = -⌊x⌋ := by rw [← hx, ← Int.cast_neg, Int.floor_intCast, Int.floor_intCast]
    rw [tri_of_floor (-x) _ this]
    have hp : (-⌊x⌋ % 2 = 0) ↔ (⌊x⌋ % 2 = 0) := by omega
    by_cases h : ⌊x⌋ % 2 = 0
    · rw [if_pos h, if_pos (hp.mpr h)]; push_cast; linarith
    · rw [if_neg h, if_neg (fun h' => h (hp.mp h'))]; push_cast; linarith
  · have hlt : (⌊x⌋ : ℚ) < x := lt_of_le_of_ne (Int.floor_le x) hx
    have : ⌊-x⌋ = -⌊x⌋ - 1 := by
      rw [Int.floor_eq_iff]; push_cast
      have := Int.lt_floor_add_one x
      constructor <;> linarith
    rw [tri_of_floor (-x) _ this]
    have hp : ((-⌊x⌋ - 1) % 2 = 0) ↔ ¬ (⌊x⌋ % 2 = 0) := by omega
    by_cases h : ⌊x⌋ % 2 = 0
    · rw [if_pos h, if_neg (fun h' => hp.mp h' h)]; push_cast; ring
    · rw [if_neg h, if_pos (hp.mpr h)]; push_cast; ring


/-! ## `Spread.Clamp` is the specification's spread function -/

section
variable [SqrtQ]

theorem clamp_def (spread : UInt8) (x : ℚ) :
    clamp (α := ℚ) spread x =
      if 0 ≤ x then
        if x ≤ 1 then x
        else if spread = 1 then 1
        else if spread = 2 then
          if truncQ x % 2 = 0 then x - (⌊x⌋ : ℚ) else (⌊x⌋ : ℚ) + 1 - x
        else if spread = 3 then x - (⌊x⌋ : ℚ)
        else -1
      else
        if spread = 1 then 0
        else if spread = 2 then
          if truncQ (-x) % 2 = 0 then -x - (⌊-x⌋ : ℚ) else (⌊-x⌋ : ℚ) + 1 - -x
        else if spread = 3 then x - (⌊x⌋ : ℚ)
        else -1 := rfl

theorem clamp_inside (spread : UInt8) (x : ℚ) (h0 : 0 ≤ x) (h1 : x ≤ 1) : clamp (α := ℚ) spread x = x := by
  rw [clamp_def, if_pos h0, if_pos h1]

theorem clamp_pad (x : ℚ) : clamp (α := ℚ) 1 x = if x < 0 then 0 else if x ≤ 1 then x else 1 := by
  rw [clamp_def]
  by_cases h0 : 0 ≤ x
  · rw [if_pos h0, if_neg (not_lt.mpr h0)]; simp
  · rw [if_neg h0, if_pos (not_le.mp h0)]; simp

theorem clamp_repeat (x : ℚ) (h : ¬ (0 ≤ x ∧ x ≤ 1)) : clamp (α := ℚ) 3 x = frac x := by
  rw [clamp_def]
  have e : frac x = x - (⌊x⌋ : ℚ) := rfl
  by_cases h0 : 0 ≤ x
  · have h1 : ¬ x ≤ 1 := fun h1 => h ⟨h0, h1⟩
    rw [if_pos h0, if_neg h1, e]; simp
  · rw [if_neg h0, e]; simp

theorem clamp_reflect (x : ℚ) (h : ¬ (0 ≤ x ∧ x ≤ 1)) : clamp (α := ℚ) 2 x = tri x := by
  rw [clamp_def]
  by_cases h0 : 0 ≤ x
  · have h1 : ¬ x ≤ 1 := fun h1 => h ⟨h0, h1⟩
    rw [if_pos h0, if_neg h1, truncQ_nonneg h0, tri_of_floor x _ rfl]; simp
  · have h0' : 0 ≤ -x := by linarith
    rw [if_neg h0, truncQ_nonneg h0', ← tri_neg, tri_of_floor (-x) _ rfl]; simp

theorem clamp_none (spread : UInt8) (hs : spread ≠ 1 ∧ spread ≠ 2 ∧ spread ≠ 3) (x : ℚ)
    (h : ¬ (0 ≤ x ∧ x ≤ 1)) : clamp (α := ℚ) spread x = -1 := by
  rw [clamp_def]
  by_cases h0 : 0 ≤ x
  · have h1 : ¬ x ≤ 1 := fun h1 => h ⟨h0, h1⟩
    rw [if_pos h0, if_neg h1, if_neg hs.1, if_neg hs.2.1, if_neg hs.2.2]
  · rw [if_neg h0, if_neg hs.1, if_neg hs.2.1, if_neg hs.2.2]

/-- the model's `Clamp` is the specification's spread function, `-1` standing for "transparent" -/
theorem clamp_spec (spread : UInt8) (x : ℚ) :
    clamp (α := ℚ) spread x = (spreadOffset (Spread.ofCode spread) x).getD (-1) := by
  unfold spreadOffset
  by_cases h : 0 ≤ x ∧ x ≤ 1
  · rw [if_pos h, clamp_inside _ _ h.1 h.2]; rfl
  · rw [if_neg h]
    unfold Spread.ofCode
    by_cases h1 : spread = 1
    · subst h1; rw [clamp_pad]
      simp only [if_true, Option.getD_some]
      by_cases h0 : x < 0
      · rw [if_pos h0, if_pos h0]
      · rw [if_neg h0, if_neg h0, if_neg (fun h1 => h ⟨not_lt.mp h0, h1⟩)]
    · by_cases h2 : spread = 2
      · subst h2; rw [clamp_reflect x h]; rfl
      · by_cases h3 : spread = 3
        · subst h3; rw [clamp_repeat x h]; rfl
        · rw [clamp_none spread ⟨h1, h2, h3⟩ x h, if_neg h1, if_neg h2, if_neg h3]; rfl
end

theorem frac_range (x : ℚ) : 0 ≤ frac x ∧ frac x < 1 := by
  have e : frac x = x - (⌊x⌋ : ℚ) := rfl
  rw [e]; constructor
  · linarith [Int.floor_le x]
  · linarith [Int.lt_floor_add_one x]

theorem tri_range (x : ℚ) : 0 ≤ tri x ∧ tri x ≤ 1 := by
  rw [tri_of_floor x _ rfl]
  have := Int.floor_le x
  have := Int.lt_floor_add_one x
  split <;> constructor <;> linarith

/-- a sampled offset always lies in `[0,1]` -/
theorem spreadOffset_range (s : Spread) (x o : ℚ) (h : spreadOffset s x = some o) : 0 ≤ o ∧ o ≤ 1 := by
  unfold spreadOffset at h
  split at h
  · rename_i hx; cases h; exact hx
  · cases s <;> simp only [Option.some.injEq] at h
    · cases h
    · subst h; split <;> constructor <;> norm_num
    · subst h; exact tri_range x
    · subst h; exact ⟨(frac_range x).1, (frac_range x).2.le⟩

/-! ## properties of the specification's interpolation -/

theorem lerp_left (o0 o1 : ℚ) (c0 c1 : Nat) : lerp o0 o1 c0 c1 o0 = c0 := by
  unfold lerp; simp

theorem lerp_right (o0 o1 : ℚ) (c0 c1 : Nat) (h : o0 < o1) : lerp o0 o1 c0 c1 o1 = c1 := by
  unfold lerp
  have : o1 - o0 ≠ 0 := by linarith [sub_pos.mpr h]
  rw [div_self this]; simp

theorem increasing_tail {p : ℚ × Col} {l : List (ℚ × Col)} (h : increasing (p :: l)) : increasing l := by
  cases l with
  | nil => trivial
  | cons q l => exact h.2

/-- in an increasing list the head's offset is strictly below every later offset -/
theorem increasing_head_lt {p : ℚ × Col} {l : List (ℚ × Col)} (h : increasing (p :: l)) :
    ∀ q ∈ l, p.1 < q.1 := by
  induction l generalizing p with
  | nil => intro q hq; cases hq
  | cons r l ih =>
    intro q hq
    rcases List.mem_cons.mp hq with rfl | hq
    · exact h.1
    · exact lt_trans h.1 (ih h.2 q hq)

/-- before the first stop: the first colour -/
theorem sample_before (ch : Col → Nat) (p : ℚ × Col) (l : List (ℚ × Col)) (x : ℚ) (hx : x < p.1) :
    sample ch (p :: l) x = ch p.2 := by
  cases l with
  | nil => rfl
  | cons q l => obtain ⟨o0, c0⟩ := p; obtain ⟨o1, c1⟩ := q; simp only [sample]; rw [if_pos hx]

/-- at the first stop: the first colour -/
theorem sample_first (ch : Col → Nat) (p : ℚ × Col) (l : List (ℚ × Col)) (h : increasing (p :: l)) :
    sample ch (p :: l) p.1 = ch p.2 := by
  cases l with
  | nil => rfl
  | cons q l =>
    obtain ⟨o0, c0⟩ := p; obtain ⟨o1, c1⟩ := q
    simp only [sample]
    rw [if_neg (lt_irrefl _), if_pos (le_of_lt h.1), lerp_left]

/-- strictly inside a range (left end excluded, right end included): the linear interpolation of the
    two neighbouring stops -/
theorem sample_interior (ch : Col → Nat) (l : List (ℚ × Col)) (h : increasing l) (i : Nat) (hi : i + 1 < l.length)
    (x : ℚ) (h0 : l[i].1 < x) (h1 : x ≤ l[i + 1].1) :
    sample ch l x = lerp l[i].1 l[i + 1].1 (ch l[i].2) (ch l[i + 1].2) x := by
  induction l generalizing i with
  | nil => simp at hi
  | cons p l ih =>
    cases l with
    | nil => simp at hi
    | cons q l =>
      obtain ⟨o0, c0⟩ := p; obtain ⟨o1, c1⟩ := q
      cases i with
      | zero =>
        simp only [List.getElem_cons_zero, List.getElem_cons_succ] at h0 h1 ⊢
        simp only [sample]
        rw [if_neg (not_lt.mpr h0.le), if_pos h1]
      | succ j =>
        simp only [List.getElem_cons_succ] at h0 h1 ⊢
        have hj : j < ((o1, c1) :: l).length := by simp at hi ⊢; omega
        have h01 : o0 < o1 := h.1
        have ho1 : o1 ≤ ((o1, c1) :: l)[j].1 := by
          cases j with
          | zero => simp
          | succ k =>
            simp only [List.getElem_cons_succ]
            exact (increasing_head_lt h.2 _ (List.getElem_mem _)).le
        simp only [sample]
        rw [if_neg (not_lt.mpr (by linarith)), if_neg (not_le.mpr (by linarith))]
        exact ih h.2 j (by simp at hi ⊢; omega) h0 h1

/-- at a stop's offset the value is that stop's colour -/
theorem sample_at_stop (ch : Col → Nat) (l : List (ℚ × Col)) (h : increasing l) (i : Nat) (hi : i < l.length) :
    sample ch l l[i].1 = ch l[i].2 := by
  cases i with
  | zero =>
    cases l with
    | nil => simp at hi
    | cons p l => exact sample_first ch p l h
  | succ j =>
    have hj : j + 1 < l.length := hi
    have hlt : l[j].1 < l[j + 1].1 := by
      have : ∀ (l : List (ℚ × Col)), increasing l → ∀ j (hj : j + 1 < l.length), l[j].1 < l[j + 1].1 := by
        intro l
        induction l with
        | nil => intro _ j hj; simp at hj
        | cons p l ih =>
          intro h j hj
          cases j with
          | zero =>
            cases l with
            | nil => simp at hj
            | cons q l => exact h.1
          | succ k => simp only [List.getElem_cons_succ]; exact ih (increasing_tail h) k (by simp at hj ⊢; omega)
      exact this l h j hj
    rw [sample_interior ch l h j hj _ hlt (le_refl _), lerp_right _ _ _ _ hlt]

/-- after the last stop: the last colour -/
theorem sample_after (ch : Col → Nat) (l : List (ℚ × Col)) (hne : l ≠ []) (h : increasing l) (x : ℚ)
    (hx : (l.getLast hne).1 < x) : sample ch l x = ch (l.getLast hne).2 := by
  induction l with
  | nil => exact absurd rfl hne
  | cons p l ih =>
    cases l with
    | nil => rfl
    | cons q l =>
      obtain ⟨o0, c0⟩ := p; obtain ⟨o1, c1⟩ := q
      simp only [List.getLast_cons_cons] at hx ⊢
      have h1 : o1 ≤ (((o1, c1) :: l).getLast (by simp)).1 := by
        cases l with
        | nil => simp
        | cons r l => exact (increasing_head_lt h.2 _ (List.getLast_mem _)).le
      have h01 : o0 < o1 := h.1
      simp only [sample]
      rw [if_neg (not_lt.mpr (by linarith)), if_neg (not_le.mpr (by linarith))]
      exact ih (by simp) h.2 hx

/-- interpolation is monotone in the channel: pointwise smaller channels give a smaller value -/
theorem sample_mono (ch1 ch2 : Col → Nat) (l : List (ℚ × Col)) (h : increasing l)
    (hle : ∀ p ∈ l, ch1 p.2 ≤ ch2 p.2) (x : ℚ) : sample ch1 l x ≤ sample ch2 l x := by
  induction l with
  | nil => simp [sample]
  | cons p l ih =>
    cases l with
    | nil => obtain ⟨o0, c0⟩ := p; simp only [sample]; exact_mod_cast hle (o0, c0) (by simp)
    | cons q l =>
      obtain ⟨o0, c0⟩ := p; obtain ⟨o1, c1⟩ := q
      have hc0 : ((ch1 c0 : Nat) : ℚ) ≤ ch2 c0 := by exact_mod_cast hle (o0, c0) (by simp)
      have hc1 : ((ch1 c1 : Nat) : ℚ) ≤ ch2 c1 := by exact_mod_cast hle (o1, c1) (by simp)
      simp only [sample]
      split
      · exact hc0
      · rename_i h0
        split
        · rename_i h1
          unfold lerp
          have hw : 0 < o1 - o0 := sub_pos.mpr h.1
          have ht0 : 0 ≤ (x - o0) / (o1 - o0) := div_nonneg (by linarith) hw.le
          have ht1 : (x - o0) / (o1 - o0) ≤ 1 := by rw [div_le_one hw]; linarith
          generalize (x - o0) / (o1 - o0) = t at ht0 ht1
          nlinarith [mul_le_mul_of_nonneg_left hc0 (sub_nonneg.mpr ht1), mul_le_mul_of_nonneg_left hc1 ht0]
        · exact ih h.2 (fun p hp => hle p (List.mem_cons_of_mem _ hp))

theorem sampleChan_mono (ch1 ch2 : Col → Nat) (l : List (ℚ × Col)) (h : increasing l)
    (hle : ∀ p ∈ l, ch1 p.2 ≤ ch2 p.2) (x : ℚ) : sampleChan ch1 l x ≤ sampleChan ch2 l x := by
  unfold sampleChan
  rw [← floor_eq_rat, ← floor_eq_rat]
  exact Int.toNat_le_toNat (Int.floor_mono (sample_mono ch1 ch2 l h hle x))

/-- premultiplied stops give a premultiplied sample -/
theorem sampleCol_premul (l : List (ℚ × Col)) (h : increasing l) (hp : ∀ p ∈ l, p.2.premul) (x : ℚ) :
    (sampleCol l x).premul :=
  ⟨sampleChan_mono _ _ l h (fun p hp' => (hp p hp').1) x, sampleChan_mono _ _ l h (fun p hp' => (hp p hp').2.1) x,
   sampleChan_mono _ _ l h (fun p hp' => (hp p hp').2.2) x⟩

theorem colorAt_premul (s : Spread) (l : List (ℚ × Col)) (h : increasing l) (hp : ∀ p ∈ l, p.2.premul) (x : ℚ) :
    (colorAt s l x).premul := by
  unfold colorAt
  split
  · exact ⟨le_refl _, le_refl _, le_refl _⟩
  · exact sampleCol_premul l h hp _


/-! ## sampling -/
def toCol (c : RGBA64) : Col := ⟨c.r, c.g, c.b, c.a⟩
def specStops (stops : List (Stop ℚ)) : List (ℚ × Col) := stops.map (fun s => (s.offset, toCol s.color))
def chanOK (c : RGBA64) : Prop := c.r < 65536 ∧ c.g < 65536 ∧ c.b < 65536 ∧ c.a < 65536

section
variable [SqrtQ]

omit [SqrtQ] in
theorem findRange_cons (o : ℚ) (r : Range ℚ) (rs : List (Range ℚ)) :
    findRange o (r :: rs) = if r.offset0 ≤ o ∧ o ≤ r.offset1 then some r else findRange o rs := rfl

theorem lerpChan_def (s t : ℚ) (c0 c1 : Nat) :
    lerpChan (α := ℚ) s t c0 c1 = (truncQ (s * (c0 : ℚ) + t * (c1 : ℚ)) % 65536).toNat := rfl

/-- one interpolated channel is the integer part of the exact interpolation -/
theorem lerpChan_spec (o0 o1 o : ℚ) (c0 c1 : Nat) (h01 : o0 < o1) (h0 : o0 ≤ o) (h1 : o ≤ o1)
    (hc0 : c0 < 65536) (hc1 : c1 < 65536) :
    lerpChan (α := ℚ) (1 - (o - o0) / (o1 - o0)) ((o - o0) / (o1 - o0)) c0 c1 =
      (lerp o0 o1 c0 c1 o).floor.toNat := by
  rw [lerpChan_def]
  have hw : 0 < o1 - o0 := by linarith
  have ht0 : 0 ≤ (o - o0) / (o1 - o0) := div_nonneg (by linarith) hw.le
  have ht1 : (o - o0) / (o1 - o0) ≤ 1 := by rw [div_le_one hw]; linarith
  unfold lerp
  generalize (o - o0) / (o1 - o0) = t at ht0 ht1
  have hc0' : (c0 : ℚ) ≤ 65535 := by exact_mod_cast Nat.lt_succ_iff.mp hc0
  have hc1' : (c1 : ℚ) ≤ 65535 := by exact_mod_cast Nat.lt_succ_iff.mp hc1
  have hc0n : (0 : ℚ) ≤ c0 := Nat.cast_nonneg _
  have hc1n : (0 : ℚ) ≤ c1 := Nat.cast_nonneg _
  have hv0 : 0 ≤ (1 - t) * (c0 : ℚ) + t * (c1 : ℚ) :=
    add_nonneg (mul_nonneg (by linarith) hc0n) (mul_nonneg ht0 hc1n)
  have hv1 : (1 - t) * (c0 : ℚ) + t * (c1 : ℚ) < 65536 := by
    nlinarith [mul_le_mul_of_nonneg_left hc0' (sub_nonneg.mpr ht1), mul_le_mul_of_nonneg_left hc1' ht0]
  rw [truncQ_nonneg hv0]
  have h1 : 0 ≤ ⌊(1 - t) * (c0 : ℚ) + t * (c1 : ℚ)⌋ := Int.floor_nonneg.mpr hv0
  have h2 : ⌊(1 - t) * (c0 : ℚ) + t * (c1 : ℚ)⌋ < 65536 := Int.floor_lt.mpr (by exact_mod_cast hv1)
  rw [Int.emod_eq_of_lt h1 h2]
  rfl

/-- one channel of the part of `At` that follows `offset ≥ first stop` -/
def chanTail (chM : RGBA64 → Nat) (last : RGBA64) (ranges : List (Range ℚ)) (o : ℚ) : Nat :=
  match findRange o ranges with
  | some r => lerpChan (α := ℚ) (1 - (o - r.offset0) / r.width) ((o - r.offset0) / r.width) (chM r.c0) (chM r.c1)
  | none => chM last

theorem chanTail_spec (chS : Col → Nat) (chM : RGBA64 → Nat) (hch : ∀ c, chS (toCol c) = chM c)
    (rest : List (Stop ℚ)) : ∀ (s0 s1 : Stop ℚ) (o : ℚ),
    increasing (specStops (s0 :: s1 :: rest)) → (∀ s ∈ s0 :: s1 :: rest, chM s.color < 65536) →
    s0.offset ≤ o →
    chanTail chM (((s0 :: s1 :: rest).getLast (by simp)).color) (appendRanges (s0 :: s1 :: rest)) o =
      sampleChan chS (specStops (s0 :: s1 :: rest)) o := by
  induction rest with
  | nil =>
    intro s0 s1 o hinc hc h0
    have h01 : s0.offset < s1.offset := hinc.1
    simp only [chanTail, appendRanges, findRange_cons, makeRange, sampleChan, specStops, List.map, sample]
    rw [if_neg (not_lt.mpr h0)]
    by_cases h1 : o ≤ s1.offset
    · rw [if_pos ⟨h0, h1⟩, if_pos h1, hch, hch]
      exact lerpChan_spec _ _ _ _ _ h01 h0 h1 (hc s0 (by simp)) (hc s1 (by simp))
    · rw [if_neg (fun h => h1 h.2), if_neg h1]
      simp only [findRange, List.getLast_cons_cons, List.getLast_singleton, hch]
      exact (natCast_floor_toNat _).symm
  | cons s2 rest ih =>
    intro s0 s1 o hinc hc h0
    have h01 : s0.offset < s1.offset := hinc.1
    have hinc' : increasing (specStops (s1 :: s2 :: rest)) := hinc.2
    by_cases h1 : o ≤ s1.offset
    · simp only [chanTail, appendRanges, findRange_cons, makeRange, sampleChan, specStops, List.map, sample]
      rw [if_neg (not_lt.mpr h0), if_pos ⟨h0, h1⟩, if_pos h1, hch, hch]
      exact lerpChan_spec _ _ _ _ _ h01 h0 h1 (hc s0 (by simp)) (hc s1 (by simp))
    · have := ih s1 s2 o hinc' (fun s hs => hc s (List.mem_cons_of_mem _ hs)) (not_le.mp h1).le
      have e1 : chanTail chM (((s0 :: s1 :: s2 :: rest).getLast (by simp)).color)
          (appendRanges (s0 :: s1 :: s2 :: rest)) o =
          chanTail chM (((s1 :: s2 :: rest).getLast (by simp)).color) (appendRanges (s1 :: s2 :: rest)) o := by
        have : appendRanges (s0 :: s1 :: s2 :: rest) = makeRange s0 s1 :: appendRanges (s1 :: s2 :: rest) := rfl
        rw [this]
        simp only [chanTail, findRange_cons, makeRange]
        rw [if_neg (fun h => h1 h.2)]
        simp only [List.getLast_cons_cons]
      have e2 : sampleChan chS (specStops (s0 :: s1 :: s2 :: rest)) o =
          sampleChan chS (specStops (s1 :: s2 :: rest)) o := by
        simp only [sampleChan, specStops, List.map, sample]
        rw [if_neg (not_lt.mpr h0), if_neg h1]
      rw [e1, e2, this]

/-- the gradient-space offset of pixel `(x, y)` before spreading: the pixel centre mapped through
    `pix2Grad`; its x coordinate (linear) or its distance from the origin (radial) -/
def rawOffset (g : Gradient ℚ) (x y : Int) : ℚ :=
  let px : ℚ := (x : ℚ) + 1 / 2
  let py : ℚ := (y : ℚ) + 1 / 2
  let m := g.pix2Grad
  if g.shape = 0 then m.a * px + m.b * py + m.c
  else SqrtQ.sq ((m.a * px + m.b * py + m.c) * (m.a * px + m.b * py + m.c) +
                 (m.d * px + m.e * py + m.f) * (m.d * px + m.e * py + m.f))

/-- `At` after the offset: transparent if the clamp said "outside", the first colour before the first
    stop, else interpolate in the first range containing the offset, else the last colour -/
def pickColor (g : Gradient ℚ) (r0 : Range ℚ) (offset : ℚ) : RGBA64 :=
  if ¬ (0 ≤ offset) then ⟨0, 0, 0, 0⟩
  else if offset < r0.offset0 then g.first
  else ⟨chanTail (·.r) g.last g.ranges offset, chanTail (·.g) g.last g.ranges offset,
        chanTail (·.b) g.last g.ranges offset, chanTail (·.a) g.last g.ranges offset⟩

theorem at_nil (g : Gradient ℚ) (x y : Int) (h : g.ranges = []) : g.at x y = ⟨0, 0, 0, 0⟩ := by
  unfold Gradient.at; rw [h]

theorem at_eq (g : Gradient ℚ) (x y : Int) (r0 : Range ℚ) (rs : List (Range ℚ)) (h : g.ranges = r0 :: rs) :
    g.at x y = pickColor g r0 (clamp (α := ℚ) g.spread (rawOffset g x y)) := by
  obtain ⟨shape, spread, m, ranges, first, last⟩ := g
  simp only at h; subst h
  unfold Gradient.at
  dsimp only
  by_cases hs : shape = 0
  · have e : rawOffset ⟨shape, spread, m, r0 :: rs, first, last⟩ x y =
        m.a * (Arith.ofInt x + Wide.half (α := ℚ)) + m.b * (Arith.ofInt y + Wide.half (α := ℚ)) + m.c := by
      unfold rawOffset; dsimp only; rw [if_pos hs]; rfl
    rw [if_pos hs, e]
    generalize clamp (α := ℚ) (β := ℚ) spread _ = off
    unfold pickColor chanTail
    dsimp only
    split <;> rename_i h0
    · rw [if_pos (show ¬ (0 : ℚ) ≤ off from h0)]
    · rw [if_neg (show ¬ ¬ (0 : ℚ) ≤ off from h0)]
      split <;> rename_i h1
      · rfl
      · cases findRange off (r0 :: rs) <;> rfl
  · have e : rawOffset ⟨shape, spread, m, r0 :: rs, first, last⟩ x y =
        Wide.sqrt (α := ℚ)
          ((m.a * (Arith.ofInt x + Wide.half (α := ℚ)) + m.b * (Arith.ofInt y + Wide.half (α := ℚ)) + m.c) *
             (m.a * (Arith.ofInt x + Wide.half (α := ℚ)) + m.b * (Arith.ofInt y + Wide.half (α := ℚ)) + m.c) +
           (m.d * (Arith.ofInt x + Wide.half (α := ℚ)) + m.e * (Arith.ofInt y + Wide.half (α := ℚ)) + m.f) *
             (m.d * (Arith.ofInt x + Wide.half (α := ℚ)) + m.e * (Arith.ofInt y + Wide.half (α := ℚ)) + m.f)) := by
      unfold rawOffset; dsimp only; rw [if_neg hs]; rfl
    rw [if_neg hs, e]
    generalize clamp (α := ℚ) (β := ℚ) spread _ = off
    unfold pickColor chanTail
    dsimp only
    split <;> rename_i h0
    · rw [if_pos (show ¬ (0 : ℚ) ≤ off from h0)]
    · rw [if_neg (show ¬ ¬ (0 : ℚ) ≤ off from h0)]
      split <;> rename_i h1
      · rfl
      · cases findRange off (r0 :: rs) <;> rfl
end

section
variable [SqrtQ]

/-! ## `Gradient.At` is the specification's `colorAt` -/

omit [SqrtQ] in
theorem init_eq (shape spread : UInt8) (m : Aff3 ℚ) (s0 s1 : Stop ℚ) (rest : List (Stop ℚ)) :
    (Gradient.init shape spread m (s0 :: s1 :: rest)).1 =
      ⟨shape, spread, m, makeRange s0 s1 :: appendRanges (s1 :: rest), s0.color,
       ((s0 :: s1 :: rest).getLast (by simp)).color⟩ ∧
    (Gradient.init shape spread m (s0 :: s1 :: rest)).2 = true := by
  constructor
  · simp only [Gradient.init, appendRanges, List.head?_cons]
    rw [List.getLast?_eq_some_getLast (by simp)]
  · rfl

/-- Headline of C15 at exact arithmetic: for a gradient made by `Init` from at least two stops with
    strictly increasing offsets and 16-bit channels, `At` returns, at every pixel, the specification's
    colour — the spread function applied to the raw offset of the pixel centre, then the piece-wise linear
    interpolation of the stops (integer part per channel), or transparent black for spread `none` outside
    `[0,1]`. -/
theorem at_spec (shape spread : UInt8) (m : Aff3 ℚ) (s0 s1 : Stop ℚ) (rest : List (Stop ℚ))
    (hinc : increasing (specStops (s0 :: s1 :: rest))) (hok : ∀ s ∈ s0 :: s1 :: rest, chanOK s.color)
    (x y : Int) :
    toCol ((Gradient.init shape spread m (s0 :: s1 :: rest)).1.at x y) =
      colorAt (Spread.ofCode spread) (specStops (s0 :: s1 :: rest))
        (rawOffset (Gradient.init shape spread m (s0 :: s1 :: rest)).1 x y) := by
  obtain ⟨hg, -⟩ := init_eq shape spread m s0 s1 rest
  generalize (Gradient.init shape spread m (s0 :: s1 :: rest)).1 = g at hg ⊢
  have hr : g.ranges = makeRange s0 s1 :: appendRanges (s1 :: rest) := by rw [hg]
  have hsp : g.spread = spread := by rw [hg]
  have hfirst : g.first = s0.color := by rw [hg]
  have hlast : g.last = ((s0 :: s1 :: rest).getLast (by simp)).color := by rw [hg]
  rw [at_eq g x y _ _ hr, hsp, clamp_spec]
  generalize rawOffset g x y = raw
  unfold colorAt
  cases hso : spreadOffset (Spread.ofCode spread) raw with
  | none =>
    simp only [Option.getD_none]
    unfold pickColor
    rw [if_pos (by norm_num)]
    rfl
  | some o =>
    obtain ⟨ho0, ho1⟩ := spreadOffset_range _ _ _ hso
    simp only [Option.getD_some]
    unfold pickColor
    rw [if_neg (not_not.mpr ho0)]
    by_cases hlt : o < (makeRange s0 s1).offset0
    · rw [if_pos hlt, hfirst]
      have hlt' : o < s0.offset := hlt
      unfold sampleCol sampleChan specStops
      simp only [List.map_cons]
      rw [sample_before _ _ _ _ hlt', sample_before _ _ _ _ hlt', sample_before _ _ _ _ hlt',
        sample_before _ _ _ _ hlt']
      simp only [natCast_floor_toNat]
    · rw [if_neg hlt, hr, hlast]
      have hge : s0.offset ≤ o := not_lt.mp hlt
      have e : makeRange s0 s1 :: appendRanges (s1 :: rest) = appendRanges (s0 :: s1 :: rest) := rfl
      rw [e]
      unfold sampleCol toCol
      simp only
      rw [chanTail_spec (·.r) (·.r) (fun _ => rfl) rest s0 s1 o hinc (fun s hs => (hok s hs).1) hge,
        chanTail_spec (·.g) (·.g) (fun _ => rfl) rest s0 s1 o hinc (fun s hs => (hok s hs).2.1) hge,
        chanTail_spec (·.b) (·.b) (fun _ => rfl) rest s0 s1 o hinc (fun s hs => (hok s hs).2.2.1) hge,
        chanTail_spec (·.a) (·.a) (fun _ => rfl) rest s0 s1 o hinc (fun s hs => (hok s hs).2.2.2) hge]

omit [SqrtQ] in
theorem specStops_getElem (stops : List (Stop ℚ)) (i : Nat) (hi : i < stops.length) :
    (specStops stops)[i]'(by simpa [specStops] using hi) = (stops[i].offset, toCol stops[i].color) := by
  simp [specStops]

omit [SqrtQ] in
theorem sampleCol_at_stop (l : List (ℚ × Col)) (h : increasing l) (i : Nat) (hi : i < l.length) :
    sampleCol l l[i].1 = l[i].2 := by
  unfold sampleCol sampleChan
  rw [sample_at_stop _ l h i hi, sample_at_stop _ l h i hi, sample_at_stop _ l h i hi, sample_at_stop _ l h i hi]
  simp only [natCast_floor_toNat]

/-- "at a stop's offset the colour is that stop's colour" -/
theorem at_stop (shape spread : UInt8) (m : Aff3 ℚ) (s0 s1 : Stop ℚ) (rest : List (Stop ℚ))
    (hinc : increasing (specStops (s0 :: s1 :: rest))) (hok : ∀ s ∈ s0 :: s1 :: rest, chanOK s.color)
    (x y : Int) (i : Nat) (hi : i < (s0 :: s1 :: rest).length)
    (hso : spreadOffset (Spread.ofCode spread)
      (rawOffset (Gradient.init shape spread m (s0 :: s1 :: rest)).1 x y) = some ((s0 :: s1 :: rest)[i].offset)) :
    (Gradient.init shape spread m (s0 :: s1 :: rest)).1.at x y = (s0 :: s1 :: rest)[i].color := by
  have h := at_spec shape spread m s0 s1 rest hinc hok x y
  unfold colorAt at h
  rw [hso] at h
  simp only at h
  have hi' : i < (specStops (s0 :: s1 :: rest)).length := by simpa [specStops] using hi
  have e := specStops_getElem (s0 :: s1 :: rest) i hi
  have h2 := sampleCol_at_stop _ hinc i hi'
  rw [e] at h2
  simp only at h2
  rw [h2] at h
  have inj : ∀ a b : RGBA64, toCol a = toCol b → a = b := by
    intro a b hab; cases a; cases b; simp only [toCol, Col.mk.injEq] at hab
    obtain ⟨rfl, rfl, rfl, rfl⟩ := hab; rfl
  exact inj _ _ h

omit [SqrtQ] in
theorem toCol_inj (a b : RGBA64) (h : toCol a = toCol b) : a = b := by
  cases a; cases b; simp only [toCol, Col.mk.injEq] at h
  obtain ⟨rfl, rfl, rfl, rfl⟩ := h; rfl

/-- "before the first or after the last stop it is the first or last colour" -/
theorem before_first_after_last (shape spread : UInt8) (m : Aff3 ℚ) (s0 s1 : Stop ℚ) (rest : List (Stop ℚ))
    (hinc : increasing (specStops (s0 :: s1 :: rest))) (hok : ∀ s ∈ s0 :: s1 :: rest, chanOK s.color)
    (x y : Int) (o : ℚ)
    (hso : spreadOffset (Spread.ofCode spread)
      (rawOffset (Gradient.init shape spread m (s0 :: s1 :: rest)).1 x y) = some o) :
    (o < s0.offset → (Gradient.init shape spread m (s0 :: s1 :: rest)).1.at x y = s0.color) ∧
    (((s0 :: s1 :: rest).getLast (by simp)).offset < o →
      (Gradient.init shape spread m (s0 :: s1 :: rest)).1.at x y = ((s0 :: s1 :: rest).getLast (by simp)).color) := by
  have h := at_spec shape spread m s0 s1 rest hinc hok x y
  unfold colorAt at h
  rw [hso] at h
  simp only at h
  constructor
  · intro hlt
    apply toCol_inj
    rw [h]
    unfold sampleCol sampleChan specStops
    simp only [List.map_cons]
    rw [sample_before _ _ _ _ hlt, sample_before _ _ _ _ hlt, sample_before _ _ _ _ hlt, sample_before _ _ _ _ hlt]
    simp only [natCast_floor_toNat]
  · intro hgt
    apply toCol_inj
    rw [h]
    have hne : specStops (s0 :: s1 :: rest) ≠ [] := by simp [specStops]
    have hl : (specStops (s0 :: s1 :: rest)).getLast hne =
        (((s0 :: s1 :: rest).getLast (by simp)).offset, toCol ((s0 :: s1 :: rest).getLast (by simp)).color) := by
      show (List.map (fun s : Stop ℚ => (s.offset, toCol s.color)) (s0 :: s1 :: rest)).getLast (by simp) = _
      rw [List.getLast_map]
    have hgt' : ((specStops (s0 :: s1 :: rest)).getLast hne).1 < o := by rw [hl]; exact hgt
    unfold sampleCol sampleChan
    rw [sample_after _ _ hne hinc o hgt', sample_after _ _ hne hinc o hgt', sample_after _ _ hne hinc o hgt',
      sample_after _ _ hne hinc o hgt', hl]
    simp only [natCast_floor_toNat]

/-- inside a range (`oᵢ < o ≤ oᵢ₊₁`) every channel is the integer part of the linear interpolation
    `(1−t)·c₀ + t·c₁`, `t = (o − oᵢ)/(oᵢ₊₁ − oᵢ)` -/
theorem at_interp (shape spread : UInt8) (m : Aff3 ℚ) (s0 s1 : Stop ℚ) (rest : List (Stop ℚ))
    (hinc : increasing (specStops (s0 :: s1 :: rest))) (hok : ∀ s ∈ s0 :: s1 :: rest, chanOK s.color)
    (x y : Int) (o : ℚ)
    (hso : spreadOffset (Spread.ofCode spread)
      (rawOffset (Gradient.init shape spread m (s0 :: s1 :: rest)).1 x y) = some o)
    (i : Nat) (hi : i + 1 < (s0 :: s1 :: rest).length)
    (h0 : (s0 :: s1 :: rest)[i].offset < o) (h1 : o ≤ (s0 :: s1 :: rest)[i + 1].offset) :
    let a := (s0 :: s1 :: rest)[i]
    let b := (s0 :: s1 :: rest)[i + 1]
    let c := (Gradient.init shape spread m (s0 :: s1 :: rest)).1.at x y
    c.r = (lerp a.offset b.offset a.color.r b.color.r o).floor.toNat ∧
    c.g = (lerp a.offset b.offset a.color.g b.color.g o).floor.toNat ∧
    c.b = (lerp a.offset b.offset a.color.b b.color.b o).floor.toNat ∧
    c.a = (lerp a.offset b.offset a.color.a b.color.a o).floor.toNat := by
  intro a b c
  have h := at_spec shape spread m s0 s1 rest hinc hok x y
  unfold colorAt at h
  rw [hso] at h
  simp only at h
  have hi' : i + 1 < (specStops (s0 :: s1 :: rest)).length := by simpa [specStops] using hi
  have ea := specStops_getElem (s0 :: s1 :: rest) i (by omega)
  have eb := specStops_getElem (s0 :: s1 :: rest) (i + 1) hi
  have key : ∀ ch : Col → Nat, sampleChan ch (specStops (s0 :: s1 :: rest)) o =
      (lerp a.offset b.offset (ch (toCol a.color)) (ch (toCol b.color)) o).floor.toNat := by
    intro ch
    unfold sampleChan
    rw [sample_interior ch _ hinc i hi' o (by rw [ea]; exact h0) (by rw [eb]; exact h1), ea, eb]
  have hr : (toCol c).r = _ := congrArg Col.r h
  have hg : (toCol c).g = _ := congrArg Col.g h
  have hb : (toCol c).b = _ := congrArg Col.b h
  have ha : (toCol c).a = _ := congrArg Col.a h
  simp only [sampleCol, key] at hr hg hb ha
  exact ⟨hr, hg, hb, ha⟩

/-- spread `none` (any code other than 1, 2, 3) outside `[0,1]`: transparent black -/
theorem at_none_outside (shape spread : UInt8) (m : Aff3 ℚ) (s0 s1 : Stop ℚ) (rest : List (Stop ℚ))
    (hs : spread ≠ 1 ∧ spread ≠ 2 ∧ spread ≠ 3) (x y : Int)
    (hout : ¬ (0 ≤ rawOffset (Gradient.init shape spread m (s0 :: s1 :: rest)).1 x y ∧
               rawOffset (Gradient.init shape spread m (s0 :: s1 :: rest)).1 x y ≤ 1)) :
    (Gradient.init shape spread m (s0 :: s1 :: rest)).1.at x y = ⟨0, 0, 0, 0⟩ := by
  obtain ⟨hg, -⟩ := init_eq shape spread m s0 s1 rest
  generalize (Gradient.init shape spread m (s0 :: s1 :: rest)).1 = g at hg hout ⊢
  have hr : g.ranges = makeRange s0 s1 :: appendRanges (s1 :: rest) := by rw [hg]
  have hsp : g.spread = spread := by rw [hg]
  rw [at_eq g x y _ _ hr, hsp, clamp_none spread hs _ hout]
  unfold pickColor
  rw [if_pos (by norm_num)]

/-- "returns a valid premultiplied colour": premultiplied stops give `R, G, B ≤ A` at every pixel -/
theorem premul_valid (shape spread : UInt8) (m : Aff3 ℚ) (s0 s1 : Stop ℚ) (rest : List (Stop ℚ))
    (hinc : increasing (specStops (s0 :: s1 :: rest))) (hok : ∀ s ∈ s0 :: s1 :: rest, chanOK s.color)
    (hp : ∀ s ∈ s0 :: s1 :: rest, s.color.r ≤ s.color.a ∧ s.color.g ≤ s.color.a ∧ s.color.b ≤ s.color.a)
    (x y : Int) :
    let c := (Gradient.init shape spread m (s0 :: s1 :: rest)).1.at x y
    c.r ≤ c.a ∧ c.g ≤ c.a ∧ c.b ≤ c.a := by
  intro c
  have h := at_spec shape spread m s0 s1 rest hinc hok x y
  have hp' : ∀ p ∈ specStops (s0 :: s1 :: rest), p.2.premul := by
    intro p hp2
    unfold specStops at hp2
    obtain ⟨s, hs, rfl⟩ := List.mem_map.mp hp2
    exact hp s hs
  have := colorAt_premul (Spread.ofCode spread) _ hinc hp'
    (rawOffset (Gradient.init shape spread m (s0 :: s1 :: rest)).1 x y)
  rw [← h] at this
  exact this
end

open Ivg.Ren
section
variable [SqrtQ]

/-! ## the stops and the matrix `initGradient` hands to `Init` -/

omit [SqrtQ] in
theorem rgba64Of_ok (c : RGBA) : chanOK (rgba64Of c) := by
  have := c.r.toNat_lt; have := c.g.toNat_lt; have := c.b.toNat_lt; have := c.a.toNat_lt
  simp only [chanOK, rgba64Of]; omega

omit [SqrtQ] in
theorem rgba64Of_premul (c : RGBA) (h : c.validPremul = true) :
    (rgba64Of c).r ≤ (rgba64Of c).a ∧ (rgba64Of c).g ≤ (rgba64Of c).a ∧ (rgba64Of c).b ≤ (rgba64Of c).a := by
  simp only [RGBA.validPremul, Bool.and_eq_true, decide_eq_true_eq, UInt8.le_iff_toNat_le] at h
  simp only [rgba64Of]; omega

theorem collectStops_succ (cReg : Regs RGBA) (nReg : Regs ℚ) (cBase nBase : UInt8) (n : Nat) (i : UInt8)
    (prevN : ℚ) (first : Bool) :
    collectStops (β := ℚ) cReg nReg cBase nBase (n + 1) i prevN first =
      if !(cReg.get6 (cBase + i)).validPremul then none
      else if ¬ (0 ≤ nReg.get6 (nBase + i) ∧ nReg.get6 (nBase + i) ≤ 1) ∨ ¬ (first = true ∨ prevN < nReg.get6 (nBase + i)) then none
      else match collectStops (β := ℚ) cReg nReg cBase nBase n (i + 1) (nReg.get6 (nBase + i)) false with
        | none => none
        | some rest => some (⟨nReg.get6 (nBase + i), rgba64Of (cReg.get6 (cBase + i))⟩ :: rest) := by
  rw [collectStops]
  dsimp only
  by_cases hc : (!(cReg.get6 (cBase + i)).validPremul) = true
  · rw [if_pos hc, if_pos hc]
  · rw [if_neg hc, if_neg hc]
    by_cases h : ¬ ((0 : ℚ) ≤ nReg.get6 (nBase + i) ∧ nReg.get6 (nBase + i) ≤ 1) ∨ ¬ (first = true ∨ prevN < nReg.get6 (nBase + i))
    · rw [if_pos h, if_pos (show ¬ ((zeroA : ℚ) ≤ nReg.get6 (nBase + i) ∧ nReg.get6 (nBase + i) ≤ Arith.ofInt 1) ∨
        ¬ (first = true ∨ prevN < nReg.get6 (nBase + i)) from h)]
    · rw [if_neg h, if_neg (show ¬ (¬ ((zeroA : ℚ) ≤ nReg.get6 (nBase + i) ∧ nReg.get6 (nBase + i) ≤ Arith.ofInt 1) ∨
        ¬ (first = true ∨ prevN < nReg.get6 (nBase + i))) from h)]
      cases collectStops (β := ℚ) cReg nReg cBase nBase n (i + 1) (nReg.get6 (nBase + i)) false <;> rfl

/-- what `initGradient`'s stop loop guarantees of the stops it accepts: their number, colours read from
    CREG[cBase+i…] (valid premultiplied, widened to 16 bits), offsets read from NREG[nBase+i…], all in
    `[0,1]` and strictly increasing -/
theorem collectStops_props (cReg : Regs RGBA) (nReg : Regs ℚ) (cBase nBase : UInt8) (n : Nat) :
    ∀ (i : UInt8) (prevN : ℚ) (first : Bool) (stops : List (Stop ℚ)),
      collectStops (β := ℚ) cReg nReg cBase nBase n i prevN first = some stops →
      stops.length = n ∧ increasing (specStops stops) ∧
      (first = false → ∀ s ∈ stops.head?, prevN < s.offset) ∧
      (∀ s ∈ stops, chanOK s.color ∧ (s.color.r ≤ s.color.a ∧ s.color.g ≤ s.color.a ∧ s.color.b ≤ s.color.a) ∧
        0 ≤ s.offset ∧ s.offset ≤ 1) ∧
      (∀ k (hk : k < stops.length), stops[k] =
        ⟨nReg.get6 (nBase + (i + UInt8.ofNat k)), rgba64Of (cReg.get6 (cBase + (i + UInt8.ofNat k)))⟩) := by
  induction n with
  | zero =>
    intro i prevN first stops h
    simp only [collectStops, Option.some.injEq] at h
    subst h
    simp [specStops, increasing]
  | succ n ih =>
    intro i prevN first stops h
    rw [collectStops_succ] at h
    split at h
    · cases h
    · rename_i hc
      split at h
      · cases h
      · rename_i hv
        split at h
        · cases h
        · rename_i rest hrest
          simp only [Option.some.injEq] at h
          subst h
          obtain ⟨hlen, hinc, hprev, hall, hget⟩ := ih _ _ _ _ hrest
          have hv1 : 0 ≤ nReg.get6 (nBase + i) ∧ nReg.get6 (nBase + i) ≤ 1 := by
            by_contra hh; exact hv (Or.inl hh)
          have hv2 : first = true ∨ prevN < nReg.get6 (nBase + i) := by
            by_contra hh; exact hv (Or.inr hh)
          have hc' : (cReg.get6 (cBase + i)).validPremul = true := by
            cases hvp : (cReg.get6 (cBase + i)).validPremul
            · rw [hvp] at hc; exact absurd rfl hc
            · rfl
          refine ⟨by simp [hlen], ?_, ?_, ?_, ?_⟩
          · cases rest with
            | nil => trivial
            | cons r rest =>
              refine ⟨?_, hinc⟩
              exact hprev rfl r (by simp)
          · intro hf s hs
            simp only [List.head?_cons, Option.mem_def, Option.some.injEq] at hs
            subst hs
            rcases hv2 with h | h
            · rw [hf] at h; cases h
            · exact h
          · intro s hs
            rcases List.mem_cons.mp hs with rfl | hs
            · exact ⟨rgba64Of_ok _, rgba64Of_premul _ hc', hv1.1, hv1.2⟩
            · exact hall s hs
          · intro k hk
            cases k with
            | zero => simp
            | succ k =>
              simp only [List.getElem_cons_succ]
              rw [hget k (by simpa using hk)]
              have : i + 1 + UInt8.ofNat k = i + UInt8.ofNat (k + 1) := by
                apply UInt8.toNat_inj.mp
                simp [UInt8.toNat_add, UInt8.toNat_ofNat']
                omega
              rw [this]

/-- the matrix `initGradient` builds from the six number registers below the number base and the
    renderer's transform -/
def pixMatrix (z : Renderer ℚ ℚ) (nBase : UInt8) : Aff3 ℚ :=
  let a := z.nReg.get6 (nBase - 6)
  let b := z.nReg.get6 (nBase - 5)
  let c := z.nReg.get6 (nBase - 4)
  let d := z.nReg.get6 (nBase - 3)
  let e := z.nReg.get6 (nBase - 2)
  let f := z.nReg.get6 (nBase - 1)
  ⟨a * (1 / z.scaleX), b * (1 / z.scaleY), c - a * z.biasX - b * z.biasY,
   d * (1 / z.scaleX), e * (1 / z.scaleY), f - d * z.biasX - e * z.biasY⟩

/-- a successful `initGradient` is `Init` of the decoded shape and spread, the matrix `pixMatrix`, and
    the (at least two) stops its loop accepted -/
theorem initGradient_spec (z : Renderer ℚ ℚ) (rgba : RGBA) (g : Gradient ℚ) (h : z.initGradient rgba = some g) :
    ∃ s0 s1 rest,
      collectStops (β := ℚ) z.cReg z.nReg (decodeGradient rgba).cBase (decodeGradient rgba).nBase
        (decodeGradient rgba).nStops.toNat 0 0 true = some (s0 :: s1 :: rest) ∧
      g = (Gradient.init (decodeGradient rgba).shape (decodeGradient rgba).spread
            (pixMatrix z (decodeGradient rgba).nBase) (s0 :: s1 :: rest)).1 := by
  unfold Renderer.initGradient at h
  dsimp only at h
  split at h
  · cases h
  · rename_i stops hst
    match stops, hst with
    | [], _ => simp [Gradient.init, appendRanges] at h
    | [s], _ => simp [Gradient.init, appendRanges] at h
    | s0 :: s1 :: rest, hst =>
      refine ⟨s0, s1, rest, hst, ?_⟩
      have hok := (init_eq (decodeGradient rgba).shape (decodeGradient rgba).spread
        (pixMatrix z (decodeGradient rgba).nBase) s0 s1 rest).2
      have e : (Gradient.init (decodeGradient rgba).shape (decodeGradient rgba).spread
        (pixMatrix z (decodeGradient rgba).nBase) (s0 :: s1 :: rest)) = (_, true) := Prod.ext rfl hok
      have h' : (if (Gradient.init (decodeGradient rgba).shape (decodeGradient rgba).spread
          (pixMatrix z (decodeGradient rgba).nBase) (s0 :: s1 :: rest)).2 = true then
          some (Gradient.init (decodeGradient rgba).shape (decodeGradient rgba).spread
          (pixMatrix z (decodeGradient rgba).nBase) (s0 :: s1 :: rest)).1 else none) = some g := h
      rw [if_pos hok] at h'
      exact (Option.some.inj h').symm

omit [SqrtQ] in
/-- `pix2grad_compose`: applying the matrix `initGradient` builds to pixel coordinates `(px, py)` is
    applying the NREG matrix `[a b c; d e f]` to the viewBox point `(px/scaleX − biasX, py/scaleY − biasY)`
    (`unabsX px`, `unabsY py`: the inverse of the viewBox-to-pixel map) -/
theorem pix2grad_compose (z : Renderer ℚ ℚ) (nBase : UInt8) (px py : ℚ) :
    let m := pixMatrix z nBase
    m.a * px + m.b * py + m.c =
      z.nReg.get6 (nBase - 6) * z.unabsX px + z.nReg.get6 (nBase - 5) * z.unabsY py + z.nReg.get6 (nBase - 4) ∧
    m.d * px + m.e * py + m.f =
      z.nReg.get6 (nBase - 3) * z.unabsX px + z.nReg.get6 (nBase - 2) * z.unabsY py + z.nReg.get6 (nBase - 1) := by
  have ex : z.unabsX px = px / z.scaleX - z.biasX := rfl
  have ey : z.unabsY py = py / z.scaleY - z.biasY := rfl
  simp only [pixMatrix, ex, ey]
  constructor <;> ring

/-- Headline of C15 for the gradients the renderer actually builds: if `initGradient` accepts the
    gradient value `rgba` in renderer state `z`, then at every pixel the paint's colour is the
    specification's `colorAt` for the decoded spread, the stops found in the registers, and the raw offset
    of the pixel centre; the colour is a valid premultiplied colour; and the stops are the register
    contents CREG/NREG[base + k] -/
theorem gradient_at_spec (z : Renderer ℚ ℚ) (rgba : RGBA) (g : Gradient ℚ) (h : z.initGradient rgba = some g) :
    ∃ stops : List (Stop ℚ),
      stops.length = (decodeGradient rgba).nStops.toNat ∧ 2 ≤ stops.length ∧
      (∀ k (hk : k < stops.length), stops[k] =
        ⟨z.nReg.get6 ((decodeGradient rgba).nBase + (0 + UInt8.ofNat k)),
         rgba64Of (z.cReg.get6 ((decodeGradient rgba).cBase + (0 + UInt8.ofNat k)))⟩) ∧
      increasing (specStops stops) ∧
      g.shape = (decodeGradient rgba).shape ∧ g.spread = (decodeGradient rgba).spread ∧
      g.pix2Grad = pixMatrix z (decodeGradient rgba).nBase ∧
      ∀ x y : Int,
        toCol (g.at x y) = colorAt (Spread.ofCode (decodeGradient rgba).spread) (specStops stops) (rawOffset g x y) ∧
        ((g.at x y).r ≤ (g.at x y).a ∧ (g.at x y).g ≤ (g.at x y).a ∧ (g.at x y).b ≤ (g.at x y).a) := by
  obtain ⟨s0, s1, rest, hst, rfl⟩ := initGradient_spec z rgba g h
  obtain ⟨hlen, hinc, -, hall, hget⟩ := collectStops_props _ _ _ _ _ _ _ _ _ hst
  have hg := (init_eq (decodeGradient rgba).shape (decodeGradient rgba).spread
    (pixMatrix z (decodeGradient rgba).nBase) s0 s1 rest).1
  refine ⟨s0 :: s1 :: rest, hlen, by simp, hget, hinc, by rw [hg], by rw [hg], by rw [hg], fun x y => ⟨?_, ?_⟩⟩
  · exact at_spec _ _ _ s0 s1 rest hinc (fun s hs => (hall s hs).1) x y
  · exact premul_valid _ _ _ s0 s1 rest hinc (fun s hs => (hall s hs).1) (fun s hs => (hall s hs).2.1) x y
end

/-- a concrete register state holding a two-stop linear gradient (opaque black at 0, transparent at 1, along
    the x axis of the default viewBox), for non-vacuity examples -/
def exampleState : Renderer ℚ ℚ :=
  let z := ((Renderer.zero (α := ℚ) (β := ℚ)).setRasterizer ⟨0, 0, 64, 64⟩).reset 100 ⟨-32, -32, 32, 32⟩ defaultPalette
  { z with cReg := (z.cReg.set6 10 ⟨0, 0, 0, 0xff⟩).set6 11 ⟨0, 0, 0, 0⟩,
           nReg := (((z.nReg.set6 4 (1 / 64)).set6 6 (1 / 2)).set6 10 0).set6 11 1 }

theorem example_accepted : (exampleState.initGradient (encodeGradient 10 10 0 1 2)).isSome = true := by
  decide +kernel

end Ivg.GradQ
