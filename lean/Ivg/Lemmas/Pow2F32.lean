import Ivg.Lemmas.FloatSpecial32
/-!
# Scaling a binary32 by a power of two, and the operations that commute with it (bit patterns)

Property C16 clause (b) at float32: "a graphic and its re-expression at another power-of-two scale (viewBox
and all coordinates multiplied by 2^n, absent float overflow or underflow) … produce identical pixels".

This file is the arithmetic core, on bit patterns (`Nat`):

* `scaleB n b` adds `n` to the exponent field of a NORMAL pattern whose exponent field stays in `[2, 254]`
  (`NormB n b`) and returns every other pattern unchanged (in particular `±0`);
* `SafeB n b`: `b` is `±0` or `NormB n b`;
* `roundMag_shift` / `roundPack_shift`: the rounding of `m·2^(e+n)` is the rounding of `m·2^e` with `n` added
  to the exponent field, as soon as the latter is normal with exponent field in `[2, 254]` before and after;
* `mul_scaleB`, `div_scaleB`, `add_scaleB`, `sub_scaleB`, `neg_scaleB`, `lt_scaleB`, `le_scaleB`:
  `Num.mul/div/add/sub/neg/lt/le .f32` commute with the scaling, under DECIDABLE hypotheses on the bit patterns
  of operands and result.

The `F32`-level statements are in `Pow2F32b.lean`.
-/
namespace Ivg.Pow2F32
open Ivg Num FloatOrder32 FloatMono32

/-! ## the predicates and the scaling -/

/-- exponent field -/
def expF (b : Nat) : Nat := b / 8388608 % 256

/-- `±0` -/
def ZeroB (b : Nat) : Prop := b % 2147483648 = 0
instance (b : Nat) : Decidable (ZeroB b) := by unfold ZeroB; infer_instance

/-- normal, with exponent field in `[2, 254]`, and still so after adding `n` to it -/
def NormB (n : Int) (b : Nat) : Prop :=
  2 ≤ expF b ∧ expF b ≤ 254 ∧ 2 ≤ (expF b : Int) + n ∧ (expF b : Int) + n ≤ 254
instance (n : Int) (b : Nat) : Decidable (NormB n b) := by unfold NormB; infer_instance

/-- `±0`, or normal before and after the scaling -/
def SafeB (n : Int) (b : Nat) : Prop := ZeroB b ∨ NormB n b
instance (n : Int) (b : Nat) : Decidable (SafeB n b) := by unfold SafeB; infer_instance

/-- multiply by `2^n`: add `n` to the exponent field (defined on `NormB n`; identity elsewhere) -/
def scaleB (n : Int) (b : Nat) : Nat := if NormB n b then ((b : Int) + 8388608 * n).toNat else b

-- 1.5 · 2^3 = 12; −0 and a subnormal are left alone; 2^127 · 2 would overflow: left alone
example : NormB 3 0x3fc00000 ∧ scaleB 3 0x3fc00000 = 0x41400000 ∧ SafeB 7 0x80000000 ∧ scaleB 7 0x80000000 = 0x80000000 ∧
    ¬ SafeB 1 0x00000001 ∧ scaleB 1 0x00000001 = 0x00000001 ∧ ¬ SafeB 1 0x7f000000 ∧ scaleB 1 0x7f000000 = 0x7f000000 := by
  decide

theorem scaleB_norm {n : Int} {b : Nat} (h : NormB n b) : scaleB n b = ((b : Int) + 8388608 * n).toNat := by
  unfold scaleB; rw [if_pos h]

theorem zero_not_norm {n : Int} {b : Nat} (h : ZeroB b) : ¬ NormB n b := by
  unfold ZeroB at h; unfold NormB expF; omega

theorem scaleB_zero {n : Int} {b : Nat} (h : ZeroB b) : scaleB n b = b := by
  unfold scaleB; rw [if_neg (zero_not_norm h)]

theorem scaleB_0 (b : Nat) : scaleB 0 b = b := by
  unfold scaleB; split <;> omega

theorem scaleB_lt (n : Int) (b : Nat) (hb : b < 4294967296) : scaleB n b < 4294967296 := by
  unfold scaleB; split
  · rename_i h; unfold NormB expF at h; omega
  · exact hb

theorem zero_mant {b : Nat} (h : ZeroB b) : mantB b = 0 := by
  unfold ZeroB at h; unfold mantB; split <;> omega

theorem zero_fin {b : Nat} (h : ZeroB b) : FinB b := by
  unfold ZeroB at h; unfold FinB; omega

theorem norm_fin {n : Int} {b : Nat} (h : NormB n b) : FinB b := by
  unfold NormB expF at h; unfold FinB; omega

theorem safe_fin {n : Int} {b : Nat} (h : SafeB n b) : FinB b := h.elim zero_fin norm_fin

theorem norm_mant {n : Int} {b : Nat} (h : NormB n b) : 8388608 ≤ mantB b := by
  unfold NormB expF at h; unfold mantB; split <;> omega

theorem norm_not_zero {n : Int} {b : Nat} (h : NormB n b) : ¬ ZeroB b := fun hz => zero_not_norm hz h

/-- the fields of a scaled normal pattern -/
theorem scaleB_fields (n : Int) (b : Nat) (h : NormB n b) :
    FinB (scaleB n b) ∧ negB32 (scaleB n b) = negB32 b ∧ mantB (scaleB n b) = mantB b ∧
    expB (scaleB n b) = expB b + n := by
  rw [scaleB_norm h]
  unfold NormB expF at h
  obtain ⟨h1, h2, h3, h4⟩ := h
  obtain ⟨c, hc⟩ : ∃ c : Nat, (c : Int) = (b : Int) + 8388608 * n := ⟨((b : Int) + 8388608 * n).toNat, by omega⟩
  have hc' : ((b : Int) + 8388608 * n).toNat = c := by omega
  rw [hc']
  have e1 : c / 8388608 % 256 = (b / 8388608 % 256 + n).toNat := by omega
  have e2 : c % 8388608 = b % 8388608 := by omega
  have e3 : c / 2147483648 % 2 = b / 2147483648 % 2 := by omega
  refine ⟨?_, ?_, ?_, ?_⟩
  · unfold FinB; omega
  · unfold negB32; rw [e3]
  · unfold mantB; rw [e2]; split <;> split <;> omega
  · unfold expB; split <;> split <;> omega

/-- the scaled pattern is normal for the inverse scaling (and for any further scaling that keeps it in range) -/
theorem scaleB_norm_of (n k : Int) (b : Nat) (h : NormB n b) (hk : 2 ≤ (expF b : Int) + n + k ∧ (expF b : Int) + n + k ≤ 254) :
    NormB k (scaleB n b) := by
  rw [scaleB_norm h]
  unfold NormB expF at *
  omega

theorem scaleB_scaleB (n k : Int) (b : Nat) (h : NormB n b) (hk : NormB (n + k) b) :
    scaleB k (scaleB n b) = scaleB (n + k) b := by
  have h2 : NormB k (scaleB n b) := scaleB_norm_of n k b h (by unfold NormB at hk; omega)
  rw [scaleB_norm h2, scaleB_norm h, scaleB_norm hk]
  unfold NormB expF at h
  omega

/-! ## value -/

/-- **`scale2_value` on bit patterns**: the value of the scaled pattern is `2^n` times the value -/
theorem bval_scaleB (n : Int) (b : Nat) (h : SafeB n b) : bval (scaleB n b) = pow2 n * bval b := by
  rcases h with h | h
  · rw [scaleB_zero h]
    have : bval b = 0 := by simp [bval, sval, zero_mant h]
    rw [this]; simp
  · obtain ⟨_, f2, f3, f4⟩ := scaleB_fields n b h
    unfold bval sval
    rw [f2, f3, f4, pow2_add]
    ring

/-! ## rounding commutes with the scaling -/

theorem qOf_shift (m : Nat) (e fe n : Int) : qOf m (e + n) (fe + n) = qOf m e fe := by
  unfold qOf
  have h1 : (fe + n ≤ e + n) = (fe ≤ e) := by apply propext; omega
  have h2 : (e + n - (fe + n)) = e - fe := by omega
  have h3 : (fe + n - (e + n)) = fe - e := by omega
  rw [h2, h3]; simp only [h1]

/-- a clamped (subnormal-range) rounding yields at most the smallest normal mantissa -/
theorem qOf_clamped (m : Nat) (e : Int) (h : e + (bitLen m : Int) - 24 < -149) : qOf m e (-149) ≤ 8388608 := by
  have hL := bitLen_lt_pow m
  unfold qOf; split
  · rename_i hle
    have h1 : m * 2 ^ (e - -149).toNat < 2 ^ bitLen m * 2 ^ (e - -149).toNat :=
      (Nat.mul_lt_mul_right (Nat.two_pow_pos _)).2 hL
    rw [← Nat.pow_add] at h1
    have h2 : 2 ^ (bitLen m + (e - -149).toNat) ≤ 2 ^ 23 := Nat.pow_le_pow_right (by omega) (by omega)
    have c23 : (2:Nat)^23 = 8388608 := by decide
    omega
  · rename_i hgt
    have h2 : 2 ^ bitLen m ≤ 2 ^ (23 + (-149 - e).toNat) := Nat.pow_le_pow_right (by omega) (by omega)
    rw [Nat.pow_add] at h2
    have h3 : m / 2 ^ (-149 - e).toNat < 2 ^ 23 := (Nat.div_lt_iff_lt_mul (Nat.two_pow_pos _)).2 (by omega)
    have := rneShift_le m (-149 - e).toNat
    have c23 : (2:Nat)^23 = 8388608 := by decide
    omega

/-- **`roundMag` commutes with the scaling** when its result is normal before and after -/
theorem roundMag_shift (m : Nat) (e n : Int) (h : NormB n (roundMag .f32 m e)) :
    roundMag .f32 m (e + n) = scaleB n (roundMag .f32 m e) := by
  rw [scaleB_norm h]
  unfold NormB expF at h
  rw [roundMag_eq] at h ⊢
  rw [roundMag_eq]
  by_cases hc : e + (bitLen m : Int) - 24 < -149
  · exfalso
    have hfe : fe32 m e = -149 := by unfold fe32; rw [if_pos hc]
    have hq := qOf_clamped m e hc
    rw [hfe] at h
    generalize qOf m e (-149) = q at *
    unfold pk at h
    have z : ((-149 : Int) + 149).toNat = 0 := by decide
    rw [z] at h
    split at h <;> omega
  · have hfe : fe32 m e = e + bitLen m - 24 := by unfold fe32; rw [if_neg hc]
    have hq := qOf_le m e
    have hge := fe32_ge m e
    generalize hQ : qOf m e (fe32 m e) = q at *
    have hE : (pk (fe32 m e) q / 8388608 % 256 : Nat) ≤ (fe32 m e + 149).toNat + 2 := by
      unfold pk; split <;> omega
    have hfe' : fe32 m (e + n) = fe32 m e + n := by
      rw [hfe]; unfold fe32
      rw [if_neg (by omega)]; omega
    rw [hfe', qOf_shift, hQ]
    generalize fe32 m e = fe at *
    unfold pk at *
    split at h <;> split <;> omega

set_option maxRecDepth 100000 in
-- 12345678901 · 2^(−40) ≈ 0.0112 rounds to a normal number; so does its image under `· 2^(±60)`
example : NormB 60 (roundMag .f32 12345678901 (-40)) ∧ NormB (-60) (roundMag .f32 12345678901 (-40)) ∧
    roundMag .f32 12345678901 (-40 + 60) = roundMag .f32 12345678901 (-40) + 60 * 8388608 := by decide +kernel

theorem withSign_norm (n : Int) (neg : Bool) (mag : Nat) (hm : mag ≤ 2139095040) :
    (NormB n (withSign .f32 neg mag) ↔ NormB n mag) ∧
    scaleB n (withSign .f32 neg mag) = withSign .f32 neg (scaleB n mag) := by
  have hiff : NormB n (withSign .f32 neg mag) ↔ NormB n mag := by
    rw [withSign32]; unfold NormB expF; cases neg <;> (simp; try omega)
  refine ⟨hiff, ?_⟩
  by_cases h : NormB n mag
  · rw [scaleB_norm h, scaleB_norm (hiff.2 h), withSign32, withSign32]
    unfold NormB expF at h
    cases neg <;> (simp; try omega)
  · unfold scaleB; rw [if_neg h, if_neg (fun h' => h (hiff.1 h'))]

theorem withSign_zeroB (neg : Bool) : ZeroB (withSign .f32 neg 0) := by
  rw [withSign32]; unfold ZeroB; cases neg <;> simp

/-- **`roundPack` commutes with the scaling**: either nothing is rounded (`±0`), or the result is normal
    before and after -/
theorem roundPack_shift (neg : Bool) (m : Nat) (e n : Int) (st : Bool)
    (h : (m = 0 ∧ st = false) ∨ NormB n (roundPack .f32 neg m e st)) :
    roundPack .f32 neg m (e + n) st = scaleB n (roundPack .f32 neg m e st) := by
  unfold roundPack at h ⊢
  by_cases h0 : (m == 0 && !st) = true
  · rw [if_pos h0, if_pos h0, scaleB_zero (withSign_zeroB neg)]
  · rw [if_neg h0] at h
    rw [if_neg h0, if_neg h0]
    have hN : ¬ (m = 0 ∧ st = false) := by
      intro ⟨a, b⟩; apply h0; simp [a, b]
    rcases h with h | h
    · exact absurd h hN
    · cases st
      · simp only [Bool.false_eq_true, if_false] at h ⊢
        obtain ⟨i1, i2⟩ := withSign_norm n neg _ (roundMag_le_inf m e)
        rw [i2, roundMag_shift m e n (i1.1 h)]
      · simp only [if_true] at h ⊢
        obtain ⟨i1, i2⟩ := withSign_norm n neg _ (roundMag_le_inf (2 * m + 1) (e - 1))
        have he : e + n - 1 = e - 1 + n := by omega
        rw [i2, he, roundMag_shift (2 * m + 1) (e - 1) n (i1.1 h)]

theorem roundPack_zero (neg : Bool) (e : Int) : roundPack .f32 neg 0 e = withSign .f32 neg 0 := by
  simp [roundPack]

/-- a non-zero integer at an exponent `≥ -149` does not round to zero -/
theorem roundMag_pos (m : Nat) (e : Int) (hm : 0 < m) (he : -149 ≤ e) : 0 < roundMag .f32 m e := by
  rw [roundMag_eq]
  have hge := fe32_ge m e
  by_cases hfe : fe32 m e ≤ e
  · have : 0 < qOf m e (fe32 m e) := by
      unfold qOf; rw [if_pos hfe]; exact Nat.mul_pos hm (Nat.two_pow_pos _)
    unfold pk; split <;> omega
  · unfold pk; split <;> omega

/-! ## the fields of a safe operand after scaling -/

/-- what is needed about a safe operand: finite before and after, same sign and mantissa; either it is a zero
    (and unchanged) or the exponent moved by `n` -/
theorem safe_fields (n : Int) (b : Nat) (h : SafeB n b) :
    FinB b ∧ FinB (scaleB n b) ∧ negB32 (scaleB n b) = negB32 b ∧ mantB (scaleB n b) = mantB b ∧
    ((mantB b = 0 ∧ scaleB n b = b) ∨ (8388608 ≤ mantB b ∧ expB (scaleB n b) = expB b + n)) := by
  rcases h with h | h
  · rw [scaleB_zero h]
    exact ⟨zero_fin h, zero_fin h, rfl, rfl, Or.inl ⟨zero_mant h, rfl⟩⟩
  · obtain ⟨f1, f2, f3, f4⟩ := scaleB_fields n b h
    exact ⟨norm_fin h, f1, f2, f3, Or.inr ⟨norm_mant h, f4⟩⟩

/-! ## multiplication -/

theorem mul_fin (a b : Nat) (fa : FinB a) (fb : FinB b) :
    Num.mul .f32 a b = roundPack .f32 (negB32 a != negB32 b) (mantB a * mantB b) (expB a + expB b) := by
  unfold Num.mul; rw [unpack_fin a fa, unpack_fin b fb]

/-- **multiplication commutes with the scalings of its operands**: `(a·2^n)·(b·2^k) = (a·b)·2^(n+k)`, if the
    operands are safe and the product is a normal number before and after (or an operand is zero) -/
theorem mul_scaleB (n k : Int) (a b : Nat) (sa : SafeB n a) (sb : SafeB k b)
    (hr : ZeroB a ∨ ZeroB b ∨ NormB (n + k) (Num.mul .f32 a b)) :
    Num.mul .f32 (scaleB n a) (scaleB k b) = scaleB (n + k) (Num.mul .f32 a b) := by
  obtain ⟨fa, fa', sa', ma', ca⟩ := safe_fields n a sa
  obtain ⟨fb, fb', sb', mb', cb⟩ := safe_fields k b sb
  rw [mul_fin _ _ fa' fb', mul_fin _ _ fa fb, sa', sb', ma', mb'] at *
  rcases ca with ⟨ca, -⟩ | ⟨ca, ea⟩
  · rw [ca, Nat.zero_mul, roundPack_zero, roundPack_zero, scaleB_zero (withSign_zeroB _)]
  rcases cb with ⟨cb, -⟩ | ⟨cb, eb⟩
  · rw [cb, Nat.mul_zero, roundPack_zero, roundPack_zero, scaleB_zero (withSign_zeroB _)]
  have hN : NormB (n + k) (roundPack .f32 (negB32 a != negB32 b) (mantB a * mantB b) (expB a + expB b)) := by
    rcases hr with hr | hr | hr
    · have := zero_mant hr; omega
    · have := zero_mant hr; omega
    · exact hr
  have he : expB (scaleB n a) + expB (scaleB k b) = expB a + expB b + (n + k) := by omega
  rw [he]
  exact roundPack_shift _ _ _ _ false (Or.inr hN)

set_option maxRecDepth 100000 in
example : SafeB 3 0x3fc00000 ∧ SafeB (-1) 0xc0e80000 ∧ NormB (3 + -1) (Num.mul .f32 0x3fc00000 0xc0e80000) := by
  decide +kernel

/-! ## division -/

theorem div_fin (a b : Nat) (fa : FinB a) (fb : FinB b) (hb : mantB b ≠ 0) :
    Num.div .f32 a b =
      if mantB a = 0 then withSign .f32 (negB32 a != negB32 b) 0
      else roundPack .f32 (negB32 a != negB32 b)
        (mantB a * 2 ^ (24 + 3 + bitLen (mantB b) - bitLen (mantB a)) / mantB b)
        (expB a - expB b - ((24 + 3 + bitLen (mantB b) - bitLen (mantB a) : Nat) : Int))
        (mantB a * 2 ^ (24 + 3 + bitLen (mantB b) - bitLen (mantB a)) % mantB b != 0) := by
  unfold Num.div; rw [unpack_fin a fa, unpack_fin b fb]
  have h1 : (mantB b == 0) = false := by simp [hb]
  simp only [h1, Bool.false_eq_true, if_false, prec_f32, beq_iff_eq]

/-- **division commutes with the scalings of its operands**: `(a·2^n)/(b·2^k) = (a/b)·2^(n−k)`, if the dividend
    is safe, the divisor normal before and after, and the quotient a normal number before and after (or the
    dividend zero) -/
theorem div_scaleB (n k : Int) (a b : Nat) (sa : SafeB n a) (sb : NormB k b)
    (hr : ZeroB a ∨ NormB (n - k) (Num.div .f32 a b)) :
    Num.div .f32 (scaleB n a) (scaleB k b) = scaleB (n - k) (Num.div .f32 a b) := by
  obtain ⟨fa, fa', sa', ma', ca⟩ := safe_fields n a sa
  obtain ⟨fb', sb', mb', eb⟩ := scaleB_fields k b sb
  have fb := norm_fin sb
  have hmb := norm_mant sb
  rw [div_fin _ _ fa' fb' (by omega), div_fin _ _ fa fb (by omega), sa', sb', ma', mb'] at *
  rcases ca with ⟨ca, -⟩ | ⟨ca, ea⟩
  · rw [if_pos ca, if_pos ca, scaleB_zero (withSign_zeroB _)]
  have hne : ¬ mantB a = 0 := by omega
  rw [if_neg hne] at hr ⊢
  rw [if_neg hne]
  have hN := hr.resolve_left (fun hz => hne (zero_mant hz))
  generalize 24 + 3 + bitLen (mantB b) - bitLen (mantB a) = kk at *
  have he : expB (scaleB n a) - expB (scaleB k b) - (kk : Int) = expB a - expB b - (kk : Int) + (n - k) := by omega
  rw [he]
  exact roundPack_shift _ _ _ _ _ (Or.inr hN)

/-! ## addition -/

/-- the finite–finite branch of `Num.add` -/
def addFin (s : Bool) (m : Nat) (e : Int) (t : Bool) (n : Nat) (g : Int) : Nat :=
  let e0 := if e ≤ g then e else g
  let x : Int := (m * 2 ^ (e - e0).toNat : Nat)
  let y : Int := (n * 2 ^ (g - e0).toNat : Nat)
  let x := if s then -x else x
  let y := if t then -y else y
  let z := x + y
  if z == 0 then withSign .f32 (s && t) 0 else roundPack .f32 (z < 0) z.natAbs e0

theorem add_fin (a b : Nat) (fa : FinB a) (fb : FinB b) :
    Num.add .f32 a b = addFin (negB32 a) (mantB a) (expB a) (negB32 b) (mantB b) (expB b) := by
  unfold Num.add; rw [unpack_fin a fa, unpack_fin b fb]; rfl

theorem addFin_comm (s : Bool) (m : Nat) (e : Int) (t : Bool) (n : Nat) (g : Int) :
    addFin s m e t n g = addFin t n g s m e := by
  have he : (if e ≤ g then e else g) = (if g ≤ e then g else e) := by split <;> split <;> omega
  unfold addFin
  simp only [he]
  rw [Int.add_comm, Bool.and_comm]

/-- with a zero first operand the result does not depend on the exponent the zero carries -/
theorem addFin_zero_left (s : Bool) (e : Int) (t : Bool) (n : Nat) (g : Int) :
    addFin s 0 e t n g = if n = 0 then withSign .f32 (s && t) 0 else roundPack .f32 t n g := by
  unfold addFin
  have hx : (if s = true then -(((0 * 2 ^ (e - (if e ≤ g then e else g)).toNat : Nat)) : Int)
      else ((0 * 2 ^ (e - (if e ≤ g then e else g)).toNat : Nat) : Int)) = 0 := by
    simp
  simp only [hx, Int.zero_add]
  have he0 : (if e ≤ g then e else g) ≤ g := by split <;> omega
  generalize (if e ≤ g then e else g) = e0 at *
  by_cases hn : n = 0
  · subst hn; simp
  · rw [if_neg hn]
    have hp : 0 < n * 2 ^ (g - e0).toNat := Nat.mul_pos (by omega) (Nat.two_pow_pos _)
    have hsc := roundMag_scale n (g - e0).toNat g (by omega)
    have hee : g - ((g - e0).toNat : Int) = e0 := by omega
    rw [hee] at hsc
    generalize n * 2 ^ (g - e0).toNat = N at *
    rw [roundPack_pos _ _ _ _ hn, ← hsc]
    cases t
    · have h1 : ((if false = true then -(N : Int) else (N : Int)) == 0) = false := by
        simp; omega
      have h2 : decide ((if false = true then -(N : Int) else (N : Int)) < 0) = false := by
        simp
      have h3 : (if false = true then -(N : Int) else (N : Int)).natAbs = N := by simp
      rw [h1, h2, h3]
      simp only [Bool.false_eq_true, if_false]
      exact roundPack_pos _ _ _ _ (by omega)
    · have h1 : ((if true = true then -(N : Int) else (N : Int)) == 0) = false := by
        simp; omega
      have h2 : decide ((if true = true then -(N : Int) else (N : Int)) < 0) = true := by
        simp; omega
      have h3 : (if true = true then -(N : Int) else (N : Int)).natAbs = N := by simp
      rw [h1, h2, h3]
      simp only [Bool.false_eq_true, if_false]
      exact roundPack_pos _ _ _ _ (by omega)

theorem addFin_exp_left (s : Bool) (e e' : Int) (t : Bool) (n : Nat) (g : Int) :
    addFin s 0 e t n g = addFin s 0 e' t n g := by
  rw [addFin_zero_left, addFin_zero_left]

theorem addFin_exp_right (s : Bool) (m : Nat) (e : Int) (t : Bool) (g g' : Int) :
    addFin s m e t 0 g = addFin s m e t 0 g' := by
  rw [addFin_comm, addFin_exp_left t g g', addFin_comm]

/-- **the finite–finite branch of addition commutes with a common shift of both exponents**, if the result is
    `±0` or normal before and after (a non-zero exact sum at exponents `≥ -149` never rounds to zero) -/
theorem addFin_shift (s : Bool) (m : Nat) (e : Int) (t : Bool) (n : Nat) (g k : Int) (he : -149 ≤ e) (hg : -149 ≤ g)
    (hr : SafeB k (addFin s m e t n g)) :
    addFin s m (e + k) t n (g + k) = scaleB k (addFin s m e t n g) := by
  have he0 : (if e + k ≤ g + k then e + k else g + k) = (if e ≤ g then e else g) + k := by
    split <;> split <;> omega
  unfold addFin at hr ⊢
  simp only [he0]
  dsimp only at hr
  have h1 : e + k - ((if e ≤ g then e else g) + k) = e - (if e ≤ g then e else g) := by omega
  have h2 : g + k - ((if e ≤ g then e else g) + k) = g - (if e ≤ g then e else g) := by omega
  rw [h1, h2]
  have hge : -149 ≤ (if e ≤ g then e else g) := by split <;> omega
  generalize (if e ≤ g then e else g) = e0 at *
  generalize ((if s = true then -((m * 2 ^ (e - e0).toNat : Nat) : Int) else ((m * 2 ^ (e - e0).toNat : Nat) : Int)) +
    (if t = true then -((n * 2 ^ (g - e0).toNat : Nat) : Int) else ((n * 2 ^ (g - e0).toNat : Nat) : Int))) = z at *
  by_cases hz : (z == 0) = true
  · rw [if_pos hz, if_pos hz, scaleB_zero (withSign_zeroB _)]
  · rw [if_neg hz] at hr
    rw [if_neg hz, if_neg hz]
    have hz' : z ≠ 0 := by simpa using hz
    apply roundPack_shift; right
    rcases hr with hr | hr
    · exfalso
      rw [roundPack_pos _ _ _ _ (by omega), withSign32] at hr
      have h3 := roundMag_pos z.natAbs e0 (by omega) hge
      have h4 := roundMag_le_inf z.natAbs e0
      unfold ZeroB at hr
      split at hr <;> omega
    · exact hr

/-- **addition commutes with a common scaling of its operands**: `a·2^n + b·2^n = (a+b)·2^n`, if operands and
    result are safe (`±0`, or normal before and after) -/
theorem add_scaleB (n : Int) (a b : Nat) (sa : SafeB n a) (sb : SafeB n b) (hr : SafeB n (Num.add .f32 a b)) :
    Num.add .f32 (scaleB n a) (scaleB n b) = scaleB n (Num.add .f32 a b) := by
  obtain ⟨fa, fa', sa', ma', ca⟩ := safe_fields n a sa
  obtain ⟨fb, fb', sb', mb', cb⟩ := safe_fields n b sb
  rw [add_fin _ _ fa fb] at hr
  rw [add_fin _ _ fa' fb', add_fin _ _ fa fb, sa', sb', ma', mb']
  have e1 : addFin (negB32 a) (mantB a) (expB (scaleB n a)) (negB32 b) (mantB b) (expB (scaleB n b)) =
      addFin (negB32 a) (mantB a) (expB a + n) (negB32 b) (mantB b) (expB b + n) := by
    rcases ca with ⟨ca, -⟩ | ⟨-, ea⟩
    · rw [ca, addFin_exp_left _ _ (expB a + n)]
      rcases cb with ⟨cb, -⟩ | ⟨-, eb⟩
      · rw [cb, addFin_exp_right _ _ _ _ _ (expB b + n)]
      · rw [eb]
    · rw [ea]
      rcases cb with ⟨cb, -⟩ | ⟨-, eb⟩
      · rw [cb, addFin_exp_right _ _ _ _ _ (expB b + n)]
      · rw [eb]
  rw [e1]
  exact addFin_shift _ _ _ _ _ _ n (expB_ge a) (expB_ge b) hr

set_option maxRecDepth 100000 in
-- 1.5 + (−7.25) = −5.75; 32 + (−32) = +0 (exact cancellation)
example : SafeB 6 0x3fc00000 ∧ SafeB 6 0xc0e80000 ∧ SafeB 6 (Num.add .f32 0x3fc00000 0xc0e80000) ∧
    SafeB (-3) (Num.add .f32 0x42000000 0xc2000000) := by decide +kernel

/-! ## negation, subtraction -/

theorem neg_normB (n : Int) (b : Nat) : NormB n (Num.neg .f32 b) ↔ NormB n b := by
  unfold NormB expF Num.neg; rw [signBit_f32]; split <;> omega

theorem neg_zeroB (b : Nat) : ZeroB (Num.neg .f32 b) ↔ ZeroB b := by
  unfold ZeroB Num.neg; rw [signBit_f32]; split <;> omega

theorem neg_safeB (n : Int) (b : Nat) : SafeB n (Num.neg .f32 b) ↔ SafeB n b := by
  unfold SafeB; rw [neg_normB, neg_zeroB]

/-- **negation commutes with the scaling** (every pattern) -/
theorem neg_scaleB (n : Int) (b : Nat) : Num.neg .f32 (scaleB n b) = scaleB n (Num.neg .f32 b) := by
  by_cases h : NormB n b
  · rw [scaleB_norm h, scaleB_norm ((neg_normB n b).2 h)]
    unfold NormB expF at h
    unfold Num.neg; rw [signBit_f32]
    split <;> split <;> omega
  · unfold scaleB; rw [if_neg h, if_neg (fun h' => h ((neg_normB n b).1 h'))]

/-- **subtraction commutes with a common scaling of its operands** -/
theorem sub_scaleB (n : Int) (a b : Nat) (sa : SafeB n a) (sb : SafeB n b)
    (hr : SafeB n (Num.sub .f32 a b)) :
    Num.sub .f32 (scaleB n a) (scaleB n b) = scaleB n (Num.sub .f32 a b) := by
  obtain ⟨fa, fa', -⟩ := safe_fields n a sa
  obtain ⟨fb, fb', -⟩ := safe_fields n b sb
  rw [FloatSpecial32.sub_eq_add_neg _ _ (FinB_NNB _ fa) (FinB_NNB _ fb)] at hr ⊢
  rw [FloatSpecial32.sub_eq_add_neg _ _ (FinB_NNB _ fa') (FinB_NNB _ fb'), neg_scaleB]
  exact add_scaleB n a _ sa ((neg_safeB n b).2 sb) hr

/-! ## comparisons -/

theorem key_scaleB (n : Int) (a b : Nat) (ha : a < 4294967296) (hb : b < 4294967296)
    (sa : SafeB n a) (sb : SafeB n b) :
    (key (scaleB n a) < key (scaleB n b) ↔ key a < key b) ∧ (key (scaleB n a) ≤ key (scaleB n b) ↔ key a ≤ key b) := by
  rcases sa with sa | sa <;> rcases sb with sb | sb
  · rw [scaleB_zero sa, scaleB_zero sb]; exact ⟨Iff.rfl, Iff.rfl⟩
  · rw [scaleB_zero sa, scaleB_norm sb]
    unfold ZeroB at sa; unfold NormB expF at sb; unfold key
    constructor <;> (split <;> split <;> split <;> omega)
  · rw [scaleB_norm sa, scaleB_zero sb]
    unfold ZeroB at sb; unfold NormB expF at sa; unfold key
    constructor <;> (split <;> split <;> split <;> omega)
  · rw [scaleB_norm sa, scaleB_norm sb]
    unfold NormB expF at sa sb; unfold key
    constructor <;> (split <;> split <;> split <;> split <;> omega)

theorem safe_NNB' {n : Int} {b : Nat} (h : SafeB n b) : NNB (scaleB n b) :=
  FinB_NNB _ (safe_fields n b h).2.1

/-- **`<` is invariant under a common scaling** -/
theorem lt_scaleB (n : Int) (a b : Nat) (ha : a < 4294967296) (hb : b < 4294967296) (sa : SafeB n a) (sb : SafeB n b) :
    Num.lt .f32 (scaleB n a) (scaleB n b) = Num.lt .f32 a b := by
  rw [Bool.eq_iff_iff, lt_iff_key _ _ (safe_NNB' sa) (safe_NNB' sb),
    lt_iff_key _ _ (FinB_NNB _ (safe_fin sa)) (FinB_NNB _ (safe_fin sb))]
  exact (key_scaleB n a b ha hb sa sb).1

/-- **`≤` is invariant under a common scaling** -/
theorem le_scaleB (n : Int) (a b : Nat) (ha : a < 4294967296) (hb : b < 4294967296) (sa : SafeB n a) (sb : SafeB n b) :
    Num.le .f32 (scaleB n a) (scaleB n b) = Num.le .f32 a b := by
  rw [Bool.eq_iff_iff, le_iff_key _ _ (safe_NNB' sa) (safe_NNB' sb),
    le_iff_key _ _ (FinB_NNB _ (safe_fin sa)) (FinB_NNB _ (safe_fin sb))]
  exact (key_scaleB n a b ha hb sa sb).2

/-! ## multiplication by one (for `scale2 n a = a · 2^n` computed by `F32.mul`) -/

/-- a finite pattern is its sign and magnitude fields packed -/
theorem pack_fields (a : Nat) (ha : a < 4294967296) (fa : FinB a) :
    withSign .f32 (negB32 a) (8388608 * (expB a + 149).toNat + mantB a) = a := by
  obtain ⟨hm1, _⟩ := magnitude_fin a fa
  rw [withSign32, ← hm1]
  exact (negB32_eq a ha).symm

/-- `a · 1 = a` for `±0` and normal numbers -/
theorem mul_one_B (a : Nat) (ha : a < 4294967296) (h : SafeB 0 a) : Num.mul .f32 a 0x3f800000 = a := by
  have fa := safe_fin h
  have f1 : FinB 0x3f800000 := by decide
  have s1 : negB32 0x3f800000 = false := by decide
  have m1 : mantB 0x3f800000 = 2 ^ 23 := by decide
  have e1 : expB 0x3f800000 = -23 := by decide
  rw [mul_fin _ _ fa f1, s1, m1, e1]
  have hs : (negB32 a != false) = negB32 a := by cases negB32 a <;> rfl
  rw [hs]
  have hp := pack_fields a ha fa
  rcases h with h | h
  · have hm := zero_mant h
    have he : expB a = -149 := by have := mantB_norm a; omega
    rw [hm, he] at hp
    rw [hm, Nat.zero_mul, roundPack_zero]
    simpa using hp
  · have hm := norm_mant h
    have hlt := mantB_lt a
    obtain ⟨_, hm2⟩ := magnitude_fin a fa
    have hsc := roundMag_scale (mantB a) 23 (expB a) (by omega)
    have hee : expB a - ((23 : Nat) : Int) = expB a + -23 := by omega
    rw [hee] at hsc
    rw [roundPack_pos _ _ _ _ (by have := Nat.two_pow_pos 23; exact Nat.ne_of_gt (Nat.mul_pos (by omega) this)), hsc,
      roundMag_exact _ _ (by omega) hlt (expB_ge a) (Or.inl hm)]
    unfold pk
    rw [if_neg (by have := (magnitude_fin a fa).1; omega)]
    exact hp

end Ivg.Pow2F32
