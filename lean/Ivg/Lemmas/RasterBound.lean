import Ivg.Lemmas.ArcCount
import Ivg.Lemmas.RendererVM
/-!
# Rasteriser activity per Destination call (C02: "at most four curve segments per drawing operation")

For the float instance with the real arc conversion `arcF32`: every call makes at most four calls on the
rasteriser (an arc: at most four cubics; `StartPath`: Reset + MoveTo; close-and-move / end of path: two;
any other drawing call: one; styling calls: none).
-/
set_option linter.constructorNameAsVariable false
namespace Ivg.RasterBound
open Ivg Num Ren

theorem step_ops_le_four (z : Renderer F32 F64) (posInf : F32) (c : Call F32) :
    (z.step arcF32 posInf c).2.length ≤ 4 := by
  cases c with
  | reset vb pal => simp [Renderer.step]
  | setCSel v => simp [Renderer.step]
  | setNSel v => simp [Renderer.step]
  | setCReg adj incr col => simp [Renderer.step]
  | setNReg adj incr f => simp [Renderer.step]
  | setLOD a b => simp [Renderer.step]
  | startPath adj x y =>
    simp only [Renderer.step]
    rw [Ivg.Lemmas.RendererVM.startPath_eq]
    split <;> simp
  | closeEnd =>
    simp only [Renderer.step]
    split
    · simp
    · simp [Renderer.closePath]
  | d1 v x =>
    cases v <;> simp only [Renderer.step] <;> split <;> simp [Renderer.lineTo]
  | d2 v x y =>
    cases v <;> simp only [Renderer.step] <;> split <;>
      simp [Renderer.lineTo, Renderer.quadTo, Renderer.closePath, Renderer.moveTo, Renderer.implicitSmoothPoint]
  | d4 v a b x y =>
    cases v <;> simp only [Renderer.step] <;> split <;>
      simp [Renderer.quadTo, Renderer.cubeTo, Renderer.implicitSmoothPoint]
  | d6 v a b c d x y =>
    cases v <;> simp only [Renderer.step] <;> split <;> simp [Renderer.cubeTo]
  | arc rel rx ry rot la sw x y =>
    simp only [Renderer.step]
    split
    · simp
    · exact ArcCount.arc_at_most_four _ rx ry rot la sw _ _

theorem run_ops_le (posInf : F32) (cs : List (Call F32)) : ∀ (z : Renderer F32 F64),
    (z.run arcF32 posInf cs).2.length ≤ 4 * cs.length := by
  induction cs with
  | nil => intro z; simp [Renderer.run]
  | cons c cs ih =>
    intro z
    simp only [Renderer.run, List.length_append, List.length_cons]
    have h1 := step_ops_le_four z posInf c
    have h2 := ih (z.step arcF32 posInf c).1
    omega

end Ivg.RasterBound
