import Ivg.Lemmas.Codec
/-!
# Colour codec lemmas (color.go, encode/buffer.go ↔ decode/buffer.go)

* every form `Color.encodeN` produces decodes back to the same colour (`decodeColorN_encodeN`);
* `cregForm` (the form selection of `SetCReg`) always finds a form for a constructible colour and
  the decoder selected by the opcode returns the colour;
* the 1-byte and 2-byte tables;
* the blend formula, its end points, monotonicity and preservation of premultiplication.
-/
namespace Ivg.ColorCodec
open Ivg Num

/-! ## exhaustive checks over bytes (the `∀ x : UInt8` instance is `Codec.decForallUInt8`) -/

open Codec in
theorem forall_lt16 {p : UInt8 → Prop} (h : ∀ i : Fin 16, p (UInt8.ofNat i.val)) :
    ∀ x : UInt8, x < 16 → p x := by
  intro x hx
  have hx' : x.toNat < 16 := by simpa [UInt8.lt_iff_toNat_lt] using hx
  have := h ⟨x.toNat, hx'⟩
  simpa using this

/-! ## B.1 each form decodes to the colour it was made from -/

set_option maxRecDepth 100000 in
theorem is1u_cases (u : UInt8) : is1u u = true → u = 0 ∨ u = 0x40 ∨ u = 0x80 ∨ u = 0xc0 ∨ u = 0xff := by
  revert u; decide +kernel

/-- the five 1-byte channel values -/
def chan5 (i : Fin 5) : UInt8 := dc1Table i.val

theorem is1u_chan5 (u : UInt8) (h : is1u u = true) : ∃ i : Fin 5, u = chan5 i := by
  rcases is1u_cases u h with rfl | rfl | rfl | rfl | rfl
  · exact ⟨0, rfl⟩
  · exact ⟨1, rfl⟩
  · exact ⟨2, rfl⟩
  · exact ⟨3, rfl⟩
  · exact ⟨4, rfl⟩

set_option maxRecDepth 100000 in
theorem decodeColor1_opaque (i j k : Fin 5) :
    Ivg.decodeColor1 (25 * (chan5 i / 0x3f) + 5 * (chan5 j / 0x3f) + chan5 k / 0x3f) =
      Color.rgbaColor ⟨chan5 i, chan5 j, chan5 k, 0xff⟩ := by
  revert i j k; decide +kernel

set_option maxRecDepth 100000 in
theorem decodeColor1_palette (r : UInt8) : r < 64 →
    Ivg.decodeColor1 (r ||| 0x80) = ⟨.paletteIndex, ⟨r, 0, 0, 0⟩⟩ := by
  revert r; decide +kernel

set_option maxRecDepth 100000 in
theorem decodeColor1_creg (r : UInt8) : r < 64 →
    Ivg.decodeColor1 (r ||| 0xc0) = ⟨.cReg, ⟨r, 0, 0, 0⟩⟩ := by
  revert r; decide +kernel

theorem decodeColor1_encode1 (c : Color) (hwf : c.WF) (x : UInt8) (h : c.encode1 = some x) :
    Ivg.decodeColor1 x = c := by
  obtain ⟨typ, ⟨r, g, b, a⟩⟩ := c
  cases typ
  · -- rgba
    simp only [Color.encode1] at h
    split at h
    · split at h
      · rename_i hd; simp at h hd; subst h; obtain ⟨rfl, rfl, rfl, rfl⟩ := hd; rfl
      · split at h
        · rename_i hd; simp at h hd; subst h; obtain ⟨rfl, rfl, rfl, rfl⟩ := hd; rfl
        · split at h
          · rename_i hd; simp at h hd; subst h; obtain ⟨rfl, rfl, rfl, rfl⟩ := hd; rfl
          · contradiction
    · rename_i ha
      simp only [ne_eq, Decidable.not_not] at ha
      subst ha
      split at h
      · rename_i h1
        simp only [RGBA.is1, Bool.and_eq_true] at h1
        obtain ⟨i, rfl⟩ := is1u_chan5 r h1.1.1.1
        obtain ⟨j, rfl⟩ := is1u_chan5 g h1.1.1.2
        obtain ⟨k, rfl⟩ := is1u_chan5 b h1.1.2
        simp only [Option.some.injEq] at h
        subst h
        exact decodeColor1_opaque i j k
      · contradiction
  · -- paletteIndex
    simp only [Color.WF] at hwf
    obtain ⟨hr, rfl, rfl, rfl⟩ := hwf
    simp only [Color.encode1, Option.some.injEq] at h
    subst h
    exact decodeColor1_palette r hr
  · -- cReg
    simp only [Color.WF] at hwf
    obtain ⟨hr, rfl, rfl, rfl⟩ := hwf
    simp only [Color.encode1, Option.some.injEq] at h
    subst h
    exact decodeColor1_creg r hr
  · -- blend
    simp [Color.encode1] at h

set_option maxRecDepth 100000 in
theorem is2u_cases (u : UInt8) : is2u u = true → u / 0x11 < 16 ∧ 0x11 * (u / 0x11) = u := by
  revert u; decide +kernel

set_option maxRecDepth 100000 in
theorem nibbles_aux : ∀ i j : Fin 16,
    ((UInt8.ofNat i.val <<< 4 ||| UInt8.ofNat j.val) >>> 4 = UInt8.ofNat i.val ∧
     (UInt8.ofNat i.val <<< 4 ||| UInt8.ofNat j.val) &&& 0x0f = UInt8.ofNat j.val) := by
  decide +kernel

theorem nibbles (m n : UInt8) (hm : m < 16) (hn : n < 16) :
    (m <<< 4 ||| n) >>> 4 = m ∧ (m <<< 4 ||| n) &&& 0x0f = n := by
  revert m
  apply forall_lt16
  intro i
  revert n
  apply forall_lt16
  intro j
  exact nibbles_aux i j

theorem decodeColor2_encode2 (c : Color) (x y : UInt8) (h : c.encode2 = some (x, y)) (rest : Bytes) :
    Dec.decodeColor2 (x :: y :: rest) = some (c, rest) := by
  obtain ⟨typ, ⟨r, g, b, a⟩⟩ := c
  simp only [Color.encode2] at h
  split at h
  · rename_i hc
    obtain ⟨rfl, h2⟩ := hc
    simp only [RGBA.is2, Bool.and_eq_true] at h2
    obtain ⟨⟨⟨hr, hg⟩, hb⟩, ha⟩ := h2
    have hr := is2u_cases r hr
    have hg := is2u_cases g hg
    have hb := is2u_cases b hb
    have ha := is2u_cases a ha
    simp only [Option.some.injEq, Prod.mk.injEq] at h
    obtain ⟨rfl, rfl⟩ := h
    have n1 := nibbles _ _ hr.1 hg.1
    have n2 := nibbles _ _ hb.1 ha.1
    simp only [Dec.decodeColor2, n1.1, n1.2, n2.1, n2.2, hr.2, hg.2, hb.2, ha.2, Color.rgbaColor]
  · contradiction

theorem decodeColor3Direct_encode3Direct (c : Color) (x y z : UInt8)
    (h : c.encode3Direct = some (x, y, z)) (rest : Bytes) :
    Dec.decodeColor3Direct (x :: y :: z :: rest) = some (c, rest) := by
  obtain ⟨typ, ⟨r, g, b, a⟩⟩ := c
  simp only [Color.encode3Direct] at h
  split at h
  · rename_i hc
    obtain ⟨rfl, h3⟩ := hc
    simp only [RGBA.is3, beq_iff_eq] at h3
    subst h3
    simp only [Option.some.injEq, Prod.mk.injEq] at h
    obtain ⟨rfl, rfl, rfl⟩ := h
    rfl
  · contradiction

theorem decodeColor4_encode4 (c : Color) (x y z w : UInt8)
    (h : c.encode4 = some (x, y, z, w)) (rest : Bytes) :
    Dec.decodeColor4 (x :: y :: z :: w :: rest) = some (c, rest) := by
  obtain ⟨typ, ⟨r, g, b, a⟩⟩ := c
  simp only [Color.encode4] at h
  split at h
  · rename_i hc
    have hc : typ = _ := hc
    subst hc
    simp only [Option.some.injEq, Prod.mk.injEq] at h
    obtain ⟨rfl, rfl, rfl, rfl⟩ := h
    rfl
  · contradiction

theorem decodeColor3Indirect_encode3Indirect (c : Color) (hwf : c.WF) (x y z : UInt8)
    (h : c.encode3Indirect = some (x, y, z)) (rest : Bytes) :
    Dec.decodeColor3Indirect (x :: y :: z :: rest) = some (c, rest) := by
  obtain ⟨typ, ⟨r, g, b, a⟩⟩ := c
  simp only [Color.encode3Indirect] at h
  split at h
  · rename_i hc
    have hc : typ = _ := hc
    subst hc
    simp only [Color.WF] at hwf
    subst hwf
    simp only [Option.some.injEq, Prod.mk.injEq] at h
    obtain ⟨rfl, rfl, rfl⟩ := h
    rfl
  · contradiction

/-- the `Option (Color × Bytes)` form of the 1-byte round trip -/
theorem decodeColor1_encode1' (c : Color) (hwf : c.WF) (x : UInt8) (h : c.encode1 = some x)
    (rest : Bytes) : Dec.decodeColor1 (x :: rest) = some (c, rest) := by
  simp only [Dec.decodeColor1, decodeColor1_encode1 c hwf x h]

/-! ## B.2 `cregForm` -/

/-- the colour decoder selected by a SetCReg opcode base, as in `Dec.decodeStyling` -/
def decoderFor (base : UInt8) : Bytes → Option (Color × Bytes) :=
  match ((base - 0x80) >>> 3).toNat with
  | 0 => Dec.decodeColor1
  | 1 => Dec.decodeColor2
  | 2 => Dec.decodeColor3Direct
  | 3 => Dec.decodeColor4
  | _ => Dec.decodeColor3Indirect

theorem decoderFor_80 : decoderFor 0x80 = Dec.decodeColor1 := by simp [decoderFor]
theorem decoderFor_88 : decoderFor 0x88 = Dec.decodeColor2 := by simp [decoderFor]
theorem decoderFor_90 : decoderFor 0x90 = Dec.decodeColor3Direct := by simp [decoderFor]
theorem decoderFor_98 : decoderFor 0x98 = Dec.decodeColor4 := by simp [decoderFor]
theorem decoderFor_a0 : decoderFor 0xa0 = Dec.decodeColor3Indirect := by simp [decoderFor]

/-- the five possible outcomes of `cregForm`, or the unreachable sixth -/
theorem cregForm_cases (c : Color) :
    (∃ x, c.encode1 = some x ∧ Enc.cregForm c = (0x80, [x])) ∨
    (∃ x y, c.encode2 = some (x, y) ∧ Enc.cregForm c = (0x88, [x, y])) ∨
    (∃ x y z, c.encode3Direct = some (x, y, z) ∧ Enc.cregForm c = (0x90, [x, y, z])) ∨
    (∃ x y z w, c.encode4 = some (x, y, z, w) ∧ Enc.cregForm c = (0x98, [x, y, z, w])) ∨
    (∃ x y z, c.encode3Indirect = some (x, y, z) ∧ Enc.cregForm c = (0xa0, [x, y, z])) ∨
    (c.encode4 = none ∧ c.encode3Indirect = none ∧ c.encode1 = none ∧ Enc.cregForm c = (0xff, [])) := by
  unfold Enc.cregForm
  cases h1 : c.encode1 with
  | some x => exact Or.inl ⟨x, rfl, rfl⟩
  | none =>
  cases h2 : c.encode2 with
  | some p => obtain ⟨x, y⟩ := p; exact Or.inr (Or.inl ⟨x, y, rfl, rfl⟩)
  | none =>
  cases h3 : c.encode3Direct with
  | some p => obtain ⟨x, y, z⟩ := p; exact Or.inr (Or.inr (Or.inl ⟨x, y, z, rfl, rfl⟩))
  | none =>
  cases h4 : c.encode4 with
  | some p => obtain ⟨x, y, z, w⟩ := p; exact Or.inr (Or.inr (Or.inr (Or.inl ⟨x, y, z, w, rfl, rfl⟩)))
  | none =>
  cases h5 : c.encode3Indirect with
  | some p =>
    obtain ⟨x, y, z⟩ := p; exact Or.inr (Or.inr (Or.inr (Or.inr (Or.inl ⟨x, y, z, rfl, rfl⟩))))
  | none => exact Or.inr (Or.inr (Or.inr (Or.inr (Or.inr ⟨rfl, rfl, rfl, rfl⟩))))

/-- every colour has at least one encodable form (WF is not even needed for that) -/
theorem encode_some (c : Color) :
    c.encode4.isSome ∨ c.encode3Indirect.isSome ∨ c.encode1.isSome := by
  obtain ⟨typ, d⟩ := c
  cases typ <;> simp [Color.encode4, Color.encode3Indirect, Color.encode1]

theorem cregForm_total (c : Color) : (Enc.cregForm c).1 ≠ 0xff := by
  rcases cregForm_cases c with ⟨_, _, h⟩ | ⟨_, _, _, h⟩ | ⟨_, _, _, _, h⟩ | ⟨_, _, _, _, _, h⟩ |
      ⟨_, _, _, _, h⟩ | ⟨h4, h5, h1, _⟩
  · rw [h]; simp
  · rw [h]; simp
  · rw [h]; simp
  · rw [h]; simp
  · rw [h]; simp
  · have := encode_some c
    simp [h4, h5, h1] at this

theorem cregForm_base (c : Color) :
    (Enc.cregForm c).1 = 0x80 ∨ (Enc.cregForm c).1 = 0x88 ∨ (Enc.cregForm c).1 = 0x90 ∨
    (Enc.cregForm c).1 = 0x98 ∨ (Enc.cregForm c).1 = 0xa0 := by
  rcases cregForm_cases c with ⟨_, _, h⟩ | ⟨_, _, _, h⟩ | ⟨_, _, _, _, h⟩ | ⟨_, _, _, _, _, h⟩ |
      ⟨_, _, _, _, h⟩ | ⟨h4, h5, h1, _⟩
  · rw [h]; simp
  · rw [h]; simp
  · rw [h]; simp
  · rw [h]; simp
  · rw [h]; simp
  · have := encode_some c
    simp [h4, h5, h1] at this

theorem cregForm_decodes (c : Color) (hwf : c.WF) (rest : Bytes) :
    decoderFor (Enc.cregForm c).1 ((Enc.cregForm c).2 ++ rest) = some (c, rest) := by
  rcases cregForm_cases c with ⟨x, he, h⟩ | ⟨x, y, he, h⟩ | ⟨x, y, z, he, h⟩ | ⟨x, y, z, w, he, h⟩ |
      ⟨x, y, z, he, h⟩ | ⟨h4, h5, h1, _⟩
  · rw [h, decoderFor_80]; exact decodeColor1_encode1' c hwf x he rest
  · rw [h, decoderFor_88]; exact decodeColor2_encode2 c x y he rest
  · rw [h, decoderFor_90]; exact decodeColor3Direct_encode3Direct c x y z he rest
  · rw [h, decoderFor_98]; exact decodeColor4_encode4 c x y z w he rest
  · rw [h, decoderFor_a0]; exact decodeColor3Indirect_encode3Indirect c hwf x y z he rest
  · have := encode_some c
    simp [h4, h5, h1] at this

theorem cregForm_length (c : Color) : (Enc.cregForm c).2.length ≤ 4 := by
  rcases cregForm_cases c with ⟨_, _, h⟩ | ⟨_, _, _, h⟩ | ⟨_, _, _, _, h⟩ | ⟨_, _, _, _, _, h⟩ |
      ⟨_, _, _, _, h⟩ | ⟨_, _, _, h⟩ <;> rw [h] <;> simp

/-! ## B.3 the tables, for every byte pattern -/

set_option maxRecDepth 100000 in
/-- every 1-byte colour is a constructible colour -/
theorem decodeColor1_WF : ∀ x : UInt8, (Ivg.decodeColor1 x).WF := by
  decide +kernel

/-- the spec's channel table for 1-byte colours -/
def chanTable : List UInt8 := [0x00, 0x40, 0x80, 0xc0, 0xff]

set_option maxRecDepth 100000 in
/-- `x < 125`: opaque colour, channels are the base-5 digits of `x` (red most significant)
    looked up in `{00, 40, 80, c0, ff}` -/
theorem decodeColor1_lt125 : ∀ x : UInt8, x < 125 →
    Ivg.decodeColor1 x = Color.rgbaColor
      ⟨chanTable[x.toNat / 25]!, chanTable[x.toNat / 5 % 5]!, chanTable[x.toNat % 5]!, 0xff⟩ := by
  decide +kernel

theorem decodeColor1_125 : Ivg.decodeColor1 125 = Color.rgbaColor ⟨0xc0, 0xc0, 0xc0, 0xc0⟩ := by decide
theorem decodeColor1_126 : Ivg.decodeColor1 126 = Color.rgbaColor ⟨0x80, 0x80, 0x80, 0x80⟩ := by decide
theorem decodeColor1_127 : Ivg.decodeColor1 127 = Color.rgbaColor ⟨0x00, 0x00, 0x00, 0x00⟩ := by decide

set_option maxRecDepth 100000 in
/-- `0x80 ≤ x < 0xc0`: palette index `x & 0x3f` -/
theorem decodeColor1_80_bf : ∀ x : UInt8, 0x80 ≤ x → x < 0xc0 →
    Ivg.decodeColor1 x = ⟨.paletteIndex, ⟨x &&& 0x3f, 0, 0, 0⟩⟩ ∧ (x &&& 0x3f).toNat = x.toNat - 0x80 := by
  decide +kernel

set_option maxRecDepth 100000 in
/-- `0xc0 ≤ x`: colour register `x & 0x3f` -/
theorem decodeColor1_c0_ff : ∀ x : UInt8, 0xc0 ≤ x →
    Ivg.decodeColor1 x = ⟨.cReg, ⟨x &&& 0x3f, 0, 0, 0⟩⟩ ∧ (x &&& 0x3f).toNat = x.toNat - 0xc0 := by
  decide +kernel

set_option maxRecDepth 100000 in
/-- a 1-byte colour is never a blend (so `Color.resolve` recurses at most one level) -/
theorem decodeColor1_not_blend : ∀ x : UInt8, (Ivg.decodeColor1 x).typ ≠ .blend := by
  decide +kernel

set_option maxRecDepth 100000 in
/-- 2-byte form: each nibble `n` becomes the channel `0x11 * n` (no overflow) -/
theorem nibble_chan : ∀ x : UInt8,
    ((0x11 : UInt8) * (x >>> 4)).toNat = 17 * (x.toNat / 16) ∧
    ((0x11 : UInt8) * (x &&& 0x0f)).toNat = 17 * (x.toNat % 16) := by
  decide +kernel

/-- 2-byte form, for every byte pattern: R,G from the high/low nibble of byte 0, B,A from byte 1 -/
theorem decodeColor2_table (x y : UInt8) (rest : Bytes) :
    ∃ c : RGBA, Dec.decodeColor2 (x :: y :: rest) = some (Color.rgbaColor c, rest) ∧
      c.r.toNat = 17 * (x.toNat / 16) ∧ c.g.toNat = 17 * (x.toNat % 16) ∧
      c.b.toNat = 17 * (y.toNat / 16) ∧ c.a.toNat = 17 * (y.toNat % 16) :=
  ⟨_, rfl, (nibble_chan x).1, (nibble_chan x).2, (nibble_chan y).1, (nibble_chan y).2⟩

/-- 3-byte direct form: opaque RGB -/
theorem decodeColor3Direct_table (x y z : UInt8) (rest : Bytes) :
    Dec.decodeColor3Direct (x :: y :: z :: rest) = some (Color.rgbaColor ⟨x, y, z, 0xff⟩, rest) := rfl

/-- 4-byte form: the four channels verbatim (no premultiplication check: gradient-encoding values
    and other non-premultiplied RGBA pass through unchanged) -/
theorem decodeColor4_table (x y z w : UInt8) (rest : Bytes) :
    Dec.decodeColor4 (x :: y :: z :: w :: rest) = some (Color.rgbaColor ⟨x, y, z, w⟩, rest) := rfl

/-- 3-byte indirect form: blend `t`, `c0`, `c1` -/
theorem decodeColor3Indirect_table (x y z : UInt8) (rest : Bytes) :
    Dec.decodeColor3Indirect (x :: y :: z :: rest) = some (Color.blendColor x y z, rest) := rfl

/-- the colour decoders fail exactly on input shorter than their width -/
theorem decodeColor1_none_iff (b : Bytes) : Dec.decodeColor1 b = none ↔ b.length < 1 := by
  match b with
  | [] => simp [Dec.decodeColor1]
  | _ :: _ => simp [Dec.decodeColor1]
theorem decodeColor2_none_iff (b : Bytes) : Dec.decodeColor2 b = none ↔ b.length < 2 := by
  match b with
  | [] => simp [Dec.decodeColor2]
  | [_] => simp [Dec.decodeColor2]
  | _ :: _ :: _ => simp [Dec.decodeColor2]
theorem decodeColor3Direct_none_iff (b : Bytes) : Dec.decodeColor3Direct b = none ↔ b.length < 3 := by
  match b with
  | [] => simp [Dec.decodeColor3Direct]
  | [_] => simp [Dec.decodeColor3Direct]
  | [_, _] => simp [Dec.decodeColor3Direct]
  | _ :: _ :: _ :: _ => simp [Dec.decodeColor3Direct]
theorem decodeColor4_none_iff (b : Bytes) : Dec.decodeColor4 b = none ↔ b.length < 4 := by
  match b with
  | [] => simp [Dec.decodeColor4]
  | [_] => simp [Dec.decodeColor4]
  | [_, _] => simp [Dec.decodeColor4]
  | [_, _, _] => simp [Dec.decodeColor4]
  | _ :: _ :: _ :: _ :: _ => simp [Dec.decodeColor4]
theorem decodeColor3Indirect_none_iff (b : Bytes) :
    Dec.decodeColor3Indirect b = none ↔ b.length < 3 := by
  match b with
  | [] => simp [Dec.decodeColor3Indirect]
  | [_] => simp [Dec.decodeColor3Indirect]
  | [_, _] => simp [Dec.decodeColor3Indirect]
  | _ :: _ :: _ :: _ => simp [Dec.decodeColor3Indirect]

/-! ## B.4 blend -/

theorem blend_bound (t x0 x1 : UInt8) :
    ((255 - t.toNat) * x0.toNat + t.toNat * x1.toNat + 128) / 255 < 256 := by
  have ht := t.toNat_lt
  have h0 := x0.toNat_lt
  have h1 := x1.toNat_lt
  have a : (255 - t.toNat) * x0.toNat ≤ (255 - t.toNat) * 255 := Nat.mul_le_mul_left _ (by omega)
  have b : t.toNat * x1.toNat ≤ t.toNat * 255 := Nat.mul_le_mul_left _ (by omega)
  omega

/-- the blend formula of the specification, per channel -/
theorem blendChan_toNat (t x0 x1 : UInt8) :
    (blendChan t x0 x1).toNat = ((255 - t.toNat) * x0.toNat + t.toNat * x1.toNat + 128) / 255 := by
  have := blend_bound t x0 x1
  simp only [blendChan, UInt8.toNat_ofNat']
  omega

theorem blendChan_zero (x0 x1 : UInt8) : blendChan 0 x0 x1 = x0 := by
  apply UInt8.toNat_inj.1
  rw [blendChan_toNat]
  have := x0.toNat_lt
  simp only [UInt8.toNat_zero, Nat.zero_mul, Nat.sub_zero, Nat.add_zero]
  omega

theorem blendChan_255 (x0 x1 : UInt8) : blendChan 255 x0 x1 = x1 := by
  apply UInt8.toNat_inj.1
  rw [blendChan_toNat]
  have := x1.toNat_lt
  have : (255 : UInt8).toNat = 255 := rfl
  simp only [this, Nat.sub_self, Nat.zero_mul, Nat.zero_add]
  omega

theorem blendChan_mono (t : UInt8) {x0 x1 a0 a1 : UInt8} (h0 : x0 ≤ a0) (h1 : x1 ≤ a1) :
    blendChan t x0 x1 ≤ blendChan t a0 a1 := by
  rw [UInt8.le_iff_toNat_le] at *
  rw [blendChan_toNat, blendChan_toNat]
  apply Nat.div_le_div_right
  have a := Nat.mul_le_mul_left (255 - t.toNat) h0
  have b := Nat.mul_le_mul_left t.toNat h1
  omega

/-- blend of a channel with itself is the channel: blending is a weighted mean -/
theorem blendChan_same (t x : UInt8) : blendChan t x x = x := by
  apply UInt8.toNat_inj.1
  rw [blendChan_toNat]
  have ht := t.toNat_lt
  have hx := x.toNat_lt
  have : (255 - t.toNat) * x.toNat + t.toNat * x.toNat = 255 * x.toNat := by
    rw [← Nat.add_mul]; congr 1; omega
  omega

/-- how `Color.resolve` treats a blend: the two operands are 1-byte colours, resolved against
    the palette / registers, then blended per channel -/
theorem resolve_blend (c : Color) (h : c.typ = .blend) (pal creg : Palette) :
    c.resolve pal creg =
      (let t := c.data.r
       let p0 := (Ivg.decodeColor1 c.data.g).resolve1 pal creg
       let p1 := (Ivg.decodeColor1 c.data.b).resolve1 pal creg
       ⟨blendChan t p0.r p1.r, blendChan t p0.g p1.g, blendChan t p0.b p1.b, blendChan t p0.a p1.a⟩) := by
  simp only [Color.resolve, h]

theorem resolve_blend_zero (c : Color) (h : c.typ = .blend) (ht : c.data.r = 0) (pal creg : Palette) :
    c.resolve pal creg = (Ivg.decodeColor1 c.data.g).resolve1 pal creg := by
  rw [resolve_blend c h]; simp only [ht, blendChan_zero]

theorem resolve_blend_255 (c : Color) (h : c.typ = .blend) (ht : c.data.r = 255) (pal creg : Palette) :
    c.resolve pal creg = (Ivg.decodeColor1 c.data.b).resolve1 pal creg := by
  rw [resolve_blend c h]; simp only [ht, blendChan_255]

/-- premultiplied operands give a premultiplied blend -/
theorem blend_premul (c : Color) (h : c.typ = .blend) (pal creg : Palette)
    (h0 : ((Ivg.decodeColor1 c.data.g).resolve1 pal creg).validPremul = true)
    (h1 : ((Ivg.decodeColor1 c.data.b).resolve1 pal creg).validPremul = true) :
    (c.resolve pal creg).validPremul = true := by
  rw [resolve_blend c h]
  simp only [RGBA.validPremul, Bool.and_eq_true, decide_eq_true_eq] at *
  exact ⟨⟨blendChan_mono _ h0.1.1 h1.1.1, blendChan_mono _ h0.1.2 h1.1.2⟩, blendChan_mono _ h0.2 h1.2⟩

/-- a non-blend colour resolves by plain lookup -/
theorem resolve_nonblend (c : Color) (h : c.typ ≠ .blend) (pal creg : Palette) :
    c.resolve pal creg = c.resolve1 pal creg := by
  obtain ⟨typ, d⟩ := c
  cases typ <;> simp_all [Color.resolve]

/-- the operands of a blend are resolved without further recursion because a 1-byte colour is never
    a blend: `resolve` and `resolve1` agree on them -/
theorem resolve_decodeColor1 (x : UInt8) (pal creg : Palette) :
    (Ivg.decodeColor1 x).resolve pal creg = (Ivg.decodeColor1 x).resolve1 pal creg :=
  resolve_nonblend _ (decodeColor1_not_blend x) pal creg

/-! ## suggested-palette entries -/

/-- `Color.RGBA()` of a direct colour: the colour itself iff it is premultiplied -/
theorem toRGBA_rgbaColor (c : RGBA) (hp : c.validPremul = true) :
    (Color.rgbaColor c).toRGBA = (c, true) := by
  simp [Color.toRGBA, Color.rgbaColor, hp]

/-- a non-premultiplied palette entry is delivered as opaque black (Go: `RGBA()` returns `ok = false`) -/
theorem toRGBA_rgbaColor_invalid (c : RGBA) (hp : c.validPremul = false) :
    (Color.rgbaColor c).toRGBA = (RGBA.black, false) := by
  simp [Color.toRGBA, Color.rgbaColor, hp]

theorem rgbaColor_WF (c : RGBA) : (Color.rgbaColor c).WF := by
  simp [Color.WF, Color.rgbaColor]

/-- the per-entry encoders of `paletteChunk` in its four formats -/
def palEnc1 (c : RGBA) : Bytes := Enc.paletteChunk.encodeColor1' c
def palEnc2 (c : RGBA) : Bytes := Enc.paletteChunk.encodeColor2' c
def palEnc3 (c : RGBA) : Bytes := [c.r, c.g, c.b]
def palEnc4 (c : RGBA) : Bytes := [c.r, c.g, c.b, c.a]

/-- format 0 (1 byte per colour), used when `Encode1` succeeds for every explicit entry -/
theorem palEntry1 (c : RGBA) (h : (Color.rgbaColor c).encode1.isSome = true) (rest : Bytes) :
    Dec.decodeColor1 (palEnc1 c ++ rest) = some (Color.rgbaColor c, rest) := by
  unfold palEnc1 Enc.paletteChunk.encodeColor1'
  cases he : (Color.rgbaColor c).encode1 with
  | none => simp [he] at h
  | some x => exact decodeColor1_encode1' _ (rgbaColor_WF c) x he rest

/-- format 1 (2 bytes per colour), used when every explicit entry satisfies `Is2` -/
theorem palEntry2 (c : RGBA) (h : c.is2 = true) (rest : Bytes) :
    Dec.decodeColor2 (palEnc2 c ++ rest) = some (Color.rgbaColor c, rest) := by
  unfold palEnc2 Enc.paletteChunk.encodeColor2'
  have he : (Color.rgbaColor c).encode2 =
      some ((c.r / 0x11) <<< 4 ||| (c.g / 0x11), (c.b / 0x11) <<< 4 ||| (c.a / 0x11)) := by
    simp [Color.encode2, Color.rgbaColor, h]
  rw [he]
  exact decodeColor2_encode2 _ _ _ he rest

/-- format 2 (3 bytes per colour), used when every explicit entry is opaque -/
theorem palEntry3 (c : RGBA) (h : c.is3 = true) (rest : Bytes) :
    Dec.decodeColor3Direct (palEnc3 c ++ rest) = some (Color.rgbaColor c, rest) := by
  obtain ⟨r, g, b, a⟩ := c
  simp only [RGBA.is3, beq_iff_eq] at h
  subst h
  rfl

/-- format 3 (4 bytes per colour), always applicable -/
theorem palEntry4 (c : RGBA) (rest : Bytes) :
    Dec.decodeColor4 (palEnc4 c ++ rest) = some (Color.rgbaColor c, rest) := rfl

/-- hence, in each format, a valid premultiplied entry is delivered unchanged by the palette loop
    (which applies `Color.RGBA()` to the decoded colour) -/
theorem palEntry_delivered (c : RGBA) (hp : c.validPremul = true) :
    ((Color.rgbaColor c).toRGBA).1 = c := by rw [toRGBA_rgbaColor c hp]

/-- store `cols` into consecutive palette slots starting at `i` -/
def setFrom (pal : Palette) (i : Nat) : List RGBA → Palette
  | [] => pal
  | c :: cs => setFrom (pal.set6 (UInt8.ofNat i) c) (i + 1) cs

/-- the palette loop of `decodeMetadataChunk` inverts the per-entry encoding of `paletteChunk`:
    if every entry is premultiplied and decodes (in the chosen format) to itself, the loop consumes
    exactly the entries and stores them in order -/
theorem decodePaletteColors_flatMap (dec : Bytes → Option (Color × Bytes)) (enc : RGBA → Bytes)
    (cols : List RGBA)
    (h : ∀ c ∈ cols, c.validPremul = true ∧ ∀ rest, dec (enc c ++ rest) = some (Color.rgbaColor c, rest))
    (i : Nat) (pal : Palette) (rest : Bytes) :
    (Dec.decodePaletteColors dec cols.length i pal (cols.flatMap enc ++ rest)).map (·.2) =
      some (setFrom pal i cols, rest) := by
  induction cols generalizing i pal with
  | nil => rfl
  | cons c cs ih =>
    have hc := h c (List.mem_cons_self)
    have hcs : ∀ c' ∈ cs, c'.validPremul = true ∧
        ∀ rest, dec (enc c' ++ rest) = some (Color.rgbaColor c', rest) :=
      fun c' hm => h c' (List.mem_cons_of_mem _ hm)
    have hi := ih hcs (i + 1) (pal.set6 (UInt8.ofNat i) c)
    simp only [List.length_cons, List.flatMap_cons, List.append_assoc, Dec.decodePaletteColors,
      hc.2, toRGBA_rgbaColor c hc.1, setFrom]
    cases hd : Dec.decodePaletteColors dec cs.length (i + 1) (pal.set6 (UInt8.ofNat i) c)
        (cs.flatMap enc ++ rest) with
    | none => rw [hd] at hi; simp at hi
    | some r =>
      obtain ⟨its, pal', rest'⟩ := r
      rw [hd] at hi
      simpa using hi

/-- the four formats of the suggested-palette chunk body, as selected by `paletteChunk` -/
theorem paletteBody1 (cols : List RGBA) (hp : ∀ c ∈ cols, c.validPremul = true)
    (h1 : cols.all (fun c => (Color.rgbaColor c).encode1.isSome) = true)
    (i : Nat) (pal : Palette) (rest : Bytes) :
    (Dec.decodePaletteColors Dec.decodeColor1 cols.length i pal (cols.flatMap palEnc1 ++ rest)).map (·.2) =
      some (setFrom pal i cols, rest) :=
  decodePaletteColors_flatMap _ _ cols
    (fun c hc => ⟨hp c hc, palEntry1 c (List.all_eq_true.1 h1 c hc)⟩) i pal rest

theorem paletteBody2 (cols : List RGBA) (hp : ∀ c ∈ cols, c.validPremul = true)
    (h2 : cols.all RGBA.is2 = true) (i : Nat) (pal : Palette) (rest : Bytes) :
    (Dec.decodePaletteColors Dec.decodeColor2 cols.length i pal (cols.flatMap palEnc2 ++ rest)).map (·.2) =
      some (setFrom pal i cols, rest) :=
  decodePaletteColors_flatMap _ _ cols
    (fun c hc => ⟨hp c hc, palEntry2 c (List.all_eq_true.1 h2 c hc)⟩) i pal rest

theorem paletteBody3 (cols : List RGBA) (h3 : cols.all RGBA.is3 = true)
    (hp : ∀ c ∈ cols, c.validPremul = true) (i : Nat) (pal : Palette) (rest : Bytes) :
    (Dec.decodePaletteColors Dec.decodeColor3Direct cols.length i pal
        (cols.flatMap palEnc3 ++ rest)).map (·.2) = some (setFrom pal i cols, rest) :=
  decodePaletteColors_flatMap _ _ cols
    (fun c hc => ⟨hp c hc, palEntry3 c (List.all_eq_true.1 h3 c hc)⟩) i pal rest

theorem paletteBody4 (cols : List RGBA) (hp : ∀ c ∈ cols, c.validPremul = true)
    (i : Nat) (pal : Palette) (rest : Bytes) :
    (Dec.decodePaletteColors Dec.decodeColor4 cols.length i pal (cols.flatMap palEnc4 ++ rest)).map (·.2) =
      some (setFrom pal i cols, rest) :=
  decodePaletteColors_flatMap _ _ cols (fun c hc => ⟨hp c hc, palEntry4 c⟩) i pal rest

/-- the body `paletteChunk` writes after the chunk identifier is header byte + one of these four -/
theorem paletteChunk_eq (pal : Palette) :
    Enc.paletteChunk pal =
      (let n1 := Enc.explicitCount pal.toList
       let cols := pal.toList.take n1
       let nb := Enc.byte (n1 - 1)
       Enc.encodeNatural 1 ++
        (if cols.all (fun c => (Color.rgbaColor c).encode1.isSome) then [nb ||| 0x00] ++ cols.flatMap palEnc1
         else if cols.all RGBA.is2 then [nb ||| 0x40] ++ cols.flatMap palEnc2
         else if cols.all RGBA.is3 then [nb ||| 0x80] ++ cols.flatMap palEnc3
         else [nb ||| 0xc0] ++ cols.flatMap palEnc4)) := rfl

/-! ## the whole suggested-palette chunk -/

/-- trailing entries beyond `explicitCount` are opaque black -/
theorem explicitCount_spec (l : List RGBA) :
    Enc.explicitCount l ≤ l.length ∧
    l = l.take (Enc.explicitCount l) ++ List.replicate (l.length - Enc.explicitCount l) RGBA.black := by
  unfold Enc.explicitCount
  have hsplit := List.takeWhile_append_dropWhile (p := (· == RGBA.black)) (l := l.reverse)
  have hl : l = (l.reverse.dropWhile (· == RGBA.black)).reverse ++
      (l.reverse.takeWhile (· == RGBA.black)).reverse := by
    rw [← List.reverse_append, hsplit, List.reverse_reverse]
  have hlen : (l.reverse.dropWhile (· == RGBA.black)).length +
      (l.reverse.takeWhile (· == RGBA.black)).length = l.length := by
    have := congrArg List.length hsplit
    simp only [List.length_append, List.length_reverse] at this
    omega
  refine ⟨by omega, ?_⟩
  have htake : l.take (l.reverse.dropWhile (· == RGBA.black)).length =
      (l.reverse.dropWhile (· == RGBA.black)).reverse := by
    conv => lhs; rw [hl]
    rw [List.take_left' (by simp)]
  rw [htake]
  conv => lhs; rw [hl]
  congr 1
  rw [List.eq_replicate_iff]
  refine ⟨by simp; omega, ?_⟩
  intro b hb
  rw [List.mem_reverse] at hb
  have hall := List.all_takeWhile (l := l.reverse) (p := (· == RGBA.black))
  have := List.all_eq_true.1 hall b hb
  simpa using this


theorem getElem_set6 (pal : Palette) (i : Nat) (hi : i < 64) (c : RGBA) (j : Nat) (hj : j < 64) :
    (pal.set6 (UInt8.ofNat i) c)[j] = if i = j then c else pal[j] := by
  unfold Regs.set6
  rw [Vector.getElem_set]
  have : (UInt8.ofNat i).toNat % 64 = i := by
    simp only [UInt8.toNat_ofNat']; omega
  simp only [this]

theorem getElem_setFrom (cols : List RGBA) (pal : Palette) (i : Nat) (hic : i + cols.length ≤ 64)
    (j : Nat) (hj : j < 64) :
    (setFrom pal i cols)[j] = if i ≤ j then (cols[j - i]?).getD pal[j] else pal[j] := by
  induction cols generalizing pal i with
  | nil => simp [setFrom]
  | cons c cs ih =>
    simp only [List.length_cons] at hic
    rw [setFrom, ih _ _ (by omega), getElem_set6 _ _ (by omega) _ _ hj]
    by_cases h1 : i + 1 ≤ j
    · have h2 : i ≤ j := by omega
      have h3 : ¬ i = j := by omega
      have h4 : j - i = (j - (i + 1)) + 1 := by omega
      simp only [h1, h2, h3, if_true, if_false, h4, List.getElem?_cons_succ]
    · by_cases h2 : i = j
      · subst h2
        simp [h1]
      · have h3 : ¬ i ≤ j := by omega
        simp [h1, h2, h3]

/-- storing the explicit entries over the default palette reconstructs the whole palette -/
theorem setFrom_explicit (pal : Palette) :
    setFrom defaultPalette 0 (pal.toList.take (Enc.explicitCount pal.toList)) = pal := by
  obtain ⟨hle, hdec⟩ := explicitCount_spec pal.toList
  have hlen : pal.toList.length = 64 := by simp
  apply Vector.ext
  intro j hj
  rw [getElem_setFrom _ _ _ (by simp; omega) j hj]
  simp only [Nat.zero_le, if_true, Nat.sub_zero]
  have hd : (defaultPalette)[j] = RGBA.black := by simp [defaultPalette, Regs.const]
  rw [hd]
  have hpj : pal[j] = pal.toList[j]'(by omega) := by simp
  by_cases hjn : j < Enc.explicitCount pal.toList
  · rw [List.getElem?_take_of_lt hjn, List.getElem?_eq_getElem (by omega)]
    simp
  · have hnone : (pal.toList.take (Enc.explicitCount pal.toList))[j]? = none := by
      rw [List.getElem?_eq_none]; simp; omega
    rw [hnone, Option.getD_none, hpj]
    have : pal.toList[j]? = some RGBA.black := by
      conv => lhs; rw [hdec]
      rw [List.getElem?_append_right (by simp; omega)]
      rw [List.getElem?_replicate]
      simp; omega
    have h2 := List.getElem?_eq_getElem (l := pal.toList) (i := j) (by omega)
    rw [h2] at this
    exact (Option.some.inj this).symm


set_option maxRecDepth 100000 in
theorem palHeader_facts : ∀ n : Fin 64,
    (1 + ((Enc.byte n.val ||| 0x00) &&& 0x3f).toNat = n.val + 1 ∧ ((Enc.byte n.val ||| 0x00) >>> 6).toNat = 0) ∧
    (1 + ((Enc.byte n.val ||| 0x40) &&& 0x3f).toNat = n.val + 1 ∧ ((Enc.byte n.val ||| 0x40) >>> 6).toNat = 1) ∧
    (1 + ((Enc.byte n.val ||| 0x80) &&& 0x3f).toNat = n.val + 1 ∧ ((Enc.byte n.val ||| 0x80) >>> 6).toNat = 2) ∧
    (1 + ((Enc.byte n.val ||| 0xc0) &&& 0x3f).toNat = n.val + 1 ∧ ((Enc.byte n.val ||| 0xc0) >>> 6).toNat = 3) := by
  decide +kernel

/-- the header byte and entry bytes of the chunk, with the decoder the header selects -/
theorem paletteChunk_shape (pal : Palette) (hne : Enc.explicitCount pal.toList ≠ 0)
    (hp : ∀ c ∈ pal.toList, c.validPremul = true) :
    ∃ (hdr : UInt8) (body : Bytes) (dec : Bytes → Option (Color × Bytes)),
      Enc.paletteChunk pal = Enc.encodeNatural 1 ++ hdr :: body ∧
      1 + (hdr &&& 0x3f).toNat = Enc.explicitCount pal.toList ∧
      (match (hdr >>> 6).toNat with
        | 0 => Dec.decodeColor1 | 1 => Dec.decodeColor2 | 2 => Dec.decodeColor3Direct
        | _ => Dec.decodeColor4) = dec ∧
      body.length ≤ 256 ∧
      ∀ (p0 : Palette) (rest : Bytes),
        (Dec.decodePaletteColors dec (Enc.explicitCount pal.toList) 0 p0 (body ++ rest)).map (·.2) =
          some (setFrom p0 0 (pal.toList.take (Enc.explicitCount pal.toList)), rest) := by
  obtain ⟨hle, _⟩ := explicitCount_spec pal.toList
  have hlen : pal.toList.length = 64 := by simp
  generalize hn1 : Enc.explicitCount pal.toList = n1 at *
  have hcl : (pal.toList.take n1).length = n1 := by simp; omega
  have hpc : ∀ c ∈ pal.toList.take n1, c.validPremul = true :=
    fun c hc => hp c (List.mem_of_mem_take hc)
  obtain ⟨⟨a1, a2⟩, ⟨b1, b2⟩, ⟨c1, c2⟩, ⟨d1, d2⟩⟩ := palHeader_facts ⟨n1 - 1, by omega⟩
  simp only at a1 a2 b1 b2 c1 c2 d1 d2
  have hflat : ∀ (enc : RGBA → Bytes) (k : Nat), (∀ c, (enc c).length = k) →
      ((pal.toList.take n1).flatMap enc).length ≤ 64 * k := by
    intro enc k hk
    have : ∀ l : List RGBA, (l.flatMap enc).length = l.length * k := by
      intro l; induction l with
      | nil => simp
      | cons c cs ih => simp only [List.flatMap_cons, List.length_append, ih, hk, List.length_cons]; rw [Nat.add_mul]; omega
    rw [this, hcl]
    exact Nat.mul_le_mul_right _ (by omega)
  rw [paletteChunk_eq]
  simp only [hn1]
  by_cases e1 : (pal.toList.take n1).all (fun c => (Color.rgbaColor c).encode1.isSome) = true
  · refine ⟨Enc.byte (n1 - 1) ||| 0x00, (pal.toList.take n1).flatMap palEnc1, Dec.decodeColor1,
      by rw [if_pos e1]; rfl, by omega, by simp only [a2], ?_, ?_⟩
    · have := hflat palEnc1 1 (by
        intro c; unfold palEnc1 Enc.paletteChunk.encodeColor1'; split <;> rfl)
      omega
    · intro p0 rest
      have := paletteBody1 _ hpc e1 0 p0 rest
      rwa [hcl] at this
  · rw [if_neg e1]
    by_cases e2 : (pal.toList.take n1).all RGBA.is2 = true
    · refine ⟨Enc.byte (n1 - 1) ||| 0x40, (pal.toList.take n1).flatMap palEnc2, Dec.decodeColor2,
        by rw [if_pos e2]; rfl, by omega, by simp only [b2], ?_, ?_⟩
      · have := hflat palEnc2 2 (by
          intro c; unfold palEnc2 Enc.paletteChunk.encodeColor2'; split <;> rfl)
        omega
      · intro p0 rest
        have := paletteBody2 _ hpc e2 0 p0 rest
        rwa [hcl] at this
    · rw [if_neg e2]
      by_cases e3 : (pal.toList.take n1).all RGBA.is3 = true
      · refine ⟨Enc.byte (n1 - 1) ||| 0x80, (pal.toList.take n1).flatMap palEnc3, Dec.decodeColor3Direct,
          by rw [if_pos e3]; rfl, by omega, by simp only [c2], ?_, ?_⟩
        · have := hflat palEnc3 3 (by intro c; rfl)
          omega
        · intro p0 rest
          have := paletteBody3 _ e3 hpc 0 p0 rest
          rwa [hcl] at this
      · rw [if_neg e3]
        refine ⟨Enc.byte (n1 - 1) ||| 0xc0, (pal.toList.take n1).flatMap palEnc4, Dec.decodeColor4,
          rfl, by omega, by simp only [d2], ?_, ?_⟩
        · have := hflat palEnc4 4 (by intro c; rfl)
          omega
        · intro p0 rest
          have := paletteBody4 _ hpc 0 p0 rest
          rwa [hcl] at this


/-- `Encoder.reset` writes the chunk iff the palette differs from the default; then there is at
    least one explicit entry -/
theorem explicitCount_ne_zero (pal : Palette) (h : pal ≠ defaultPalette) :
    Enc.explicitCount pal.toList ≠ 0 := by
  intro h0
  apply h
  have := setFrom_explicit pal
  rw [h0] at this
  simpa [setFrom] using this.symm

/-- **Suggested-palette chunk round trip**: for a palette that is not all opaque black and whose
    entries are valid premultiplied colours, the chunk `Encoder.reset` writes (length prefix,
    identifier 1, header byte, entries in the shortest common format, trailing black trimmed) is
    decoded by `decodeMetadataChunk` to exactly that palette, consuming exactly the chunk. -/
theorem paletteChunk_decodes (pal : Palette) (hne : Enc.explicitCount pal.toList ≠ 0)
    (hp : ∀ c ∈ pal.toList, c.validPremul = true) (m : Dec.Metadata)
    (hm : m.palette = defaultPalette) (minMID : Nat) (hmin : minMID ≤ 1) (rest : Bytes) :
    ∃ its, Dec.decodeMetadataChunk m minMID
        (Enc.encodeNatural (Enc.paletteChunk pal).length ++ Enc.paletteChunk pal ++ rest) =
      (its, .ok ({ m with palette := pal }, 2, rest)) := by
  obtain ⟨hdr, body, dec, hshape, hcount, hdec, hblen, hloop⟩ := paletteChunk_shape pal hne hp
  subst hdec
  have hL : (Enc.paletteChunk pal).length = 2 + body.length := by
    rw [hshape]; simp [Codec.encodeNatural_length, Codec.natWidth]; omega
  have hn1 := Codec.decodeNatural_encodeNatural (Enc.paletteChunk pal).length
    (by rw [hL]; omega) (Enc.paletteChunk pal ++ rest)
  have hn2 : Dec.decodeNatural (Enc.paletteChunk pal ++ rest) = some (1, 1, hdr :: (body ++ rest)) := by
    rw [hshape, List.append_assoc]
    have := Codec.decodeNatural_encodeNatural 1 (by decide) (hdr :: body ++ rest)
    simpa [Codec.natWidth] using this
  have hloop' := hloop m.palette rest
  rw [hm, setFrom_explicit pal] at hloop'
  unfold Dec.decodeMetadataChunk
  rw [List.append_assoc, hn1]
  simp only [hn2]
  have g1 : ¬ (1 ≥ 2) := by omega
  have g2 : ¬ (1 < minMID) := by omega
  have g3 : ¬ ((1 : Nat) = 0) := by omega
  simp only [g1, g2, g3, if_false, hcount, hm]
  generalize hdp : Dec.decodePaletteColors _ (Enc.explicitCount pal.toList) 0 defaultPalette (body ++ rest) = r
      at hloop' ⊢
  match r, hloop' with
  | none, h => simp at h
  | some (its, pal', rest'), h =>
    simp only [Option.map_some, Option.some.injEq, Prod.mk.injEq] at h
    obtain ⟨h1, h2⟩ := h
    subst h1 h2
    have hw : ¬ ((rest'.length : Int) ≠ ((Enc.paletteChunk pal' ++ rest').length : Int) -
        ((Enc.paletteChunk pal').length : Int)) := by
      simp only [List.length_append]; omega
    simp only [if_neg hw]
    exact ⟨_, rfl⟩


/-! ## SetCReg at the instruction level -/

/-- `Dec.decodeStyling` on a SetCReg opcode: it runs exactly `decoderFor opcode` on the operand bytes
    and delivers `SetCReg(adj, incr, c)` with the decoded colour -/
theorem decodeStyling_setCReg (opcode : UInt8) (h1 : 0x80 ≤ opcode) (h2 : opcode < 0xa8)
    (rest : Bytes) (c : Color) (rest' : Bytes) (hd : decoderFor opcode rest = some (c, rest')) :
    ∃ l0 l1, Dec.decodeStyling (opcode :: rest) =
      ([.line l0, .line l1,
        .call (.setCReg (if (opcode &&& 0x07) == 7 then 0 else opcode &&& 0x07) ((opcode &&& 0x07) == 7) c)],
       .ok (.styling, rest')) ∧ l0.bytes = [opcode] ∧ l1.bytes = Dec.consumed rest rest' ∧
       l1.kind = .color c := by
  have n1 : ¬ opcode < 0x80 := by
    rw [UInt8.le_iff_toNat_le] at h1; rw [UInt8.lt_iff_toNat_lt]; omega
  unfold Dec.decodeStyling
  simp only [n1, h2, if_false, if_true]
  unfold decoderFor at hd
  generalize ((opcode - 0x80) >>> 3).toNat = sel at hd ⊢
  rcases sel with _ | _ | _ | _ | n <;> simp only [] at hd ⊢ <;> simp only [hd] <;>
    exact ⟨_, _, rfl, rfl, rfl, rfl⟩


set_option maxRecDepth 100000 in
theorem creg_opcode_facts : ∀ a : UInt8, a ≤ 7 → ∀ base ∈ [(0x80 : UInt8), 0x88, 0x90, 0x98, 0xa0],
    0x80 ≤ a ||| base ∧ a ||| base < 0xa8 ∧ (a ||| base) &&& 0x07 = a ∧
      ((a ||| base) - 0x80) >>> 3 = (base - 0x80) >>> 3 := by
  decide +kernel

/-- **SetCReg instruction round trip**: the opcode byte `adj | base` and payload that `Encoder.setCReg`
    writes for a constructible colour are decoded by `Dec.decodeStyling` to the call
    `SetCReg(adj, incr, c)` with exactly that colour, consuming exactly opcode and payload.
    (`a = 7` is the incrementing form, as in `Encoder.setCReg`.) -/
theorem setCReg_instruction (c : Color) (hwf : c.WF) (a : UInt8) (ha : a ≤ 7) (rest : Bytes) :
    ∃ l0 l1, Dec.decodeStyling ((a ||| (Enc.cregForm c).1) :: ((Enc.cregForm c).2 ++ rest)) =
      ([.line l0, .line l1, .call (.setCReg (if a == 7 then 0 else a) (a == 7) c)],
       .ok (.styling, rest)) ∧
      l0.bytes = [a ||| (Enc.cregForm c).1] ∧ l1.bytes = (Enc.cregForm c).2 ∧ l1.kind = .color c := by
  have hb : (Enc.cregForm c).1 ∈ [(0x80 : UInt8), 0x88, 0x90, 0x98, 0xa0] := by
    rcases cregForm_base c with h | h | h | h | h <;> simp [h]
  obtain ⟨f1, f2, f3, f4⟩ := creg_opcode_facts a ha _ hb
  have hdec : decoderFor (a ||| (Enc.cregForm c).1) = decoderFor (Enc.cregForm c).1 := by
    unfold decoderFor; rw [f4]
  have hd := cregForm_decodes c hwf rest
  rw [← hdec] at hd
  obtain ⟨l0, l1, h, hl0, hl1, hk⟩ := decodeStyling_setCReg _ f1 f2 _ c rest hd
  rw [f3] at h
  exact ⟨l0, l1, h, hl0, by rw [hl1, Codec.consumed_append], hk⟩

end Ivg.ColorCodec
