import Driver.Proto
import Driver.Kinds
/-!
# ivgdriver: reads one case per line on stdin, prints the model's observation per line.
-/
open Ivg Ivg.Proto Ivg.Num

def parseOpt (s : String) : Option Dec.DecodeOption :=
  match s.toList with
  | 'P' :: rest => (parsePalette (String.ofList rest)).map .withPalette
  | 'I' :: rest =>
    match (String.ofList rest).splitOn ":" with
    | [i, c] => do pure (.withColorAt (← i.toNat?) (← parseRGBA c))
    | _ => none
  | _ => none

def parseOpts (s : String) : Option (List Dec.DecodeOption) :=
  if s == "-" then some [] else (s.splitOn ",").mapM parseOpt

def runEnc (body : String) : String :=
  match (splitOps body).mapM parseEncOp with
  | none => "BAD-CASE"
  | some ops =>
    let (e, obs) := (({} : Enc.Encoder).runOps ops)
    let (_, final) := e.bytes
    " ".intercalate ((obs ++ [Enc.EncObs.bytes final]).map showEncObs)

def runDec (hdr : List String) (body : String) : String :=
  match hdr, parseBytes body.trimAscii.toString with
  | [o], some bs =>
    match parseOpts o with
    | none => "BAD-CASE"
    | some opts =>
      let (cs, e) := Dec.decode opts bs
      showCalls cs ++ " # " ++ showDecErr e
  | _, _ => "BAD-CASE"

def runDvb (body : String) : String :=
  match parseBytes body.trimAscii.toString with
  | some bs =>
    let (vb, e) := Dec.decodeViewBox bs
    match e with
    | none => s!"{hexF32 vb.minX} {hexF32 vb.minY} {hexF32 vb.maxX} {hexF32 vb.maxY} # ok"
    | some _ => "# " ++ showDecErr e
  | none => "BAD-CASE"

def handle (line : String) : String :=
  match line.splitOn "|" with
  | [hd, body] =>
    match words hd with
    | "enc" :: _ => runEnc body
    | "dec" :: hdr => runDec hdr body
    | "dvb" :: _ => runDvb body
    | "dis" :: _ => runDis body
    | "spec" :: _ => runSpec body
    | "ren" :: hdr => runRen hdr body
    | "fit" :: hdr => runFit hdr
    | "gen" :: _ => runGen body
    | "mdi" :: hdr => runMdi hdr body
    | _ => "BAD-KIND"
  | _ => "BAD-LINE"

partial def loop (hin : IO.FS.Stream) (hout : IO.FS.Stream) : IO Unit := do
  let line ← hin.getLine
  if line.isEmpty then return ()
  let l := line.trimAscii.toString
  if !l.isEmpty then hout.putStrLn (handle l)
  loop hin hout

def main : IO Unit := do
  let hin ← IO.getStdin
  let hout ← IO.getStdout
  loop hin hout
  hout.flush
