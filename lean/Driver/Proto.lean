import Ivg.Model.Decoder
/-!
# Line protocol shared with the Go harness (see /verif/PROTOCOL.md)
Untrusted glue: parsing and printing only.
-/
namespace Ivg.Proto
open Ivg Num

def hexDigit (n : Nat) : Char := "0123456789abcdef".toList[n % 16]!

def hexN (width : Nat) (n : Nat) : String :=
  String.ofList ((List.range width).reverse.map fun i => hexDigit (n / 16 ^ i))

def hexByte (b : UInt8) : String := hexN 2 b.toNat
def hexBytes (bs : Bytes) : String := if bs.isEmpty then "-" else String.join (bs.map hexByte)
def hexF32 (f : F32) : String := hexN 8 f.bits.toNat
def hexF64 (f : F64) : String := hexN 16 f.bits.toNat
def hexRGBA (c : RGBA) : String := hexByte c.r ++ hexByte c.g ++ hexByte c.b ++ hexByte c.a

def hexVal (c : Char) : Option Nat :=
  if '0' ≤ c ∧ c ≤ '9' then some (c.toNat - '0'.toNat)
  else if 'a' ≤ c ∧ c ≤ 'f' then some (c.toNat - 'a'.toNat + 10)
  else if 'A' ≤ c ∧ c ≤ 'F' then some (c.toNat - 'A'.toNat + 10)
  else none

def parseHex (s : String) : Option Nat :=
  if s.isEmpty then none else
  s.toList.foldl (fun acc c => match acc, hexVal c with
    | some a, some v => some (a * 16 + v)
    | _, _ => none) (some 0)

def parseBytesAux : List Char → Option Bytes
  | [] => some []
  | a :: b :: r =>
    match hexVal a, hexVal b, parseBytesAux r with
    | some x, some y, some rest => some (UInt8.ofNat (x * 16 + y) :: rest)
    | _, _, _ => none
  | _ => none

def parseBytes (s : String) : Option Bytes :=
  if s == "-" then some [] else parseBytesAux s.toList

def parseF32 (s : String) : Option F32 := (parseHex s).map F32.ofNatBits
def parseF64 (s : String) : Option F64 := (parseHex s).map F64.ofNatBits
def parseU8 (s : String) : Option UInt8 := s.toNat?.map UInt8.ofNat
def parseBool (s : String) : Option Bool := if s == "1" then some true else if s == "0" then some false else none

def parseRGBAChars : List Char → Option RGBA
  | [a, b, c, d, e, f, g, h] =>
    match hexVal a, hexVal b, hexVal c, hexVal d, hexVal e, hexVal f, hexVal g, hexVal h with
    | some a, some b, some c, some d, some e, some f, some g, some h =>
      some ⟨UInt8.ofNat (a*16+b), UInt8.ofNat (c*16+d), UInt8.ofNat (e*16+f), UInt8.ofNat (g*16+h)⟩
    | _, _, _, _, _, _, _, _ => none
  | _ => none

def parseRGBA (s : String) : Option RGBA := parseRGBAChars s.toList

def parsePaletteAux : Nat → List Char → Option (List RGBA)
  | 0, [] => some []
  | n + 1, cs =>
    match parseRGBAChars (cs.take 8), parsePaletteAux n (cs.drop 8) with
    | some c, some r => some (c :: r)
    | _, _ => none
  | _, _ => none

def listToPalette (l : List RGBA) : Palette :=
  Vector.ofFn fun i => l.getD i.val RGBA.black

def parsePalette (s : String) : Option Palette :=
  if s == "D" then some defaultPalette
  else (parsePaletteAux 64 s.toList).map listToPalette

def showPalette (p : Palette) : String :=
  if p == defaultPalette then "D" else String.join (p.toList.map hexRGBA)

def parseColor (s : String) : Option Color :=
  match s.toList with
  | t :: rest =>
    let typ : Option ColorType := match t with
      | '0' => some .rgba | '1' => some .paletteIndex | '2' => some .cReg | '3' => some .blend | _ => none
    match typ, parseRGBAChars rest with
    | some t, some d => some ⟨t, d⟩
    | _, _ => none
  | _ => none

def showColor (c : Color) : String :=
  (match c.typ with | .rgba => "0" | .paletteIndex => "1" | .cReg => "2" | .blend => "3") ++ hexRGBA c.data

def showBool (b : Bool) : String := if b then "1" else "0"

def showCall : Call F32 → String
  | .reset vb pal => s!"reset {hexF32 vb.minX} {hexF32 vb.minY} {hexF32 vb.maxX} {hexF32 vb.maxY} {showPalette pal}"
  | .setCSel v => s!"csel {v}"
  | .setNSel v => s!"nsel {v}"
  | .setCReg adj incr c => s!"creg {adj} {showBool incr} {showColor c}"
  | .setNReg adj incr f => s!"nreg {adj} {showBool incr} {hexF32 f}"
  | .setLOD a b => s!"lod {hexF32 a} {hexF32 b}"
  | .startPath adj x y => s!"start {adj} {hexF32 x} {hexF32 y}"
  | .closeEnd => "Z"
  | .d1 v x => (match v with | .H => "H" | .h => "h" | .V => "V" | .v => "v") ++ s!" {hexF32 x}"
  | .d2 v x y => (match v with | .L => "L" | .l => "l" | .T => "T" | .t => "t" | .Y => "Y" | .y => "y")
      ++ s!" {hexF32 x} {hexF32 y}"
  | .d4 v a b x y => (match v with | .Q => "Q" | .q => "q" | .S => "S" | .s => "s")
      ++ s!" {hexF32 a} {hexF32 b} {hexF32 x} {hexF32 y}"
  | .d6 v a b c d x y => (match v with | .C => "C" | .c => "c")
      ++ s!" {hexF32 a} {hexF32 b} {hexF32 c} {hexF32 d} {hexF32 x} {hexF32 y}"
  | .arc rel rx ry rot la sw x y => (if rel then "a" else "A")
      ++ s!" {hexF32 rx} {hexF32 ry} {hexF32 rot} {showBool la} {showBool sw} {hexF32 x} {hexF32 y}"

def showCalls (cs : List (Call F32)) : String :=
  if cs.isEmpty then "-" else " ; ".intercalate (cs.map showCall)

def parseCall (toks : List String) : Option (Call F32) :=
  match toks with
  | ["reset", a, b, c, d, p] => do
    let a ← parseF32 a; let b ← parseF32 b; let c ← parseF32 c; let d ← parseF32 d
    let p ← parsePalette p
    pure (.reset ⟨a, b, c, d⟩ p)
  | ["csel", v] => do pure (.setCSel (← parseU8 v))
  | ["nsel", v] => do pure (.setNSel (← parseU8 v))
  | ["creg", adj, incr, c] => do pure (.setCReg (← parseU8 adj) (← parseBool incr) (← parseColor c))
  | ["nreg", adj, incr, f] => do pure (.setNReg (← parseU8 adj) (← parseBool incr) (← parseF32 f))
  | ["lod", a, b] => do pure (.setLOD (← parseF32 a) (← parseF32 b))
  | ["start", adj, x, y] => do pure (.startPath (← parseU8 adj) (← parseF32 x) (← parseF32 y))
  | ["Z"] => some .closeEnd
  | [v, x] => do
    let x ← parseF32 x
    match v with
    | "H" => pure (.d1 .H x) | "h" => pure (.d1 .h x) | "V" => pure (.d1 .V x) | "v" => pure (.d1 .v x)
    | _ => none
  | [v, x, y] => do
    let x ← parseF32 x; let y ← parseF32 y
    match v with
    | "L" => pure (.d2 .L x y) | "l" => pure (.d2 .l x y) | "T" => pure (.d2 .T x y)
    | "t" => pure (.d2 .t x y) | "Y" => pure (.d2 .Y x y) | "y" => pure (.d2 .y x y)
    | _ => none
  | [v, a, b, x, y] => do
    let a ← parseF32 a; let b ← parseF32 b; let x ← parseF32 x; let y ← parseF32 y
    match v with
    | "Q" => pure (.d4 .Q a b x y) | "q" => pure (.d4 .q a b x y)
    | "S" => pure (.d4 .S a b x y) | "s" => pure (.d4 .s a b x y)
    | _ => none
  | [v, a, b, c, d, x, y] => do
    let a ← parseF32 a; let b ← parseF32 b; let c ← parseF32 c; let d ← parseF32 d
    let x ← parseF32 x; let y ← parseF32 y
    match v with
    | "C" => pure (.d6 .C a b c d x y) | "c" => pure (.d6 .c a b c d x y)
    | _ => none
  | [v, rx, ry, rot, la, sw, x, y] => do
    let rx ← parseF32 rx; let ry ← parseF32 ry; let rot ← parseF32 rot
    let la ← parseBool la; let sw ← parseBool sw
    let x ← parseF32 x; let y ← parseF32 y
    match v with
    | "A" => pure (.arc false rx ry rot la sw x y) | "a" => pure (.arc true rx ry rot la sw x y)
    | _ => none
  | _ => none

def words (s : String) : List String := (s.splitOn " ").filter (· ≠ "")

/-- split a body into `;`-separated groups of tokens -/
def splitOps (s : String) : List (List String) :=
  ((s.splitOn ";").map words).filter (fun t => t ≠ [] ∧ t ≠ ["-"])

def parseEncOp (toks : List String) : Option Enc.EncOp :=
  match toks with
  | ["rc"] => some .readCSel
  | ["rn"] => some .readNSel
  | ["rlod"] => some .readLOD
  | ["bytes"] => some .bytes
  | ["hires", b] => (parseBool b).map .setHiRes
  | _ => (parseCall toks).map .call

def showEncObs : Enc.EncObs → String
  | .sel v => s!"s={v}"
  | .lod a b => s!"lod={hexF32 a},{hexF32 b}"
  | .bytes (.ok bs) => s!"B={hexBytes bs}"
  | .bytes (.error e) => "E=" ++ e.message.replace " " "_"

def showDecErr : Option Dec.DecErr → String
  | none => "ok"
  | some e => e.message.replace " " "_"

end Ivg.Proto
