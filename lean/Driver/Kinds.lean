import Driver.Disasm
import Ivg.Model.Arc
import Ivg.Model.MdIcons
import Ivg.Spec.FFV0
/-!
# Driver handlers for the renderer / gradient / generator / converter / fit / disassembly cases
Untrusted glue around the model functions.
-/
namespace Ivg.Proto
open Ivg Num Ren Grad

abbrev R := Renderer F32 F64

def showF32A (f : F32) : String := if f.isNaN then "nan" else hexF32 f
def showF64A (f : F64) : String := if f.isNaN then "nan" else hexF64 f

def showRGBA64 (c : RGBA64) : String := s!"{hexN 4 c.r}.{hexN 4 c.g}.{hexN 4 c.b}.{hexN 4 c.a}"

def showPaint (samples : List (Int × Int)) : Paint F64 → String
  | .flat c => "U" ++ hexRGBA c
  | .gradient g =>
    let offs := g.stopOffsets
    let cols := g.stopColors
    let stops := ",".intercalate ((offs.zip cols).map fun (o, c) => showF64A o ++ "." ++ hexRGBA c)
    let m := g.pix2Grad
    let tr := ".".intercalate ([m.a, m.b, m.c, m.d, m.e, m.f].map showF64A)
    let smp := ",".intercalate (samples.map fun (x, y) => showRGBA64 (Gradient.at (α := F32) g x y))
    s!"G{g.shape}{g.spread}:{offs.length}:{stops}:{tr}" ++ (if samples.isEmpty then "" else ":@" ++ smp)

def showRasterOp (samples : List (Int × Int)) : RasterOp F32 F64 → String
  | .reset w h => s!"R {w} {h}"
  | .moveTo x y => s!"M {showF32A x} {showF32A y}"
  | .lineTo x y => s!"L {showF32A x} {showF32A y}"
  | .quadTo a b c d => s!"Q {showF32A a} {showF32A b} {showF32A c} {showF32A d}"
  | .cubeTo a b c d e f => s!"C {showF32A a} {showF32A b} {showF32A c} {showF32A d} {showF32A e} {showF32A f}"
  | .closePath => "Z"
  | .draw r p => s!"D {r.minX} {r.minY} {r.maxX} {r.maxY} {showPaint samples p}"

def parseInt (s : String) : Option Int :=
  match s.toList with
  | '-' :: r => (String.ofList r).toNat?.map fun n => -(n : Int)
  | _ => s.toNat?.map fun n => (n : Int)

def parseSamples (s : String) : Option (List (Int × Int)) :=
  if s == "-" then some [] else
  (s.splitOn ";").mapM fun p =>
    match p.splitOn "," with
    | [x, y] => do pure (← parseInt x, ← parseInt y)
    | _ => none

inductive RenOp | call (c : Call F32) | rc | rn | rast (r : Ren.Rect)

def parseRenOp (toks : List String) : Option RenOp :=
  match toks with
  | ["rc"] => some .rc
  | ["rn"] => some .rn
  | ["rast", x0, y0, x1, y1] => do pure (.rast ⟨← parseInt x0, ← parseInt y0, ← parseInt x1, ← parseInt y1⟩)
  | _ => (parseCall toks).map .call

def runRen (hdr : List String) (body : String) : String :=
  match hdr with
  | [x0, y0, x1, y1, smp] =>
    match parseInt x0, parseInt y0, parseInt x1, parseInt y1, parseSamples smp, (splitOps body).mapM parseRenOp with
    | some x0, some y0, some x1, some y1, some samples, some ops =>
      let z : R := (Renderer.zero : R).setRasterizer ⟨x0, y0, x1, y1⟩
      let (_, out) := ops.foldl (fun (acc : R × List String) op =>
        let (z, out) := acc
        match op with
        | .rc => (z, s!"s={z.cSel}" :: out)
        | .rn => (z, s!"s={z.nSel}" :: out)
        | .rast r => (z.setRasterizer r, out)
        | .call c =>
          let (z, rops) := z.step arcF32 F32.posInf c
          (z, (rops.map (showRasterOp samples)).reverse ++ out)) (z, [])
      if out.isEmpty then "-" else " ; ".intercalate out.reverse
    | _, _, _, _, _, _ => "BAD-CASE"
  | _ => "BAD-CASE"

def runFit (hdr : List String) : String :=
  match hdr with
  | [mode, a, b, c, d, dx, dy, ax, ay] =>
    match parseF32 a, parseF32 b, parseF32 c, parseF32 d, parseF32 dx, parseF32 dy, parseF32 ax, parseF32 ay with
    | some a, some b, some c, some d, some dx, some dy, some ax, some ay =>
      let vb : ViewBox F32 := ⟨a, b, c, d⟩
      if mode == "size" then let (w, h) := vb.size; s!"{showF32A w} {showF32A h}"
      else
        let (p, q, r, s) := if mode == "meet" then vb.aspectMeet dx dy ax ay else vb.aspectSlice dx dy ax ay
        s!"{showF32A p} {showF32A q} {showF32A r} {showF32A s}"
    | _, _, _, _, _, _, _, _ => "BAD-CASE"
  | _ => "BAD-CASE"

/-! generator cases -/

def parseStops (s : String) : Option (List (F32 × RGBA)) :=
  if s == "-" then some [] else
  (s.splitOn ",").mapM fun p =>
    match p.splitOn ":" with
    | [o, c] => do pure (← parseF32 o, ← parseRGBA c)
    | _ => none

def parseAff (s : String) : Option (Gen.Aff3 F32) :=
  match (s.splitOn ".").mapM parseF32 with
  | some [a, b, c, d, e, f] => some ⟨a, b, c, d, e, f⟩
  | _ => none

def hexToString (s : String) : Option String :=
  (parseBytes s).map fun bs => String.ofList (bs.map fun b => Char.ofNat b.toNat)

structure GenState where
  cSel : UInt8 := 0
  nSel : UInt8 := 0
  transforms : List (Gen.Aff3 F32) := []
  calls : List (Call F32) := []      -- reversed
  errs : List String := []           -- reversed

def GenState.deliver (g : GenState) (cs : List (Call F32)) : GenState :=
  cs.foldl (fun g c =>
    let g := { g with calls := c :: g.calls }
    match c with
    | .reset _ _ => { g with cSel := 0, nSel := 0 }
    | .setCSel v => { g with cSel := v &&& 0x3f }
    | .setNSel v => { g with nSel := v &&& 0x3f }
    | .setCReg _ true _ => { g with cSel := (g.cSel + 1) &&& 0x3f }
    | .setNReg _ true _ => { g with nSel := (g.nSel + 1) &&& 0x3f }
    | _ => g) g

def GenState.helper (g : GenState) (r : Except Gen.GenErr (List (Call F32))) : GenState :=
  match r with
  | .ok cs => { g.deliver cs with errs := "ok" :: g.errs }
  | .error e => { g with errs := e.message.replace " " "_" :: g.errs }

def genStep (g : GenState) (toks : List String) : Option GenState :=
  match toks with
  | ["lin", x1, y1, x2, y2, sp, st] => do
    let x1 ← parseF32 x1; let y1 ← parseF32 y1; let x2 ← parseF32 x2; let y2 ← parseF32 y2
    let sp ← parseU8 sp; let st ← parseStops st
    pure (g.helper (Gen.setGradient g.cSel g.nSel 0 sp st (Gen.linearMatrix x1 y1 x2 y2)))
  | ["circ", cx, cy, rx, ry, sp, st] => do
    let cx ← parseF32 cx; let cy ← parseF32 cy; let rx ← parseF32 rx; let ry ← parseF32 ry
    let sp ← parseU8 sp; let st ← parseStops st
    pure (g.helper (Gen.setGradient g.cSel g.nSel 1 sp st (Gen.circularMatrix (β := F64) cx cy rx ry)))
  | ["ell", cx, cy, rx, ry, sx, sy, sp, st] => do
    let cx ← parseF32 cx; let cy ← parseF32 cy; let rx ← parseF32 rx; let ry ← parseF32 ry
    let sx ← parseF32 sx; let sy ← parseF32 sy
    let sp ← parseU8 sp; let st ← parseStops st
    pure (g.helper (Gen.setGradient g.cSel g.nSel 1 sp st (Gen.ellipticalMatrix cx cy rx ry sx sy)))
  | ["grad", sh, sp, st, m] => do
    let sh ← parseU8 sh; let sp ← parseU8 sp; let st ← parseStops st; let m ← parseAff m
    pure (g.helper (Gen.setGradient g.cSel g.nSel sh sp st m))
  | ["xf", ms] => do
    let ms ← if ms == "-" then some [] else (ms.splitOn ",").mapM parseAff
    pure { g with transforms := [Gen.concat ms] }
  | ["path", adj, hx] => do
    let adj ← parseU8 adj; let d ← hexToString hx
    -- SetPathData delivers the calls made before an error too
    pure (g.helper (Gen.setPathData g.transforms d adj))
  | _ => do
    let c ← parseCall toks
    pure (g.deliver [c])

def runGen (body : String) : String :=
  match (splitOps body).foldlM genStep ({} : GenState) with
  | none => "BAD-CASE"
  | some g => showCalls g.calls.reverse ++ " # " ++ (if g.errs.isEmpty then "-" else " ".intercalate g.errs.reverse)

/-! converter cases -/

def parseCircles (s : String) : Option (List (Md.Circle F32)) :=
  if s == "-" then some [] else
  (s.splitOn ":").mapM fun p =>
    match (p.splitOn ",").mapM parseF32 with
    | some [a, b, c] => some ⟨a, b, c⟩
    | _ => none

def runMdi (hdr : List String) (body : String) : String :=
  match hdr.mapM parseF32 with
  | some [size, offX, offY, outSize] =>
    let r := (splitOps body).foldlM (fun (acc : List (F32 × UInt8) × List (Call F32) × List String) toks =>
      match toks with
      | [op, hx, circ] => do
        let op ← parseF32 op; let d ← hexToString hx; let cs ← parseCircles circ
        let (adjs, calls, errs) := acc
        let (adjs', res) := Md.parsePath adjs d op size offX offY outSize cs
        match res with
        | .ok c => pure (adjs', calls ++ c, errs ++ ["ok"])
        | .error _ => pure (adjs', calls, errs ++ ["err"])
      | _ => none) ([], [], [])
    match r with
    | some (_, calls, errs) => showCalls calls ++ " # " ++ " ".intercalate errs
    | none => "BAD-CASE"
  | _ => "BAD-CASE"

def runDis (body : String) : String :=
  match parseBytes body.trimAscii.toString with
  | some bs =>
    match Dec.disassemble bs with
    | .ok ls => showListing ls ++ " # ok"
    | .error e => "# " ++ showDecErr (some e)
  | none => "BAD-CASE"

/-- the independent specification parser (C03) -/
def runSpec (body : String) : String :=
  match parseBytes body.trimAscii.toString with
  | some bs =>
    match Spec.FFV0.parse bs with
    | some cs => showCalls cs ++ " # ok"
    | none => "# rejected"
  | none => "BAD-CASE"

end Ivg.Proto
