import Driver.Proto
/-!
# Text rendering of disassembly lines (mirrors the format strings of decode.go / color.go)
Untrusted glue.  Floats are printed as `#<bits>`; the harness canonicalises Go's `%g` output the same way.
-/
namespace Ivg.Proto
open Ivg Num Dec

def showNum (f : F32) : String := if f.isNaN then "#nan" else "#" ++ hexF32 f

def colorString1 (c : Color) : String :=
  match c.typ with
  | .rgba =>
    let d := c.data
    if d.validPremul then "RGBA " ++ hexRGBA d
    else if d.validGradient then
      let shape := if (d.b >>> 6) &&& 1 == 0 then "linear" else "radial"
      let spread := match (d.g >>> 6).toNat with | 0 => "none" | 1 => "pad" | 2 => "reflect" | _ => "repeat"
      s!"gradient (NSTOPS={d.r &&& 0x3f}, CBASE={d.g &&& 0x3f}, NBASE={d.b &&& 0x3f}, {shape}, {spread})"
    else "nonsensical color"
  | .paletteIndex => s!"customPalette[{c.data.r}]"
  | .cReg => s!"CREG[{c.data.r}]"
  | .blend => "nonsensical color"   -- not reached: a 1-byte colour is never a blend

def colorString (c : Color) : String :=
  match c.typ with
  | .blend =>
    let t := c.data.r
    s!"blend ({0xff - t.toNat}:{t}) ({colorString1 (decodeColor1 c.data.g)}:{colorString1 (decodeColor1 c.data.b)})"
  | _ => colorString1 c

def repOpName : RepOp → String
  | .L => "L (absolute lineTo)" | .l => "l (relative lineTo)"
  | .T => "T (absolute smooth quadTo)" | .t => "t (relative smooth quadTo)"
  | .Q => "Q (absolute quadTo)" | .q => "q (relative quadTo)"
  | .S => "S (absolute smooth cubeTo)" | .s => "s (relative smooth cubeTo)"
  | .C => "C (absolute cubeTo)" | .c => "c (relative cubeTo)"
  | .A => "A (absolute arcTo)" | .a => "a (relative arcTo)"

def hexNat (n : Nat) : String :=
  if n == 0 then "0" else
  let rec go (fuel n : Nat) (acc : List Char) : List Char :=
    match fuel with
    | 0 => acc
    | fuel + 1 => if n == 0 then acc else go fuel (n / 16) (hexDigit (n % 16) :: acc)
  String.ofList (go 16 n [])

def lineText : LineKind → String
  | .magic => "IconVG Magic identifier"
  | .nChunks n => s!"Number of metadata chunks: {n}"
  | .chunkLen n => s!"Metadata chunk length: {n}"
  | .mid m => s!"Metadata Identifier: {m} ({if m == 0 then "viewBox" else "suggested palette"})"
  | .palHeader count bpc => s!"    {count} palette colors, {bpc} bytes per color"
  | .palColor c => "    RGBA " ++ hexRGBA c
  | .number f => "    " ++ showNum f
  | .nregNumber f => "    " ++ showNum f
  | .setCSel v => s!"Set CSEL = {v}"
  | .setNSel v => s!"Set NSEL = {v}"
  | .setCReg adj incr nBytes directness =>
    let dir := match directness with | 0 => "" | 1 => " (direct)" | _ => " (indirect)"
    if incr then s!"Set CREG[CSEL-0] to a {nBytes} byte{dir} color; CSEL++"
    else s!"Set CREG[CSEL-{adj}] to a {nBytes} byte{dir} color"
  | .color c => "    " ++ colorString c
  | .setNReg adj incr typ =>
    let t := match typ with | 0 => "real" | 1 => "coordinate" | _ => "zero-to-one"
    if incr then s!"Set NREG[NSEL-0] to a {t} number; NSEL++"
    else s!"Set NREG[NSEL-{adj}] to a {t} number"
  | .startPath adj => s!"Start path, filled with CREG[CSEL-{adj}]; M (absolute moveTo)"
  | .setLOD => "Set LOD"
  | .drawHdr op n => s!"{repOpName op}, {n} reps"
  | .implicit op => s!"{repOpName op}, implicit"
  | .angle f => s!"    {showNum f} × 360 degrees ({showNum (f * F32.ofInt 360)} degrees)"
  | .arcFlags x => s!"    0x{hexNat x} (largeArc={x % 2}, sweep={x / 2 % 2})"
  | .closeEnd => "z (closePath); end path"
  | .closeAbs => "z (closePath); M (absolute moveTo)"
  | .closeRel => "z (closePath); m (relative moveTo)"
  | .absH => "H (absolute horizontal lineTo)"
  | .relH => "h (relative horizontal lineTo)"
  | .absV => "V (absolute vertical lineTo)"
  | .relV => "v (relative vertical lineTo)"

def showLine (l : Line) : String :=
  " ".intercalate (l.bytes.map hexByte) ++ ":" ++ lineText l.kind

def showListing (ls : List Line) : String := " // ".intercalate (ls.map showLine)

end Ivg.Proto
