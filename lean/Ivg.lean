import Ivg.Num.F32
