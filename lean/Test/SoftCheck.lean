import Ivg.Num.F32
open Ivg.Num

/-- xorshift PRNG -/
def nextR (s : UInt64) : UInt64 :=
  let s := s ^^^ (s <<< 13); let s := s ^^^ (s >>> 7); s ^^^ (s <<< 17)

def interesting32 : Array UInt32 := #[0, 0x80000000, 1, 0x80000001, 0x007fffff, 0x00800000, 0x3f800000, 0xbf800000,
  0x7f7fffff, 0x7f800000, 0xff800000, 0x7fc00000, 0x7f800001, 0x3bffffff, 0x42800000, 0x4b000000, 0x4b800000, 0x3f000000, 0x34000000]

def pick32 (s : UInt64) : UInt32 :=
  let r := s.toUInt32
  match (s >>> 32).toNat % 4 with
  | 0 => interesting32[(s >>> 40).toNat % interesting32.size]!
  | 1 => -- near 1..1000 small exponents
    (r &&& (0x807fffff : UInt32)) ||| ((((s >>> 40).toUInt32 % (40:UInt32)) + (110:UInt32)) <<< (23:UInt32))
  | _ => r

def sameF32 (a : F32) (b : Float32) : Bool :=
  a.bits == b.toBits || (a.isNaN && b.isNaN)

def check32 (n : Nat) : IO Unit := do
  let mut s : UInt64 := 0x9E3779B97F4A7C15
  let mut bad := 0
  for _ in [0:n] do
    s := nextR s; let a := pick32 s
    s := nextR s; let b := pick32 s
    let fa := Float32.ofBits a; let fb := Float32.ofBits b
    let xa : F32 := ⟨a⟩; let xb : F32 := ⟨b⟩
    let tests : List (String × F32 × Float32) := [
      ("add", xa + xb, fa + fb), ("sub", xa - xb, fa - fb), ("mul", xa * xb, fa * fb), ("div", xa / xb, fa / fb),
      ("cvt", (F64.ofF32 xa).toF32, fa.toFloat.toFloat32)]
    for (nm, x, y) in tests do
      if !sameF32 x y then
        bad := bad + 1
        if bad < 20 then IO.println s!"MISMATCH32 {nm} {a} {b}: soft {x.bits} native {y.toBits}"
    if (xa < xb) != (decide (fa < fb)) || (xa ≤ xb) != (decide (fa ≤ fb)) || (xa.feq xb) != (fa == fb) then
      bad := bad + 1
      if bad < 20 then IO.println s!"MISMATCH32 cmp {a} {b}"
  IO.println s!"check32 done bad={bad}"

def pick64 (s t : UInt64) : UInt64 :=
  match (t >>> 32).toNat % 4 with
  | 0 => (Float32.ofBits (pick32 t)).toFloat.toBits
  | 1 => (s &&& (0x800fffffffffffff : UInt64)) ||| ((((t >>> 40) % (80:UInt64)) + (983:UInt64)) <<< (52:UInt64))
  | _ => s

def same64 (a : F64) (b : Float) : Bool := a.bits == b.toBits || (a.isNaN && b.isNaN)

def check64 (n : Nat) : IO Unit := do
  let mut s : UInt64 := 0x123456789abcdef1
  let mut bad := 0
  for _ in [0:n] do
    s := nextR s; let s1 := s; s := nextR s; let a := pick64 s1 s
    s := nextR s; let s2 := s; s := nextR s; let b := pick64 s2 s
    let fa := Float.ofBits a; let fb := Float.ofBits b
    let xa : F64 := ⟨a⟩; let xb : F64 := ⟨b⟩
    let tests : List (String × F64 × Float) := [
      ("add", xa + xb, fa + fb), ("sub", xa - xb, fa - fb), ("mul", xa * xb, fa * fb), ("div", xa / xb, fa / fb),
      ("sqrt", xa.sqrt, fa.sqrt), ("floor", xa.floor, fa.floor), ("ceil", xa.ceil, fa.ceil)]
    for (nm, x, y) in tests do
      if !same64 x y then
        bad := bad + 1
        if bad < 20 then IO.println s!"MISMATCH64 {nm} {a} {b}: soft {x.bits} native {y.toBits}"
    if !sameF32 xa.toF32 fa.toFloat32 then
      bad := bad + 1
      if bad < 20 then IO.println s!"MISMATCH64 toF32 {a}"
  IO.println s!"check64 done bad={bad}"

def main : IO Unit := do
  check32 200000
  check64 200000
