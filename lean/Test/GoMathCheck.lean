import Ivg.Model.GoMath
/-!
Bit-for-bit validation of `Ivg.GoMath` against Go's `math` package.

    cd /verif/harness && go run ./cmd/gomathvec -n 5000 | (cd /verif/lean && lake env lean --run Test/GoMathCheck.lean)

Reads lines `fn <inputbits hex16> <outputbits hex16>` from stdin, evaluates the
Lean model and reports mismatches (NaN == NaN regardless of payload).
Exit code 1 when there is any mismatch or malformed line.
-/
open Ivg.Num

def hexDigit? (c : Char) : Option Nat :=
  if '0' ≤ c ∧ c ≤ '9' then some (c.toNat - '0'.toNat)
  else if 'a' ≤ c ∧ c ≤ 'f' then some (c.toNat - 'a'.toNat + 10)
  else if 'A' ≤ c ∧ c ≤ 'F' then some (c.toNat - 'A'.toNat + 10)
  else none

def parseHex? (s : String) : Option Nat :=
  if s.isEmpty then none else
  s.foldl (fun acc c => match acc, hexDigit? c with
    | some a, some d => some (a * 16 + d)
    | _, _ => none) (some 0)

def hex16 (n : Nat) : String :=
  let ds := (Nat.toDigits 16 n)
  String.ofList (List.replicate (16 - ds.length) '0' ++ ds)

def fnOf (name : String) : Option (F64 → F64) :=
  match name with
  | "sin" => some Ivg.GoMath.sin
  | "cos" => some Ivg.GoMath.cos
  | "asin" => some Ivg.GoMath.asin
  | "acos" => some Ivg.GoMath.acos
  | "atan" => some Ivg.GoMath.atan
  | _ => none

structure Stat where
  name : String
  total : Nat := 0
  bad : Nat := 0

def bump (stats : Array Stat) (name : String) (isBad : Bool) : Array Stat :=
  match stats.findIdx? (·.name == name) with
  | some i => stats.modify i fun s => { s with total := s.total + 1, bad := s.bad + (if isBad then 1 else 0) }
  | none => stats.push { name := name, total := 1, bad := if isBad then 1 else 0 }

def main : IO UInt32 := do
  let stdin ← IO.getStdin
  let mut stats : Array Stat := #[]
  let mut shown := 0
  let mut malformed := 0
  repeat
    let line ← stdin.getLine
    if line.isEmpty then break
    let ws := (line.trimAscii.toString.splitOn " ").filter (· ≠ "")
    if ws.isEmpty then continue
    match ws with
    | [name, i, o] =>
      match fnOf name, parseHex? i, parseHex? o with
      | some f, some ib, some ob =>
        let x := F64.ofNatBits ib
        let want := F64.ofNatBits ob
        let got := f x
        let ok := got.bits == want.bits || (got.isNaN && want.isNaN)
        stats := bump stats name (!ok)
        if !ok && shown < 20 then
          shown := shown + 1
          IO.println s!"MISMATCH {name} in={hex16 ib} go={hex16 ob} lean={hex16 got.bits.toNat}"
      | _, _, _ =>
        malformed := malformed + 1
        if malformed ≤ 5 then IO.println s!"MALFORMED: {line.trimAscii}"
    | _ =>
      malformed := malformed + 1
      if malformed ≤ 5 then IO.println s!"MALFORMED: {line.trimAscii}"
  let mut totalBad := 0
  let mut total := 0
  for s in stats do
    IO.println s!"{s.name}: vectors={s.total} mismatches={s.bad}"
    totalBad := totalBad + s.bad
    total := total + s.total
  IO.println s!"TOTAL: vectors={total} mismatches={totalBad} malformed={malformed}"
  return (if totalBad == 0 && malformed == 0 && total > 0 then 0 else 1)
