import Driver.Proto
