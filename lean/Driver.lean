import Driver.Proto
import Driver.Disasm
import Driver.Kinds
