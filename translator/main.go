// translator: Go (go/ssa) -> Lean 4 for the loop-free, interface-free functions of reactivego/ivg.
//
// Every function of the module's library packages is symbolically executed over its SSA form, path by path
// (an `if` becomes a Lean `if`, join blocks are re-visited once per path, a phi takes the value of the edge
// the path came in on).  Memory is modelled exactly for what such functions do: local allocations of structs
// and arrays (composite literals, varargs), fields of pointer parameters (read = an input of the Lean
// function, written = an extra output), whole-value loads and stores.  Anything else (loops, interface
// calls, recursion, maps, channels, defer, panics, closures with free variables, dynamic slicing of arrays,
// stores into slice elements) makes the function "unsupported": it is listed with the reason and left to the
// hand-written model + correspondence.  The output is a set of Lean files under Ivg/Gen/Code which depend
// only on the soft-float (Ivg/Num) and a 100-line prelude giving the meaning of Go's primitive operations.
package main

import (
	"fmt"
	"go/constant"
	"go/token"
	"go/types"
	"math"
	"os"
	"path/filepath"
	"sort"
	"strings"

	"golang.org/x/tools/go/packages"
	"golang.org/x/tools/go/ssa"
	"golang.org/x/tools/go/ssa/ssautil"
)

const modPath = "github.com/reactivego/ivg"

// objectLike: named interface types on whose values the module's code calls methods (raster.Rasterizer, ivg.Destination,
// …).  A value of such a type is an abstract object (see invoke).  A value of any OTHER interface type is only stored,
// compared with nil and handed on: it is a handle, `Go.Ref` — for `&z.field` converted to an interface, the field's path.
var objectLike = map[string]bool{}

func isHandleType(ty types.Type) bool {
	n, ok := ty.(*types.Named)
	if !ok {
		return false
	}
	if _, isI := n.Underlying().(*types.Interface); !isI || n.Obj().Pkg() == nil {
		return false
	}
	return !objectLike[n.Obj().Pkg().Path()+"."+n.Obj().Name()]
}

// opaqueTypes: struct types of libraries BELOW the repository whose methods the module's code calls on a value it
// embeds or holds (vec.Rasterizer wraps a vector.Rasterizer).  Such a value is an abstract object, like the object
// behind an interface: a state of type `R_<type>` and one function per operation the translated code performs on it
// (`<type>_ops`: the methods it calls, `set_F`/`get_F` for the exported fields it writes and reads).  Other abstract
// objects handed to a method go in as their state and come back as their new state (the operation is polymorphic in
// their types: it can do nothing with them but hand them back, which is all the translated code can tell).
// pureObservers: methods of library interfaces that are pure functions of the value behind the handle (documented so: a
// color.Color's RGBA is "the alpha-premultiplied red, green, blue and alpha values for the color").  TRUSTED: that they
// are pure, i.e. a caller-supplied colour does not answer differently from call to call.
var pureObservers = map[string]bool{"image/color.Color.RGBA": true}

var opaqueTypes = map[string]bool{"golang.org/x/image/vector.Rasterizer": true}

func opaqueOf(ty types.Type) (string, bool) {
	n, ok := ty.(*types.Named)
	if !ok || n.Obj().Pkg() == nil {
		return "", false
	}
	if !opaqueTypes[n.Obj().Pkg().Path()+"."+n.Obj().Name()] {
		return "", false
	}
	return pkgShort(n.Obj().Pkg()) + "_" + n.Obj().Name(), true
}

func (t *translator) opaqueOp(name, op, sig string) {
	if t.opaqueOps[name] == nil {
		t.opaqueOps[name] = map[string]string{}
		t.oorder = append(t.oorder, name)
	}
	if old, ok := t.opaqueOps[name][op]; ok && old != sig {
		fail("operation %s of %s used at two signatures", op, name)
	}
	t.opaqueOps[name][op] = sig
}

type unsupported struct{ why string }

// pathPanics: the instruction being translated panics on this path (a call of the nil function)
type pathPanics struct{}

func fail(format string, a ...interface{}) { panic(unsupported{fmt.Sprintf(format, a...)}) }

// ---------- types ----------

type translator struct {
	specs     map[string]*fnInfo      // specialised translations by key
	ifaces    map[string]*types.Named // lean name -> named interface type
	iorder    []string
	cur       *fnInfo
	gdefs     map[*types.Package]string
	gcalls    map[*types.Package]map[*ssa.Function]bool
	globals   map[*ssa.Global]*node
	gdone     map[*ssa.Package]bool
	prog      *ssa.Program
	structs   map[string]*types.Struct // lean name -> struct
	sorder    []string
	funcs     map[*ssa.Function]*fnInfo
	opaqueOps map[string]map[string]string // opaque library object type -> operation -> Lean type of the operation
	oorder    []string
}

type ioPath struct {
	param int    // index into fn.Params
	field int    // -1: whole pointee
	name  string // lean variable name
	typ   types.Type
}

type fnInfo struct {
	fn          *ssa.Function
	name        string
	err         string
	done        bool
	busy        bool
	inputs      []ioPath // for pointer params: what is read (depth-1 fields or whole)
	outputs     []ioPath // for pointer params: what is written
	body        string
	retType     string
	params      string
	calls       map[*ssa.Function]bool
	callsFi     map[*fnInfo]bool
	written     map[int]bool          // slice parameters whose elements the function stores into: the new list is an extra result
	escapes     map[int]bool          // slice parameters that are appended to, stored, returned or handed on to such a parameter
	spec        map[int]*ssa.Function // function-typed parameters fixed to a function (nil = the nil function)
	specKey     string
	gdeps       map[*types.Package]bool
	ifaces      map[string]bool
	exts        map[string]string  // pure observers of library handles used (see pureObservers): parameter name -> Lean type
	retConcrete map[int]types.Type // interface-typed results that always box one concrete type
	needInh     bool               // mentions `default` at an abstract object type (a panic leaf, exhausted fuel): needs [Inhabited R]
	fuel        bool               // takes a fuel argument (has a loop or recursion, or calls something that does)
	selfRec     bool
}

func pkgShort(p *types.Package) string {
	if p == nil {
		return "builtin"
	}
	path := p.Path()
	if path == modPath {
		return "ivg"
	}
	if strings.HasPrefix(path, modPath+"/") {
		return strings.ReplaceAll(strings.TrimPrefix(path, modPath+"/"), "/", "_")
	}
	return strings.NewReplacer("/", "_", ".", "_", "-", "_").Replace(path)
}

func (t *translator) leanType(ty types.Type) string {
	switch u := ty.(type) {
	case *types.Named:
		if name, ok := opaqueOf(u); ok {
			if t.opaqueOps[name] == nil {
				t.opaqueOps[name] = map[string]string{}
				t.oorder = append(t.oorder, name)
			}
			if t.cur != nil {
				t.cur.ifaces[name] = true
			}
			return "R_" + name
		}
		if st, ok := u.Underlying().(*types.Struct); ok {
			name := pkgShort(u.Obj().Pkg()) + "_" + u.Obj().Name()
			if !firstOrder(u) {
				fail("struct type %s with fields that are not first-order values", name)
			}
			if _, seen := t.structs[name]; !seen {
				t.structs[name] = st
				for i := 0; i < st.NumFields(); i++ {
					t.leanType(st.Field(i).Type())
				}
				t.sorder = append(t.sorder, name)
			}
			return name
		}
		if _, ok := u.Underlying().(*types.Interface); ok {
			if u.Obj().Pkg() == nil {
				if u.Obj().Name() == "error" {
					// an error value is nil or carries the text of a string-typed error (EncodeError("…")): what the
					// translated code does with errors is compare them with nil, store them and return them
					return "Go.Err"
				}
				fail("interface type %s", u)
			}
			if isHandleType(u) {
				return "Go.Ref"
			}
			name := pkgShort(u.Obj().Pkg()) + "_" + u.Obj().Name()
			if _, seen := t.ifaces[name]; !seen {
				t.ifaces[name] = u
				t.iorder = append(t.iorder, name)
			}
			if t.cur != nil {
				t.cur.ifaces[name] = true
			}
			return "R_" + name
		}
		if pt, ok := updaterOf(u); ok {
			return "(" + t.leanType(pt) + " → " + t.leanType(pt) + ")"
		}
		return t.leanType(u.Underlying())
	case *types.Alias:
		return t.leanType(types.Unalias(u))
	case *types.Basic:
		switch u.Kind() {
		case types.Bool, types.UntypedBool:
			return "Bool"
		case types.Uint8:
			return "UInt8"
		case types.Uint16:
			return "UInt16"
		case types.Uint32:
			return "UInt32"
		case types.Uint64:
			return "UInt64"
		case types.Int8:
			return "Int8"
		case types.Int16:
			return "Int16"
		case types.Int32:
			return "Int32"
		case types.Int, types.Int64, types.UntypedInt:
			return "Int"
		case types.Uint:
			return "UInt64" // amd64
		case types.Float32:
			return "F32"
		case types.Float64, types.UntypedFloat:
			return "F64"
		case types.String, types.UntypedString:
			return "String"
		}
		fail("basic type %s", u)
	case *types.Array:
		return fmt.Sprintf("(Vector %s %d)", t.leanType(u.Elem()), u.Len())
	case *types.Slice:
		return fmt.Sprintf("(List %s)", t.leanType(u.Elem()))
	case *types.Tuple:
		if u.Len() == 0 {
			return "Unit"
		}
		var parts []string
		for i := 0; i < u.Len(); i++ {
			parts = append(parts, t.leanType(u.At(i).Type()))
		}
		return "(" + strings.Join(parts, " × ") + ")"
	case *types.Signature:
		return "Go.FnRef" // a function value that is only handed on: the name of the function
	case *types.Struct:
		// an anonymous struct type gets a name from its field names
		var fs []string
		for i := 0; i < u.NumFields(); i++ {
			fs = append(fs, u.Field(i).Name())
		}
		name := "anon_" + strings.Join(fs, "_")
		if old, seen := t.structs[name]; seen {
			if !types.Identical(old, u) {
				fail("two anonymous struct types with the same field names")
			}
			return name
		}
		t.structs[name] = u
		for i := 0; i < u.NumFields(); i++ {
			t.leanType(u.Field(i).Type())
		}
		t.sorder = append(t.sorder, name)
		return name
	}
	fail("type %s", ty)
	return ""
}

// updaterOf: a NAMED function type `func(*S)` for a struct S passed by value elsewhere (decode.DecodeOption).  A value
// of such a type whose origin is unknown (an element of a caller-supplied list) is modelled as a function `S → S` on the
// pointee: all the translated code does with it is call it on a pointer and carry on with what the pointee then holds.
func updaterOf(ty types.Type) (types.Type, bool) {
	n, ok := ty.(*types.Named)
	if !ok {
		return nil, false
	}
	sig, ok := n.Underlying().(*types.Signature)
	if !ok || sig.Variadic() || sig.Params().Len() != 1 || sig.Results().Len() != 0 {
		return nil, false
	}
	pt, ok := sig.Params().At(0).Type().Underlying().(*types.Pointer)
	if !ok || !isStruct(pt.Elem()) || !firstOrder(pt.Elem()) {
		return nil, false
	}
	return pt.Elem(), true
}

func isUpdaterSlice(ty types.Type) bool {
	sl, ok := ty.Underlying().(*types.Slice)
	if !ok {
		return false
	}
	_, ok = updaterOf(sl.Elem())
	return ok
}

func isFuncSlice(ty types.Type) bool {
	sl, ok := ty.Underlying().(*types.Slice)
	if !ok {
		return false
	}
	_, isSig := sl.Elem().Underlying().(*types.Signature)
	return isSig
}

func isErrorType(ty types.Type) bool {
	n, ok := ty.(*types.Named)
	return ok && n.Obj().Pkg() == nil && n.Obj().Name() == "error"
}

func isString(ty types.Type) bool {
	b, ok := ty.Underlying().(*types.Basic)
	return ok && b.Info()&types.IsString != 0
}

func tyCode(ty types.Type) string {
	b, ok := ty.Underlying().(*types.Basic)
	if !ok {
		fail("conversion on non-basic type %s", ty)
	}
	switch b.Kind() {
	case types.Uint8:
		return "u8"
	case types.Uint16:
		return "u16"
	case types.Uint32:
		return "u32"
	case types.Uint64:
		return "u64"
	case types.Int8:
		return "i8"
	case types.Int16:
		return "i16"
	case types.Int32:
		return "i32"
	case types.Int, types.Int64:
		return "int"
	case types.Uint:
		return "u64" // amd64
	case types.Float32:
		return "f32"
	case types.Float64:
		return "f64"
	case types.Bool:
		return "bool"
	}
	fail("conversion on type %s", ty)
	return ""
}

func (t *translator) zero(ty types.Type) string {
	switch u := ty.Underlying().(type) {
	case *types.Basic:
		switch {
		case u.Info()&types.IsBoolean != 0:
			return "false"
		case u.Info()&types.IsFloat != 0:
			return "(⟨0⟩ : " + t.leanType(ty) + ")"
		case u.Info()&types.IsInteger != 0:
			return "(0 : " + t.leanType(ty) + ")"
		case u.Info()&types.IsString != 0:
			return "\"\""
		}
	case *types.Struct:
		return t.leanType(ty) + ".zero"
	case *types.Array:
		return fmt.Sprintf("(Vector.replicate %d %s)", u.Len(), t.zero(u.Elem()))
	case *types.Slice:
		return "([] : " + t.leanType(ty) + ")"
	case *types.Interface:
		if isErrorType(ty) {
			return "(none : Go.Err)"
		}
		if isHandleType(ty) {
			return "(Go.ref \"\")"
		}
	}
	fail("zero value of %s", ty)
	return ""
}

// ---------- symbolic state ----------

type node struct {
	typ  types.Type
	expr string           // opaque whole value (when kids == nil)
	kids map[string]*node // by field name or "#i"
}

func (n *node) clone() *node {
	if n == nil {
		return nil
	}
	c := &node{typ: n.typ, expr: n.expr}
	if n.kids != nil {
		c.kids = map[string]*node{}
		for k, v := range n.kids {
			c.kids[k] = v.clone()
		}
	}
	return c
}

type cell struct {
	viewVal *viewInfo // a local slice variable holding a view (see viewInfo)
	ptrVal  *ptrv     // a local variable of pointer type (e.g. a captured receiver): the pointer it holds
	id      int
	param   int // >= 0: the pointee of pointer parameter #param; -1: local
	root    *node
}

type step struct {
	field  int // struct field index or -1
	name   string
	idx    string // lean Nat expression for an index step
	cidx   int64  // constant index or -1
	elemTy types.Type
}

type ptrv struct {
	cell *cell
	path []step
}

// viewInfo: a slice that is a window [lo, lo+length) of an array, all three known at translation time (`e.scratch[4:4]`)
type viewInfo struct {
	arr    *ptrv
	lo     int64
	length int64
	cap    int64
	elemTy types.Type
}

type sym struct {
	ofield     string // the address of field `ofield` of an opaque library object (see opaqueTypes) that lives at ptr
	oname      string
	view       *viewInfo // see viewInfo; appending within the capacity writes into the array
	elems      []string  // a list literal's elements
	emptyFuncs bool      // a slice of function values known to be empty (variadic options not given)
	binds      []sym     // a closure's captured variables (pointers to their storage)
	backLoc    loopLoc   // for a backed slice: the array location and its generation when the slice was taken; the slice value
	backGen    int       // is the list of the array's elements THEN, so it must not be used after the array was written
	wcell      int       // a slice parameter that is written: the cell holding the current list
	backPtr    *ptrv     // the array a backed slice aliases …
	backLo     string    // … from this index on
	backed     bool      // a slice that aliases an array and may have spare capacity: appending to it would write into the array
	fromParam  int       // 1 + index of the slice parameter this slice value comes from (0: none)
	fnNil      bool      // the nil function value
	boxed      bool      // a concrete value converted to an interface: may only be returned
	iface      bool
	expr       string
	ptr        *ptrv
	comps      []sym // tuple
	fn         *ssa.Function
	typ        types.Type
}

type loopLoc struct {
	cell int
	key  string // "" = whole cell, else depth-1 field name
}

type loopInfo struct {
	sumWrt  *loopInfo                // the loop function returns `Ret ⊕ params(sumWrt)`: see loop()
	body    map[*ssa.BasicBlock]bool // the natural loop of the header
	ptypes  []string                 // Lean types of the loop function's parameters (phis, then memory)
	name    string
	id      int
	header  *ssa.BasicBlock
	active  bool
	phis    []*ssa.Phi
	locs    []loopLoc
	locSet  map[loopLoc]bool
	maxCell int // cells with a larger id were allocated inside the loop
	fuel    string
}

type state struct {
	env       map[ssa.Value]sym
	cells     map[int]*cell
	frozen    map[loopLoc]int // arrays that slices alias: generation, incremented by every store into the array
	constCond map[*ssa.BinOp]string
}

func (s *state) clone() *state {
	c := &state{env: map[ssa.Value]sym{}, cells: map[int]*cell{}}
	for k, v := range s.env {
		c.env[k] = v
	}
	for k, v := range s.cells {
		c.cells[k] = &cell{id: v.id, param: v.param, root: v.root.clone(), ptrVal: v.ptrVal, viewVal: v.viewVal}
	}
	if s.frozen != nil {
		c.frozen = map[loopLoc]int{}
		for k, v := range s.frozen {
			c.frozen[k] = v
		}
	}
	if s.constCond != nil {
		c.constCond = map[*ssa.BinOp]string{}
		for k, v := range s.constCond {
			c.constCond[k] = v
		}
	}
	return c
}

type ctx struct {
	t           *translator
	info        *fnInfo
	fn          *ssa.Function
	out         strings.Builder
	ncell       int
	leaves      int
	inputs      map[string]ioPath
	outputs     map[string]ioPath
	inInit      bool
	prefix      string
	loops       map[*ssa.BasicBlock]*loopInfo
	lstack      []*loopInfo
	loopSeq     int
	rerun       bool
	forceCallee *ssa.Function
	frames      []*inlineFrame
	inlineSeq   int
	usesDefault bool
	retConcrete map[int]types.Type
	fuelVar     string // the fuel variable in scope ("" when the function has not needed fuel yet)
	usesFuel    bool
	pcell       map[int]int // param index -> cell id
	fixedOut    []ioPath    // outputs known from the previous pass
	tmp         int
}

func ind(d int) string { return strings.Repeat("  ", d) }

func (c *ctx) paramName(i int) string {
	n := c.fn.Params[i].Name()
	if n == "" || n == "_" {
		n = fmt.Sprintf("p%d", i)
	}
	return leanIdent(n)
}

var leanKeywords = map[string]bool{"at": true, "from": true, "end": true, "fun": true, "let": true, "have": true, "show": true,
	"in": true, "then": true, "else": true, "if": true, "do": true, "open": true, "with": true, "match": true, "def": true,
	"where": true, "by": true, "to": true, "instance": true, "structure": true, "class": true, "Type": true, "Prop": true,
	"set": true, "local": true, "theorem": true, "example": true, "variable": true, "universe": true, "macro": true, "return": true,
	"for": true, "mut": true, "prefix": true, "infix": true, "infixl": true, "infixr": true, "postfix": true, "notation": true, "syntax": true, "attribute": true, "private": true, "protected": true, "partial": true, "unsafe": true, "noncomputable": true, "abbrev": true, "inductive": true, "axiom": true, "opaque": true, "mutual": true, "termination_by": true, "decreasing_by": true, "at'": false, "deriving": true, "extends": true, "import": true, "namespace": true, "section": true, "using": true, "calc": true}

func leanIdent(s string) string {
	if leanKeywords[s] {
		return s + "'"
	}
	return s
}

// ioFor registers (and names) the depth-1 input of a pointer parameter's pointee.
func (c *ctx) ioFor(param int, rootTy types.Type, field int) ioPath {
	pn := c.paramName(param)
	if field < 0 {
		return ioPath{param: param, field: -1, name: pn + "_val", typ: rootTy}
	}
	st := rootTy.Underlying().(*types.Struct)
	return ioPath{param: param, field: field, name: pn + "_" + st.Field(field).Name(), typ: st.Field(field).Type()}
}

func ioKey(p ioPath) string { return fmt.Sprintf("%03d/%03d", p.param, p.field+1) }

func isStruct(ty types.Type) bool { _, ok := ty.Underlying().(*types.Struct); return ok }

// child returns the node below n for the step, expanding or creating it as needed (for reading or writing).
func (c *ctx) child(cl *cell, n *node, st step, depth int) *node {
	return c.child2(cl, n, st, depth, false)
}

func (c *ctx) child2(cl *cell, n *node, st step, depth int, overwrite bool) *node {
	if st.field >= 0 {
		stt := n.typ.Underlying().(*types.Struct)
		if n.kids == nil {
			// expand an opaque struct into its fields
			n.kids = map[string]*node{}
			if n.expr != "" {
				for i := 0; i < stt.NumFields(); i++ {
					f := stt.Field(i)
					n.kids[f.Name()] = &node{typ: f.Type(), expr: "(" + n.expr + ")." + leanIdent(f.Name())}
				}
				n.expr = ""
			}
		}
		k, ok := n.kids[st.name]
		if !ok {
			f := stt.Field(st.field)
			if overwrite {
				k = &node{typ: f.Type()}
			} else if cl.param >= 0 && depth == 0 {
				io := c.ioFor(cl.param, n.typ, st.field)
				c.inputs[ioKey(io)] = io
				k = &node{typ: f.Type(), expr: io.name}
			} else {
				k = &node{typ: f.Type(), expr: c.t.zero(f.Type())}
			}
			n.kids[st.name] = k
		}
		return k
	}
	fail("internal: child on index step")
	return nil
}

// materialize returns a Lean expression for the whole value held in n.
func (c *ctx) materialize(cl *cell, n *node, depth int) string {
	if n.kids == nil {
		if n.expr == "" {
			if cl.param >= 0 && depth == 0 {
				io := c.ioFor(cl.param, n.typ, -1)
				c.inputs[ioKey(io)] = io
				n.expr = io.name
			} else {
				n.expr = c.t.zero(n.typ)
			}
		}
		return n.expr
	}
	switch u := n.typ.Underlying().(type) {
	case *types.Struct:
		var parts []string
		for i := 0; i < u.NumFields(); i++ {
			k := c.child(cl, n, step{field: i, name: u.Field(i).Name()}, depth)
			parts = append(parts, c.materialize(cl, k, depth+1))
		}
		return "(⟨" + strings.Join(parts, ", ") + "⟩ : " + c.t.leanType(n.typ) + ")"
	case *types.Array:
		var parts []string
		for i := int64(0); i < u.Len(); i++ {
			k, ok := n.kids[fmt.Sprintf("#%d", i)]
			if ok {
				parts = append(parts, c.materialize(cl, k, depth+1))
			} else {
				parts = append(parts, c.t.zero(u.Elem()))
			}
		}
		return "(#v[" + strings.Join(parts, ", ") + "] : " + c.t.leanType(n.typ) + ")"
	}
	fail("materialize %s", n.typ)
	return ""
}

func (c *ctx) load(p *ptrv) string {
	n := p.cell.root
	for d, st := range p.path {
		if st.field >= 0 {
			n = c.child(p.cell, n, st, d)
			continue
		}
		// index step
		if n.kids != nil && st.cidx >= 0 {
			k, ok := n.kids[fmt.Sprintf("#%d", st.cidx)]
			if !ok {
				k = &node{typ: st.elemTy, expr: c.t.zero(st.elemTy)}
				n.kids[fmt.Sprintf("#%d", st.cidx)] = k
			}
			n = k
			continue
		}
		whole := c.materialize(p.cell, n, d)
		if _, isSl := n.typ.Underlying().(*types.Slice); isSl {
			n = &node{typ: st.elemTy, expr: "(Go.sliceGet " + whole + " " + st.idx + ")"}
			continue
		}
		n = &node{typ: st.elemTy, expr: "(Go.arrGet " + whole + " " + st.idx + ")"}
	}
	return c.materialize(p.cell, n, len(p.path))
}

func (c *ctx) store(p *ptrv, val string) {
	for _, li := range c.lstack {
		if p.cell.id <= li.maxCell {
			key := ""
			if p.cell.param >= 0 && isStruct(p.cell.root.typ) && len(p.path) > 0 && p.path[0].field >= 0 {
				key = p.path[0].name
			}
			loc := loopLoc{p.cell.id, key}
			if !li.locSet[loc] {
				li.locSet[loc] = true
				li.locs = append(li.locs, loc)
			}
		}
	}
	if p.cell.param >= 0 {
		var io ioPath
		rootTy := p.cell.root.typ
		if isStruct(rootTy) && len(p.path) > 0 && p.path[0].field >= 0 {
			io = c.ioFor(p.cell.param, rootTy, p.path[0].field)
		} else {
			if isStruct(rootTy) {
				// `*e = T{…}`: every field is written
				st := rootTy.Underlying().(*types.Struct)
				for i := 0; i < st.NumFields(); i++ {
					q := &ptrv{cell: p.cell, path: []step{{field: i, name: st.Field(i).Name(), cidx: -1}}}
					c.store(q, "("+val+")."+leanIdent(st.Field(i).Name()))
				}
				return
			}
			io = c.ioFor(p.cell.param, rootTy, -1)
		}
		c.outputs[ioKey(io)] = io
	}
	n := p.cell.root
	for d, st := range p.path {
		if st.field >= 0 {
			n = c.child2(p.cell, n, st, d, d == len(p.path)-1)
			continue
		}
		if _, isSl := n.typ.Underlying().(*types.Slice); isSl && d == len(p.path)-1 {
			whole := c.materialize(p.cell, n, d)
			n.kids = nil
			n.expr = "(Go.sliceSet " + whole + " " + st.idx + " " + val + ")"
			return
		}
		if _, isArr := n.typ.Underlying().(*types.Array); !isArr {
			fail("store through a non-array index")
		}
		last := d == len(p.path)-1
		if p.cell.param < 0 && st.cidx >= 0 && (n.kids != nil || n.expr == "") {
			if n.kids == nil {
				n.kids = map[string]*node{}
			}
			key := fmt.Sprintf("#%d", st.cidx)
			k, ok := n.kids[key]
			if !ok {
				k = &node{typ: st.elemTy, expr: c.t.zero(st.elemTy)}
				n.kids[key] = k
			}
			n = k
			continue
		}
		if !last {
			fail("store below a dynamically indexed array element")
		}
		whole := c.materialize(p.cell, n, d)
		n.kids = nil
		n.expr = "(Go.arrSet " + whole + " " + st.idx + " " + val + ")"
		return
	}
	n.kids = nil
	n.expr = val
}

// ---------- expression translation ----------

func (c *ctx) constExpr(k *ssa.Const) sym {
	ty := k.Type()
	if k.Value == nil {
		if isFuncSlice(ty) {
			return sym{expr: "([] : List Go.FnRef)", emptyFuncs: true, typ: ty}
		}
		if _, isSig := ty.Underlying().(*types.Signature); isSig {
			return sym{fnNil: true, typ: ty}
		}
		if isHandleType(ty) {
			return sym{expr: "(Go.ref \"\")", typ: ty}
		}
		if _, isI := ty.Underlying().(*types.Interface); isI && !isErrorType(ty) {
			return sym{fnNil: true, typ: ty} // the nil interface value: only compared against
		}
		return sym{expr: c.t.zero(ty), typ: ty}
	}
	if isString(ty) && k.Value.Kind() == constant.String {
		return sym{expr: leanString(constant.StringVal(k.Value)), typ: ty}
	}
	b, ok := ty.Underlying().(*types.Basic)
	if !ok {
		fail("constant of type %s", ty)
	}
	switch {
	case b.Info()&types.IsBoolean != 0:
		return sym{expr: fmt.Sprint(constant.BoolVal(k.Value)), typ: ty}
	case b.Info()&types.IsFloat != 0:
		f, _ := constant.Float64Val(constant.ToFloat(k.Value))
		if b.Kind() == types.Float32 {
			return sym{expr: fmt.Sprintf("(⟨0x%08x⟩ : F32)", math.Float32bits(float32(f))), typ: ty}
		}
		return sym{expr: fmt.Sprintf("(⟨0x%016x⟩ : F64)", math.Float64bits(f)), typ: ty}
	case b.Info()&types.IsInteger != 0:
		v := constant.ToInt(k.Value)
		return sym{expr: fmt.Sprintf("(%s : %s)", v.ExactString(), c.t.leanType(ty)), typ: ty}
	}
	fail("constant %s", k)
	return sym{}
}

// leanString: a Go string constant as a Lean expression (bytes above 0x7f and control characters by code)
func leanString(x string) string {
	plain := true
	for i := 0; i < len(x); i++ {
		if x[i] < 0x20 || x[i] > 0x7e || x[i] == '"' || x[i] == '\\' {
			plain = false
		}
	}
	if plain {
		return "\"" + x + "\""
	}
	var parts []string
	for i := 0; i < len(x); i++ {
		parts = append(parts, fmt.Sprintf("%d", x[i]))
	}
	return "(Go.strOfBytes [" + strings.Join(parts, ", ") + "])"
}

// viewSym: the slice value of a view, read from the array as it is now
func (c *ctx) viewSym(s *state, v *viewInfo, ty types.Type) sym {
	if v.length < 0 {
		fail("view of an array whose length is no longer known at translation time (a callee appended to it)")
	}
	ap := &ptrv{cell: s.cells[v.arr.cell.id], path: v.arr.path}
	if ap.cell == nil {
		fail("view of consumed memory")
	}
	whole := c.load(ap)
	key := ""
	if len(ap.path) > 0 {
		key = ap.path[0].name
	}
	return sym{expr: fmt.Sprintf("(Go.slice (%s).toList %d %d)", whole, v.lo, v.lo+v.length), typ: ty, backed: true, view: v,
		backLoc: loopLoc{ap.cell.id, key}, backGen: s.frozen[loopLoc{ap.cell.id, key}], backPtr: ap, backLo: fmt.Sprint(v.lo)}
}

// cur: the current value of a slice parameter that lives in a cell
func (c *ctx) cur(s *state, v sym) sym {
	if v.wcell > 0 {
		v.expr = c.load(&ptrv{cell: s.cells[v.wcell]})
	}
	return v
}

func (c *ctx) val(s *state, v ssa.Value) sym {
	r := c.cur(s, c.val0(s, v))
	if r.backed && r.backGen != 0 && s.frozen[r.backLoc] != r.backGen {
		fail("use of a slice after the array it aliases was written")
	}
	return r
}

func (c *ctx) val0(s *state, v ssa.Value) sym {
	switch x := v.(type) {
	case *ssa.Const:
		return c.constExpr(x)
	case *ssa.Function:
		return sym{fn: x, typ: x.Type()}
	case *ssa.Global:
		if r, ok := s.env[v]; ok {
			return r
		}
		g := c.t.global(x)
		if g == nil {
			fail("global variable %s", x.Name())
		}
		c.info.gdeps[x.Pkg.Pkg] = true
		c.ncell++
		cl := &cell{id: c.ncell, param: -3, root: g.clone()}
		s.cells[cl.id] = cl
		return sym{ptr: &ptrv{cell: cl}, typ: x.Type()}
	}
	if r, ok := s.env[v]; ok {
		return r
	}
	fail("value %s (%T) not available", v.Name(), v)
	return sym{}
}

func isFloat(ty types.Type) bool {
	b, ok := ty.Underlying().(*types.Basic)
	return ok && b.Info()&types.IsFloat != 0
}
func isInt(ty types.Type) bool {
	b, ok := ty.Underlying().(*types.Basic)
	return ok && b.Info()&types.IsInteger != 0
}
func isBigInt(ty types.Type) bool { // Go int / int64, modelled as unbounded Int
	b, ok := ty.Underlying().(*types.Basic)
	return ok && (b.Kind() == types.Int || b.Kind() == types.Int64)
}
func isUnsigned(ty types.Type) bool {
	b, ok := ty.Underlying().(*types.Basic)
	return ok && b.Info()&types.IsUnsigned != 0
}
func bits(ty types.Type) int64 {
	switch ty.Underlying().(*types.Basic).Kind() {
	case types.Uint8, types.Int8:
		return 8
	case types.Uint16, types.Int16:
		return 16
	case types.Uint32, types.Int32:
		return 32
	}
	return 64
}

// constInt: the value of an integer constant operand
func constInt(v ssa.Value) (int64, bool) {
	k, ok := v.(*ssa.Const)
	if !ok || k.Value == nil || !isInt(k.Type()) {
		return 0, false
	}
	n, exact := constant.Int64Val(constant.ToInt(k.Value))
	return n, exact
}

func constIntOrNil(v ssa.Value, dflt int64) (int64, bool) {
	if v == nil {
		return dflt, true
	}
	return constInt(v)
}

func log2(n int64) int64 {
	for k := int64(0); k < 63; k++ {
		if n == 1<<uint(k) {
			return k
		}
	}
	return -1
}

func maxOf(ty types.Type) int64 {
	if isBigInt(ty) {
		return math.MaxInt64
	}
	if isUnsigned(ty) {
		if bits(ty) == 64 {
			return math.MaxInt64
		}
		return 1<<uint(bits(ty)) - 1
	}
	return 1<<uint(bits(ty)-1) - 1
}

func (c *ctx) binop(s *state, b *ssa.BinOp) string {
	x, y := c.val(s, b.X), c.val(s, b.Y)
	ty := b.X.Type()
	fl := tyCode0(ty)
	// spellings of one operation are brought to one form, so that a harmless respelling in the source leaves the
	// generated definition unchanged: unsigned `% 2^k` is `& (2^k-1)`, unsigned `/ 2^k` and `* 2^k` are shifts,
	// `x <= c` is `x < c+1` and `x > c` is `c+1 <= x` for integer constants
	if isInt(ty) && isUnsigned(ty) && !isBigInt(ty) {
		if n, ok := constInt(b.Y); ok && n > 1 && log2(n) > 0 && log2(n) < bits(ty) {
			switch b.Op {
			case token.REM:
				return fmt.Sprintf("(%s &&& (%d : %s))", x.expr, n-1, c.t.leanType(ty))
			case token.QUO:
				return fmt.Sprintf("(%s >>> (%d : %s))", x.expr, log2(n), c.t.leanType(ty))
			case token.MUL:
				return fmt.Sprintf("(%s <<< (%d : %s))", x.expr, log2(n), c.t.leanType(ty))
			}
		}
	}
	if isInt(ty) {
		if n, ok := constInt(b.Y); ok && n < maxOf(ty) {
			switch b.Op {
			case token.LEQ:
				return fmt.Sprintf("(decide (%s < (%d : %s)))", x.expr, n+1, c.t.leanType(ty))
			case token.GTR:
				return fmt.Sprintf("(decide ((%d : %s) ≤ %s))", n+1, c.t.leanType(ty), x.expr)
			}
		}
		if n, ok := constInt(b.X); ok && n < maxOf(ty) {
			switch b.Op {
			case token.LSS: // c < y
				return fmt.Sprintf("(decide ((%d : %s) ≤ %s))", n+1, c.t.leanType(ty), y.expr)
			case token.GEQ: // c >= y
				return fmt.Sprintf("(decide (%s < (%d : %s)))", y.expr, n+1, c.t.leanType(ty))
			}
		}
	}
	switch b.Op {
	case token.ADD, token.SUB, token.MUL:
		if isString(ty) {
			if b.Op != token.ADD {
				fail("string operator %s", b.Op)
			}
			return fmt.Sprintf("(%s ++ %s)", x.expr, y.expr)
		}
		return fmt.Sprintf("(%s %s %s)", x.expr, b.Op, y.expr)
	case token.QUO:
		if isBigInt(ty) {
			return fmt.Sprintf("(Int.tdiv %s %s)", x.expr, y.expr)
		}
		return fmt.Sprintf("(%s / %s)", x.expr, y.expr)
	case token.REM:
		if isBigInt(ty) {
			return fmt.Sprintf("(Int.tmod %s %s)", x.expr, y.expr)
		}
		return fmt.Sprintf("(%s %% %s)", x.expr, y.expr)
	case token.AND:
		if isBigInt(ty) {
			return fmt.Sprintf("(Go.int_and %s %s)", x.expr, y.expr)
		}
		return fmt.Sprintf("(%s &&& %s)", x.expr, y.expr)
	case token.OR:
		if isBigInt(ty) {
			return fmt.Sprintf("(Go.int_or %s %s)", x.expr, y.expr)
		}
		return fmt.Sprintf("(%s ||| %s)", x.expr, y.expr)
	case token.XOR:
		if isBigInt(ty) {
			return fmt.Sprintf("(Go.int_xor %s %s)", x.expr, y.expr)
		}
		return fmt.Sprintf("(%s ^^^ %s)", x.expr, y.expr)
	case token.AND_NOT:
		if isBigInt(ty) {
			fail("&^ on int")
		}
		return fmt.Sprintf("(%s &&& ~~~%s)", x.expr, y.expr)
	case token.SHL, token.SHR:
		k, ok := b.Y.(*ssa.Const)
		if !ok {
			// a shift by a computed amount: Go yields 0 (unsigned) once the amount reaches the width
			if !isUnsigned(ty) || isBigInt(ty) || !isUnsigned(b.Y.Type()) {
				fail("shift of a signed value, or by a signed amount, that is not constant")
			}
			nm := "Go.shl_"
			if b.Op == token.SHR {
				nm = "Go.shr_"
			}
			amt := fmt.Sprintf("(Go.idx_%s %s)", tyCode(b.Y.Type()), y.expr)
			return fmt.Sprintf("(%s%s %s %s)", nm, tyCode(ty), x.expr, amt)
		}
		n, _ := constant.Int64Val(constant.ToInt(k.Value))
		op := "<<<"
		if b.Op == token.SHR {
			op = ">>>"
		}
		if isBigInt(ty) {
			return fmt.Sprintf("(%s %s (%d : Nat))", x.expr, op, n)
		}
		if n >= bits(ty) {
			fail("shift by at least the width")
		}
		return fmt.Sprintf("(%s %s (%d : %s))", x.expr, op, n, c.t.leanType(ty))
	case token.EQL, token.NEQ, token.LSS, token.LEQ, token.GTR, token.GEQ:
		if x.fnNil || y.fnNil || x.fn != nil || y.fn != nil || x.iface || y.iface {
			// nil tests on function values and interface objects are decided at translation time: a known function and
			// an abstract object are not nil
			xn, yn := x.fnNil, y.fnNil
			if !(xn || x.fn != nil || x.iface) || !(yn || y.fn != nil || y.iface) || (!xn && !yn) {
				fail("comparison of function or interface values")
			}
			same := xn == yn
			if (b.Op == token.EQL) == same {
				return "true"
			}
			return "false"
		}
		var e string
		if fl != "" {
			switch b.Op {
			case token.EQL:
				e = fmt.Sprintf("(%s.feq %s %s)", fl, x.expr, y.expr)
			case token.NEQ:
				e = fmt.Sprintf("(!(%s.feq %s %s))", fl, x.expr, y.expr)
			case token.LSS:
				e = fmt.Sprintf("(%s.lt %s %s)", fl, x.expr, y.expr)
			case token.LEQ:
				e = fmt.Sprintf("(%s.le %s %s)", fl, x.expr, y.expr)
			case token.GTR:
				e = fmt.Sprintf("(%s.lt %s %s)", fl, y.expr, x.expr)
			case token.GEQ:
				e = fmt.Sprintf("(%s.le %s %s)", fl, y.expr, x.expr)
			}
			return e
		}
		if isErrorType(ty) || isErrorType(b.Y.Type()) {
			// only comparison with nil
			kx, okx := b.X.(*ssa.Const)
			ky, oky := b.Y.(*ssa.Const)
			var other sym
			switch {
			case oky && ky.Value == nil:
				other = x
			case okx && kx.Value == nil:
				other = y
			default:
				fail("comparison of two error values")
			}
			if b.Op == token.EQL {
				return "(" + other.expr + ").isNone"
			}
			return "(" + other.expr + ").isSome"
		}
		if !intOnly(ty) {
			// Go compares floats inside structs and arrays with ==, not bit for bit
			eq := c.goEq(ty, x.expr, y.expr)
			if b.Op == token.EQL {
				return eq
			}
			if b.Op == token.NEQ {
				return "(!" + eq + ")"
			}
			fail("ordering comparison on %s", ty)
		}
		switch b.Op {
		case token.EQL:
			e = fmt.Sprintf("(decide (%s = %s))", x.expr, y.expr)
		case token.NEQ:
			e = fmt.Sprintf("(decide (%s ≠ %s))", x.expr, y.expr)
		case token.LSS:
			e = fmt.Sprintf("(decide (%s < %s))", x.expr, y.expr)
		case token.LEQ:
			e = fmt.Sprintf("(decide (%s ≤ %s))", x.expr, y.expr)
		case token.GTR:
			e = fmt.Sprintf("(decide (%s < %s))", y.expr, x.expr)
		case token.GEQ:
			e = fmt.Sprintf("(decide (%s ≤ %s))", y.expr, x.expr)
		}
		return e
	}
	fail("binary operator %s", b.Op)
	return ""
}

// intOnly: values of this type are equal in Go exactly when they are equal as Lean values
func intOnly(ty types.Type) bool {
	if isHandleType(ty) {
		return true
	}
	switch u := ty.Underlying().(type) {
	case *types.Basic:
		return u.Info()&(types.IsInteger|types.IsBoolean|types.IsString) != 0
	case *types.Struct:
		for i := 0; i < u.NumFields(); i++ {
			if !intOnly(u.Field(i).Type()) {
				return false
			}
		}
		return true
	case *types.Array:
		return intOnly(u.Elem())
	}
	return false
}

// goEq: Go's == on a comparable first-order type, as a Bool expression
func (c *ctx) goEq(ty types.Type, a, b string) string {
	if intOnly(ty) {
		return fmt.Sprintf("(decide (%s = %s))", a, b)
	}
	switch u := ty.Underlying().(type) {
	case *types.Basic:
		if fl := tyCode0(ty); fl != "" {
			return fmt.Sprintf("(%s.feq %s %s)", fl, a, b)
		}
	case *types.Struct:
		var parts []string
		for i := 0; i < u.NumFields(); i++ {
			f := leanIdent(u.Field(i).Name())
			parts = append(parts, c.goEq(u.Field(i).Type(), "("+a+")."+f, "("+b+")."+f))
		}
		return "(" + strings.Join(parts, " && ") + ")"
	}
	fail("comparison on %s", ty)
	return ""
}

func tyCode0(ty types.Type) string {
	b, ok := ty.Underlying().(*types.Basic)
	if !ok {
		return ""
	}
	switch b.Kind() {
	case types.Float32:
		return "F32"
	case types.Float64:
		return "F64"
	}
	return ""
}

func proj(e string, j, k int) string {
	if k == 1 {
		return e
	}
	s := e
	for i := 0; i < j; i++ {
		s += ".2"
	}
	if j < k-1 {
		s += ".1"
	}
	return s
}

var externals = map[string]string{
	"math.Floor":           "F64.floor",
	"math.Ceil":            "F64.ceil",
	"math.Sqrt":            "F64.sqrt",
	"math.Abs":             "F64.abs",
	"math.Float32bits":     "F32.bits",
	"math.Float32frombits": "F32.mk",
	"math.Float64bits":     "F64.bits",
	"math.Float64frombits": "F64.mk",
}

func (c *ctx) indexNat(s *state, v ssa.Value) (string, int64) {
	if k, ok := v.(*ssa.Const); ok {
		n, _ := constant.Int64Val(constant.ToInt(k.Value))
		return fmt.Sprintf("%d", n), n
	}
	x := c.val(s, v)
	return fmt.Sprintf("(Go.idx_%s %s)", tyCode(v.Type()), x.expr), -1
}

// instr executes one non-control instruction; emits a let for every value it defines.
func (c *ctx) instr(s *state, in ssa.Instruction, d int) {
	bind := func(v ssa.Value, e string) {
		name := c.prefix + v.Name()
		fmt.Fprintf(&c.out, "%slet %s := %s\n", ind(d), name, e)
		s.env[v] = sym{expr: name, typ: v.Type()}
	}
	switch x := in.(type) {
	case *ssa.DebugRef:
	case *ssa.BinOp:
		e := c.binop(s, x)
		if e == "true" || e == "false" {
			if s.constCond == nil {
				s.constCond = map[*ssa.BinOp]string{}
			}
			s.constCond[x] = e
		}
		bind(x, e)
	case *ssa.UnOp:
		switch x.Op {
		case token.MUL: // load
			p := c.val(s, x.X)
			if p.ptr == nil {
				fail("load through an unknown pointer")
			}
			if p.emptyFuncs {
				s.env[x] = sym{fnNil: true, typ: x.Type()}
				return
			}
			cl := s.cells[p.ptr.cell.id]
			if cl == nil {
				fail("load from consumed memory")
			}
			if p.ofield != "" {
				if !firstOrder(x.Type()) {
					fail("field of an opaque library object that is not a first-order value")
				}
				c.t.opaqueOp(p.oname, "get_"+p.ofield, "R → "+c.t.leanType(x.Type()))
				bind(x, fmt.Sprintf("(I_%s.get_%s %s)", p.oname, p.ofield, c.load(&ptrv{cell: cl, path: p.ptr.path})))
				return
			}
			if cl.viewVal != nil && len(p.ptr.path) == 0 {
				s.env[x] = c.viewSym(s, cl.viewVal, x.Type())
				return
			}
			if cl.ptrVal != nil && len(p.ptr.path) == 0 {
				tc := s.cells[cl.ptrVal.cell.id]
				if tc == nil {
					fail("load of a pointer into consumed memory")
				}
				s.env[x] = sym{ptr: &ptrv{cell: tc, path: cl.ptrVal.path}, typ: x.Type()}
				return
			}
			if _, isIface := x.Type().Underlying().(*types.Interface); isIface && !isErrorType(x.Type()) && !isHandleType(x.Type()) {
				// an interface value is handled as a reference to the place it was read from (its abstract state lives there)
				c.t.leanType(x.Type())
				s.env[x] = sym{ptr: &ptrv{cell: cl, path: p.ptr.path}, typ: x.Type(), iface: true}
				return
			}
			bind(x, c.load(&ptrv{cell: cl, path: p.ptr.path}))
		case token.SUB:
			bind(x, "(-"+c.val(s, x.X).expr+")")
		case token.NOT:
			bind(x, "(!"+c.val(s, x.X).expr+")")
		case token.XOR:
			bind(x, "(~~~"+c.val(s, x.X).expr+")")
		default:
			fail("unary operator %s", x.Op)
		}
	case *ssa.Convert:
		if isString(x.X.Type()) && isString(x.Type()) {
			v := c.val(s, x.X)
			v.typ = x.Type()
			s.env[x] = v
			return
		}
		if sl, ok := x.X.Type().Underlying().(*types.Slice); ok && isString(x.Type()) {
			if b, ok := sl.Elem().Underlying().(*types.Basic); ok && b.Kind() == types.Uint8 {
				bind(x, "(Go.strOfBytes "+c.val(s, x.X).expr+")")
				return
			}
		}
		if sl, ok := x.Type().Underlying().(*types.Slice); ok && isString(x.X.Type()) {
			if b, ok := sl.Elem().Underlying().(*types.Basic); ok && b.Kind() == types.Uint8 {
				bind(x, "(Go.bytesOfStr "+c.val(s, x.X).expr+")")
				return
			}
		}
		from, to := tyCode(x.X.Type()), tyCode(x.Type())
		if from == to {
			s.env[x] = c.val(s, x.X)
		} else {
			bind(x, fmt.Sprintf("(Go.cvt_%s_%s %s)", from, to, c.val(s, x.X).expr))
		}
	case *ssa.ChangeType:
		v := c.val(s, x.X)
		v.typ = x.Type()
		s.env[x] = v
	case *ssa.Alloc:
		c.ncell++
		cl := &cell{id: c.ncell, param: -1, root: &node{typ: x.Type().Underlying().(*types.Pointer).Elem()}}
		s.cells[cl.id] = cl
		s.env[x] = sym{ptr: &ptrv{cell: cl}, typ: x.Type()}
	case *ssa.FieldAddr:
		p := c.val(s, x.X)
		if p.ptr == nil {
			fail("field address of an unknown pointer")
		}
		st := x.X.Type().Underlying().(*types.Pointer).Elem().Underlying().(*types.Struct)
		if s.cells[p.ptr.cell.id] == nil {
			fail("address into consumed memory")
		}
		if on, ok := opaqueOf(x.X.Type().Underlying().(*types.Pointer).Elem()); ok {
			if p.ofield != "" || !st.Field(x.Field).Exported() {
				fail("address inside an opaque library object")
			}
			c.t.leanType(x.X.Type().Underlying().(*types.Pointer).Elem())
			s.env[x] = sym{ptr: &ptrv{cell: s.cells[p.ptr.cell.id], path: p.ptr.path}, ofield: st.Field(x.Field).Name(), oname: on, typ: x.Type()}
			return
		}
		np := &ptrv{cell: s.cells[p.ptr.cell.id], path: append(append([]step{}, p.ptr.path...), step{field: x.Field, name: st.Field(x.Field).Name(), cidx: -1})}
		s.env[x] = sym{ptr: np, typ: x.Type()}
	case *ssa.IndexAddr:
		switch xt := x.X.Type().Underlying().(type) {
		case *types.Pointer:
			p := c.val(s, x.X)
			if p.ptr == nil {
				fail("index address of an unknown pointer")
			}
			arr := xt.Elem().Underlying().(*types.Array)
			idx, ci := c.indexNat(s, x.Index)
			if s.cells[p.ptr.cell.id] == nil {
				fail("address into consumed memory")
			}
			np := &ptrv{cell: s.cells[p.ptr.cell.id], path: append(append([]step{}, p.ptr.path...), step{field: -1, idx: idx, cidx: ci, elemTy: arr.Elem()})}
			s.env[x] = sym{ptr: np, typ: x.Type()}
		case *types.Slice:
			sl := c.val(s, x.X)
			if sl.emptyFuncs {
				// an element of a list known to be empty: never reached at run time; calling it ends the path
				c.ncell++
				cl := &cell{id: c.ncell, param: -2, root: &node{typ: xt.Elem(), expr: "(Go.fnRef \"\")"}}
				s.cells[cl.id] = cl
				s.env[x] = sym{ptr: &ptrv{cell: cl}, typ: x.Type(), emptyFuncs: true}
				return
			}
			if sl.fromParam > 0 && !c.info.written[sl.fromParam-1] {
				// remember that an element address was taken; a store through it marks the parameter as written (next pass)
				idx0, _ := c.indexNat(s, x.Index)
				c.ncell++
				cl := &cell{id: c.ncell, param: -2, root: &node{typ: xt.Elem(), expr: "(Go.sliceGet " + sl.expr + " " + idx0 + ")"}}
				s.cells[cl.id] = cl
				s.env[x] = sym{ptr: &ptrv{cell: cl}, typ: x.Type(), fromParam: sl.fromParam}
				return
			}
			if sl.wcell > 0 {
				cl := s.cells[sl.wcell]
				idx, _ := c.indexNat(s, x.Index)
				s.env[x] = sym{ptr: &ptrv{cell: cl, path: []step{{field: -1, idx: idx, cidx: -1, elemTy: xt.Elem()}}}, typ: x.Type()}
				return
			}
			// element of a slice VALUE: readable only
			idx, _ := c.indexNat(s, x.Index)
			c.ncell++
			cl := &cell{id: c.ncell, param: -2, root: &node{typ: xt.Elem(), expr: "(Go.sliceGet " + sl.expr + " " + idx + ")"}}
			s.cells[cl.id] = cl
			s.env[x] = sym{ptr: &ptrv{cell: cl}, typ: x.Type(), fromParam: sl.fromParam}
		default:
			fail("index address on %s", x.X.Type())
		}
	case *ssa.Store:
		p := c.val(s, x.Addr)
		if p.ptr == nil {
			fail("store through an unknown pointer")
		}
		if p.ptr.cell.param == -2 {
			if p.fromParam > 0 {
				c.info.written[p.fromParam-1] = true
				c.rerun = true
				return // this pass is discarded (see translateSpec)
			}
			fail("store into a slice element")
		}
		if p.ptr.cell.param == -3 && !c.inInit {
			fail("store into a global variable")
		}
		pp := &ptrv{cell: s.cells[p.ptr.cell.id], path: p.ptr.path}
		if pp.cell == nil {
			fail("store into consumed memory")
		}
		if p.ofield != "" {
			v := c.val(s, x.Val)
			if v.ptr != nil || v.fn != nil || v.iface || v.boxed || v.comps != nil || v.backed || v.view != nil || !firstOrder(x.Val.Type()) {
				fail("storing a value that is not first-order into an opaque library object")
			}
			c.t.opaqueOp(p.oname, "set_"+p.ofield, "R → "+c.t.leanType(x.Val.Type())+" → R")
			c.tmp++
			name := fmt.Sprintf("%so%d", c.prefix, c.tmp)
			fmt.Fprintf(&c.out, "%slet %s := (I_%s.set_%s %s %s)\n", ind(d), name, p.oname, p.ofield, c.load(pp), v.expr)
			c.store(pp, name)
			return
		}
		if pv := c.val(s, x.Val); pv.ptr != nil && !pv.iface && pp.cell.param == -1 && len(pp.path) == 0 {
			// a local variable holding a pointer (a captured receiver)
			pp.cell.ptrVal = &ptrv{cell: pv.ptr.cell, path: pv.ptr.path}
			return
		}
		if s.frozen != nil {
			key := ""
			if len(pp.path) > 0 {
				key = pp.path[0].name
			}
			// slices taken from this array earlier hold its former elements: they go stale (using one fails)
			for _, l := range []loopLoc{{pp.cell.id, key}, {pp.cell.id, ""}} {
				if _, ok := s.frozen[l]; ok {
					s.frozen[l]++
				}
			}
		}
		v := c.val(s, x.Val)
		if v.iface && v.ptr != nil && !v.boxed && v.fn == nil {
			// `z.z = dst`: the object moves into the field; the place it came from must not be used again
			src := &ptrv{cell: s.cells[v.ptr.cell.id], path: v.ptr.path}
			if src.cell == nil || src.cell.param < 0 || len(src.path) != 0 {
				fail("storing an interface value that is not a parameter")
			}
			for _, io := range c.outputs {
				if io.param == src.cell.param {
					fail("storing an interface object that was used before")
				}
			}
			val := c.load(src)
			delete(s.cells, src.cell.id)
			c.store(pp, val)
			return
		}
		if v.ptr != nil || v.fn != nil || v.iface || v.boxed {
			fail("storing a pointer, function or interface value")
		}
		if v.view != nil && pp.cell.param == -1 && len(pp.path) == 0 {
			pp.cell.viewVal = v.view
			return
		}
		if v.backed {
			fail("storing a slice that aliases an array")
		}
		if v.fromParam > 0 {
			c.info.escapes[v.fromParam-1] = true
		}
		c.store(pp, v.expr)
	case *ssa.Field:
		v := c.val(s, x.X)
		st := x.X.Type().Underlying().(*types.Struct)
		bind(x, "("+v.expr+")."+leanIdent(st.Field(x.Field).Name()))
	case *ssa.Index:
		v := c.val(s, x.X)
		idx, _ := c.indexNat(s, x.Index)
		if isString(x.X.Type()) {
			bind(x, "(Go.strGet "+v.expr+" "+idx+")")
			return
		}
		if _, ok := x.X.Type().Underlying().(*types.Array); !ok {
			fail("index on %s", x.X.Type())
		}
		bind(x, "(Go.arrGet "+v.expr+" "+idx+")")
	case *ssa.Lookup:
		if !isString(x.X.Type()) || x.CommaOk {
			fail("*ssa.Lookup")
		}
		idx, _ := c.indexNat(s, x.Index)
		bind(x, "(Go.strGet "+c.val(s, x.X).expr+" "+idx+")")
	case *ssa.Extract:
		v := c.val(s, x.Tuple)
		if v.comps == nil {
			fail("extract from a non-tuple")
		}
		s.env[x] = v.comps[x.Index]
	case *ssa.Slice:
		if x.Max != nil {
			fail("3-index slice")
		}
		switch xt := x.X.Type().Underlying().(type) {
		case *types.Pointer: // array pointer
			p := c.val(s, x.X)
			if p.ptr == nil {
				fail("slice of an unknown array")
			}
			if p.ptr.cell.param != -1 || x.Low != nil || x.High != nil {
				// an array that outlives the call (a receiver field) or a partial slice: the slice is the list of the
				// array's CURRENT elements; it aliases the array, so the array is frozen from here on (a later store
				// into it makes the function unsupported)
				pp := &ptrv{cell: s.cells[p.ptr.cell.id], path: p.ptr.path}
				if pp.cell == nil {
					fail("slice of consumed memory")
				}
				whole := c.load(pp)
				arr := xt.Elem().Underlying().(*types.Array)
				lo, hi := "0", fmt.Sprint(arr.Len())
				if x.Low != nil {
					lo, _ = c.indexNat(s, x.Low)
				}
				if x.High != nil {
					hi, _ = c.indexNat(s, x.High)
				}
				key := ""
				if len(pp.path) > 0 {
					key = pp.path[0].name
				}
				if s.frozen == nil {
					s.frozen = map[loopLoc]int{}
				}
				if _, ok := s.frozen[loopLoc{pp.cell.id, key}]; !ok {
					s.frozen[loopLoc{pp.cell.id, key}] = 1
				}
				bind(x, fmt.Sprintf("(Go.slice (%s).toList %s %s)", whole, lo, hi))
				r := s.env[x]
				r.backed = true
				r.backLoc, r.backGen = loopLoc{pp.cell.id, key}, s.frozen[loopLoc{pp.cell.id, key}]
				r.backPtr, r.backLo = pp, lo
				if lov, ok1 := constIntOrNil(x.Low, 0); ok1 {
					if hiv, ok2 := constIntOrNil(x.High, arr.Len()); ok2 && lov <= hiv && hiv <= arr.Len() {
						r.view = &viewInfo{arr: &ptrv{cell: pp.cell, path: pp.path}, lo: lov, length: hiv - lov, cap: arr.Len() - lov, elemTy: arr.Elem()}
					}
				}
				s.env[x] = r
				return
			}
			pp := &ptrv{cell: s.cells[p.ptr.cell.id], path: p.ptr.path}
			arr := xt.Elem().Underlying().(*types.Array)
			var parts []string
			for i := int64(0); i < arr.Len(); i++ {
				q := &ptrv{cell: pp.cell, path: append(append([]step{}, pp.path...), step{field: -1, idx: fmt.Sprint(i), cidx: i, elemTy: arr.Elem()})}
				parts = append(parts, c.load(q))
			}
			// the slice aliases the array; later stores into the array would be visible through it: forbid by dropping the cell
			delete(s.cells, pp.cell.id)
			bind(x, "(["+strings.Join(parts, ", ")+"] : "+c.t.leanType(x.Type())+")")
			r := s.env[x]
			r.elems = parts
			s.env[x] = r
		case *types.Slice:
			v := c.val(s, x.X)
			lo, hi := "0", "("+v.expr+").length"
			if x.Low != nil {
				lo, _ = c.indexNat(s, x.Low)
			}
			if x.High != nil {
				hi, _ = c.indexNat(s, x.High)
			}
			bind(x, fmt.Sprintf("(Go.slice %s %s %s)", v.expr, lo, hi))
			r := s.env[x]
			r.backed, r.fromParam = v.backed, v.fromParam
			r.backLoc, r.backGen = v.backLoc, v.backGen
			if x.Low == nil {
				r.backPtr, r.backLo = v.backPtr, v.backLo
			}
			s.env[x] = r
		default:
			fail("slice of %s", x.X.Type())
		}
	case *ssa.Call:
		c.call(s, x, d)
	case *ssa.MakeInterface:
		// a concrete first-order value converted to an interface: supported only when it goes straight to `return`
		// (the function then returns the concrete value; every return must box the same concrete type)
		v := c.val(s, x.X)
		if v.ptr != nil && !v.iface && isHandleType(x.Type()) {
			// `&z.field` converted to an interface that the code only hands on: the field's path
			cl := s.cells[v.ptr.cell.id]
			if cl == nil || cl.param < 0 || len(v.ptr.path) == 0 {
				fail("interface value of a pointer that is not into a parameter")
			}
			var names []string
			for _, st := range v.ptr.path {
				if st.field < 0 {
					fail("interface value of a pointer to an array element")
				}
				names = append(names, st.name)
			}
			s.env[x] = sym{expr: "(Go.ref \"" + strings.Join(names, ".") + "\")", typ: x.Type()}
			return
		}
		if v.ptr != nil || v.fn != nil || v.comps != nil || v.iface || !firstOrder(x.X.Type()) {
			fail("*ssa.MakeInterface")
		}
		if isErrorType(x.Type()) && isString(x.X.Type()) {
			bind(x, "(some "+v.expr+" : Go.Err)")
			return
		}
		s.env[x] = sym{expr: v.expr, typ: x.X.Type(), boxed: true}
	case *ssa.MakeClosure:
		f, ok := x.Fn.(*ssa.Function)
		if !ok {
			fail("*ssa.MakeClosure")
		}
		var bs []sym
		for _, b := range x.Bindings {
			bv := c.val(s, b)
			if bv.ptr == nil {
				fail("closure capturing something that is not a variable")
			}
			bs = append(bs, bv)
		}
		s.env[x] = sym{fn: f, binds: bs, typ: x.Type()}
	case *ssa.TypeAssert, *ssa.ChangeInterface, *ssa.MakeMap, *ssa.MakeChan,
		*ssa.MakeSlice, *ssa.MapUpdate, *ssa.Range, *ssa.Next, *ssa.Select, *ssa.Send, *ssa.Go, *ssa.Defer,
		*ssa.RunDefers, *ssa.SliceToArrayPointer, *ssa.MultiConvert:
		fail("%T", in)
	default:
		fail("instruction %T", in)
	}
}

func (c *ctx) call(s *state, x *ssa.Call, d int) {
	com := x.Common()
	if com.IsInvoke() {
		c.invoke(s, x, d)
		return
	}
	if b, ok := com.Value.(*ssa.Builtin); ok {
		switch b.Name() {
		case "append":
			a0, a1 := c.val(s, com.Args[0]), c.val(s, com.Args[1])
			if a0.view != nil {
				// appending to a window of an array, everything known: within the capacity the elements are written INTO the
				// array and the window grows
				if a1.elems == nil {
					fail("append to a view of an array of a list that is not a literal")
				}
				v := a0.view
				if v.length < 0 {
					fail("append to a view whose length is no longer known at translation time")
				}
				n := int64(len(a1.elems))
				if v.length+n > v.cap {
					fail("append to a view of an array beyond its capacity")
				}
				ap := &ptrv{cell: s.cells[v.arr.cell.id], path: v.arr.path}
				if ap.cell == nil {
					fail("view of consumed memory")
				}
				for j, e := range a1.elems {
					q := &ptrv{cell: ap.cell, path: append(append([]step{}, ap.path...), step{field: -1, idx: fmt.Sprint(v.lo + v.length + int64(j)), cidx: v.lo + v.length + int64(j), elemTy: v.elemTy})}
					c.store(q, e)
				}
				key := ""
				if len(ap.path) > 0 {
					key = ap.path[0].name
				}
				if _, ok := s.frozen[loopLoc{ap.cell.id, key}]; ok {
					s.frozen[loopLoc{ap.cell.id, key}]++
				}
				nv := &viewInfo{arr: v.arr, lo: v.lo, length: v.length + n, cap: v.cap, elemTy: v.elemTy}
				s.env[x] = c.viewSym(s, nv, x.Type())
				return
			}
			if a0.backed {
				fail("append to a slice that aliases an array (the written elements would be visible through the array)")
			}
			if a0.fromParam > 0 {
				c.info.escapes[a0.fromParam-1] = true
			}
			e := fmt.Sprintf("(%s ++ %s)", a0.expr, a1.expr)
			if isString(com.Args[1].Type()) {
				e = fmt.Sprintf("(%s ++ Go.bytesOfStr %s)", a0.expr, a1.expr)
			}
			fmt.Fprintf(&c.out, "%slet %s := %s\n", ind(d), c.prefix+x.Name(), e)
			s.env[x] = sym{expr: c.prefix + x.Name(), typ: x.Type()}
			return
		case "len":
			a0 := c.val(s, com.Args[0])
			if a0.emptyFuncs {
				fmt.Fprintf(&c.out, "%slet %s := (0 : Int)\n", ind(d), c.prefix+x.Name())
				s.env[x] = sym{expr: c.prefix + x.Name(), typ: x.Type()}
				return
			}
			switch at := com.Args[0].Type().Underlying().(type) {
			case *types.Slice:
				fmt.Fprintf(&c.out, "%slet %s := (Int.ofNat (%s).length)\n", ind(d), c.prefix+x.Name(), a0.expr)
			case *types.Array:
				fmt.Fprintf(&c.out, "%slet %s := (%d : Int)\n", ind(d), c.prefix+x.Name(), at.Len())
			default:
				fail("len of %s", com.Args[0].Type())
			}
			s.env[x] = sym{expr: c.prefix + x.Name(), typ: x.Type()}
			return
		}
		fail("builtin %s", b.Name())
	}
	var callee *ssa.Function
	if f := com.StaticCallee(); f != nil {
		callee = f
	} else {
		v := c.val(s, com.Value)
		if v.fnNil {
			panic(pathPanics{}) // calling the nil function: this path panics
		}
		if pt, ok := updaterOf(com.Value.Type()); ok && v.fn == nil && v.expr != "" && len(com.Args) == 1 {
			// an option of unknown origin applied to a pointer: a function on the pointee
			av := c.val(s, com.Args[0])
			if av.ptr == nil || av.ofield != "" {
				fail("calling a function value on an unknown pointer")
			}
			pp := &ptrv{cell: s.cells[av.ptr.cell.id], path: av.ptr.path}
			if pp.cell == nil {
				fail("calling a function value on a pointer to consumed memory")
			}
			c.t.leanType(pt)
			c.tmp++
			name := fmt.Sprintf("%su%d", c.prefix, c.tmp)
			fmt.Fprintf(&c.out, "%slet %s := (%s %s)\n", ind(d), name, v.expr, c.load(pp))
			c.store(pp, name)
			return
		}
		if v.fn == nil && c.forceCallee != nil {
			callee = c.forceCallee
		} else {
			if v.fn == nil {
				fail("dynamic call")
			}
			callee = v.fn
		}
	}
	if recv := callee.Signature.Recv(); recv != nil {
		if pt, ok := recv.Type().(*types.Pointer); ok {
			if on, ok := opaqueOf(pt.Elem()); ok {
				c.opaqueCall(s, x, callee, on, d)
				return
			}
		}
	}
	if ext, ok := externals[callee.String()]; ok {
		var args []string
		for _, a := range com.Args {
			args = append(args, c.val(s, a).expr)
		}
		fmt.Fprintf(&c.out, "%slet %s := (%s %s)\n", ind(d), c.prefix+x.Name(), ext, strings.Join(args, " "))
		s.env[x] = sym{expr: c.prefix + x.Name(), typ: x.Type()}
		return
	}
	if len(callee.FreeVars) > 0 {
		fail("closure with free variables")
	}
	var spec map[int]*ssa.Function
	for i, a := range com.Args {
		if isFuncSlice(a.Type()) {
			av := c.val(s, a)
			if !av.emptyFuncs {
				if isUpdaterSlice(a.Type()) && av.expr != "" {
					continue // an ordinary argument: a list of functions on the pointee
				}
				fail("passing a list of function values that is not known to be empty")
			}
			if spec == nil {
				spec = map[int]*ssa.Function{}
			}
			spec[i] = nil
			continue
		}
		if _, isI := a.Type().Underlying().(*types.Interface); isI && !isErrorType(a.Type()) && !isHandleType(a.Type()) {
			if av := c.val(s, a); av.fnNil {
				if spec == nil {
					spec = map[int]*ssa.Function{}
				}
				spec[i] = nil
			}
			continue
		}
		if _, isSig := a.Type().Underlying().(*types.Signature); isSig {
			av := c.val(s, a)
			if av.fn == nil && !av.fnNil {
				fail("passing an unknown function value")
			}
			if spec == nil {
				spec = map[int]*ssa.Function{}
			}
			spec[i] = av.fn
		}
	}
	ci := c.t.translateSpec(callee, spec)
	self := false
	if ci.busy {
		if callee != c.fn {
			fail("mutual recursion with %s", callee.String())
		}
		// direct recursion: the body is wrapped in a match on the fuel, the recursive call gets the predecessor;
		// the callee's inputs and outputs are those found by the previous pass over this function
		self = true
		c.info.selfRec = true
		c.usesFuel = true
	} else {
		if ci.err != "" {
			fail("calls %s (%s)", callee.String(), ci.err)
		}
		if len(ci.retConcrete) > 0 {
			fail("calls %s, which returns an interface value", callee.String())
		}
		c.info.calls[callee] = true
		c.info.callsFi[ci] = true
	}
	// arguments
	type wb struct {
		param int
		av    sym
	}
	var writeBack []wb
	var args []string
	ptrArgs := map[int]*ptrv{}
	for i, a := range com.Args {
		av := c.val(s, a)
		if _, isSig := a.Type().Underlying().(*types.Signature); isSig {
			continue // fixed by specialisation
		}
		if isFuncSlice(a.Type()) && (av.emptyFuncs || !isUpdaterSlice(a.Type())) {
			continue
		}
		if av.fnNil {
			if _, isI := a.Type().Underlying().(*types.Interface); isI {
				continue // fixed to nil by specialisation
			}
		}
		_, isPtr := a.Type().Underlying().(*types.Pointer)
		if av.iface && av.ptr != nil {
			isPtr = true // an interface object is handed on by reference to where it lives
		}
		if isPtr {
			if av.ptr == nil {
				fail("passing an unknown pointer")
			}
			pp := &ptrv{cell: s.cells[av.ptr.cell.id], path: av.ptr.path}
			if pp.cell == nil {
				fail("passing a pointer to consumed memory")
			}
			for j, q := range ptrArgs {
				if q.cell == pp.cell && (len(q.path) == 0 || len(pp.path) == 0 || q.path[0].name == pp.path[0].name) && j != i {
					fail("possibly aliasing pointer arguments")
				}
			}
			ptrArgs[i] = pp
			for _, io := range ci.inputs {
				if io.param != i {
					continue
				}
				q := pp
				if io.field >= 0 {
					if av.iface {
						fail("internal: field of an interface object")
					}
					st := a.Type().Underlying().(*types.Pointer).Elem().Underlying().(*types.Struct)
					q = &ptrv{cell: pp.cell, path: append(append([]step{}, pp.path...), step{field: io.field, name: st.Field(io.field).Name(), cidx: -1})}
				}
				args = append(args, c.load(q))
			}
			continue
		}
		if av.ptr != nil || av.fn != nil || av.comps != nil || av.boxed || av.iface {
			fail("passing a non-first-order value")
		}
		if ci.written[i] {
			// the callee stores into the elements: the new list comes back as an extra result and is written back to where
			// the slice lives
			if self {
				fail("recursion through a written slice parameter")
			}
			switch {
			case av.backed && av.backPtr != nil:
			case av.wcell > 0:
			default:
				fail("passing a slice whose elements the callee writes, of unknown origin")
			}
			writeBack = append(writeBack, wb{i, av})
			args = append(args, av.expr)
			continue
		}
		if av.backed || av.fromParam > 0 {
			esc := self || ci.escapes[i]
			if av.backed && esc {
				fail("passing a slice that aliases an array to a function that appends to it, stores or returns it")
			}
			if av.fromParam > 0 && esc {
				c.info.escapes[av.fromParam-1] = true
			}
		}
		args = append(args, av.expr)
	}
	var iargs []string
	for _, in := range sortedKeys(ci.ifaces) {
		c.info.ifaces[in] = true
		iargs = append(iargs, "I_"+in)
	}
	for _, x := range sortedStrKeys(ci.exts) {
		c.info.exts[x] = ci.exts[x]
		iargs = append(iargs, x)
	}
	if ci.needInh {
		c.usesDefault = true
	}
	if ci.fuel || self {
		c.usesFuel = true
		fv := c.fuelVar
		if fv == "" {
			fv = "fuel"
		}
		iargs = append(iargs, fv)
	}
	args = append(iargs, args...)
	nres := callee.Signature.Results().Len()
	k := nres + len(ci.outputs)
	e := "(" + ci.name + " " + strings.Join(args, " ") + ")"
	if len(args) == 0 {
		e = ci.name
	}
	name := c.prefix + x.Name()
	if x.Name() == "" || k == 0 {
		c.tmp++
		name = fmt.Sprintf("%su%d", c.prefix, c.tmp)
	}
	fmt.Fprintf(&c.out, "%slet %s := %s\n", ind(d), name, e)
	var comps []sym
	for j := 0; j < nres; j++ {
		comps = append(comps, sym{expr: proj(name, j, k), typ: callee.Signature.Results().At(j).Type()})
	}
	switch nres {
	case 0:
	case 1:
		s.env[x] = comps[0]
	default:
		s.env[x] = sym{comps: comps, typ: x.Type()}
	}
	for j, io := range ci.outputs {
		if ci.written[io.param] && io.field < 0 {
			for _, w := range writeBack {
				if w.param != io.param {
					continue
				}
				res := proj(name, nres+j, k)
				if w.av.wcell > 0 {
					c.store(&ptrv{cell: s.cells[w.av.wcell]}, res)
				} else {
					// into the array the slice aliases (the array was frozen when it was sliced: this is the one permitted write)
					bp := &ptrv{cell: s.cells[w.av.backPtr.cell.id], path: w.av.backPtr.path}
					if bp.cell == nil {
						fail("write-back into consumed memory")
					}
					whole := c.load(bp)
					c.store(bp, "(Go.arrWriteBack "+whole+" "+w.av.backLo+" "+res+")")
					if _, ok := s.frozen[w.av.backLoc]; ok {
						s.frozen[w.av.backLoc]++
					}
				}
			}
			continue
		}
		pp := ptrArgs[io.param]
		q := pp
		if io.field >= 0 {
			st := com.Args[io.param].Type().Underlying().(*types.Pointer).Elem().Underlying().(*types.Struct)
			q = &ptrv{cell: pp.cell, path: append(append([]step{}, pp.path...), step{field: io.field, name: st.Field(io.field).Name(), cidx: -1})}
		}
		c.store(q, proj(name, nres+j, k))
	}
}

// opaqueCall: a method call on an opaque library object (see opaqueTypes).  The receiver's state goes in and comes back;
// so does the state of every other abstract object among the arguments (the operation is polymorphic in their types).
func (c *ctx) opaqueCall(s *state, x *ssa.Call, callee *ssa.Function, on string, d int) {
	com := x.Common()
	c.t.leanType(callee.Signature.Recv().Type().(*types.Pointer).Elem())
	rv := c.val(s, com.Args[0])
	if rv.ptr == nil || rv.ofield != "" {
		fail("method call on an opaque library object of unknown origin")
	}
	origin := &ptrv{cell: s.cells[rv.ptr.cell.id], path: rv.ptr.path}
	if origin.cell == nil {
		fail("opaque library object in consumed memory")
	}
	args := []string{c.load(origin)}
	parts := []string{"R"}
	var tparams []string
	var objs []*ptrv
	for i, a := range com.Args[1:] {
		av := c.val(s, a)
		if av.iface && av.ptr != nil && !av.boxed && av.fn == nil {
			o := &ptrv{cell: s.cells[av.ptr.cell.id], path: av.ptr.path}
			if o.cell == nil {
				fail("abstract object in consumed memory")
			}
			for _, q := range append([]*ptrv{origin}, objs...) {
				if q.cell == o.cell && (len(q.path) == 0 || len(o.path) == 0 || q.path[0].name == o.path[0].name) {
					fail("possibly aliasing objects handed to a library method")
				}
			}
			objs = append(objs, o)
			args = append(args, c.load(o))
			tp := fmt.Sprintf("A%d", i)
			tparams = append(tparams, tp)
			parts = append(parts, tp)
			continue
		}
		if av.ptr != nil || av.fn != nil || av.comps != nil || av.iface || av.boxed || av.backed || av.view != nil || !firstOrder(a.Type()) {
			fail("passing a non-first-order value to a library method")
		}
		if av.fromParam > 0 {
			c.info.escapes[av.fromParam-1] = true
		}
		args = append(args, av.expr)
		parts = append(parts, c.t.leanType(a.Type()))
	}
	res := callee.Signature.Results()
	rts := append([]string{"R"}, tparams...)
	for j := 0; j < res.Len(); j++ {
		if !firstOrder(res.At(j).Type()) {
			fail("library method with a result that is not a first-order value")
		}
		rts = append(rts, c.t.leanType(res.At(j).Type()))
	}
	sig := strings.Join(parts, " → ") + " → " + strings.Join(rts, " × ")
	if len(tparams) > 0 {
		sig = "{" + strings.Join(tparams, " ") + " : Type} → " + sig
	}
	op := leanIdent(callee.Name())
	c.t.opaqueOp(on, op, sig)
	c.tmp++
	name := fmt.Sprintf("%so%d", c.prefix, c.tmp)
	fmt.Fprintf(&c.out, "%slet %s := (I_%s.%s %s)\n", ind(d), name, on, op, strings.Join(args, " "))
	k := len(rts)
	c.store(origin, proj(name, 0, k))
	for j, o := range objs {
		c.store(o, proj(name, 1+j, k))
	}
	var comps []sym
	for j := 0; j < res.Len(); j++ {
		comps = append(comps, sym{expr: proj(name, 1+len(objs)+j, k), typ: res.At(j).Type()})
	}
	switch len(comps) {
	case 0:
	case 1:
		s.env[x] = comps[0]
	default:
		s.env[x] = sym{comps: comps, typ: x.Type()}
	}
}

// invoke: a method call on an interface value.  The object behind the interface is external to the translated code:
// it is an abstract state of type `R_<iface>` with one function per method (`<iface>_ops`), threaded through the
// place the interface value was read from.
func (c *ctx) invoke(s *state, x *ssa.Call, d int) {
	com := x.Common()
	recv := c.val(s, com.Value)
	if n, ok := com.Value.Type().(*types.Named); ok && !recv.iface && recv.expr != "" && isHandleType(n) && n.Obj().Pkg() != nil &&
		pureObservers[n.Obj().Pkg().Path()+"."+n.Obj().Name()+"."+com.Method.Name()] && len(com.Args) == 0 {
		// a pure observer of a library value (`color.Color.RGBA()`): a function of the handle, the same whenever it is asked —
		// an extra parameter `X_<type>_<method>` of every function that (transitively) uses it
		sig := com.Method.Type().(*types.Signature)
		var rs []string
		for j := 0; j < sig.Results().Len(); j++ {
			if !firstOrder(sig.Results().At(j).Type()) {
				fail("observer with a result that is not first-order")
			}
			rs = append(rs, c.t.leanType(sig.Results().At(j).Type()))
		}
		pname := "X_" + pkgShort(n.Obj().Pkg()) + "_" + n.Obj().Name() + "_" + com.Method.Name()
		c.info.exts[pname] = "Go.Ref → (" + strings.Join(rs, " × ") + ")"
		name := c.prefix + x.Name()
		fmt.Fprintf(&c.out, "%slet %s := (%s %s)\n", ind(d), name, pname, recv.expr)
		var comps []sym
		for j := range rs {
			comps = append(comps, sym{expr: proj(name, j, len(rs)), typ: sig.Results().At(j).Type()})
		}
		if len(comps) == 1 {
			s.env[x] = comps[0]
		} else {
			s.env[x] = sym{comps: comps, typ: x.Type()}
		}
		return
	}
	if !recv.iface || recv.ptr == nil {
		fail("interface method call %s on a value of unknown origin", com.Method.Name())
	}
	named, ok := com.Value.Type().(*types.Named)
	if !ok {
		fail("method call on an unnamed interface type")
	}
	lt := c.t.leanType(named) // registers the interface
	iname := strings.TrimPrefix(lt, "R_")
	if !c.t.methodOK(named, com.Method.Name()) {
		fail("interface method %s has an untranslatable signature", com.Method.Name())
	}
	origin := &ptrv{cell: s.cells[recv.ptr.cell.id], path: recv.ptr.path}
	if origin.cell == nil {
		fail("interface value read from consumed memory")
	}
	cur := c.load(origin)
	var args []string
	for _, a := range com.Args {
		av := c.val(s, a)
		if av.ptr != nil || av.fn != nil || av.comps != nil || av.iface || av.boxed || av.backed {
			fail("passing a non-first-order value to an interface method")
		}
		if av.fromParam > 0 {
			c.info.escapes[av.fromParam-1] = true
		}
		args = append(args, av.expr)
	}
	c.tmp++
	name := fmt.Sprintf("%sr%d", c.prefix, c.tmp)
	fmt.Fprintf(&c.out, "%slet %s := (I_%s.%s %s %s)\n", ind(d), name, iname, leanIdent(com.Method.Name()), cur, strings.Join(args, " "))
	sig := com.Method.Type().(*types.Signature)
	nres := sig.Results().Len()
	if nres == 0 {
		c.store(origin, name)
		return
	}
	c.store(origin, name+".2")
	var comps []sym
	for j := 0; j < nres; j++ {
		comps = append(comps, sym{expr: proj(name+".1", j, nres), typ: sig.Results().At(j).Type()})
	}
	if nres == 1 {
		s.env[x] = comps[0]
	} else {
		s.env[x] = sym{comps: comps, typ: x.Type()}
	}
}

// methodOK: can the method's signature be expressed (first-order parameters and results only)?
func (t *translator) methodOK(named *types.Named, method string) (ok bool) {
	defer func() {
		if r := recover(); r != nil {
			if _, isU := r.(unsupported); !isU {
				panic(r)
			}
			ok = false
		}
	}()
	it := named.Underlying().(*types.Interface)
	for i := 0; i < it.NumMethods(); i++ {
		m := it.Method(i)
		if m.Name() != method {
			continue
		}
		sig := m.Type().(*types.Signature)
		if sig.Variadic() {
			return false
		}
		saved := t.cur
		t.cur = nil
		defer func() { t.cur = saved }()
		for j := 0; j < sig.Params().Len(); j++ {
			if !firstOrder(sig.Params().At(j).Type()) {
				return false
			}
			t.leanType(sig.Params().At(j).Type())
		}
		for j := 0; j < sig.Results().Len(); j++ {
			if !firstOrder(sig.Results().At(j).Type()) {
				return false
			}
			t.leanType(sig.Results().At(j).Type())
		}
		return true
	}
	return false
}

func firstOrder(ty types.Type) bool {
	switch u := ty.Underlying().(type) {
	case *types.Basic:
		return u.Kind() != types.UnsafePointer
	case *types.Interface:
		return isErrorType(ty) || isHandleType(ty)
	case *types.Struct:
		for i := 0; i < u.NumFields(); i++ {
			if !firstOrder(u.Field(i).Type()) {
				return false
			}
		}
		return true
	case *types.Array:
		return firstOrder(u.Elem())
	case *types.Slice:
		return firstOrder(u.Elem())
	}
	return false
}

// block executes a basic block (and, recursively, its successors) and emits a Lean term.
func (c *ctx) block(s *state, b *ssa.BasicBlock, from *ssa.BasicBlock, onPath map[*ssa.BasicBlock]bool, d int) {
	if li := c.loops[b]; li != nil && li.active {
		c.backEdge(s, li, from, d)
		return
	}
	if isLoopHeader(b) {
		c.loop(s, b, from, onPath, d)
		return
	}
	c.blockFrom(s, b, from, onPath, d, false)
}

// naturalLoop: the header and every block from which a back edge to it is reachable without passing the header
func naturalLoop(h *ssa.BasicBlock) map[*ssa.BasicBlock]bool {
	body := map[*ssa.BasicBlock]bool{h: true}
	var work []*ssa.BasicBlock
	for _, p := range h.Preds {
		if h.Dominates(p) && !body[p] {
			body[p] = true
			work = append(work, p)
		}
	}
	for len(work) > 0 {
		n := work[len(work)-1]
		work = work[:len(work)-1]
		for _, p := range n.Preds {
			if !body[p] {
				body[p] = true
				work = append(work, p)
			}
		}
	}
	return body
}

func isLoopHeader(b *ssa.BasicBlock) bool {
	for _, p := range b.Preds {
		if b.Dominates(p) {
			return true
		}
	}
	return false
}

func (c *ctx) locPtr(s *state, loc loopLoc) *ptrv {
	cl := s.cells[loc.cell]
	if cl == nil {
		fail("loop-carried memory was consumed")
	}
	q := &ptrv{cell: cl}
	if loc.key != "" {
		st := cl.root.typ.Underlying().(*types.Struct)
		for i := 0; i < st.NumFields(); i++ {
			if st.Field(i).Name() == loc.key {
				q.path = []step{{field: i, name: loc.key, cidx: -1}}
			}
		}
	}
	return q
}

func (c *ctx) locType(s *state, loc loopLoc) types.Type {
	cl := s.cells[loc.cell]
	if loc.key == "" {
		return cl.root.typ
	}
	st := cl.root.typ.Underlying().(*types.Struct)
	for i := 0; i < st.NumFields(); i++ {
		if st.Field(i).Name() == loc.key {
			return st.Field(i).Type()
		}
	}
	fail("internal: loop location")
	return nil
}

func (c *ctx) retTypeNow() string {
	var rs []string
	res := c.fn.Signature.Results()
	for i := 0; i < res.Len(); i++ {
		if ct, ok := c.info.retConcrete[i]; ok {
			rs = append(rs, c.t.leanType(ct))
			continue
		}
		if _, isI := res.At(i).Type().Underlying().(*types.Interface); isI && !isErrorType(res.At(i).Type()) {
			rs = append(rs, "Unit") // not yet known (first pass)
			continue
		}
		rs = append(rs, c.t.leanType(res.At(i).Type()))
	}
	for _, io := range c.fixedOut {
		rs = append(rs, c.t.leanType(io.typ))
	}
	if len(rs) == 0 {
		return "Unit"
	}
	return strings.Join(rs, " × ")
}

// loop: the first arrival at a loop header.  The loop becomes a local function, structurally recursive on a fuel
// argument, whose parameters are the header's phis and the memory the loop writes; everything after the loop
// (each exit path up to the function's return) is part of that function's body.
func (c *ctx) loop(s *state, b *ssa.BasicBlock, from *ssa.BasicBlock, onPath map[*ssa.BasicBlock]bool, d int) {
	if c.loops == nil {
		c.loops = map[*ssa.BasicBlock]*loopInfo{}
	}
	li := &loopInfo{id: b.Index, header: b, locSet: map[loopLoc]bool{}, maxCell: c.ncell, body: naturalLoop(b)}
	for _, in := range b.Instrs {
		ph, ok := in.(*ssa.Phi)
		if !ok {
			break
		}
		li.phis = append(li.phis, ph)
	}
	idx := -1
	for i, p := range b.Preds {
		if p == from {
			idx = i
		}
	}
	if idx < 0 {
		fail("internal: loop entry without matching predecessor")
	}
	var initVals []sym
	for _, ph := range li.phis {
		v := c.fnByName(c.val(s, ph.Edges[idx]))
		if v.ptr != nil || v.fn != nil || v.comps != nil || v.iface {
			fail("loop-carried pointer, function or interface value")
		}
		initVals = append(initVals, v)
	}
	c.usesFuel = true
	outerFuel := c.fuelVar
	if outerFuel == "" {
		outerFuel = "fuel"
	}
	li.fuel = fmt.Sprintf("fuel%d", li.id)
	c.loops[b] = li
	defer delete(c.loops, b)
	// Which loop, if any, is this one INSIDE?  Loop functions are nested textually wherever they are met (the code after a
	// loop is part of that loop's function), but only a loop whose body contains this header can be gone round again
	// from in here.  A loop inside a loop must not call the enclosing loop's function (a mutual recursion that is not
	// structural): its function returns `Sum.inl result` or `Sum.inr (arguments for the enclosing loop's next round)`,
	// and the enclosing loop's body dispatches.
	var cur *loopInfo
	if len(c.lstack) > 0 {
		cur = c.lstack[len(c.lstack)-1]
	}
	var enc *loopInfo
	for k := len(c.lstack) - 1; k >= 0; k-- {
		if c.lstack[k].body[b] {
			enc = c.lstack[k]
			break
		}
	}
	li.sumWrt = nil
	if enc != nil {
		li.sumWrt = enc
		if enc == cur {
			if cur.sumWrt != nil {
				fail("loops nested more than two deep")
			}
		} else if cur.sumWrt != enc {
			fail("loop nesting too involved")
		}
	}
	// discover the memory the loop carries: run the body, discard the text, until no new location is written
	for iter := 0; ; iter++ {
		if iter > 8 {
			fail("loop-carried memory does not stabilise")
		}
		n0 := len(li.locs)
		savedOut, savedLeaves, savedTmp, savedCell := c.out.String(), c.leaves, c.tmp, c.ncell
		c.out.Reset()
		c.loopBody(s.clone(), li, onPath, d)
		c.out.Reset()
		c.out.WriteString(savedOut)
		c.leaves, c.tmp, c.ncell = savedLeaves, savedTmp, savedCell
		if len(li.locs) == n0 {
			break
		}
	}
	// header of the local function (a loop reached on several paths is emitted once per path: number the copies)
	c.loopSeq++
	li.name = fmt.Sprintf("loop%d_%d", li.id, c.loopSeq)
	name := li.name
	var params, args []string
	li.ptypes = nil
	for i, ph := range li.phis {
		lt := c.t.leanType(ph.Type())
		params = append(params, fmt.Sprintf("(%s : %s)", c.prefix+ph.Name(), lt))
		li.ptypes = append(li.ptypes, lt)
		args = append(args, initVals[i].expr)
	}
	for i, loc := range li.locs {
		lt := c.t.leanType(c.locType(s, loc))
		params = append(params, fmt.Sprintf("(m%d_%d : %s)", li.id, i, lt))
		li.ptypes = append(li.ptypes, lt)
		args = append(args, c.load(c.locPtr(s, loc)))
	}
	rt := c.retTypeNow()
	zero := "default"
	if li.sumWrt != nil {
		ot := "Unit"
		if len(li.sumWrt.ptypes) > 0 {
			ot = strings.Join(li.sumWrt.ptypes, " × ")
		}
		rt = "(" + rt + ") ⊕ (" + ot + ")"
		zero = "Sum.inl default"
	}
	fmt.Fprintf(&c.out, "%slet rec %s (%s : Nat) %s : %s :=\n%smatch %s with\n%s| 0 => %s\n%s| %s' + 1 =>\n",
		ind(d), name, li.fuel, strings.Join(params, " "), rt, ind(d+1), li.fuel, ind(d+1), zero, ind(d+1), li.fuel)
	c.loopBody(s.clone(), li, onPath, d+2)
	call := fmt.Sprintf("%s %s %s", name, outerFuel, strings.Join(args, " "))
	switch {
	case li.sumWrt == nil:
		fmt.Fprintf(&c.out, "%s%s\n", ind(d), c.leaf("("+call+")"))
	case enc == cur:
		c.tmp++
		pv := fmt.Sprintf("%sp%d", c.prefix, c.tmp)
		var oargs []string
		for j := range enc.ptypes {
			oargs = append(oargs, proj(pv, j, len(enc.ptypes)))
		}
		fmt.Fprintf(&c.out, "%smatch %s with\n%s| Sum.inl v => v\n%s| Sum.inr %s => %s %s' %s\n", ind(d), call, ind(d), ind(d), pv, enc.name, enc.fuel, strings.Join(oargs, " "))
	default: // cur is itself a function that hands back to enc
		fmt.Fprintf(&c.out, "%s%s\n", ind(d), call)
	}
}

func (c *ctx) loopBody(s *state, li *loopInfo, onPath map[*ssa.BasicBlock]bool, d int) {
	for _, ph := range li.phis {
		s.env[ph] = sym{expr: c.prefix + ph.Name(), typ: ph.Type()}
	}
	for i, loc := range li.locs {
		q := c.locPtr(s, loc)
		// overwrite without recording it as a store of the loop
		saved := c.lstack
		c.lstack = nil
		c.store(q, fmt.Sprintf("m%d_%d", li.id, i))
		c.lstack = saved
	}
	li.active = true
	c.lstack = append(c.lstack, li)
	savedFuel := c.fuelVar
	c.fuelVar = li.fuel + "'"
	defer func() {
		li.active = false
		c.lstack = c.lstack[:len(c.lstack)-1]
		c.fuelVar = savedFuel
	}()
	c.blockFrom(s, li.header, nil, onPath, d, true)
}

func (c *ctx) backEdge(s *state, li *loopInfo, from *ssa.BasicBlock, d int) {
	idx := -1
	for i, p := range li.header.Preds {
		if p == from {
			idx = i
		}
	}
	if idx < 0 {
		fail("internal: back edge without matching predecessor")
	}
	var args []string
	for _, ph := range li.phis {
		v := c.fnByName(c.val(s, ph.Edges[idx]))
		if v.ptr != nil || v.fn != nil || v.comps != nil || v.iface {
			fail("loop-carried pointer, function or interface value")
		}
		args = append(args, v.expr)
	}
	for _, loc := range li.locs {
		args = append(args, c.load(c.locPtr(s, loc)))
	}
	cur := c.lstack[len(c.lstack)-1]
	if cur != li {
		// the enclosing loop goes round again: hand its arguments back (see loop)
		if cur.sumWrt != li {
			var names []string
			for _, l := range c.lstack {
				w := "-"
				if l.sumWrt != nil {
					w = fmt.Sprint(l.sumWrt.id)
				}
				names = append(names, fmt.Sprintf("%d(sumWrt %s)", l.id, w))
			}
			fail("back edge across loop functions: to %d from stack %v", li.id, names)
		}
		if len(args) == 0 {
			args = []string{"()"}
		}
		fmt.Fprintf(&c.out, "%sSum.inr (%s)\n", ind(d), strings.Join(args, ", "))
		return
	}
	fmt.Fprintf(&c.out, "%s%s %s' %s\n", ind(d), li.name, li.fuel, strings.Join(args, " "))
}

// fnByName: a known function (or nil) carried round a loop is carried by its name
func (c *ctx) fnByName(v sym) sym {
	if v.fn != nil && len(v.binds) == 0 {
		return sym{expr: "(Go.fnRef \"" + c.t.fnName(v.fn) + "\")", typ: v.typ}
	}
	if v.fnNil {
		if _, isSig := v.typ.Underlying().(*types.Signature); isSig {
			return sym{expr: "(Go.fnRef \"\")", typ: v.typ}
		}
	}
	return v
}

// leaf: a final result, seen from inside a nested loop function
func (c *ctx) leaf(e string) string {
	if strings.Contains(e, "default") {
		c.usesDefault = true
	}
	if len(c.lstack) > 0 && c.lstack[len(c.lstack)-1].sumWrt != nil {
		return "Sum.inl " + e
	}
	return e
}

func (c *ctx) blockFrom(s *state, b *ssa.BasicBlock, from *ssa.BasicBlock, onPath map[*ssa.BasicBlock]bool, d int, phisBound bool) {
	if onPath[b] {
		fail("irreducible control flow")
	}
	onPath[b] = true
	defer delete(onPath, b)
	// phis first, simultaneously
	var phiVals []sym
	var phis []*ssa.Phi
	for _, in := range b.Instrs {
		ph, ok := in.(*ssa.Phi)
		if !ok {
			break
		}
		idx := -1
		for i, p := range b.Preds {
			if p == from {
				idx = i
			}
		}
		if idx < 0 && !phisBound {
			fail("internal: phi without matching predecessor")
		}
		phis = append(phis, ph)
		if phisBound {
			continue
		}
		phiVals = append(phiVals, c.val(s, ph.Edges[idx]))
	}
	if !phisBound {
		for i, ph := range phis {
			s.env[ph] = phiVals[i]
		}
	}
	c.runInstrs(s, b, len(phis), onPath, d)
}

type inlineFrame struct {
	fn     *ssa.Function
	prefix string
	resume func(s *state, results []sym, d int)
}

// inline: a call of a closure that captures variables is expanded in place (the captured variables are the caller's);
// each `return` of the closure continues with the rest of the caller's block
func (c *ctx) inline(s *state, call *ssa.Call, callee *ssa.Function, binds []sym, b *ssa.BasicBlock, idx int, onPath map[*ssa.BasicBlock]bool, d int) {
	if len(c.frames) > 4 {
		fail("closures nested too deeply")
	}
	for _, f := range c.frames {
		if f.fn == callee {
			fail("recursive expansion")
		}
	}
	if callee.Blocks == nil {
		fail("closure without body")
	}
	com := call.Common()
	for i, p := range callee.Params {
		av := c.val(s, com.Args[i])
		if av.fn != nil || av.comps != nil || av.boxed {
			fail("passing a non-first-order value to a closure")
		}
		s.env[p] = av
	}
	for i, fv := range callee.FreeVars {
		s.env[fv] = binds[i]
	}
	c.inlineSeq++
	fr := &inlineFrame{fn: callee, prefix: c.prefix}
	fr.resume = func(s2 *state, results []sym, d2 int) {
		switch len(results) {
		case 0:
		case 1:
			s2.env[call] = results[0]
		default:
			s2.env[call] = sym{comps: results, typ: call.Type()}
		}
		c.runInstrs(s2, b, idx+1, onPath, d2)
	}
	c.frames = append(c.frames, fr)
	c.prefix = fmt.Sprintf("%sk%d_", fr.prefix, c.inlineSeq)
	// (the expanded body has a path of its own: the rest of the caller is translated INSIDE its return leaves, and may
	// expand the same function again)
	c.block(s, callee.Blocks[0], nil, map[*ssa.BasicBlock]bool{}, d)
	c.prefix = fr.prefix
	c.frames = c.frames[:len(c.frames)-1]
}

func (c *ctx) runInstrs(s *state, b *ssa.BasicBlock, start int, onPath map[*ssa.BasicBlock]bool, d int) {
	for idx := start; idx < len(b.Instrs); idx++ {
		in := b.Instrs[idx]
		if call, ok := in.(*ssa.Call); ok && !call.Common().IsInvoke() && call.Common().StaticCallee() == nil {
			if _, isB := call.Common().Value.(*ssa.Builtin); !isB {
				_, isUpd := updaterOf(call.Common().Value.Type())
				if v := c.val(s, call.Common().Value); v.fn == nil && !v.fnNil && v.expr != "" && !isUpd {
					// a function value known only by name (it came back from a call: the decoder's next mode): one branch per
					// function of the package with that signature, compared by name
					sig, ok := call.Common().Value.Type().Underlying().(*types.Signature)
					if !ok {
						fail("dynamic call")
					}
					var cands []*ssa.Function
					for _, m := range c.fn.Pkg.Members {
						if f, ok := m.(*ssa.Function); ok && f.Synthetic == "" && types.Identical(f.Signature, sig) {
							cands = append(cands, f)
						}
					}
					sort.Slice(cands, func(i, j int) bool { return cands[i].Name() < cands[j].Name() })
					if len(cands) == 0 || len(cands) > 6 {
						fail("dynamic call with %d candidates", len(cands))
					}
					for k, cand := range cands {
						sk := s.clone()
						kw := "if"
						if k > 0 {
							kw = "else if"
						}
						fmt.Fprintf(&c.out, "%s%s %s = (Go.fnRef \"%s\") then\n", ind(d), kw, v.expr, c.t.fnName(cand))
						c.forceCallee = cand
						ended := func() (ended bool) {
							defer func() {
								c.forceCallee = nil
								if r := recover(); r != nil {
									if _, ok := r.(pathPanics); !ok {
										panic(r)
									}
									ended = true
								}
							}()
							c.instr(sk, call, d+1)
							return false
						}()
						if ended {
							fmt.Fprintf(&c.out, "%s%s\n", ind(d+1), c.leaf("(Go.panicked default)"))
							continue
						}
						c.runInstrs(sk, b, idx+1, onPath, d+1)
					}
					fmt.Fprintf(&c.out, "%selse\n%s%s\n", ind(d), ind(d+1), c.leaf("(Go.panicked default)"))
					return
				}
			}
		}
		if call, ok := in.(*ssa.Call); ok && !call.Common().IsInvoke() {
			if f := call.Common().StaticCallee(); f != nil && len(f.FreeVars) == 0 && f.Blocks != nil {
				handled := false
				for ai, a := range call.Common().Args {
					if _, isPtr := a.Type().Underlying().(*types.Pointer); !isPtr {
						continue
					}
					if av, ok := s.env[a]; ok && av.ptr != nil && len(av.ptr.path) == 0 {
						if cl := s.cells[av.ptr.cell.id]; cl != nil && cl.viewVal != nil {
							// a callee that does nothing with the view but append to it is CALLED on the view's content; what it
							// returns is written into the array (Go.writeWindow: within the capacity an append writes in place)
							if cl.viewVal.length >= 0 && appendOnly(f, ai, 0) && c.callOnView(s, call, f, ai, cl, d) {
								handled = true
								break
							}
							// any other callee that works on a view of one of our arrays is expanded in place (its appends are
							// writes into that array)
							c.inline(s, call, f, nil, b, idx, onPath, d)
							return
						}
					}
				}
				if handled {
					continue
				}
			}
			if _, isB := call.Common().Value.(*ssa.Builtin); !isB && call.Common().StaticCallee() == nil {
				if v := c.val(s, call.Common().Value); v.fn != nil && len(v.fn.FreeVars) > 0 {
					c.inline(s, call, v.fn, v.binds, b, idx, onPath, d)
					return
				}
			} else if f := call.Common().StaticCallee(); f != nil && len(f.FreeVars) > 0 {
				if mc, ok := call.Common().Value.(*ssa.MakeClosure); ok {
					v := c.val(s, mc)
					c.inline(s, call, f, v.binds, b, idx, onPath, d)
					return
				}
			}
		}
		switch x := in.(type) {
		case *ssa.If:
			// `if !c { A } else { B }` is `if c { B } else { A }`
			condV, thenB, elseB := x.Cond, b.Succs[0], b.Succs[1]
			for {
				u, ok := condV.(*ssa.UnOp)
				if !ok || u.Op != token.NOT {
					break
				}
				condV, thenB, elseB = u.X, elseB, thenB
			}
			cond := c.val(s, condV)
			if u, ok := condV.(*ssa.BinOp); ok {
				// a test decided at translation time (nil tests, see binop): only the live branch exists
				if e := s.constCond[u]; e == "true" {
					c.block(s, thenB, b, onPath, d)
					return
				} else if e == "false" {
					c.block(s, elseB, b, onPath, d)
					return
				}
			}
			s2 := s.clone()
			fmt.Fprintf(&c.out, "%sif %s then\n", ind(d), cond.expr)
			c.block(s, thenB, b, onPath, d+1)
			fmt.Fprintf(&c.out, "%selse\n", ind(d))
			c.block(s2, elseB, b, onPath, d+1)
			return
		case *ssa.Jump:
			c.block(s, b.Succs[0], b, onPath, d)
			return
		case *ssa.Panic:
			// an explicit panic ends the path: the translation is about the executions that do not panic; the leaf
			// yields the default value of the result type (and says so)
			c.leaves++
			fmt.Fprintf(&c.out, "%s%s\n", ind(d), c.leaf("(Go.panicked default)"))
			return
		case *ssa.Return:
			if n := len(c.frames); n > 0 && c.frames[n-1].fn == x.Parent() {
				fr := c.frames[n-1]
				var results []sym
				for _, r := range x.Results {
					results = append(results, c.val(s, r))
				}
				c.frames = c.frames[:n-1]
				savedPrefix := c.prefix
				c.prefix = fr.prefix
				fr.resume(s, results, d)
				c.prefix = savedPrefix
				c.frames = append(c.frames, fr)
				return
			}
			c.leaves++
			if c.leaves > 400 {
				fail("too many paths")
			}
			var parts []string
			for i, r := range x.Results {
				v := c.val(s, r)
				if _, isSig := r.Type().Underlying().(*types.Signature); isSig && (v.fn != nil || v.fnNil) {
					if len(v.binds) > 0 {
						fail("returning a closure that captures variables")
					}
					if v.fnNil {
						parts = append(parts, "(Go.fnRef \"\")")
					} else {
						parts = append(parts, "(Go.fnRef \""+c.t.fnName(v.fn)+"\")")
					}
					continue
				}
				if v.ptr != nil || v.fn != nil || v.comps != nil || v.iface {
					fail("returning a non-first-order value")
				}
				if v.backed {
					fail("returning a slice that aliases an array")
				}
				if v.fromParam > 0 {
					c.info.escapes[v.fromParam-1] = true
				}
				if _, isI := r.Type().Underlying().(*types.Interface); isI && !isErrorType(r.Type()) {
					if !v.boxed {
						fail("returning an interface value")
					}
					if c.retConcrete == nil {
						c.retConcrete = map[int]types.Type{}
					}
					if old, ok := c.retConcrete[i]; ok && !types.Identical(old, v.typ) {
						fail("returns box different concrete types")
					}
					c.retConcrete[i] = v.typ
				}
				parts = append(parts, v.expr)
			}
			for _, io := range c.fixedOut {
				cl := s.cells[c.pcell[io.param]]
				q := &ptrv{cell: cl}
				if io.field >= 0 {
					st := cl.root.typ.Underlying().(*types.Struct)
					q.path = []step{{field: io.field, name: st.Field(io.field).Name(), cidx: -1}}
				}
				parts = append(parts, c.load(q))
			}
			switch len(parts) {
			case 0:
				fmt.Fprintf(&c.out, "%s%s\n", ind(d), c.leaf("()"))
			case 1:
				fmt.Fprintf(&c.out, "%s%s\n", ind(d), c.leaf(parts[0]))
			default:
				fmt.Fprintf(&c.out, "%s%s\n", ind(d), c.leaf("("+strings.Join(parts, ", ")+")"))
			}
			return
		default:
			ended := func() (ended bool) {
				defer func() {
					if r := recover(); r != nil {
						if _, ok := r.(pathPanics); !ok {
							panic(r)
						}
						ended = true
					}
				}()
				c.instr(s, in, d)
				return false
			}()
			if ended {
				c.leaves++
				fmt.Fprintf(&c.out, "%s%s\n", ind(d), c.leaf("(Go.panicked default)"))
				return
			}
		}
	}
	fail("block without terminator")
}

func sortedStrKeys(m map[string]string) []string {
	var ks []string
	for k := range m {
		ks = append(ks, k)
	}
	sort.Strings(ks)
	return ks
}

func sortedKeys(m map[string]bool) []string {
	var r []string
	for k := range m {
		r = append(r, k)
	}
	sort.Strings(r)
	return r
}

func sortedIO(m map[string]ioPath) []ioPath {
	var keys []string
	for k := range m {
		keys = append(keys, k)
	}
	sort.Strings(keys)
	var r []ioPath
	for _, k := range keys {
		r = append(r, m[k])
	}
	return r
}

// global returns the value a package-level variable has after its package's initialisation, when that value
// can be computed from the `init` function alone (constant composite literals, math.Float32frombits, …).
// That the variable still has this value later rests on the regenerated fact that no function of the module
// writes to a package-level variable (Tie.Globals: `globalWrites = []`).
func (t *translator) global(g *ssa.Global) *node {
	pk := g.Pkg
	if pk == nil {
		return nil
	}
	if !t.gdone[pk] {
		t.gdone[pk] = true
		t.runInit(pk)
	}
	return t.globals[g]
}

func (t *translator) runInit(pk *ssa.Package) {
	init := pk.Func("init")
	if init == nil || len(init.Blocks) < 2 {
		return
	}
	c := &ctx{t: t, info: &fnInfo{calls: map[*ssa.Function]bool{}, gdeps: map[*types.Package]bool{}, ifaces: map[string]bool{}, exts: map[string]string{}}, fn: init, inputs: map[string]ioPath{}, outputs: map[string]ioPath{}, pcell: map[int]int{}, inInit: true,
		prefix: "init_" + pkgShort(pk.Pkg) + "_"}
	s := &state{env: map[ssa.Value]sym{}, cells: map[int]*cell{}}
	gcell := map[*ssa.Global]*cell{}
	bad := map[*ssa.Global]bool{}
	// the initialisation block(s): straight-line after the guard
	b := init.Blocks[1]
	seen := map[*ssa.BasicBlock]bool{}
	for b != nil && !seen[b] {
		seen[b] = true
		var next *ssa.BasicBlock
		for _, in := range b.Instrs {
			if j, ok := in.(*ssa.Jump); ok {
				next = j.Block().Succs[0]
				break
			}
			if _, ok := in.(*ssa.Return); ok {
				break
			}
			if _, ok := in.(*ssa.If); ok {
				// `x := a && b`: one arm falls through to the other; go on at the join (what the arm and the phi define is
				// not available, and a store of it poisons its global)
				next = nil
				s0, s1 := b.Succs[0], b.Succs[1]
				if len(s0.Succs) == 1 && s0.Succs[0] == s1 {
					next = s1
				} else if len(s1.Succs) == 1 && s1.Succs[0] == s0 {
					next = s0
				}
				break
			}
			if _, ok := in.(*ssa.Phi); ok {
				continue
			}
			func() {
				defer func() {
					if r := recover(); r != nil {
						if _, ok := r.(unsupported); !ok {
							panic(r)
						}
						// a store whose value could not be computed poisons the global it targets
						if st, ok := in.(*ssa.Store); ok {
							if root := rootGlobal(st.Addr); root != nil {
								bad[root] = true
							}
						}
					}
				}()
				// make every global addressed by this instruction a cell of its own
				for _, op := range in.Operands(nil) {
					if g, ok := (*op).(*ssa.Global); ok {
						if _, ok := gcell[g]; !ok {
							c.ncell++
							cl := &cell{id: c.ncell, param: -3, root: &node{typ: g.Type().Underlying().(*types.Pointer).Elem()}}
							func() {
								defer func() {
									if r := recover(); r != nil {
										bad[g] = true
									}
								}()
								cl.root.expr = ""
								_ = t.zero(cl.root.typ)
							}()
							gcell[g] = cl
							s.cells[cl.id] = cl
						}
						s.env[g] = sym{ptr: &ptrv{cell: gcell[g]}, typ: g.Type()}
					}
				}
				if call, ok := in.(*ssa.Call); ok {
					if f := call.Common().StaticCallee(); f != nil && f.Name() == "init" {
						return
					}
				}
				c.instr(s, in, 1)
			}()
		}
		b = next
	}
	// the let-bindings emitted while running init become top-level definitions of the package's file
	var defs strings.Builder
	for _, l := range strings.Split(strings.TrimSpace(c.out.String()), "\n") {
		l = strings.TrimSpace(l)
		if strings.HasPrefix(l, "let ") {
			defs.WriteString("tolerant def " + strings.TrimPrefix(l, "let ") + "\n")
		}
	}
	var gs []*ssa.Global
	for g := range gcell {
		gs = append(gs, g)
	}
	sort.Slice(gs, func(i, j int) bool { return gs[i].Name() < gs[j].Name() })
	for _, g := range gs {
		cl := gcell[g]
		if bad[g] || strings.Contains(g.Name(), "$") {
			continue
		}
		func() {
			defer func() {
				if r := recover(); r != nil {
					if _, ok := r.(unsupported); !ok {
						panic(r)
					}
				}
			}()
			e := c.materialize(cl, cl.root, 0)
			name := "G_" + pkgShort(pk.Pkg) + "_" + g.Name()
			fmt.Fprintf(&defs, "tolerant\n/-- package-level variable %s.%s after initialisation -/\ndef %s : %s := %s\n", pk.Pkg.Path(), g.Name(), name, t.leanType(cl.root.typ), e)
			t.globals[g] = &node{typ: cl.root.typ, expr: name}
		}()
	}
	t.gdefs[pk.Pkg] = defs.String()
	for cal := range c.info.calls {
		if t.gcalls[pk.Pkg] == nil {
			t.gcalls[pk.Pkg] = map[*ssa.Function]bool{}
		}
		t.gcalls[pk.Pkg][cal] = true
	}
}

func rootGlobal(v ssa.Value) *ssa.Global {
	for {
		switch x := v.(type) {
		case *ssa.Global:
			return x
		case *ssa.FieldAddr:
			v = x.X
		case *ssa.IndexAddr:
			v = x.X
		default:
			return nil
		}
	}
}

func (t *translator) fnName(fn *ssa.Function) string {
	name := fn.Name()
	name = strings.NewReplacer("$", "_", ".", "_").Replace(name)
	pk := "x"
	if fn.Pkg != nil {
		pk = pkgShort(fn.Pkg.Pkg)
	} else if fn.Parent() != nil && fn.Parent().Pkg != nil {
		pk = pkgShort(fn.Parent().Pkg.Pkg)
	} else if fn.Signature.Recv() == nil && fn.Signature.Params().Len() > 0 {
		ty := fn.Signature.Params().At(0).Type()
		if p, ok := ty.(*types.Pointer); ok {
			ty = p.Elem()
		}
		if n, ok := ty.(*types.Named); ok && n.Obj().Pkg() != nil {
			pk = pkgShort(n.Obj().Pkg()) + "_" + n.Obj().Name()
		}
	}
	if fn.Signature.Recv() != nil {
		rt := fn.Signature.Recv().Type()
		if p, ok := rt.(*types.Pointer); ok {
			rt = p.Elem()
		}
		if n, ok := rt.(*types.Named); ok {
			return pk + "_" + n.Obj().Name() + "_" + name
		}
	}
	return pk + "_" + name
}

func (t *translator) translate(fn *ssa.Function) *fnInfo { return t.translateSpec(fn, nil) }

// translateSpec: `spec` fixes function-typed parameters to known functions (or to nil): the translation of a
// higher-order function is one first-order translation per way it is called
func (t *translator) translateSpec(fn *ssa.Function, spec map[int]*ssa.Function) (fi *fnInfo) {
	key := ""
	if len(spec) > 0 {
		var ks []int
		for k := range spec {
			ks = append(ks, k)
		}
		sort.Ints(ks)
		for _, k := range ks {
			if spec[k] == nil {
				key += fmt.Sprintf("__%snil", fn.Params[k].Name())
			} else {
				key += "__" + t.fnName(spec[k])
			}
		}
	}
	if fn.Synthetic != "" && key == "" {
		// wrappers (method expressions, bound methods) are created per use: one translation per name
		if old, ok := t.specs["synthetic "+fn.String()]; ok {
			t.funcs[fn] = old
			return old
		}
	}
	if key == "" {
		if old, ok := t.funcs[fn]; ok {
			return old
		}
	} else if old, ok := t.specs[fn.String()+key]; ok {
		return old
	}
	fi = &fnInfo{written: map[int]bool{}, escapes: map[int]bool{}, fn: fn, name: t.fnName(fn) + key, busy: true, calls: map[*ssa.Function]bool{}, callsFi: map[*fnInfo]bool{}, spec: spec, specKey: key, gdeps: map[*types.Package]bool{}, ifaces: map[string]bool{}, exts: map[string]string{}}
	if key == "" {
		t.funcs[fn] = fi
		if fn.Synthetic != "" {
			t.specs["synthetic "+fn.String()] = fi
		}
	} else {
		t.specs[fn.String()+key] = fi
	}
	defer func() {
		fi.busy = false
		fi.done = true
		if r := recover(); r != nil {
			if u, ok := r.(unsupported); ok {
				fi.err = u.why
				return
			}
			panic(r)
		}
	}()
	if fn.Blocks == nil {
		fail("no body (external or assembly)")
	}
	if fn.Signature.TypeParams() != nil || fn.Signature.RecvTypeParams() != nil {
		fail("generic function")
	}
	var fixedOut []ioPath
	var c *ctx
	saved := t.cur
	t.cur = fi
	defer func() { t.cur = saved }()
	prevSig := ""
	for pass := 0; pass < 6; pass++ {
		fi.ifaces = map[string]bool{}
		fi.exts = map[string]string{}
		c = &ctx{t: t, info: fi, fn: fn, inputs: map[string]ioPath{}, outputs: map[string]ioPath{}, pcell: map[int]int{}, fixedOut: fixedOut}
		wasSelfRec := fi.selfRec
		if wasSelfRec {
			c.fuelVar = "fuel'"
			c.usesFuel = true
		}
		fi.calls = map[*ssa.Function]bool{}
		fi.callsFi = map[*fnInfo]bool{}
		s := &state{env: map[ssa.Value]sym{}, cells: map[int]*cell{}}
		for i, p := range fn.Params {
			if isFuncSlice(p.Type()) {
				if _, fixed := spec[i]; fixed {
					s.env[p] = sym{expr: "([] : List Go.FnRef)", emptyFuncs: true, typ: p.Type()}
					continue
				}
				if !isUpdaterSlice(p.Type()) {
					fail("parameter of type %s (a list of function values, not fixed to empty)", p.Type())
				}
			}
			if _, isSig := p.Type().Underlying().(*types.Signature); isSig {
				f, fixed := spec[i]
				if !fixed {
					fail("parameter of function type %s (not fixed by the caller)", p.Type())
				}
				if f == nil {
					s.env[p] = sym{fnNil: true, typ: p.Type()}
				} else {
					s.env[p] = sym{fn: f, typ: p.Type()}
				}
				continue
			}
			if _, isI := p.Type().Underlying().(*types.Interface); isI && !isErrorType(p.Type()) && !isHandleType(p.Type()) {
				if f, fixed := spec[i]; fixed && f == nil {
					s.env[p] = sym{fnNil: true, typ: p.Type()} // the caller passes nil: nobody listens
					continue
				}
				// an interface parameter is an abstract object (see invoke); it is taken to be non-nil
				if _, named := p.Type().(*types.Named); !named {
					fail("parameter of unnamed interface type")
				}
				t.leanType(p.Type())
				c.ncell++
				cl := &cell{id: c.ncell, param: i, root: &node{typ: p.Type()}}
				s.cells[cl.id] = cl
				c.pcell[i] = cl.id
				s.env[p] = sym{ptr: &ptrv{cell: cl}, typ: p.Type(), iface: true}
				continue
			}
			if pt, ok := p.Type().Underlying().(*types.Pointer); ok {
				c.ncell++
				cl := &cell{id: c.ncell, param: i, root: &node{typ: pt.Elem()}}
				s.cells[cl.id] = cl
				c.pcell[i] = cl.id
				s.env[p] = sym{ptr: &ptrv{cell: cl}, typ: p.Type()}
				continue
			}
			switch p.Type().Underlying().(type) {
			case *types.Interface, *types.Signature, *types.Map, *types.Chan:
				if !isErrorType(p.Type()) && !isHandleType(p.Type()) {
					fail("parameter of type %s", p.Type())
				}
			}
			ps := sym{expr: c.paramName(i), typ: p.Type()}
			if _, isSl := p.Type().Underlying().(*types.Slice); isSl {
				ps.fromParam = i + 1
				if fi.written[i] {
					// elements of this slice are stored into: the list lives in a cell (input and extra result)
					c.ncell++
					cl := &cell{id: c.ncell, param: i, root: &node{typ: p.Type()}}
					s.cells[cl.id] = cl
					c.pcell[i] = cl.id
					ps.wcell = cl.id
				}
			}
			s.env[p] = ps
		}
		c.block(s, fn.Blocks[0], nil, map[*ssa.BasicBlock]bool{}, 1)
		if c.rerun {
			prevSig = "rerun"
			continue
		}
		for i := range fi.written {
			// the list of a written slice parameter is always an extra result
			io := ioPath{param: i, field: -1, name: c.paramName(i) + "_val", typ: fn.Params[i].Type()}
			c.outputs[ioKey(io)] = io
			c.inputs[ioKey(io)] = io
		}
		newOut := sortedIO(c.outputs)
		sig := fmt.Sprint(fi.selfRec, c.usesFuel, c.usesDefault, "|")
		for _, io := range sortedIO(c.inputs) {
			sig += io.name + ","
		}
		sig += "|"
		for _, io := range newOut {
			sig += io.name + ","
		}
		sig += "|" + strings.Join(sortedKeys(fi.ifaces), ",") + "|" + strings.Join(sortedStrKeys(fi.exts), ",")
		fi.retConcrete = c.retConcrete
		for i := 0; i < fn.Signature.Results().Len(); i++ {
			if ct, ok := c.retConcrete[i]; ok {
				sig += "|" + ct.String()
			}
		}
		fi.inputs = sortedIO(c.inputs)
		fi.outputs = newOut
		fi.fuel = c.usesFuel
		fi.needInh = c.usesFuel || c.usesDefault
		fixedOut = newOut
		if sig == prevSig && wasSelfRec == fi.selfRec {
			break
		}
		prevSig = sig
		if pass == 5 {
			fail("signature does not stabilise")
		}
	}
	// signature
	var ps []string
	for _, in := range sortedKeys(fi.ifaces) {
		if fi.needInh {
			ps = append(ps, fmt.Sprintf("{R_%s : Type} [Inhabited R_%s] (I_%s : %s_ops R_%s)", in, in, in, in, in))
		} else {
			ps = append(ps, fmt.Sprintf("{R_%s : Type} (I_%s : %s_ops R_%s)", in, in, in, in))
		}
	}
	for _, x := range sortedStrKeys(fi.exts) {
		ps = append(ps, fmt.Sprintf("(%s : %s)", x, fi.exts[x]))
	}
	if fi.fuel {
		ps = append(ps, "(fuel : Nat)")
	}
	for i, p := range fn.Params {
		if _, isSig := p.Type().Underlying().(*types.Signature); isSig {
			continue
		}
		if isFuncSlice(p.Type()) {
			if _, fixed := fi.spec[i]; fixed || !isUpdaterSlice(p.Type()) {
				continue
			}
		}
		if f, fixed := fi.spec[i]; fixed && f == nil {
			if _, isI := p.Type().Underlying().(*types.Interface); isI {
				continue
			}
		}
		_, isPtr := p.Type().Underlying().(*types.Pointer)
		_, isI := p.Type().Underlying().(*types.Interface)
		if isPtr || (isI && !isErrorType(p.Type()) && !isHandleType(p.Type())) || fi.written[i] {
			for _, io := range fi.inputs {
				if io.param == i {
					ps = append(ps, fmt.Sprintf("(%s : %s)", io.name, t.leanType(io.typ)))
				}
			}
			continue
		}
		ps = append(ps, fmt.Sprintf("(%s : %s)", c.paramName(i), t.leanType(p.Type())))
	}
	var rs []string
	res := fn.Signature.Results()
	for i := 0; i < res.Len(); i++ {
		if ct, ok := fi.retConcrete[i]; ok {
			rs = append(rs, t.leanType(ct))
			continue
		}
		rs = append(rs, t.leanType(res.At(i).Type()))
	}
	for _, io := range fi.outputs {
		rs = append(rs, t.leanType(io.typ))
	}
	fi.retType = "Unit"
	if len(rs) > 0 {
		fi.retType = strings.Join(rs, " × ")
	}
	fi.params = strings.Join(ps, " ")
	fi.body = c.out.String()
	if fi.selfRec {
		fi.body = "  match fuel with\n  | 0 => default\n  | fuel' + 1 =>\n" + strings.ReplaceAll(fi.body, "\n  ", "\n    ")
		fi.body = strings.Replace(fi.body, "=>\n  ", "=>\n    ", 1)
	}
	return fi
}

func pkgFile(p *types.Package) string {
	s := pkgShort(p)
	return "P_" + s
}

func main() {
	repo, outDir := os.Args[1], os.Args[2]
	cfg := &packages.Config{Mode: packages.LoadAllSyntax, Dir: repo}
	pkgs, err := packages.Load(cfg, "./...")
	if err != nil {
		fmt.Fprintln(os.Stderr, err)
		os.Exit(2)
	}
	if packages.PrintErrors(pkgs) > 0 {
		os.Exit(2)
	}
	prog, _ := ssautil.AllPackages(pkgs, ssa.BuilderMode(0))
	prog.Build()
	t := &translator{specs: map[string]*fnInfo{}, ifaces: map[string]*types.Named{}, gdefs: map[*types.Package]string{}, gcalls: map[*types.Package]map[*ssa.Function]bool{}, globals: map[*ssa.Global]*node{}, gdone: map[*ssa.Package]bool{}, prog: prog, structs: map[string]*types.Struct{}, funcs: map[*ssa.Function]*fnInfo{}, opaqueOps: map[string]map[string]string{}}

	// library functions of the module (no commands, no tests), in a deterministic order
	var targets []*ssa.Function
	for fn := range ssautil.AllFunctions(prog) {
		if fn.Pkg == nil || fn.Synthetic != "" {
			continue
		}
		path := fn.Pkg.Pkg.Path()
		if path != modPath && !strings.HasPrefix(path, modPath+"/") {
			continue
		}
		if strings.Contains(path, "/cmd/") || fn.Name() == "init" {
			continue
		}
		targets = append(targets, fn)
	}
	sort.Slice(targets, func(i, j int) bool { return targets[i].String() < targets[j].String() })
	for _, fn := range targets {
		for _, b := range fn.Blocks {
			for _, in := range b.Instrs {
				if call, ok := in.(ssa.CallInstruction); ok && call.Common().IsInvoke() {
					// (interfaces of the module only: values of library interfaces — image.Image, color.Color — are handles
					// even if some untranslatable function calls a method on one)
					if n, ok := call.Common().Value.Type().(*types.Named); ok && n.Obj().Pkg() != nil &&
						(n.Obj().Pkg().Path() == modPath || strings.HasPrefix(n.Obj().Pkg().Path(), modPath+"/")) {
						objectLike[n.Obj().Pkg().Path()+"."+n.Obj().Name()] = true
					}
				}
			}
		}
	}
	for _, fn := range targets {
		fi := t.translate(fn)
		// a function that takes a printing callback (`p printer`, called only under `if p != nil`) is also translated
		// with that callback fixed to nil: what Decode runs
		hasOpts := false
		for _, p := range fn.Params {
			if isUpdaterSlice(p.Type()) {
				hasOpts = true // also translated with no options given
			}
		}
		if fi.err != "" || hasOpts {
			spec := map[int]*ssa.Function{}
			for i, p := range fn.Params {
				if n, ok := p.Type().(*types.Named); ok && n.Obj().Name() == "printer" {
					spec[i] = nil
				}
				if isFuncSlice(p.Type()) {
					spec[i] = nil // variadic options: none given
				}
			}
			if len(spec) > 0 {
				t.translateSpec(fn, spec)
			}
		}
	}

	// group by package
	byPkg := map[*types.Package][]*fnInfo{}
	var all []*fnInfo
	for _, fi := range t.funcs {
		all = append(all, fi)
	}
	seenFi := map[*fnInfo]bool{}
	for _, fi := range all {
		seenFi[fi] = true
	}
	for _, fi := range t.specs {
		if !seenFi[fi] {
			seenFi[fi] = true
			all = append(all, fi)
		}
	}
	{
		var uniq []*fnInfo
		seen2 := map[*fnInfo]bool{}
		for _, fi := range all {
			if !seen2[fi] {
				seen2[fi] = true
				uniq = append(uniq, fi)
			}
		}
		all = uniq
	}
	sort.Slice(all, func(i, j int) bool { return all[i].fn.String()+all[i].specKey < all[j].fn.String()+all[j].specKey })
	ownerPkg := func(fn *ssa.Function) *types.Package {
		for fn.Pkg == nil && fn.Parent() != nil {
			fn = fn.Parent()
		}
		if fn.Pkg != nil {
			return fn.Pkg.Pkg
		}
		if o := fn.Object(); o != nil && o.Pkg() != nil {
			return o.Pkg()
		}
		// a synthetic wrapper (method expression, bound method): the package of its first parameter's type
		if fn.Signature.Params().Len() > 0 {
			ty := fn.Signature.Params().At(0).Type()
			if p, ok := ty.(*types.Pointer); ok {
				ty = p.Elem()
			}
			if n, ok := ty.(*types.Named); ok && n.Obj().Pkg() != nil {
				return n.Obj().Pkg()
			}
		}
		return nil
	}
	for _, fi := range all {
		if fi.err == "" && ownerPkg(fi.fn) == nil {
			fi.err = "no owning package"
		}
		if fi.err == "" {
			byPkg[ownerPkg(fi.fn)] = append(byPkg[ownerPkg(fi.fn)], fi)
		}
	}
	os.MkdirAll(outDir, 0o755)
	old, _ := filepath.Glob(filepath.Join(outDir, "*.lean.new"))
	for _, f := range old {
		os.Remove(f)
	}
	written := map[string]bool{}
	write := func(name, content string) {
		path := filepath.Join(outDir, name)
		written[name] = true
		if b, err := os.ReadFile(path); err == nil && string(b) == content {
			return
		}
		if err := os.WriteFile(path, []byte(content), 0o644); err != nil {
			panic(err)
		}
	}
	// types
	var tb strings.Builder
	tb.WriteString("import Ivg.Gen.GoPrelude\n/-! GENERATED by /verif/translator from the Go source of /repo — do not edit. Struct types passed by value. -/\nnamespace Ivg.Gen.Code\nopen Ivg.Num Ivg.Gen\n\n")
	// interfaces: the object behind an interface value is an abstract state `R` with one function per method
	// (methods whose signature mentions interfaces, functions, strings … are left out: code calling them is unsupported)
	var ib strings.Builder
	for _, name := range t.iorder {
		named := t.ifaces[name]
		it := named.Underlying().(*types.Interface)
		var lines []string
		for i := 0; i < it.NumMethods(); i++ {
			m := it.Method(i)
			if !t.methodOK(named, m.Name()) {
				continue
			}
			sig := m.Type().(*types.Signature)
			parts := []string{"R"}
			for j := 0; j < sig.Params().Len(); j++ {
				parts = append(parts, t.leanType(sig.Params().At(j).Type()))
			}
			res := "R"
			if sig.Results().Len() > 0 {
				var rs []string
				for j := 0; j < sig.Results().Len(); j++ {
					rs = append(rs, t.leanType(sig.Results().At(j).Type()))
				}
				res = "(" + strings.Join(rs, " × ") + ") × R"
			}
			lines = append(lines, fmt.Sprintf("  %s : %s → %s", leanIdent(m.Name()), strings.Join(parts, " → "), res))
		}
		fmt.Fprintf(&ib, "/-- Go interface %s: the object behind a value of this type, as far as the translated code can tell -/\nstructure %s_ops (R : Type) where\n%s\n\n", named.String(), name, strings.Join(lines, "\n"))
	}
	for _, name := range t.oorder {
		var lines []string
		for _, op := range sortedStrKeys(t.opaqueOps[name]) {
			lines = append(lines, fmt.Sprintf("  %s : %s", op, t.opaqueOps[name][op]))
		}
		if len(lines) == 0 {
			lines = []string{"  unused : Unit"}
		}
		fmt.Fprintf(&ib, "/-- library type %s, an opaque object: the operations the translated code performs on it -/\nstructure %s_ops (R : Type) where\n%s\n\n", name, name, strings.Join(lines, "\n"))
	}
	// (structs discovered while printing the method signatures)
	var tb2 strings.Builder
	tb2.WriteString("import Ivg.Gen.GoPrelude\n/-! GENERATED by /verif/translator from the Go source of /repo — do not edit. Struct types passed by value; interfaces as abstract objects. -/\nnamespace Ivg.Gen.Code\nopen Ivg.Num Ivg.Gen\n\n")
	badStruct := map[string]bool{}
	for k := 0; k < len(t.sorder); k++ { // (printing a struct may register the types of its fields)
		name := t.sorder[k]
		st := t.structs[name]
		text, ok := func() (txt string, ok bool) {
			defer func() {
				if r := recover(); r != nil {
					if _, isU := r.(unsupported); !isU {
						panic(r)
					}
					ok = false
				}
			}()
			var sb strings.Builder
			fmt.Fprintf(&sb, "structure %s where\n", name)
			var zs []string
			for i := 0; i < st.NumFields(); i++ {
				f := st.Field(i)
				if f.Name() == "_" || f.Name() == "" {
					fail("blank field")
				}
				lt := t.leanType(f.Type())
				for bad := range badStruct {
					if strings.Contains(lt, bad) {
						fail("field of an unsupported struct type")
					}
				}
				fmt.Fprintf(&sb, "  %s : %s\n", leanIdent(f.Name()), lt)
				zs = append(zs, t.zero(f.Type()))
			}
			fmt.Fprintf(&sb, "deriving DecidableEq, Repr\n")
			fmt.Fprintf(&sb, "def %s.zero : %s := ⟨%s⟩\ninstance : Inhabited %s := ⟨%s.zero⟩\n\n", name, name, strings.Join(zs, ", "), name, name)
			return sb.String(), true
		}()
		if !ok {
			badStruct[name] = true
			continue
		}
		tb2.WriteString(text)
	}
	tb2.WriteString(ib.String())
	tb2.WriteString("end Ivg.Gen.Code\n")
	_ = tb
	write("Types.lean", tb2.String())

	var pkgList []*types.Package
	for p := range byPkg {
		pkgList = append(pkgList, p)
	}
	sort.Slice(pkgList, func(i, j int) bool { return pkgList[i].Path() < pkgList[j].Path() })
	var index strings.Builder
	index.WriteString("/-! GENERATED by /verif/translator: which Go functions are translated, which are not and why. -/\n")
	gused := map[*types.Package]bool{}
	defer func() {}()
	for _, p := range pkgList {
		fis := byPkg[p]
		imports := map[string]bool{}
		for _, fi := range fis {
			for cal := range fi.callsFi {
				if q := ownerPkg(cal.fn); q != p {
					imports[pkgFile(q)] = true
				}
			}
			for q := range fi.gdeps {
				imports["G_"+pkgShort(q)] = true
				gused[q] = true
			}
		}
		var b strings.Builder
		b.WriteString("import Ivg.Gen.Code.Types\n")
		for _, fi := range fis {
			if strings.Contains(fi.body, "Go.writeWindow") {
				b.WriteString("import Ivg.Gen.GoWindow\n") // appends of a callee to a window of an array (see callOnView)
				break
			}
		}
		var imps []string
		for i := range imports {
			imps = append(imps, i)
		}
		sort.Strings(imps)
		for _, i := range imps {
			fmt.Fprintf(&b, "import Ivg.Gen.Code.%s\n", i)
		}
		fmt.Fprintf(&b, "/-! GENERATED by /verif/translator from package %s of /repo — do not edit. -/\nset_option linter.unusedVariables false\nnamespace Ivg.Gen.Code\nopen Ivg.Num Ivg.Gen\n\n", p.Path())
		// topological order within the package
		emitted := map[*fnInfo]bool{}
		var emit func(fi *fnInfo)
		emit = func(fi *fnInfo) {
			if emitted[fi] {
				return
			}
			emitted[fi] = true
			var cs []*fnInfo
			for cal := range fi.callsFi {
				if ownerPkg(cal.fn) == p {
					cs = append(cs, cal)
				}
			}
			sort.Slice(cs, func(i, j int) bool { return cs[i].name < cs[j].name })
			for _, ci := range cs {
				emit(ci)
			}
			pos := prog.Fset.Position(fi.fn.Pos())
			rel, _ := filepath.Rel(repo, pos.Filename)
			if strings.HasPrefix(rel, "..") {
				rel = filepath.Base(pos.Filename)
			}
			fmt.Fprintf(&b, "/-- %s  (%s) -/\ndef %s %s : %s :=\n%s\n", fi.fn.String(), rel, fi.name, fi.params, fi.retType, fi.body)
		}
		for _, fi := range fis {
			emit(fi)
		}
		b.WriteString("end Ivg.Gen.Code\n")
		write(pkgFile(p)+".lean", b.String())
	}
	var gl []*types.Package
	for q := range gused {
		gl = append(gl, q)
	}
	sort.Slice(gl, func(i, j int) bool { return gl[i].Path() < gl[j].Path() })
	for _, q := range gl {
		var b strings.Builder
		b.WriteString("import Ivg.Gen.Code.Types\nimport Ivg.Gen.Tie.Tolerant\n")
		var imps []string
		for cal := range t.gcalls[q] {
			if o := ownerPkg(cal); o != q {
				imps = append(imps, pkgFile(o))
			} else {
				fmt.Fprintln(os.Stderr, "translator: initialiser of package", q.Path(), "calls its own function", cal.String())
				os.Exit(2)
			}
		}
		sort.Strings(imps)
		for i, im := range imps {
			if i == 0 || imps[i-1] != im {
				fmt.Fprintf(&b, "import Ivg.Gen.Code.%s\n", im)
			}
		}
		fmt.Fprintf(&b, "/-! GENERATED by /verif/translator: package-level variables of %s as initialised — do not edit.\n(`tolerant`: a variable of a package outside the module whose initialiser cannot be expressed is skipped; whatever uses it then fails.) -/\nset_option maxRecDepth 100000\nnamespace Ivg.Gen.Code\nopen Ivg.Num Ivg.Gen\n\n%s\nend Ivg.Gen.Code\n", q.Path(), t.gdefs[q])
		write("G_"+pkgShort(q)+".lean", b.String())
	}
	for _, fi := range all {
		owner := ownerPkg(fi.fn)
		if owner == nil || !(owner.Path() == modPath || strings.HasPrefix(owner.Path(), modPath+"/")) {
			continue
		}
		if fi.err == "" {
			fmt.Fprintf(&index, "-- translated   %s%s  =>  %s\n", fi.fn.String(), fi.specKey, fi.name)
		} else {
			fmt.Fprintf(&index, "-- unsupported  %s%s : %s\n", fi.fn.String(), fi.specKey, fi.err)
		}
	}
	write("Index.lean", index.String())
	// remove stale generated files
	olds, _ := filepath.Glob(filepath.Join(outDir, "*.lean"))
	for _, f := range olds {
		if !written[filepath.Base(f)] {
			os.Remove(f)
		}
	}
}

// appendOnly: the function does nothing with the slice its pointer parameter #pi points to but append to it:
// every use of the parameter is a load whose value is only ever the first argument of an append, a store of such an
// append's result, or handing the pointer on to a function of the same kind.
func appendOnly(fn *ssa.Function, pi int, depth int) bool {
	if fn.Blocks == nil || depth > 3 || pi >= len(fn.Params) {
		return false
	}
	p := fn.Params[pi]
	isAppendOf := func(v ssa.Value) bool {
		call, ok := v.(*ssa.Call)
		if !ok {
			return false
		}
		b, ok := call.Common().Value.(*ssa.Builtin)
		if !ok || b.Name() != "append" {
			return false
		}
		u, ok := call.Common().Args[0].(*ssa.UnOp)
		return ok && u.Op == token.MUL && u.X == p
	}
	for _, r := range *p.Referrers() {
		switch x := r.(type) {
		case *ssa.DebugRef:
		case *ssa.UnOp:
			if x.Op != token.MUL {
				return false
			}
			for _, rr := range *x.Referrers() {
				if _, ok := rr.(*ssa.DebugRef); ok {
					continue
				}
				if !isAppendOf(rr.(ssa.Value)) {
					return false
				}
				// the loaded value must be the FIRST argument only
				if rc := rr.(*ssa.Call); len(rc.Common().Args) > 1 && rc.Common().Args[1] == ssa.Value(x) {
					return false
				}
			}
		case *ssa.Store:
			if x.Addr != ssa.Value(p) || !isAppendOf(x.Val) {
				return false
			}
		case *ssa.Call:
			callee := x.Common().StaticCallee()
			if callee == nil || x.Common().IsInvoke() {
				return false
			}
			n := 0
			for ai, a := range x.Common().Args {
				if a == ssa.Value(p) {
					n++
					if !appendOnly(callee, ai, depth+1) {
						return false
					}
				}
			}
			if n != 1 {
				return false
			}
		default:
			return false
		}
	}
	return true
}

// callOnView: see runInstrs.  Reports false (and has emitted nothing) when the callee's translation does not have the
// plain shape "the slice in, the slice out".
func (c *ctx) callOnView(s *state, call *ssa.Call, callee *ssa.Function, pi int, cl *cell, d int) bool {
	com := call.Common()
	ci := c.t.translateSpec(callee, nil)
	if ci.busy || ci.err != "" || len(ci.retConcrete) > 0 || ci.fuel || len(ci.ifaces) > 0 || len(ci.exts) > 0 || ci.needInh {
		return false
	}
	if len(ci.inputs) != 1 || ci.inputs[0].param != pi || ci.inputs[0].field >= 0 ||
		len(ci.outputs) != 1 || ci.outputs[0].param != pi || ci.outputs[0].field >= 0 {
		return false
	}
	v := cl.viewVal
	var args []string
	for i, a := range com.Args {
		if i == pi {
			continue
		}
		if _, isSig := a.Type().Underlying().(*types.Signature); isSig {
			return false
		}
		av, ok := s.env[a]
		if !ok {
			if _, isConst := a.(*ssa.Const); !isConst {
				return false
			}
			av = c.val(s, a)
		}
		if av.ptr != nil || av.fn != nil || av.comps != nil || av.boxed || av.iface || av.backed || av.view != nil || !firstOrder(a.Type()) {
			return false
		}
	}
	pt := com.Args[pi].Type().Underlying().(*types.Pointer)
	for i, a := range com.Args {
		if i == pi {
			if v.length == 0 {
				args = append(args, "([] : "+c.t.leanType(pt.Elem())+")")
			} else {
				args = append(args, c.viewSym(s, v, pt.Elem()).expr)
			}
			continue
		}
		args = append(args, c.val(s, a).expr)
	}
	c.info.calls[callee] = true
	c.info.callsFi[ci] = true
	nres := callee.Signature.Results().Len()
	k := nres + 1
	name := c.prefix + call.Name()
	if call.Name() == "" {
		c.tmp++
		name = fmt.Sprintf("%su%d", c.prefix, c.tmp)
	}
	fmt.Fprintf(&c.out, "%slet %s := (%s %s)\n", ind(d), name, ci.name, strings.Join(args, " "))
	var comps []sym
	for j := 0; j < nres; j++ {
		comps = append(comps, sym{expr: proj(name, j, k), typ: callee.Signature.Results().At(j).Type()})
	}
	switch nres {
	case 0:
	case 1:
		s.env[call] = comps[0]
	default:
		s.env[call] = sym{comps: comps, typ: call.Type()}
	}
	ap := &ptrv{cell: s.cells[v.arr.cell.id], path: v.arr.path}
	if ap.cell == nil {
		fail("view of consumed memory")
	}
	cur := c.load(ap)
	c.store(ap, fmt.Sprintf("(Go.writeWindow %s %d %d %s)", cur, v.lo, v.cap, proj(name, nres, k)))
	key := ""
	if len(ap.path) > 0 {
		key = ap.path[0].name
	}
	if _, ok := s.frozen[loopLoc{ap.cell.id, key}]; ok {
		s.frozen[loopLoc{ap.cell.id, key}]++
	}
	cl.viewVal = &viewInfo{arr: v.arr, lo: v.lo, length: -1, cap: v.cap, elemTy: v.elemTy}
	return true
}
