// Command gomathvec prints bit-exact test vectors for the Go math functions
// that the Lean model Ivg.GoMath ports (sin, cos, asin, acos, atan).
//
// Output: one line per vector
//
//	<fn> <input bits, 16 hex digits> <output bits, 16 hex digits>
//
// Usage:
//
//	go run ./cmd/gomathvec -n 20000 -seed 1 [-fn sin,cos,...] [-huge=true]
//
// At least n vectors are produced per function.
package main

import (
	"bufio"
	"flag"
	"fmt"
	"math"
	"math/rand"
	"os"
	"strings"
)

var (
	w   *bufio.Writer
	rng *rand.Rand
)

func emit(fn string, f func(float64) float64, x float64) {
	fmt.Fprintf(w, "%s %016x %016x\n", fn, math.Float64bits(x), math.Float64bits(f(x)))
}

// steps moves x by k ulps (k may be negative).
func steps(x float64, k int) float64 {
	for ; k > 0; k-- {
		x = math.Nextafter(x, math.Inf(1))
	}
	for ; k < 0; k++ {
		x = math.Nextafter(x, math.Inf(-1))
	}
	return x
}

func uniform(lo, hi float64) float64 { return lo + (hi-lo)*rng.Float64() }

// randExp returns ±m·2^e with a random 52-bit mantissa and e uniform in [elo, ehi].
func randExp(elo, ehi int) float64 {
	e := elo + rng.Intn(ehi-elo+1)
	bits := uint64(e+1023)<<52 | rng.Uint64()&(1<<52-1)
	if rng.Intn(2) == 0 {
		bits |= 1 << 63
	}
	return math.Float64frombits(bits)
}

var specials = []float64{
	0, math.Copysign(0, -1), math.Inf(1), math.Inf(-1), math.NaN(),
	math.Float64frombits(0x7ff0000000000001), // signalling NaN
	math.Float64frombits(0xfff8000000000000), // x86 indefinite
	math.Float64frombits(0xfff4000000000123),
	math.SmallestNonzeroFloat64, -math.SmallestNonzeroFloat64,
	math.Float64frombits(0x000fffffffffffff), math.Float64frombits(0x0010000000000000),
	math.Float64frombits(0x800fffffffffffff), math.Float64frombits(0x8010000000000000),
	math.MaxFloat64, -math.MaxFloat64,
	1, -1, 0.5, -0.5, 2, -2, 0.66, -0.66, 0.7, -0.7, 2.41421356237309504880, -2.41421356237309504880,
	math.Sqrt2 / 2, -math.Sqrt2 / 2, math.Pi, -math.Pi, math.Pi / 2, -math.Pi / 2, math.Pi / 4, -math.Pi / 4,
	1e-300, -1e-300, 1e-10, -1e-10, 1e-5, 1e300, -1e300, 1e22, 1 << 29, -(1 << 29), 1 << 30, 1 << 52, 1 << 53, 1 << 62, 1 << 63, 1 << 64,
}

func genTrig(fn string, f func(float64) float64, n int, huge bool) {
	for _, x := range specials {
		if !huge && math.Abs(x) >= 1<<29 && !math.IsInf(x, 0) {
			continue
		}
		emit(fn, f, x)
	}
	// dense grid around multiples of Pi/4 (hence also Pi/2): k*Pi/4 ± few ulps and ± small offsets
	cnt := n / 5
	for i := 0; i < cnt; i++ {
		var k int
		switch i % 4 {
		case 0:
			k = i / 4 % 64
		case 1:
			k = rng.Intn(4096)
		case 2:
			k = rng.Intn(1 << 20)
		default:
			k = rng.Intn(683565275) // k*Pi/4 < 2^29
		}
		base := float64(k) * (math.Pi / 4)
		if i%8 >= 4 {
			base = float64(k) * math.Pi / 4
		}
		var x float64
		switch rng.Intn(4) {
		case 0:
			x = steps(base, rng.Intn(17)-8)
		case 1:
			x = base + uniform(-1e-9, 1e-9)
		case 2:
			x = base + uniform(-1e-3, 1e-3)
		default:
			x = base * (1 + uniform(-1e-15, 1e-15))
		}
		if rng.Intn(2) == 0 {
			x = -x
		}
		emit(fn, f, x)
	}
	// uniform ranges
	for _, r := range []float64{10, 1000, 1e6} {
		for i := 0; i < n/5; i++ {
			emit(fn, f, uniform(-r, r))
		}
	}
	// magnitudes up to 2^29 (random exponent), including tiny and subnormal-ish values
	for i := 0; i < n/10; i++ {
		switch i % 4 {
		case 0:
			emit(fn, f, randExp(-1074+52, -30))
		case 1:
			emit(fn, f, randExp(-30, 2))
		default:
			emit(fn, f, randExp(2, 28))
		}
	}
	// boundary of the Cody-Waite / Payne-Hanek switch
	for k := -40; k <= 40; k++ {
		x := steps(1<<29, k)
		if !huge && x >= 1<<29 {
			continue
		}
		emit(fn, f, x)
		emit(fn, f, -x)
	}
	// beyond reduceThreshold (Payne-Hanek)
	if huge {
		for i := 0; i < n/10; i++ {
			switch i % 4 {
			case 0:
				emit(fn, f, randExp(29, 64))
			case 1:
				emit(fn, f, float64(rng.Int63n(1<<53))*math.Pi/4) // near multiples of Pi/4, large
			default:
				emit(fn, f, randExp(29, 1023))
			}
		}
		// all binades: 2^e and neighbours
		for e := 29; e <= 1023; e++ {
			x := math.Ldexp(1, e)
			emit(fn, f, x)
			emit(fn, f, steps(x, -1))
			emit(fn, f, -steps(x, 1))
		}
	} else {
		for i := 0; i < n/10; i++ {
			emit(fn, f, randExp(20, 28))
		}
	}
	// random bit patterns
	for i := 0; i < 200; i++ {
		x := math.Float64frombits(rng.Uint64())
		if !huge && math.Abs(x) >= 1<<29 {
			continue
		}
		emit(fn, f, x)
	}
}

func genArc(fn string, f func(float64) float64, n int) {
	for _, x := range specials {
		emit(fn, f, x)
	}
	// uniform in [-1,1]
	for i := 0; i < n/2; i++ {
		emit(fn, f, uniform(-1, 1))
	}
	// near interesting points
	pts := []float64{1, 0.5, 0.7, math.Sqrt2 / 2, 0.66, 0.25, 0.75, 0.9, 0.99, 0.999999,
		// x with sqrt(1-x*x)/x or x/sqrt(1-x*x) near satan's break points 0.66 and tan(3pi/8)
		0.5508215132, 0.9238795325112867, 0.8346, 0.3826834323650898}
	per := n/4/len(pts)/2 + 1
	for _, p := range pts {
		for _, s := range []float64{1, -1} {
			for i := 0; i < per; i++ {
				var x float64
				switch i % 3 {
				case 0:
					x = steps(p, i/3-per/6)
				case 1:
					x = p + uniform(-1e-9, 1e-9)
				default:
					x = p + uniform(-1e-3, 1e-3)
				}
				emit(fn, f, s*x)
			}
		}
	}
	// near zero: tiny magnitudes
	for i := 0; i < n/8; i++ {
		if i%2 == 0 {
			emit(fn, f, randExp(-1074+52, -20))
		} else {
			emit(fn, f, randExp(-20, -1))
		}
	}
	for k := 0; k < 40; k++ {
		x := steps(0, k)
		emit(fn, f, x)
		emit(fn, f, -x)
	}
	// outside [-1,1]
	for i := 0; i < n/8; i++ {
		switch i % 3 {
		case 0:
			emit(fn, f, steps(1, 1+rng.Intn(50))*math.Copysign(1, uniform(-1, 1)))
		case 1:
			emit(fn, f, uniform(-3, 3))
		default:
			emit(fn, f, randExp(0, 1023))
		}
	}
}

func genAtan(fn string, f func(float64) float64, n int) {
	for _, x := range specials {
		emit(fn, f, x)
	}
	for _, r := range []float64{1, 10, 1000, 1e6} {
		for i := 0; i < n/8; i++ {
			emit(fn, f, uniform(-r, r))
		}
	}
	// whole exponent range
	for i := 0; i < n/4; i++ {
		switch i % 4 {
		case 0:
			emit(fn, f, randExp(-1022, 1023))
		case 1:
			emit(fn, f, randExp(-60, 60))
		default:
			emit(fn, f, randExp(-8, 8))
		}
	}
	// break points
	pts := []float64{0.66, 2.41421356237309504880, 1, 0.5, 2, 1e-8, 1e8}
	per := n/4/len(pts)/2 + 1
	for _, p := range pts {
		for _, s := range []float64{1, -1} {
			for i := 0; i < per; i++ {
				var x float64
				switch i % 3 {
				case 0:
					x = steps(p, i/3-per/6)
				case 1:
					x = p * (1 + uniform(-1e-9, 1e-9))
				default:
					x = p * (1 + uniform(-1e-3, 1e-3))
				}
				emit(fn, f, s*x)
			}
		}
	}
	for k := 0; k < 40; k++ {
		x := steps(0, k)
		emit(fn, f, x)
		emit(fn, f, -x)
	}
	for i := 0; i < 200; i++ {
		emit(fn, f, math.Float64frombits(rng.Uint64()))
	}
}

func main() {
	n := flag.Int("n", 20000, "approximate (minimum) number of vectors per function")
	seed := flag.Int64("seed", 1, "PRNG seed")
	fns := flag.String("fn", "sin,cos,asin,acos,atan", "comma separated list of functions")
	huge := flag.Bool("huge", true, "include |x| >= 2^29 for sin/cos (Payne-Hanek path)")
	flag.Parse()
	w = bufio.NewWriterSize(os.Stdout, 1<<20)
	defer w.Flush()
	for i, fn := range strings.Split(*fns, ",") {
		rng = rand.New(rand.NewSource(*seed*1000003 + int64(i)))
		switch fn {
		case "sin":
			genTrig("sin", math.Sin, *n, *huge)
		case "cos":
			genTrig("cos", math.Cos, *n, *huge)
		case "asin":
			genArc("asin", math.Asin, *n)
		case "acos":
			genArc("acos", math.Acos, *n)
		case "atan":
			genAtan("atan", math.Atan, *n)
		default:
			fmt.Fprintf(os.Stderr, "unknown function %q\n", fn)
			os.Exit(2)
		}
	}
}
