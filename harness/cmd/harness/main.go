// harness: correspondence and monitor driver for the ivg verification.
//
//	harness run <suite> -seed N -tier quick|thorough -repo /repo -out DIR
//	harness replay < cases   (prints the implementation's observation per case line)
package main

import (
	"bufio"
	"flag"
	"fmt"
	"os"
	"strings"

	"verif/harness/h"
)

func main() {
	if len(os.Args) < 2 {
		fmt.Fprintln(os.Stderr, "usage: harness run|replay ...")
		os.Exit(2)
	}
	switch os.Args[1] {
	case "run":
		fs := flag.NewFlagSet("run", flag.ExitOnError)
		seed := fs.Uint64("seed", 1, "")
		tier := fs.String("tier", "quick", "")
		repo := fs.String("repo", "/repo", "")
		out := fs.String("out", "", "")
		suite := os.Args[2]
		fs.Parse(os.Args[3:])
		if err := h.RunSuite(suite, *seed, *tier, *repo, *out); err != nil {
			fmt.Fprintln(os.Stderr, err)
			os.Exit(2)
		}
	case "replay":
		sc := bufio.NewScanner(os.Stdin)
		sc.Buffer(make([]byte, 1<<20), 1<<28)
		w := bufio.NewWriter(os.Stdout)
		defer w.Flush()
		for sc.Scan() {
			line := strings.TrimSpace(sc.Text())
			if line == "" || strings.HasPrefix(line, "#") {
				continue
			}
			fmt.Fprintln(w, h.RunCase(line))
		}
	case "cold":
		// one cold start of the concurrent pipelines (C18); the race detector of harness-race reports to stderr
		fs := flag.NewFlagSet("cold", flag.ExitOnError)
		seed := fs.Uint64("seed", 1, "")
		repo := fs.String("repo", "/repo", "")
		fs.Parse(os.Args[2:])
		fmt.Println(h.ColdStart(*seed, *repo))
	case "facts":
		fs := flag.NewFlagSet("facts", flag.ExitOnError)
		repo := fs.String("repo", "/repo", "")
		fs.Parse(os.Args[2:])
		out, err := h.Facts(*repo)
		if err != nil {
			fmt.Fprintln(os.Stderr, err)
			os.Exit(2)
		}
		fmt.Print(out)
	case "fingerprint":
		fs := flag.NewFlagSet("fingerprint", flag.ExitOnError)
		repo := fs.String("repo", "/repo", "")
		fs.Parse(os.Args[2:])
		out, err := h.Fingerprint(*repo)
		if err != nil {
			fmt.Fprintln(os.Stderr, err)
			os.Exit(2)
		}
		fmt.Println(out)
	case "shrink":
		// harness shrink <suite> <clause> < one case line : prints a smaller case on which the monitor still fails
		sc := bufio.NewScanner(os.Stdin)
		sc.Buffer(make([]byte, 1<<20), 1<<28)
		if sc.Scan() {
			fmt.Println(h.Shrink(os.Args[2], os.Args[3], strings.TrimSpace(sc.Text())))
		}
	case "monitor":
		// harness monitor <suite> < cases : runs the suite's monitor on given case lines
		sc := bufio.NewScanner(os.Stdin)
		sc.Buffer(make([]byte, 1<<20), 1<<28)
		bad := 0
		for sc.Scan() {
			line := strings.TrimSpace(sc.Text())
			if line == "" || strings.HasPrefix(line, "#") {
				continue
			}
			if m, ok := h.Monitors[os.Args[2]]; ok {
				for _, f := range m(line) {
					fmt.Printf("FAIL %s :: %s :: %s\n", f.Clause, f.Detail, f.Case)
					bad++
				}
			}
		}
		if bad > 0 {
			os.Exit(1)
		}
	default:
		fmt.Fprintln(os.Stderr, "unknown command")
		os.Exit(2)
	}
}
