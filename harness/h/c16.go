package h

import (
	"bytes"
	"fmt"
	"image"
	"image/color"
	"image/draw"
	"math"
	"strings"
	"sync"

	"github.com/reactivego/ivg"
	"github.com/reactivego/ivg/decode"
	"github.com/reactivego/ivg/encode"
	"github.com/reactivego/ivg/raster/vec"
	"github.com/reactivego/ivg/render"
)

// opRecorder wraps the bundled rasteriser and records the compositing operator of every Draw.
type opRecorder struct {
	*vec.Rasterizer
	Ops []draw.Op
}

func (o *opRecorder) Draw(r image.Rectangle, src image.Image, sp image.Point) {
	o.Ops = append(o.Ops, o.Rasterizer.DrawOp)
	o.Rasterizer.Draw(r, src, sp)
}

func fillSentinel(img draw.Image) {
	b := img.Bounds()
	for y := b.Min.Y; y < b.Max.Y; y++ {
		for x := b.Min.X; x < b.Max.X; x++ {
			v := uint8(37*x + 101*y + 13)
			img.Set(x, y, color.RGBA{v / 2, v / 3, v / 4, v})
		}
	}
}

func newImage(alpha bool, r image.Rectangle) draw.Image {
	if alpha {
		return image.NewAlpha(r)
	}
	return image.NewRGBA(r)
}

// renderPixels renders calls into rect of a fresh image of the given bounds.
func renderPixels(cs []Call, alpha bool, bounds, rect image.Rectangle, op draw.Op, sentinel bool) (img draw.Image, ops []draw.Op, panicked string) {
	img = newImage(alpha, bounds)
	if sentinel {
		fillSentinel(img)
	}
	defer func() {
		if p := recover(); p != nil {
			panicked = fmt.Sprint(p)
		}
	}()
	rz := &opRecorder{Rasterizer: vec.NewRasterizer(img)}
	rz.Rasterizer.DrawOp = op
	var z render.Renderer
	z.SetRasterizer(rz, rect)
	for _, c := range cs {
		if c.IsDest() {
			c.Apply(&z)
		}
	}
	return img, rz.Ops, ""
}

func pixAt(img image.Image, x, y int) [4]uint32 {
	r, g, b, a := img.At(x, y).RGBA()
	return [4]uint32{r, g, b, a}
}

// scaleProgram re-expresses a program with viewBox, coordinates and gradient matrices scaled by 2^k.
// Gradient matrices live in NREG via explicit "nreg adj" writes made by GradientSetup (adj 6..1).
func scaleProgram(cs []Call, k int) []Call {
	f := float32(math.Ldexp(1, k))
	out := make([]Call, len(cs))
	for i, c := range cs {
		d := c
		d.F = append([]float32(nil), c.F...)
		switch c.Name {
		case "reset":
			d.VB = ivg.ViewBox{MinX: c.VB.MinX * f, MinY: c.VB.MinY * f, MaxX: c.VB.MaxX * f, MaxY: c.VB.MaxY * f}
		case "nreg":
			// matrix entries a,b (adj 6,5) and d,e (adj 3,2) scale by 1/f; c,f (adj 4,1) and stop offsets (incr) unchanged
			if !c.Incr && (c.Adj == 6 || c.Adj == 5 || c.Adj == 3 || c.Adj == 2) {
				d.F[0] = c.F[0] / f
			}
		case "A", "a":
			d.F[0], d.F[1], d.F[3], d.F[4] = c.F[0]*f, c.F[1]*f, c.F[3]*f, c.F[4]*f
		case "lod", "csel", "nsel", "creg", "Z":
		default:
			for j := range d.F {
				d.F[j] *= f
			}
		}
		out[i] = d
	}
	return out
}

// pow2Expressible reports whether scaleProgram re-expresses cs faithfully: every gradient that is actually
// painted must take the matrix entries a, b, d, e from number-register writes that scaleProgram scales (or
// from the zero a Reset leaves), and c, f and the stop offsets from writes it leaves alone.  A colour that
// merely happens to be a gradient value naming another gradient's registers (stop offsets read as a matrix)
// has no power-of-two re-expression of this form, and the metamorphic relation says nothing about it.
func pow2Expressible(cs []Call, height int) bool {
	var m vm
	var scaled, written [64]bool
	for _, c := range cs {
		if c.Name == "reset" {
			scaled, written = [64]bool{}, [64]bool{}
		}
		if c.Name == "nreg" {
			k := (m.nsel - c.Adj) & 0x3f
			written[k] = true
			scaled[k] = !c.Incr && (c.Adj == 6 || c.Adj == 5 || c.Adj == 3 || c.Adj == 2)
		}
		paint, isStart := m.step(c, height)
		if !isStart || !strings.HasPrefix(paint, "G") {
			continue
		}
		col := m.creg[(m.csel-c.Adj)&0x3f]
		nStops, nBase := int(col.R&0x3f), col.B&0x3f
		for j, wantScaled := range []bool{true, true, false, true, true, false} {
			k := (nBase - 6 + uint8(j)) & 0x3f
			if written[k] && scaled[k] != wantScaled && m.nreg[k] != 0 {
				return false
			}
		}
		for j := 0; j < nStops; j++ {
			k := (nBase + uint8(j)) & 0x3f
			if written[k] && scaled[k] && m.nreg[k] != 0 {
				return false
			}
		}
	}
	return true
}

// directColours re-expresses a program with every palette/register/blend colour replaced by the
// direct colour it resolves to (computed with the specification VM).
func directColours(cs []Call) []Call {
	var m vm
	out := make([]Call, len(cs))
	for i, c := range cs {
		d := c
		if c.Name == "creg" {
			d.Col = ivg.RGBAColor(m.resolve(c.Col))
		}
		m.step(c, 1)
		out[i] = d
	}
	return out
}

func (r *RNG) Picture() []Call {
	vb := ivg.DefaultViewBox
	if r.Chance(40) {
		vb = ivg.ViewBox{MinX: -24, MinY: -24, MaxX: 24, MaxY: 24}
	}
	cs := []Call{{Name: "reset", VB: vb, Pal: r.PremulPalette()}}
	for p := 1 + r.Intn(3); p > 0; p-- {
		if r.Chance(50) {
			// every register a gradient uses is written explicitly, so that scaleProgram knows its role
			cs = append(cs, r.GradientSetupOpt(false)...)
		} else {
			cs = append(cs, Call{Name: "csel", U8: uint8(r.Intn(64))}, Call{Name: "creg", Adj: uint8(r.Intn(7)), Col: r.Color()})
		}
		co := func() float32 { return float32(r.Intn(97)-48) / 2 }
		cs = append(cs, Call{Name: "start", Adj: 0, F: fl(co(), co())})
		nseg := 2 + r.Intn(4)
		if r.Chance(8) {
			nseg = 0 // a path with no segment at all is still a drawn path: it is composited (as nothing) with the operator
		}
		for k := nseg; k > 0; k-- {
			verb := append(append([]string{}, drawVerbs...), "A", "a")[r.Intn(len(drawVerbs)+2)]
			c := Call{Name: verb, La: r.Bool(), Sw: r.Bool()}
			for j := NArgs(verb); j > 0; j-- {
				c.F = append(c.F, co())
			}
			if verb == "A" || verb == "a" {
				c.F[0], c.F[1], c.F[2] = float32(2+r.Intn(40)), float32(2+r.Intn(40)), float32(r.Intn(8))/8
			}
			if verb == "a" && r.Chance(25) {
				// the "whole ellipse as one large arc" idiom: the end point a tiny chord away from the start
				ch := []float32{1.0 / 64, 1.0 / 256, 1.0 / 512, 1.0 / 1024}[r.Intn(4)]
				c.F[3], c.F[4] = []float32{ch, -ch, 0}[r.Intn(3)], []float32{ch, 0, -ch}[r.Intn(3)]
				if c.F[3] == 0 && c.F[4] == 0 {
					c.F[3] = ch
				}
				c.La = true
			}
			cs = append(cs, c)
		}
		cs = append(cs, Call{Name: "Z"})
	}
	return cs
}

func monitorPixels(line string, cs []Call, r *RNG) (fails []Failure) {
	alpha := r.Chance(30)
	w, h := 1+r.Intn(96), 1+r.Intn(96)
	if r.Chance(15) {
		w, h = 500+r.Intn(100), 8+r.Intn(16) // across the fixed/floating point threshold (512)
	}
	op := []draw.Op{draw.Over, draw.Src}[r.Intn(2)]
	own := image.Rect(0, 0, w, h)
	base, ops, p := renderPixels(cs, alpha, own, own, op, false)
	if p != "" {
		return []Failure{{"C16.no-panic", line, p}}
	}
	// compositing operator: configured operator for the first drawn path only
	for i, o := range ops {
		want := draw.Over
		if i == 0 {
			want = op
		}
		if o != want {
			fails = append(fails, Failure{"C16.drawop-first-only", line, fmt.Sprintf("Draw %d used operator %v, want %v", i, o, want)})
			break
		}
	}
	// (a) offset inside a larger image; pixels outside the rectangle untouched
	ox, oy := r.Intn(20), r.Intn(20)
	big := image.Rect(0, 0, w+ox+r.Intn(9), h+oy+r.Intn(9))
	rect := image.Rect(ox, oy, ox+w, oy+h)
	if r.Chance(40) {
		// the larger image is itself a tile of something larger: its bounds do not start at (0,0) (round 5, C16-J: a Draw that
		// compared the rectangle's corner with the image's SIZE instead of its far corner skipped such rectangles)
		sh := image.Pt(r.Intn(400)-60, r.Intn(400)-60)
		big, rect = big.Add(sh), rect.Add(sh)
		ox, oy = rect.Min.X, rect.Min.Y
	}
	// same background under the rectangle in both renderings: start from zero in the rectangle
	imgB, _, p := renderPixelsOffset(cs, alpha, big, rect, op)
	if p != "" {
		return append(fails, Failure{"C16.no-panic", line, p})
	}
	ref := newImage(alpha, big)
	fillSentinel(ref)
	for y := big.Min.Y; y < big.Max.Y; y++ {
		for x := big.Min.X; x < big.Max.X; x++ {
			in := image.Pt(x, y).In(rect)
			if in {
				if pixAt(imgB, x, y) != pixAt(base, x-ox, y-oy) {
					return append(fails, Failure{"C16.offset-invariant", line, fmt.Sprintf("%dx%d alpha=%v op=%v offset (%d,%d): pixel (%d,%d) differs: %v vs %v", w, h, alpha, op, ox, oy, x-ox, y-oy, pixAt(imgB, x, y), pixAt(base, x-ox, y-oy))})
				}
			} else if pixAt(imgB, x, y) != pixAt(ref, x, y) {
				return append(fails, Failure{"C16.outside-untouched", line, fmt.Sprintf("pixel (%d,%d) outside %v modified", x, y, rect)})
			}
		}
	}
	// (a') the rectangle only PARTLY inside the image (it overhangs an edge, also the top or left one; round 5, C05-J/C15-J:
	// a Draw that clips the rectangle to the image without re-aligning the path shifts the picture by the overhang): the
	// pixels of the part inside are those of the picture rendered into an image of its own, the rest is untouched.  The
	if !alpha {
		if f := partlyInside("C16", line, cs, w, h, r); len(f) > 0 {
			return append(fails, f...)
		}
	}
	// (d) with draw.Src what was in the rectangle before does not matter: the first drawn path REPLACES it, also when that
	// path covers nothing (round 5, C16-I: an adapter that skipped compositing a path without segments, yet used up the
	// one-shot operator)
	if op == draw.Src && len(ops) > 0 {
		onto, _, p := renderPixels(cs, alpha, own, own, op, true)
		if p == "" && !sameImage(base, onto) {
			fails = append(fails, Failure{"C16.src-replaces", line, fmt.Sprintf("%dx%d alpha=%v: drawn with draw.Src over a filled image and over an empty one, pixels differ at %v", w, h, alpha, firstPixelDiff(base, onto))})
		}
	}
	// (b) power-of-two scaling
	k := []int{1, 2, 3, -1, -2, 5, -4, -6, 7, -9}[r.Intn(10)]
	scaled, _, p := renderPixels(scaleProgram(cs, k), alpha, own, own, op, false)
	if p == "" && pow2Expressible(cs, h) && !sameImage(base, scaled) {
		fails = append(fails, Failure{"C16.pow2-scaling", line, fmt.Sprintf("%dx%d alpha=%v scale 2^%d: pixels differ at %v", w, h, alpha, k, firstPixelDiff(base, scaled))})
	}
	// (c) colour indirection
	direct, _, p := renderPixels(directColours(cs), alpha, own, own, op, false)
	if p == "" && !sameImage(base, direct) {
		fails = append(fails, Failure{"C16.colour-indirection", line, fmt.Sprintf("%dx%d alpha=%v: pixels differ at %v", w, h, alpha, firstPixelDiff(base, direct))})
	}
	return
}

// partlyInside: relation (a') of monitorPixels, also run by the suites of C05 and C15 on their own programs (round 5:
// C05-J and C15-J change raster/vec's Draw, below the rasteriser interface where those suites otherwise observe).
func partlyInside(pid, line string, cs []Call, w, h int, r *RNG) (fails []Failure) {
	own := image.Rect(0, 0, w, h)
	lx, ty := r.Intn(w/2+1), r.Intn(h/2+1) // overhang on the left / top
	if r.Chance(30) {
		lx = 0
	}
	if r.Chance(30) {
		ty = 0
	}
	win := image.Rect(lx, ty, w+r.Intn(6)-r.Intn(w/3+1), h+r.Intn(6)-r.Intn(h/3+1)) // in the picture's own coordinates
	if !win.Empty() {
		// (an *image.NRGBA: x/image/vector's general compositing path, which clips; its fast paths for *image.RGBA and
		// *image.Alpha index the pixel array with the rectangle's corner and panic when it lies outside the image — the
		// library below the repository requires the rectangle inside the image there, so that case is not claimed)
		var wimg draw.Image = image.NewNRGBA(win)
		pw := func() (pn string) {
			defer func() {
				if p := recover(); p != nil {
					pn = fmt.Sprint(p)
				}
			}()
			rz := &opRecorder{Rasterizer: vec.NewRasterizer(wimg)}
			rz.Rasterizer.DrawOp = draw.Over
			var z render.Renderer
			z.SetRasterizer(rz, own)
			for _, c := range cs {
				if c.IsDest() {
					c.Apply(&z)
				}
			}
			return ""
		}()
		if pw != "" {
			return append(fails, Failure{pid + ".no-panic", line, pw})
		}
		ref2, _, p2 := renderPixels(cs, false, own, own, draw.Over, false)
		if p2 == "" {
			for y := win.Min.Y; y < win.Max.Y; y++ {
				for x := win.Min.X; x < win.Max.X; x++ {
					want := [4]uint32{}
					if image.Pt(x, y).In(own) {
						want = pixAt(ref2, x, y)
					}
					got := pixAt(wimg, x, y)
					// an *image.NRGBA stores non-premultiplied 8-bit values: reading a pixel back re-premultiplies, which costs one
					// 8-bit step of the alpha and, for the colours, one 8-bit step divided by the alpha (nothing can be said
					// about the colour of an almost transparent pixel)
					close := true
					for k := range got {
						d := int64(got[k]) - int64(want[k])
						tol := int64(0x202)
						if k < 3 {
							a := int64(want[3])
							if a < 0x1000 {
								continue
							}
							tol = 0x202 + 0x202*65535/a
						}
						if d < -tol || d > tol {
							close = false
						}
					}
					if (wimg.ColorModel() == color.RGBAModel && got != want) || !close {
						return append(fails, Failure{pid + ".partly-inside", line, fmt.Sprintf("%dx%d picture, image %v (%T): pixel (%d,%d) is %v, in an image of its own %v", w, h, win, wimg, x, y, got, want)})
					}
				}
			}
		}
	}
	return fails
}

// renderPixelsOffset renders into rect of a sentinel-filled image whose rect area is cleared first.
func renderPixelsOffset(cs []Call, alpha bool, bounds, rect image.Rectangle, op draw.Op) (img draw.Image, ops []draw.Op, panicked string) {
	img = newImage(alpha, bounds)
	fillSentinel(img)
	draw.Draw(img, rect, image.Transparent, image.Point{}, draw.Src)
	defer func() {
		if p := recover(); p != nil {
			panicked = fmt.Sprint(p)
		}
	}()
	rz := &opRecorder{Rasterizer: vec.NewRasterizer(img)}
	rz.Rasterizer.DrawOp = op
	var z render.Renderer
	z.SetRasterizer(rz, rect)
	for _, c := range cs {
		if c.IsDest() {
			c.Apply(&z)
		}
	}
	return img, rz.Ops, ""
}

func sameImage(a, b image.Image) bool { return firstPixelDiff(a, b) == "" }

func firstPixelDiff(a, b image.Image) string {
	r := a.Bounds()
	for y := r.Min.Y; y < r.Max.Y; y++ {
		for x := r.Min.X; x < r.Max.X; x++ {
			if pixAt(a, x, y) != pixAt(b, x, y) {
				return fmt.Sprintf("(%d,%d): %v vs %v", x, y, pixAt(a, x, y), pixAt(b, x, y))
			}
		}
	}
	return ""
}

func suiteC16(s *Shard, n int) {
	r := s.R
	for i := 0; i < n; i++ {
		cs := r.Picture()
		rect := image.Rect(0, 0, 1+r.Intn(96), 1+r.Intn(96))
		// model correspondence on the three re-expressions (rasteriser input)
		s.emitRen(rect, nil, cs)
		off := image.Pt(r.Intn(30), r.Intn(30))
		s.emitRen(rect.Add(off), nil, cs)
		s.emitRen(rect, nil, directColours(cs))
		s.emitRen(rect, nil, scaleProgram(cs, 1+r.Intn(3)))
		line := RenCase(rect, nil, cs)
		// rasteriser input must be identical for (a) and (c), up to the Draw rectangle
		o1, _ := RunRen(rect, nil, cs)
		o2, _ := RunRen(rect.Add(off), nil, cs)
		if stripDrawRect(o1) != stripDrawRect(o2) {
			s.Fail("C16.origin-independent-ops", line, "rasteriser input depends on the rectangle's origin")
		}
		o3, _ := RunRen(rect, nil, directColours(cs))
		if o1 != o3 {
			s.Fail("C16.colour-indirection-ops", line, "rasteriser input differs for direct colours")
		}
		for _, f := range monitorPixels(line, cs, r.Fork()) {
			s.Fail(f.Clause, f.Case, f.Detail)
		}
	}
}

func stripDrawRect(log string) string {
	parts := strings.Split(log, " ; ")
	for i, p := range parts {
		if strings.HasPrefix(p, "D ") {
			f := strings.Fields(p)
			if len(f) >= 6 {
				parts[i] = "D " + strings.Join(f[5:], " ")
			}
		}
	}
	return strings.Join(parts, " ; ")
}

// ---------- C18 ----------

type pipelineResult struct {
	dec, dis, enc, ren, vb string
}

func runPipeline(src []byte, renderable bool, pal *[64]color.RGBA, calls []Call, shared []decode.DecodeOption) (res pipelineResult) {
	defer func() {
		if p := recover(); p != nil {
			res.dec += fmt.Sprint("PANIC:", p)
		}
	}()
	rec := &Recorder{}
	err := decode.Decode(rec, src, decode.WithPalette(*pal))
	res.dec = ShowCalls(rec.Calls) + ErrStr(err)
	if shared != nil {
		// the same options, passed as a slice that several goroutines share (a theme): same result expected
		rec2 := &Recorder{}
		err2 := decode.Decode(rec2, src, shared...)
		res.dec += " | " + ShowCalls(rec2.Calls) + ErrStr(err2)
	}
	txt, err := decode.Disassemble(src)
	res.dis = string(txt) + ErrStr(err)
	vb, err := decode.DecodeViewBox(src)
	a, b, c, d := vb.AspectMeet(100, 50, ivg.Mid, ivg.Mid)
	res.vb = fmt.Sprint(vb, a, b, c, d, ErrStr(err), ivg.DefaultViewBox, ivg.DefaultPalette[3], ivg.MagicBytes)
	var e encode.Encoder
	for _, c := range calls {
		if c.IsDest() {
			c.Apply(&e)
		}
	}
	bs, err := e.Bytes()
	res.enc = HexBytes(bs) + ErrStr(err)
	// Encoders used from their zero value (no Reset): the blank graphic, then Reset to another graphic on the same
	// Encoder, then another zero-value Encoder (round 5, C18-J: the zero-value buffer aliased a package-level header that
	// the Reset wrote into; C08-I: zero-value Encoders shared the spare capacity of a package-level magic slice)
	var e0, e1 encode.Encoder
	b0, _ := e0.Bytes()
	res.enc += " z0:" + HexBytes(b0)
	e0.Reset(ivg.ViewBox{MinX: -1, MinY: -2, MaxX: 3, MaxY: 4}, *pal)
	e1.SetCSel(uint8(len(src)))
	e1.StartPath(0, 1, 2)
	b0, _ = e0.Bytes()
	e1.ClosePathEndPath()
	b1, _ := e1.Bytes()
	res.enc += " z0r:" + HexBytes(b0) + " z1:" + HexBytes(b1)
	if renderable {
		// real pixels only for graphics with moderate coordinates: x/image/vector subdivides curves
		// with astronomically large control points into billions of lines
		img := image.NewRGBA(image.Rect(0, 0, 24, 24))
		rz := vec.NewRasterizer(img)
		var z render.Renderer
		z.SetRasterizer(rz, img.Bounds())
		err = decode.Decode(&z, src, decode.WithPalette(*pal))
		res.ren = fmt.Sprintf("%x", img.Pix) + ErrStr(err)
	} else {
		rr := &RecRaster{}
		var z render.Renderer
		z.SetRasterizer(rr, image.Rect(0, 0, 24, 24))
		err = decode.Decode(&z, src, decode.WithPalette(*pal))
		res.ren = strings.Join(rr.Log, ";") + ErrStr(err)
	}
	col := ivg.BlendColor(100, 0x80, 0xc1)
	res.ren += fmt.Sprint(col.Resolve(pal, pal), ivg.DecodeColor1(0x40))
	return
}

func suiteC18(s *Shard, n int) {
	r := s.R
	_, corpus := Corpus(s.Repo)
	for i := 0; i < n; i++ {
		// shared read-only inputs
		var srcs [][]byte
		var renderable []bool
		for k := 0; k < 4; k++ {
			if k%2 == 0 && len(corpus) > 0 {
				srcs = append(srcs, append([]byte(nil), corpus[r.Intn(len(corpus))]...))
				renderable = append(renderable, true)
			} else if k == 1 {
				b, _ := EncodeCalls(r.Picture(), r.Bool())
				srcs = append(srcs, b)
				renderable = append(renderable, true)
			} else {
				srcs = append(srcs, append([]byte(nil), r.AnyBytes(corpus)...))
				renderable = append(renderable, false)
			}
		}
		pal := r.PremulPalette()
		prog := r.Program(ProgOpts{Arcs: true, Reset: 2, MaxPaths: 3})
		origs := make([][]byte, len(srcs))
		for k := range srcs {
			origs[k] = append([]byte(nil), srcs[k]...)
		}
		palOrig := pal
		defVB, defPal, magic := ivg.DefaultViewBox, ivg.DefaultPalette, append([]byte(nil), ivg.MagicBytes...)
		// a shared options slice built by append: it has spare capacity behind its length
		shared := make([]decode.DecodeOption, 0, 4)
		optPal := pal
		if r.Bool() {
			// user palettes may hold nonsensical colours (the decoder replaces them by opaque black in what it delivers): ONE
			// option value shared by all goroutines must not be where that replacement is written (round 4, C18-H)
			for k := 1 + r.Intn(6); k > 0; k-- {
				optPal[r.Intn(64)] = r.RGBAAny()
			}
		}
		shared = append(shared, decode.WithPalette(optPal))
		if r.Bool() {
			c := r.Premul()
			if r.Chance(30) {
				c = r.RGBAAny()
			}
			shared = append(shared, decode.WithColorAt(r.Intn(64), c))
		}
		spare := shared[:cap(shared)]
		// the concurrent batch comes FIRST (no serial warm-up of anything initialised lazily), the serial
		// reference afterwards
		conc := make([]pipelineResult, 8)
		var wg sync.WaitGroup
		for g := 0; g < 8; g++ {
			wg.Add(1)
			go func(g int) {
				defer wg.Done()
				conc[g] = runPipeline(srcs[g%len(srcs)], renderable[g%len(srcs)], &pal, prog, shared)
			}(g)
		}
		wg.Wait()
		serial := make([]pipelineResult, 0, 8)
		for g := 0; g < 8; g++ {
			serial = append(serial, runPipeline(srcs[g%len(srcs)], renderable[g%len(srcs)], &pal, prog, shared))
		}
		line := fmt.Sprintf("conc 8 | %s", HexBytes(srcs[0]))
		s.Count("concurrent-batches")
		s.Sig(fmt.Sprint(len(srcs[0])%16, len(prog)%8))
		for g := range conc {
			if conc[g] != serial[g] {
				s.Fail("C18.same-as-serial", line, fmt.Sprintf("goroutine %d produced a different result than the serial run", g))
				break
			}
		}
		for k := range srcs {
			if !bytes.Equal(srcs[k], origs[k]) {
				s.Fail("C18.input-unmodified", line, "an input byte slice was modified")
			}
		}
		if pal != palOrig {
			s.Fail("C18.palette-unmodified", line, "the caller-supplied palette was modified")
		}
		for k := len(shared); k < len(spare); k++ {
			if spare[k] != nil {
				s.Fail("C18.options-slice-unmodified", line, fmt.Sprintf("Decode wrote element %d of the caller's options slice (len %d, cap %d)", k, len(shared), cap(shared)))
				break
			}
		}
		if ivg.DefaultViewBox != defVB || ivg.DefaultPalette != defPal || !bytes.Equal(ivg.MagicBytes, magic) {
			s.Fail("C18.package-defaults-unmodified", line, "a package-level default was modified")
		}
	}
}

func init() {
	Suites["C16"] = suiteC16
	Budgets["C16"] = [2]int{600, 30000}
	Suites["C18"] = suiteC18
	Budgets["C18"] = [2]int{400, 20000}
}

// ColdStart is the whole life of one process: build a few inputs (no library call that could initialise
// anything lazily is made on them first), then release 8 goroutines at once, each running every
// pipeline on the SAME inputs.  Anything the library initialises on first use is initialised under
// contention here; the race detector (harness-race) reports it.  Run many times, each in a new process.
func ColdStart(seed uint64, repo string) string {
	r := NewRNG(seed)
	_ = repo
	var srcs [][]byte
	for k := 0; k < 4; k++ {
		srcs = append(srcs, StaticPicture(r))
	}
	pal := r.PremulPalette()
	prog := r.Program(ProgOpts{Arcs: true, Reset: 2, MaxPaths: 3})
	shared := make([]decode.DecodeOption, 0, 4)
	shared = append(shared, decode.WithPalette(pal))
	start := make(chan struct{})
	res := make([]pipelineResult, 8)
	var wg sync.WaitGroup
	for g := 0; g < 8; g++ {
		wg.Add(1)
		go func(g int) {
			defer wg.Done()
			<-start
			for _, src := range srcs {
				res[g] = runPipeline(src, true, &pal, prog, shared)
			}
		}(g)
	}
	close(start)
	wg.Wait()
	for g := 1; g < 8; g++ {
		if res[g] != res[0] {
			return fmt.Sprintf("DIFFERENT goroutine %d", g)
		}
	}
	return "same"
}

// StaticPicture assembles an encoded graphic WITHOUT calling the library (bytes written by hand from the
// format): palette-indexed, register and blended colours, a few paths with lines.
func StaticPicture(r *RNG) []byte {
	b := []byte{0x89, 'I', 'V', 'G', 0x00}
	for p := 1 + r.Intn(3); p > 0; p-- {
		switch r.Intn(3) {
		case 0: // Set CREG[CSEL-adj] to a 1 byte colour: palette index or register
			b = append(b, byte(0x80+r.Intn(7)), byte(0x80+r.Intn(0x80)))
		case 1: // 3 byte indirect: blend of two 1-byte colours
			b = append(b, byte(0xa0+r.Intn(7)), byte(r.Intn(256)), byte(0x80+r.Intn(0x80)), byte(0x80+r.Intn(0x80)))
		default: // 1 byte opaque table colour
			b = append(b, byte(0x80+r.Intn(7)), byte(r.Intn(125)))
		}
		b = append(b, 0xc0, byte(0x40+2*r.Intn(0x3f)), byte(0x40+2*r.Intn(0x3f))) // start path at small integers
		n := 1 + r.Intn(4)
		b = append(b, byte(0x00+n-1)) // L, n reps
		for k := 0; k < 2*n; k++ {
			b = append(b, byte(0x40+2*r.Intn(0x3f)))
		}
		b = append(b, 0xe1)
	}
	return b
}
