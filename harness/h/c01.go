package h

import (
	"fmt"
	"strings"

	"github.com/reactivego/ivg"
)

var Monitors = map[string]func(caseLine string) []Failure{}

// hiresAt computes, for each Destination call, the resolution in force (copied at StartPath).
// cmpCalls compares delivered calls with the original program under the C01 tolerances.
func cmpCalls(orig, got []Call, hiresOf func(i int) bool, exact bool) string {
	if len(orig) != len(got) {
		return fmt.Sprintf("call count %d != %d", len(got), len(orig))
	}
	for i := range orig {
		o, g := orig[i], got[i]
		if o.Name != g.Name {
			return fmt.Sprintf("call %d: %s != %s", i, g.Name, o.Name)
		}
		hi := hiresOf(i)
		bad := func(what string) string {
			return fmt.Sprintf("call %d (%s): %s: got %s want %s", i, o.Name, what, g.String(), o.String())
		}
		co := func(a, b float32) bool {
			if exact {
				return a == b || (isNaN32(a) && isNaN32(b))
			}
			return CoordOK(a, b, hi)
		}
		switch o.Name {
		case "reset":
			if g.Pal != o.Pal {
				return bad("palette")
			}
			ov, gv := [4]float32{o.VB.MinX, o.VB.MinY, o.VB.MaxX, o.VB.MaxY}, [4]float32{g.VB.MinX, g.VB.MinY, g.VB.MaxX, g.VB.MaxY}
			for k := range ov {
				if !(CoordOK(ov[k], gv[k], true)) {
					return bad("viewBox")
				}
			}
		case "csel", "nsel":
			if g.U8 != o.U8&0x3f {
				return bad("selector")
			}
		case "creg":
			if g.Adj != o.Adj || g.Incr != o.Incr || g.Col != o.Col {
				return bad("adj/incr/colour")
			}
		case "nreg":
			if g.Adj != o.Adj || g.Incr != o.Incr {
				return bad("adj/incr")
			}
			if exact && !(g.F[0] == o.F[0] || Within30(o.F[0], g.F[0])) || !exact && !NRegOK(o.F[0], g.F[0]) {
				return bad("value")
			}
		case "lod":
			if !RealOK(o.F[0], g.F[0]) || !RealOK(o.F[1], g.F[1]) {
				return bad("lod")
			}
		case "start":
			if g.Adj != o.Adj || !co(o.F[0], g.F[0]) || !co(o.F[1], g.F[1]) {
				return bad("adj/coords")
			}
		case "A", "a":
			if g.La != o.La || g.Sw != o.Sw {
				return bad("flags")
			}
			for _, k := range []int{0, 1, 3, 4} {
				if !co(o.F[k], g.F[k]) {
					return bad("coords")
				}
			}
			if exact {
				if !(g.F[2] == o.F[2] || Within30(o.F[2], g.F[2])) {
					return bad("angle")
				}
			} else if !AngleOK(o.F[2], g.F[2]) {
				return bad("angle")
			}
		default:
			for k := range o.F {
				if !co(o.F[k], g.F[k]) {
					return bad("coords")
				}
			}
		}
	}
	return ""
}

func destCalls(ops []Call) []Call {
	var out []Call
	for _, c := range ops {
		if c.IsDest() {
			out = append(out, c)
		}
	}
	return out
}

// resolutionTrace returns for each Destination call of ops whether it is encoded in high resolution.
func resolutionTrace(ops []Call) []bool {
	var out []bool
	flag, local := false, false
	for _, c := range ops {
		switch c.Name {
		case "hires":
			flag = c.B
			continue
		case "reset":
			flag = false
		case "start":
			local = flag
		}
		if c.IsDest() {
			out = append(out, local)
		}
	}
	return out
}

// monitorRoundTrip: C01 forward direction on one Encoder history.
func monitorRoundTrip(caseLine string, ops []Call) (fails []Failure) {
	dest := destCalls(ops)
	if !WellFormedClosed(dest) {
		return nil
	}
	// viewBox must be finite and valid for the claim
	for _, c := range dest {
		if c.Name == "reset" {
			v := c.VB
			for _, f := range []float32{v.MinX, v.MinY, v.MaxX, v.MaxY} {
				if !finite32(f) {
					return nil
				}
			}
			if v.MinX > v.MaxX || v.MinY > v.MaxY {
				return nil
			}
		}
	}
	// only the calls since the last reset are encoded
	last := -1
	for i, c := range ops {
		if c.Name == "reset" {
			last = i
		}
	}
	var prog []Call
	if last >= 0 {
		// hires flags set before the reset are cleared by it
		prog = ops[last:]
	} else {
		prog = ops
	}
	// encode the WHOLE history on one Encoder (whatever preceded the last Reset must be forgotten),
	// expect the calls since the last Reset
	bs, err := EncodeCalls(ops, false)
	if err != nil {
		return []Failure{{"C01.encode-accepts-wellformed", caseLine, "Bytes error: " + err.Error()}}
	}
	got, derr, p := Decode(nil, bs)
	if p != "" || derr != nil {
		return []Failure{{"C01.decode-accepts-encoded", caseLine, fmt.Sprintf("decode of %x: %v %s", bs, derr, p)}}
	}
	want := destCalls(prog)
	res := resolutionTrace(prog)
	if last < 0 {
		want = append([]Call{{Name: "reset", VB: ivg.DefaultViewBox, Pal: ivg.DefaultPalette}}, want...)
		res = append([]bool{false}, res...)
	}
	if msg := cmpCalls(want, got, func(i int) bool { return res[i] }, false); msg != "" {
		return []Failure{{"C01.roundtrip", caseLine, msg}}
	}
	// transcode: decoded calls -> second Encoder at the same resolutions -> decode again
	for _, hi := range []bool{false, true} {
		bs2, err := EncodeCalls(got, hi)
		if err != nil {
			fails = append(fails, Failure{"C01.transcode-accepts", caseLine, "second Encoder: " + err.Error()})
			continue
		}
		got2, derr, p := Decode(nil, bs2)
		if p != "" || derr != nil {
			fails = append(fails, Failure{"C01.transcode-decodes", caseLine, fmt.Sprintf("%v %s", derr, p)})
			continue
		}
		if msg := cmpCalls(got, got2, func(i int) bool { return hi }, false); msg != "" {
			fails = append(fails, Failure{"C01.transcode-stable", caseLine, fmt.Sprintf("hires=%v: %s", hi, msg)})
		}
	}
	return fails
}

// monitorConverse: every accepted stream re-encodes without error and decodes to the same operations.
func monitorConverse(caseLine string, src []byte) (fails []Failure) {
	calls, err, p := Decode(nil, src)
	if p != "" {
		return []Failure{{"C02.no-panic", caseLine, p}}
	}
	if err != nil {
		return nil
	}
	for _, hi := range []bool{false, true} {
		bs2, err := EncodeCalls(calls, hi)
		if err != nil {
			fails = append(fails, Failure{"C01.converse-accepts", caseLine, fmt.Sprintf("hires=%v: Encoder error %v", hi, err)})
			continue
		}
		got2, derr, p := Decode(nil, bs2)
		if p != "" || derr != nil {
			fails = append(fails, Failure{"C01.converse-decodes", caseLine, fmt.Sprintf("hires=%v: %v %s", hi, derr, p)})
			continue
		}
		if msg := cmpCalls(calls, got2, func(i int) bool { return hi }, false); msg != "" {
			fails = append(fails, Failure{"C01.converse-same-ops", caseLine, fmt.Sprintf("hires=%v: %s", hi, msg)})
		}
	}
	return fails
}

func monitorC01(caseLine string) []Failure {
	parts := strings.SplitN(caseLine, "|", 2)
	if len(parts) != 2 {
		return nil
	}
	hdr := strings.Fields(parts[0])
	switch hdr[0] {
	case "enc":
		ops, err := ParseCalls(parts[1])
		if err != nil {
			return nil
		}
		return monitorRoundTrip(caseLine, ops)
	case "dec":
		if len(hdr) > 1 && hdr[1] != "-" {
			return nil
		}
		b, err := ParseBytes(parts[1])
		if err != nil {
			return nil
		}
		return monitorConverse(caseLine, b)
	}
	return nil
}

func progSig(ops []Call) string {
	// signature: set of verbs used + run-length classes + resolution + metadata kind
	seen := map[string]bool{}
	run, prev := 0, ""
	for _, c := range ops {
		seen[c.Name] = true
		if c.Name == prev {
			run++
			if run == 17 || run == 33 {
				seen[fmt.Sprintf("run>%d:%s", run-1, c.Name)] = true
			}
		} else {
			run, prev = 1, c.Name
		}
	}
	var ks []string
	for k := range seen {
		ks = append(ks, k)
	}
	sortStrings(ks)
	return strings.Join(ks, ",")
}

func suiteC01(s *Shard, n int) {
	_, corpus := Corpus(s.Repo)
	for i := 0; i < n; i++ {
		r := s.R
		switch {
		case i%10 < 7: // forward: well-formed program -> bytes -> calls
			o := ProgOpts{Wild: r.Chance(60), Arcs: true, Reset: 2, MaxPaths: 4, Histories: r.Chance(30)}
			ops := r.Program(o)
			if r.Chance(40) {
				// high resolution from the start (after the optional reset)
				k := 0
				if len(ops) > 0 && ops[0].Name == "reset" {
					k = 1
				}
				ops = append(append(append([]Call{}, ops[:k]...), Call{Name: "hires", B: true}), ops[k:]...)
			}
			line := EncCase(ops)
			obs := s.EmitRun(line)
			s.Count("enc")
			s.Sig("enc:" + progSig(ops))
			for _, f := range monitorRoundTrip(line, ops) {
				s.Fail(f.Clause, f.Case, f.Detail)
			}
			// the decoder side of the same bytes, for the model
			if j := strings.LastIndex(obs, "B="); j >= 0 {
				if b, err := ParseBytes(obs[j+2:]); err == nil {
					s.EmitRun(DecCase(nil, b))
					s.Count("dec-of-encoded")
				}
			}
		case i%10 < 9: // converse on generated streams
			src := r.Stream(12)
			line := DecCase(nil, src)
			s.EmitRun(line)
			s.Count("dec-stream")
			for _, f := range monitorConverse(line, src) {
				s.Fail(f.Clause, f.Case, f.Detail)
			}
		default: // converse on corpus (and mutated corpus)
			if len(corpus) == 0 {
				continue
			}
			src := corpus[r.Intn(len(corpus))]
			if r.Chance(50) {
				src = r.Mutate(src, corpus[r.Intn(len(corpus))])
			}
			line := DecCase(nil, src)
			s.EmitRun(line)
			s.Count("dec-corpus")
			for _, f := range monitorConverse(line, src) {
				s.Fail(f.Clause, f.Case, f.Detail)
			}
		}
	}
}

func init() {
	Suites["C01"] = suiteC01
	Budgets["C01"] = [2]int{6000, 300000}
	Monitors["C01"] = monitorC01
}
