package h

import (
	"encoding/hex"
	"fmt"
	"image"
	"image/color"
	"regexp"
	"strconv"
	"strings"

	"github.com/reactivego/ivg"
	"github.com/reactivego/ivg/decode"
	"github.com/reactivego/ivg/generate"
	"github.com/reactivego/ivg/mdicons"
	"github.com/reactivego/ivg/raster"
	"github.com/reactivego/ivg/render"
	"golang.org/x/image/math/f32"
)

// ---------- ren ----------

func RenCase(rect image.Rectangle, samples []image.Point, ops []Call) string {
	smp := "-"
	if len(samples) > 0 {
		var ss []string
		for _, p := range samples {
			ss = append(ss, fmt.Sprintf("%d,%d", p.X, p.Y))
		}
		smp = strings.Join(ss, ";")
	}
	return fmt.Sprintf("ren %d %d %d %d %s | %s", rect.Min.X, rect.Min.Y, rect.Max.X, rect.Max.Y, smp, ShowCalls(ops))
}

// RunRen drives a zero-value render.Renderer (after SetRasterizer) with the ops; rc/rn read selectors.
func RunRen(rect image.Rectangle, samples []image.Point, ops []Call) (obs string, rec *RecRaster) {
	// (the recorder stops a run-away Renderer: at most four rasteriser calls per Destination call on the unchanged tree)
	rec = &RecRaster{Samples: samples, Limit: 8*len(ops) + 256}
	defer func() {
		if p := recover(); p != nil {
			if _, ok := p.(WorkLimit); ok {
				p = "rasteriser-work-limit"
			}
			obs = "PANIC:" + strings.ReplaceAll(fmt.Sprint(p), " ", "_")
		}
	}()
	var z render.Renderer
	z.SetRasterizer(rec, rect)
	for _, op := range ops {
		switch op.Name {
		case "rc":
			rec.Log = append(rec.Log, fmt.Sprintf("s=%d", z.CSel()))
		case "rn":
			rec.Log = append(rec.Log, fmt.Sprintf("s=%d", z.NSel()))
		case "rlod", "bytes", "hires":
		case "rast":
			rec.Fresh()
			z.SetRasterizer(rec, op.Rect)
		default:
			op.Apply(&z)
		}
	}
	if len(rec.Log) == 0 {
		return "-", rec
	}
	return strings.Join(rec.Log, " ; "), rec
}

// RunRenWrapped is RunRen with both logging wrappers of the library in the pipeline: the calls go through an
// ivg.DestinationLogger into the Renderer, whose rasteriser is a raster.RasterizerLogger around the recorder.
// (Both print every call; the caller silences stdout.)
func RunRenWrapped(rect image.Rectangle, samples []image.Point, ops []Call, alt bool) (obs string) {
	rec := &RecRaster{Samples: samples, Limit: 8*len(ops) + 256}
	defer func() {
		if p := recover(); p != nil {
			if _, ok := p.(WorkLimit); ok {
				p = "rasteriser-work-limit"
			}
			obs = "PANIC:" + strings.ReplaceAll(fmt.Sprint(p), " ", "_")
		}
	}()
	var z render.Renderer
	z.SetRasterizer(&raster.RasterizerLogger{Rasterizer: rec}, rect)
	dl := &ivg.DestinationLogger{Destination: &z, Alt: alt}
	for _, op := range ops {
		switch op.Name {
		case "rc":
			rec.Log = append(rec.Log, fmt.Sprintf("s=%d", dl.CSel()))
		case "rn":
			rec.Log = append(rec.Log, fmt.Sprintf("s=%d", dl.NSel()))
		case "rlod", "bytes", "hires":
		case "rast":
			rec.Fresh()
			z.SetRasterizer(&raster.RasterizerLogger{Rasterizer: rec}, op.Rect)
		default:
			op.Apply(dl)
		}
	}
	if len(rec.Log) == 0 {
		return "-"
	}
	return strings.Join(rec.Log, " ; ")
}

// monitorWrapped: the logging wrappers are transparent — the rasteriser sees the same calls with them as without.
func monitorWrapped(pid, line string, rect image.Rectangle, samples []image.Point, ops []Call, alt bool) []Failure {
	direct, _ := RunRen(rect, samples, ops)
	var wrapped string
	quietly(func() { wrapped = RunRenWrapped(rect, samples, ops, alt) })
	if wrapped != direct {
		a, b := strings.Split(direct, " ; "), strings.Split(wrapped, " ; ")
		k := 0
		for k < len(a) && k < len(b) && a[k] == b[k] {
			k++
		}
		ea, eb := "(nothing)", "(nothing)"
		if k < len(a) {
			ea = a[k]
		}
		if k < len(b) {
			eb = b[k]
		}
		return []Failure{{pid + ".through-logging-wrappers", line, fmt.Sprintf("rasteriser call %d is %s behind ivg.DestinationLogger and raster.RasterizerLogger, %s without them", k, eb, ea)}}
	}
	return nil
}

func parsePoints(s string) ([]image.Point, error) {
	if s == "-" {
		return nil, nil
	}
	var out []image.Point
	for _, p := range strings.Split(s, ";") {
		xy := strings.Split(p, ",")
		if len(xy) != 2 {
			return nil, fmt.Errorf("bad point")
		}
		x, e1 := strconv.Atoi(xy[0])
		y, e2 := strconv.Atoi(xy[1])
		if e1 != nil || e2 != nil {
			return nil, fmt.Errorf("bad point")
		}
		out = append(out, image.Pt(x, y))
	}
	return out, nil
}

// ---------- fit ----------

func FitCase(mode string, vb ivg.ViewBox, dx, dy, ax, ay float32) string {
	return fmt.Sprintf("fit %s %s %s %s %s %s %s %s %s |", mode, HexF32(vb.MinX), HexF32(vb.MinY), HexF32(vb.MaxX), HexF32(vb.MaxY), HexF32(dx), HexF32(dy), HexF32(ax), HexF32(ay))
}

func RunFit(mode string, vb ivg.ViewBox, dx, dy, ax, ay float32) string {
	// the placement is a function of its arguments: what was asked BEFORE must not matter.  Each case is preceded by the
	// same question about another viewBox — same target and alignment, another aspect ratio (round 5, C12-I: a memo of
	// the last placement keyed without the viewBox)
	other := ivg.ViewBox{MinX: vb.MinX, MinY: vb.MinY, MaxX: vb.MaxX + (vb.MaxX-vb.MinX)*2 + 1, MaxY: vb.MaxY}
	other.AspectMeet(dx, dy, ax, ay)
	other.AspectSlice(dx, dy, ax, ay)
	switch mode {
	case "size":
		w, h := vb.Size()
		return showF32A(w) + " " + showF32A(h)
	case "meet":
		a, b, c, d := vb.AspectMeet(dx, dy, ax, ay)
		return showF32A(a) + " " + showF32A(b) + " " + showF32A(c) + " " + showF32A(d)
	default:
		a, b, c, d := vb.AspectSlice(dx, dy, ax, ay)
		return showF32A(a) + " " + showF32A(b) + " " + showF32A(c) + " " + showF32A(d)
	}
}

// ---------- gen ----------

// GenOp is one step of a Generator history: a plain Destination call or a helper.
type GenOp struct {
	Kind   string // call lin circ ell grad xf path
	Call   Call
	F      []float32
	Spread uint8
	Shape  uint8
	Stops  []generate.GradientStop
	Affs   []generate.Aff3
	Path   string
	Adj    uint8
}

func showStops(st []generate.GradientStop) string {
	if len(st) == 0 {
		return "-"
	}
	var ss []string
	for _, s := range st {
		r, g, b, a := s.Color.RGBA()
		ss = append(ss, HexF32(s.Offset)+":"+HexRGBA(color.RGBA{uint8(r >> 8), uint8(g >> 8), uint8(b >> 8), uint8(a >> 8)}))
	}
	return strings.Join(ss, ",")
}

func showAff(a generate.Aff3) string {
	var ss []string
	for _, v := range a {
		ss = append(ss, HexF32(v))
	}
	return strings.Join(ss, ".")
}

func (g GenOp) String() string {
	fs := func() string {
		var ss []string
		for _, f := range g.F {
			ss = append(ss, HexF32(f))
		}
		return strings.Join(ss, " ")
	}
	switch g.Kind {
	case "call":
		return g.Call.String()
	case "lin", "circ", "ell":
		return fmt.Sprintf("%s %s %d %s", g.Kind, fs(), g.Spread, showStops(g.Stops))
	case "grad":
		return fmt.Sprintf("grad %d %d %s %s", g.Shape, g.Spread, showStops(g.Stops), showAff(g.Affs[0]))
	case "xf":
		if len(g.Affs) == 0 {
			return "xf -"
		}
		var ss []string
		for _, a := range g.Affs {
			ss = append(ss, showAff(a))
		}
		return "xf " + strings.Join(ss, ",")
	default:
		return fmt.Sprintf("path %d %s", g.Adj, HexBytes([]byte(g.Path)))
	}
}

func GenCase(ops []GenOp) string {
	ss := make([]string, len(ops))
	for i, o := range ops {
		ss[i] = o.String()
	}
	return "gen | " + strings.Join(ss, " ; ")
}

// ApplyGen runs one GenOp on a Generator; it returns the helper's error text ("" for plain calls).
func ApplyGen(g *generate.Generator, o GenOp) string {
	var err error
	switch o.Kind {
	case "call":
		o.Call.Apply(g)
		return ""
	case "lin":
		err = g.SetLinearGradient(o.F[0], o.F[1], o.F[2], o.F[3], generate.GradientSpread(o.Spread), o.Stops)
	case "circ":
		err = g.SetCircularGradient(o.F[0], o.F[1], o.F[2], o.F[3], generate.GradientSpread(o.Spread), o.Stops)
	case "ell":
		err = g.SetEllipticalGradient(o.F[0], o.F[1], o.F[2], o.F[3], o.F[4], o.F[5], generate.GradientSpread(o.Spread), o.Stops)
	case "grad":
		err = g.SetGradient(generate.GradientShape(o.Shape), generate.GradientSpread(o.Spread), o.Stops, o.Affs[0])
	case "xf":
		// the configured transform is what was passed at the time of the call: the caller's slice stays the caller's
		// (overwritten here straight away; round 4, C20-G: the Generator kept it instead of its own product), and naming the
		// destination again is not a re-configuration (C20-H: SetDestination re-initialised the Generator)
		ts := append([]generate.Aff3(nil), o.Affs...)
		g.SetTransform(ts...)
		for i := range ts {
			ts[i] = generate.Aff3{}
		}
		g.SetDestination(g.Destination)
		// a Generator is a plain struct: re-configuring a COPY of it leaves the original as it was (round 5, C20-I: SetTransform
		// reused the backing array of the transform list, so copies shared one transform)
		cp := *g
		cp.SetTransform(generate.Translate(7, -3), generate.Scale(5, 9))
		return ""
	case "path":
		err = g.SetPathData(o.Path, o.Adj)
	}
	if err == nil {
		return "ok"
	}
	return strings.ReplaceAll(err.Error(), " ", "_")
}

func RunGen(ops []GenOp) (obs string) {
	rec := &Recorder{}
	var errs []string
	defer func() {
		if p := recover(); p != nil {
			obs = ShowCalls(rec.Calls) + " # " + strings.Join(append(errs, "PANIC"), " ")
		}
	}()
	g := &generate.Generator{}
	g.SetDestination(rec)
	for _, o := range ops {
		if e := ApplyGen(g, o); e != "" {
			errs = append(errs, e)
		}
	}
	es := "-"
	if len(errs) > 0 {
		es = strings.Join(errs, " ")
	}
	return ShowCalls(rec.Calls) + " # " + es
}

func ParseGenOps(body string) ([]GenOp, error) {
	var out []GenOp
	body = strings.TrimSpace(body)
	if body == "" || body == "-" {
		return nil, nil
	}
	pf := func(ss []string) ([]float32, error) {
		var fs []float32
		for _, s := range ss {
			f, err := ParseF32(s)
			if err != nil {
				return nil, err
			}
			fs = append(fs, f)
		}
		return fs, nil
	}
	pstops := func(s string) ([]generate.GradientStop, error) {
		if s == "-" {
			return nil, nil
		}
		var st []generate.GradientStop
		for _, p := range strings.Split(s, ",") {
			kv := strings.Split(p, ":")
			if len(kv) != 2 {
				return nil, fmt.Errorf("bad stop")
			}
			o, err := ParseF32(kv[0])
			if err != nil {
				return nil, err
			}
			c, err := ParseRGBA(kv[1])
			if err != nil {
				return nil, err
			}
			st = append(st, generate.GradientStop{Offset: o, Color: c})
		}
		return st, nil
	}
	paff := func(s string) (generate.Aff3, error) {
		var a generate.Aff3
		fs, err := pf(strings.Split(s, "."))
		if err != nil || len(fs) != 6 {
			return a, fmt.Errorf("bad aff")
		}
		copy(a[:], fs)
		return a, nil
	}
	for _, part := range strings.Split(body, ";") {
		t := strings.Fields(part)
		if len(t) == 0 {
			continue
		}
		var o GenOp
		var err error
		switch t[0] {
		case "lin", "circ":
			if len(t) != 7 {
				return nil, fmt.Errorf("bad %v", t)
			}
			o.Kind = t[0]
			if o.F, err = pf(t[1:5]); err != nil {
				return nil, err
			}
			sp, _ := strconv.Atoi(t[5])
			o.Spread = uint8(sp)
			if o.Stops, err = pstops(t[6]); err != nil {
				return nil, err
			}
		case "ell":
			if len(t) != 9 {
				return nil, fmt.Errorf("bad %v", t)
			}
			o.Kind = "ell"
			if o.F, err = pf(t[1:7]); err != nil {
				return nil, err
			}
			sp, _ := strconv.Atoi(t[7])
			o.Spread = uint8(sp)
			if o.Stops, err = pstops(t[8]); err != nil {
				return nil, err
			}
		case "grad":
			if len(t) != 5 {
				return nil, fmt.Errorf("bad %v", t)
			}
			o.Kind = "grad"
			sh, _ := strconv.Atoi(t[1])
			sp, _ := strconv.Atoi(t[2])
			o.Shape, o.Spread = uint8(sh), uint8(sp)
			if o.Stops, err = pstops(t[3]); err != nil {
				return nil, err
			}
			a, err := paff(t[4])
			if err != nil {
				return nil, err
			}
			o.Affs = []generate.Aff3{a}
		case "xf":
			o.Kind = "xf"
			if t[1] != "-" {
				for _, s := range strings.Split(t[1], ",") {
					a, err := paff(s)
					if err != nil {
						return nil, err
					}
					o.Affs = append(o.Affs, a)
				}
			}
		case "path":
			o.Kind = "path"
			adj, _ := strconv.Atoi(t[1])
			o.Adj = uint8(adj)
			b, err := ParseBytes(t[2])
			if err != nil {
				return nil, err
			}
			o.Path = string(b)
		default:
			o.Kind = "call"
			if o.Call, err = ParseCall(t); err != nil {
				return nil, err
			}
		}
		out = append(out, o)
	}
	return out, nil
}

// ---------- mdi ----------

type MdPath struct {
	Opacity float32
	D       string
	Circles []mdicons.Circle
}

func MdiCase(size float32, off f32.Vec2, outSize float32, paths []MdPath) string {
	var ss []string
	for _, p := range paths {
		cs := "-"
		if len(p.Circles) > 0 {
			var cc []string
			for _, c := range p.Circles {
				cc = append(cc, HexF32(c.Cx)+","+HexF32(c.Cy)+","+HexF32(c.R))
			}
			cs = strings.Join(cc, ":")
		}
		ss = append(ss, fmt.Sprintf("%s %s %s", HexF32(p.Opacity), HexBytes([]byte(p.D)), cs))
	}
	return fmt.Sprintf("mdi %s %s %s %s | %s", HexF32(size), HexF32(off[0]), HexF32(off[1]), HexF32(outSize), strings.Join(ss, " ; "))
}

func RunMdi(size float32, off f32.Vec2, outSize float32, paths []MdPath) (obs string, calls []Call) {
	rec := &Recorder{}
	var errs []string
	defer func() {
		calls = rec.Calls
		if p := recover(); p != nil {
			obs = ShowCalls(rec.Calls) + " # " + strings.Join(append(errs, "PANIC"), " ")
		}
	}()
	adjs := map[float32]uint8{}
	for _, p := range paths {
		mp := &mdicons.Path{D: p.D}
		if p.Opacity != 1 {
			o := p.Opacity
			mp.Opacity = &o
		}
		if err := mdicons.ParsePath(rec, mp, adjs, size, off, outSize, p.Circles); err != nil {
			errs = append(errs, "err")
		} else {
			errs = append(errs, "ok")
		}
	}
	return ShowCalls(rec.Calls) + " # " + strings.Join(errs, " "), rec.Calls
}

// ---------- dis ----------

func DisCase(src []byte) string { return "dis | " + HexBytes(src) }

var angleRe = regexp.MustCompile(`^    (\S+) × 360 degrees \((\S+) degrees\)$`)

func canonNum(tok string) (string, bool) {
	if tok == "NaN" || tok == "+NaN" || tok == "-NaN" {
		return "#nan", true
	}
	f, err := strconv.ParseFloat(tok, 32)
	if err != nil {
		if ne, ok := err.(*strconv.NumError); !ok || ne.Err != strconv.ErrRange {
			return "", false
		}
	}
	g := float32(f)
	if g != g {
		return "#nan", true
	}
	return "#" + HexF32(g), true
}

// CanonListing canonicalises Disassemble's text: "hexcolumn:text" lines joined by " // ",
// with every printed float replaced by #<float32 bits>.
func CanonListing(text []byte) string {
	lines := strings.Split(strings.TrimSuffix(string(text), "\n"), "\n")
	var out []string
	for _, l := range lines {
		if len(l) < 14 {
			out = append(out, "SHORT:"+l)
			continue
		}
		hexcol, txt := strings.TrimRight(l[:14], " "), l[14:]
		if m := angleRe.FindStringSubmatch(txt); m != nil {
			a, ok1 := canonNum(m[1])
			b, ok2 := canonNum(m[2])
			if ok1 && ok2 {
				txt = fmt.Sprintf("    %s × 360 degrees (%s degrees)", a, b)
			}
		} else if strings.HasPrefix(txt, "    ") {
			if c, ok := canonNum(strings.TrimSpace(txt)); ok && !strings.HasPrefix(strings.TrimSpace(txt), "0x") {
				txt = "    " + c
			}
		}
		out = append(out, hexcol+":"+txt)
	}
	return strings.Join(out, " // ")
}

func RunDis(src []byte) (obs string) {
	defer recoverTo(&obs)
	text, err := decode.Disassemble(src)
	if err != nil {
		return "# " + ErrStr(err)
	}
	return CanonListing(text) + " # ok"
}

func init() {
	caseRunners["ren"] = func(hdr []string, body string) string {
		if len(hdr) != 5 {
			return "BAD-CASE"
		}
		var v [4]int
		for i := 0; i < 4; i++ {
			x, err := strconv.Atoi(hdr[i])
			if err != nil {
				return "BAD-CASE"
			}
			v[i] = x
		}
		pts, err := parsePoints(hdr[4])
		if err != nil {
			return "BAD-CASE"
		}
		ops, err := ParseCalls(body)
		if err != nil {
			return "BAD-CASE"
		}
		obs, _ := RunRen(image.Rect(v[0], v[1], v[2], v[3]), pts, ops)
		return obs
	}
	caseRunners["fit"] = func(hdr []string, body string) string {
		if len(hdr) != 9 {
			return "BAD-CASE"
		}
		var f [8]float32
		for i := range f {
			x, err := ParseF32(hdr[i+1])
			if err != nil {
				return "BAD-CASE"
			}
			f[i] = x
		}
		return RunFit(hdr[0], ivg.ViewBox{MinX: f[0], MinY: f[1], MaxX: f[2], MaxY: f[3]}, f[4], f[5], f[6], f[7])
	}
	caseRunners["gen"] = func(hdr []string, body string) string {
		ops, err := ParseGenOps(body)
		if err != nil {
			return "BAD-CASE"
		}
		return RunGen(ops)
	}
	caseRunners["dis"] = func(hdr []string, body string) string {
		b, err := ParseBytes(body)
		if err != nil {
			return "BAD-CASE"
		}
		return RunDis(b)
	}
	caseRunners["mdi"] = func(hdr []string, body string) string {
		f, paths, ok := parseMdiCase(hdr, body)
		if !ok {
			return "BAD-CASE"
		}
		obs, _ := RunMdi(f[0], f32.Vec2{f[1], f[2]}, f[3], paths)
		return obs
	}
}

func parseMdiCase(hdr []string, body string) (f [4]float32, paths []MdPath, ok bool) {
	if len(hdr) != 4 {
		return
	}
	for i := range f {
		x, err := ParseF32(hdr[i])
		if err != nil {
			return
		}
		f[i] = x
	}
	for _, part := range strings.Split(body, ";") {
		t := strings.Fields(part)
		if len(t) == 0 {
			continue
		}
		if len(t) != 3 {
			return
		}
		op, err := ParseF32(t[0])
		if err != nil {
			return
		}
		d, err := ParseBytes(t[1])
		if err != nil {
			return
		}
		p := MdPath{Opacity: op, D: string(d)}
		if t[2] != "-" {
			for _, cs := range strings.Split(t[2], ":") {
				v := strings.Split(cs, ",")
				if len(v) != 3 {
					return
				}
				a, _ := ParseF32(v[0])
				b, _ := ParseF32(v[1])
				c, _ := ParseF32(v[2])
				p.Circles = append(p.Circles, mdicons.Circle{Cx: a, Cy: b, R: c})
			}
		}
		paths = append(paths, p)
	}
	return f, paths, true
}

var _ = hex.EncodeToString
