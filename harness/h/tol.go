package h

import "math"

func isNaN32(f float32) bool  { return f != f }
func isInf32(f float32) bool  { return math.IsInf(float64(f), 0) }
func finite32(f float32) bool { return !isNaN32(f) && !isInf32(f) }

// Within30 is the format's 30-bit float tolerance: sign preserved, infinities preserved,
// NaN stays non-finite, otherwise at most 4 units in the last place.
func Within30(orig, got float32) bool {
	if isNaN32(orig) {
		return !finite32(got)
	}
	if isInf32(orig) {
		return got == orig
	}
	ob, gb := math.Float32bits(orig), math.Float32bits(got)
	if ob>>31 != gb>>31 {
		return false
	}
	if !finite32(got) {
		return false
	}
	d := int64(ob&0x7fffffff) - int64(gb&0x7fffffff)
	if d < 0 {
		d = -d
	}
	return d <= 4
}

// ShortCoord reports whether f is exactly representable in a 1- or 2-byte coordinate form.
func ShortCoord(f float32) bool {
	if !finite32(f) {
		return false
	}
	x := float64(f) * 64
	return x == math.Floor(x) && -128*64 <= x && x < 128*64
}

// ShortReal reports whether f is exactly representable in a 1- or 2-byte real form.
func ShortReal(f float32) bool {
	if !finite32(f) {
		return false
	}
	x := float64(f)
	return x == math.Floor(x) && 0 <= x && x < 1<<14
}

// CoordOK checks a decoded coordinate against the original under the C01 tolerance.
func CoordOK(orig, got float32, hires bool) bool {
	if !hires && -128 <= orig && orig < 128 {
		k := float64(got) * 64
		if k != math.Floor(k) {
			return false
		}
		return math.Abs(float64(got)-float64(orig)) <= 1.0/128
	}
	if ShortCoord(orig) {
		return got == orig
	}
	return got == orig || Within30(orig, got)
}

func RealOK(orig, got float32) bool {
	if ShortReal(orig) {
		return got == orig
	}
	return Within30(orig, got)
}

func NRegOK(orig, got float32) bool {
	if ShortReal(orig) || ShortCoord(orig) {
		return got == orig
	}
	return got == orig || Within30(orig, got)
}

// AngleOK: the decoded angle equals the original modulo one turn within tolerance.
func AngleOK(orig, got float32) bool {
	g := float64(orig)
	g -= math.Floor(g)
	e := float32(g)
	if isNaN32(e) {
		return !finite32(got)
	}
	if got == e || Within30(e, got) {
		return true
	}
	// values rounding to exactly 1.0 after the reduction are one turn = 0
	return false
}
