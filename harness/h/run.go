package h

import (
	"fmt"
	"image/color"
	"strings"

	"github.com/reactivego/ivg"
	"github.com/reactivego/ivg/decode"
	"github.com/reactivego/ivg/encode"
)

func recoverTo(out *string) {
	if p := recover(); p != nil {
		*out = "PANIC:" + strings.ReplaceAll(fmt.Sprint(p), " ", "_")
	}
}

// EncCase renders an Encoder-history case line.
func EncCase(ops []Call) string { return "enc | " + ShowCalls(ops) }

// RunEnc drives a fresh zero-value encode.Encoder through the history.
func RunEnc(ops []Call) (obs string) {
	defer recoverTo(&obs)
	var e encode.Encoder
	var out []string
	bytesObs := func() string {
		b, err := e.Bytes()
		if err != nil {
			return "E=" + ErrStr(err)
		}
		return "B=" + HexBytes(b)
	}
	for _, op := range ops {
		switch op.Name {
		case "rc":
			out = append(out, fmt.Sprintf("s=%d", e.CSel()))
		case "rn":
			out = append(out, fmt.Sprintf("s=%d", e.NSel()))
		case "rlod":
			a, b := e.LOD()
			out = append(out, "lod="+HexF32(a)+","+HexF32(b))
		case "bytes":
			out = append(out, bytesObs())
		case "hires":
			e.HighResolutionCoordinates = op.B
		default:
			op.Apply(&e)
		}
	}
	out = append(out, bytesObs())
	return strings.Join(out, " ")
}

// EncodeCalls runs Destination calls through a fresh Encoder (hi-res optional).
func EncodeCalls(cs []Call, hires bool) (bs []byte, err error) {
	defer func() {
		if p := recover(); p != nil {
			bs, err = nil, fmt.Errorf("PANIC in the Encoder: %v", p)
		}
	}()
	var e encode.Encoder
	e.HighResolutionCoordinates = hires
	for _, c := range cs {
		if c.Name == "hires" {
			e.HighResolutionCoordinates = c.B
			continue
		}
		if !c.IsDest() {
			continue
		}
		c.Apply(&e)
		if c.Name == "reset" && hires {
			e.HighResolutionCoordinates = true
		}
	}
	return e.Bytes()
}

// DecOpt is a decode option in protocol form.
type DecOpt struct {
	Pal   *[64]color.RGBA
	Index int
	Col   color.Color // as given by the user
}

func (o DecOpt) Go() decode.DecodeOption {
	if o.Pal != nil {
		return decode.WithPalette(*o.Pal)
	}
	return decode.WithColorAt(o.Index, o.Col)
}

func (o DecOpt) String() string {
	if o.Pal != nil {
		var sb strings.Builder
		for _, c := range o.Pal {
			sb.WriteString(HexRGBA(c))
		}
		return "P" + sb.String()
	}
	r, g, b, a := o.Col.RGBA()
	return fmt.Sprintf("I%d:%s", o.Index, HexRGBA(color.RGBA{uint8(r >> 8), uint8(g >> 8), uint8(b >> 8), uint8(a >> 8)}))
}

func ShowOpts(os []DecOpt) string {
	if len(os) == 0 {
		return "-"
	}
	ss := make([]string, len(os))
	for i, o := range os {
		ss[i] = o.String()
	}
	return strings.Join(ss, ",")
}

func DecCase(opts []DecOpt, src []byte) string {
	return "dec " + ShowOpts(opts) + " | " + HexBytes(src)
}

// Decode runs decode.Decode into a Recorder.
func Decode(opts []DecOpt, src []byte) (calls []Call, err error, panicked string) {
	rec := &Recorder{}
	defer func() {
		calls = rec.Calls
		if p := recover(); p != nil {
			panicked = "PANIC:" + strings.ReplaceAll(fmt.Sprint(p), " ", "_")
		}
	}()
	var gopts []decode.DecodeOption
	for _, o := range opts {
		gopts = append(gopts, o.Go())
	}
	err = decode.Decode(rec, src, gopts...)
	return
}

func RunDec(opts []DecOpt, src []byte) string {
	calls, err, p := Decode(opts, src)
	if p != "" {
		return ShowCalls(calls) + " # " + p
	}
	return ShowCalls(calls) + " # " + ErrStr(err)
}

// SpecCase: the implementation's verdict in the form the specification parser reports it.
func SpecCase(src []byte) string { return "spec | " + HexBytes(src) }

func RunSpecImpl(src []byte) string {
	calls, err, p := Decode(nil, src)
	if p != "" {
		return "# " + p
	}
	if err != nil {
		return "# rejected"
	}
	return ShowCalls(calls) + " # ok"
}

func DvbCase(src []byte) string { return "dvb | " + HexBytes(src) }

func RunDvb(src []byte) (obs string) {
	defer recoverTo(&obs)
	vb, err := decode.DecodeViewBox(src)
	if err != nil {
		return "# " + ErrStr(err)
	}
	return fmt.Sprintf("%s %s %s %s # ok", HexF32(vb.MinX), HexF32(vb.MinY), HexF32(vb.MaxX), HexF32(vb.MaxY))
}

var _ = ivg.Magic
