package h

import (
	"crypto/sha1"
	"encoding/hex"
	"encoding/json"
	"go/scanner"
	"go/token"
	"os"
	"path/filepath"
	"sort"
	"strings"
)

// Fingerprint returns, per non-test Go file of /repo, a hash of its token stream (comments and
// layout ignored).  The check compares it with the fingerprints of the unchanged tree only to decide
// how hard to search: a changed anchor file of a property escalates the search for a failing input.
// A changed fingerprint alone never raises a violation.
func Fingerprint(repo string) (string, error) {
	out := map[string]string{}
	err := filepath.Walk(repo, func(path string, info os.FileInfo, err error) error {
		if err != nil {
			return nil
		}
		if info.IsDir() {
			if strings.HasPrefix(info.Name(), ".") && path != repo {
				return filepath.SkipDir
			}
			return nil
		}
		if !strings.HasSuffix(path, ".go") || strings.HasSuffix(path, "_test.go") || strings.Contains(path, "cmd/mdicons/test") {
			return nil
		}
		src, err := os.ReadFile(path)
		if err != nil {
			return nil
		}
		fset := token.NewFileSet()
		f := fset.AddFile(path, fset.Base(), len(src))
		var s scanner.Scanner
		s.Init(f, src, nil, 0)
		h := sha1.New()
		for {
			_, tok, lit := s.Scan()
			if tok == token.EOF {
				break
			}
			if tok == token.SEMICOLON && lit == "\n" {
				continue
			}
			h.Write([]byte(tok.String()))
			h.Write([]byte{0})
			h.Write([]byte(lit))
			h.Write([]byte{1})
		}
		rel, _ := filepath.Rel(repo, path)
		out[rel] = hex.EncodeToString(h.Sum(nil))[:16]
		return nil
	})
	if err != nil {
		return "", err
	}
	keys := make([]string, 0, len(out))
	for k := range out {
		keys = append(keys, k)
	}
	sort.Strings(keys)
	ordered := make([][2]string, 0, len(keys))
	for _, k := range keys {
		ordered = append(ordered, [2]string{k, out[k]})
	}
	b, _ := json.Marshal(out)
	_ = ordered
	return string(b), nil
}
