package h

import (
	"go/ast"
	"go/parser"
	"go/token"
	"math"
	"os"
	"path/filepath"
	"sort"
	"strconv"
)

// Corpus loads testdata/*.ivg and the Material Design icons embedded in
// cmd/mdicons/test/data.go (parsed with go/parser; no import of the package).
func Corpus(repo string) (names []string, data [][]byte) {
	files, _ := filepath.Glob(filepath.Join(repo, "testdata", "*.ivg"))
	sort.Strings(files)
	for _, f := range files {
		b, err := os.ReadFile(f)
		if err == nil {
			names = append(names, filepath.Base(f))
			data = append(data, b)
		}
	}
	fset := token.NewFileSet()
	af, err := parser.ParseFile(fset, filepath.Join(repo, "cmd", "mdicons", "test", "data.go"), nil, 0)
	if err != nil {
		return
	}
	for _, d := range af.Decls {
		gd, ok := d.(*ast.GenDecl)
		if !ok || gd.Tok != token.VAR {
			continue
		}
		for _, sp := range gd.Specs {
			vs := sp.(*ast.ValueSpec)
			if len(vs.Values) != 1 {
				continue
			}
			cl, ok := vs.Values[0].(*ast.CompositeLit)
			if !ok {
				continue
			}
			var b []byte
			good := true
			for _, e := range cl.Elts {
				bl, ok := e.(*ast.BasicLit)
				if !ok {
					good = false
					break
				}
				v, err := strconv.ParseUint(bl.Value, 0, 8)
				if err != nil {
					good = false
					break
				}
				b = append(b, byte(v))
			}
			if good && len(b) >= 5 {
				names = append(names, vs.Names[0].Name)
				data = append(data, b)
			}
		}
	}
	return
}

// ---------- assembler for (possibly non-canonical) FFV0 fragments ----------

// AsmNat encodes u in the given width (1, 2 or 4 bytes); the caller ensures it fits.
func AsmNat(u uint32, width int) []byte {
	switch width {
	case 1:
		return []byte{byte(u << 1)}
	case 2:
		v := u<<2 | 1
		return []byte{byte(v), byte(v >> 8)}
	default:
		v := u<<2 | 3
		return []byte{byte(v), byte(v >> 8), byte(v >> 16), byte(v >> 24)}
	}
}

// NumBytes draws an encoded number operand in a random (possibly non-canonical) form.
func (r *RNG) NumBytes() []byte {
	switch r.Intn(6) {
	case 0:
		return AsmNat(uint32(r.Intn(128)), 1)
	case 1:
		return AsmNat(uint32(r.Intn(1<<14)), 2)
	case 2: // 2-byte form of a value that fits 1 byte
		return AsmNat(uint32(r.Intn(128)), 2)
	case 3: // 4-byte float, moderate
		return AsmNat(math.Float32bits(r.Coord())>>2, 4)
	case 4: // 4-byte float, any class
		return AsmNat(math.Float32bits(r.F32())>>2, 4)
	default: // 4-byte form of a small natural (denormal float)
		return AsmNat(uint32(r.Intn(1<<14)), 4)
	}
}

func (r *RNG) ColorBytes(n int) []byte {
	b := make([]byte, n)
	for i := range b {
		b[i] = byte(r.Intn(256))
	}
	if n == 1 {
		b[0] = r.OneByteColorByte()
	}
	if n == 3 && r.Bool() {
		b[1], b[2] = r.OneByteColorByte(), r.OneByteColorByte()
	}
	return b
}

func cat(bs ...[]byte) []byte {
	var out []byte
	for _, b := range bs {
		out = append(out, b...)
	}
	return out
}

// MetadataBytes draws a metadata section (after the magic): mostly valid, sometimes not.
func (r *RNG) MetadataBytes() []byte {
	var chunks [][]byte
	var midW []int // width of each chunk's MID
	midWidth := func() int {
		w := []int{1, 1, 1, 1, 2, 4}[r.Intn(6)]
		midW = append(midW, w)
		return w
	}
	mkVB := func() []byte {
		body := AsmNat(0, midWidth())
		x0, y0 := r.Coord(), r.Coord()
		vals := []float32{x0, y0, x0 + float32(r.Intn(100)), y0 + float32(r.Intn(100))}
		if r.Chance(15) {
			vals[r.Intn(4)] = r.F32()
		}
		if r.Chance(25) {
			// a non-finite or inverted value in one of the four slots
			vals[r.Intn(4)] = bits([]uint32{0x7f800000, 0xff800000, 0x7fc00000, 0xffc00000, 0x7f800000, 0xff800000, 0x7f800004, 0xff7fffff}[r.Intn(8)])
		}
		if r.Chance(8) {
			// finite, ordered, but the extent of one axis overflows float32
			k := r.Intn(2)
			vals[k] = -bits(0x7e800000 + uint32(r.Intn(0x00ffffff)))
			vals[k+2] = bits(0x7e800000 + uint32(r.Intn(0x00ffffff)))
		}
		for _, v := range vals {
			if r.Chance(60) {
				body = append(body, coordBytes(v, r)...)
			} else {
				body = append(body, r.NumBytes()...)
			}
		}
		return body
	}
	mkPal := func() []byte {
		body := AsmNat(1, midWidth())
		n := r.Intn(64)
		if r.Chance(60) {
			n = r.Intn(4)
		}
		if r.Chance(15) {
			n = 63
		}
		format := r.Intn(4)
		body = append(body, byte(n)|byte(format)<<6)
		present := n + 1
		if r.Chance(12) {
			// fewer colours than the header announces (the declared chunk length still matches the bytes)
			present = r.Intn(n + 1)
		}
		for i := 0; i < present; i++ {
			body = append(body, r.ColorBytes(format+1)...)
		}
		return body
	}
	switch r.Intn(10) {
	case 0:
	case 1, 2:
		chunks = append(chunks, mkVB())
	case 3, 4:
		chunks = append(chunks, mkPal())
	case 5, 6, 7:
		chunks = append(chunks, mkVB(), mkPal())
	case 8: // order / repetition violations
		switch r.Intn(3) {
		case 0:
			chunks = append(chunks, mkPal(), mkVB())
		case 1:
			chunks = append(chunks, mkVB(), mkVB())
		default:
			chunks = append(chunks, mkPal(), mkPal())
		}
	default: // unknown MID
		chunks = append(chunks, cat(AsmNat(uint32(2+r.Intn(100)), 1+r.Intn(2)), []byte{1, 2, 3}[:r.Intn(4)]))
		midW = append(midW, 1)
	}
	count := uint32(len(chunks))
	if r.Chance(8) {
		count = []uint32{count + 1, 1 << 29, 100, 0}[r.Intn(4)]
	}
	out := AsmNat(count, []int{1, 1, 1, 2, 4}[r.Intn(5)])
	// declared lengths that are wrong in ways that cancel or that match another way of counting
	adjust := make([]int, len(chunks))
	if len(chunks) == 2 && r.Chance(6) {
		d := 1 + r.Intn(4)
		if r.Bool() {
			d = -d
		}
		adjust[0], adjust[1] = d, -d
	}
	for i := range chunks {
		if i < len(midW) && midW[i] > 1 && r.Chance(25) {
			adjust[i] = []int{-(midW[i] - 1), midW[i] - 1, -midW[i], midW[i]}[r.Intn(4)]
		}
	}
	for i, c := range chunks {
		l := uint32(len(c) + adjust[i])
		if r.Chance(10) {
			l = uint32(int(l) + r.Intn(7) - 3)
			if r.Chance(20) {
				l = 1 << 29
			}
		}
		w := 1
		if l >= 128 {
			w = 2
		}
		if l >= 1<<14 {
			w = 4
		}
		if r.Chance(20) && w < 4 {
			w *= 2
		}
		out = append(out, AsmNat(l, w)...)
		out = append(out, c...)
	}
	return out
}

// coordBytes encodes f as the encoder would (shortest exact form) when possible.
func coordBytes(f float32, r *RNG) []byte {
	if i := int32(f); -64 <= i && i < 64 && float32(i) == f {
		return AsmNat(uint32(i+64), 1)
	}
	if i := int32(f * 64); -8192 <= i && i < 8192 && float32(i) == f*64 {
		return AsmNat(uint32(i+8192), 2)
	}
	return AsmNat(math.Float32bits(f)>>2, 4)
}

// Instruction draws one instruction (opcode + operands) for the given mode and
// returns the mode afterwards. Operands may use non-canonical forms.
func (r *RNG) Instruction(drawing bool) (b []byte, nowDrawing bool) {
	nums := func(n int) []byte {
		var out []byte
		for i := 0; i < n; i++ {
			out = append(out, r.NumBytes()...)
		}
		return out
	}
	if !drawing {
		switch r.Intn(12) {
		case 0, 1:
			return []byte{byte(r.Intn(0x80))}, false
		case 2, 3, 4, 5:
			k := r.Intn(5) // colour form
			op := byte(0x80 + 8*k + r.Intn(8))
			n := []int{1, 2, 3, 4, 3}[k]
			return cat([]byte{op}, r.ColorBytes(n)), false
		case 6, 7:
			op := byte(0xa8 + 8*r.Intn(3) + r.Intn(8))
			return cat([]byte{op}, r.NumBytes()), false
		case 8:
			return cat([]byte{0xc7}, nums(2)), false
		case 9: // reserved
			if r.Chance(20) {
				return []byte{byte(0xc8 + r.Intn(0x38))}, false
			}
			fallthrough
		default:
			return cat([]byte{byte(0xc0 + r.Intn(7))}, nums(2)), true
		}
	}
	switch r.Intn(14) {
	case 0:
		return []byte{0xe1}, false
	case 1:
		return cat([]byte{byte(0xe2 + r.Intn(2))}, nums(2)), true
	case 2:
		return cat([]byte{byte(0xe6 + r.Intn(4))}, nums(1)), true
	case 3: // reserved
		if r.Chance(15) {
			return []byte{[]byte{0xe0, 0xe4, 0xe5, 0xea, 0xf0, 0xff}[r.Intn(6)]}, true
		}
		fallthrough
	default:
		hi := r.Intn(14)
		var reps, nC int
		var op byte
		if hi < 4 {
			reps = 1 + r.Intn(32)
			if r.Chance(70) {
				reps = 1 + r.Intn(3)
			}
			op = byte(hi/2*0x20 + reps - 1)
			nC = 2
		} else {
			reps = 1 + r.Intn(16)
			if r.Chance(70) {
				reps = 1 + r.Intn(3)
			}
			op = byte(hi<<4 + reps - 1)
			nC = []int{2, 2, 4, 4, 4, 4, 6, 6, 0, 0}[hi-4]
		}
		out := []byte{op}
		for i := 0; i < reps; i++ {
			if nC > 0 {
				out = append(out, nums(nC)...)
			} else {
				out = append(out, nums(3)...)
				fl := uint32(r.Intn(4))
				if r.Chance(20) {
					fl = uint32(r.U64()) & 0x3fffffff
				}
				w := 1
				if fl >= 128 {
					w = 4
				}
				if r.Chance(20) {
					w = 4
				}
				out = append(out, AsmNat(fl, w)...)
				out = append(out, nums(2)...)
			}
		}
		return out, true
	}
}

// Stream draws magic + metadata + a sequence of instructions.
func (r *RNG) Stream(maxInstr int) []byte {
	out := []byte{0x89, 'I', 'V', 'G'}
	if r.Chance(3) {
		out = []byte{0x89, 'I', 'V', byte(r.Intn(256))}
	}
	if r.Chance(40) {
		out = append(out, 0x00)
	} else {
		out = append(out, r.MetadataBytes()...)
	}
	drawing := false
	n := r.Intn(maxInstr + 1)
	for i := 0; i < n; i++ {
		var b []byte
		b, drawing = r.Instruction(drawing)
		out = append(out, b...)
	}
	if drawing && r.Chance(70) {
		out = append(out, 0xe1)
	}
	return out
}

// Mutate applies one random mutation (truncate, corrupt, insert, delete, splice).
func (r *RNG) Mutate(b []byte, other []byte) []byte {
	out := append([]byte(nil), b...)
	if len(out) == 0 {
		return out
	}
	switch r.Intn(6) {
	case 0:
		return out[:r.Intn(len(out)+1)]
	case 1, 2:
		i := r.Intn(len(out))
		switch r.Intn(3) {
		case 0:
			out[i] ^= 1 << uint(r.Intn(8))
		case 1:
			out[i] = byte(r.Intn(256))
		default:
			out[i] += byte(r.Intn(3)) - 1
		}
		return out
	case 3:
		i := r.Intn(len(out) + 1)
		return cat(out[:i], []byte{byte(r.Intn(256))}, b[i:])
	case 4:
		i := r.Intn(len(out))
		return cat(out[:i], b[i+1:])
	default:
		if len(other) == 0 {
			return out
		}
		i, j := r.Intn(len(out)+1), r.Intn(len(other)+1)
		return cat(out[:i], other[j:])
	}
}

func RandomBytes(r *RNG, n int) []byte {
	b := make([]byte, n)
	for i := range b {
		b[i] = byte(r.Intn(256))
	}
	return b
}
