package h

import (
	"encoding/hex"
	"fmt"
	"image"
	"image/color"
	"math"
	"strconv"
	"strings"

	"github.com/reactivego/ivg"
)

func ParseF32(s string) (float32, error) {
	u, err := strconv.ParseUint(s, 16, 32)
	return math.Float32frombits(uint32(u)), err
}

func ParseRGBA(s string) (color.RGBA, error) {
	b, err := hex.DecodeString(s)
	if err != nil || len(b) != 4 {
		return color.RGBA{}, fmt.Errorf("bad rgba %q", s)
	}
	return color.RGBA{b[0], b[1], b[2], b[3]}, nil
}

func ParsePalette(s string) ([64]color.RGBA, error) {
	if s == "D" {
		return ivg.DefaultPalette, nil
	}
	var p [64]color.RGBA
	if len(s) != 512 {
		return p, fmt.Errorf("bad palette length %d", len(s))
	}
	for i := range p {
		c, err := ParseRGBA(s[8*i : 8*i+8])
		if err != nil {
			return p, err
		}
		p[i] = c
	}
	return p, nil
}

func ParseBytes(s string) ([]byte, error) {
	s = strings.TrimSpace(s)
	if s == "-" {
		return nil, nil
	}
	return hex.DecodeString(s)
}

func ParseCall(t []string) (c Call, err error) {
	defer func() {
		if p := recover(); p != nil {
			err = fmt.Errorf("bad call %v: %v", t, p)
		}
	}()
	f := func(ss ...string) []float32 {
		out := make([]float32, len(ss))
		for i, s := range ss {
			v, e := ParseF32(s)
			if e != nil {
				panic(e)
			}
			out[i] = v
		}
		return out
	}
	u8 := func(s string) uint8 {
		v, e := strconv.ParseUint(s, 10, 8)
		if e != nil {
			panic(e)
		}
		return uint8(v)
	}
	c.Name = t[0]
	switch t[0] {
	case "reset":
		ff := f(t[1:5]...)
		c.VB = ivg.ViewBox{MinX: ff[0], MinY: ff[1], MaxX: ff[2], MaxY: ff[3]}
		c.Pal, err = ParsePalette(t[5])
	case "csel", "nsel":
		c.U8 = u8(t[1])
	case "creg":
		c.Adj, c.Incr = u8(t[1]), t[2] == "1"
		d, e := ParseRGBA(t[3][1:])
		if e != nil {
			return c, e
		}
		c.Col = MakeColor(int(t[3][0]-'0'), d)
	case "nreg":
		c.Adj, c.Incr, c.F = u8(t[1]), t[2] == "1", f(t[3])
	case "lod":
		c.F = f(t[1:3]...)
	case "start":
		c.Adj, c.F = u8(t[1]), f(t[2:4]...)
	case "Z", "rc", "rn", "rlod", "bytes":
	case "hires":
		c.B = t[1] == "1"
	case "rast":
		if len(t) != 5 {
			return c, fmt.Errorf("bad rast %v", t)
		}
		var v [4]int
		for i := range v {
			n, e := strconv.Atoi(t[1+i])
			if e != nil {
				return c, e
			}
			v[i] = n
		}
		c.Rect = image.Rect(v[0], v[1], v[2], v[3])
	case "A", "a":
		c.F = f(t[1], t[2], t[3], t[6], t[7])
		c.La, c.Sw = t[4] == "1", t[5] == "1"
	default:
		if NArgs(t[0]) == 0 || len(t) != 1+NArgs(t[0]) {
			return c, fmt.Errorf("bad call %v", t)
		}
		c.F = f(t[1:]...)
	}
	return
}

func ParseCalls(body string) ([]Call, error) {
	body = strings.TrimSpace(body)
	if body == "-" || body == "" {
		return nil, nil
	}
	var out []Call
	for _, part := range strings.Split(body, ";") {
		t := strings.Fields(part)
		if len(t) == 0 {
			continue
		}
		c, err := ParseCall(t)
		if err != nil {
			return nil, err
		}
		out = append(out, c)
	}
	return out, nil
}

func ParseOpts(s string) ([]DecOpt, error) {
	if s == "-" {
		return nil, nil
	}
	var out []DecOpt
	for _, p := range strings.Split(s, ",") {
		switch p[0] {
		case 'P':
			pal, err := ParsePalette(p[1:])
			if err != nil {
				return nil, err
			}
			out = append(out, DecOpt{Pal: &pal})
		case 'I':
			kv := strings.SplitN(p[1:], ":", 2)
			i, err := strconv.Atoi(kv[0])
			if err != nil {
				return nil, err
			}
			c, err := ParseRGBA(kv[1])
			if err != nil {
				return nil, err
			}
			out = append(out, DecOpt{Index: i, Col: c})
		default:
			return nil, fmt.Errorf("bad option %q", p)
		}
	}
	return out, nil
}

// RunCase executes one protocol case line against the implementation.
func RunCase(line string) string {
	parts := strings.SplitN(line, "|", 2)
	if len(parts) != 2 {
		return "BAD-LINE"
	}
	hdr := strings.Fields(parts[0])
	if len(hdr) == 0 {
		return "BAD-LINE"
	}
	if fn, ok := caseRunners[hdr[0]]; ok {
		return fn(hdr[1:], parts[1])
	}
	return "BAD-KIND"
}

var caseRunners = map[string]func(hdr []string, body string) string{}

func init() {
	caseRunners["enc"] = func(hdr []string, body string) string {
		ops, err := ParseCalls(body)
		if err != nil {
			return "BAD-CASE"
		}
		return RunEnc(ops)
	}
	caseRunners["dec"] = func(hdr []string, body string) string {
		if len(hdr) != 1 {
			return "BAD-CASE"
		}
		opts, err := ParseOpts(hdr[0])
		if err != nil {
			return "BAD-CASE"
		}
		b, err := ParseBytes(body)
		if err != nil {
			return "BAD-CASE"
		}
		return RunDec(opts, b)
	}
	caseRunners["spec"] = func(hdr []string, body string) string {
		b, err := ParseBytes(body)
		if err != nil {
			return "BAD-CASE"
		}
		return RunSpecImpl(b)
	}
	caseRunners["dvb"] = func(hdr []string, body string) string {
		b, err := ParseBytes(body)
		if err != nil {
			return "BAD-CASE"
		}
		return RunDvb(b)
	}
}
