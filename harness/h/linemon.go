package h

import (
	"hash/fnv"
	"strings"

	"github.com/reactivego/ivg"
	"golang.org/x/image/math/f32"
)

// Monitors addressable by case line for the suites whose monitors take structured arguments: used by the
// violation search, the shrinker and `bin/check --replay`.

func splitCase(line string) (kind string, hdr []string, body string, ok bool) {
	parts := strings.SplitN(line, "|", 2)
	if len(parts) != 2 {
		return
	}
	h := strings.Fields(parts[0])
	if len(h) == 0 {
		return
	}
	return h[0], h[1:], parts[1], true
}

// lastResetSplit splits a history at its last Reset: (A, Reset;B).
func lastResetSplit(cs []Call) (a, b []Call, ok bool) {
	k := -1
	for i, c := range cs {
		if c.Name == "reset" {
			k = i
		}
	}
	if k < 0 {
		return nil, nil, false
	}
	return cs[:k], cs[k:], true
}

func init() {
	Monitors["C07"] = func(line string) (fails []Failure) {
		kind, _, body, ok := splitCase(line)
		if !ok || kind != "gen" {
			return nil
		}
		ops, err := ParseGenOps(body)
		if err != nil {
			return nil
		}
		fails = append(fails, monitorC07(line, ops, nil)...)
		fails = append(fails, monitorLogger(line, ops, false)...)
		fails = append(fails, monitorLogger(line, ops, true)...)
		return
	}
	Monitors["C12"] = func(line string) []Failure {
		kind, hdr, _, ok := splitCase(line)
		if !ok || kind != "fit" || len(hdr) != 9 {
			return nil
		}
		var f [8]float32
		for i := range f {
			x, err := ParseF32(hdr[i+1])
			if err != nil {
				return nil
			}
			f[i] = x
		}
		return monitorFit(line, hdr[0], ivg.ViewBox{MinX: f[0], MinY: f[1], MaxX: f[2], MaxY: f[3]}, f[4], f[5], f[6], f[7])
	}
	Monitors["C14"] = func(line string) (fails []Failure) {
		kind, hdr, body, ok := splitCase(line)
		if !ok {
			return nil
		}
		switch kind {
		case "dec":
			if len(hdr) != 1 {
				return nil
			}
			opts, err := ParseOpts(hdr[0])
			if err != nil {
				return nil
			}
			src, err := ParseBytes(body)
			if err != nil {
				return nil
			}
			// the suggested palette as the decoder delivers it without options (already sanitised)
			calls, _, _ := Decode(nil, src)
			if len(calls) == 0 {
				return nil
			}
			return monitorC14(line, opts, src, calls[0].Pal)
		case "ren":
			if rect, _, cs, ok := parseRenCase(line); ok {
				for _, f := range monitorVM(line, rect, cs) {
					fails = append(fails, Failure{"C14.seeds-registers/" + f.Clause, f.Case, f.Detail})
				}
			}
		}
		return
	}
	Monitors["C16"] = func(line string) []Failure {
		_, _, cs, ok := parseRenCase(line)
		if !ok {
			return nil
		}
		h := fnv.New64a()
		h.Write([]byte(line))
		var fails []Failure
		// the metamorphic parameters (size, offset, scale) are drawn from the case itself, several times
		r := NewRNG(h.Sum64())
		for k := 0; k < 8 && len(fails) == 0; k++ {
			fails = monitorPixels(line, cs, r)
		}
		return fails
	}
	Monitors["C17"] = func(line string) (fails []Failure) {
		kind, _, body, ok := splitCase(line)
		if !ok {
			return nil
		}
		switch kind {
		case "enc":
			ab, err := ParseCalls(body)
			if err != nil {
				return nil
			}
			_, b, ok := lastResetSplit(ab)
			if !ok {
				return nil
			}
			fAB, fB := strings.Fields(RunEnc(ab)), strings.Fields(RunEnc(b))
			if len(fAB) < len(fB) || strings.Join(fAB[len(fAB)-len(fB):], " ") != strings.Join(fB, " ") {
				fails = append(fails, Failure{"C17.encoder-reset-forgets", line, "observations (CSel/NSel/LOD/Bytes) during B after A;Reset differ from those of a fresh Encoder"})
			}
			if RunEnc(ab) != RunEnc(ab) {
				fails = append(fails, Failure{"C17.deterministic", line, "same calls, different output"})
			}
		case "ren":
			rect, _, ab, ok := parseRenCase(line)
			if !ok {
				return nil
			}
			a, b, ok := lastResetSplit(ab)
			if !ok {
				return nil
			}
			obsAB, _ := RunRen(rect, nil, ab)
			obsA, _ := RunRen(rect, nil, a)
			obsB, _ := RunRen(rect, nil, b)
			rest := strings.TrimPrefix(strings.TrimPrefix(obsAB, strings.TrimSuffix(obsA, "-")), " ; ")
			if obsA == "-" {
				rest = obsAB
			}
			if rest != obsB && !(rest == "" && obsB == "-") {
				fails = append(fails, Failure{"C17.renderer-reset-forgets", line, "rasteriser log after A;Reset;B differs from fresh Reset;B"})
			}
		}
		return
	}
	Monitors["C19"] = func(line string) (fails []Failure) {
		kind, _, body, ok := splitCase(line)
		if !ok {
			return nil
		}
		switch kind {
		case "gen":
			ops, err := ParseGenOps(body)
			if err != nil {
				return nil
			}
			for _, o := range ops {
				if o.Kind == "lin" || o.Kind == "circ" || o.Kind == "ell" || o.Kind == "grad" {
					fails = append(fails, monitorC19(line, ops, o)...)
					break
				}
			}
			fails = append(fails, monitorC07(line, ops, nil)...)
		case "ren":
			if rect, smp, cs, ok := parseRenCase(line); ok {
				for _, f := range monitorGradient(line, rect, smp, cs) {
					fails = append(fails, Failure{"C19.rendered/" + f.Clause, f.Case, f.Detail})
				}
			}
		}
		return
	}
	Monitors["C20"] = func(line string) []Failure {
		kind, hdr, body, ok := splitCase(line)
		if !ok {
			return nil
		}
		switch kind {
		case "gen":
			ops, err := ParseGenOps(body)
			if err != nil {
				return nil
			}
			return monitorPathData(line, ops, RunGen(ops))
		case "mdi":
			if f, paths, ok := parseMdiCase(hdr, body); ok {
				return monitorMdi(line, f[0], f32.Vec2{f[1], f[2]}, f[3], paths)
			}
		}
		return nil
	}
}
