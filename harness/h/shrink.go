package h

import (
	"strings"
	"time"
)

func failsWith(suite, clause, line string) bool {
	m, ok := Monitors[suite]
	if !ok {
		return false
	}
	for _, f := range m(line) {
		if f.Clause == clause {
			return true
		}
	}
	return false
}

// Shrink greedily drops `;`-separated ops (call cases) or bytes (hex cases) while the
// monitor clause still fails, for at most 20 s.
func Shrink(suite, clause, line string) string {
	if !failsWith(suite, clause, line) {
		return line
	}
	deadline := time.Now().Add(20 * time.Second)
	parts := strings.SplitN(line, "|", 2)
	if len(parts) != 2 {
		return line
	}
	hdr, body := parts[0], strings.TrimSpace(parts[1])
	if strings.Contains(body, " ") || !isHex(body) {
		ops := strings.Split(body, " ; ")
		for chunk := len(ops) / 2; chunk >= 1; chunk /= 2 {
			for i := 0; i+chunk <= len(ops) && time.Now().Before(deadline); {
				cand := append(append([]string{}, ops[:i]...), ops[i+chunk:]...)
				l := hdr + "| " + strings.Join(cand, " ; ")
				if len(cand) == 0 {
					l = hdr + "| -"
				}
				if failsWith(suite, clause, l) {
					ops = cand
				} else {
					i += chunk
				}
			}
		}
		if len(ops) == 0 {
			return hdr + "| -"
		}
		return hdr + "| " + strings.Join(ops, " ; ")
	}
	bs := body
	for chunk := len(bs) / 4 * 2; chunk >= 2; chunk = chunk / 4 * 2 {
		for i := 0; i+chunk <= len(bs) && time.Now().Before(deadline); {
			cand := bs[:i] + bs[i+chunk:]
			l := hdr + "| " + cand
			if cand == "" {
				l = hdr + "| -"
			}
			if failsWith(suite, clause, l) {
				bs = cand
			} else {
				i += chunk
			}
		}
		if chunk == 2 {
			break
		}
	}
	if bs == "" {
		bs = "-"
	}
	return hdr + "| " + bs
}

func isHex(s string) bool {
	if s == "-" {
		return true
	}
	for _, c := range s {
		if !(c >= '0' && c <= '9' || c >= 'a' && c <= 'f') {
			return false
		}
	}
	return len(s)%2 == 0
}
