package h

import "math"

// RNG is splitmix64; every random choice of a run derives from one seed.
type RNG struct{ s uint64 }

// NewRNG scrambles the seed first: consecutive seeds (the shards of one run) must not give streams that
// are shifted copies of one another, which a state of seed*increment would.
func NewRNG(seed uint64) *RNG {
	z := seed + 0x632BE59BD9B4E019
	z = (z ^ (z >> 30)) * 0xBF58476D1CE4E5B9
	z = (z ^ (z >> 27)) * 0x94D049BB133111EB
	z ^= z >> 31
	z = (z ^ (z >> 33)) * 0xFF51AFD7ED558CCD
	return &RNG{s: z ^ (z >> 29)}
}
func (r *RNG) U64() uint64 {
	r.s += 0x9E3779B97F4A7C15
	z := r.s
	z = (z ^ (z >> 30)) * 0xBF58476D1CE4E5B9
	z = (z ^ (z >> 27)) * 0x94D049BB133111EB
	return z ^ (z >> 31)
}
func (r *RNG) Intn(n int) int {
	if n <= 0 {
		return 0
	}
	return int(r.U64() % uint64(n))
}
func (r *RNG) Bool() bool        { return r.U64()&1 == 1 }
func (r *RNG) Chance(p int) bool { return r.Intn(100) < p } // p percent
func (r *RNG) Fork() *RNG        { return &RNG{s: r.U64()} }

func bits(u uint32) float32 { return math.Float32frombits(u) }

var specialF32 = []uint32{
	0x00000000, 0x80000000, 0x00000001, 0x80000001, 0x007fffff, 0x00800000, // zeros, subnormals, min normal
	0x3f800000, 0xbf800000, 0x3f000000, 0x3effffff, 0x3f000001, // ±1, 0.5 and neighbours
	0x3bffffff, 0x3c000000, 0x3c800000, 0x3c7fffff, // x*64 = 0.49999997, 1/128, 1/64
	0x42fe0000, 0x42feffff, 0x42ff0000, 0x42ffffff, 0x43000000, 0xc3000000, 0xc3000001, 0xc2ffffff, // 127.x, 128, -128
	0x427c0000, 0x42800000, 0xc2800000, 0xc2820000, 0x427fffff, // 63, 64, -64, -65
	0x467ffc00, 0x46800000, 0x467ff800, // 16383, 16384, 16382
	0x7f7fffff, 0xff7fffff, 0x7f800000, 0xff800000, 0x7fc00000, 0x7f800001, 0xffc00001, 0x7fffffff, // max, inf, NaNs
	0x4b000000, 0x4b7fffff, 0x4b800000, 0x4f000000, 0x4f800000, 0x5f000000, 0xdf000000, 0xcf000000, // 2^23, 2^24, 2^31, 2^32, 2^63
	0x3f7ffffc, 0x3f7ffffd, 0x3f7ffffe, 0x3f7fffff, 0x3ffffffe, 0x3fffffff, 0x00fffffe, 0x7f7ffffe, // mantissas ...fc-ff
	0x3c088889, 0x3c088888, 0x3d888889, // 1/120, 1/15 neighbours
}

// F32 draws a float32 from a class table crossed with random fill.
func (r *RNG) F32() float32 {
	switch r.Intn(12) {
	case 0:
		return bits(specialF32[r.Intn(len(specialF32))])
	case 1: // small integer
		return float32(r.Intn(300) - 150)
	case 2: // k/64 in and around [-128,128)
		return float32(r.Intn(17000)-8500) / 64
	case 3: // near k/64 (1-2 ulp off)
		f := float32(r.Intn(17000)-8500) / 64
		return bits(math.Float32bits(f) + uint32(r.Intn(5)) - 2)
	case 4: // k/120, k/15120 and neighbours
		var f float32
		if r.Bool() {
			f = float32(r.Intn(130)) / 120
		} else {
			f = float32(r.Intn(15200)) / 15120
		}
		return bits(math.Float32bits(f) + uint32(r.Intn(3)) - 1)
	case 5: // integer up to 2^15 (real short forms)
		return float32(r.Intn(1 << 15))
	case 6: // arbitrary bit pattern
		return bits(uint32(r.U64()))
	case 7: // moderate magnitude, random mantissa
		e := uint32(r.Intn(24) + 115)
		return bits(uint32(r.U64())&0x807fffff | e<<23)
	case 8: // mantissa ending in ..fc-ff with random exponent
		e := uint32(r.Intn(254) + 1)
		return bits(uint32(r.U64())&0x80000000 | e<<23 | 0x7ffffc | uint32(r.Intn(4)))
	case 9: // x with x*64 near .5 boundaries
		k := r.Intn(16384) - 8192
		f := (float32(k) + 0.5) / 64
		return bits(math.Float32bits(f) + uint32(r.Intn(5)) - 2)
	default: // typical icon coordinates
		return float32(r.Intn(6400)-3200) / 100
	}
}

// Coord draws a "moderate finite" coordinate (for geometry-oriented suites).
func (r *RNG) Coord() float32 {
	switch r.Intn(6) {
	case 0:
		return float32(r.Intn(129) - 64)
	case 1:
		return float32(r.Intn(8192)-4096) / 64
	case 2:
		return float32(r.Intn(2000)-1000) / 7
	default:
		return float32(r.Intn(6400)-3200) / 100
	}
}
