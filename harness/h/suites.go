package h

import (
	"bytes"
	"errors"
	"fmt"
	"github.com/reactivego/ivg/raster"
	"github.com/reactivego/ivg/raster/vec"
	"image"
	"image/color"
	"image/draw"
	"math"
	"os"
	"strconv"
	"strings"
	"sync"

	"github.com/reactivego/ivg"
	"github.com/reactivego/ivg/decode"
	"github.com/reactivego/ivg/encode"
	"github.com/reactivego/ivg/generate"
	"github.com/reactivego/ivg/mdicons"
	"github.com/reactivego/ivg/render"
	"golang.org/x/image/math/f32"
)

// ---------- shared generators for renderer-oriented suites ----------

func (r *RNG) Rect() image.Rectangle {
	switch r.Intn(6) {
	case 0:
		n := 1 + r.Intn(600)
		return image.Rect(0, 0, n, n)
	case 1:
		x, y := r.Intn(200)-100, r.Intn(200)-100
		return image.Rect(x, y, x+1+r.Intn(300), y+1+r.Intn(300))
	case 2:
		return image.Rect(0, 0, []int{1, 2, 16, 24, 32, 48, 64, 128, 256, 512}[r.Intn(10)], []int{1, 2, 16, 24, 32, 48, 64, 128, 256, 512}[r.Intn(10)])
	default:
		return image.Rect(0, 0, 1+r.Intn(128), 1+r.Intn(128))
	}
}

// PremulPalette draws a custom palette of valid premultiplied colours.
func (r *RNG) PremulPalette() [64]color.RGBA {
	var p [64]color.RGBA
	for i := range p {
		p[i] = r.Premul()
	}
	return p
}

// RegProgram draws a register-traffic heavy, protocol-respecting program for the renderer.
func (r *RNG) RegProgram(o ProgOpts, gradients bool) []Call {
	cs := []Call{{Name: "reset", VB: r.ViewBox(), Pal: r.PremulPalette()}}
	if r.Chance(50) {
		cs[0].VB = ivg.DefaultViewBox
	}
	nPaths := 1 + r.Intn(o.MaxPaths)
	for p := 0; p < nPaths; p++ {
		for k := r.Intn(8); k > 0; k-- {
			cs = append(cs, r.Styling(o))
		}
		if gradients && r.Chance(50) {
			cs = append(cs, r.GradientSetup()...)
			if r.Chance(25) {
				// several paths in a row painted from registers written BEFORE the first of them, nothing written in between:
				// CREG[CSEL] the gradient just set up, CREG[CSEL-1] another gradient descriptor (mostly one the Renderer must
				// skip: no or one stop), CREG[CSEL-2] a flat colour (round 6, C04-K: a Renderer that keeps the gradient built
				// for the previous gradient path, and whose failed build of the skipped one has already overwritten it)
				n2 := r.Intn(2)
				if r.Chance(20) {
					n2 = r.Intn(64)
				}
				g2 := ivg.EncodeGradient(uint8(r.Intn(64)), uint8(r.Intn(64)), uint8(r.Intn(2)), uint8(r.Intn(4)), uint8(n2))
				cs = append(cs, Call{Name: "creg", Adj: 1, Col: ivg.RGBAColor(g2)}, Call{Name: "creg", Adj: 2, Col: ivg.RGBAColor(r.Premul())})
				seq := [][]uint8{{0, 1, 0}, {0, 1, 1, 0}, {1, 0, 1, 0}, {0, 2, 1, 0}, {0, 1, 2, 0}}[r.Intn(5)]
				for _, adj := range seq {
					cs = append(cs, Call{Name: "start", Adj: adj, F: fl(r.Coord(), r.Coord())}, r.DrawCall(o, "L"), r.DrawCall(o, "l"), Call{Name: "Z"})
				}
			}
		}
		if r.Chance(20) {
			cs = append(cs, Call{Name: "rc"}, Call{Name: "rn"})
		}
		cs = append(cs, Call{Name: "start", Adj: uint8(r.Intn(7)), F: fl(r.Coord(), r.Coord())})
		for k := 1 + r.Intn(4); k > 0; k-- {
			verb := drawVerbs[r.Intn(len(drawVerbs))]
			if o.Arcs && r.Chance(20) {
				verb = []string{"A", "a"}[r.Intn(2)]
			}
			for n := 1 + r.Intn(3); n > 0; n-- {
				cs = append(cs, r.DrawCall(o, verb))
			}
		}
		cs = append(cs, Call{Name: "Z"})
	}
	return cs
}

// GradientSetup writes a (mostly valid) gradient into registers by hand: stops at CBASE/NBASE,
// matrix in NREG[NBASE-6..-1], gradient colour into CREG[CSEL].
func (r *RNG) GradientSetup() []Call { return r.GradientSetupOpt(true) }

// GradientSetupOpt: with lazy set, writes of zero values are sometimes omitted (relying on the number
// registers being zero after Reset).
func (r *RNG) GradientSetupOpt(lazy bool) []Call {
	cBase, nBase := uint8(r.Intn(64)), uint8(r.Intn(64))
	if r.Chance(60) {
		// a few favourite bases, so that consecutive graphics reuse the same registers
		cBase, nBase = []uint8{10, 0, 62, 33}[r.Intn(4)], []uint8{10, 3, 63, 6}[r.Intn(4)]
	}
	nStops := 2 + r.Intn(5)
	if r.Chance(10) {
		nStops = r.Intn(64)
	}
	if lazy && r.Chance(3) {
		// the stop offsets wrap around into the six matrix registers (not for the pixel metamorphoses of
		// C16, which must be able to tell matrix entries from stop offsets)
		nStops = 59 + r.Intn(5)
	}
	if !lazy && nStops > 58 {
		nStops = 58
	}
	var cs []Call
	cs = append(cs, Call{Name: "csel", U8: cBase}, Call{Name: "nsel", U8: nBase})
	matrix := func() {
		for i := 6; i >= 1; i-- {
			v := float32(r.Intn(200)-100) / 64
			if r.Chance(30) {
				v = float32(r.Intn(20)-10) / 640
			}
			if r.Chance(30) {
				v = 0
				if lazy && r.Bool() {
					continue // rely on the number registers being zero after Reset
				}
			}
			cs = append(cs, Call{Name: "nreg", Adj: uint8(i), F: fl(v)})
		}
	}
	if nStops > 58 {
		// write the matrix first: the last stops then overwrite it, and the gradient stays valid
		matrix()
	}
	// mostly valid stops: strictly increasing offsets in [0,1]; a few deliberately invalid ones
	denom := float32(maxInt(nStops-1, 1))
	lo := float32(0)
	if r.Chance(30) {
		lo = float32(r.Intn(30)) / 100
	}
	// now and then all stops have one colour (round 5, C15-I: such a gradient is NOT a flat colour — spread "none"
	// still leaves it transparent outside [0,1])
	oneColour, theColour := r.Chance(12), r.Premul()
	for i := 0; i < nStops; i++ {
		c := r.Premul()
		if r.Chance(2) {
			c = r.RGBAAny()
		}
		if oneColour {
			c = theColour
		}
		o := lo + (1-lo)*float32(i)/denom
		if nStops > 1 && i > 0 && i < nStops-1 && r.Chance(50) {
			o += (1 - lo) / denom * float32(r.Intn(40)-20) / 100
		}
		if r.Chance(2) {
			o = r.F32()
		}
		if lazy && o == 0 && i == 0 && r.Chance(40) {
			// rely on NREG being zero after Reset: only advance the selector
			cs = append(cs, Call{Name: "creg", Adj: 0, Incr: true, Col: ivg.RGBAColor(c)}, Call{Name: "nsel", U8: nBase + 1})
			continue
		}
		cs = append(cs, Call{Name: "creg", Adj: 0, Incr: true, Col: ivg.RGBAColor(c)}, Call{Name: "nreg", Adj: 0, Incr: true, F: fl(o)})
	}
	cs = append(cs, Call{Name: "nsel", U8: nBase})
	if nStops <= 58 {
		matrix()
	}
	sel := uint8(r.Intn(64))
	if r.Chance(90) {
		// keep the gradient colour itself out of the stop registers
		sel = (cBase + uint8(nStops) + uint8(r.Intn(maxInt(64-nStops, 1)))) & 0x3f
	}
	cs = append(cs, Call{Name: "csel", U8: sel})
	g := ivg.EncodeGradient(cBase, nBase, uint8(r.Intn(2)), uint8(r.Intn(4)), uint8(nStops))
	if lazy && r.Chance(12) {
		// the two reserved high bits of the red byte set (NSTOPS is its low six bits only)
		g.R |= uint8(1+r.Intn(3)) << 6
	}
	cs = append(cs, Call{Name: "creg", Adj: 0, Col: ivg.RGBAColor(g)})
	return cs
}

func (r *RNG) SamplePoints(rect image.Rectangle) []image.Point {
	var pts []image.Point
	for i := 0; i < 6; i++ {
		pts = append(pts, image.Pt(r.Intn(rect.Dx()+40)-20, r.Intn(rect.Dy()+40)-20))
	}
	return pts
}

func renSig(ops []Call, obs string) string {
	return progSig(ops) + "|" + fmt.Sprint(strings.Count(obs, " ; D ")) + fmt.Sprint(strings.Contains(obs, "G0"), strings.Contains(obs, "G1"))
}

// emitRen emits a renderer case and returns obs and the recorder.
func (s *Shard) emitRen(rect image.Rectangle, samples []image.Point, ops []Call) (string, *RecRaster) {
	obs, rec := RunRen(rect, samples, ops)
	s.Emit(RenCase(rect, samples, ops), obs)
	s.Sig("ren:" + renSig(ops, obs))
	return obs, rec
}

// ---------- C02 ----------

func checkDecodeSafety(caseLine string, src []byte) (fails []Failure) {
	orig := append([]byte(nil), src...)
	calls, err, p := Decode(nil, src)
	if p != "" {
		fails = append(fails, Failure{"C02.no-panic", caseLine, "Decode: " + p})
		return
	}
	if !bytes.Equal(orig, src) {
		fails = append(fails, Failure{"C02.input-unmodified", caseLine, "Decode modified its input"})
	}
	if err != nil {
		var de decode.DecodeError
		if !errors.As(err, &de) {
			fails = append(fails, Failure{"C02.error-type", caseLine, fmt.Sprintf("error %T is not a DecodeError", err)})
		}
	}
	if len(calls) > 0 {
		if calls[0].Name != "reset" {
			fails = append(fails, Failure{"C02.first-is-reset", caseLine, "first call is " + calls[0].Name})
		}
		for _, c := range calls[1:] {
			if c.Name == "reset" {
				fails = append(fails, Failure{"C02.single-reset", caseLine, "Reset delivered twice"})
				break
			}
		}
		if len(calls)+4 > len(src) {
			fails = append(fails, Failure{"C02.call-per-byte", caseLine, fmt.Sprintf("%d calls from %d bytes", len(calls), len(src))})
		}
		if _, verr := decode.DecodeViewBox(src); verr != nil {
			fails = append(fails, Failure{"C02.no-early-delivery", caseLine, "calls delivered although the metadata is invalid: " + verr.Error()})
		}
	}
	// other entry points
	func() {
		defer func() {
			if p := recover(); p != nil {
				fails = append(fails, Failure{"C02.no-panic", caseLine, fmt.Sprint("DecodeViewBox/Disassemble: ", p)})
			}
		}()
		_, verr := decode.DecodeViewBox(src)
		_, derr := decode.Disassemble(src)
		for _, e := range []error{verr, derr} {
			if e != nil {
				var de decode.DecodeError
				if !errors.As(e, &de) {
					fails = append(fails, Failure{"C02.error-type", caseLine, fmt.Sprintf("error %T is not a DecodeError", e)})
				}
			}
		}
		if (derr == nil) != (err == nil) || (derr != nil && derr.Error() != err.Error()) {
			fails = append(fails, Failure{"C11.same-accept", caseLine, fmt.Sprintf("Decode: %v, Disassemble: %v", err, derr)})
		}
	}()
	if !bytes.Equal(orig, src) {
		fails = append(fails, Failure{"C02.input-unmodified", caseLine, "input modified"})
	}
	// into an Encoder and into a Renderer with a recording rasteriser
	func() {
		defer func() {
			if p := recover(); p != nil {
				if _, ok := p.(WorkLimit); ok {
					fails = append(fails, Failure{"C02.raster-linear", caseLine, fmt.Sprintf("more than %d rasteriser calls for %d bytes of input (at most four per delivered call, at most one call per byte)", 4*len(src)+64, len(src))})
					return
				}
				fails = append(fails, Failure{"C02.no-panic", caseLine, fmt.Sprint("Decode into Encoder/Renderer: ", p)})
			}
		}()
		var e encode.Encoder
		decode.Decode(&e, src)
		rec := &RecRaster{Limit: 4*len(src) + 64}
		var z render.Renderer
		z.SetRasterizer(rec, image.Rect(0, 0, 32, 32))
		decode.Decode(&z, src)
		nDraw := 0
		for _, c := range calls {
			if NArgs(c.Name) > 0 || c.Name == "Z" || c.Name == "start" {
				nDraw++
			}
		}
		if rec.NSegs > 4*nDraw || rec.NCalls > 4*nDraw+4 {
			fails = append(fails, Failure{"C02.raster-linear", caseLine, fmt.Sprintf("%d rasteriser calls (%d segments) for %d drawing calls", rec.NCalls, rec.NSegs, nDraw)})
		}
	}()
	return
}

func checkPrefix(caseLine string, src []byte, k int) (fails []Failure) {
	whole, _, p1 := Decode(nil, src)
	pre, _, p2 := Decode(nil, src[:k])
	if p1 != "" || p2 != "" {
		return nil
	}
	if len(pre) > len(whole) {
		return []Failure{{"C02.prefix-monotone", caseLine, fmt.Sprintf("prefix %d delivers %d calls, whole delivers %d", k, len(pre), len(whole))}}
	}
	for i := range pre {
		if pre[i].String() != whole[i].String() {
			return []Failure{{"C02.prefix-monotone", caseLine, fmt.Sprintf("prefix %d: call %d differs: %s vs %s", k, i, pre[i], whole[i])}}
		}
	}
	return nil
}

func monitorC02(caseLine string) []Failure {
	parts := strings.SplitN(caseLine, "|", 2)
	if len(parts) != 2 {
		return nil
	}
	hdr := strings.Fields(parts[0])
	if hdr[0] == "ren" {
		if rect, _, cs, ok := parseRenCase(caseLine); ok {
			return monitorRasterWork(caseLine, rect, cs)
		}
		return nil
	}
	if hdr[0] != "dec" && hdr[0] != "dvb" && hdr[0] != "dis" {
		return nil
	}
	b, err := ParseBytes(parts[1])
	if err != nil {
		return nil
	}
	fails := checkDecodeSafety(caseLine, b)
	for k := 0; k <= len(b); k++ {
		if len(b) > 64 && k%7 != 0 && k != len(b)-1 {
			continue
		}
		fails = append(fails, checkPrefix(caseLine, b, k)...)
		if len(fails) > 3 {
			break
		}
	}
	return fails
}

func (r *RNG) AnyBytes(corpus [][]byte) []byte {
	switch r.Intn(10) {
	case 0:
		return RandomBytes(r, r.Intn(40))
	case 1:
		return cat([]byte{0x89, 'I', 'V', 'G'}, RandomBytes(r, r.Intn(40)))
	case 2, 3, 4:
		return r.Stream(15)
	case 5:
		return r.Mutate(r.Stream(15), r.Stream(10))
	case 6: // adversarial counts / lengths
		return cat([]byte{0x89, 'I', 'V', 'G'}, AsmNat(uint32(r.U64())&0x3fffffff, 4), r.MetadataBytes())
	default:
		if len(corpus) == 0 {
			return r.Stream(10)
		}
		c := corpus[r.Intn(len(corpus))]
		switch r.Intn(3) {
		case 0:
			return c[:r.Intn(len(c)+1)]
		case 1:
			return r.Mutate(c, corpus[r.Intn(len(corpus))])
		default:
			return c
		}
	}
}

func suiteC02(s *Shard, n int) {
	_, corpus := Corpus(s.Repo)
	for i := 0; i < n; i++ {
		src := s.R.AnyBytes(corpus)
		if i%8 == 7 {
			// a structured graphic with hand-made gradients at arbitrary register bases
			if b, err := EncodeCalls(s.R.RegProgram(ProgOpts{MaxPaths: 3, Arcs: true}, true), s.R.Bool()); err == nil {
				src = b
				if s.R.Chance(30) {
					src = s.R.Mutate(src, nil)
				}
			}
		}
		if i%6 == 5 {
			// metadata only, mostly valid: what is accepted here must be accepted by the specification parser
			src = cat([]byte{0x89, 'I', 'V', 'G'}, s.R.MetadataBytes())
			s.EmitRun(SpecCase(src))
		}
		line := DecCase(nil, src)
		obs := s.EmitRun(line)
		s.Sig("dec:" + obsSig(obs))
		if i%3 == 0 {
			s.EmitRun(DvbCase(src))
		}
		if i%3 == 1 {
			s.EmitRun(DisCase(src))
		}
		// the Renderer behind the decoder: drive a Renderer model with the delivered calls
		if i%4 == 0 {
			if calls, _, p := Decode(nil, src); p == "" && len(calls) > 0 && len(calls) < 400 {
				rect := image.Rect(0, 0, 1+s.R.Intn(64), 1+s.R.Intn(64))
				obsR, _ := s.emitRen(rect, nil, calls)
				// Decode straight into a Renderer must behave the same
				rec := &RecRaster{}
				func() {
					defer func() { recover() }()
					var z render.Renderer
					z.SetRasterizer(rec, rect)
					decode.Decode(&z, src)
				}()
				got := "-"
				if len(rec.Log) > 0 {
					got = strings.Join(rec.Log, " ; ")
				}
				if got != obsR {
					s.Fail("C02.renderer-behind-decoder", line, "Decode into Renderer differs from Renderer driven by the delivered calls")
				}
				for _, f := range monitorRasterWork(line, rect, calls) {
					s.Fail(f.Clause, f.Case, f.Detail)
				}
			}
		}
		if i%16 == 3 {
			// arcs whose radii are far beyond the raster (4-byte operands: any finite float32): still at most four curve
			// segments each, whatever the radius is in pixels (round 6, C02-K: a subdivision count scaled by the radius)
			r := s.R
			cs := []Call{{Name: "reset", VB: ivg.DefaultViewBox, Pal: ivg.DefaultPalette}, {Name: "start", F: fl(r.Coord(), r.Coord())}}
			for k := 1 + r.Intn(4); k > 0; k-- {
				rx := float32(math.Ldexp(1+float64(r.Intn(8))/8, 6+r.Intn(60)))
				ry := rx
				if r.Bool() {
					ry = float32(math.Ldexp(1+float64(r.Intn(8))/8, 6+r.Intn(60)))
				}
				cs = append(cs, Call{Name: []string{"A", "a"}[r.Intn(2)], F: fl(rx, ry, float32(r.Intn(16))/16, 1+float32(r.Intn(40)), 1+float32(r.Intn(40))), La: r.Bool(), Sw: r.Bool()})
			}
			cs = append(cs, Call{Name: "Z"})
			if b, err := EncodeCalls(cs, true); err == nil {
				l2 := DecCase(nil, b)
				s.EmitRun(l2)
				if calls, _, p := Decode(nil, b); p == "" {
					rect := image.Rect(0, 0, 1+r.Intn(256), 1+r.Intn(256))
					fs := monitorRasterWork(RenCase(rect, nil, calls), rect, calls)
					for _, f := range fs {
						s.Fail(f.Clause, f.Case, f.Detail)
					}
					if len(fs) == 0 {
						s.emitRen(rect, nil, calls)
					}
				}
			}
		}
		for _, f := range checkDecodeSafety(line, src) {
			s.Fail(f.Clause, f.Case, f.Detail)
		}
		if len(src) > 0 {
			for _, f := range checkPrefix(line, src, s.R.Intn(len(src)+1)) {
				s.Fail(f.Clause, f.Case, f.Detail)
			}
		}
	}
}

// monitorRasterWork: C02 — every Destination call makes at most four calls on the rasteriser (an arc: at most four
// curve segments), so that the work behind the decoder is linear in the number of delivered calls.
func monitorRasterWork(line string, rect image.Rectangle, cs []Call) (fails []Failure) {
	rec := &RecRaster{}
	var z render.Renderer
	z.SetRasterizer(rec, rect)
	defer func() {
		if p := recover(); p != nil {
			fails = append(fails, Failure{"C02.no-panic", line, fmt.Sprint(p)})
		}
	}()
	for i, c := range cs {
		if !c.IsDest() {
			continue
		}
		before := len(rec.Log)
		rec.Limit = before + 64
		over := func() (over bool) {
			defer func() {
				if p := recover(); p != nil {
					if _, ok := p.(WorkLimit); !ok {
						panic(p)
					}
					over = true
				}
			}()
			c.Apply(&z)
			return false
		}()
		if d := len(rec.Log) - before; d > 4 || over {
			n := fmt.Sprint(d)
			if over {
				n = "more than 64"
			}
			return append(fails, Failure{"C02.rasteriser-work-bounded", line, fmt.Sprintf("call %d (%s) made %s calls on the rasteriser, at most 4 per Destination call", i, c.String(), n)})
		}
	}
	return
}

// obsSig: error kind + set of delivered call names
func obsSig(obs string) string {
	i := strings.LastIndex(obs, " # ")
	if i < 0 {
		return obs
	}
	seen := map[string]bool{}
	for _, c := range strings.Split(obs[:i], " ; ") {
		f := strings.Fields(c)
		if len(f) > 0 {
			seen[f[0]] = true
		}
	}
	var ks []string
	for k := range seen {
		ks = append(ks, k)
	}
	sortStrings(ks)
	return obs[i+3:] + ":" + strings.Join(ks, ",")
}

// ---------- C03 ----------

func suiteC03(s *Shard, n int) {
	_, corpus := Corpus(s.Repo)
	r := s.R
	// exhaustive part (shard 0 only): every opcode byte in each mode with operands of every width
	if s.Index == 0 {
		pre := []byte{0x89, 'I', 'V', 'G', 0x00}
		for mode := 0; mode < 2; mode++ {
			for op := 0; op < 256; op++ {
				for w := 0; w < 4; w++ {
					src := append([]byte(nil), pre...)
					if mode == 1 {
						src = append(src, 0xc0, 0x80, 0x80)
					}
					src = append(src, byte(op))
					// operands: plenty of numbers of one width (or colour bytes)
					for k := 0; k < 200; k++ {
						switch w {
						case 0:
							src = append(src, byte(r.Intn(128))<<1)
						case 1:
							src = append(src, AsmNat(uint32(r.Intn(1<<14)), 2)...)
						case 2:
							src = append(src, AsmNat(uint32(r.U64())&0x3fffffff, 4)...)
						default:
							src = append(src, r.NumBytes()...)
						}
					}
					// cut so that the instruction is followed by a clean end in most cases
					obs := s.EmitRun(DecCase(nil, src))
					s.EmitRun(SpecCase(src))
					s.Sig("op:" + fmt.Sprint(mode, op, w) + obsSig(obs))
					s.Count("exhaustive-opcode")
				}
			}
		}
	}
	for i := 0; i < n; i++ {
		var src []byte
		switch r.Intn(4) {
		case 0, 1:
			src = r.Stream(20)
		case 2:
			src = r.Mutate(r.Stream(20), r.Stream(5))
		default:
			if len(corpus) > 0 {
				src = r.Mutate(corpus[r.Intn(len(corpus))], nil)
			}
		}
		line := DecCase(nil, src)
		obs := s.EmitRun(line)
		s.EmitRun(SpecCase(src))
		s.Sig("dec:" + obsSig(obs))
		s.Count("stream")
		// the verdict does not depend on who listens: Decode with a nil Destination (validation only — the decoder guards
		// every delivery with `dst != nil`) accepts and rejects exactly what it accepts and rejects with a Destination
		// (round 5, C03-J: with nobody listening the instruction stream was no longer read at all)
		_, errRec, p1 := Decode(nil, src)
		errNil, p2 := func() (e error, pn string) {
			defer func() {
				if p := recover(); p != nil {
					pn = fmt.Sprint(p)
				}
			}()
			return decode.Decode(nil, src), ""
		}()
		if p1 != "" || p2 != "" {
			s.Fail("C02.no-panic", line, p1+p2)
		} else if ErrStr(errRec) != ErrStr(errNil) {
			s.Fail("C03.verdict-independent-of-destination", line, fmt.Sprintf("with a recording Destination: %q, with a nil Destination: %q", ErrStr(errRec), ErrStr(errNil)))
		}
	}
}

// ---------- C08 / C09 (encoder number and colour paths) ----------

func suiteC08(s *Shard, n int) {
	r := s.R
	if s.Tier == "thorough" {
		exhaustiveNumbers(s, s.NShards)
	}
	for i := 0; i < n; i++ {
		switch r.Intn(4) {
		case 0, 1: // numbers through every public path
			var cs []Call
			if r.Bool() {
				cs = append(cs, Call{Name: "hires", B: true})
			}
			cs = append(cs, Call{Name: "lod", F: fl(r.F32(), r.F32())},
				Call{Name: "nreg", Adj: uint8(r.Intn(7)), F: fl(r.F32())},
				Call{Name: "nreg", Incr: true, F: fl(r.F32())},
				Call{Name: "start", Adj: 0, F: fl(r.F32(), r.F32())},
				Call{Name: "L", F: fl(r.F32(), r.F32())},
				Call{Name: "A", F: fl(r.F32(), r.F32(), r.F32(), r.F32(), r.F32()), La: r.Bool(), Sw: r.Bool()},
				Call{Name: "c", F: fl(r.F32(), r.F32(), r.F32(), r.F32(), r.F32(), r.F32())},
				Call{Name: "Z"})
			if r.Chance(25) {
				// the exported resolution flag changes while the path is open: the path keeps the resolution
				// it was started with
				k := len(cs) - 1 - r.Intn(4)
				cs = append(append(append([]Call{}, cs[:k]...), Call{Name: "hires", B: r.Bool()}), cs[k:]...)
			}
			if r.Chance(30) {
				vb := ivg.ViewBox{MinX: r.F32(), MinY: r.F32(), MaxX: r.F32(), MaxY: r.F32()}
				if r.Chance(30) {
					// zeros of either sign, also all four (Min = Max is a valid, empty viewBox)
					z := func() float32 { return []float32{0, bits(0x80000000), 0, 1}[r.Intn(4)] }
					vb = ivg.ViewBox{MinX: -z(), MinY: -z(), MaxX: z(), MaxY: z()}
					if r.Bool() {
						vb = ivg.ViewBox{MinX: z() - 1 + 1, MinY: bits(0x80000000), MaxX: 0, MaxY: 0}
					}
				}
				cs = append([]Call{{Name: "reset", VB: vb, Pal: ivg.DefaultPalette}}, cs...)
			}
			line := EncCase(cs)
			obs := s.EmitRun(line)
			s.Sig("enc:" + fmt.Sprint(len(obs)))
			if cs[0].Name == "reset" && WellFormedClosed(destCalls(cs)) {
				// the viewBox numbers are read the same through every decoding entry point: with options, without, metadata only
				// (round 5, C08-J: Decode with options took an all-zero viewBox for "unset")
				var e encode.Encoder
				for _, c := range cs {
					if c.IsDest() {
						c.Apply(&e)
					}
				}
				if b, err := e.Bytes(); err == nil {
					b = append([]byte(nil), b...)
					c1, e1, _ := Decode(nil, b)
					c2, e2, _ := Decode([]DecOpt{{Index: 3, Col: color.RGBA{1, 2, 3, 255}}}, b)
					vb3, e3 := decode.DecodeViewBox(b)
					if e1 == nil && e2 == nil && e3 == nil && len(c1) > 0 && len(c2) > 0 {
						bitsOf := func(v ivg.ViewBox) [4]uint32 {
							return [4]uint32{math.Float32bits(v.MinX), math.Float32bits(v.MinY), math.Float32bits(v.MaxX), math.Float32bits(v.MaxY)}
						}
						if bitsOf(c1[0].VB) != bitsOf(c2[0].VB) || bitsOf(c1[0].VB) != bitsOf(vb3) {
							s.Fail("C08.viewbox-same-by-every-entry", line, fmt.Sprintf("viewBox decoded as %v by Decode, %v by Decode with an option, %v by DecodeViewBox", c1[0].VB, c2[0].VB, vb3))
						}
					} else if (e1 == nil) != (e2 == nil) || (e1 == nil) != (e3 == nil) {
						s.Fail("C08.viewbox-same-by-every-entry", line, fmt.Sprintf("Decode: %v, with an option: %v, DecodeViewBox: %v", e1, e2, e3))
					}
				}
			}
			for _, f := range monitorRoundTrip(line, cs) {
				s.Fail(strings.Replace(f.Clause, "C01", "C08", 1), f.Case, f.Detail)
			}
			for _, f := range monitorNumbers(line, cs) {
				s.Fail(f.Clause, f.Case, f.Detail)
			}
		default: // every decoder form
			pre := []byte{0x89, 'I', 'V', 'G', 0x00}
			var body []byte
			for k := 0; k < 6; k++ {
				op := byte(0xa8 + 8*r.Intn(3))
				body = append(body, op)
				switch r.Intn(3) {
				case 0:
					body = append(body, byte(r.Intn(128))<<1)
				case 1:
					body = append(body, AsmNat(uint32(r.Intn(1<<14)), 2)...)
				default:
					body = append(body, AsmNat(uint32(r.U64())&0x3fffffff, 4)...)
				}
			}
			if r.Chance(30) && len(body) > 0 {
				body = body[:len(body)-1-r.Intn(3)%len(body)]
			}
			src := cat(pre, body)
			line := DecCase(nil, src)
			obs := s.EmitRun(line)
			s.Sig("dec:" + obsSig(obs))
			for _, f := range monitorConverse(line, src) {
				s.Fail(strings.Replace(f.Clause, "C01", "C08", 1), f.Case, f.Detail)
			}
		}
	}
}

// monitorNumbers: C08 clauses that go beyond the C01 tolerance: shortest form, nearest 1/64.
func monitorNumbers(caseLine string, cs []Call) (fails []Failure) {
	dest := destCalls(cs)
	if !WellFormedClosed(dest) {
		return nil
	}
	// shortest form / losslessness via single-instruction streams
	for _, c := range dest {
		switch c.Name {
		case "lod":
			var e encode.Encoder
			e.SetLOD(c.F[0], c.F[1])
			b, _ := e.Bytes()
			want := 5 + 1 + realLen(c.F[0]) + realLen(c.F[1])
			if len(b) != want {
				fails = append(fails, Failure{"C08.shortest-real", caseLine, fmt.Sprintf("SetLOD(%s,%s) encoded in %d bytes, shortest exact form needs %d", HexF32(c.F[0]), HexF32(c.F[1]), len(b), want)})
			}
		case "L":
			for _, hi := range []bool{false, true} {
				var e encode.Encoder
				e.HighResolutionCoordinates = hi
				e.StartPath(0, 0, 0)
				e.AbsLineTo(c.F[0], c.F[1])
				e.ClosePathEndPath()
				b, _ := e.Bytes()
				q0, q1 := c.F[0], c.F[1]
				if !hi {
					q0, q1 = nearest64(q0), nearest64(q1)
				}
				want := 5 + 3 + 1 + coordLen(q0) + coordLen(q1) + 1
				if len(b) != want {
					fails = append(fails, Failure{"C08.shortest-coordinate", caseLine, fmt.Sprintf("hires=%v L %s %s encoded in %d bytes, expected %d", hi, HexF32(c.F[0]), HexF32(c.F[1]), len(b), want)})
				}
			}
		}
	}
	return
}

func realLen(f float32) int {
	if ShortReal(f) {
		if f < 128 {
			return 1
		}
		return 2
	}
	return 4
}

func coordLen(f float32) int {
	if ShortCoord(f) {
		if f == float32(int32(f)) && -64 <= f && f < 64 {
			return 1
		}
		return 2
	}
	return 4
}

// nearest64: the nearest multiple of 1/64 (ties up) for values in [-128,128), else unchanged
func nearest64(f float32) float32 {
	if -128 <= f && f < 128 {
		x := float64(f)*64 + 0.5
		k := float64(int64(x))
		if k > x {
			k--
		}
		return float32(k / 64)
	}
	return f
}

func suiteC09(s *Shard, n int) {
	r := s.R
	if s.Tier == "thorough" {
		exhaustiveColours(s, s.NShards)
		exhaustiveBlends(s, s.NShards)
	}
	if s.Index == 0 {
		// all 256 one-byte colours and a stride through the two-byte colours, through the decoder
		for x := 0; x < 256; x++ {
			s.EmitRun(DecCase(nil, []byte{0x89, 'I', 'V', 'G', 0x00, 0x80, byte(x)}))
			s.EmitRun(DecCase(nil, []byte{0x89, 'I', 'V', 'G', 0x00, 0xa0, byte(r.Intn(256)), byte(x), byte(255 - x)}))
			s.Count("one-byte")
		}
		for x := 0; x < 65536; x += 7 {
			s.EmitRun(DecCase(nil, []byte{0x89, 'I', 'V', 'G', 0x00, 0x88, byte(x >> 8), byte(x)}))
			s.Count("two-byte")
		}
	}
	for i := 0; i < n; i++ {
		switch r.Intn(4) {
		case 3: // suggested palettes in the 1-byte format whose entries are INDIRECT 1-byte colours (round 4, C09-H: resolved
			// against the palette decoded so far instead of opaque black); the library's own encoder never writes these
			ne := 2 + r.Intn(7)
			body := []byte{0x02, byte(ne - 1)}
			want := ivg.DefaultPalette
			lv := []uint8{0x00, 0x40, 0x80, 0xc0, 0xff}
			for k := 0; k < ne; k++ {
				x := uint8(r.Intn(125))
				switch r.Intn(5) {
				case 0:
					x = 125 + uint8(r.Intn(3))
				case 1:
					x = 0x80 | uint8(r.Intn(ne)) // a palette index: earlier, self or later
				case 2:
					x = 0xc0 | uint8(r.Intn(ne)) // a register index
				}
				body = append(body, x)
				switch {
				case x < 125:
					want[k] = color.RGBA{lv[x/25], lv[x/5%5], lv[x%5], 0xff}
				case x == 125:
					want[k] = color.RGBA{0xc0, 0xc0, 0xc0, 0xc0}
				case x == 126:
					want[k] = color.RGBA{0x80, 0x80, 0x80, 0x80}
				case x == 127:
					want[k] = color.RGBA{}
				default:
					want[k] = color.RGBA{0, 0, 0, 0xff} // the specification: indirect colours in a suggested palette are opaque black
				}
			}
			src := cat([]byte{0x89, 'I', 'V', 'G', 0x02, byte(len(body) << 1)}, body)
			line := DecCase(nil, src)
			s.EmitRun(line)
			s.EmitRun(SpecCase(src))
			s.Sig("pal1-indirect")
			calls, err, pnc := Decode(nil, src)
			if pnc != "" || err != nil || len(calls) == 0 {
				s.Fail("C09.palette-one-byte-table", line, fmt.Sprint("a well-formed 1-byte palette is not decoded: ", err, pnc))
			} else if calls[0].Pal != want {
				for k := 0; k < ne; k++ {
					if calls[0].Pal[k] != want[k] {
						s.Fail("C09.palette-one-byte-table", line, fmt.Sprintf("suggested palette entry %d (byte %#02x) decodes to %v, the tables say %v", k, body[2+k], calls[0].Pal[k], want[k]))
						break
					}
				}
			}
		case 0: // register assignments of every colour kind
			var cs []Call
			pal := r.Palette()
			usePal := r.Chance(40)
			if usePal {
				// under a custom suggested palette, with colours that also occur IN that palette (round 4, C09-G: such a colour
				// written as a reference to the palette entry)
				cs = append(cs, Call{Name: "reset", VB: ivg.DefaultViewBox, Pal: pal})
			}
			for k := 0; k < 8; k++ {
				col := r.Color()
				if usePal && r.Chance(40) {
					col = ivg.RGBAColor(pal[r.Intn(1+r.Intn(64))])
				}
				cs = append(cs, Call{Name: "creg", Adj: uint8(r.Intn(7)), Col: col})
			}
			line := EncCase(cs)
			s.EmitRun(line)
			s.Sig("creg")
			for _, f := range monitorRoundTrip(line, cs) {
				s.Fail(strings.Replace(f.Clause, "C01", "C09", 1), f.Case, f.Detail)
			}
		case 1: // suggested palettes
			cs := []Call{{Name: "reset", VB: ivg.DefaultViewBox, Pal: r.Palette()}}
			if r.Chance(40) {
				// one Encoder, several graphics: the same palette again under another viewBox, another palette, the first again
				// (round 5, C09-J: the encoded palette chunk of the previous graphic kept by reference and overwritten while the
				// next viewBox chunk was built)
				pals := [][64]color.RGBA{cs[0].Pal, r.Palette()}
				for k := 1 + r.Intn(3); k > 0; k-- {
					vb := ivg.DefaultViewBox
					if r.Chance(70) {
						vb = ivg.ViewBox{MinX: float32(r.Intn(64) - 64), MinY: float32(r.Intn(64) - 64), MaxX: float32(r.Intn(64)), MaxY: float32(1 + r.Intn(64))}
					}
					cs = append(cs, Call{Name: "reset", VB: vb, Pal: pals[r.Intn(4)/3]})
				}
			}
			line := EncCase(cs)
			obs := s.EmitRun(line)
			s.Sig("pal:" + fmt.Sprint(len(obs)))
			for _, f := range monitorRoundTrip(line, cs) {
				s.Fail(strings.Replace(f.Clause, "C01", "C09", 1), f.Case, f.Detail)
			}
		default: // blends resolved by the renderer
			pal := r.PremulPalette()
			cs := []Call{{Name: "reset", VB: ivg.DefaultViewBox, Pal: pal}}
			for k := 0; k < 6; k++ {
				cs = append(cs, Call{Name: "csel", U8: uint8(r.Intn(64))}, Call{Name: "creg", Adj: uint8(r.Intn(7)), Col: r.Color()})
				if r.Bool() {
					cs = append(cs, Call{Name: "start", Adj: uint8(r.Intn(7)), F: fl(0, 0)}, Call{Name: "L", F: fl(10, 10)}, Call{Name: "Z"})
				}
			}
			s.emitRen(image.Rect(0, 0, 16, 16), nil, cs)
			for _, f := range monitorBlend(RenCase(image.Rect(0, 0, 16, 16), nil, cs), cs) {
				s.Fail(f.Clause, f.Case, f.Detail)
			}
		}
	}
}

// monitorBlend: Color.Resolve of a blend equals the formula on the resolved operands.
func monitorBlend(caseLine string, cs []Call) (fails []Failure) {
	var pal, creg [64]color.RGBA
	for _, c := range cs {
		if c.Name == "reset" {
			pal, creg = c.Pal, c.Pal
		}
	}
	for _, c := range cs {
		if c.Name != "creg" {
			continue
		}
		typ, d := ColorParts(c.Col)
		if typ != 3 {
			continue
		}
		got := c.Col.Resolve(&pal, &creg)
		c0 := ivg.DecodeColor1(d.G).Resolve(&pal, &creg)
		c1 := ivg.DecodeColor1(d.B).Resolve(&pal, &creg)
		t := uint32(d.R)
		ch := func(a, b uint8) uint8 { return uint8(((255-t)*uint32(a) + t*uint32(b) + 128) / 255) }
		want := color.RGBA{ch(c0.R, c1.R), ch(c0.G, c1.G), ch(c0.B, c1.B), ch(c0.A, c1.A)}
		if got != want {
			fails = append(fails, Failure{"C09.blend-formula", caseLine, fmt.Sprintf("blend %v: got %v want %v", d, got, want)})
		}
		if ivg.ValidAlphaPremulColor(c0) && ivg.ValidAlphaPremulColor(c1) && !ivg.ValidAlphaPremulColor(got) {
			fails = append(fails, Failure{"C09.blend-premul", caseLine, fmt.Sprintf("blend of premultiplied %v,%v gives %v", c0, c1, got)})
		}
		if d.R == 0 && got != c0 || d.R == 255 && got != c1 {
			fails = append(fails, Failure{"C09.blend-ends", caseLine, "t=0/255 does not give the operand"})
		}
		// "over all palette/register contents": registers holding gradient-encoding values and other colours with alpha 0
		// (round 5, C09-I: a blend whose operands both have alpha 0 short-cut to transparent black), operands that refer to
		// them, every t incl. the ends
		regs := creg
		h := uint32(d.R)*2654435761 + uint32(d.G)*40503 + uint32(d.B)
		for k := 0; k < 64; k += 1 + int(h%3) {
			h = h*1664525 + 1013904223
			regs[k] = color.RGBA{uint8(h >> 24), uint8(h>>16) | 0x80, uint8(h>>8) | 0x80, 0}
		}
		for _, tt := range []uint8{d.R, 0, 255, 128} {
			for _, ops := range [][2]uint8{{0xc0 | d.G&0x3f, 0xc0 | d.B&0x3f}, {0xc0 | d.G&0x3f, 127}, {127, 0xc0 | d.B&0x3f}} {
				bc := ivg.BlendColor(tt, ops[0], ops[1])
				g2 := bc.Resolve(&pal, &regs)
				a0 := ivg.DecodeColor1(ops[0]).Resolve(&pal, &regs)
				a1 := ivg.DecodeColor1(ops[1]).Resolve(&pal, &regs)
				t2 := uint32(tt)
				ch2 := func(a, b uint8) uint8 { return uint8(((255-t2)*uint32(a) + t2*uint32(b) + 128) / 255) }
				if w2 := (color.RGBA{ch2(a0.R, a1.R), ch2(a0.G, a1.G), ch2(a0.B, a1.B), ch2(a0.A, a1.A)}); g2 != w2 {
					return append(fails, Failure{"C09.blend-formula", caseLine, fmt.Sprintf("blend t=%d of operands %#02x,%#02x resolving to %v,%v (registers holding alpha-0 values): got %v want %v", tt, ops[0], ops[1], a0, a1, g2, w2)})
				}
			}
		}
	}
	return
}

// ---------- C10 ----------

func monitorC10(caseLine string) (fails []Failure) {
	parts := strings.SplitN(caseLine, "|", 2)
	if len(parts) != 2 || !strings.HasPrefix(strings.TrimSpace(parts[0]), "enc") {
		return nil
	}
	ops, err := ParseCalls(parts[1])
	if err != nil {
		return nil
	}
	var e encode.Encoder
	st := PFresh
	var firstErr string
	for i, op := range ops {
		st = PStep(st, op)
		switch op.Name {
		case "rc":
			e.CSel()
		case "rn":
			e.NSel()
		case "rlod":
			e.LOD()
		case "bytes":
		case "hires":
			e.HighResolutionCoordinates = op.B
		default:
			func() {
				defer func() {
					if p := recover(); p != nil {
						fails = append(fails, Failure{"C10.no-panic", caseLine, fmt.Sprint(p)})
					}
				}()
				op.Apply(&e)
			}()
		}
		if op.Name == "reset" {
			firstErr = ""
		}
		_, berr := e.Bytes()
		if (berr != nil) != (st == PFailed) {
			return append(fails, Failure{"C10.error-iff-violation", caseLine, fmt.Sprintf("after op %d (%s): Bytes error=%v, protocol violated=%v", i, op.Name, berr, st == PFailed)})
		}
		if berr != nil {
			if firstErr == "" {
				firstErr = berr.Error()
			} else if berr.Error() != firstErr {
				return append(fails, Failure{"C10.first-error-kept", caseLine, fmt.Sprintf("error changed from %q to %q", firstErr, berr.Error())})
			}
		}
	}
	// the same history with Bytes called only where the history says so (asking for the bytes after every
	// operation, as above, also initialises a zero-value Encoder early): the verdict at the end
	var e2 encode.Encoder
	st = PFresh
	for _, op := range ops {
		st = PStep(st, op)
		switch op.Name {
		case "rc":
			e2.CSel()
		case "rn":
			e2.NSel()
		case "rlod":
			e2.LOD()
		case "bytes":
			e2.Bytes()
		case "hires":
			e2.HighResolutionCoordinates = op.B
		default:
			func() {
				defer func() { recover() }()
				op.Apply(&e2)
			}()
		}
	}
	if _, berr := e2.Bytes(); (berr != nil) != (st == PFailed) {
		fails = append(fails, Failure{"C10.error-iff-violation", caseLine, fmt.Sprintf("at the end of the history: Bytes error=%v, protocol violated=%v", berr, st == PFailed)})
	}
	return
}

func suiteC10(s *Shard, n int) {
	r := s.R
	for i := 0; i < n; i++ {
		o := ProgOpts{Wild: r.Chance(20), Arcs: true, Reset: 2, MaxPaths: 3, MaxRun: 5, Histories: true, Malformed: 8, OpenEnd: 10}
		if r.Chance(30) {
			o.Malformed = 0
		}
		if r.Chance(8) {
			o.MaxRun, o.Malformed = 0, 0 // long runs of one verb, up to several hundred
		}
		ops := r.Program(o)
		if r.Chance(25) {
			// an earlier history (possibly erroneous or left mid-path with a pending run), then Reset and a program
			a := r.Program(ProgOpts{Wild: r.Chance(20), Arcs: true, Reset: 2, MaxPaths: 2, MaxRun: 4, Histories: true, Malformed: 5, OpenEnd: 70})
			b := r.Program(ProgOpts{Arcs: true, Reset: 1, MaxPaths: 2, MaxRun: 5, Histories: r.Bool()})
			ops = append(a, b...)
		}
		if r.Chance(10) {
			// the zero value: a first call of any kind, then reads in any order, before anything else
			var head []Call
			switch r.Intn(4) {
			case 0:
				head = append(head, r.DrawCall(o, drawVerbs[r.Intn(len(drawVerbs))]))
			case 1:
				head = append(head, Call{Name: "Z"})
			case 2:
				head = append(head, Call{Name: "creg", Adj: uint8(7 + r.Intn(3)), Col: r.Color()})
			default:
				head = append(head, Call{Name: "hires", B: r.Bool()})
			}
			for k := 1 + r.Intn(3); k > 0; k-- {
				head = append(head, Call{Name: []string{"rc", "rn", "rlod", "bytes"}[r.Intn(4)]})
			}
			o2 := o
			o2.Reset = 0
			ops = append(head, r.Program(o2)...)
		}
		if r.Chance(6) {
			// an Encoder used from its zero value (the default metadata is implied), then Reset to metadata that equals the
			// zero value of the struct — an all-zero viewBox and an all-transparent palette — or to the default metadata, or
			// twice to the same (round 5, C10-I: Reset kept the header already in the buffer when the metadata "had not
			// changed", but the implied default metadata was never recorded)
			metas := []Call{{Name: "reset"}, {Name: "reset", VB: ivg.DefaultViewBox, Pal: ivg.DefaultPalette}, {Name: "reset", VB: ivg.ViewBox{MinX: -1, MinY: -1, MaxX: 1, MaxY: 1}, Pal: r.Palette()}}
			head := []Call{{Name: []string{"csel", "rc", "bytes", "lod"}[r.Intn(4)], U8: 3, F: fl(1, 2)}}
			for k := 1 + r.Intn(3); k > 0; k-- {
				m := metas[r.Intn(3)]
				head = append(head, m)
				if r.Bool() {
					head = append(head, m)
				}
				if r.Bool() {
					head = append(head, Call{Name: "bytes"})
				}
			}
			o2 := o
			o2.Reset, o2.Malformed = 0, 0
			ops = append(head, r.Program(o2)...)
		}
		line := EncCase(ops)
		obs := s.EmitRun(line)
		s.Sig("h:" + progSig(ops) + fmt.Sprint(strings.Contains(obs, "E=")))
		for _, f := range monitorC10(line) {
			s.Fail(f.Clause, f.Case, f.Detail)
		}
		for _, f := range monitorRoundTrip(line, ops) {
			s.Fail(strings.Replace(f.Clause, "C01", "C10", 1), f.Case, f.Detail)
		}
	}
}

// ---------- C11 ----------

func suiteC11(s *Shard, n int) {
	_, corpus := Corpus(s.Repo)
	r := s.R
	for i := 0; i < n; i++ {
		var src []byte
		switch r.Intn(5) {
		case 4:
			// metadata sections of every kind (all four palette formats, any colour bytes), alone or followed by a body
			src = cat([]byte{0x89, 'I', 'V', 'G'}, r.MetadataBytes())
			if r.Bool() {
				if b, err := EncodeCalls(r.RegProgram(ProgOpts{MaxPaths: 2}, false)[1:], r.Bool()); err == nil && len(b) > 5 && b[4] == 0 {
					src = append(src, b[5:]...) // the body of a graphic encoded with no metadata chunks
				}
			}
		case 0:
			src = r.AnyBytes(corpus)
		case 1:
			if len(corpus) > 0 {
				src = corpus[r.Intn(len(corpus))]
				break
			}
			fallthrough
		default:
			src = r.Stream(15)
		}
		line := DisCase(src)
		obs := s.EmitRun(line)
		s.Sig("dis:" + fmt.Sprint(strings.Count(obs, " // ")/4, strings.HasSuffix(obs, "ok")))
		s.EmitRun(DecCase(nil, src))
		for _, f := range monitorC11(line) {
			s.Fail(f.Clause, f.Case, f.Detail)
		}
		if i%40 == 0 {
			for _, f := range monitorC11Large(r, s.Index == 0 && i == 0) {
				s.Fail(f.Clause, f.Case, f.Detail)
			}
		}
	}
}

// monitorC11Large: listings of LARGE graphics, and listings handed out EARLIER (round 5 — C11-I: Disassemble alone refused
// inputs above 1 MiB; C11-J: listings above 1 MiB were handed out of a pooled buffer and overwritten by the next call).
// A graphic of `ops` line segments in paths of 1000 is listed (about 37 listing bytes per input byte); the listing must
// be accepted as Decode accepts, reproduce the input in its hex column, have one instruction line per call — and still
// do so after other graphics were listed.
func monitorC11Large(r *RNG, huge bool) (fails []Failure) {
	ops := 20000 + r.Intn(20000) // 40..80 KiB of input, a listing of 1.5..3 MiB
	if huge {
		ops = 560000 + r.Intn(20000) // above 1 MiB of input
	}
	build := func(n int, col color.RGBA) []byte {
		var e encode.Encoder
		e.Reset(ivg.DefaultViewBox, ivg.DefaultPalette)
		e.SetCReg(0, false, ivg.RGBAColor(col))
		for n > 0 {
			e.StartPath(0, float32(r.Intn(32)-16), float32(r.Intn(32)-16))
			for k := 0; k < 1000 && n > 0; k, n = k+1, n-1 {
				e.AbsLineTo(float32(r.Intn(64)-32), float32(r.Intn(64)-32))
			}
			e.ClosePathEndPath()
		}
		b, err := e.Bytes()
		if err != nil {
			return nil
		}
		return append([]byte(nil), b...)
	}
	src := build(ops, r.Premul())
	label := fmt.Sprintf("dis-large | a graphic of %d line segments in paths of 1000 (%d bytes)", ops, len(src))
	defer func() {
		if p := recover(); p != nil {
			fails = append(fails, Failure{"C11.no-panic", label, fmt.Sprint(p)})
		}
	}()
	check := func(text []byte, when string) []Failure {
		var all []byte
		nInstr := 0
		for _, l := range bytes.Split(bytes.TrimSuffix(text, []byte("\n")), []byte("\n")) {
			if len(l) < 14 {
				return []Failure{{"C11.line-format", label, when + ": short line: " + string(l)}}
			}
			for _, hx := range bytes.Fields(l[:14]) {
				v, err := strconv.ParseUint(string(hx), 16, 8)
				if err != nil {
					return []Failure{{"C11.line-format", label, when + ": bad hex column: " + string(l)}}
				}
				all = append(all, byte(v))
			}
			if t := l[14:]; !bytes.HasPrefix(t, []byte(" ")) && !bytes.HasPrefix(t, []byte("IconVG")) && !bytes.HasPrefix(t, []byte("Number of")) && !bytes.HasPrefix(t, []byte("Metadata")) {
				nInstr++
			}
		}
		if !bytes.Equal(all, src) {
			return []Failure{{"C11.hex-complete", label, fmt.Sprintf("%s: hex column gives %d bytes, input has %d", when, len(all), len(src))}}
		}
		_ = nInstr
		return nil
	}
	_, derr, p := Decode(nil, src)
	if p != "" {
		return []Failure{{"C02.no-panic", label, p}}
	}
	text, serr := decode.Disassemble(src)
	if (serr == nil) != (derr == nil) || serr != nil && serr.Error() != derr.Error() {
		return []Failure{{"C11.same-accept", label, fmt.Sprintf("Decode: %v, Disassemble: %v", derr, serr)}}
	}
	if serr != nil {
		return nil
	}
	if f := check(text, "as returned"); f != nil {
		return f
	}
	// other graphics are listed; the listing handed out before is still the listing of ITS graphic
	for k := 0; k < 3; k++ {
		other := build(1+r.Intn(3000)*k, r.Premul())
		if _, err := decode.Disassemble(other); err != nil {
			return []Failure{{"C11.same-accept", label, "Disassemble refuses an encoded graphic: " + err.Error()}}
		}
	}
	return check(text, "after three more graphics were listed")
}

func monitorC11(caseLine string) (fails []Failure) {
	parts := strings.SplitN(caseLine, "|", 2)
	if len(parts) != 2 {
		return nil
	}
	src, err := ParseBytes(parts[1])
	if err != nil {
		return nil
	}
	calls, derr, p := Decode(nil, src)
	if p != "" {
		return []Failure{{"C02.no-panic", caseLine, p}}
	}
	var text []byte
	var serr error
	func() {
		defer func() {
			if p := recover(); p != nil {
				fails = append(fails, Failure{"C11.no-panic", caseLine, fmt.Sprint(p)})
			}
		}()
		text, serr = decode.Disassemble(src)
	}()
	if len(fails) > 0 {
		return
	}
	if (serr == nil) != (derr == nil) || serr != nil && serr.Error() != derr.Error() {
		return []Failure{{"C11.same-accept", caseLine, fmt.Sprintf("Decode: %v, Disassemble: %v", derr, serr)}}
	}
	if serr != nil {
		return nil
	}
	// hex column reproduces the input; one instruction line per call
	var all []byte
	nInstr := 0
	for _, l := range strings.Split(strings.TrimSuffix(string(text), "\n"), "\n") {
		if len(l) < 14 {
			return []Failure{{"C11.line-format", caseLine, "short line: " + l}}
		}
		for _, hx := range strings.Fields(l[:14]) {
			var b byte
			if _, err := fmt.Sscanf(hx, "%02x", &b); err != nil {
				return []Failure{{"C11.line-format", caseLine, "bad hex column: " + l}}
			}
			all = append(all, b)
		}
		txt := l[14:]
		if !strings.HasPrefix(txt, " ") && !strings.HasPrefix(txt, "IconVG") && !strings.HasPrefix(txt, "Number of") && !strings.HasPrefix(txt, "Metadata") {
			// instruction line: "X, N reps" counts once per rep via its implicit lines
			if strings.Contains(txt, " reps") {
				nInstr++ // the explicit first repetition
			} else {
				nInstr++
			}
		}
	}
	if !bytes.Equal(all, src) {
		fails = append(fails, Failure{"C11.hex-complete", caseLine, fmt.Sprintf("hex column gives %d bytes, input has %d", len(all), len(src))})
	}
	if want := len(calls) - 1; nInstr != want {
		fails = append(fails, Failure{"C11.line-per-call", caseLine, fmt.Sprintf("%d instruction lines, %d calls after Reset", nInstr, want)})
	}
	fails = append(fails, listingOperands(caseLine, string(text), calls)...)
	return
}

// name1 spells a one-byte colour as the listing does (written from the specification's table).
func name1(x uint8) string {
	switch {
	case x >= 0xc0:
		return fmt.Sprintf("CREG[%d]", x&0x3f)
	case x >= 0x80:
		return fmt.Sprintf("customPalette[%d]", x&0x3f)
	case x == 127:
		return "RGBA 00000000"
	case x == 126:
		return "RGBA 80808080"
	case x == 125:
		return "RGBA c0c0c0c0"
	}
	t := [5]uint8{0, 0x40, 0x80, 0xc0, 0xff}
	return fmt.Sprintf("RGBA %02x%02x%02xff", t[x/25], t[x/5%5], t[x%5])
}

// colourText spells a delivered colour operand.
func colourText(c ivg.Color) string {
	typ, d := ColorParts(c)
	switch typ {
	case 0:
		switch {
		case premul(d):
			return fmt.Sprintf("RGBA %02x%02x%02x%02x", d.R, d.G, d.B, d.A)
		case d.A == 0 && d.B&0x80 != 0:
			return fmt.Sprintf("gradient (NSTOPS=%d, CBASE=%d, NBASE=%d, %s, %s)", d.R&0x3f, d.G&0x3f, d.B&0x3f,
				[]string{"linear", "radial"}[(d.B>>6)&1], []string{"none", "pad", "reflect", "repeat"}[d.G>>6])
		}
		return "nonsensical color"
	case 1:
		return fmt.Sprintf("customPalette[%d]", d.R)
	case 2:
		return fmt.Sprintf("CREG[%d]", d.R)
	}
	return fmt.Sprintf("blend (%d:%d) (%s:%s)", 0xff-d.R, d.R, name1(d.G), name1(d.B))
}

// listingOperands: "the operand values printed (colours, selector and ADJ values …) are the values the
// decoder delivers": the selector, register-assignment and path-start lines of a successful listing against
// the delivered calls, in order.
func listingOperands(caseLine, text string, calls []Call) (fails []Failure) {
	type item struct{ kind, text string }
	var want []item
	for _, c := range calls {
		switch c.Name {
		case "csel":
			want = append(want, item{"sel", fmt.Sprintf("Set CSEL = %d", c.U8)})
		case "nsel":
			want = append(want, item{"sel", fmt.Sprintf("Set NSEL = %d", c.U8)})
		case "creg":
			if c.Incr {
				want = append(want, item{"reg", "Set CREG[CSEL-0] to a * color; CSEL++"})
			} else {
				want = append(want, item{"reg", fmt.Sprintf("Set CREG[CSEL-%d] to a * color", c.Adj)})
			}
			want = append(want, item{"col", colourText(c.Col)})
		case "nreg":
			if c.Incr {
				want = append(want, item{"reg", "Set NREG[NSEL-0] to a * number; NSEL++"})
			} else {
				want = append(want, item{"reg", fmt.Sprintf("Set NREG[NSEL-%d] to a * number", c.Adj)})
			}
		case "start":
			want = append(want, item{"reg", fmt.Sprintf("Start path, filled with CREG[CSEL-%d]; M (absolute moveTo)", c.Adj)})
		}
	}
	var got []item
	started := false
	palWant, palGot := -1, 0
	for _, l := range strings.Split(strings.TrimSuffix(text, "\n"), "\n") {
		if len(l) < 14 {
			continue
		}
		txt := l[14:]
		t := strings.TrimSpace(txt)
		if !strings.HasPrefix(txt, " ") && !strings.HasPrefix(txt, "IconVG") && !strings.HasPrefix(txt, "Number of") && !strings.HasPrefix(txt, "Metadata") {
			started = true
		}
		if !started {
			// the metadata section: the suggested palette is listed there, one line per colour, and the colours printed are
			// the palette entries Reset receives (round 6, C11-L: the raw colour printed where the decoder delivers the
			// sanitised one)
			var n, bpc int
			if k, _ := fmt.Sscanf(t, "%d palette colors, %d bytes per color", &n, &bpc); k == 2 {
				palWant, palGot = n, 0
				continue
			}
			if palWant >= 0 && strings.HasPrefix(txt, "    ") {
				if len(calls) > 0 && calls[0].Name == "reset" && palGot < 64 {
					e := calls[0].Pal[palGot]
					if w := fmt.Sprintf("RGBA %02x%02x%02x%02x", e.R, e.G, e.B, e.A); t != w {
						return []Failure{{"C11.palette-as-delivered", caseLine, fmt.Sprintf("suggested palette entry %d is listed as %q, Decode delivers %q", palGot, t, w)}}
					}
				}
				palGot++
			}
			continue
		}
		switch {
		case strings.HasPrefix(t, "Set CSEL = "), strings.HasPrefix(t, "Set NSEL = "):
			got = append(got, item{"sel", t})
		case strings.HasPrefix(t, "Set CREG["), strings.HasPrefix(t, "Set NREG["):
			// the operand width / directness / number kind are not operand values: wildcard them
			i, j := strings.Index(t, " to a "), strings.LastIndex(t, " color")
			if strings.HasPrefix(t, "Set NREG[") {
				j = strings.LastIndex(t, " number")
			}
			if i < 0 || j < i {
				return []Failure{{"C11.line-format", caseLine, "register line: " + t}}
			}
			got = append(got, item{"reg", t[:i] + " to a *" + t[j:]})
		case strings.HasPrefix(t, "Start path"):
			got = append(got, item{"reg", t})
		case strings.HasPrefix(txt, "    ") && (strings.HasPrefix(t, "RGBA ") || strings.HasPrefix(t, "gradient (") || strings.HasPrefix(t, "customPalette[") || strings.HasPrefix(t, "CREG[") || strings.HasPrefix(t, "blend (") || t == "nonsensical color"):
			got = append(got, item{"col", t})
		}
	}
	if palWant >= 0 && palGot != palWant {
		return []Failure{{"C11.palette-as-delivered", caseLine, fmt.Sprintf("%d palette colours announced, %d listed", palWant, palGot)}}
	}
	for i := range want {
		if i >= len(got) {
			return []Failure{{"C11.operands", caseLine, fmt.Sprintf("the listing lacks %q (operand %d of the delivered calls)", want[i].text, i)}}
		}
		if got[i] != want[i] {
			return []Failure{{"C11.operands", caseLine, fmt.Sprintf("the listing prints %q where the decoder delivers %q", got[i].text, want[i].text)}}
		}
	}
	if len(got) > len(want) {
		return []Failure{{"C11.operands", caseLine, fmt.Sprintf("the listing prints %q, which corresponds to no delivered call", got[len(want)].text)}}
	}
	return nil
}

// ---------- C12 ----------

func suiteC12(s *Shard, n int) {
	r := s.R
	pos := func() float32 {
		switch r.Intn(4) {
		case 0:
			return float32(1 + r.Intn(1000))
		case 1:
			return float32(1+r.Intn(1000)) / 64
		case 2:
			e := uint32(r.Intn(40) + 107)
			return bits(uint32(r.U64())&0x007fffff | e<<23)
		default:
			return float32(1+r.Intn(100000)) / 7
		}
	}
	for i := 0; i < n; i++ {
		x0, y0 := r.Coord(), r.Coord()
		vb := ivg.ViewBox{MinX: x0, MinY: y0, MaxX: x0 + pos(), MaxY: y0 + pos()}
		dx, dy := pos(), pos()
		mant := func() float32 { return 1 + float32(r.Intn(1<<20))/(1<<20) }
		switch r.Intn(8) {
		case 0:
			// many orders of magnitude: the viewBox and the target around a common magnitude 2^m, so that the
			// aspect ratios stay moderate while every product of two sizes leaves float32's range
			m := r.Intn(160) - 95
			sz := func() float32 { return float32(math.Ldexp(float64(mant()), m+r.Intn(5)-2)) }
			vb = ivg.ViewBox{MinX: 0, MinY: 0, MaxX: sz(), MaxY: sz()}
			dx, dy = sz(), sz()
		case 2:
			// a very elongated viewBox fitted to an ordinary target: a slice overflows it by orders of magnitude
			e := 10 + r.Intn(25)
			long, short := float32(math.Ldexp(float64(mant()), e/2)), float32(math.Ldexp(float64(mant()), e/2-e))
			if r.Bool() {
				long, short = short, long
			}
			vb = ivg.ViewBox{MinX: 0, MinY: 0, MaxX: long, MaxY: short}
		case 1:
			// very elongated viewBox AND target (both tall or both wide), with different ratios
			e1, e2 := 15+r.Intn(25), 15+r.Intn(25)
			m := r.Intn(20) - 10
			long, short1, short2 := float32(math.Ldexp(float64(mant()), m)), float32(math.Ldexp(float64(mant()), m-e1)), float32(math.Ldexp(float64(mant()), m-e2))
			if r.Bool() {
				vb = ivg.ViewBox{MinX: x0, MinY: y0, MaxX: x0 + short1, MaxY: y0 + long}
				dx, dy = short2, long*mant()
			} else {
				vb = ivg.ViewBox{MinX: x0, MinY: y0, MaxX: x0 + long, MaxY: y0 + short1}
				dx, dy = long*mant(), short2
			}
			if vb.MaxX == vb.MinX || vb.MaxY == vb.MinY {
				vb.MinX, vb.MinY = 0, 0
				vb.MaxX, vb.MaxY = vb.MaxX-x0, vb.MaxY-y0
			}
		}
		if r.Chance(6) {
			// coincidences between the target and the viewBox (round 4, C12-G: a "1:1 fast path" returning the viewBox's own
			// coordinates): the target is exactly the viewBox's size, or a power of two / small multiple of it, or equals it
			// in one dimension only; the viewBox is off the origin
			w, h := vb.MaxX-vb.MinX, vb.MaxY-vb.MinY
			switch r.Intn(4) {
			case 0:
				dx, dy = w, h
			case 1:
				k := float32(math.Ldexp(1, r.Intn(7)-3))
				dx, dy = w*k, h*k
			case 2:
				dx = w
			default:
				k := float32(1 + r.Intn(4))
				dx, dy = w*k, h*k
			}
		}
		ax, ay := []float32{0, 0.5, 1, float32(r.Intn(101)) / 100}[r.Intn(4)], []float32{0, 0.5, 1, float32(r.Intn(101)) / 100}[r.Intn(4)]
		mode := []string{"meet", "slice", "size"}[r.Intn(3)]
		line := FitCase(mode, vb, dx, dy, ax, ay)
		s.EmitRun(line)
		s.Sig(fmt.Sprint(mode, dx/dy < (vb.MaxX-vb.MinX)/(vb.MaxY-vb.MinY), ax, ay))
		for _, f := range monitorFit(line, mode, vb, dx, dy, ax, ay) {
			s.Fail(f.Clause, f.Case, f.Detail)
		}
	}
}

func monitorFit(line, mode string, vb ivg.ViewBox, dx, dy, ax, ay float32) (fails []Failure) {
	vw, vh := float64(vb.MaxX)-float64(vb.MinX), float64(vb.MaxY)-float64(vb.MinY)
	if !(vw > 0 && vh > 0) {
		return nil
	}
	if mode == "size" {
		w, h := vb.Size()
		if w != vb.MaxX-vb.MinX || h != vb.MaxY-vb.MinY {
			fails = append(fails, Failure{"C12.size", line, "Size is not max-min"})
		}
		return
	}
	var a, b, c, d float32
	if mode == "meet" {
		a, b, c, d = vb.AspectMeet(dx, dy, ax, ay)
	} else {
		a, b, c, d = vb.AspectSlice(dx, dy, ax, ay)
	}
	x0, y0, x1, y1 := float64(a), float64(b), float64(c), float64(d)
	W, H := float64(dx), float64(dy)
	// the rectangle the property describes, in float64: uniform scale min (meet) or max (slice) of the two
	// ratios, so that one dimension equals the target's; slack divided by the alignment fractions
	sc := math.Min(W/vw, H/vh)
	if mode != "meet" {
		sc = math.Max(W/vw, H/vh)
	}
	ew, eh := vw*sc, vh*sc
	if W/vw == sc {
		ew = W
	}
	if H/vh == sc {
		eh = H
	}
	ex0, ey0 := (W-ew)*float64(ax), (H-eh)*float64(ay)
	ex1, ey1 := ex0+ew, ey0+eh
	if math.IsInf(ew+eh, 0) || math.IsNaN(ew+eh) || ew > 1e37 || eh > 1e37 || ew < 1e-37 || eh < 1e-37 {
		return nil // the fitted rectangle itself is outside float32's range
	}
	// "up to float32 rounding relative to the target size", per dimension (the fitted rectangle of a slice
	// may be far larger than the target, so its own extent counts too)
	tolX := 1e-5 * (W + abs64(ex0) + abs64(ex1))
	tolY := 1e-5 * (H + abs64(ey0) + abs64(ey1))
	w, h := x1-x0, y1-y0
	if abs64(w-ew) > tolX || abs64(h-eh) > tolY {
		fails = append(fails, Failure{"C12.aspect", line, fmt.Sprintf("size %g x %g, the viewBox's aspect ratio fitted to the target gives %g x %g", w, h, ew, eh)})
	}
	if mode == "meet" {
		if x0 < -tolX || y0 < -tolY || x1 > W+tolX || y1 > H+tolY {
			fails = append(fails, Failure{"C12.meet-inside", line, fmt.Sprintf("(%g,%g)-(%g,%g) not inside %gx%g", x0, y0, x1, y1, W, H)})
		}
	} else {
		// covering is judged relative to the TARGET size, as the property says, however large the overflow is
		cx, cy := 1e-6*W, 1e-6*H
		if x0 > cx || y0 > cy || x1 < W-cx || y1 < H-cy {
			fails = append(fails, Failure{"C12.slice-covers", line, fmt.Sprintf("(%g,%g)-(%g,%g) does not cover %gx%g", x0, y0, x1, y1, W, H)})
		}
	}
	if abs64(w-W) > tolX && abs64(h-H) > tolY {
		fails = append(fails, Failure{"C12.touches", line, "equal to the target in neither dimension"})
	}
	if abs64(x0-ex0) > tolX || abs64(y0-ey0) > tolY {
		fails = append(fails, Failure{"C12.alignment", line, fmt.Sprintf("min (%g,%g), expected (%g,%g): slack (%g,%g) divided by (%g,%g)", x0, y0, ex0, ey0, W-ew, H-eh, ax, ay)})
	}
	return
}

func abs64(x float64) float64 {
	if x < 0 {
		return -x
	}
	return x
}

// ---------- C13 / C14 ----------

func suiteC13(s *Shard, n int) {
	r := s.R
	for i := 0; i < n; i++ {
		src := cat([]byte{0x89, 'I', 'V', 'G'}, r.MetadataBytes())
		// the metadata alone against the specification parser: any difference there is about C13
		s.EmitRun(SpecCase(src))
		if r.Chance(50) {
			b, _ := r.Instruction(false)
			src = append(src, b...)
		}
		line := DecCase(nil, src)
		obs := s.EmitRun(line)
		s.Sig("md:" + obsSig(obs) + fmt.Sprint(len(src)%8))
		s.EmitRun(DvbCase(src))
		for _, f := range monitorC13(line, src) {
			s.Fail(f.Clause, f.Case, f.Detail)
		}
	}
}

func monitorC13(line string, src []byte) (fails []Failure) {
	calls, err, p := Decode(nil, src)
	if p != "" {
		return []Failure{{"C02.no-panic", line, p}}
	}
	vb, verr := decode.DecodeViewBox(src)
	if len(calls) > 0 {
		c := calls[0]
		if verr != nil {
			fails = append(fails, Failure{"C13.metadata-only-validates-same", line, "Decode delivered Reset but DecodeViewBox fails: " + verr.Error()})
		} else if vb != c.VB {
			fails = append(fails, Failure{"C13.metadata-only-same-viewbox", line, fmt.Sprintf("%v vs %v", vb, c.VB)})
		}
		v := c.VB
		for _, f := range []float32{v.MinX, v.MinY, v.MaxX, v.MaxY} {
			if !finite32(f) {
				fails = append(fails, Failure{"C13.viewbox-finite", line, "non-finite viewBox accepted"})
			}
		}
		if v.MinX > v.MaxX || v.MinY > v.MaxY {
			fails = append(fails, Failure{"C13.viewbox-ordered", line, "inverted viewBox accepted"})
		}
		for i, pc := range c.Pal {
			if !ivg.ValidAlphaPremulColor(pc) {
				fails = append(fails, Failure{"C13.palette-sanitised", line, fmt.Sprintf("suggested palette entry %d = %v delivered", i, pc)})
			}
		}
	} else if err == nil {
		fails = append(fails, Failure{"C13.reset-delivered", line, "accepted stream without Reset"})
	}
	if len(calls) == 0 && verr == nil && err != nil && len(src) >= 4 {
		// metadata valid for DecodeViewBox but Decode delivered nothing
		fails = append(fails, Failure{"C13.metadata-only-validates-same", line, "DecodeViewBox accepts, Decode delivers nothing: " + err.Error()})
	}
	return
}

type nrgba struct{ color.NRGBA }

func (r *RNG) UserColor() color.Color {
	switch r.Intn(5) {
	case 0:
		return r.Premul()
	case 1:
		return r.RGBAAny()
	case 2:
		return color.NRGBA{uint8(r.Intn(256)), uint8(r.Intn(256)), uint8(r.Intn(256)), uint8(r.Intn(256))}
	case 3:
		return color.Gray{uint8(r.Intn(256))}
	default:
		return color.RGBA64{uint16(r.Intn(65536)), uint16(r.Intn(65536)), uint16(r.Intn(65536)), uint16(r.Intn(65536))}
	}
}

func (r *RNG) DecOpts() []DecOpt {
	var opts []DecOpt
	for k := r.Intn(4); k > 0; k-- {
		if r.Chance(30) {
			var p [64]color.RGBA
			for i := range p {
				if r.Chance(85) {
					p[i] = r.Premul()
				} else {
					p[i] = r.RGBAAny()
				}
			}
			if r.Chance(20) {
				// a replacement that happens to equal the default palette (64 opaque blacks) is still a replacement
				p = ivg.DefaultPalette
			}
			opts = append(opts, DecOpt{Pal: &p})
		} else {
			opts = append(opts, DecOpt{Index: r.Intn(64), Col: r.UserColor()})
		}
	}
	return opts
}

func suiteC14(s *Shard, n int) {
	r := s.R
	for i := 0; i < n; i++ {
		// a graphic that uses palette colours in registers, blends and initial CREG contents
		cs := []Call{{Name: "reset", VB: ivg.DefaultViewBox, Pal: r.Palette()}}
		pool := []uint8{uint8(r.Intn(64)), uint8(r.Intn(64)), uint8(r.Intn(64)), 0}
		for k := 0; k < 4; k++ {
			idx := pool[r.Intn(4)] // few indices: a register written for one path is read by another
			switch r.Intn(3) {
			case 0:
				cs = append(cs, Call{Name: "creg", Col: ivg.PaletteIndexColor(idx)})
			case 1:
				cs = append(cs, Call{Name: "creg", Col: ivg.BlendColor(uint8(r.Intn(256)), 0x80|idx, r.OneByteColorByte())})
			default:
				cs = append(cs, Call{Name: "csel", U8: idx})
			}
			cs = append(cs, Call{Name: "start", F: fl(-10, -10)}, Call{Name: "L", F: fl(10, 0)}, Call{Name: "L", F: fl(0, 10)}, Call{Name: "Z"})
		}
		src, err := EncodeCalls(cs, false)
		if err != nil {
			continue
		}
		opts := r.DecOpts()
		line := DecCase(opts, src)
		obs := s.EmitRun(line)
		s.Sig("opts:" + fmt.Sprint(len(opts)) + obsSig(obs))
		calls, _, _ := Decode(opts, src)
		if len(calls) > 0 {
			if r.Bool() {
				// the same Renderer decodes the graphic twice: the second Reset seeds the registers again
				calls = append(append([]Call{}, calls...), calls...)
			}
			rect := image.Rect(0, 0, 24, 24)
			s.emitRen(rect, nil, calls)
			// "the result seeds palette-indexed colours and the initial colour registers": the reference machine
			for _, f := range monitorVM(RenCase(rect, nil, calls), rect, calls) {
				s.Fail("C14.seeds-registers/"+f.Clause, f.Case, f.Detail)
			}
		}
		for _, f := range monitorC14(line, opts, src, cs[0].Pal) {
			s.Fail(f.Clause, f.Case, f.Detail)
		}
	}
}

func monitorC14(line string, opts []DecOpt, src []byte, suggested [64]color.RGBA) (fails []Failure) {
	orig := append([]byte(nil), src...)
	var saved [][64]color.RGBA
	for _, o := range opts {
		if o.Pal != nil {
			saved = append(saved, *o.Pal)
		}
	}
	calls, _, p := Decode(opts, src)
	if p != "" {
		return []Failure{{"C14.no-panic", line, p}}
	}
	if !bytes.Equal(orig, src) {
		fails = append(fails, Failure{"C14.bytes-unmodified", line, "encoded bytes modified"})
	}
	k := 0
	for _, o := range opts {
		if o.Pal != nil {
			if *o.Pal != saved[k] {
				fails = append(fails, Failure{"C14.caller-palette-unmodified", line, "caller's palette array modified"})
			}
			k++
		}
	}
	if len(calls) == 0 {
		return
	}
	// expected palette: left fold over the suggested palette, then sanitised
	want := suggested
	for i, c := range want {
		if !ivg.ValidAlphaPremulColor(c) {
			want[i] = color.RGBA{0, 0, 0, 0xff}
		}
	}
	for _, o := range opts {
		if o.Pal != nil {
			want = *o.Pal
		} else {
			r, g, b, a := o.Col.RGBA()
			want[o.Index] = color.RGBA{uint8(r >> 8), uint8(g >> 8), uint8(b >> 8), uint8(a >> 8)}
		}
	}
	if len(opts) > 0 {
		for i, c := range want {
			if !ivg.ValidAlphaPremulColor(c) {
				want[i] = color.RGBA{0, 0, 0, 0xff}
			}
		}
	}
	if calls[0].Pal != want {
		fails = append(fails, Failure{"C14.options-fold-sanitised", line, "palette passed to Reset differs from options folded over the suggested palette (invalid entries as opaque black)"})
	}
	if len(opts) >= 2 {
		// the caller keeps ONE option slice (with spare capacity, as append leaves it) and decodes twice: first
		// with a prefix of it, then with all of it — the second decode must still apply every option in order
		gopts := make([]decode.DecodeOption, 0, len(opts)+2)
		for _, o := range opts {
			gopts = append(gopts, o.Go())
		}
		func() {
			defer func() { recover() }()
			decode.Decode(&Recorder{}, src, gopts[:len(gopts)-1]...)
		}()
		rec2 := &Recorder{}
		func() {
			defer func() { recover() }()
			decode.Decode(rec2, src, gopts...)
		}()
		if len(rec2.Calls) == 0 || rec2.Calls[0].Pal != want {
			fails = append(fails, Failure{"C14.options-in-order", line, "after a decode with a prefix of the caller's option slice, a decode with the whole slice no longer applies every option (the slice was written to)"})
		}
	}
	// no palette-derived paint may be a gradient or disable a path: check through the Renderer
	rec := &RecRaster{}
	var z render.Renderer
	z.SetRasterizer(rec, image.Rect(0, 0, 24, 24))
	func() {
		defer func() { recover() }()
		var gopts []decode.DecodeOption
		for _, o := range opts {
			gopts = append(gopts, o.Go())
		}
		decode.Decode(&z, src, gopts...)
	}()
	for _, pnt := range rec.Paints {
		if _, ok := pnt.(*image.Uniform); !ok {
			fails = append(fails, Failure{"C14.never-gradient", line, "a palette colour was interpreted as a gradient"})
		}
	}
	return
}

// Retarget extends a renderer history, with probability pct, by a SetRasterizer over another
// rectangle (fresh rasteriser) followed by more drawing on the same Renderer: either the last path
// again (no Reset: registers, selectors and metadata persist) or the whole history again (second
// Reset with the same metadata).  cs must end outside a path.
func (r *RNG) Retarget(cs []Call, rect image.Rectangle, pct int) []Call {
	if !r.Chance(pct) || len(cs) == 0 || cs[len(cs)-1].Name != "Z" {
		return cs
	}
	var nr image.Rectangle
	switch r.Intn(4) {
	case 0: // same size, other origin
		dx, dy := r.Intn(80)-40, r.Intn(80)-40
		nr = rect.Add(image.Pt(dx, dy))
	case 1: // other size, same origin
		nr = image.Rect(rect.Min.X, rect.Min.Y, rect.Min.X+1+r.Intn(300), rect.Min.Y+1+r.Intn(300))
	case 2: // same rectangle again
		nr = rect
	default:
		nr = r.Rect()
	}
	out := append(append([]Call{}, cs...), Call{Name: "rast", Rect: nr})
	if r.Chance(40) {
		return append(out, cs...)
	}
	last := -1
	for i, c := range cs {
		if c.Name == "start" {
			last = i
		}
	}
	if last < 0 {
		return out
	}
	return append(out, cs[last:]...)
}

// ---------- renderer suites: C04 C05 C06 C15 C17 C07 ----------

func suiteC04(s *Shard, n int) {
	r := s.R
	for i := 0; i < n; i++ {
		o := ProgOpts{MaxPaths: 4, Arcs: false}
		cs := r.RegProgram(o, true)
		if r.Chance(30) {
			// the same Renderer decodes two graphics in a row: the machine starts afresh at the second Reset
			cs = append(r.RegProgram(ProgOpts{MaxPaths: 2}, true), cs...)
		}
		rect := r.Rect()
		if r.Chance(4) {
			// rasters far larger than any image that is allocated (the recording rasteriser allocates nothing): the LOD test
			// reads the height whatever it is, and nothing else disables a path (round 5, C04-J: a "robustness" guard
			// disabling every path on rasters above 2^24 pixels in one dimension)
			big, small := 1<<24+1+r.Intn(1<<22), 1+r.Intn(64)
			if r.Bool() {
				big, small = small, big
			}
			rect = image.Rect(0, 0, big, small)
		}
		smp := r.SamplePoints(rect)
		cs = r.Retarget(cs, rect, 15)
		s.emitRen(rect, smp, cs)
		line := RenCase(rect, smp, cs)
		for _, f := range monitorVM(line, rect, cs) {
			s.Fail(f.Clause, f.Case, f.Detail)
		}
		if i%10 == 0 {
			for _, f := range monitorWrapped("C04", line, rect, smp, cs, r.Bool()) {
				s.Fail(f.Clause, f.Case, f.Detail)
			}
		}
	}
}

func suiteC05(s *Shard, n int) {
	r := s.R
	for i := 0; i < n; i++ {
		cs := []Call{{Name: "reset", VB: r.ViewBox(), Pal: ivg.DefaultPalette}}
		if cs[0].VB.MinX == cs[0].VB.MaxX {
			cs[0].VB = ivg.DefaultViewBox
		}
		o := ProgOpts{}
		for p := 1 + r.Intn(2); p > 0; p-- {
			cs = append(cs, Call{Name: "start", Adj: 0, F: fl(r.Coord(), r.Coord())})
			for k := 1 + r.Intn(6); k > 0; k-- {
				verb := drawVerbs[r.Intn(len(drawVerbs))]
				for m := r.runLen(ProgOpts{MaxRun: 6}); m > 0; m-- {
					cs = append(cs, r.DrawCall(o, verb))
				}
			}
			cs = append(cs, Call{Name: "Z"})
		}
		rect := r.Rect()
		cs = r.Retarget(cs, rect, 25)
		s.emitRen(rect, nil, cs)
		line := RenCase(rect, nil, cs)
		for _, f := range monitorGeometry(line, rect, cs) {
			s.Fail(f.Clause, f.Case, f.Detail)
		}
		if i%6 == 0 {
			for _, f := range monitorWrapped("C05", line, rect, nil, cs, r.Bool()) {
				s.Fail(f.Clause, f.Case, f.Detail)
			}
		}
		if i%5 == 0 {
			// "drawn over the target rectangle" in pixels, through raster/vec, when the rectangle overhangs the image
			for _, f := range partlyInside("C05", line, cs, 1+r.Intn(64), 1+r.Intn(64), r) {
				s.Fail(f.Clause, f.Case, f.Detail)
			}
		}
	}
}

func suiteC06(s *Shard, n int) {
	r := s.R
	for i := 0; i < n; i++ {
		samePixel := false
		vb := r.ViewBox()
		if vb.MinX == vb.MaxX || r.Chance(40) {
			vb = ivg.DefaultViewBox
		}
		cs := []Call{{Name: "reset", VB: vb, Pal: ivg.DefaultPalette}, {Name: "start", F: fl(r.Coord(), r.Coord())}}
		for k := 1 + r.Intn(4); k > 0; k-- {
			rx, ry := float32(1+r.Intn(400))/8, float32(1+r.Intn(400))/8
			if r.Chance(8) {
				rx = 0
			}
			if r.Chance(5) {
				ry = []float32{0, -ry, bits(0x7fc00000)}[r.Intn(3)]
			}
			rot := float32(r.Intn(360)) / 360
			if r.Chance(20) {
				rot = float32(r.Intn(2000)-1000) / 100
			}
			name := []string{"A", "a"}[r.Intn(2)]
			x, y := r.Coord(), r.Coord()
			if name == "a" && x == 0 && y == 0 {
				x = 1
			}
			if r.Chance(15) {
				// the end point a tiny chord away from the pen: with the large-arc flag this is (almost) the whole
				// ellipse, without it a sliver
				name = "a"
				ch := []float32{1.0 / 64, 1.0 / 256, 1.0 / 1024, 1.0 / 16}[r.Intn(4)]
				if r.Chance(35) {
					// … down to a chord some 1e-7 of the radius: the angle between the two radius vectors is tiny, not zero
					// (round 5, C06-I: cosines above 1-1e-12 taken for "parallel", the full ellipse vanished).  Not below: at
					// about 1.5e-8 of the radius the cosine of that angle IS 1 in float64 and the unchanged code draws nothing
					// either (observed while building this; such chords are not "moderate magnitudes", see DESIGN §11.5)
					ch = float32(math.Ldexp(1, -14-r.Intn(5)))
				}
				x, y = []float32{ch, -ch, 0, ch}[r.Intn(4)], []float32{0, ch, -ch, ch}[r.Intn(4)]
			}
			if r.Chance(12) {
				// the chord is EXACTLY a diameter (round 4, C06-G): radii that span the end points with nothing to spare, so
				// that the quantity under the square root is zero in exact arithmetic and of either sign in floats
				name = "a"
				py := [][2]float32{{3, 4}, {4, 3}, {6, 8}, {5, 12}, {8, 15}, {7, 24}, {0, 5}, {5, 0}, {20, 21}, {12, 35}}[r.Intn(10)]
				k := float32(math.Ldexp(1, r.Intn(7)-4))
				x, y = py[0]*k, py[1]*k
				if r.Bool() {
					x = -x
				}
				if r.Bool() {
					y = -y
				}
				d := float32(math.Hypot(float64(x), float64(y))) / 2
				rx, ry = d, d
				if r.Chance(25) {
					// an ellipse with the chord along one axis after rotation by 0 or a quarter turn
					rx, ry = d, d*float32(1+r.Intn(3))
					x, y = 2*d, 0
					rot = 0
					if r.Bool() {
						x, y = 0, 2*d
						rx, ry = ry, rx
					}
				} else if r.Chance(70) {
					rot = float32(1+r.Intn(15119)) / 15120
				}
			}
			cs = append(cs, Call{Name: name, F: fl(rx, ry, rot, x, y), La: r.Bool(), Sw: r.Bool()})
			if r.Chance(30) {
				cs = append(cs, r.DrawCall(ProgOpts{}, drawVerbs[r.Intn(len(drawVerbs))]))
			}
		}
		cs = append(cs, Call{Name: "Z"})
		if r.Chance(15) {
			// a second graphic on the same Renderer, no SetRasterizer in between (round 4, C06-H): its viewBox has the same
			// size as the first one's but another origin (or is the very same), so that only the bias changes
			vb2 := vb
			if r.Chance(80) {
				ox, oy := float32(r.Intn(129)-64), float32(r.Intn(129)-64)
				vb2 = ivg.ViewBox{MinX: vb.MinX + ox, MinY: vb.MinY + oy, MaxX: vb.MaxX + ox, MaxY: vb.MaxY + oy}
				if vb2.MaxX-vb2.MinX != vb.MaxX-vb.MinX || vb2.MaxY-vb2.MinY != vb.MaxY-vb.MinY {
					vb2 = ivg.ViewBox{MinX: vb.MinX * 2, MinY: vb.MinY * 2, MaxX: vb.MaxX * 2, MaxY: vb.MaxY * 2}
				}
			}
			st := fl(r.Coord(), r.Coord())
			if last := cs[len(cs)-2]; last.Name == "A" && r.Chance(60) {
				// … and its path starts at the very PIXEL where the first graphic's last arc ended — another point of another
				// viewBox (round 5, C06-J: a Renderer that recognised "the pen is where my last arc ended" and then reused that
				// arc's end point, in the coordinates of a viewBox that is no longer the current one)
				st = fl(last.F[3]+(vb2.MinX-vb.MinX), last.F[4]+(vb2.MinY-vb.MinY))
				samePixel = true
			}
			cs = append(cs, Call{Name: "reset", VB: vb2, Pal: ivg.DefaultPalette}, Call{Name: "start", F: st})
			for k := 1 + r.Intn(2); k > 0; k-- {
				rx, ry := float32(1+r.Intn(400))/8, float32(1+r.Intn(400))/8
				if r.Chance(15) {
					rx = 0
				}
				x, y := r.Coord(), r.Coord()
				name := []string{"A", "a"}[r.Intn(2)]
				if name == "a" && x == 0 && y == 0 {
					x = 1
				}
				cs = append(cs, Call{Name: name, F: fl(rx, ry, float32(r.Intn(360))/360, x, y), La: r.Bool(), Sw: r.Bool()})
			}
			cs = append(cs, Call{Name: "Z"})
		}
		rect := r.Rect()
		if samePixel && vb == ivg.DefaultViewBox {
			// a power-of-two scale, so that the two points do map to the same pixel bit for bit
			rect = image.Rect(0, 0, 64<<uint(r.Intn(3)), 64<<uint(r.Intn(3)))
		}
		cs = r.Retarget(cs, rect, 10)
		s.emitRen(rect, nil, cs)
		line := RenCase(rect, nil, cs)
		for _, f := range monitorArcs(line, rect, cs) {
			s.Fail(f.Clause, f.Case, f.Detail)
		}
	}
}

func suiteC15(s *Shard, n int) {
	r := s.R
	if s.Tier == "thorough" {
		exhaustiveClamp(s, s.NShards)
	}
	for i := 0; i < n; i++ {
		vb := ivg.DefaultViewBox
		if r.Chance(40) {
			vb = r.ViewBox()
			if vb.MinX == vb.MaxX || vb.MinY == vb.MaxY {
				vb = ivg.DefaultViewBox
			}
		}
		cs := []Call{{Name: "reset", VB: vb, Pal: ivg.DefaultPalette}}
		grid := r.Chance(35)
		if grid {
			cs = gridGradient(r)
			vb = cs[0].VB
		} else {
			cs = append(cs, r.GradientSetup()...)
		}
		cs = append(cs, Call{Name: "start", F: fl(vb.MinX, vb.MinY)}, Call{Name: "L", F: fl(vb.MaxX, vb.MinY)}, Call{Name: "L", F: fl(vb.MaxX, vb.MaxY)}, Call{Name: "L", F: fl(vb.MinX, vb.MaxY)}, Call{Name: "Z"})
		rect := r.Rect()
		var smp []image.Point
		for k := 0; k < 12; k++ {
			smp = append(smp, image.Pt(r.Intn(rect.Dx()*3)-rect.Dx(), r.Intn(rect.Dy()*3)-rect.Dy()))
		}
		if grid {
			// scale exactly 1: pixel px has offset px/8 (see gridGradient): integers and stop offsets are hit exactly
			rect = image.Rect(0, 0, 32, 32)
			smp = smp[:0]
			for k := 0; k < 14; k++ {
				smp = append(smp, image.Pt((r.Intn(13)-4)*[]int{8, 4, 2, 1}[r.Intn(4)], 0))
			}
			for _, c := range cs {
				if c.Name == "nreg" && c.Adj == 6 && c.F[0] == 1.0/(1<<32) {
					// the far variant: pixels k·2^28 have offsets k/16
					smp = smp[:0]
					for k := 0; k < 14; k++ {
						smp = append(smp, image.Pt((r.Intn(15)-7)<<28, 0))
					}
				}
			}
		}
		cs = r.Retarget(cs, rect, 25)
		obs, _ := s.emitRen(rect, smp, cs)
		if k := strings.Index(obs, " G"); k >= 0 && k+8 < len(obs) {
			s.Sig("grad:" + obs[k+1:k+7] + fmt.Sprint(grid, strings.Contains(obs, "0000.0000.0000.0000")))
		}
		line := RenCase(rect, smp, cs)
		for _, f := range monitorGradient(line, rect, smp, cs) {
			s.Fail(f.Clause, f.Case, f.Detail)
		}
		if rect.Dx()*rect.Dy() <= 6400 {
			for _, f := range monitorGradientPixels(line, rect, cs, r.Chance(50)) {
				s.Fail(f.Clause, f.Case, f.Detail)
			}
		}
		if i%5 == 0 {
			// the paint stays aligned with the rectangle when the rectangle overhangs the image
			for _, f := range partlyInside("C15", line, cs, 1+r.Intn(64), 1+r.Intn(64), r) {
				s.Fail(f.Clause, f.Case, f.Detail)
			}
		}
	}
}

// monitorGradientPixels: the paint as it ARRIVES in pixels through the repository's own rasteriser adapter (raster/vec).
// The path is the whole viewBox, so every pixel of the rectangle is fully covered; drawn with draw.Src into an image of
// its own, each pixel away from the border must be the colour the paint has there (what `At` answers, in 8 bits) — in
// particular transparent where spread "none" says so, also when all stops have the same colour (round 5, C15-I: such a
// gradient replaced by a uniform colour in vec.Draw).
func monitorGradientPixels(line string, rect image.Rectangle, cs []Call, nrgba bool) (fails []Failure) {
	defer func() {
		if p := recover(); p != nil {
			fails = append(fails, Failure{"C15.no-panic", line, fmt.Sprint(p)})
		}
	}()
	for _, c := range cs {
		if c.Name == "rast" {
			return nil // one rectangle only here
		}
	}
	img := image.NewRGBA(rect)
	rz := vec.NewRasterizer(img)
	rz.DrawOp = draw.Src
	var z render.Renderer
	z.SetRasterizer(rz, rect)
	rec := &RecRaster{}
	var z2 render.Renderer
	z2.SetRasterizer(rec, rect)
	for _, c := range cs {
		if c.IsDest() {
			c.Apply(&z)
			c.Apply(&z2)
		}
	}
	if len(rec.Paints) != 1 {
		return nil
	}
	src := rec.Paints[0]
	if _, ok := src.(raster.GradientConfig); !ok {
		return nil
	}
	for y := rect.Min.Y + 1; y < rect.Max.Y-1; y++ {
		for x := rect.Min.X + 1; x < rect.Max.X-1; x++ {
			// Draw's source point (0,0) is aligned with the rectangle's corner: the paint is evaluated in rectangle-relative pixels
			want := color.RGBAModel.Convert(src.At(x-rect.Min.X, y-rect.Min.Y)).(color.RGBA)
			got := img.RGBAAt(x, y)
			d := func(a, b uint8) int {
				if a > b {
					return int(a - b)
				}
				return int(b - a)
			}
			if d(got.R, want.R) > 1 || d(got.G, want.G) > 1 || d(got.B, want.B) > 1 || d(got.A, want.A) > 1 {
				return append(fails, Failure{"C15.pixels-are-the-paint", line, fmt.Sprintf("pixel (%d,%d) of %v is %v, the paint there is %v", x, y, rect, got, want)})
			}
		}
	}
	return nil
}

// gridGradient: viewBox (0,0)-(32,32) rendered at 32x32 (scale exactly 1) with matrix a=1/8, c=-1/16, so
// that the pixel centre px+0.5 has gradient x exactly px/8; stops at multiples of 1/4. Radial: gy = 0 on row 0.
func gridGradient(r *RNG) []Call {
	vb := ivg.ViewBox{MinX: 0, MinY: 0, MaxX: 32, MaxY: 32}
	cs := []Call{{Name: "reset", VB: vb, Pal: ivg.DefaultPalette}}
	nStops := 2 + r.Intn(4)
	offs := [][]float32{{0, 1}, {0, 0.5, 1}, {0.25, 0.5, 0.75, 1}, {0, 0.25, 0.5, 0.75, 1}, {0.25, 0.75}}[r.Intn(5)]
	variant := r.Intn(6) // 0: two stops one float32 step apart (2^-25); 1: the same offsets seen a gigapixel away
	if variant == 0 {
		lo := []float32{0.25, 0.375, 0.125}[r.Intn(3)]
		offs = []float32{lo, bits(math.Float32bits(lo) + 1), 0.75}
	}
	nStops = len(offs)
	cs = append(cs, Call{Name: "csel", U8: 10}, Call{Name: "nsel", U8: 10})
	oneColour, theColour := r.Chance(15), r.Premul()
	for _, o := range offs {
		c := r.Premul()
		if oneColour {
			c = theColour
		}
		cs = append(cs, Call{Name: "creg", Incr: true, Col: ivg.RGBAColor(c)}, Call{Name: "nreg", Incr: true, F: fl(o)})
	}
	cs = append(cs, Call{Name: "nsel", U8: 10})
	shape := uint8(r.Intn(2))
	m := []float32{0.125, 0, -0.0625, 0, 0.125, -0.0625} // a b c d e f
	if r.Bool() {
		m[0], m[2] = -0.125, 0.0625 // mirrored: offsets -px/8
	}
	if variant == 0 {
		// shift by one float32 step of the lower stop so that a pixel lands exactly on the upper one
		m[0], m[2] = 0.125, -0.0625+(offs[1]-offs[0])
	}
	if variant == 1 {
		// offsets px·2^-32: ordinary offsets at pixels around ±2^30
		m[0], m[2] = 1.0/(1<<32), -1.0/(1<<33)
	}
	for i := 0; i < 6; i++ {
		cs = append(cs, Call{Name: "nreg", Adj: uint8(6 - i), F: fl(m[i])})
	}
	cs = append(cs, Call{Name: "csel", U8: 0})
	cs = append(cs, Call{Name: "creg", Col: ivg.RGBAColor(ivg.EncodeGradient(10, 10, shape, uint8(r.Intn(4)), uint8(nStops)))})
	return cs
}

func suiteC17(s *Shard, n int) {
	r := s.R
	_, corpus := Corpus(s.Repo)
	for i := 0; i < n; i++ {
		if r.Bool() {
			// Encoder: history A (any), then reset + B; compare with fresh reset + B
			a := r.Program(ProgOpts{Wild: true, Arcs: true, Reset: 2, MaxPaths: 2, MaxRun: 4, Histories: true, Malformed: 10, OpenEnd: 40})
			b := r.Program(ProgOpts{Wild: r.Bool(), Arcs: true, Reset: 1, MaxPaths: 3, Histories: r.Bool()})
			if r.Chance(30) {
				// read the selectors straight after the Reset
				b = append([]Call{b[0], {Name: "rc"}, {Name: "rn"}}, b[1:]...)
			}
			ab := append(append([]Call{}, a...), b...)
			lineAB := EncCase(ab)
			obsAB := s.EmitRun(lineAB)
			obsB := RunEnc(b)
			s.Sig("encAB:" + progSig(ab))
			if lastTok(obsAB) != lastTok(obsB) {
				s.Fail("C17.encoder-reset-forgets", lineAB, "bytes after A;Reset;B differ from fresh Reset;B")
			}
			// every observation made during B (selector and LOD reads, intermediate Bytes) as well
			fAB, fB := strings.Fields(obsAB), strings.Fields(obsB)
			if len(fAB) < len(fB) || strings.Join(fAB[len(fAB)-len(fB):], " ") != strings.Join(fB, " ") {
				s.Fail("C17.encoder-reset-forgets", lineAB, "observations (CSel/NSel/LOD/Bytes) during B after A;Reset differ from those of a fresh Encoder")
			}
			if RunEnc(ab) != obsAB {
				s.Fail("C17.deterministic", lineAB, "same calls, different output")
			}
			// whatever the history of OTHER Encoders was, a fresh zero-value Encoder is the blank graphic (round 5, C18-J: the
			// zero-value Encoder's buffer aliased a package-level header, which a later Reset of that Encoder overwrote)
			if r.Chance(25) {
				var used encode.Encoder
				used.Bytes()
				used.Reset(ivg.ViewBox{MinX: -1, MinY: -2, MaxX: 3, MaxY: 4}, ivg.DefaultPalette)
				used.Bytes()
			}
			var fresh encode.Encoder
			if bz, ez := fresh.Bytes(); ez != nil || !bytes.Equal(bz, []byte{0x89, 'I', 'V', 'G', 0x00}) {
				s.Fail("C17.fresh-encoder-unaffected", lineAB, fmt.Sprintf("after this history on another Encoder, a fresh zero-value Encoder's Bytes() is % x (%v)", bz, ez))
			}
			if r.Chance(30) {
				// a fresh zero-value Encoder with the exported resolution flag set before its first call, against a
				// used one that was Reset to the default metadata and given the same flag: same program, same bytes
				prog := r.Program(ProgOpts{Wild: r.Bool(), Arcs: true, Reset: 0, MaxPaths: 2, Histories: r.Bool()})
				fresh := append([]Call{{Name: "hires", B: true}}, prog...)
				used := append(append(append([]Call{}, a...), Call{Name: "reset", VB: ivg.DefaultViewBox, Pal: ivg.DefaultPalette}, Call{Name: "hires", B: true}), prog...)
				lineU := EncCase(used)
				oF, oU := RunEnc(fresh), s.EmitRun(lineU)
				fF, fU := strings.Fields(oF), strings.Fields(oU)
				// LOD() of a never-Reset Encoder is a documented deviation (0,0 instead of 0,+Inf): leave those reads out
				same := len(fU) >= len(fF)
				for k := 0; same && k < len(fF); k++ {
					x, y := fF[len(fF)-1-k], fU[len(fU)-1-k]
					if x != y && !(strings.HasPrefix(x, "lod=") && strings.HasPrefix(y, "lod=")) {
						same = false
					}
				}
				if !same {
					s.Fail("C17.zero-value-as-reset", lineU, "a zero-value Encoder with HighResolutionCoordinates set before its first call encodes the program differently from a used Encoder reset to the default metadata with the same flag")
				}
			}
			var e encode.Encoder
			for _, c := range b {
				if c.IsDest() {
					c.Apply(&e)
				}
			}
			b1, e1 := e.Bytes()
			b1 = append([]byte(nil), b1...)
			b2, e2 := e.Bytes()
			if !bytes.Equal(b1, b2) || (e1 == nil) != (e2 == nil) {
				s.Fail("C17.bytes-idempotent", EncCase(b), "Bytes() twice differs")
			}
		} else {
			// Renderer reuse across decodes
			srcA := r.AnyBytes(corpus)
			callsA, _, _ := Decode(nil, srcA)
			if r.Bool() {
				callsA = r.RegProgram(ProgOpts{MaxPaths: 2, Arcs: true}, true)
				if r.Chance(40) && len(callsA) > 3 {
					callsA = callsA[:len(callsA)-1-r.Intn(3)] // left mid-path
				}
			}
			b := r.RegProgram(ProgOpts{MaxPaths: 3, Arcs: true}, true)
			rect := r.Rect()
			ab := append(append([]Call{}, callsA...), b...)
			if len(ab) > 600 {
				continue
			}
			obsAB, _ := s.emitRen(rect, nil, ab)
			obsA, _ := RunRen(rect, nil, callsA)
			obsB, _ := RunRen(rect, nil, b)
			rest := strings.TrimPrefix(strings.TrimPrefix(obsAB, strings.TrimSuffix(obsA, "-")), " ; ")
			if obsA == "-" {
				rest = obsAB
			}
			if rest != obsB && !(rest == "" && obsB == "-") {
				s.Fail("C17.renderer-reset-forgets", RenCase(rect, nil, ab), "rasteriser log after A;Reset;B differs from fresh Reset;B")
			}
			if r.Chance(35) {
				for _, f := range monitorReusePixels(RenCase(rect, nil, ab), r, callsA, b) {
					s.Fail(f.Clause, f.Case, f.Detail)
				}
			}
		}
	}
}

// countingRast counts the Draw calls that reach the repository's rasteriser adapter.
type countingRast struct {
	*vec.Rasterizer
	draws int
}

func (c *countingRast) Draw(r image.Rectangle, src image.Image, sp image.Point) {
	c.draws++
	c.Rasterizer.Draw(r, src, sp)
}

// monitorReusePixels: "a Renderer and its rasteriser reused for another decode give the results of fresh objects", in
// PIXELS through raster/vec: history A is drawn with a one-shot compositing operator into a rectangle of its own
// (now and then an EMPTY one: a widget of size zero — round 5, C17-J), then the same Renderer and rasteriser are
// pointed at another rectangle and draw B.  Fresh objects start from the pixels A left behind; their rasteriser has
// the operator a reused one must have by then: source-over once A has made a Draw call, A's own operator if it made
// none (the one-shot operator applies to the first drawn path, C16).
func monitorReusePixels(line string, r *RNG, callsA, b []Call) (fails []Failure) {
	defer func() {
		if p := recover(); p != nil {
			fails = nil // panics of the rasteriser are not this relation's business
		}
	}()
	// golang.org/x/image/vector flattens curves into a number of lines that grows with the magnitude of the coordinates
	// (a quadratic 1e19 pixels across: some 1e5 lines per curve and minutes per picture): pictures with operands beyond
	// 1e6 are left to the rasteriser-call comparison above (sixth round: one such program made the quick tier take 160 s)
	for _, cs := range [][]Call{callsA, b} {
		for _, c := range cs {
			for _, v := range c.F {
				if !(math.Abs(float64(v)) <= 1e6) {
					return nil
				}
			}
			if c.Name == "reset" && !(math.Abs(float64(c.VB.MinX)) <= 1e6 && math.Abs(float64(c.VB.MaxX)) <= 1e6 && math.Abs(float64(c.VB.MinY)) <= 1e6 && math.Abs(float64(c.VB.MaxY)) <= 1e6 &&
				float64(c.VB.MaxX)-float64(c.VB.MinX) >= 1e-3 && float64(c.VB.MaxY)-float64(c.VB.MinY) >= 1e-3) {
				return nil
			}
		}
	}
	w, h := 8+r.Intn(40), 8+r.Intn(40)
	bounds := image.Rect(0, 0, w, h)
	sub := func() image.Rectangle {
		x0, y0 := r.Intn(w-4), r.Intn(h-4)
		return image.Rect(x0, y0, x0+1+r.Intn(w-x0-1), y0+1+r.Intn(h-y0-1))
	}
	rectA, rectB := sub(), sub()
	switch r.Intn(3) {
	case 0:
		rectA = image.Rectangle{}
	case 1:
		rectA = rectB
	}
	opA := draw.Op(r.Intn(2))
	background := func() *image.RGBA {
		m := image.NewRGBA(bounds)
		for y := 0; y < h; y++ {
			for x := 0; x < w; x++ {
				m.SetRGBA(x, y, color.RGBA{uint8(5 * x), uint8(5 * y), 0x80, 0xff})
			}
		}
		return m
	}
	run := func(z *render.Renderer, cs []Call) {
		for _, c := range cs {
			if c.IsDest() {
				c.Apply(z)
			}
		}
	}
	// reused objects
	got := background()
	cr := &countingRast{Rasterizer: &vec.Rasterizer{Dst: got, DrawOp: opA}}
	var z render.Renderer
	z.SetRasterizer(cr, rectA)
	run(&z, callsA)
	afterA := image.NewRGBA(bounds)
	copy(afterA.Pix, got.Pix)
	drawsA := cr.draws
	z.SetRasterizer(cr, rectB)
	run(&z, b)
	// fresh objects on the pixels A left behind
	op := draw.Over
	if drawsA == 0 {
		op = opA
	}
	var zf render.Renderer
	zf.SetRasterizer(&vec.Rasterizer{Dst: afterA, DrawOp: op}, rectB)
	run(&zf, b)
	if d := firstPixelDiff(got, afterA); d != "" {
		return append(fails, Failure{"C17.renderer-reuse-pixels", line, fmt.Sprintf("A (operator %v, %d Draw calls) into %v, then B into %v of a %dx%d image: reused Renderer+rasteriser and fresh ones (on the pixels A left) differ: %s", opA, drawsA, rectA, rectB, w, h, d)})
	}
	return nil
}

func lastTok(obs string) string {
	f := strings.Fields(obs)
	if len(f) == 0 {
		return ""
	}
	return f[len(f)-1]
}

func suiteC07(s *Shard, n int) {
	r := s.R
	for i := 0; i < n; i++ {
		// a history with selector traffic, read-backs and generator helpers
		var ops []GenOp
		pal := r.PremulPalette()
		nExplicit := 64
		if r.Chance(25) {
			// a short palette whose colours all have channels in {00,40,80,c0,ff}, some of them translucent:
			// which encoded palette format holds them is the encoder's business
			nExplicit = 1 + r.Intn(5)
			lv := []uint8{0, 0x40, 0x80, 0xc0, 0xff}
			for k := range pal {
				pal[k] = color.RGBA{0, 0, 0, 0xff}
				if k < nExplicit {
					a := lv[1+r.Intn(4)]
					if r.Bool() {
						a = 0xff
					}
					ch := func() uint8 {
						for {
							if v := lv[r.Intn(5)]; v <= a {
								return v
							}
						}
					}
					pal[k] = color.RGBA{ch(), ch(), ch(), a}
				}
			}
		}
		if r.Chance(12) {
			// an earlier graphic abandoned in the middle of a path, without Bytes(): Reset starts afresh (round 4, C07-H:
			// buffered drawing arguments surviving Reset re-appear as extra repetitions in the next graphic)
			ops = append(ops, GenOp{Kind: "call", Call: Call{Name: "reset", VB: ivg.DefaultViewBox, Pal: ivg.DefaultPalette}})
			for k := r.Intn(3); k > 0; k-- {
				ops = append(ops, GenOp{Kind: "call", Call: r.Styling(ProgOpts{})})
			}
			ops = append(ops, GenOp{Kind: "call", Call: Call{Name: "start", F: fl(float32(r.Intn(60)-30), float32(r.Intn(60)-30))}})
			verb := drawVerbs[r.Intn(len(drawVerbs))]
			for k := 1 + r.Intn(5); k > 0; k-- {
				c := r.DrawCall(ProgOpts{}, verb)
				for j := range c.F {
					c.F[j] = float32(r.Intn(128) - 64)
				}
				ops = append(ops, GenOp{Kind: "call", Call: c})
			}
		}
		ops = append(ops, GenOp{Kind: "call", Call: Call{Name: "reset", VB: ivg.DefaultViewBox, Pal: pal}})
		for p := 1 + r.Intn(3); p > 0; p-- {
			for k := r.Intn(6); k > 0; k-- {
				c := r.Styling(ProgOpts{})
				ops = append(ops, GenOp{Kind: "call", Call: c})
			}
			if r.Chance(30) {
				// paint with one of the explicit palette entries
				ops = append(ops, GenOp{Kind: "call", Call: Call{Name: "creg", Col: ivg.PaletteIndexColor(uint8(r.Intn(nExplicit)))}})
			}
			if r.Chance(70) {
				ops = append(ops, r.GradHelper())
			}
			ops = append(ops, GenOp{Kind: "call", Call: Call{Name: "start", Adj: uint8(r.Intn(3)), F: fl(float32(r.Intn(60)-30), float32(r.Intn(60)-30))}})
			for k := 1 + r.Intn(4); k > 0; k-- {
				verb := drawVerbs[r.Intn(len(drawVerbs))]
				nRun := r.runLen(ProgOpts{MaxRun: 70}) // runs of one verb: the encoder chunks them by repeat count
				if verb == "Y" || verb == "y" {
					nRun = 1
				}
				for ; nRun > 0; nRun-- {
					c := r.DrawCall(ProgOpts{}, verb)
					for j := range c.F {
						c.F[j] = float32(r.Intn(128) - 64) // exactly representable: both pipelines agree bit for bit
					}
					ops = append(ops, GenOp{Kind: "call", Call: c})
				}
			}
			ops = append(ops, GenOp{Kind: "call", Call: Call{Name: "Z"}})
		}
		line := GenCase(ops)
		s.EmitRun(line)
		s.Sig("gen:" + fmt.Sprint(len(ops)))
		for _, f := range monitorC07(line, ops, s) {
			s.Fail(f.Clause, f.Case, f.Detail)
		}
		if i%8 == 0 {
			for _, f := range monitorLogger(line, ops, r.Bool()) {
				s.Fail(f.Clause, f.Case, f.Detail)
			}
		}
	}
}

var stdoutMu sync.Mutex

// quietly runs f with os.Stdout pointing at the null device (DestinationLogger prints every call).
func quietly(f func()) {
	stdoutMu.Lock()
	old := os.Stdout
	dn, err := os.OpenFile(os.DevNull, os.O_WRONLY, 0)
	if err == nil {
		os.Stdout = dn
	}
	defer func() {
		os.Stdout = old
		if err == nil {
			dn.Close()
		}
		stdoutMu.Unlock()
	}()
	f()
}

// monitorLogger: a DestinationLogger around a Destination delivers to it exactly the calls it receives (and
// reports its selectors), so every pipeline of C07 may be observed through one.
func monitorLogger(line string, ops []GenOp, alt bool) (fails []Failure) {
	direct := &Recorder{}
	var sels [][2]uint8
	if _, p := runGenInto(direct, ops, &sels); p != "" {
		return nil
	}
	inner := &Recorder{}
	lg := &ivg.DestinationLogger{Destination: inner, Alt: alt}
	var sels2 [][2]uint8
	panicked := ""
	quietly(func() { _, panicked = runGenInto(lg, ops, &sels2) })
	if panicked != "" {
		return []Failure{{"C07.logger-forwards", line, "panic: " + panicked}}
	}
	if a, b := ShowCalls(direct.Calls), ShowCalls(inner.Calls); a != b {
		k := 0
		for k < len(direct.Calls) && k < len(inner.Calls) && direct.Calls[k].String() == inner.Calls[k].String() {
			k++
		}
		got := "(nothing)"
		if k < len(inner.Calls) {
			got = inner.Calls[k].String()
		}
		want := "(nothing)"
		if k < len(direct.Calls) {
			want = direct.Calls[k].String()
		}
		return []Failure{{"C07.logger-forwards", line, fmt.Sprintf("call %d behind a DestinationLogger (Alt=%v) is %s, without it %s", k, alt, got, want)}}
	}
	if fmt.Sprint(sels) != fmt.Sprint(sels2) {
		return []Failure{{"C07.logger-forwards", line, "selectors read through the DestinationLogger differ"}}
	}
	return nil
}

// GradHelper draws a generator gradient helper call with valid stops most of the time.
func (r *RNG) GradHelper() GenOp {
	n := 2 + r.Intn(4)
	switch r.Intn(12) {
	case 0:
		n = r.Intn(300)
	case 1, 2:
		n = 53 + r.Intn(8)
	case 3:
		n = r.Intn(3)
	}
	var stops []generate.GradientStop
	for i := 0; i < n; i++ {
		var c color.Color = r.Premul()
		if r.Chance(10) {
			c = r.UserColor()
		}
		stops = append(stops, generate.GradientStop{Offset: float32(i) / float32(maxInt(n-1, 1)), Color: c})
	}
	sp := uint8(r.Intn(4))
	co := func() float32 { return float32(r.Intn(128)-64) / 2 }
	switch r.Intn(4) {
	case 0:
		x1, y1 := co(), co()
		return GenOp{Kind: "lin", F: fl(x1, y1, x1+1+float32(r.Intn(40)), y1+float32(r.Intn(40))), Spread: sp, Stops: stops}
	case 1:
		return GenOp{Kind: "circ", F: fl(co(), co(), 1+float32(r.Intn(30)), float32(r.Intn(30))), Spread: sp, Stops: stops}
	case 2:
		rx, ry := 1+float32(r.Intn(30)), float32(r.Intn(10))
		return GenOp{Kind: "ell", F: fl(co(), co(), rx, ry, -ry/2, rx/2+1), Spread: sp, Stops: stops}
	default:
		var a generate.Aff3
		for i := range a {
			a[i] = float32(r.Intn(200)-100) / 64
		}
		return GenOp{Kind: "grad", Shape: uint8(r.Intn(2)), Spread: sp, Stops: stops, Affs: []generate.Aff3{a}}
	}
}

func maxInt(a, b int) int {
	if a > b {
		return a
	}
	return b
}

// selProbe wraps a Destination and records CSel/NSel after every call.
func runGenInto(dst ivg.Destination, ops []GenOp, sels *[][2]uint8) (errs []string, panicked string) {
	defer func() {
		if p := recover(); p != nil {
			panicked = fmt.Sprint(p)
		}
	}()
	return runGenWith(&generate.Generator{}, dst, ops, sels)
}

// runGenWith: the same with a Generator the caller owns (one Generator pointed at one destination after another, as the
// repository's own ivg_test.go does: SetDestination, and the path transform cleared with SetTransform()).
func runGenWith(g *generate.Generator, dst ivg.Destination, ops []GenOp, sels *[][2]uint8) (errs []string, panicked string) {
	defer func() {
		if p := recover(); p != nil {
			panicked = fmt.Sprint(p)
		}
	}()
	g.SetDestination(dst)
	g.SetTransform()
	for _, o := range ops {
		errs = append(errs, ApplyGen(g, o))
		*sels = append(*sels, [2]uint8{dst.CSel(), dst.NSel()})
	}
	return
}

func monitorC07(line string, ops []GenOp, s *Shard) (fails []Failure) {
	rect := image.Rect(0, 0, 64, 64)
	// pipeline 1: Generator -> Renderer
	rec1 := &RecRaster{}
	var z1 render.Renderer
	z1.SetRasterizer(rec1, rect)
	var sel1 [][2]uint8
	// "up to quantisation": a NaN whose payload sits in the two bits the 4-byte real form drops is an
	// infinity in the format (C08: "NaN stays non-finite"); the direct pipeline gets what the format holds
	// a Reset starts a new graphic: the Encoder forgets what came before it (C17), so what its bytes must reproduce is
	// the history from the last Reset on; the Encoder itself is fed the whole history
	lastReset := 0
	for i, o := range ops {
		if o.Kind == "call" && o.Call.Name == "reset" {
			lastReset = i
		}
	}
	all := ops
	ops = ops[lastReset:]
	ops1 := make([]GenOp, len(ops))
	copy(ops1, ops)
	for i, o := range ops1 {
		if o.Kind == "call" && (o.Call.Name == "lod" || o.Call.Name == "nreg") {
			f := append([]float32(nil), o.Call.F...)
			for k, v := range f {
				if t := bits(math.Float32bits(v) &^ 3); v != v && t == t {
					f[k] = t
				}
			}
			ops1[i].Call.F = f
		}
	}
	// every other case ONE Generator serves both pipelines, re-pointed in between (round 5, C07-J: a Generator that
	// remembered, across SetDestination, which gradient transform it had stored last and skipped storing it again)
	gen1, gen2 := &generate.Generator{}, &generate.Generator{}
	if len(line)%2 == 0 {
		gen2 = gen1
	}
	errs1, p1 := runGenWith(gen1, &z1, ops1, &sel1)
	// pipeline 2: Generator -> Encoder -> Decoder -> Renderer
	var e encode.Encoder
	e.HighResolutionCoordinates = true
	var sel2 [][2]uint8
	errs2, p2 := runGenWith(gen2, &hiResEncoder{&e}, all, &sel2)
	if p1 != "" || p2 != "" {
		return []Failure{{"C07.no-panic", line, p1 + p2}}
	}
	if len(sel2) >= lastReset {
		sel2 = sel2[lastReset:]
	}
	if len(errs2) >= lastReset {
		errs2 = errs2[lastReset:] // helper results of the abandoned graphic are not compared
	}
	if fmt.Sprint(errs1) != fmt.Sprint(errs2) {
		fails = append(fails, Failure{"C07.helpers-agree", line, fmt.Sprintf("helper results differ: renderer %v encoder %v", errs1, errs2)})
	}
	for i := range sel1 {
		if i < len(sel2) && (sel1[i][0]&63 != sel2[i][0]&63 || sel1[i][1]&63 != sel2[i][1]&63) {
			fails = append(fails, Failure{"C07.selectors-agree", line, fmt.Sprintf("after op %d (%s): renderer CSEL/NSEL %v, encoder %v", i, ops[i].String(), sel1[i], sel2[i])})
			break
		}
		if sel1[i][0] > 63 || sel1[i][1] > 63 || i < len(sel2) && (sel2[i][0] > 63 || sel2[i][1] > 63) {
			fails = append(fails, Failure{"C07.selectors-6bit", line, fmt.Sprintf("after op %d selectors exceed 6 bits", i)})
			break
		}
	}
	bs, err := e.Bytes()
	if err != nil {
		return append(fails, Failure{"C07.encoder-accepts", line, err.Error()})
	}
	rec2 := &RecRaster{}
	var z2 render.Renderer
	z2.SetRasterizer(rec2, rect)
	if derr := decode.Decode(&z2, bs); derr != nil {
		return append(fails, Failure{"C07.decodes", line, derr.Error()})
	}
	if !logsClose(rec1.Log, rec2.Log) {
		// "up to quantisation": the bytes hold a program Q(p) that equals p up to the format's quantisation (C01's
		// tolerances, call by call), and rendering the bytes must be EXACTLY rendering Q(p) directly.  A register
		// value the format cannot hold (a subnormal stop offset becoming 0, a NaN becoming an infinity) may
		// legitimately change what is drawn; anything else is a violation.
		direct := &Recorder{}
		var selsP [][2]uint8
		if _, p := runGenInto(direct, ops, &selsP); p != "" {
			return append(fails, Failure{"C07.no-panic", line, p})
		}
		decoded, derr, p := Decode(nil, bs)
		if p != "" || derr != nil {
			return append(fails, Failure{"C07.decodes", line, fmt.Sprint(derr, p)})
		}
		if msg := cmpCalls(direct.Calls, decoded, func(int) bool { return true }, false); msg != "" {
			return append(fails, Failure{"C07.direct-equals-via-bytes", line, fmt.Sprintf("rasteriser logs differ (direct %d entries, via bytes %d; first difference: %s) and the decoded program is not the original up to quantisation: %s", len(rec1.Log), len(rec2.Log), firstDiff(rec1.Log, rec2.Log), msg)})
		}
		rec3 := &RecRaster{}
		var z3 render.Renderer
		z3.SetRasterizer(rec3, rect)
		for _, c := range decoded {
			c.Apply(&z3)
		}
		if strings.Join(rec3.Log, ";") != strings.Join(rec2.Log, ";") {
			fails = append(fails, Failure{"C07.direct-equals-via-bytes", line, fmt.Sprintf("rendering the bytes differs from rendering the decoded program directly: first difference: %s", firstDiff(rec3.Log, rec2.Log))})
		}
	}
	return
}

// hiResEncoder keeps HighResolutionCoordinates on across Reset.
type hiResEncoder struct{ *encode.Encoder }

func (h *hiResEncoder) Reset(vb ivg.ViewBox, pal [64]color.RGBA) {
	h.Encoder.Reset(vb, pal)
	h.Encoder.HighResolutionCoordinates = true
}

func firstDiff(a, b []string) string {
	for i := range a {
		if i >= len(b) || !entryClose(a[i], b[i]) {
			if i < len(b) {
				return a[i] + " <> " + b[i]
			}
			return a[i] + " <> (missing)"
		}
	}
	return "(length)"
}

// logsClose: rasteriser logs equal up to the 30-bit float quantisation of register values
// (gradient matrices and stop offsets travel through NREG) — coordinates are exactly representable.
func logsClose(a, b []string) bool {
	if len(a) != len(b) {
		return false
	}
	for i := range a {
		if !entryClose(a[i], b[i]) {
			return false
		}
	}
	return true
}

func entryClose(x, y string) bool {
	if x == y {
		return true
	}
	fx, fy := strings.Fields(x), strings.Fields(y)
	if len(fx) != len(fy) || fx[0] != fy[0] {
		return false
	}
	if fx[0] != "D" {
		return false
	}
	// D x0 y0 x1 y1 paint : compare gradient paints structurally with tolerance
	for i := 1; i < 5; i++ {
		if fx[i] != fy[i] {
			return false
		}
	}
	px, py := strings.Split(fx[5], ":"), strings.Split(fy[5], ":")
	if len(px) != len(py) || px[0] != py[0] || px[1] != py[1] || len(px) < 4 {
		return false
	}
	// shape, spread, stop count equal; the numeric parts may differ by the quantisation of the number registers, and by no
	// more (round 5, C07-J: a stream that lacked the gradient's matrix altogether passed as "close").  Anything beyond
	// that is not a verdict but sends the caller to the exact comparison (decoded program vs original, call by call).
	num := func(t string) (float64, bool) {
		v, err := strconv.ParseUint(t, 16, 64)
		return math.Float64frombits(v), err == nil
	}
	sx, sy := strings.Split(px[2], ","), strings.Split(py[2], ",")
	if len(sx) != len(sy) {
		return false
	}
	for i := range sx {
		ax, ay := strings.SplitN(sx[i], ".", 2), strings.SplitN(sy[i], ".", 2)
		if len(ax) != 2 || len(ay) != 2 || ax[1] != ay[1] {
			return false // stop colours are stored exactly
		}
		u, ok1 := num(ax[0])
		v, ok2 := num(ay[0])
		if ax[0] != ay[0] && (!ok1 || !ok2 || math.Abs(u-v) > math.Ldexp(math.Max(math.Abs(u), math.Abs(v)), -20)) {
			return false
		}
	}
	tx, ty := strings.Split(px[3], "."), strings.Split(py[3], ".")
	if len(tx) != 6 || len(ty) != 6 {
		return false
	}
	var u, v [6]float64
	scale := 0.0
	for i := range tx {
		var ok1, ok2 bool
		u[i], ok1 = num(tx[i])
		v[i], ok2 = num(ty[i])
		if !ok1 || !ok2 {
			if tx[i] != ty[i] {
				return false
			}
			u[i], v[i] = 0, 0
		}
		scale = math.Max(scale, math.Max(math.Abs(u[i]), math.Abs(v[i])))
	}
	for i := range u {
		if !(math.Abs(u[i]-v[i]) <= math.Ldexp(scale, -18)) && tx[i] != ty[i] {
			return false
		}
	}
	return true
}

// ---------- C19 / C20 ----------

func suiteC19(s *Shard, n int) {
	r := s.R
	for i := 0; i < n; i++ {
		var ops []GenOp
		ops = append(ops, GenOp{Kind: "call", Call: Call{Name: "reset", VB: ivg.DefaultViewBox, Pal: ivg.DefaultPalette}})
		// reach an arbitrary selector state by plain or incrementing writes
		cs0, ns0 := uint8(r.Intn(64)), uint8(r.Intn(64))
		if r.Chance(50) {
			// around the stop range [10, 10+n) and where it wraps past 63
			cs0 = []uint8{0, 1, 2, 3, 4, 5, 8, 9, 10, 11, 12, 13, 14, 15, 60, 61, 62, 63}[r.Intn(18)]
			ns0 = []uint8{0, 3, 4, 9, 10, 11, 16, 63}[r.Intn(8)]
		}
		if r.Chance(20) {
			// the selector argument is any byte; both destinations keep its low six bits (round 4, C19-G: a Renderer that
			// stores the argument unmasked answers CSel() = 75 and the helper's overlap test misses)
			cs0 |= uint8(r.Intn(4)) << 6
			ns0 |= uint8(r.Intn(4)) << 6
		}
		ops = append(ops, GenOp{Kind: "call", Call: Call{Name: "csel", U8: cs0}}, GenOp{Kind: "call", Call: Call{Name: "nsel", U8: ns0}})
		for k := r.Intn(20) * r.Intn(2); k > 0; k-- {
			if r.Bool() {
				ops = append(ops, GenOp{Kind: "call", Call: Call{Name: "creg", Incr: true, Col: ivg.RGBAColor(r.Premul())}})
			} else {
				ops = append(ops, GenOp{Kind: "call", Call: Call{Name: "nreg", Incr: true, F: fl(r.Coord())}})
			}
		}
		if r.Chance(30) {
			// a path transform configured earlier on the same Generator is for path data only: the helpers' geometry is in
			// viewBox coordinates whatever it is (round 5, C19-I: the helpers mapped their arguments through it)
			ops = append(ops, GenOp{Kind: "xf", Affs: []generate.Aff3{{float32(1+r.Intn(8)) / 4, 0, float32(r.Intn(40) - 20), 0, float32(1+r.Intn(8)) / 4, float32(r.Intn(40) - 20)}}})
		}
		h := r.GradHelper()
		if len(h.Stops) >= 2 && len(h.Stops) < 50 && r.Chance(20) {
			// a stop given twice in a row (some exporters repeat the last stop) is still a stop given: it is stored and
			// rendered, and the caller's list is the caller's (round 5, C19-J: dropped, compacting the caller's slice in place)
			k := r.Intn(len(h.Stops))
			st := append([]generate.GradientStop(nil), h.Stops[:k+1]...)
			h.Stops = append(st, h.Stops[k:]...)
		}
		ops = append(ops, h)
		square := []GenOp{{Kind: "call", Call: Call{Name: "start", F: fl(-32, -32)}}, {Kind: "call", Call: Call{Name: "L", F: fl(32, -32)}}, {Kind: "call", Call: Call{Name: "L", F: fl(32, 32)}}, {Kind: "call", Call: Call{Name: "L", F: fl(-32, 32)}}, {Kind: "call", Call: Call{Name: "Z"}}}
		ops = append(ops, square...)
		if len(h.Stops) >= 2 && len(h.Stops) < 30 && r.Chance(25) {
			// the same stop list (the very same slice) given again later on the same Generator — after the graphic was
			// reset, or after other writes went over the stop registers: every call of a helper stores its stops (round 6,
			// C19-K: a helper that recognises the slice it stored last and skips storing it again)
			if r.Bool() {
				ops = append(ops, GenOp{Kind: "call", Call: Call{Name: "reset", VB: ivg.DefaultViewBox, Pal: ivg.DefaultPalette}})
			} else {
				ops = append(ops, GenOp{Kind: "call", Call: Call{Name: "csel", U8: 10}}, GenOp{Kind: "call", Call: Call{Name: "nsel", U8: 10}})
				for k := 1 + r.Intn(4); k > 0; k-- {
					ops = append(ops, GenOp{Kind: "call", Call: Call{Name: "creg", Incr: true, Col: ivg.RGBAColor(r.Premul())}},
						GenOp{Kind: "call", Call: Call{Name: "nreg", Incr: true, F: fl(float32(r.Intn(8)) / 8)}})
				}
				ops = append(ops, GenOp{Kind: "call", Call: Call{Name: "csel", U8: uint8(r.Intn(10))}}, GenOp{Kind: "call", Call: Call{Name: "nsel", U8: uint8(r.Intn(4))}})
			}
			h2 := h // same Stops slice
			ops = append(ops, h2)
			ops = append(ops, square...)
		}
		line := GenCase(ops)
		obs := s.EmitRun(line)
		s.Sig("g19:" + h.Kind + fmt.Sprint(len(h.Stops) > 58, strings.Contains(obs, "CSEL_used")))
		for _, f := range monitorC19(line, ops, h) {
			s.Fail(f.Clause, f.Case, f.Detail)
		}
		for _, f := range monitorC07(line, ops, s) {
			s.Fail(f.Clause, f.Case, f.Detail)
		}
		// "when rendered": the delivered calls into a Renderer over any rectangle (offset, non-uniform scale);
		// the paint must follow the matrix the helper wrote, which monitorC19 has tied to the requested geometry
		dst := &Recorder{}
		var sels [][2]uint8
		if _, p := runGenInto(dst, ops, &sels); p == "" && len(dst.Calls) < 400 {
			rect := r.Rect()
			var smp []image.Point
			for k := 0; k < 10; k++ {
				smp = append(smp, image.Pt(r.Intn(rect.Dx()*2)-rect.Dx()/2, r.Intn(rect.Dy()*2)-rect.Dy()/2))
			}
			s.emitRen(rect, smp, dst.Calls)
			for _, f := range monitorGradient(RenCase(rect, smp, dst.Calls), rect, smp, dst.Calls) {
				s.Fail("C19.rendered/"+f.Clause, f.Case, f.Detail)
			}
		}
	}
}

func (r *RNG) PathNumber() string {
	var sb strings.Builder
	switch r.Intn(3) {
	case 0:
		sb.WriteByte('-')
	case 1:
		if r.Chance(20) {
			sb.WriteByte('+')
		}
	}
	switch r.Intn(4) {
	case 0:
		fmt.Fprintf(&sb, "%d", r.Intn(100))
	case 1:
		fmt.Fprintf(&sb, ".%d", r.Intn(1000))
	default:
		fmt.Fprintf(&sb, "%d.%d", r.Intn(48), r.Intn(1000))
	}
	return sb.String()
}

// PathData spells a random command list in the generator's (arcs, commas) or the converter's dialect.
func (r *RNG) PathData(converter bool) string {
	var sb strings.Builder
	verbs := "LlHhVvCcSsQqTt"
	if !converter {
		verbs += "AaLlCc"
	}
	nums := func(n int, first bool) {
		for i := 0; i < n; i++ {
			tok := r.PathNumber()
			if i > 0 || !first {
				// separator: space, comma, or nothing when the sign/dot separates
				switch {
				case tok[0] == '-' && r.Chance(50):
				case tok[0] == '.' && strings.Contains(lastNumber(sb.String()), ".") && r.Chance(40):
				case !converter && r.Chance(30):
					sb.WriteByte(',')
				default:
					sb.WriteByte(' ')
				}
			}
			sb.WriteString(tok)
		}
	}
	arcNums := func(first bool) {
		// rx ry rot large sweep x y : flags are 0/1 tokens
		toks := []string{strings.TrimLeft(r.PathNumber(), "+-"), strings.TrimLeft(r.PathNumber(), "+-"), fmt.Sprint(r.Intn(360)), fmt.Sprint(r.Intn(2)), fmt.Sprint(r.Intn(2)), r.PathNumber(), r.PathNumber()}
		for i, t := range toks {
			if i > 0 || !first {
				if r.Chance(30) {
					sb.WriteByte(',')
				} else {
					sb.WriteByte(' ')
				}
			}
			sb.WriteString(t)
		}
	}
	if converter || r.Bool() {
		sb.WriteByte('M')
	} else {
		sb.WriteByte('m')
	}
	nums(2, true)
	if !converter && r.Chance(20) { // implicit lines after M
		nums(2, false)
	}
	for k := 1 + r.Intn(6); k > 0; k-- {
		v := verbs[r.Intn(len(verbs))]
		if converter && r.Chance(30) {
			sb.WriteByte(' ')
		}
		sb.WriteByte(v)
		n := map[byte]int{'L': 2, 'H': 1, 'V': 1, 'C': 6, 'S': 4, 'Q': 4, 'T': 2}[v&^0x20]
		reps := 1
		if r.Chance(30) {
			reps = 2 + r.Intn(2)
		}
		for j := 0; j < reps; j++ {
			if v == 'A' || v == 'a' {
				arcNums(j == 0)
			} else {
				nums(n, j == 0)
			}
		}
		if r.Chance(15) { // new sub-path
			sb.WriteByte('z')
			if converter || r.Bool() {
				sb.WriteByte('M')
			} else {
				sb.WriteByte('m')
			}
			nums(2, true)
		}
	}
	if !converter || r.Chance(70) {
		sb.WriteByte('z')
	}
	return sb.String()
}

func lastNumber(s string) string {
	i := len(s)
	for i > 0 && (s[i-1] == '.' || s[i-1] >= '0' && s[i-1] <= '9') {
		i--
	}
	return s[i:]
}

func suiteC20(s *Shard, n int) {
	r := s.R
	for i := 0; i < n; i++ {
		if r.Bool() {
			var ops []GenOp
			d := ""
			// one Generator, re-configured between paths
			for round := 1 + r.Intn(2)*r.Intn(3); round > 0; round-- {
				if r.Chance(70) {
					var affs []generate.Aff3
					for k := 1 + r.Intn(3); k > 0; k-- {
						if r.Bool() {
							affs = append(affs, generate.Scale(float32(1+r.Intn(8))/2, float32(1+r.Intn(8))/2))
						} else {
							affs = append(affs, generate.Translate(float32(r.Intn(64)-32), float32(r.Intn(64)-32)))
						}
					}
					ops = append(ops, GenOp{Kind: "xf", Affs: affs})
				}
				d = r.PathData(false)
				ops = append(ops, GenOp{Kind: "path", Adj: uint8(r.Intn(7)), Path: d})
			}
			line := GenCase(ops)
			obs := s.EmitRun(line)
			s.Sig("p:" + verbSet(d) + fmt.Sprint(len(ops)))
			for _, f := range monitorPathData(line, ops, obs) {
				s.Fail(f.Clause, f.Case, f.Detail)
			}
		} else {
			size := []float32{24, 48, 32}[r.Intn(3)]
			outSize := []float32{48, 24, 64}[r.Intn(3)]
			off := f32.Vec2{float32(r.Intn(5)) * outSize / size, float32(r.Intn(5)) * outSize / size}
			var paths []MdPath
			nPaths, pOpacity := 1+r.Intn(3), 40
			if r.Chance(12) {
				// an icon with many translucent paths: up to six registers, then reuse
				nPaths, pOpacity = 6+r.Intn(6), 90
			}
			for k := nPaths; k > 0; k-- {
				p := MdPath{Opacity: 1, D: r.PathData(true)}
				if r.Chance(pOpacity) {
					p.Opacity = []float32{0.3, 0.54, 0.9, 0.3}[r.Intn(4)]
					if nPaths > 3 {
						p.Opacity = []float32{0.3, 0.54, 0.9, 0.125, 0.25, 0.375, 0.5, 0.75}[r.Intn(8)]
					}
				}
				if r.Chance(25) {
					for c := 1 + r.Intn(2); c > 0; c-- {
						p.Circles = append(p.Circles, mdicons.Circle{Cx: float32(r.Intn(48)), Cy: float32(r.Intn(48)), R: float32(1+r.Intn(20)) / 2})
					}
				}
				if r.Chance(10) {
					p.D = ""
					if len(p.Circles) == 0 {
						p.Circles = []mdicons.Circle{{Cx: 12, Cy: 12, R: 5}}
					}
				}
				paths = append(paths, p)
			}
			line := MdiCase(size, off, outSize, paths)
			obs, _ := RunMdi(size, off, outSize, paths)
			s.Emit(line, obs)
			for _, f := range monitorMdi(line, size, off, outSize, paths) {
				s.Fail(f.Clause, f.Case, f.Detail)
			}
			if i%5 == 0 && s.Work != "" {
				// the same icon as an SVG file through ParseFile (viewBox origin chosen so that the offset is `off`)
				fo := make([]bool, len(paths))
				for k := range fo {
					fo[k] = r.Bool()
				}
				for _, f := range monitorParseFile(s.Work, s.Index, line, size, off[0]*size/outSize, off[1]*size/outSize, outSize, paths, fo) {
					s.Fail(f.Clause, f.Case, f.Detail)
				}
			}
			s.Sig("m:" + fmt.Sprint(len(paths), strings.Count(obs, "creg")))
		}
	}
}

func verbSet(d string) string {
	seen := map[rune]bool{}
	for _, c := range d {
		if c >= 'A' && c <= 'z' {
			seen[c] = true
		}
	}
	var ks []string
	for k := range seen {
		ks = append(ks, string(k))
	}
	sortStrings(ks)
	return strings.Join(ks, "")
}

func init() {
	reg := func(name string, f SuiteFunc, q, t int, m func(string) []Failure) {
		Suites[name] = f
		Budgets[name] = [2]int{q, t}
		if m != nil {
			Monitors[name] = m
		}
	}
	reg("C02", suiteC02, 4000, 300000, monitorC02)
	reg("C03", suiteC03, 4000, 300000, nil)
	reg("C04", suiteC04, 3000, 200000, nil)
	reg("C05", suiteC05, 3000, 200000, nil)
	reg("C06", suiteC06, 3000, 150000, nil)
	reg("C07", suiteC07, 2000, 100000, nil)
	reg("C08", suiteC08, 6000, 400000, monitorC01)
	reg("C09", suiteC09, 3000, 200000, monitorC01)
	reg("C10", suiteC10, 5000, 300000, monitorC10)
	reg("C11", suiteC11, 3000, 200000, monitorC11)
	reg("C12", suiteC12, 20000, 2000000, nil)
	reg("C13", suiteC13, 5000, 300000, nil)
	reg("C14", suiteC14, 2000, 100000, nil)
	reg("C15", suiteC15, 2000, 100000, nil)
	reg("C17", suiteC17, 2000, 100000, nil)
	reg("C19", suiteC19, 2000, 100000, nil)
	reg("C20", suiteC20, 4000, 200000, nil)
}
