package h

// Protocol automaton of the Destination API (specification side, used by monitors).
type PState int

const (
	PFresh PState = iota
	PStyling
	PDrawing
	PFailed
)

// PStep advances the protocol automaton; it returns PFailed on the first violation.
func PStep(s PState, c Call) PState {
	if c.Name == "reset" {
		return PStyling
	}
	if s == PFailed {
		return PFailed
	}
	switch c.Name {
	case "rc", "rn", "rlod", "bytes":
		if s == PFresh {
			return PStyling
		}
		return s
	case "hires", "rast":
		return s
	case "csel", "nsel", "lod":
		if s == PDrawing {
			return PFailed
		}
		return PStyling
	case "creg", "nreg":
		if s == PDrawing || c.Adj > 6 || (c.Incr && c.Adj != 0) {
			return PFailed
		}
		return PStyling
	case "start":
		if s == PDrawing || c.Adj > 6 {
			return PFailed
		}
		return PDrawing
	case "Z":
		if s != PDrawing {
			return PFailed
		}
		return PStyling
	default: // drawing ops
		if s != PDrawing {
			return PFailed
		}
		return PDrawing
	}
}

// WellFormedClosed reports whether the Destination calls obey the protocol and end every path.
func WellFormedClosed(cs []Call) bool {
	s := PFresh
	for _, c := range cs {
		s = PStep(s, c)
	}
	return s == PStyling || s == PFresh
}
