package h

import (
	"fmt"
	"image"
	"image/color"
	"math"
	"regexp"
	"strconv"
	"strings"

	"github.com/reactivego/ivg/generate"

	"github.com/reactivego/ivg"
	"github.com/reactivego/ivg/mdicons"
	"github.com/reactivego/ivg/render"
	"golang.org/x/image/math/f32"
)

// Independent reference implementations written from spec/iconvg-spec-v0.md and the property
// texts (not from render.go): the register machine, SVG path semantics in viewBox space, the
// viewBox-to-rectangle map.  Used as monitors: predicates on the implementation's observations.

// ---------- the specification's virtual machine ----------

type vm struct {
	pal, creg  [64]color.RGBA
	nreg       [64]float32
	csel, nsel uint8
	lod0, lod1 float32
}

func (m *vm) reset(pal [64]color.RGBA) {
	*m = vm{pal: pal, creg: pal, lod1: float32(math.Inf(1))}
}

func (m *vm) resolve1(x uint8) color.RGBA {
	switch {
	case x >= 0xc0:
		return m.creg[x&0x3f]
	case x >= 0x80:
		return m.pal[x&0x3f]
	case x == 127:
		return color.RGBA{}
	case x == 126:
		return color.RGBA{0x80, 0x80, 0x80, 0x80}
	case x == 125:
		return color.RGBA{0xc0, 0xc0, 0xc0, 0xc0}
	}
	t := [5]uint8{0, 0x40, 0x80, 0xc0, 0xff}
	return color.RGBA{t[x/25], t[x/5%5], t[x%5], 0xff}
}

func (m *vm) resolve(c ivg.Color) color.RGBA {
	typ, d := ColorParts(c)
	switch typ {
	case 0:
		return d
	case 1:
		return m.pal[d.R&0x3f]
	case 2:
		return m.creg[d.R&0x3f]
	}
	a, b := m.resolve1(d.G), m.resolve1(d.B)
	t := uint32(d.R)
	ch := func(x, y uint8) uint8 { return uint8(((255-t)*uint32(x) + t*uint32(y) + 128) / 255) }
	return color.RGBA{ch(a.R, b.R), ch(a.G, b.G), ch(a.B, b.B), ch(a.A, b.A)}
}

func premul(c color.RGBA) bool { return c.R <= c.A && c.G <= c.A && c.B <= c.A }

// step executes a styling call; for "start" it returns the paint descriptor the path must be
// filled with ("" = the path must cause no rasteriser activity).
func (m *vm) step(c Call, height int) (paint string, isStart bool) {
	switch c.Name {
	case "reset":
		m.reset(c.Pal)
	case "csel":
		m.csel = c.U8 & 0x3f
	case "nsel":
		m.nsel = c.U8 & 0x3f
	case "creg":
		m.creg[(m.csel-c.Adj)&0x3f] = m.resolve(c.Col)
		if c.Incr {
			m.csel = (m.csel + 1) & 0x3f
		}
	case "nreg":
		m.nreg[(m.nsel-c.Adj)&0x3f] = c.F[0]
		if c.Incr {
			m.nsel = (m.nsel + 1) & 0x3f
		}
	case "lod":
		m.lod0, m.lod1 = c.F[0], c.F[1]
	case "start":
		isStart = true
		h := float32(height)
		if !(m.lod0 <= h && h < m.lod1) {
			return "", true
		}
		col := m.creg[(m.csel-c.Adj)&0x3f]
		if premul(col) {
			if col.A == 0 {
				return "", true
			}
			return "U" + HexRGBA(col), true
		}
		if col.A == 0 && col.B&0x80 != 0 {
			nStops, cBase, nBase := int(col.R&0x3f), col.G&0x3f, col.B&0x3f
			shape, spread := (col.B>>6)&1, col.G>>6
			if nStops < 2 {
				return "", true
			}
			prev := float32(math.Inf(-1))
			var st []string
			for i := 0; i < nStops; i++ {
				sc := m.creg[(cBase+uint8(i))&0x3f]
				off := m.nreg[(nBase+uint8(i))&0x3f]
				if !premul(sc) || !(0 <= off && off <= 1) || !(off > prev) {
					return "", true
				}
				prev = off
				st = append(st, showF64A(float64(off))+"."+HexRGBA(sc))
			}
			return fmt.Sprintf("G%d%d:%d:%s", shape, spread, nStops, strings.Join(st, ",")), true
		}
		return "", true
	}
	return "", false
}

// monitorVM: C04 — every path is painted with what the VM prescribes, or causes no activity.
func monitorVM(line string, rect image.Rectangle, cs []Call) (fails []Failure) {
	rec := &RecRaster{}
	var z render.Renderer
	z.SetRasterizer(rec, rect)
	var m vm
	want := ""
	inPath := false
	mark := 0
	defer func() {
		if p := recover(); p != nil {
			fails = append(fails, Failure{"C04.no-panic", line, fmt.Sprint(p)})
		}
	}()
	zp := &z
	copyAt := -1
	if len(line)%3 == 0 && len(cs) > 0 {
		// from this call on, the first time the machine is between two paths
		copyAt = (len(line) / 3) % len(cs)
	}
	for i, c := range cs {
		if c.Name == "rast" {
			rect = c.Rect
			rec.Fresh()
			zp.SetRasterizer(rec, rect)
			continue
		}
		if !c.IsDest() {
			continue
		}
		if copyAt >= 0 && copyAt < i && !inPath {
			copyAt = i
		}
		if p, isStart := m.step(c, rect.Dy()); isStart {
			want, inPath, mark = p, true, len(rec.Log)
		}
		if !inPath && copyAt == i {
			// a Renderer is a plain struct: a copy made between two paths carries on where the original was (round 5,
			// C04-I: the flat-colour image wired to the colour field only once, so a copy painted with the original's colour)
			cp := *zp
			zp = &cp
		}
		c.Apply(zp)
		if inPath && want == "" && len(rec.Log) != mark {
			return append(fails, Failure{"C04.skipped-path-silent", line, fmt.Sprintf("call %d (%s): rasteriser activity %q in a path the VM skips", i, c.Name, rec.Log[len(rec.Log)-1])})
		}
		if !inPath && len(rec.Log) != mark {
			return append(fails, Failure{"C04.styling-silent", line, fmt.Sprintf("call %d (%s) outside a path caused rasteriser activity", i, c.Name)})
		}
		if c.Name == "Z" && inPath {
			inPath = false
			if want != "" {
				last := ""
				if len(rec.Log) > mark {
					last = rec.Log[len(rec.Log)-1]
				}
				f := strings.Fields(last)
				if len(f) < 6 || f[0] != "D" {
					return append(fails, Failure{"C04.path-drawn", line, fmt.Sprintf("path ending at call %d was not drawn (VM prescribes %s)", i, want)})
				}
				if len(f) > 6 && strings.HasPrefix(f[6], "sp=") {
					// the paint is in the rectangle's own pixel coordinates: sampling it from another source point
					// fills the path with a shifted paint
					return append(fails, Failure{"C04.paint", line, fmt.Sprintf("path ending at call %d: the paint is sampled from source point %s, not from the origin of its pixel space", i, f[6][3:])})
				}
				got := f[5]
				if strings.HasPrefix(want, "G") {
					// compare shape, spread, count, stops (not the pixel-space matrix)
					gp := strings.SplitN(got, ":", 4)
					if len(gp) < 3 || strings.Join(gp[:3], ":") != want {
						return append(fails, Failure{"C04.paint", line, fmt.Sprintf("path ending at call %d: paint %s, VM prescribes %s", i, got, want)})
					}
				} else if got != want {
					return append(fails, Failure{"C04.paint", line, fmt.Sprintf("path ending at call %d: paint %s, VM prescribes %s", i, got, want)})
				}
				nD := 0
				for _, e := range rec.Log[mark:] {
					if strings.HasPrefix(e, "D ") {
						nD++
					}
				}
				if nD != 1 {
					return append(fails, Failure{"C04.drawn-once", line, fmt.Sprintf("path drawn %d times", nD)})
				}
			}
			mark = len(rec.Log)
		}
		if zp.CSel()&0x3f != m.csel || zp.NSel()&0x3f != m.nsel {
			return append(fails, Failure{"C04.selectors", line, fmt.Sprintf("after call %d: renderer selectors %d/%d, VM %d/%d", i, zp.CSel(), zp.NSel(), m.csel, m.nsel)})
		}
	}
	return
}

// ---------- SVG path semantics + viewBox map (C05) ----------

func parseLogFloats(entry string) (op string, v []float64, ok bool) {
	f := strings.Fields(entry)
	if len(f) == 0 {
		return "", nil, false
	}
	op = f[0]
	if op == "R" || op == "D" || op == "Z" || strings.HasPrefix(op, "s=") {
		return op, nil, true
	}
	for _, t := range f[1:] {
		if t == "nan" {
			v = append(v, math.NaN())
			continue
		}
		u, err := strconv.ParseUint(t, 16, 32)
		if err != nil {
			return op, nil, false
		}
		v = append(v, float64(math.Float32frombits(uint32(u))))
	}
	return op, v, true
}

type pt struct{ x, y float64 }

// monitorGeometry: C05 — segments as spelled, mapped by the affine viewBox->rectangle map.
func monitorGeometry(line string, rect image.Rectangle, cs []Call) (fails []Failure) {
	rec := &RecRaster{}
	var z render.Renderer
	z.SetRasterizer(rec, rect)
	defer func() {
		if p := recover(); p != nil {
			fails = append(fails, Failure{"C05.no-panic", line, fmt.Sprint(p)})
		}
	}()
	var vb ivg.ViewBox
	var pen, start, ctrl pt // viewBox space
	ctrlKind := 0           // 0 none, 2 quad, 3 cube
	W, H := float64(rect.Dx()), float64(rect.Dy())
	T := func(p pt) pt {
		return pt{W * (p.x - float64(vb.MinX)) / (float64(vb.MaxX) - float64(vb.MinX)), H * (p.y - float64(vb.MinY)) / (float64(vb.MaxY) - float64(vb.MinY))}
	}
	mag := 1.0
	near := func(got []float64, want ...pt) bool {
		if len(got) != 2*len(want) {
			return false
		}
		for i, w := range want {
			tw := T(w)
			tol := 2e-4 * (mag + math.Abs(tw.x) + math.Abs(tw.y) + W + H)
			if math.Abs(got[2*i]-tw.x) > tol || math.Abs(got[2*i+1]-tw.y) > tol {
				return false
			}
		}
		return true
	}
	for i, c := range cs {
		if c.Name == "rast" {
			rect = c.Rect
			rec.Fresh()
			z.SetRasterizer(rec, rect)
			W, H = float64(rect.Dx()), float64(rect.Dy())
			continue
		}
		if !c.IsDest() {
			continue
		}
		before := len(rec.Log)
		c.Apply(&z)
		delta := rec.Log[before:]
		bad := func(msg string) []Failure {
			return append(fails, Failure{"C05.geometry", line, fmt.Sprintf("call %d (%s): %s; rasteriser got %v", i, c.String(), msg, delta)})
		}
		f := make([]float64, len(c.F))
		for k, v := range c.F {
			f[k] = float64(v)
			if a := math.Abs(f[k]) * math.Max(W/(float64(vb.MaxX)-float64(vb.MinX)), H/(float64(vb.MaxY)-float64(vb.MinY))); a > mag && !math.IsInf(a, 0) && !math.IsNaN(a) {
				mag = a
			}
		}
		expectOne := func(op string, pts ...pt) []Failure {
			if len(delta) != 1 {
				return bad("expected exactly one " + op)
			}
			o, v, ok := parseLogFloats(delta[0])
			if !ok || o != op || !near(v, pts...) {
				return bad(fmt.Sprintf("expected %s to %v (mapped)", op, pts))
			}
			return nil
		}
		rel := func(k int) pt { return pt{pen.x + f[k], pen.y + f[k+1]} }
		abs := func(k int) pt { return pt{f[k], f[k+1]} }
		reflect := func(kind int) pt {
			if ctrlKind == kind {
				return pt{2*pen.x - ctrl.x, 2*pen.y - ctrl.y}
			}
			return pen
		}
		switch c.Name {
		case "reset":
			vb = c.VB
			if len(delta) != 0 {
				return bad("Reset must not touch the rasteriser")
			}
		case "start":
			p := abs(0)
			if len(delta) != 2 || delta[0] != fmt.Sprintf("R %d %d", rect.Dx(), rect.Dy()) {
				return bad("expected Reset(w,h) then MoveTo")
			}
			o, v, ok := parseLogFloats(delta[1])
			if !ok || o != "M" || !near(v, p) {
				return bad("expected MoveTo to the mapped start point")
			}
			pen, start, ctrlKind = p, p, 0
		case "Z":
			if len(delta) != 2 || delta[0] != "Z" || !strings.HasPrefix(delta[1], fmt.Sprintf("D %d %d %d %d ", rect.Min.X, rect.Min.Y, rect.Max.X, rect.Max.Y)) || strings.Contains(delta[1], "sp=") {
				return bad("expected ClosePath then Draw over the target rectangle at (0,0)")
			}
			pen = start
		case "Y", "y":
			p := abs(0)
			if c.Name == "y" {
				p = pt{start.x + f[0], start.y + f[1]}
			}
			if len(delta) != 2 || delta[0] != "Z" {
				return bad("expected ClosePath then MoveTo")
			}
			o, v, ok := parseLogFloats(delta[1])
			if !ok || o != "M" || !near(v, p) {
				return bad("expected MoveTo (relative moves are relative to the sub-path start)")
			}
			pen, start, ctrlKind = p, p, 0
		case "H", "h", "V", "v", "L", "l":
			var p pt
			switch c.Name {
			case "H":
				p = pt{f[0], pen.y}
			case "h":
				p = pt{pen.x + f[0], pen.y}
			case "V":
				p = pt{pen.x, f[0]}
			case "v":
				p = pt{pen.x, pen.y + f[0]}
			case "L":
				p = abs(0)
			default:
				p = rel(0)
			}
			if r := expectOne("L", p); r != nil {
				return r
			}
			pen, ctrlKind = p, 0
		case "T", "t":
			c1 := reflect(2)
			p := abs(0)
			if c.Name == "t" {
				p = rel(0)
			}
			if r := expectOne("Q", c1, p); r != nil {
				return r
			}
			pen, ctrl, ctrlKind = p, c1, 2
		case "Q", "q":
			c1, p := abs(0), abs(2)
			if c.Name == "q" {
				c1, p = rel(0), rel(2)
			}
			if r := expectOne("Q", c1, p); r != nil {
				return r
			}
			pen, ctrl, ctrlKind = p, c1, 2
		case "S", "s":
			c1 := reflect(3)
			c2, p := abs(0), abs(2)
			if c.Name == "s" {
				c2, p = rel(0), rel(2)
			}
			if r := expectOne("C", c1, c2, p); r != nil {
				return r
			}
			pen, ctrl, ctrlKind = p, c2, 3
		case "C", "c":
			c1, c2, p := abs(0), abs(2), abs(4)
			if c.Name == "c" {
				c1, c2, p = rel(0), rel(2), rel(4)
			}
			if r := expectOne("C", c1, c2, p); r != nil {
				return r
			}
			pen, ctrl, ctrlKind = p, c2, 3
		}
	}
	return
}

// ---------- arcs (C06) ----------

// svgArcCentre is the SVG implementation-note conversion from endpoint to centre parameterisation,
// written independently in float64 (F.6.5/F.6.6): returns centre, (scaled) radii, theta1, deltaTheta.
func svgArcCentre(x1, y1, x2, y2, rx, ry, phi float64, largeArc, sweep bool) (cx, cy, Rx, Ry, th1, dth float64) {
	rx, ry = math.Abs(rx), math.Abs(ry)
	c, s := math.Cos(phi), math.Sin(phi)
	dx, dy := (x1-x2)/2, (y1-y2)/2
	x1p, y1p := c*dx+s*dy, -s*dx+c*dy
	lam := x1p*x1p/(rx*rx) + y1p*y1p/(ry*ry)
	if lam > 1 {
		k := math.Sqrt(lam)
		rx, ry = rx*k, ry*k
	}
	num := rx*rx*ry*ry - rx*rx*y1p*y1p - ry*ry*x1p*x1p
	den := rx*rx*y1p*y1p + ry*ry*x1p*x1p
	co := 0.0
	if num > 0 && den > 0 {
		co = math.Sqrt(num / den)
	}
	if largeArc == sweep {
		co = -co
	}
	cxp, cyp := co*rx*y1p/ry, -co*ry*x1p/rx
	cx, cy = c*cxp-s*cyp+(x1+x2)/2, s*cxp+c*cyp+(y1+y2)/2
	ang := func(ux, uy, vx, vy float64) float64 {
		a := math.Atan2(ux*vy-uy*vx, ux*vx+uy*vy)
		return a
	}
	th1 = ang(1, 0, (x1p-cxp)/rx, (y1p-cyp)/ry)
	dth = ang((x1p-cxp)/rx, (y1p-cyp)/ry, (-x1p-cxp)/rx, (-y1p-cyp)/ry)
	if sweep && dth < 0 {
		dth += 2 * math.Pi
	} else if !sweep && dth > 0 {
		dth -= 2 * math.Pi
	}
	return cx, cy, rx, ry, th1, dth
}

// monitorArcs: C06 — at most four cubics from the pen to the mapped endpoint through points of the
// requested ellipse, sweeping as the flags say; zero radius = a straight line to the mapped endpoint.
func monitorArcs(line string, rect image.Rectangle, cs []Call) (fails []Failure) {
	rec := &RecRaster{}
	var z render.Renderer
	z.SetRasterizer(rec, rect)
	defer func() {
		if p := recover(); p != nil {
			fails = append(fails, Failure{"C06.no-panic", line, fmt.Sprint(p)})
		}
	}()
	var vb ivg.ViewBox
	W, H := float64(rect.Dx()), float64(rect.Dy())
	for i, c := range cs {
		if c.Name == "rast" {
			rect = c.Rect
			rec.Fresh()
			z.SetRasterizer(rec, rect)
			W, H = float64(rect.Dx()), float64(rect.Dy())
			continue
		}
		if !c.IsDest() {
			continue
		}
		if c.Name == "reset" {
			vb = c.VB
		}
		px, py := rec.Pen()
		before := len(rec.Log)
		c.Apply(&z)
		if c.Name != "A" && c.Name != "a" {
			continue
		}
		delta := rec.Log[before:]
		sx, sy := W/(float64(vb.MaxX)-float64(vb.MinX)), H/(float64(vb.MaxY)-float64(vb.MinY))
		unT := func(x, y float64) (float64, float64) { return x/sx + float64(vb.MinX), y/sy + float64(vb.MinY) }
		T := func(x, y float64) (float64, float64) { return (x - float64(vb.MinX)) * sx, (y - float64(vb.MinY)) * sy }
		x1, y1 := unT(float64(px), float64(py))
		x2, y2 := float64(c.F[3]), float64(c.F[4])
		if c.Name == "a" {
			x2, y2 = x1+x2, y1+y2
		}
		ex, ey := T(x2, y2)
		rx, ry := float64(c.F[0]), float64(c.F[1])
		scale := math.Abs(ex) + math.Abs(ey) + math.Abs(float64(px)) + math.Abs(float64(py)) + (math.Abs(rx)+math.Abs(ry))*(sx+sy) + W + H
		tol := 2e-3 * scale
		bad := func(clause, msg string) []Failure {
			return append(fails, Failure{clause, line, fmt.Sprintf("call %d (%s): %s; rasteriser got %v", i, c.String(), msg, delta)})
		}
		if !(math.Abs(rx) > 0 && math.Abs(ry) > 0) {
			if len(delta) != 1 {
				return bad("C06.zero-radius-line", "a zero radius must give exactly one LineTo")
			}
			op, v, ok := parseLogFloats(delta[0])
			if !ok || op != "L" || math.Abs(v[0]-ex) > tol || math.Abs(v[1]-ey) > tol {
				return bad("C06.zero-radius-line", fmt.Sprintf("expected LineTo to the mapped endpoint (%g,%g)", ex, ey))
			}
			continue
		}
		if x1 == x2 && y1 == y2 || math.IsNaN(rx+ry+x2+y2+float64(c.F[2])) {
			continue // outside the quantifier (coincident end points, non-finite operands)
		}
		if c.Name == "a" {
			// the relative end point is formed in the rasteriser's float32 pixel space (pen + scale·offset): an
			// offset below the resolution of float32 at the pen leaves the end point ON the pen — coincident
			// end points at the only resolution the interface has
			if px+float32(sx)*c.F[3] == px && py+float32(sy)*c.F[4] == py {
				continue
			}
			// … and both end points return to viewBox space through float32 (x/scale − bias): far from the
			// viewBox origin that resolution is coarser still, and the two may coincide there
			sx32, sy32 := float32(W)/(vb.MaxX-vb.MinX), float32(H)/(vb.MaxY-vb.MinY)
			ux := func(p float32) float32 { return p/sx32 - (-vb.MinX) }
			uy := func(p float32) float32 { return p/sy32 - (-vb.MinY) }
			if ux(px) == ux(px+sx32*c.F[3]) && uy(py) == uy(py+sy32*c.F[4]) {
				continue
			}
		}
		if len(delta) == 0 || len(delta) > 4 {
			return bad("C06.at-most-four-cubics", fmt.Sprintf("%d segments", len(delta)))
		}
		cx, cy, Rx, Ry, _, dth := svgArcCentre(x1, y1, x2, y2, rx, ry, 2*math.Pi*float64(c.F[2]), c.La, c.Sw)
		cphi, sphi := math.Cos(2*math.Pi*float64(c.F[2])), math.Sin(2*math.Pi*float64(c.F[2]))
		// near-degenerate geometry (end points almost diametrically opposite for the given radii) is ill-conditioned
		illCond := math.Abs(math.Abs(dth)-math.Pi) < 1e-3 || math.Abs(dth) < 1e-3 || math.Abs(math.Abs(dth)-2*math.Pi) < 1e-3
		// the Renderer maps through float32 (x + bias, then scale): the resolution of that map in viewBox units.
		// An ellipse whose smaller radius is not at least a thousand times that resolution is below what the
		// float32 rasteriser interface can express; its shape is not checked (end point and segment count are).
		magView := math.Max(math.Max(math.Abs(float64(vb.MinX)), math.Abs(float64(vb.MaxX))), math.Max(math.Abs(float64(vb.MinY)), math.Abs(float64(vb.MaxY))))
		pixMag := math.Max(math.Max(math.Abs(ex), math.Abs(ey)), math.Max(math.Abs(float64(px)), math.Abs(float64(py)))) + W + H
		viewErr := (magView + math.Abs(x1) + math.Abs(y1) + math.Abs(x2) + math.Abs(y2) + pixMag/math.Min(sx, sy)) / (1 << 22)
		if viewErr > 1e-3*math.Min(Rx, Ry) {
			illCond = true
		}
		// … and both END POINTS reach the routine at that resolution (the pen comes back from float32 pixel space): an
		// error e in an end point turns a chord of length L by e/L, and with it the centre about the chord's midpoint — a
		// relative shape error of e/L.  A chord that is not at least a thousand times the resolution does not determine
		// the ellipse to the tolerance used below (thorough tier, seed 5: a chord of 0.09 units in a viewBox 22 000 units
		// from its origin, resolution 0.005; model and implementation agree bit for bit)
		if viewErr > 1e-3*math.Hypot(x2-x1, y2-y1) {
			illCond = true
		}
		onEllipse := func(x, y float64) float64 {
			vx, vy := unT(x, y)
			ux, uy := cphi*(vx-cx)+sphi*(vy-cy), -sphi*(vx-cx)+cphi*(vy-cy)
			return math.Abs(ux*ux/(Rx*Rx) + uy*uy/(Ry*Ry) - 1)
		}
		prevAng, total := 0.0, 0.0
		startVX, startVY := x1, y1
		ux0, uy0 := cphi*(startVX-cx)+sphi*(startVY-cy), -sphi*(startVX-cx)+cphi*(startVY-cy)
		prevAng = math.Atan2(uy0/Ry, ux0/Rx)
		var lastX, lastY float64
		for _, e := range delta {
			op, v, ok := parseLogFloats(e)
			if !ok || op != "C" || len(v) != 6 {
				return bad("C06.cubics-only", "an arc must be emitted as cubic segments")
			}
			lastX, lastY = v[4], v[5]
			if !illCond {
				if r := onEllipse(v[4], v[5]); r > 2e-2 {
					return bad("C06.on-ellipse", fmt.Sprintf("segment end (%g,%g) is off the ellipse (residual %g)", v[4], v[5], r))
				}
				vx, vy := unT(v[4], v[5])
				ux, uy := cphi*(vx-cx)+sphi*(vy-cy), -sphi*(vx-cx)+cphi*(vy-cy)
				a := math.Atan2(uy/Ry, ux/Rx)
				d := a - prevAng
				for d > math.Pi {
					d -= 2 * math.Pi
				}
				for d < -math.Pi {
					d += 2 * math.Pi
				}
				total += d
				prevAng = a
			}
		}
		if math.Abs(lastX-ex) > tol || math.Abs(lastY-ey) > tol {
			return bad("C06.ends-at-endpoint", fmt.Sprintf("arc ends at (%g,%g), mapped endpoint is (%g,%g)", lastX, lastY, ex, ey))
		}
		if !illCond {
			if c.Sw && total < 0 || !c.Sw && total > 0 {
				return bad("C06.sweep-direction", fmt.Sprintf("swept %g rad with sweep=%v", total, c.Sw))
			}
			if (math.Abs(total) > math.Pi+1e-2) != c.La && math.Abs(math.Abs(total)-math.Pi) > 5e-2 {
				return bad("C06.large-arc", fmt.Sprintf("swept %g rad with largeArc=%v", total, c.La))
			}
		}
	}
	return
}

// ---------- gradients (C15) ----------

// monitorGradient: C15 — Gradient.At equals the piece-wise linear interpolation of the stops at the
// offset of the pixel centre (independent float64 evaluation, tolerance 2/65535 away from discontinuities),
// and is a valid premultiplied colour.
func monitorGradient(line string, rect image.Rectangle, smp []image.Point, cs []Call) (fails []Failure) {
	rec := &RecRaster{}
	var z render.Renderer
	z.SetRasterizer(rec, rect)
	var m vm
	var vb ivg.ViewBox
	defer func() {
		if p := recover(); p != nil {
			fails = append(fails, Failure{"C15.no-panic", line, fmt.Sprint(p)})
		}
	}()
	type expect struct {
		skip bool
		want [4]float64
		off  float64
	}
	var pending []expect
	for i, c := range cs {
		if c.Name == "rast" {
			rect = c.Rect
			rec.Fresh()
			z.SetRasterizer(rec, rect)
			continue
		}
		if !c.IsDest() {
			continue
		}
		if c.Name == "reset" {
			vb = c.VB
		}
		want, isStart := m.step(c, rect.Dy())
		nDraw := len(rec.Paints)
		c.Apply(&z)
		if isStart {
			pending = nil
			if !strings.HasPrefix(want, "G") {
				continue
			}
			col := m.creg[(m.csel-c.Adj)&0x3f]
			nStops, cBase, nBase := int(col.R&0x3f), col.G&0x3f, col.B&0x3f
			shape, spread := (col.B>>6)&1, col.G>>6
			var mat [6]float64
			for k := 0; k < 6; k++ {
				mat[k] = float64(m.nreg[(nBase-6+uint8(k))&0x3f])
			}
			type stop struct {
				off  float64
				rgba [4]float64
			}
			var stops []stop
			for k := 0; k < nStops; k++ {
				sc := m.creg[(cBase+uint8(k))&0x3f]
				stops = append(stops, stop{float64(m.nreg[(nBase+uint8(k))&0x3f]), [4]float64{float64(sc.R) * 257, float64(sc.G) * 257, float64(sc.B) * 257, float64(sc.A) * 257}})
			}
			// the viewBox-to-pixel scale is a float32 quantity (it is the map the Renderer draws geometry with)
			sx, sy := float64(float32(rect.Dx())/(vb.MaxX-vb.MinX)), float64(float32(rect.Dy())/(vb.MaxY-vb.MinY))
			for _, p := range smp {
				var e expect
				vx, vy := (float64(p.X)+0.5)/sx+float64(vb.MinX), (float64(p.Y)+0.5)/sy+float64(vb.MinY)
				gx, gy := mat[0]*vx+mat[1]*vy+mat[2], mat[3]*vx+mat[4]*vy+mat[5]
				off := gx
				if shape == 1 {
					off = math.Hypot(gx, gy)
				}
				e.off = off
				fr := off - math.Floor(off)
				// exact grid (scale 1, offsets multiples of 1/8, see gridGradient): the spread function and the
				// stop boundaries are evaluated exactly, so boundary semantics can be checked without tolerance
				exact := false
				if sx == 1 && sy == 1 && math.Abs(off) <= 64 && off*8 == math.Trunc(off*8) {
					o, transparent := off, false
					if off < 0 || off > 1 {
						switch spread {
						case 0:
							transparent = true
						case 1:
							o = math.Max(0, math.Min(1, off))
						case 3:
							o = off - math.Floor(off)
						default:
							o = math.Mod(math.Abs(off), 2)
							if o > 1 {
								o = 2 - o
							}
						}
					}
					if transparent {
						e.want, exact = [4]float64{}, true
					} else {
						for _, s := range stops {
							if s.off == o {
								e.want, exact = s.rgba, true
							}
						}
						if !exact && o < stops[0].off {
							e.want, exact = stops[0].rgba, true
						}
						if !exact && o > stops[len(stops)-1].off {
							e.want, exact = stops[len(stops)-1].rgba, true
						}
					}
				}
				if exact {
					e.off = off
					pending = append(pending, e)
					continue
				}
				if math.IsNaN(off) || math.IsInf(off, 0) || math.Abs(off) > 100 || math.IsInf(sx+sy, 0) || fr < 1e-6 || fr > 1-1e-6 {
					e.skip = true
					pending = append(pending, e)
					continue
				}
				var o float64
				transparent := false
				switch {
				case off >= 0 && off <= 1:
					o = off
				case spread == 0:
					transparent = true
				case spread == 1:
					o = math.Max(0, math.Min(1, off))
				case spread == 3:
					o = fr
				default:
					t := math.Mod(math.Abs(off), 2)
					if t > 1 {
						t = 2 - t
					}
					o = t
				}
				atStop := false
				for _, s := range stops {
					if o == s.off && !transparent {
						// exactly at a stop's offset the colour is that stop's colour, however close its neighbours are
						e.want, atStop = s.rgba, true
					} else if math.Abs(o-s.off) < 1e-6 {
						e.skip = true
					}
				}
				if atStop {
					e.skip = false
				}
				if !transparent && !e.skip && !atStop {
					switch {
					case o < stops[0].off:
						e.want = stops[0].rgba
					case o > stops[len(stops)-1].off:
						e.want = stops[len(stops)-1].rgba
					default:
						for k := 0; k+1 < len(stops); k++ {
							if stops[k].off <= o && o <= stops[k+1].off {
								t := (o - stops[k].off) / (stops[k+1].off - stops[k].off)
								for ch := 0; ch < 4; ch++ {
									e.want[ch] = (1-t)*stops[k].rgba[ch] + t*stops[k+1].rgba[ch]
								}
								break
							}
						}
					}
				}
				pending = append(pending, e)
			}
			continue
		}
		if c.Name == "Z" && len(rec.Paints) == nDraw+1 && pending != nil {
			src := rec.Paints[nDraw]
			// the pixel p of the target rectangle (relative to its corner) is painted with src.At(sp + p)
			sp := rec.SPs[nDraw]
			for k, p := range smp {
				r, g, b, a := src.At(sp.X+p.X, sp.Y+p.Y).RGBA()
				got := [4]float64{float64(r), float64(g), float64(b), float64(a)}
				if r > a || g > a || b > a {
					return append(fails, Failure{"C15.premultiplied", line, fmt.Sprintf("path ending at call %d: At(%d,%d) = %v is not a valid premultiplied colour", i, p.X, p.Y, got)})
				}
				if pending[k].skip {
					continue
				}
				for ch := 0; ch < 4; ch++ {
					if math.Abs(got[ch]-pending[k].want[ch]) > 2.5+1e-4*pending[k].want[ch] {
						return append(fails, Failure{"C15.interpolation", line, fmt.Sprintf("path ending at call %d: At(%d,%d) = %v, interpolation of the stops at offset %g gives %v", i, p.X, p.Y, got, pending[k].off, pending[k].want)})
					}
				}
			}
			pending = nil
		} else if c.Name == "Z" && len(rec.Paints) == nDraw && pending != nil {
			// the register machine prescribes a gradient paint for this path (valid gradient configuration, level of
			// detail in range) and the Renderer drew nothing (round 6, C19-L: configurations whose stop registers wrap past 63
			// refused by the Renderer alone)
			return append(fails, Failure{"C15.gradient-painted", line, fmt.Sprintf("path ending at call %d: the registers hold a valid gradient for it and nothing was drawn", i)})
		}
	}
	return
}

// ---------- generator gradient helpers (C19) ----------

func monitorC19(line string, ops []GenOp, h GenOp) (fails []Failure) {
	rec := &Recorder{}
	g := &generate.Generator{}
	g.SetDestination(rec)
	var m vm
	applied := 0
	sync := func() {
		for ; applied < len(rec.Calls); applied++ {
			m.step(rec.Calls[applied], 1)
		}
	}
	defer func() {
		if p := recover(); p != nil {
			fails = append(fails, Failure{"C19.no-panic", line, fmt.Sprint(p)})
		}
	}()
	for _, o := range ops {
		if o.Kind == "call" || o.Kind == "xf" || o.Kind == "path" {
			ApplyGen(g, o)
			sync()
			continue
		}
		cs0, ns0 := m.csel, m.nsel
		nBefore := len(rec.Calls)
		errText := ApplyGen(g, o)
		sync()
		bad := func(clause, msg string) []Failure {
			return append(fails, Failure{clause, line, fmt.Sprintf("%s: %s", o.String()[:minInt(len(o.String()), 120)], msg)})
		}
		n := len(o.Stops)
		inRange := false
		for k := 0; k < n && k < 64; k++ {
			if (10+k)&63 == int(cs0) {
				inRange = true
			}
		}
		switch {
		case n > 58:
			if errText != "ivg:_too_many_gradient_stops" || len(rec.Calls) != nBefore {
				return bad("C19.too-many-stops", fmt.Sprintf("%d stops: error %q, %d calls made", n, errText, len(rec.Calls)-nBefore))
			}
			continue
		case inRange:
			if errText != "ivg:_CSEL_used_as_both_gradient_and_stop" || len(rec.Calls) != nBefore {
				return bad("C19.csel-in-stop-range", fmt.Sprintf("CSEL=%d with %d stops: error %q, %d calls made", cs0, n, errText, len(rec.Calls)-nBefore))
			}
			continue
		}
		if errText != "ok" {
			return bad("C19.unexpected-error", errText)
		}
		if m.csel != cs0 || m.nsel != ns0 {
			return bad("C19.selectors-restored", fmt.Sprintf("CSEL/NSEL %d/%d before, %d/%d after", cs0, ns0, m.csel, m.nsel))
		}
		gc := m.creg[cs0]
		if !(gc.A == 0 && gc.B&0x80 != 0) {
			return bad("C19.gradient-value", fmt.Sprintf("CREG[CSEL] = %v is not a gradient", gc))
		}
		nStops, cBase, nBase := int(gc.R&0x3f), gc.G&0x3f, gc.B&0x3f
		shape, spread := (gc.B>>6)&1, gc.G>>6
		wantShape := uint8(1)
		if o.Kind == "lin" {
			wantShape = 0
		} else if o.Kind == "grad" {
			wantShape = o.Shape & 1
		}
		if nStops != n || shape != wantShape || spread != o.Spread&3 {
			return bad("C19.gradient-parameters", fmt.Sprintf("value names NSTOPS=%d shape=%d spread=%d, requested %d/%d/%d", nStops, shape, spread, n, wantShape, o.Spread&3))
		}
		for k, st := range o.Stops {
			r, gg, b, a := st.Color.RGBA()
			wc := color.RGBA{uint8(r >> 8), uint8(gg >> 8), uint8(b >> 8), uint8(a >> 8)}
			if m.creg[(cBase+uint8(k))&63] != wc || !(m.nreg[(nBase+uint8(k))&63] == st.Offset || st.Offset != st.Offset) {
				return bad("C19.stop-registers", fmt.Sprintf("stop %d is not in CREG/NREG[base+%d]", k, k))
			}
		}
		var M [6]float64
		for k := 0; k < 6; k++ {
			M[k] = float64(m.nreg[(nBase-6+uint8(k))&63])
		}
		ap := func(x, y float64) (float64, float64) { return M[0]*x + M[1]*y + M[2], M[3]*x + M[4]*y + M[5] }
		f := make([]float64, len(o.F))
		for k, v := range o.F {
			f[k] = float64(v)
		}
		const tol = 2e-4
		switch o.Kind {
		case "lin":
			a0, _ := ap(f[0], f[1])
			a1, _ := ap(f[2], f[3])
			p0, _ := ap(f[0]+(f[3]-f[1]), f[1]-(f[2]-f[0]))
			if math.Abs(a0) > tol || math.Abs(a1-1) > tol || math.Abs(p0) > tol*(1+math.Hypot(f[2]-f[0], f[3]-f[1])) {
				return bad("C19.linear-geometry", fmt.Sprintf("offset %g at (x1,y1), %g at (x2,y2), %g along the perpendicular", a0, a1, p0))
			}
		case "circ":
			cx, cy := ap(f[0], f[1])
			ex, ey := ap(f[0]+f[2], f[1]+f[3])
			if math.Hypot(cx, cy) > tol || math.Abs(math.Hypot(ex, ey)-1) > tol {
				return bad("C19.circular-geometry", fmt.Sprintf("centre maps to distance %g, the circle point to %g", math.Hypot(cx, cy), math.Hypot(ex, ey)))
			}
		case "ell":
			cx, cy := ap(f[0], f[1])
			ex, ey := ap(f[0]+f[2], f[1]+f[3])
			sx, sy := ap(f[0]+f[4], f[1]+f[5])
			if math.Hypot(cx, cy) > tol || math.Abs(math.Hypot(ex, ey)-1) > 5*tol || math.Abs(math.Hypot(sx, sy)-1) > 5*tol {
				return bad("C19.elliptical-geometry", fmt.Sprintf("centre %g, axis ends %g and %g", math.Hypot(cx, cy), math.Hypot(ex, ey), math.Hypot(sx, sy)))
			}
		case "grad":
			for k := 0; k < 6; k++ {
				if m.nreg[(nBase-6+uint8(k))&63] != o.Affs[0][k] {
					return bad("C19.matrix-registers", "the given matrix is not in NREG[NBASE-6..NBASE-1]")
				}
			}
		}
	}
	return
}

func minInt(a, b int) int {
	if a < b {
		return a
	}
	return b
}

// ---------- SVG path data (C20, generator dialect) ----------

var pathNumRe = regexp.MustCompile(`^[+-]?(?:\d*\.\d+|\d+)`)

// spellPath interprets path data per SVG (generator dialect) and returns the expected Destination
// calls with operands in float64 after the scale-and-translate transform (sx, sy, tx, ty).
func spellPath(d string, adj uint8, sx, sy, tx, ty float64) (out []struct {
	name string
	f    []float64
	la   bool
	sw   bool
}, ok bool) {
	type call = struct {
		name string
		f    []float64
		la   bool
		sw   bool
	}
	i := 0
	skipSep := func() {
		for i < len(d) && (d[i] == ' ' || d[i] == ',') {
			i++
		}
	}
	num := func() (float64, bool) {
		skipSep()
		m := pathNumRe.FindString(d[i:])
		if m == "" {
			return 0, false
		}
		i += len(m)
		v, err := strconv.ParseFloat(m, 64)
		return v, err == nil
	}
	verb := byte(0)
	first := true
	for i < len(d) {
		skipSep()
		if i >= len(d) {
			break
		}
		c := d[i]
		if c >= 'A' && c <= 'Z' || c >= 'a' && c <= 'z' {
			verb = c
			i++
			if c == 'z' || c == 'Z' {
				continue
			}
		} else if verb == 'M' {
			verb = 'L'
		} else if verb == 'm' {
			verb = 'l'
		}
		n := map[byte]int{'M': 2, 'L': 2, 'T': 2, 'H': 1, 'V': 1, 'Q': 4, 'S': 4, 'C': 6, 'A': 7}[verb&^0x20]
		if n == 0 {
			return nil, false
		}
		a := make([]float64, n)
		for k := range a {
			v, ok := num()
			if !ok {
				return nil, false
			}
			a[k] = v
		}
		rel := verb >= 'a'
		if first {
			rel = false // the first move starts the path with absolute coordinates
		}
		X := func(x float64) float64 {
			if rel {
				return sx * x
			}
			return sx*x + tx
		}
		Y := func(y float64) float64 {
			if rel {
				return sy * y
			}
			return sy*y + ty
		}
		var cl call
		switch verb &^ 0x20 {
		case 'M':
			if first {
				cl = call{name: "start", f: []float64{X(a[0]), Y(a[1])}}
			} else if rel {
				cl = call{name: "y", f: []float64{X(a[0]), Y(a[1])}}
			} else {
				cl = call{name: "Y", f: []float64{X(a[0]), Y(a[1])}}
			}
		case 'H':
			cl = call{name: string(verb), f: []float64{X(a[0])}}
		case 'V':
			cl = call{name: string(verb), f: []float64{Y(a[0])}}
		case 'A':
			cl = call{name: string(verb), f: []float64{sx * a[0], sy * a[1], a[2] / 360, X(a[5]), Y(a[6])}, la: a[3] != 0, sw: a[4] != 0}
		default:
			f := make([]float64, n)
			for k := 0; k < n; k += 2 {
				f[k], f[k+1] = X(a[k]), Y(a[k+1])
			}
			cl = call{name: string(verb), f: f}
		}
		first = false
		out = append(out, cl)
	}
	out = append(out, call{name: "Z"})
	return out, true
}

func monitorPathData(line string, ops []GenOp, obs string) (fails []Failure) {
	sx, sy, tx, ty := 1.0, 1.0, 0.0, 0.0
	for oi, o := range ops {
		if o.Kind == "xf" {
			sx, sy, tx, ty = 1, 1, 0, 0
			for _, a := range o.Affs { // scale-and-translate transforms composed in order
				sx, tx = sx*float64(a[0]), tx*float64(a[0])+float64(a[2])
				sy, ty = sy*float64(a[4]), ty*float64(a[4])+float64(a[5])
			}
		}
		if o.Kind != "path" {
			continue
		}
		want, ok := spellPath(o.Path, o.Adj, sx, sy, tx, ty)
		if !ok {
			return nil
		}
		// one Generator lives through the whole history: the transforms configured before this path, and the
		// paths emitted before it, precede it on the same object
		rec := &Recorder{}
		g := &generate.Generator{}
		g.SetDestination(rec)
		for _, p := range ops[:oi] {
			func() {
				defer func() { recover() }()
				ApplyGen(g, p)
			}()
		}
		rec.Calls = nil
		var perr string
		func() {
			defer func() {
				if p := recover(); p != nil {
					perr = fmt.Sprint("panic: ", p)
				}
			}()
			if err := g.SetPathData(o.Path, o.Adj); err != nil {
				perr = err.Error()
			}
		}()
		bad := func(msg string) []Failure {
			return append(fails, Failure{"C20.path-as-spelled", line, fmt.Sprintf("path %q: %s", o.Path, msg)})
		}
		if perr != "" {
			return bad("well-formed path data rejected: " + perr)
		}
		if len(rec.Calls) != len(want) {
			return bad(fmt.Sprintf("%d calls emitted, the path spells %d", len(rec.Calls), len(want)))
		}
		for k, w := range want {
			gc := rec.Calls[k]
			if gc.Name != w.name || len(gc.F) != len(w.f) || gc.La != w.la || gc.Sw != w.sw || (w.name == "start" && gc.Adj != o.Adj) {
				return bad(fmt.Sprintf("call %d is %s, the path spells %s", k, gc.String(), w.name))
			}
			for j := range w.f {
				if math.Abs(float64(gc.F[j])-w.f[j]) > 1e-4*(1+math.Abs(w.f[j])) {
					return bad(fmt.Sprintf("call %d (%s) operand %d = %g, expected %g", k, w.name, j, gc.F[j], w.f[j]))
				}
			}
		}
	}
	return
}

// ---------- monitors addressable by case line (for the violation search, shrinking and replay) ----------

func parseRenCase(line string) (rect image.Rectangle, smp []image.Point, cs []Call, ok bool) {
	parts := strings.SplitN(line, "|", 2)
	if len(parts) != 2 {
		return
	}
	hdr := strings.Fields(parts[0])
	if len(hdr) != 6 || hdr[0] != "ren" {
		return
	}
	var v [4]int
	for i := 0; i < 4; i++ {
		x, err := strconv.Atoi(hdr[i+1])
		if err != nil {
			return
		}
		v[i] = x
	}
	smp, err := parsePoints(hdr[5])
	if err != nil {
		return
	}
	cs, err = ParseCalls(parts[1])
	if err != nil {
		return
	}
	return image.Rect(v[0], v[1], v[2], v[3]), smp, cs, true
}

func init() {
	Monitors["C04"] = func(line string) []Failure {
		if rect, _, cs, ok := parseRenCase(line); ok {
			return monitorVM(line, rect, cs)
		}
		return nil
	}
	Monitors["C05"] = func(line string) []Failure {
		if rect, _, cs, ok := parseRenCase(line); ok {
			return monitorGeometry(line, rect, cs)
		}
		return nil
	}
	Monitors["C06"] = func(line string) []Failure {
		if rect, _, cs, ok := parseRenCase(line); ok {
			return monitorArcs(line, rect, cs)
		}
		return nil
	}
	Monitors["C15"] = func(line string) []Failure {
		if rect, smp, cs, ok := parseRenCase(line); ok {
			return monitorGradient(line, rect, smp, cs)
		}
		return nil
	}
	Monitors["C13"] = func(line string) []Failure {
		parts := strings.SplitN(line, "|", 2)
		if len(parts) != 2 {
			return nil
		}
		b, err := ParseBytes(parts[1])
		if err != nil {
			return nil
		}
		return monitorC13(line, b)
	}
	Monitors["C03"] = func(line string) []Failure { return nil }
}

// ---------- Material Design converter (C20): opacity registers, circles, path framing ----------

// monitorMdi checks the converter clauses of C20 that do not depend on the path-data dialect: a path
// opacity becomes a blend of transparent (0x7f) with the first palette colour (0x80) in a register of
// its own, one register per distinct opacity in order of first appearance, reused afterwards; the
// path starts with that register adjustment, is ended exactly once, and every circle is a move (or
// the path start) to its leftmost point followed by two half-turn relative arcs, after the path data.
func monitorMdi(line string, size float32, off f32.Vec2, outSize float32, paths []MdPath) (fails []Failure) {
	rec := &Recorder{}
	adjs := map[float32]uint8{}
	seen := map[float32]uint8{}
	bad := func(k int, msg string) []Failure {
		return append(fails, Failure{"C20.converter", line, fmt.Sprintf("path %d: %s", k, msg)})
	}
	for k, p := range paths {
		mp := &mdicons.Path{D: p.D}
		if p.Opacity != 1 {
			o := p.Opacity
			mp.Opacity = &o
		}
		before := len(rec.Calls)
		var err error
		perr := ""
		func() {
			defer func() {
				if x := recover(); x != nil {
					perr = fmt.Sprint(x)
				}
			}()
			err = mdicons.ParsePath(rec, mp, adjs, size, off, outSize, p.Circles)
		}()
		if perr != "" {
			return bad(k, "panic: "+perr)
		}
		if err != nil {
			return bad(k, fmt.Sprintf("well-formed path (opacity %g, %d distinct opacities before it) rejected: %v", p.Opacity, len(seen), err))
		}
		seg := rec.Calls[before:]
		wantAdj := uint8(0)
		if p.Opacity != 1 {
			a, ok := seen[p.Opacity]
			if !ok {
				a = uint8(len(seen) + 1)
				seen[p.Opacity] = a
				if len(seg) == 0 || seg[0].Name != "creg" || seg[0].Adj != a || seg[0].Incr || seg[0].Col != ivg.BlendColor(uint8(p.Opacity*0xff), 0x7f, 0x80) {
					return bad(k, fmt.Sprintf("first use of opacity %g: expected SetCReg(%d, false, blend(%d, 0x7f, 0x80)) first", p.Opacity, a, uint8(p.Opacity*0xff)))
				}
				seg = seg[1:]
			}
			wantAdj = a
		}
		if len(seg) < 2 || seg[0].Name != "start" || seg[0].Adj != wantAdj {
			return bad(k, fmt.Sprintf("expected StartPath with register adjustment %d (opacity %g) at the head of the path", wantAdj, p.Opacity))
		}
		for j, c := range seg {
			if (c.Name == "Z") != (j == len(seg)-1) || (c.Name == "start" && j != 0) || c.Name == "creg" {
				return bad(k, fmt.Sprintf("call %d of the path is %s: the path is started once, ended exactly once at its end, and sets no further register", j, c.Name))
			}
		}
		// the circles, after the path data
		body := seg[:len(seg)-1]
		if len(body) < 3*len(p.Circles) {
			return bad(k, "circles missing")
		}
		// the path data itself, as spelled: absolute coordinates scaled by outSize/size and moved by -(outSize/2 + offset)
		// PER AXIS (a lone H operand is an x, a lone V operand a y), relative ones only scaled
		if p.D != "" {
			sc := float64(outSize) / float64(size)
			if want, ok := spellPath(p.D, wantAdj, sc, sc, -(float64(outSize)/2 + float64(off[0])), -(float64(outSize)/2 + float64(off[1]))); ok &&
				len(want) > 0 && want[len(want)-1].name == "Z" && len(want)-1 == len(body)-3*len(p.Circles) {
				for j, w := range want[:len(want)-1] {
					gc := body[j]
					if gc.Name != w.name || len(gc.F) != len(w.f) || gc.La != w.la || gc.Sw != w.sw {
						return bad(k, fmt.Sprintf("path %q: call %d is %s, the path spells %s", p.D, j, gc.String(), w.name))
					}
					for q := range w.f {
						if math.Abs(float64(gc.F[q])-w.f[q]) > 1e-4*(1+math.Abs(w.f[q])) {
							return bad(k, fmt.Sprintf("path %q (size %g, offset %v, outSize %g): call %d (%s) operand %d = %g, expected %g", p.D, size, off, outSize, j, w.name, q, gc.F[q], w.f[q]))
						}
					}
				}
			}
		}
		tail := body[len(body)-3*len(p.Circles):]
		for ci, c := range p.Circles {
			cx := float64(c.Cx)*float64(outSize)/float64(size) - (float64(outSize)/2 + float64(off[0]))
			cy := float64(c.Cy)*float64(outSize)/float64(size) - (float64(outSize)/2 + float64(off[1]))
			rr := float64(c.R) * float64(outSize) / float64(size)
			mv, a1, a2 := tail[3*ci], tail[3*ci+1], tail[3*ci+2]
			near := func(g float32, w float64) bool { return math.Abs(float64(g)-w) <= 1e-4*(1+math.Abs(w)) }
			first := p.D == "" && ci == 0
			if (first && mv.Name != "start") || (!first && mv.Name != "Y") || !near(mv.F[0], cx-rr) || !near(mv.F[1], cy) {
				return bad(k, fmt.Sprintf("circle %d: expected a move to (%g,%g), got %s", ci, cx-rr, cy, mv.String()))
			}
			for ai, a := range []Call{a1, a2} {
				dx := 2 * rr
				if ai == 1 {
					dx = -dx
				}
				if a.Name != "a" || !near(a.F[0], rr) || !near(a.F[1], rr) || a.F[2] != 0 || a.La || !a.Sw || !near(a.F[3], dx) || a.F[4] != 0 {
					return bad(k, fmt.Sprintf("circle %d: expected a half-turn relative arc of radius %g by (%g,0), got %s", ci, rr, dx, a.String()))
				}
			}
		}
	}
	return
}
